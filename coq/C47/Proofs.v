(* C47 — proofs, part 1: decimal numbers, partition / rpartition, the host/port split,
   totality of environ, the fixed CGI values. *)
From Coq Require Import List NArith ZArith Bool String Lia.
Import ListNotations.
From TV Require Import Lib.Obs Lib.C21_Utf8 Lib.C21_Pct C47.Model C47.Run.
Local Open Scope N_scope.

(* ---------------- text equality ---------------- *)
Lemma text_eqb_refl a : text_eqb a a = true.
Proof. induction a as [|x a IH]; [reflexivity|]. cbn [text_eqb]. rewrite N.eqb_refl. exact IH. Qed.

Lemma text_eqb_eq a : forall b, text_eqb a b = true <-> a = b.
Proof.
  induction a as [|x a IH]; intros [|y b]; cbn [text_eqb]; split; intros H; try reflexivity; try discriminate.
  - apply andb_true_iff in H as [H1 H2]. apply N.eqb_eq in H1. apply IH in H2. congruence.
  - inversion H; subst. rewrite N.eqb_refl. apply IH. reflexivity.
Qed.

Lemma text_eqb_neq a b : text_eqb a b = false <-> a <> b.
Proof.
  split.
  - intros H E. apply text_eqb_eq in E. congruence.
  - intros H. destruct (text_eqb a b) eqn:E; [|reflexivity]. apply text_eqb_eq in E. contradiction.
Qed.

(* ---------------- decimal ---------------- *)
Lemma is_digit_spec c : is_digit c = true <-> 48 <= c <= 57.
Proof. unfold is_digit, in_range. rewrite andb_true_iff, !N.leb_le. tauto. Qed.

Lemma digits_to_N_app l : forall acc d, digits_to_N acc (l ++ [d]) = 10 * digits_to_N acc l + (d - 48).
Proof. induction l as [|c l IH]; intros acc d; simpl; [reflexivity|apply IH]. Qed.

Lemma dec_fuel_spec : forall f n,
    n < 10 ^ N.of_nat f -> (0 < f)%nat ->
    forallb is_digit (dec_fuel f n) = true /\ dec_fuel f n <> [] /\
    digits_to_N 0 (dec_fuel f n) = n /\
    (exists c r, dec_fuel f n = c :: r /\ (c = 48 -> r = [])).
Proof.
  induction f as [|f IH]; intros n Hn Hf; [lia|].
  cbn [dec_fuel]. destruct (n <? 10) eqn:E.
  - apply N.ltb_lt in E. repeat split.
    + cbn [forallb]. rewrite andb_true_r. apply is_digit_spec. lia.
    + discriminate.
    + cbn [digits_to_N]. lia.
    + exists (48 + n), []. split; [reflexivity|reflexivity].
  - apply N.ltb_ge in E.
    assert (Hq : n / 10 < 10 ^ N.of_nat f).
    { apply N.div_lt_upper_bound; [lia|]. rewrite Nat2N.inj_succ, N.pow_succ_r' in Hn. lia. }
    assert (H1q : 1 <= n / 10) by (apply N.div_le_lower_bound; lia).
    assert (Hf' : (0 < f)%nat).
    { destruct f; [|lia]. simpl in Hq. lia. }
    destruct (IH (n / 10) Hq Hf') as [H1 [H2 [H3 H4]]].
    assert (Hm : n mod 10 < 10) by (apply N.mod_lt; lia).
    repeat split.
    + rewrite forallb_app, H1. cbn [forallb]. rewrite andb_true_r. apply is_digit_spec. lia.
    + destruct (dec_fuel f (n / 10)); [contradiction|discriminate].
    + rewrite digits_to_N_app, H3.
      replace (48 + n mod 10 - 48) with (n mod 10) by lia.
      rewrite (N.div_mod n 10) at 3 by lia. reflexivity.
    + destruct H4 as [c [r [Hc Hz]]]. rewrite Hc. exists c, (r ++ [48 + n mod 10]). split; [reflexivity|].
      intros ->. specialize (Hz eq_refl). subst r. rewrite Hc in H3. cbn [digits_to_N] in H3. lia.
Qed.

Lemma dec_N_fuel_ok n : n < 10 ^ N.of_nat (S (N.to_nat (N.log2 n))).
Proof.
  rewrite Nat2N.inj_succ, N2Nat.id.
  destruct (N.eq_dec n 0) as [->|Hn]; [reflexivity|].
  assert (H := N.log2_spec n ltac:(lia)). destruct H as [_ H].
  eapply N.lt_le_trans; [exact H|]. apply N.pow_le_mono_l. lia.
Qed.

Lemma dec_N_spec n :
  forallb is_digit (dec_N n) = true /\ dec_N n <> [] /\ digits_to_N 0 (dec_N n) = n /\
  (exists c r, dec_N n = c :: r /\ (c = 48 -> r = [])).
Proof. apply dec_fuel_spec; [apply dec_N_fuel_ok|lia]. Qed.

(* str(n) parses back to n and has no superfluous leading zero *)
Lemma int_digits_dec_N n : int_digits (dec_N n) = Some n.
Proof.
  destruct (dec_N_spec n) as [H1 [H2 [H3 _]]]. unfold int_digits.
  destruct (dec_N n) eqn:E; [contradiction|]. rewrite H1, H3. reflexivity.
Qed.

Lemma canonical_dec_N n : canonical_dec (dec_N n) = true.
Proof.
  destruct (dec_N_spec n) as [H1 [_ [_ [c [r [E Hz]]]]]]. rewrite E in *. unfold canonical_dec.
  destruct r as [|d r].
  - cbn [forallb] in H1. apply andb_true_iff in H1 as [H1 _]. exact H1.
  - rewrite H1. cbn [andb]. destruct (c =? 48) eqn:Ec; [|reflexivity].
    apply N.eqb_eq in Ec. specialize (Hz Ec). discriminate.
Qed.

(* ---------------- partition / rpartition ---------------- *)
Lemma partition1_spec sep s : forall a f b,
  partition1 sep s = (a, f, b) ->
  ~ In sep a /\ (if f then s = a ++ sep :: b else s = a /\ b = []).
Proof.
  induction s as [|c s IH]; intros a f b H; cbn [partition1] in H.
  - inversion H; subst. split; [intros []|split; reflexivity].
  - destruct (c =? sep) eqn:E.
    + inversion H; subst. apply N.eqb_eq in E. subst. split; [intros []|reflexivity].
    + destruct (partition1 sep s) as [[a' f'] b'] eqn:P. inversion H; subst.
      destruct (IH _ _ _ eq_refl) as [Hn Hs]. apply N.eqb_neq in E. split.
      * intros [Hc|Hin]; [congruence|contradiction].
      * destruct f; [rewrite Hs at 1; reflexivity|]. destruct Hs as [-> ->]. split; reflexivity.
Qed.

Lemma partition1_app sep a b : ~ In sep a -> partition1 sep (a ++ sep :: b) = (a, true, b).
Proof.
  induction a as [|c a IH]; intros H; cbn [app partition1].
  - rewrite N.eqb_refl. reflexivity.
  - assert (c <> sep) by (intros ->; apply H; left; reflexivity).
    replace (c =? sep) with false by (symmetry; apply N.eqb_neq; assumption).
    rewrite IH by (intros Hin; apply H; right; exact Hin). reflexivity.
Qed.

Lemma partition1_none sep s : ~ In sep s -> partition1 sep s = (s, false, []).
Proof.
  induction s as [|c s IH]; intros H; cbn [partition1]; [reflexivity|].
  assert (c <> sep) by (intros ->; apply H; left; reflexivity).
  replace (c =? sep) with false by (symmetry; apply N.eqb_neq; assumption).
  rewrite IH by (intros Hin; apply H; right; exact Hin). reflexivity.
Qed.

Lemma rpartition1_app sep a b : ~ In sep b -> rpartition1 sep (a ++ sep :: b) = (a, true, b).
Proof.
  intros H. unfold rpartition1. rewrite rev_app_distr. cbn [rev]. rewrite <- app_assoc. cbn [app].
  rewrite partition1_app by (rewrite <- in_rev; exact H). rewrite !rev_involutive. reflexivity.
Qed.

Lemma rpartition1_none sep s : ~ In sep s -> rpartition1 sep s = ([], false, s).
Proof.
  intros H. unfold rpartition1. rewrite partition1_none by (rewrite <- in_rev; exact H). reflexivity.
Qed.

Lemma rpartition1_spec sep s a f b :
  rpartition1 sep s = (a, f, b) ->
  if f then s = a ++ sep :: b /\ ~ In sep b else ~ In sep s /\ a = [] /\ b = s.
Proof.
  unfold rpartition1. destruct (partition1 sep (rev s)) as [[x g] y] eqn:P.
  destruct (partition1_spec _ _ _ _ _ P) as [Hn Hs]. destruct g; intros H; inversion H; subst.
  - split; [|rewrite <- in_rev; exact Hn].
    rewrite <- (rev_involutive s), Hs, rev_app_distr. cbn [rev]. rewrite <- app_assoc. reflexivity.
  - destruct Hs as [Hs _]. split; [|split; reflexivity]. rewrite in_rev, Hs. exact Hn.
Qed.

Lemma digits_no_colon ds : forallb is_digit ds = true -> ~ In 58 ds.
Proof.
  intros H Hin. rewrite forallb_forall in H. apply H in Hin. apply is_digit_spec in Hin. lia.
Qed.

(* ---------------- the host / port split ---------------- *)
Lemma split_host_total host https : exists h p, split_host host https = inl (h, p).
Proof.
  unfold split_host. destruct (rpartition1 58 host) as [[h sep] ps].
  destruct (sep && Nat.leb (List.length ps) 5 && match ps with [] => true | _ => forallb is_digit ps end) eqn:G.
  - destruct ps as [|c ps']; [eauto|].
    apply andb_true_iff in G as [_ G]. unfold int_digits. rewrite G. eauto.
  - eauto.
Qed.

Definition default_port (https : bool) : N := if https then 443 else 80.
Definition port_of (https : bool) (ds : text) : N :=
  match ds with [] => default_port https | _ => digits_to_N 0 ds end.

(* name ":" digits *)
Lemma split_host_with_port name ds https :
  forallb is_digit ds = true -> (List.length ds <= 5)%nat ->
  split_host (name ++ 58 :: ds) https = inl (name, port_of https ds).
Proof.
  intros Hd Hl. unfold split_host. rewrite rpartition1_app by (apply digits_no_colon; exact Hd).
  cbn [andb]. replace (Nat.leb (List.length ds) 5) with true by (symmetry; apply Nat.leb_le; exact Hl).
  cbn [andb]. destruct ds as [|d ds']; [reflexivity|]. rewrite Hd. unfold int_digits. rewrite Hd. reflexivity.
Qed.

(* a name without a colon, no port *)
Lemma split_host_plain name https :
  ~ In 58 name -> split_host name https = inl (name, default_port https).
Proof. intros H. unfold split_host. rewrite rpartition1_none by exact H. reflexivity. Qed.

Lemma last_app_single {A} (l : list A) x d : last (l ++ [x]) d = x.
Proof.
  induction l as [|a l IH]; [reflexivity|]. simpl. destruct (l ++ [x]) eqn:E; [destruct l; discriminate|].
  exact IH.
Qed.

Lemma forallb_last (p : N -> bool) l d : l <> [] -> forallb p l = true -> p (last l d) = true.
Proof.
  intros Hne H. destruct (exists_last Hne) as [l' [x ->]]. rewrite last_app_single.
  rewrite forallb_app in H. apply andb_true_iff in H as [_ H]. cbn [forallb] in H.
  apply andb_true_iff in H as [H _]. exact H.
Qed.

(* a bracketed literal "[...]" (which may contain colons), no port *)
Lemma split_host_bracketed x https :
  split_host (x ++ [93]) https = inl (x ++ [93], default_port https).
Proof.
  unfold split_host. destruct (rpartition1 58 (x ++ [93])) as [[h sep] ps] eqn:R.
  apply rpartition1_spec in R. destruct sep.
  - destruct R as [Hs Hn]. cbn [andb].
    destruct ps as [|c ps'].
    + exfalso. assert (E : last (x ++ [93]) 0 = last (h ++ [58]) 0) by (rewrite Hs; reflexivity).
      rewrite !last_app_single in E. discriminate.
    + assert (Hl : last (c :: ps') 0 = 93).
      { assert (E : last (x ++ [93]) 0 = last (h ++ 58 :: c :: ps') 0) by (rewrite Hs; reflexivity).
        rewrite last_app_single in E.
        replace (h ++ 58 :: c :: ps') with ((h ++ [58]) ++ c :: ps') in E by (rewrite <- app_assoc; reflexivity).
        destruct (@exists_last _ (c :: ps') ltac:(discriminate)) as [l' [y Ey]].
        rewrite Ey in *. rewrite app_assoc, last_app_single in E. rewrite last_app_single. congruence. }
      destruct (forallb is_digit (c :: ps')) eqn:D.
      * exfalso. apply (forallb_last is_digit _ 0) in D; [|discriminate]. rewrite Hl in D. discriminate.
      * rewrite andb_false_r. reflexivity.
  - reflexivity.
Qed.

(* ---------------- the left-to-right reading agrees ---------------- *)
Lemma host_spec_form h n ds :
  host_spec h = Some (n, ds) ->
  forallb is_digit ds = true /\ (List.length ds <= 5)%nat /\
  ((ds = [] /\ h = n /\ (~ In 58 n \/ exists x, n = x ++ [93])) \/ h = n ++ 58 :: ds \/ (ds = [] /\ h = n ++ [58])).
Proof.
  unfold host_spec. intros H.
  assert (Hrest : forall name rest,
     match rest with
     | [] => Some (name, [])
     | c :: ds0 => if (c =? 58) && forallb is_digit ds0 && Nat.leb (List.length ds0) 5 then Some (name, ds0) else None
     end = Some (n, ds) ->
     name = n /\ forallb is_digit ds = true /\ (List.length ds <= 5)%nat /\ (rest = [] /\ ds = [] \/ rest = 58 :: ds)).
  { intros name rest E. destruct rest as [|c ds0].
    - inversion E; subst. repeat split; [cbn; lia|left; split; reflexivity].
    - destruct ((c =? 58) && forallb is_digit ds0 && Nat.leb (List.length ds0) 5) eqn:G; [|discriminate].
      inversion E; subst. apply andb_true_iff in G as [G G3]. apply andb_true_iff in G as [G1 G2].
      apply N.eqb_eq in G1. subst. apply Nat.leb_le in G3. repeat split; try assumption. right. reflexivity. }
  assert (Hfin : forall name rest, h = name ++ rest -> (~ In 58 name \/ exists x, name = x ++ [93]) ->
     name = n /\ forallb is_digit ds = true /\ (List.length ds <= 5)%nat /\ (rest = [] /\ ds = [] \/ rest = 58 :: ds) ->
     forallb is_digit ds = true /\ (List.length ds <= 5)%nat /\
     ((ds = [] /\ h = n /\ (~ In 58 n \/ exists x, n = x ++ [93])) \/ h = n ++ 58 :: ds \/ (ds = [] /\ h = n ++ [58]))).
  { intros name rest Eh Hname [-> [Hd [Hl [[-> ->] | ->]]]]; split; try assumption; split; try assumption.
    - left. rewrite app_nil_r in Eh. auto.
    - right. left. exact Eh. }
  destruct h as [|c0 h0].
  - cbn [partition1] in H. apply (Hrest [] []) in H. apply (Hfin [] []); [reflexivity|left; intros []|exact H].
  - destruct (c0 =? 91) eqn:E91.
    + apply N.eqb_eq in E91. subst c0.
      destruct (partition1 93 (91 :: h0)) as [[a f] b] eqn:P.
      destruct (partition1_spec _ _ _ _ _ P) as [_ Hs]. destruct f; [|discriminate].
      apply Hrest in H. apply (Hfin (a ++ [93]) b); [rewrite <- app_assoc; exact Hs|right; eauto|exact H].
    + assert (Hsame : match c0 with 91 => None | _ => Some tt end = Some tt -> True) by trivial.
      assert (H' : match (let '(a, f, b) := partition1 58 (c0 :: h0) in Some (a, if f then 58 :: b else []))
                   with
                   | None => None
                   | Some (name, []) => Some (name, [])
                   | Some (name, c :: ds0) =>
                       if (c =? 58) && forallb is_digit ds0 && Nat.leb (List.length ds0) 5 then Some (name, ds0) else None
                   end = Some (n, ds)).
      { apply N.eqb_neq in E91. destruct c0 as [|p]; [exact H|].
        do 7 (destruct p as [p|p|]; try exact H). contradiction. }
      clear H. destruct (partition1 58 (c0 :: h0)) as [[a f] b] eqn:P.
      destruct (partition1_spec _ _ _ _ _ P) as [Hn Hs]. apply Hrest in H'.
      destruct f.
      * apply (Hfin a (58 :: b)); [exact Hs|left; exact Hn|exact H'].
      * destruct Hs as [Hs _]. apply (Hfin a []); [rewrite app_nil_r; exact Hs|left; exact Hn|exact H'].
Qed.

Lemma split_host_agrees_with_spec h n ds https :
  host_spec h = Some (n, ds) -> split_host h https = inl (n, port_of https ds).
Proof.
  intros H. apply host_spec_form in H as [Hd [Hl [[-> [-> Hn]] | [-> | [-> ->]]]]].
  - destruct Hn as [Hn|[x ->]]; [apply split_host_plain; exact Hn|apply split_host_bracketed].
  - apply split_host_with_port; assumption.
  - apply (split_host_with_port n [] https); [reflexivity|cbn; lia].
Qed.

(* ---------------- environ is always built ---------------- *)
Lemma partition1_fst_incl sep s a f b : partition1 sep s = (a, f, b) -> incl a s.
Proof.
  intros H. destruct (partition1_spec _ _ _ _ _ H) as [_ Hs]. destruct f.
  - rewrite Hs. apply incl_appl, incl_refl.
  - destruct Hs as [-> _]. apply incl_refl.
Qed.

Lemma field_vchar_byte c : field_vchar c = true -> c < 256.
Proof. unfold field_vchar, in_range. lia. Qed.

(* PATH_INFO of a path made of byte values (everything the wire can deliver) is the
   percent-decoding of exactly those bytes *)
Lemma path_info_bytes p : Forall (fun c => c < 256) p -> path_info p = Some (unquote_bytes p).
Proof.
  intros H. unfold path_info, path_bytes.
  replace (forallb (fun c => c <? 256) p) with true; [reflexivity|].
  symmetry. apply forallb_forall. intros c Hc. rewrite Forall_forall in H. specialize (H c Hc). lia.
Qed.

Lemma accept_path_chars r a : accept r = Some a -> Forall (fun c => field_vchar c = true) (q_path a).
Proof.
  unfold accept. intros H.
  destruct (negb (is_token (r_method r))); [discriminate|].
  destruct (r_uri r) as [|u0 us] eqn:Eu; [discriminate|].
  destruct (negb (forallb field_vchar (u0 :: us))) eqn:Ev; [discriminate|].
  destruct (hdr_add_all [] (map strip_value (r_headers r))) as [hm|]; [|discriminate].
  destruct (match hm_get k_host hm with Some v => Some v | None => if r_v11 r then None else Some (t "127.0.0.1") end) as [hv|];
    [|discriminate].
  destruct (negb (host_abnf hv)); [discriminate|].
  destruct (existsb (N.eqb 44) hv); [discriminate|].
  destruct (partition1 63 (u0 :: us)) as [[p f] q] eqn:P. inversion H; subst. cbn [q_path].
  apply negb_false_iff in Ev. rewrite forallb_forall in Ev.
  apply Forall_forall. intros c Hc. apply Ev. eapply partition1_fst_incl; eassumption.
Qed.

Lemma accept_path_bytes r a : accept r = Some a -> Forall (fun c => c < 256) (q_path a).
Proof.
  intros Ha. eapply Forall_impl; [|exact (accept_path_chars r a Ha)]. intros c Hc. apply field_vchar_byte. exact Hc.
Qed.

Lemma environ_total r a : accept r = Some a -> exists e, environ r a = EnvOk e.
Proof.
  intros Ha. unfold environ.
  destruct (split_host_total (q_host a) (q_https a)) as [h [p ->]].
  rewrite (path_info_bytes _ (accept_path_bytes r a Ha)).
  destruct (hm_get k_ctype (q_headers a)); destruct (hm_get k_clen _); eauto.
Qed.

(* the fixed values *)
Lemma environ_fixed r a e :
  environ r a = EnvOk e ->
  e_method e = r_method r /\ e_query e = q_query a /\ e_remote e = q_remote a /\
  e_protocol e = (if r_v11 r then t "HTTP/1.1" else t "HTTP/1.0") /\
  e_scheme e = (if q_https a then t "https" else t "http") /\ e_input e = r_body r /\
  path_info (q_path a) = Some (e_path e) /\
  exists p, split_host (q_host a) (q_https a) = inl (e_name e, p) /\ e_port e = dec_N p.
Proof.
  unfold environ. destruct (split_host (q_host a) (q_https a)) as [[h p]|]; [|discriminate].
  destruct (path_info (q_path a)) as [pi|]; [|discriminate].
  destruct (hm_get k_ctype (q_headers a)); destruct (hm_get k_clen _); intros H; inversion H; subst; cbn;
    repeat split; eauto.
Qed.

(* any byte string a client percent-encodes (with any safe set that keeps '%' encoded and is
   ASCII) arrives intact *)
Lemma path_info_roundtrip safe bs :
  (forall x, safe x = true -> x <> 37) -> (forall x, safe x = true -> x < 128) -> Forall (fun b => b < 256) bs ->
  path_info (quote_from_bytes safe bs) = Some bs.
Proof.
  intros H1 H2 Hb. rewrite path_info_bytes.
  - rewrite unquote_bytes_quote by assumption. reflexivity.
  - eapply Forall_impl; [|apply quote_ascii; eassumption]. cbv beta. intros c Hc. lia.
Qed.
