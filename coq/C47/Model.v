(* C47 — tornado.wsgi.WSGIContainer: the WSGI environ built from a request accepted by the
   HTTP server and the response produced from the WSGI application's output, down to the
   bytes HTTP1Connection.write_headers hands to the transport.  Executable model of

     wsgi.py            WSGIContainer.environ, WSGIContainer.handle_request, _path_bytes (after fixes
                        c742a14, a2172c8, 9dbe448)
     httputil.py        _normalize_header, HTTPHeaders.add / __setitem__ / __contains__ /
                        __getitem__ / pop / items / get_all, _ABNF.token / field_value / host,
                        HTTPServerRequest.__init__ (Host rules, uri.partition("?"))
     escape.py          url_unescape(encoding=None, plus=False) = urllib.parse.unquote_to_bytes
                        (Lib/C21_Pct.v) of the path bytes (UTF-8 fallback: Lib/C21_Utf8.v)
     http1connection.py HTTP1Connection._can_keep_alive, write_headers (server side, after fix 92da2a1),
                        _format_chunk, parse_int, the Content-Length check of finish

   Text (str) is a list of code points, bytes a list of byte values; both [list N].
   Definitions only. *)
From Coq Require Import List NArith ZArith Bool String Ascii.
Import ListNotations.
From TV Require Import Lib.C21_Utf8 Lib.C21_Pct.
From TV Require C32.Model.      (* _HTTPRequestContext._apply_xheaders, remote_ip part; qualified use only *)
Local Open Scope N_scope.

Definition text := list N.

Fixpoint t (s : string) : text :=
  match s with EmptyString => [] | String a r => N_of_ascii a :: t r end.

Fixpoint text_eqb (a b : text) : bool :=
  match a, b with
  | [], [] => true
  | x :: a', y :: b' => (x =? y) && text_eqb a' b'
  | _, _ => false
  end.

Definition CRLF : text := [13; 10].

(* ---------- character classes (httputil._ABNF) ---------- *)
Definition is_digit (c : N) : bool := in_range 48 57 c.
Definition is_alpha (c : N) : bool := in_range 65 90 c || in_range 97 122 c.
(* tchar = [!#$%&'*+\-.^_`|~0-9A-Za-z] *)
Definition is_tchar (c : N) : bool :=
  is_digit c || is_alpha c ||
  existsb (N.eqb c) [33; 35; 36; 37; 38; 39; 42; 43; 45; 46; 94; 95; 96; 124; 126].
Definition is_token (s : text) : bool :=
  match s with [] => false | _ => forallb is_tchar s end.
(* field_vchar = VCHAR | obs_text *)
Definition field_vchar (c : N) : bool := in_range 33 126 c || in_range 128 255 c.
Definition is_hws (c : N) : bool := (c =? 32) || (c =? 9).          (* HTTP_WHITESPACE = " \t" *)
(* field_value = "" | fv | fv (fv | SP | HTAB)* fv *)
Definition field_value_ok (s : text) : bool :=
  match s with
  | [] => true
  | c :: _ => field_vchar c && field_vchar (last s 0) && forallb (fun x => field_vchar x || is_hws x) s
  end.

(* str.strip(" \t") *)
Fixpoint lstrip_ws (s : text) : text :=
  match s with c :: r => if is_hws c then lstrip_ws r else s | [] => [] end.
Definition strip_ws (s : text) : text := rev (lstrip_ws (rev (lstrip_ws s))).

(* ASCII case mapping: exact for str.upper/lower/capitalize on ASCII text; header names are
   validated as tokens (ASCII) before any case mapping is applied to them *)
Definition lower (c : N) : N := if in_range 65 90 c then c + 32 else c.
Definition upper (c : N) : N := if in_range 97 122 c then c - 32 else c.

(* httputil._normalize_header: "-".join(w.capitalize() for w in name.split("-")),
   as one left-to-right pass ([start] = at the beginning of a word) *)
Fixpoint norm_aux (start : bool) (s : text) : text :=
  match s with
  | [] => []
  | c :: r => if c =? 45 then 45 :: norm_aux true r
              else (if start then upper c else lower c) :: norm_aux false r
  end.
Definition normalize (s : text) : text := norm_aux true s.

(* ---------- HTTPHeaders: _as_list in insertion order ---------- *)
Definition hmap := list (text * list text).

Fixpoint hm_find (k : text) (m : hmap) : option (list text) :=
  match m with
  | [] => None
  | (k', vs) :: m' => if text_eqb k k' then Some vs else hm_find k m'
  end.
Definition hm_mem (k : text) (m : hmap) : bool :=
  match hm_find k m with Some _ => true | None => false end.
(* add(): append to the existing list, or a new key at the end ([k] already normalised) *)
Fixpoint hm_add (k v : text) (m : hmap) : hmap :=
  match m with
  | [] => [(k, [v])]
  | (k', vs) :: m' => if text_eqb k k' then (k', vs ++ [v]) :: m' else (k', vs) :: hm_add k v m'
  end.
(* __setitem__: replaces the list in place, or a new key at the end *)
Fixpoint hm_set (k v : text) (m : hmap) : hmap :=
  match m with
  | [] => [(k, [v])]
  | (k', vs) :: m' => if text_eqb k k' then (k', [v]) :: m' else (k', vs) :: hm_set k v m'
  end.
Fixpoint hm_remove (k : text) (m : hmap) : hmap :=
  match m with
  | [] => []
  | (k', vs) :: m' => if text_eqb k k' then m' else (k', vs) :: hm_remove k m'
  end.
Fixpoint join (sep : text) (l : list text) : text :=
  match l with
  | [] => []
  | [x] => x
  | x :: r => x ++ sep ++ join sep r
  end.
(* __getitem__: ",".join(values) *)
Definition hm_get (k : text) (m : hmap) : option text :=
  option_map (join [44]) (hm_find k m).
Definition hm_items (m : hmap) : list (text * text) := map (fun kv => (fst kv, join [44] (snd kv))) m.
Definition hm_get_all (m : hmap) : list (text * text) :=
  flat_map (fun kv => map (fun v => (fst kv, v)) (snd kv)) m.

(* HTTPHeaders.add with the checks it makes; None = HTTPInputError *)
Definition hdr_add (m : hmap) (nv : text * text) : option hmap :=
  let '(n, v) := nv in
  if is_token n && field_value_ok v then Some (hm_add (normalize n) v m) else None.
Fixpoint hdr_add_all (m : hmap) (l : list (text * text)) : option hmap :=
  match l with
  | [] => Some m
  | nv :: r => match hdr_add m nv with Some m' => hdr_add_all m' r | None => None end
  end.

(* ---------- the request as the server's reader delivers it ---------- *)
Record request := {
  r_https : bool;                      (* HTTPServer(protocol="https") / TLS: the connection's protocol *)
  r_xheaders : bool;                   (* HTTPServer(xheaders=True) *)
  r_remote_ip : text;                  (* the connection's address (context.remote_ip before xheaders) *)
  r_trusted : list text;               (* HTTPServer(trusted_downstream=...) *)
  r_gai : list (text * bool);          (* recorded answers of socket.getaddrinfo(AI_NUMERICHOST) *)
  r_v11 : bool;                        (* HTTP/1.1 (true) or HTTP/1.0 (false) *)
  r_method : text;
  r_uri : text;
  r_headers : list (text * text);      (* header lines "name:value" in wire order *)
  r_body : text                        (* the body HTTPServerRequest.body holds *)
}.

(* _ABNF.host = zero or more of ( '[' | ']' | ':' | unreserved | sub-delims | pct-encoded ), then an
   optional ':' DIGIT-star group; that group adds nothing to the language since ':' and digits are
   host characters themselves *)
Definition host_char (c : N) : bool :=
  is_digit c || is_alpha c ||
  existsb (N.eqb c) [91; 93; 58; 45; 46; 95; 126; 33; 36; 38; 39; 40; 41; 42; 43; 44; 59; 61].
Definition is_hex (c : N) : bool := match hexval c with Some _ => true | None => false end.
Fixpoint host_abnf (s : text) : bool :=
  match s with
  | [] => true
  | c :: r =>
      if c =? 37 then
        match r with
        | h1 :: h2 :: r2 => is_hex h1 && is_hex h2 && host_abnf r2
        | _ => false
        end
      else host_char c && host_abnf r
  end.

Definition k_host := t "Host".
Definition k_ctype := t "Content-Type".
Definition k_clen := t "Content-Length".
Definition k_conn := t "Connection".
Definition k_server := t "Server".
Definition k_te := t "Transfer-Encoding".

(* str.partition(sep) for a one-character separator: (before, found, after) *)
Fixpoint partition1 (sep : N) (s : text) : text * bool * text :=
  match s with
  | [] => ([], false, [])
  | c :: r => if c =? sep then ([], true, r)
              else let '(a, f, b) := partition1 sep r in (c :: a, f, b)
  end.
(* str.rpartition(sep): (before, found, after); not found = ("", False, s) *)
Definition rpartition1 (sep : N) (s : text) : text * bool * text :=
  let '(a, f, b) := partition1 sep (rev s) in
  if f then (rev b, true, rev a) else ([], false, s).

(* what the server has after reading the head: the header map and the Host value.
   None = the request is answered 400 and never reaches the application. *)
Record accepted := { q_headers : hmap; q_host : text; q_path : text; q_query : text;
                     q_https : bool (* request.protocol == "https" *);
                     q_remote : text (* request.remote_ip *) }.

(* httpserver._HTTPRequestContext._apply_xheaders, the protocol part (per request, undone by
   _unapply_xheaders when the request completes):
     proto_header = headers.get("X-Scheme", headers.get("X-Forwarded-Proto", self.protocol))
     if proto_header: proto_header = proto_header.split(",")[-1].strip()
     if proto_header in ("http", "https"): self.protocol = proto_header
   (X-Forwarded-For / X-Real-Ip need getaddrinfo and are not generated.) *)
Definition is_pyspace (c : N) : bool :=                 (* str.isspace() for code points < 256 *)
  in_range 9 13 c || in_range 28 32 c || (c =? 133) || (c =? 160).
Fixpoint lstrip_py (s : text) : text :=
  match s with c :: r => if is_pyspace c then lstrip_py r else s | [] => [] end.
Definition py_strip (s : text) : text := rev (lstrip_py (rev (lstrip_py s))).
Definition k_xscheme := t "X-Scheme".
Definition k_xfproto := t "X-Forwarded-Proto".

Definition effective_https (xheaders https : bool) (x_scheme x_forwarded_proto : option text) : bool :=
  if xheaders then
    let ph := match x_scheme with
              | Some v => v
              | None => match x_forwarded_proto with Some v => v | None => if https then t "https" else t "http" end
              end in
    let ph' := match ph with
               | [] => ph
               | _ => let '(_, _, lastp) := rpartition1 44 ph in py_strip lastp     (* split(",")[-1].strip() *)
               end in
    if text_eqb ph' (t "http") then false else if text_eqb ph' (t "https") then true else https
  else https.

Definition strip_value (nv : text * text) : text * text := (fst nv, strip_ws (snd nv)).

(* request.remote_ip: with xheaders=True, _HTTPRequestContext._apply_xheaders as modelled for C32
   (X-Forwarded-For walked from the right past trusted_downstream, overridden by X-Real-Ip, kept only
   if netutil.is_valid_ip accepts it); getaddrinfo is the recorded table (an unrecorded string counts
   as rejected: the harness records every candidate) *)
Fixpoint gai_of (tbl : list (text * bool)) (s : text) : bool :=
  match tbl with
  | [] => false
  | (k, b) :: tbl' => if text_eqb s k then b else gai_of tbl' s
  end.
Definition remote_spec (r : request) : text :=
  if r_xheaders r then
    let proto := if r_https r then C32.Model.s_https else C32.Model.s_http in
    let c := C32.Model.mkCtx (r_remote_ip r) proto (r_remote_ip r) proto (r_trusted r) in
    C32.Model.remote_ip
      (C32.Model.apply_xheaders (gai_of (r_gai r)) c
         (C32.Model.classify_headers (map strip_value (r_headers r))))
  else r_remote_ip r.

Definition accept (r : request) : option accepted :=
  if negb (is_token (r_method r)) then None
  else if negb (match r_uri r with [] => false | _ => forallb field_vchar (r_uri r) end) then None
  else
    match hdr_add_all [] (map strip_value (r_headers r)) with
    | None => None
    | Some h =>
        let host := match hm_get k_host h with
                    | Some v => Some v
                    | None => if r_v11 r then None else Some (t "127.0.0.1")
                    end in
        match host with
        | None => None                                         (* Missing Host header *)
        | Some hv =>
            if negb (host_abnf hv) then None                   (* Invalid Host header *)
            else if existsb (N.eqb 44) hv then None            (* Multiple host headers *)
            else
              let '(p, _, q) := partition1 63 (r_uri r) in
              Some {| q_headers := h; q_host := hv; q_path := p; q_query := q;
                      q_https := effective_https (r_xheaders r) (r_https r) (hm_get k_xscheme h) (hm_get k_xfproto h);
                      q_remote := remote_spec r |}
        end
    end.

(* ---------- decimal ---------- *)
Fixpoint dec_fuel (f : nat) (n : N) : text :=
  match f with
  | O => []                                   (* unreachable with the fuel below (dec_N_spec) *)
  | S f' => if n <? 10 then [48 + n] else dec_fuel f' (n / 10) ++ [48 + n mod 10]
  end.
Definition dec_N (n : N) : text := dec_fuel (S (N.to_nat (N.log2 n))) n.
Fixpoint digits_to_N (acc : N) (s : text) : N :=
  match s with [] => acc | c :: r => digits_to_N (10 * acc + (c - 48)) r end.
(* int(s) for s made of ASCII digits only; None = ValueError (also for "") *)
Definition int_digits (s : text) : option N :=
  match s with
  | [] => None
  | _ => if forallb is_digit s then Some (digits_to_N 0 s) else None
  end.

(* ---------- WSGIContainer.environ ---------- *)
(* The dict literal has fifteen fixed keys, in this order:
     REQUEST_METHOD SCRIPT_NAME PATH_INFO QUERY_STRING REMOTE_ADDR SERVER_NAME SERVER_PORT
     SERVER_PROTOCOL wsgi.version wsgi.url_scheme wsgi.input wsgi.errors wsgi.multithread
     wsgi.multiprocess wsgi.run_once
   of which SCRIPT_NAME = "", wsgi.version = (1, 0), wsgi.errors = sys.stderr, wsgi.multithread =
   False (default executor), wsgi.multiprocess = True, wsgi.run_once = False are constants (the
   harness checks names, order and constants on every case).  The keys added afterwards all begin
   with "CONTENT_" or "HTTP_" and so never overwrite a fixed key: the environ is the record of the
   nine computed fixed values followed by the dict [e_extra] of the later assignments. *)
Definition env := list (text * text).       (* dict of str in insertion order *)

Fixpoint env_set (k v : text) (e : env) : env :=
  match e with
  | [] => [(k, v)]
  | (k', v') :: e' => if text_eqb k k' then (k', v) :: e' else (k', v') :: env_set k v e'
  end.
Fixpoint env_get (k : text) (e : env) : option text :=
  match e with
  | [] => None
  | (k', v) :: e' => if text_eqb k k' then Some v else env_get k e'
  end.

Record wenv := {
  e_method : text;        (* REQUEST_METHOD *)
  e_path : text;          (* PATH_INFO *)
  e_query : text;         (* QUERY_STRING *)
  e_remote : text;        (* REMOTE_ADDR *)
  e_name : text;          (* SERVER_NAME *)
  e_port : text;          (* SERVER_PORT *)
  e_protocol : text;      (* SERVER_PROTOCOL *)
  e_scheme : text;        (* wsgi.url_scheme *)
  e_input : text;         (* wsgi.input: the bytes the BytesIO holds *)
  e_extra : env           (* CONTENT_TYPE, CONTENT_LENGTH, HTTP_* *)
}.

Inductive env_exn := EValueError.            (* int(port_str) failing *)

(* the host/port split; [inr] only if int() were applied to a non-number *)
Definition split_host (host : text) (https : bool) : text * N + env_exn :=
  let '(h, sep, port_str) := rpartition1 58 host in
  let guard := sep && (Nat.leb (List.length port_str) 5) &&
               (match port_str with [] => true | _ => forallb is_digit port_str end) in
  let default := if https then 443 else 80 in
  if guard then
    match port_str with
    | [] => inl (h, default)
    | _ => match int_digits port_str with
           | Some p => inl (h, p)
           | None => inr EValueError
           end
    end
  else inl (host, default).

(* "HTTP_" + key.replace("-", "_").upper() *)
Definition cgi_key (k : text) : text :=
  t "HTTP_" ++ map (fun c => if c =? 45 then 95 else upper c) k.

(* to_wsgi_str(url_unescape(_path_bytes(path), encoding=None, plus=False)) (fix 9dbe448):
   _path_bytes = path.encode("latin1"), falling back to UTF-8 only when a code point > 255 is present
   (which cannot come from the wire); None = UnicodeEncodeError of that fallback (lone surrogate) *)
Definition path_bytes (path : text) : option text :=
  if forallb (fun c => c <? 256) path then Some path else utf8_encode path.
Definition path_info (path : text) : option text := option_map unquote_bytes (path_bytes path).

Inductive env_result := EnvOk (e : wenv) | EnvRaise.

Definition environ (r : request) (a : accepted) : env_result :=
  match split_host (q_host a) (q_https a), path_info (q_path a) with
  | inl (host, port), Some pinfo =>
      let h0 := q_headers a in
      let '(x1, h1) := match hm_get k_ctype h0 with
                       | Some v => (env_set (t "CONTENT_TYPE") v [], hm_remove k_ctype h0)
                       | None => ([], h0)
                       end in
      let '(x2, h2) := match hm_get k_clen h1 with
                       | Some v => (env_set (t "CONTENT_LENGTH") v x1, hm_remove k_clen h1)
                       | None => (x1, h1)
                       end in
      EnvOk {| e_method := r_method r;
               e_path := pinfo;
               e_query := q_query a;
               e_remote := q_remote a;
               e_name := host;
               e_port := dec_N port;
               e_protocol := if r_v11 r then t "HTTP/1.1" else t "HTTP/1.0";
               e_scheme := if q_https a then t "https" else t "http";
               e_input := r_body r;
               e_extra := fold_left (fun e kv => env_set (cgi_key (fst kv)) (snd kv) e) (hm_items h2) x2 |}
  | _, _ => EnvRaise
  end.

(* ---------- the WSGI application's behaviour on this request ---------- *)
Record app_out := {
  a_start : option (text * list (text * text));   (* start_response(status, headers), if called *)
  a_written : list text;                          (* write(b) calls *)
  a_chunks : list text                            (* the iterable returned *)
}.

(* int(status_code_str): exact on strings of ASCII digits and on strings without any of the
   characters int() treats specially (whitespace, sign, underscore, non-ASCII); otherwise outside
   the model's domain *)
Inductive int_res := IntOk (n : N) | IntValueError | IntUnmodelled.
Definition int_special (c : N) : bool :=
  in_range 9 13 c || in_range 28 32 c || (c =? 43) || (c =? 45) || (c =? 95) || (127 <? c).
Definition py_int (s : text) : int_res :=
  match int_digits s with
  | Some n => IntOk n
  | None => if existsb int_special s then IntUnmodelled else IntValueError
  end.

(* ---------- HTTP1Connection (server side) ---------- *)
Definition text_lower (s : text) : text := map lower s.

(* _can_keep_alive on the request *)
Definition can_keep_alive (v11 : bool) (method : text) (h : hmap) : bool :=
  let c := option_map text_lower (hm_get k_conn h) in
  if v11 then negb (match c with Some x => text_eqb x (t "close") | None => false end)
  else if hm_mem k_clen h
          || (match hm_get k_te h with Some x => text_eqb (text_lower x) (t "chunked") | None => false end)
          || text_eqb method (t "HEAD") || text_eqb method (t "GET")
       then match c with Some x => text_eqb x (t "keep-alive") | None => false end
       else false.

Inductive wire_res :=
| Wire (start : text) (hdrs : list (text * text)) (body : text)
                               (* the bytes handed to the transport are
                                  start CRLF (name ": " value CRLF)* CRLF body; no line contains CR or LF *)
| WRaise                       (* an exception before anything was written *)
| WChunked                     (* chunked output: never reached from handle_request (proved) *)
| WUnmodelled.

Definition no_body_code (code : N) : bool :=
  (code =? 204) || (code =? 304) || ((100 <=? code) && (code <? 200)).

Definition has_crlf (s : text) : bool := existsb (fun c => (c =? 13) || (c =? 10)) s.

(* fix 92da2a1: a non-empty reason must fullmatch _ABNF.reason_phrase = (?:[\t ]|VCHAR|obs-text)+ and
   every value _FIELD_VALUE_CHARS_RE = [\t\x20-\x7e\x80-\xff]* *)
Definition value_char (c : N) : bool := (c =? 9) || in_range 32 126 c || in_range 128 255 c.
Definition reason_ok (reason : text) : bool := forallb value_char reason.   (* "" passes: the check is skipped *)

Definition write_headers (v11 : bool) (method : text) (req_h : hmap)
           (code : N) (reason : text) (h : hmap) (chunk : text) : wire_res :=
  let is_head := text_eqb method (t "HEAD") in
  let disc := negb (can_keep_alive v11 method req_h) in
  let chunking := v11 && negb is_head && negb (no_body_code code) && negb (hm_mem k_clen h) in
  let h1 := if v11 && disc then hm_set k_conn (t "close") h else h in
  let disc' := if negb v11 && negb is_head && negb (no_body_code code) && negb (hm_mem k_clen h1)
               then true else disc in
  let ka := match hm_get k_conn req_h with
            | Some x => text_eqb (text_lower x) (t "keep-alive") | None => false end in
  let h2 := if negb v11 && ka && negb disc' then hm_set k_conn (t "Keep-Alive") h1 else h1 in
  if chunking then WChunked
  else
    let expected : option (option N) :=      (* None = parse_int raised *)
      if is_head || no_body_code code then Some (Some 0)
      else match hm_get k_clen h2 with
           | Some v => match int_digits v with Some n => Some (Some n) | None => None end
           | None => Some None
           end in
    match expected, utf8_encode (t "HTTP/1.1 " ++ dec_N code ++ [32] ++ reason) with
    | None, _ => WRaise
    | _, None => WRaise                                           (* UnicodeEncodeError *)
    | Some ex, Some start =>
        let all := hm_get_all h2 in
        if negb (reason_ok reason) then WRaise                        (* ValueError: Illegal reason phrase *)
        else if negb (forallb (fun nv => forallb value_char (snd nv)) all) then WRaise
        else if negb (forallb (fun nv => is_token (fst nv)) all) then WRaise
        else
          let lines := start :: map (fun nv => fst nv ++ t ": " ++ snd nv) all in
          if negb (forallb (fun l => forallb (fun c => c <? 256) l) (tl lines)) then WRaise   (* latin1 *)
          else if existsb has_crlf lines then WRaise
          else
            let too_much := match chunk, ex with
                            | _ :: _, Some e => e <? N.of_nat (List.length chunk)
                            | _, _ => false
                            end in
            if too_much then WRaise                               (* stream closed, HTTPOutputError *)
            else Wire start all chunk
    end.

(* ---------- WSGIContainer.handle_request ---------- *)
Definition default_ctype := t "text/html; charset=UTF-8".

(* the three defaults appended to the application's header list *)
Definition app_has (k : string) (headers : list (text * text)) : bool :=
  existsb (text_eqb (t k)) (map (fun kv => text_lower (fst kv)) headers).     (* k in header_set *)
Definition with_defaults (version : text) (code : N) (headers : list (text * text)) (body : text)
  : list (text * text) :=
  let hs1 := if negb (code =? 304) then
               let a1 := if negb (app_has "content-length" headers)
                         then headers ++ [(k_clen, dec_N (N.of_nat (List.length body)))] else headers in
               if negb (app_has "content-type" headers) then a1 ++ [(k_ctype, default_ctype)] else a1
             else headers in
  if negb (app_has "server" headers) then hs1 ++ [(k_server, t "TornadoServer/" ++ version)] else hs1.

Definition handle_request (version : text) (r : request) (a : accepted) (o : app_out) : wire_res :=
  let body := List.concat (a_written o ++ a_chunks o) in
  match a_start o with
  | None => WRaise                                   (* "WSGI app did not call start_response" *)
  | Some (status, headers) =>
      let '(code_str, sp, reason) := partition1 32 status in
      if negb sp then WRaise                         (* unpacking split(" ", 1) *)
      else
        match py_int code_str with
        | IntValueError => WRaise
        | IntUnmodelled => WUnmodelled
        | IntOk code =>
            match hdr_add_all [] (with_defaults version code headers body) with
            | None => WRaise                         (* HTTPInputError from HTTPHeaders.add *)
            | Some ho =>
                (* if request.method == "HEAD": body = b""  (fix a2172c8; the defaults above were
                   computed from the application's body) *)
                let sent := if text_eqb (r_method r) (t "HEAD") then [] else body in
                write_headers (r_v11 r) (r_method r) (q_headers a) code reason ho sent
            end
        end
  end.

(* ---------- one request through the container ---------- *)
Inductive outcome :=
| Rejected                                   (* 400, the application is not called *)
| EnvironRaised                              (* environ() raised: never (proved) *)
| Served (e : wenv) (w : wire_res).

Definition serve (version : text) (r : request) (o : app_out) : outcome :=
  match accept r with
  | None => Rejected
  | Some a =>
      match environ r a with
      | EnvRaise => EnvironRaised
      | EnvOk e => Served e (handle_request version r a o)
      end
  end.

(* ---------- one WSGIContainer serving a sequence of requests ----------
   The container object has two attributes, wsgi_application and executor, assigned in __init__ and
   never again; environ() and handle_request() read self.executor / self.wsgi_application only (the
   translator translators/c47_src.py refuses any other use of `self` in environ).  Its state is
   therefore the unit type: nothing is carried from one request to the next. *)
Definition cstate := unit.
Definition container_step (version : text) (st : cstate) (ro : request * app_out) : cstate * outcome :=
  (st, serve version (fst ro) (snd ro)).
Fixpoint container_run (version : text) (st : cstate) (l : list (request * app_out)) : list outcome :=
  match l with
  | [] => []
  | ro :: l' => let '(st', out) := container_step version st ro in out :: container_run version st' l'
  end.

(* ---------- primitives and vocabulary used by the generated Gen/C47_src.v ---------- *)
Definition nonempty (s : text) : bool := match s with [] => false | _ => true end.    (* truth value of a str *)
Definition is_empty (s : text) : bool := match s with [] => true | _ => false end.    (* s == "" *)
(* s.isascii() and s.isdecimal(): among ASCII characters the decimal ones are 0-9; "" is not decimal *)
Definition ascii_decimal (s : text) : bool := match s with [] => false | _ => forallb is_digit s end.
Definition py_upper (s : text) : text := map upper s.                      (* str.upper(), ASCII text *)
Definition py_replace1 (a b : N) (s : text) : text := map (fun c => if c =? a then b else c) s.
Inductive codec := Latin1 | Utf8.
(* where each value of the dict literal comes from *)
Inductive vsrc :=
| VMethod | VConstStr (s : string) | VPathInfo | VQuery | VRemoteIp | VHost | VPortStr | VVersion
| VTuple10 | VProtocol | VInput | VStderr | VMultithread | VTrue | VFalse.
(* the reading of the dict literal this model (record wenv + the constants the harness checks) embodies *)
Definition expected_fixed : list (string * vsrc) :=
  [("REQUEST_METHOD", VMethod); ("SCRIPT_NAME", VConstStr ""); ("PATH_INFO", VPathInfo);
   ("QUERY_STRING", VQuery); ("REMOTE_ADDR", VRemoteIp); ("SERVER_NAME", VHost); ("SERVER_PORT", VPortStr);
   ("SERVER_PROTOCOL", VVersion); ("wsgi.version", VTuple10); ("wsgi.url_scheme", VProtocol);
   ("wsgi.input", VInput); ("wsgi.errors", VStderr); ("wsgi.multithread", VMultithread);
   ("wsgi.multiprocess", VTrue); ("wsgi.run_once", VFalse)]%string.

