(* C47 — proofs, part 5: a well-formed application output is always written. *)
From Coq Require Import List NArith ZArith Bool String Lia ZifyBool.
Import ListNotations.
From TV Require Import Lib.Obs Lib.C21_Utf8 Lib.C21_Pct C47.Model C47.Run C47.Proofs C47.Proofs2 C47.Proofs3 C47.Proofs4.
Local Open Scope N_scope.

(* ---------------- characters of valid names and values ---------------- *)
Lemma tchar_range c : is_tchar c = true -> 33 <= c <= 126.
Proof. unfold is_tchar, is_digit, is_alpha, in_range. cbn [existsb]. lia. Qed.

Lemma tchar_upper c : is_tchar c = true -> is_tchar (upper c) = true.
Proof.
  unfold upper, in_range. destruct ((97 <=? c) && (c <=? 122)) eqn:E; [|auto].
  intros _. unfold is_tchar, is_digit, is_alpha, in_range. cbn [existsb]. lia.
Qed.
Lemma tchar_lower c : is_tchar c = true -> is_tchar (lower c) = true.
Proof.
  unfold lower, in_range. destruct ((65 <=? c) && (c <=? 90)) eqn:E; [|auto].
  intros _. unfold is_tchar, is_digit, is_alpha, in_range. cbn [existsb]. lia.
Qed.

Lemma norm_aux_tchars s : forall b, forallb is_tchar s = true -> forallb is_tchar (norm_aux b s) = true.
Proof.
  induction s as [|c s IH]; intros b H; [reflexivity|]. cbn [forallb] in H. apply andb_true_iff in H as [Hc Hs].
  cbn [norm_aux]. destruct (c =? 45) eqn:E; cbn [forallb].
  - rewrite (IH true Hs). reflexivity.
  - rewrite (IH false Hs). destruct b; [rewrite (tchar_upper c Hc)|rewrite (tchar_lower c Hc)]; reflexivity.
Qed.

Lemma is_token_normalize n : is_token n = true -> is_token (normalize n) = true.
Proof.
  unfold is_token, normalize. destruct n as [|c s]; [discriminate|]. intros H.
  pose proof (norm_aux_tchars (c :: s) true H) as H'. cbn [norm_aux] in *. destruct (c =? 45); exact H'.
Qed.

Lemma token_chars n c : is_token n = true -> In c n -> 33 <= c <= 126.
Proof.
  unfold is_token. destruct n as [|c0 s]; [discriminate|]. intros H Hin.
  rewrite forallb_forall in H. apply tchar_range. exact (H c Hin).
Qed.

Lemma fvok_chars v c : field_value_ok v = true -> In c v -> c < 256 /\ c <> 13 /\ c <> 10.
Proof.
  unfold field_value_ok. destruct v as [|c0 s]; [intros _ []|]. intros H Hin.
  apply andb_true_iff in H as [_ H]. rewrite forallb_forall in H. specialize (H c Hin).
  unfold field_vchar, is_hws, in_range in H. lia.
Qed.

Lemma fvok_of_vchars s : forallb field_vchar s = true -> field_value_ok s = true.
Proof.
  intros H. unfold field_value_ok. destruct s as [|c s']; [reflexivity|].
  assert (Hl := forallb_last field_vchar (c :: s') 0 ltac:(discriminate) H).
  rewrite Hl. pose proof H as H0. cbn [forallb] in H0. apply andb_true_iff in H0 as [Hc _]. rewrite Hc. cbn [andb].
  apply forallb_forall. intros x Hx. rewrite forallb_forall in H. rewrite (H x Hx). reflexivity.
Qed.

Lemma digits_vchars s : forallb is_digit s = true -> forallb field_vchar s = true.
Proof.
  intros H. apply forallb_forall. intros x Hx. rewrite forallb_forall in H. specialize (H x Hx).
  apply is_digit_spec in H. unfold field_vchar, in_range. lia.
Qed.

(* ---------------- adding valid headers succeeds ---------------- *)
Definition valid_hdr (nv : text * text) : bool := is_token (fst nv) && field_value_ok (snd nv).

Lemma hdr_add_all_ok l : forall m, forallb valid_hdr l = true -> exists m', hdr_add_all m l = Some m'.
Proof.
  induction l as [|[n v] l IH]; intros m H; cbn [hdr_add_all]; [eauto|].
  cbn [forallb] in H. apply andb_true_iff in H as [H1 H2]. unfold valid_hdr in H1. cbn [fst snd] in H1.
  unfold hdr_add. rewrite H1. apply IH. exact H2.
Qed.

Definition version_ok (ver : text) : bool := forallb field_vchar ver.

Lemma with_defaults_valid ver code hs body :
  version_ok ver = true -> forallb valid_hdr hs = true -> forallb valid_hdr (with_defaults ver code hs body) = true.
Proof.
  intros Hv Hh. unfold with_defaults.
  assert (V1 : valid_hdr (k_clen, dec_N (N.of_nat (List.length body))) = true).
  { unfold valid_hdr. cbn [fst snd]. rewrite fvok_of_vchars; [reflexivity|].
    apply digits_vchars. apply (proj1 (dec_N_spec _)). }
  assert (V2 : valid_hdr (k_ctype, default_ctype) = true) by reflexivity.
  assert (V3 : valid_hdr (k_server, t "TornadoServer/" ++ ver) = true).
  { unfold valid_hdr. cbn [fst snd]. rewrite fvok_of_vchars; [reflexivity|].
    rewrite forallb_app. unfold version_ok in Hv. rewrite Hv. reflexivity. }
  repeat match goal with |- context [if ?c then _ else _] => destruct c end;
    rewrite ?forallb_app; cbn [forallb]; rewrite ?Hh, ?V1, ?V2, ?V3; reflexivity.
Qed.

(* ---------------- elements of get_all ---------------- *)
Lemma get_all_In k v m : In (k, v) (hm_get_all m) <-> exists vs, In (k, vs) m /\ In v vs.
Proof.
  unfold hm_get_all. rewrite in_flat_map. split.
  - intros [[k0 vs] [Hin Hm]]. cbn [fst snd] in Hm. apply in_map_iff in Hm as [v0 [E Hv]]. inversion E; subst. eauto.
  - intros [vs [Hin Hv]]. exists (k, vs). split; [exact Hin|]. cbn [fst snd]. apply in_map_iff. eauto.
Qed.

Lemma hm_set_In k vs k' x m : In (k, vs) (hm_set k' x m) -> (k = k' /\ vs = [x]) \/ In (k, vs) m.
Proof.
  induction m as [|[k0 vs0] m IH]; cbn [hm_set].
  - intros [E|[]]. inversion E. left. split; reflexivity.
  - destruct (text_eqb k' k0) eqn:E0.
    + apply text_eqb_eq in E0. subst k0. intros [E|Hin]; [inversion E; left; split; reflexivity|right; right; exact Hin].
    + intros [E|Hin]; [right; left; exact E|]. destruct (IH Hin) as [H|H]; [left; exact H|right; right; exact H].
Qed.

Lemma In_find k vs m : NoDup (keys m) -> In (k, vs) m -> hm_find k m = Some vs.
Proof.
  induction m as [|[k0 vs0] m IH]; intros Hnd Hin; [destruct Hin|].
  cbn [keys map fst] in Hnd. inversion Hnd as [|? ? Hk0 Hnd']; subst. cbn [hm_find]. destruct Hin as [E|Hin].
  - inversion E; subst. rewrite text_eqb_refl. reflexivity.
  - destruct (text_eqb k k0) eqn:E0.
    + apply text_eqb_eq in E0. subst k0. exfalso. apply Hk0. apply in_map_iff. exists (k, vs). split; [reflexivity|exact Hin].
    + exact (IH Hnd' Hin).
Qed.

Lemma added_get_all l ho k v : hdr_add_all [] l = Some ho -> In (k, v) (hm_get_all ho) ->
  exists n, In (n, v) l /\ k = normalize n.
Proof.
  intros Ha Hin. apply get_all_In in Hin as [vs [Hm Hv]].
  apply In_find in Hm; [|apply (hdr_add_all_nodup _ _ _ Ha); constructor].
  rewrite (hdr_add_all_find _ _ _ Ha) in Hm. cbn [hm_find] in Hm.
  assert (Hvs : vs = vals k l) by (destruct (vals k l); [discriminate|inversion Hm; reflexivity]).
  subst vs. unfold vals in Hv. apply in_map_iff in Hv as [[n v0] [E Hf]]. cbn [snd] in E. subst v0.
  apply filter_In in Hf as [Hl Hk]. cbn [fst] in Hk. apply text_eqb_eq in Hk. eauto.
Qed.

(* every header line of the final map is a valid name with a valid value *)
Definition good_line (nv : text * text) : Prop := is_token (fst nv) = true /\ field_value_ok (snd nv) = true.

Lemma ho_lines l ho : hdr_add_all [] l = Some ho -> forall nv, In nv (hm_get_all ho) -> good_line nv.
Proof.
  intros Ha [k v] Hin. destruct (added_get_all _ _ _ _ Ha Hin) as [n [Hl ->]].
  destruct (hdr_add_all_valid _ _ _ Ha (n, v) Hl) as [T V]. split; [apply is_token_normalize; exact T|exact V].
Qed.

Lemma set_lines x m : field_value_ok x = true -> (forall nv, In nv (hm_get_all m) -> good_line nv) ->
  forall nv, In nv (hm_get_all (hm_set k_conn x m)) -> good_line nv.
Proof.
  intros Hx Hm [k v] Hin. apply get_all_In in Hin as [vs [Hs Hv]].
  apply hm_set_In in Hs as [[-> ->]|Hs].
  - destruct Hv as [<-|[]]. split; [reflexivity|exact Hx].
  - apply Hm. apply get_all_In. eauto.
Qed.

Lemma good_line_value nv : good_line nv -> forallb value_char (snd nv) = true.
Proof.
  intros [_ V]. unfold field_value_ok in V. destruct (snd nv) as [|c0 s0] eqn:E; [reflexivity|].
  apply andb_true_iff in V as [_ V]. apply forallb_forall. intros c Hc. rewrite forallb_forall in V. specialize (V c Hc).
  unfold field_vchar, is_hws, value_char, in_range in *. lia.
Qed.

Lemma good_line_checks nv : good_line nv ->
  is_token (fst nv) = true /\ forallb (fun c => c <? 256) (fst nv ++ t ": " ++ snd nv) = true /\
  has_crlf (fst nv ++ t ": " ++ snd nv) = false.
Proof.
  intros [T V]. split; [exact T|]. split.
  - apply forallb_forall. intros c Hc. apply in_app_or in Hc as [Hc|Hc].
    + pose proof (token_chars _ c T Hc). lia.
    + apply in_app_or in Hc as [Hc|Hc]; [cbn in Hc; lia|]. pose proof (fvok_chars _ c V Hc). lia.
  - unfold has_crlf. destruct (existsb _ _) eqn:E; [|reflexivity]. exfalso.
    apply existsb_exists in E as [c [Hc E]]. apply in_app_or in Hc as [Hc|Hc].
    + pose proof (token_chars _ c T Hc). lia.
    + apply in_app_or in Hc as [Hc|Hc]; [cbn in Hc; lia|]. pose proof (fvok_chars _ c V Hc). lia.
Qed.

(* ---------------- write_headers writes ---------------- *)
Lemma hm_get_set_other k x m : text_eqb k_clen k = false -> hm_get k_clen (hm_set k x m) = hm_get k_clen m.
Proof. intros H. unfold hm_get. rewrite hm_find_set, H. reflexivity. Qed.

Lemma write_headers_writes v11 m rh code reason ho chunk start :
  (forall nv, In nv (hm_get_all ho) -> good_line nv) ->
  utf8_encode (t "HTTP/1.1 " ++ dec_N code ++ [32] ++ reason) = Some start -> has_crlf start = false ->
  reason_ok reason = true ->
  (no_body_code code = true \/ hm_mem k_clen ho = true) ->
  (text_eqb m (t "HEAD") = true \/ no_body_code code = true -> chunk = []) ->
  (text_eqb m (t "HEAD") = false -> no_body_code code = false ->
     exists v, hm_get k_clen ho = Some v /\ int_digits v = Some (N.of_nat (List.length chunk))) ->
  exists wh, write_headers v11 m rh code reason ho chunk = Wire start wh chunk.
Proof.
  intros Hlines Hstart Hcr Hreason Hnc Hempty Hcl. unfold write_headers.
  set (is_head := text_eqb m (t "HEAD")) in *. set (disc := negb (can_keep_alive v11 m rh)).
  set (h1 := if v11 && disc then hm_set k_conn (t "close") ho else ho).
  set (disc' := if negb v11 && negb is_head && negb (no_body_code code) && negb (hm_mem k_clen h1) then true else disc).
  set (ka := match hm_get k_conn rh with Some x => text_eqb (text_lower x) (t "keep-alive") | None => false end).
  set (h2 := if negb v11 && ka && negb disc' then hm_set k_conn (t "Keep-Alive") h1 else h1).
  assert (L1 : forall nv, In nv (hm_get_all h1) -> good_line nv).
  { unfold h1. destruct (v11 && disc); [apply set_lines; [reflexivity|exact Hlines]|exact Hlines]. }
  assert (L2 : forall nv, In nv (hm_get_all h2) -> good_line nv).
  { unfold h2. destruct (negb v11 && ka && negb disc'); [apply set_lines; [reflexivity|exact L1]|exact L1]. }
  assert (G2 : hm_get k_clen h2 = hm_get k_clen ho).
  { unfold h2, h1. destruct (negb v11 && ka && negb disc'); destruct (v11 && disc);
      rewrite ?hm_get_set_other by reflexivity; reflexivity. }
  assert (Ech : v11 && negb is_head && negb (no_body_code code) && negb (hm_mem k_clen ho) = false).
  { destruct Hnc as [-> | ->]; cbn [negb]; rewrite ?andb_false_r; reflexivity. }
  rewrite Ech. rewrite G2, Hstart.
  assert (Eex : exists ex,
     (if is_head || no_body_code code then Some (Some 0)
      else match hm_get k_clen ho with
           | Some v => match int_digits v with Some n => Some (Some n) | None => None end
           | None => Some None
           end) = Some ex /\
     match chunk, ex with _ :: _, Some e => e <? N.of_nat (List.length chunk) | _, _ => false end = false).
  { destruct is_head eqn:EH; cbn [orb].
    - exists (Some 0). split; [reflexivity|]. rewrite (Hempty (or_introl eq_refl)). reflexivity.
    - destruct (no_body_code code) eqn:EN.
      + exists (Some 0). split; [reflexivity|]. rewrite (Hempty (or_intror eq_refl)). reflexivity.
      + destruct (Hcl eq_refl eq_refl) as [v [Hg Hi]]. rewrite Hg, Hi. eexists. split; [reflexivity|].
        destruct chunk; [reflexivity|]. apply N.ltb_irrefl. }
  destruct Eex as [ex [-> Htm]]. rewrite Hreason. cbn [negb].
  assert (Vs : forallb (fun nv => forallb value_char (snd nv)) (hm_get_all h2) = true).
  { apply forallb_forall. intros nv Hin. exact (good_line_value nv (L2 nv Hin)). }
  rewrite Vs. cbn [negb].
  assert (T : forallb (fun nv => is_token (fst nv)) (hm_get_all h2) = true).
  { apply forallb_forall. intros nv Hin. exact (proj1 (good_line_checks nv (L2 nv Hin))). }
  rewrite T. cbn [negb].
  assert (La : forallb (fun l => forallb (fun c => c <? 256) l)
                 (tl (start :: map (fun nv => fst nv ++ t ": " ++ snd nv) (hm_get_all h2))) = true).
  { cbn [tl]. apply forallb_forall. intros l Hl. apply in_map_iff in Hl as [nv [<- Hin]].
    exact (proj1 (proj2 (good_line_checks nv (L2 nv Hin)))). }
  rewrite La. cbn [negb].
  assert (Cr : existsb has_crlf (start :: map (fun nv => fst nv ++ t ": " ++ snd nv) (hm_get_all h2)) = false).
  { cbn [existsb]. rewrite Hcr. cbn [orb].
    destruct (existsb has_crlf (map (fun nv => fst nv ++ t ": " ++ snd nv) (hm_get_all h2))) eqn:E; [|reflexivity].
    apply existsb_exists in E as [l [Hl E]]. apply in_map_iff in Hl as [nv [<- Hin]].
    pose proof (proj2 (proj2 (good_line_checks nv (L2 nv Hin)))) as Hq. cbv beta in E.
    exact (eq_trans (eq_sym E) Hq). }
  rewrite Cr, Htm. eauto.
Qed.

(* ---------------- handle_request writes ---------------- *)
Lemma text_eqb_sym a b : text_eqb a b = text_eqb b a.
Proof.
  destruct (text_eqb a b) eqn:E; symmetry.
  - apply text_eqb_eq in E. subst. apply text_eqb_refl.
  - apply text_eqb_neq. apply text_eqb_neq in E. congruence.
Qed.

Lemma app_has_clen hs :
  app_has "content-length" hs = match values_of k_clen hs with [] => false | _ => true end.
Proof.
  rewrite app_has_spec. unfold values_of, hname_eq. change (text_lower k_clen) with (t "content-length").
  induction hs as [|nv hs IH]; [reflexivity|]. cbn [existsb filter].
  rewrite (text_eqb_sym (t "content-length")). destruct (text_eqb (text_lower (fst nv)) (t "content-length")); [reflexivity|].
  exact IH.
Qed.

Lemma no_body_304 code : no_body_code code = false -> (code =? 304) = false.
Proof. unfold no_body_code. intros H. apply orb_false_iff in H as [H _]. apply orb_false_iff in H as [_ H]. exact H. Qed.

Theorem handle_request_writes ver r a o :
  version_ok ver = true -> app_ok (text_eqb (r_method r) (t "HEAD")) o = true ->
  exists s wh, handle_request ver r a o = Wire s wh (sent_body r o).
Proof.
  intros Hver Hok. unfold app_ok in Hok. unfold handle_request. fold (app_body o) in *. fold (sent_body r o).
  destruct (a_start o) as [[status hs]|]; [|discriminate].
  apply andb_true_iff in Hok as [Hok Hcl]. apply andb_true_iff in Hok as [Hok Hnb]. apply andb_true_iff in Hok as [Hst Hhs].
  destruct (status_ok_inv status Hst) as [x [y [z [rs [Es [Ep [Ei [Ed [Ha [Hc Hro]]]]]]]]]].
  rewrite Ep. cbn [negb]. rewrite Ei. set (code := status_code status) in *.
  assert (Hvalid : forallb valid_hdr hs = true).
  { apply forallb_forall. intros nv Hin. rewrite forallb_forall in Hhs. specialize (Hhs nv Hin).
    apply andb_true_iff in Hhs as [Hhs _]. exact Hhs. }
  destruct (hdr_add_all_ok _ [] (with_defaults_valid ver code hs (app_body o) Hver Hvalid)) as [ho Ea].
  rewrite Ea.
  assert (Hstart : utf8_encode (t "HTTP/1.1 " ++ dec_N code ++ [32] ++ rs) = Some (t "HTTP/1.1 " ++ dec_N code ++ [32] ++ rs)).
  { apply utf8_encode_ascii. apply ascii_app; [repeat constructor; lia|]. apply ascii_app.
    - assert (Hd := proj1 (dec_N_spec code)).
      apply Forall_forall. intros q Hq. rewrite forallb_forall in Hd. specialize (Hd q Hq). apply is_digit_spec in Hd. lia.
    - constructor; [lia|exact Ha]. }
  assert (Hfind : hm_find k_clen ho = match values_of k_clen (with_defaults ver code hs (app_body o)) with [] => None | w => Some w end).
  { rewrite (hdr_add_all_find _ _ _ Ea). cbn [hm_find]. rewrite (values_of_vals k_clen). reflexivity. }
  assert (Hvals : values_of k_clen (with_defaults ver code hs (app_body o)) =
                  values_of k_clen hs ++ (if negb (code =? 304) && negb (app_has "content-length" hs)
                                          then [dec_N (N.of_nat (List.length (app_body o)))] else [])).
  { rewrite values_of_with_defaults.
    replace (hname_eq k_clen k_clen) with true by reflexivity.
    replace (hname_eq k_ctype k_clen) with false by reflexivity.
    replace (hname_eq k_server k_clen) with false by reflexivity.
    rewrite !andb_false_r, andb_true_r, !app_nil_r. reflexivity. }
  destruct (write_headers_writes (r_v11 r) (r_method r) (q_headers a) code rs ho (sent_body r o)
              (t "HTTP/1.1 " ++ dec_N code ++ [32] ++ rs)) as [wh Hw]; [| | | | | | |exists (t "HTTP/1.1 " ++ dec_N code ++ [32] ++ rs), wh; exact Hw].
  - exact (ho_lines _ _ Ea).
  - exact Hstart.
  - unfold has_crlf in *. rewrite !existsb_app, Hc. rewrite orb_false_r.
    assert (Hd := proj1 (dec_N_spec code)).
    destruct (existsb (fun c => (c =? 13) || (c =? 10)) (dec_N code)) eqn:E.
    + apply existsb_exists in E as [q [Hq E]]. rewrite forallb_forall in Hd. specialize (Hd q Hq). apply is_digit_spec in Hd. lia.
    + reflexivity.
  - exact Hro.
  - destruct (no_body_code code) eqn:EN; [left; reflexivity|right].
    unfold hm_mem. rewrite Hfind, Hvals, (no_body_304 code EN), app_has_clen. cbn [negb andb].
    destruct (values_of k_clen hs); reflexivity.
  - unfold sent_body. intros [Hh|Hn]; [rewrite Hh; reflexivity|]. rewrite Hn in Hnb. cbn [negb orb] in Hnb.
    destruct (app_body o); [destruct (text_eqb _ _); reflexivity|discriminate].
  - intros EH EN. unfold sent_body. rewrite EH. unfold hm_get. rewrite Hfind, Hvals, (no_body_304 code EN), app_has_clen. cbn [negb andb].
    change (values_of (t "content-length") hs) with (values_of k_clen hs) in Hcl.
    rewrite EH, EN in Hcl. cbn [orb] in Hcl.
    destruct (values_of k_clen hs) as [|v [|v2 vs]]; [| |discriminate].
    + cbn [app option_map join]. eexists. split; [reflexivity|apply int_digits_dec_N].
    + cbn [app option_map join]. exists v. split; [reflexivity|].
      destruct (int_digits v) as [n|]; [|discriminate]. apply N.eqb_eq in Hcl. subst. reflexivity.
Qed.
