(* C47 — executable entry points used by the correspondence check, and the property as a
   boolean checker over observables (formulated independently of the model's mechanism:
   left-to-right host parsing instead of rpartition, per-name value sequences instead of the
   header map, raw percent-decoding instead of the str round trip). *)
From Coq Require Import List NArith ZArith Bool String.
Import ListNotations.
From TV Require Import Lib.Obs Lib.C21_Utf8 Lib.C21_Pct C47.Model.
Local Open Scope N_scope.

(* one request: (tornado.version,
           (https, xheaders, remote_ip, trusted_downstream, getaddrinfo table, http/1.1?, method, uri, header lines, body),
           (start_response args if called, write() calls, returned chunks)) *)
Definition one_input : Type :=
  (list N * (bool * bool * list N * list (list N) * list (list N * bool) * bool * list N * list N * list (list N * list N) * list N)
   * (option (list N * list (list N * list N)) * list (list N) * list (list N)))%type.

Definition req_of (c : one_input) : request :=
  let '(_, (https, xh, ip, tr, gai, v11, m, u, hs, b), _) := c in
  {| r_https := https; r_xheaders := xh; r_remote_ip := ip; r_trusted := tr; r_gai := gai; r_v11 := v11; r_method := m; r_uri := u;
     r_headers := hs; r_body := b |}.
Definition app_of (c : one_input) : app_out :=
  let '(_, _, (st, wr, ch)) := c in {| a_start := st; a_written := wr; a_chunks := ch |}.
Definition ver_of (c : one_input) : text := let '(v, _, _) := c in v.

(* ---------- observables ---------- *)
Definition enc_pair (nv : text * text) : obs := OList [OBytes (fst nv); OBytes (snd nv)].
(* the nine computed fixed values in dict order, then the later assignments *)
Definition enc_env (e : wenv) : obs :=
  OList [OBytes (e_method e); OBytes (e_path e); OBytes (e_query e); OBytes (e_remote e);
         OBytes (e_name e); OBytes (e_port e); OBytes (e_protocol e); OBytes (e_scheme e);
         OBytes (e_input e); OList (map enc_pair (e_extra e))].
Definition enc_wire (w : wire_res) : obs :=
  match w with
  | Wire s h b => OList [OBytes s; OList (map enc_pair h); OBytes b]
  | WRaise => OTag "Raised"
  | WChunked => OTag "Chunked"
  | WUnmodelled => OTag "Unmodelled"
  end.
Definition enc_outcome (o : outcome) : obs :=
  match o with
  | Rejected => OTag "Rejected"
  | EnvironRaised => OTag "EnvironRaised"
  | Served e w => OList [OTag "Served"; enc_env e; enc_wire w]
  end.

Definition run_one (c : one_input) : obs := enc_outcome (serve (ver_of c) (req_of c) (app_of c)).

(* a correspondence case: tornado.version and the requests served, in order, by ONE WSGIContainer *)
Definition step_input : Type :=
  ((bool * bool * list N * list (list N) * list (list N * bool) * bool * list N * list N * list (list N * list N) * list N)
   * (option (list N * list (list N * list N)) * list (list N) * list (list N)))%type.
Definition input : Type := (list N * list step_input)%type.
Definition one_of (ver : list N) (s : step_input) : one_input := (ver, fst s, snd s).
Definition steps_of (c : input) : list (request * app_out) :=
  map (fun s => (req_of (one_of (fst c) s), app_of (one_of (fst c) s))) (snd c).
Definition run_case (c : input) : obs := OList (map enc_outcome (container_run (fst c) tt (steps_of c))).

(* ---------- decoding an observable ---------- *)
Fixpoint dec_pairs (l : list obs) : option (list (text * text)) :=
  match l with
  | [] => Some []
  | OList [OBytes k; OBytes v] :: r =>
      match dec_pairs r with Some r' => Some ((k, v) :: r') | None => None end
  | _ => None
  end.
Definition dec_env (o : obs) : option wenv :=
  match o with
  | OList [OBytes m; OBytes p; OBytes q; OBytes ra; OBytes n; OBytes po; OBytes pr; OBytes sc; OBytes i; OList x] =>
      match dec_pairs x with
      | Some x' => Some {| e_method := m; e_path := p; e_query := q; e_remote := ra; e_name := n; e_port := po;
                           e_protocol := pr; e_scheme := sc; e_input := i; e_extra := x' |}
      | None => None
      end
  | _ => None
  end.
Definition dec_wire (o : obs) : option wire_res :=
  match o with
  | OList [OBytes s; OList h; OBytes b] =>
      match dec_pairs h with Some h' => Some (Wire s h' b) | None => None end
  | OTag tg => if String.eqb tg "Raised" then Some WRaise
               else if String.eqb tg "Chunked" then Some WChunked
               else if String.eqb tg "Unmodelled" then Some WUnmodelled else None
  | _ => None
  end.
Definition dec_outcome (o : obs) : option outcome :=
  match o with
  | OList [OTag tg; e; w] =>
      if String.eqb tg "Served" then
        match dec_env e, dec_wire w with
        | Some e', Some w' => Some (Served e' w')
        | _, _ => None
        end
      else None
  | OTag tg => if String.eqb tg "Rejected" then Some Rejected
               else if String.eqb tg "EnvironRaised" then Some EnvironRaised else None
  | _ => None
  end.

(* ====================================================================== *)
(* The property on one request / application behaviour                     *)
(* ====================================================================== *)

(* ---- host and port, read left to right: a name that is either free of colons or a
   bracketed literal, optionally followed by ":" and at most five digits ---- *)
Definition host_spec (h : text) : option (text * text) :=
  let split :=
    match h with
    | 91 :: _ => let '(a, f, b) := partition1 93 h in if f then Some (a ++ [93], b) else None
    | _ => let '(a, f, b) := partition1 58 h in Some (a, if f then 58 :: b else [])
    end in
  match split with
  | None => None
  | Some (name, []) => Some (name, [])
  | Some (name, c :: ds) =>
      if (c =? 58) && forallb is_digit ds && Nat.leb (List.length ds) 5 then Some (name, ds) else None
  end.

Definition canonical_dec (s : text) : bool :=
  match s with
  | [] => false
  | [c] => is_digit c
  | c :: _ => forallb is_digit s && negb (c =? 48)
  end.

Definition check_host (https : bool) (host name port : text) : bool :=
  canonical_dec port &&
  match host_spec host with
  | Some (n, ds) =>
      text_eqb name n &&
      match int_digits port with
      | Some p => p =? (match ds with [] => if https then 443 else 80 | _ => digits_to_N 0 ds end)
      | None => false
      end
  | None => true          (* not of the name[:port] form: nothing is required of the split *)
  end.

(* ---- headers: per-name value sequences ---- *)
Definition hname_eq (a b : text) : bool := text_eqb (text_lower a) (text_lower b).
Definition cgi_of (n : text) : text :=
  if hname_eq n (t "content-type") then t "CONTENT_TYPE"
  else if hname_eq n (t "content-length") then t "CONTENT_LENGTH"
  else t "HTTP_" ++ map (fun c => if c =? 45 then 95 else upper c) n.
Definition values_of (n : text) (hs : list (text * text)) : list text :=
  map snd (filter (fun nv => hname_eq (fst nv) n) hs).
(* CGI names identify '-' and '_': two different header names can share one variable *)
Definition collides (n : text) (hs : list (text * text)) : bool :=
  existsb (fun nv => text_eqb (cgi_of (fst nv)) (cgi_of n) && negb (hname_eq (fst nv) n)) hs.
Definition check_headers (hs : list (text * text)) (e : env) : bool :=
  forallb (fun nv =>
             match env_get (cgi_of (fst nv)) e with
             | Some v => collides (fst nv) hs || text_eqb v (join [44] (values_of (fst nv) hs))
             | None => false
             end) hs.

(* request.protocol, read off the header lines (HTTPServer(xheaders=True): X-Scheme, else
   X-Forwarded-Proto, last comma-separated entry, if it is "http" or "https") *)
Definition joined (n : text) (hs : list (text * text)) : option text :=
  match values_of n hs with [] => None | vs => Some (join [44] vs) end.
Definition https_spec (r : request) : bool :=
  let hs := map strip_value (r_headers r) in
  effective_https (r_xheaders r) (r_https r) (joined (t "x-scheme") hs) (joined (t "x-forwarded-proto") hs).

Definition check_env (r : request) (a : accepted) (e : wenv) : bool :=
  text_eqb (e_method e) (r_method r) &&
  text_eqb (e_path e) (unquote_bytes (q_path a)) &&        (* the percent-decoded path bytes *)
  text_eqb (e_query e) (q_query a) &&
  text_eqb (e_remote e) (remote_spec r) &&          (* the xheaders remote_ip (C32's model) *)
  text_eqb (e_protocol e) (if r_v11 r then t "HTTP/1.1" else t "HTTP/1.0") &&
  text_eqb (e_scheme e) (if https_spec r then t "https" else t "http") &&
  text_eqb (e_input e) (r_body r) &&
  check_host (https_spec r) (q_host a) (e_name e) (e_port e) &&
  check_headers (map strip_value (r_headers r)) (e_extra e).

(* ---- the application's output is what PEP 3333 and HTTP allow ---- *)
(* the reason is printable ASCII: inside the reason-phrase grammar write_headers enforces (fix 92da2a1),
   and the part of it that is written unchanged (obs-text is UTF-8 encoded by the start line) *)
Definition status_ok (s : text) : bool :=
  match s with
  | a :: b :: c :: 32 :: reason =>
      in_range 49 57 a && is_digit b && is_digit c && forallb (in_range 32 126) reason
  | _ => false
  end.
Definition status_code (s : text) : N := digits_to_N 0 (firstn 3 s).
Definition app_body (o : app_out) : text := List.concat (a_written o ++ a_chunks o).
Definition is_conn (n : text) : bool := hname_eq n (t "connection") || hname_eq n (t "transfer-encoding").
Definition app_ok (is_head : bool) (o : app_out) : bool :=
  match a_start o with
  | None => false
  | Some (status, hs) =>
      let body := app_body o in
      let code := status_code status in
      status_ok status &&
      forallb (fun nv => is_token (fst nv) && field_value_ok (snd nv) && negb (is_conn (fst nv))) hs &&
      (* a body only where HTTP allows one (a HEAD response may be computed with its body) *)
      (negb (no_body_code code) || match body with [] => true | _ => false end) &&
      (* a Content-Length supplied by the application is the actual length *)
      (match values_of (t "content-length") hs with
       | [] => true
       | [v] => is_head || no_body_code code ||
                match int_digits v with Some n => n =? N.of_nat (List.length body) | None => false end
       | _ => false
       end)
  end.

Definition lines_of (n : text) (hs : list (text * text)) : list text := values_of n hs.

Definition check_resp (version : text) (r : request) (o : app_out) (w : wire_res) : bool :=
  let is_head := text_eqb (r_method r) (t "HEAD") in
  if negb (app_ok is_head o) then true
  else
    match a_start o, w with
    | Some (status, hs), Wire start wh body =>
        let code := status_code status in
        let app_has n := existsb (fun nv => hname_eq (fst nv) n) hs in
        text_eqb start (t "HTTP/1.1 " ++ status) &&
        text_eqb body (if is_head then [] else app_body o) &&      (* a HEAD response carries no body *)
        (* every header the application set arrives, value sequence per name unchanged *)
        forallb (fun nv => list_eqb text_eqb (values_of (fst nv) wh) (values_of (fst nv) hs)) hs &&
        (* nothing else arrives except the three defaults (when absent) and the connection
           layer's own Connection header *)
        forallb (fun nv => app_has (fst nv) || is_conn (fst nv) ||
                           hname_eq (fst nv) k_clen || hname_eq (fst nv) k_ctype || hname_eq (fst nv) k_server) wh &&
        (app_has k_clen || list_eqb text_eqb (values_of k_clen wh)
                             (if code =? 304 then [] else [dec_N (N.of_nat (List.length (app_body o)))])) &&
        (app_has k_ctype || list_eqb text_eqb (values_of k_ctype wh)
                             (if code =? 304 then [] else [default_ctype])) &&
        (app_has k_server || list_eqb text_eqb (values_of k_server wh) [t "TornadoServer/" ++ version])
    | _, _ => false
    end.

Definition check_outcome (version : text) (r : request) (o : app_out) (out : outcome) : bool :=
  match accept r with
  | None => true                     (* not a request accepted by the server *)
  | Some a =>
      match out with
      | Served e w => check_env r a e && check_resp version r o w
      | _ => false                   (* building the environ raised, or the request was refused *)
      end
  end.

Definition check_one (c : one_input) (o : obs) : bool :=
  match dec_outcome o with
  | Some out => check_outcome (ver_of c) (req_of c) (app_of c) out
  | None => false
  end.

(* every request of the sequence is judged on its own: what it is handed and what it is answered
   depend on that request alone, whatever the container served before *)
Fixpoint check_all (ver : list N) (steps : list step_input) (os : list obs) : bool :=
  match steps, os with
  | [], [] => true
  | s :: steps', o :: os' => check_one (one_of ver s) o && check_all ver steps' os'
  | _, _ => false
  end.
Definition check_case (c : input) (o : obs) : bool :=
  match o with OList os => check_all (fst c) (snd c) os | _ => false end.
