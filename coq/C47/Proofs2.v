(* C47 — proofs, part 2: header names, the header map, request headers -> CGI variables. *)
From Coq Require Import List NArith ZArith Bool String Lia ZifyBool.
Import ListNotations.
From TV Require Import Lib.Obs Lib.C21_Utf8 Lib.C21_Pct C47.Model C47.Run C47.Proofs.
Local Open Scope N_scope.

(* ---------------- characters ---------------- *)
Lemma lower_lower c : lower (lower c) = lower c.
Proof. unfold lower, in_range. destruct ((65 <=? c) && (c <=? 90)) eqn:E; [|rewrite E; reflexivity].
  replace ((65 <=? c + 32) && (c + 32 <=? 90)) with false by lia. reflexivity. Qed.
Lemma lower_upper c : lower (upper c) = lower c.
Proof. unfold lower, upper, in_range.
  destruct ((97 <=? c) && (c <=? 122)) eqn:E.
  - replace ((65 <=? c - 32) && (c - 32 <=? 90)) with true by lia.
    replace ((65 <=? c) && (c <=? 90)) with false by lia. lia.
  - reflexivity. Qed.
Lemma upper_lower c : upper (lower c) = upper c.
Proof. unfold lower, upper, in_range.
  destruct ((65 <=? c) && (c <=? 90)) eqn:E.
  - replace ((97 <=? c + 32) && (c + 32 <=? 122)) with true by lia.
    replace ((97 <=? c) && (c <=? 122)) with false by lia. lia.
  - reflexivity. Qed.
Lemma upper_upper c : upper (upper c) = upper c.
Proof. unfold upper, in_range. destruct ((97 <=? c) && (c <=? 122)) eqn:E; [|rewrite E; reflexivity].
  replace ((97 <=? c - 32) && (c - 32 <=? 122)) with false by lia. reflexivity. Qed.
Lemma lower_is_dash c : (lower c =? 45) = (c =? 45).
Proof. unfold lower, in_range. destruct ((65 <=? c) && (c <=? 90)) eqn:E; lia. Qed.
Lemma upper_is_dash c : (upper c =? 45) = (c =? 45).
Proof. unfold upper, in_range. destruct ((97 <=? c) && (c <=? 122)) eqn:E; lia. Qed.

Definition up (c : N) : N := if c =? 45 then 95 else upper c.

Lemma text_lower_norm_aux s : forall b, text_lower (norm_aux b s) = text_lower s.
Proof.
  induction s as [|c s IH]; intros b; [reflexivity|]. cbn [norm_aux]. destruct (c =? 45) eqn:E.
  - cbn [text_lower map]. fold (text_lower (norm_aux true s)). rewrite IH.
    apply N.eqb_eq in E. subst. reflexivity.
  - cbn [text_lower map]. fold (text_lower (norm_aux false s)). rewrite IH.
    destruct b; [rewrite lower_upper|rewrite lower_lower]; reflexivity.
Qed.

Lemma norm_aux_lower s : forall b, norm_aux b (text_lower s) = norm_aux b s.
Proof.
  induction s as [|c s IH]; intros b; [reflexivity|]. cbn [text_lower map norm_aux].
  fold (text_lower s). rewrite lower_is_dash. destruct (c =? 45); rewrite IH; [reflexivity|].
  destruct b; [rewrite upper_lower|rewrite lower_lower]; reflexivity.
Qed.

Lemma text_lower_normalize n : text_lower (normalize n) = text_lower n.
Proof. apply text_lower_norm_aux. Qed.

Lemma normalize_eq_iff a b : normalize a = normalize b <-> text_lower a = text_lower b.
Proof.
  split; intros H.
  - rewrite <- (text_lower_normalize a), <- (text_lower_normalize b), H. reflexivity.
  - unfold normalize. rewrite <- (norm_aux_lower a), <- (norm_aux_lower b), H. reflexivity.
Qed.

Lemma hname_eq_iff a b : hname_eq a b = true <-> normalize a = normalize b.
Proof. unfold hname_eq. rewrite text_eqb_eq. symmetry. apply normalize_eq_iff. Qed.

Lemma hname_eq_normalize_l a b : hname_eq (normalize a) b = hname_eq a b.
Proof. unfold hname_eq. rewrite text_lower_normalize. reflexivity. Qed.

Lemma hname_eq_refl a : hname_eq a a = true.
Proof. apply text_eqb_refl. Qed.

Lemma hname_eq_sym a b : hname_eq a b = hname_eq b a.
Proof.
  destruct (hname_eq a b) eqn:E; symmetry.
  - apply hname_eq_iff. symmetry. apply hname_eq_iff. exact E.
  - destruct (hname_eq b a) eqn:E2; [|reflexivity]. apply hname_eq_iff in E2. symmetry in E2.
    apply hname_eq_iff in E2. congruence.
Qed.

Lemma normalize_idem n : normalize (normalize n) = normalize n.
Proof. apply normalize_eq_iff. apply text_lower_normalize. Qed.

(* key.replace("-", "_").upper() of the normalised name is that of the name itself *)
Lemma map_up_norm_aux s : forall b, map up (norm_aux b s) = map up s.
Proof.
  induction s as [|c s IH]; intros b; [reflexivity|]. cbn [norm_aux]. destruct (c =? 45) eqn:E.
  - cbn [map]. rewrite IH. apply N.eqb_eq in E. subst. reflexivity.
  - cbn [map]. rewrite IH. f_equal. unfold up.
    destruct b; [rewrite upper_is_dash, upper_upper|rewrite lower_is_dash, upper_lower]; reflexivity.
Qed.

Lemma cgi_key_normalize n : cgi_key (normalize n) = t "HTTP_" ++ map up n.
Proof. unfold cgi_key. fold up. unfold normalize. rewrite map_up_norm_aux. reflexivity. Qed.

(* ---------------- the header map ---------------- *)
Definition keys (m : hmap) : list text := map fst m.

Lemma hm_find_add k k' v m :
  hm_find k (hm_add k' v m) =
  if text_eqb k k' then Some (match hm_find k m with Some vs => vs ++ [v] | None => [v] end)
  else hm_find k m.
Proof.
  induction m as [|[k0 vs] m IH]; cbn [hm_add hm_find].
  - destruct (text_eqb k k'); reflexivity.
  - destruct (text_eqb k' k0) eqn:E0.
    + apply text_eqb_eq in E0. subst k0. cbn [hm_find]. destruct (text_eqb k k'); reflexivity.
    + cbn [hm_find]. destruct (text_eqb k k0) eqn:E1.
      * apply text_eqb_eq in E1. subst k0.
        replace (text_eqb k k') with false; [reflexivity|].
        symmetry. apply text_eqb_neq. intros ->. rewrite text_eqb_refl in E0. discriminate.
      * exact IH.
Qed.

Lemma keys_add k v m : keys (hm_add k v m) = if hm_mem k m then keys m else keys m ++ [k].
Proof.
  unfold hm_mem. induction m as [|[k0 vs] m IH]; cbn [hm_add hm_find keys map]; [reflexivity|].
  destruct (text_eqb k k0) eqn:E; [reflexivity|]. cbn [map fst]. fold (keys (hm_add k v m)). rewrite IH.
  destruct (hm_find k m); reflexivity.
Qed.

Lemma hm_find_None_keys k m : hm_find k m = None -> ~ In k (keys m).
Proof.
  induction m as [|[k0 vs] m IH]; cbn [hm_find keys map]; [intros _ []|].
  destruct (text_eqb k k0) eqn:E; [discriminate|]. intros H [Hk|Hin].
  - cbn in Hk. subst. rewrite text_eqb_refl in E. discriminate.
  - exact (IH H Hin).
Qed.

Lemma hm_find_In k m vs : hm_find k m = Some vs -> In (k, vs) m.
Proof.
  induction m as [|[k0 vs0] m IH]; cbn [hm_find]; [discriminate|].
  destruct (text_eqb k k0) eqn:E; intros H.
  - apply text_eqb_eq in E. inversion H; subst. left. reflexivity.
  - right. exact (IH H).
Qed.

Lemma NoDup_snoc {A} (l : list A) x : NoDup l -> ~ In x l -> NoDup (l ++ [x]).
Proof.
  induction 1 as [|a l Ha Hl IH]; intros Hx; cbn [app].
  - constructor; [intros []|constructor].
  - constructor.
    + intros Hin. apply in_app_or in Hin as [Hin|[->|[]]]; [contradiction|]. apply Hx. left. reflexivity.
    + apply IH. intros Hin. apply Hx. right. exact Hin.
Qed.

Lemma nodup_add k v m : NoDup (keys m) -> NoDup (keys (hm_add k v m)).
Proof.
  intros H. rewrite keys_add. unfold hm_mem. destruct (hm_find k m) eqn:E; [exact H|].
  apply NoDup_snoc; [exact H|apply hm_find_None_keys; exact E].
Qed.

(* values given to the normalised name [k], in order *)
Definition vals (k : text) (l : list (text * text)) : list text :=
  map snd (filter (fun nv => text_eqb k (normalize (fst nv))) l).

Lemma hdr_add_inv m n v m' : hdr_add m (n, v) = Some m' ->
  is_token n = true /\ field_value_ok v = true /\ m' = hm_add (normalize n) v m.
Proof.
  unfold hdr_add. destruct (is_token n && field_value_ok v) eqn:E; [|discriminate].
  apply andb_true_iff in E as [E1 E2]. intros H. inversion H. auto.
Qed.

Lemma hdr_add_all_find : forall l m m', hdr_add_all m l = Some m' -> forall k,
  hm_find k m' = match hm_find k m with
                 | Some vs => Some (vs ++ vals k l)
                 | None => match vals k l with [] => None | w => Some w end
                 end.
Proof.
  induction l as [|[n v] l IH]; intros m m' H k; cbn [hdr_add_all] in H.
  - inversion H; subst. unfold vals. cbn. destruct (hm_find k m'); [rewrite app_nil_r|]; reflexivity.
  - destruct (hdr_add m (n, v)) as [m1|] eqn:E1; [|discriminate].
    apply hdr_add_inv in E1 as [_ [_ ->]]. rewrite (IH _ _ H k), hm_find_add.
    unfold vals. cbn [filter fst]. destruct (text_eqb k (normalize n)); cbn [map snd].
    + destruct (hm_find k m); [rewrite <- app_assoc|]; reflexivity.
    + reflexivity.
Qed.

Lemma hdr_add_all_nodup : forall l m m', hdr_add_all m l = Some m' -> NoDup (keys m) -> NoDup (keys m').
Proof.
  induction l as [|[n v] l IH]; intros m m' H Hn; cbn [hdr_add_all] in H.
  - inversion H; subst. exact Hn.
  - destruct (hdr_add m (n, v)) as [m1|] eqn:E1; [|discriminate].
    apply hdr_add_inv in E1 as [_ [_ ->]]. apply (IH _ _ H). apply nodup_add. exact Hn.
Qed.

Lemma hdr_add_all_keys : forall l m m', hdr_add_all m l = Some m' ->
  forall k, In k (keys m') -> In k (keys m) \/ exists nv, In nv l /\ k = normalize (fst nv).
Proof.
  induction l as [|[n v] l IH]; intros m m' H k Hk; cbn [hdr_add_all] in H.
  - inversion H; subst. left. exact Hk.
  - destruct (hdr_add m (n, v)) as [m1|] eqn:E1; [|discriminate].
    apply hdr_add_inv in E1 as [_ [_ ->]]. destruct (IH _ _ H k Hk) as [Hin|[nv [Hin ->]]].
    + rewrite keys_add in Hin. destruct (hm_mem (normalize n) m); [left; exact Hin|].
      apply in_app_or in Hin as [Hin|[<-|[]]]; [left; exact Hin|].
      right. exists (n, v). split; [left; reflexivity|reflexivity].
    + right. exists nv. split; [right; exact Hin|reflexivity].
Qed.

Lemma hdr_add_all_valid : forall l m m', hdr_add_all m l = Some m' ->
  forall nv, In nv l -> is_token (fst nv) = true /\ field_value_ok (snd nv) = true.
Proof.
  induction l as [|[n v] l IH]; intros m m' H nv Hin; cbn [hdr_add_all] in H; [destruct Hin|].
  destruct (hdr_add m (n, v)) as [m1|] eqn:E1; [|discriminate].
  apply hdr_add_inv in E1 as [T [V ->]]. destruct Hin as [<-|Hin]; [split; assumption|].
  exact (IH _ _ H nv Hin).
Qed.

Lemma values_of_vals n l : values_of n l = vals (normalize n) l.
Proof.
  unfold values_of, vals. f_equal. apply filter_ext. intros [x v]. cbn [fst].
  destruct (hname_eq x n) eqn:E.
  - apply hname_eq_iff in E. rewrite E. symmetry. apply text_eqb_refl.
  - symmetry. apply text_eqb_neq. intros Hn. symmetry in Hn. apply hname_eq_iff in Hn. congruence.
Qed.

Lemma vals_nonempty k l nv : In nv l -> k = normalize (fst nv) -> vals k l <> [].
Proof.
  intros Hin -> Hv. unfold vals in Hv. apply map_eq_nil in Hv.
  assert (Hf : In nv (filter (fun x => text_eqb (normalize (fst nv)) (normalize (fst x))) l)).
  { apply filter_In. split; [exact Hin|apply text_eqb_refl]. }
  rewrite Hv in Hf. destruct Hf.
Qed.

(* ---- removal ---- *)
Lemma hm_find_remove_other k k' m : text_eqb k k' = false -> hm_find k (hm_remove k' m) = hm_find k m.
Proof.
  intros H. induction m as [|[k0 vs] m IH]; cbn [hm_remove hm_find]; [reflexivity|].
  destruct (text_eqb k' k0) eqn:E0.
  - apply text_eqb_eq in E0. subst k0. rewrite H. reflexivity.
  - cbn [hm_find]. rewrite IH. reflexivity.
Qed.

Lemma hm_remove_incl k m : incl (hm_remove k m) m.
Proof.
  induction m as [|[k0 vs] m IH]; cbn [hm_remove]; [apply incl_refl|].
  destruct (text_eqb k k0); [apply incl_tl, incl_refl|].
  intros x [<-|Hin]; [left; reflexivity|right; exact (IH x Hin)].
Qed.

Lemma keys_remove_incl k m : incl (keys (hm_remove k m)) (keys m).
Proof. intros x Hin. apply in_map_iff in Hin as [kv [<- Hin]]. apply in_map. exact (hm_remove_incl k m kv Hin). Qed.

Lemma nodup_remove k m : NoDup (keys m) -> NoDup (keys (hm_remove k m)).
Proof.
  induction m as [|[k0 vs] m IH]; cbn [hm_remove keys map]; intros H; [exact H|].
  inversion H as [|? ? Hk Hm]; subst. destruct (text_eqb k k0); [exact Hm|].
  cbn [map fst]. constructor; [|exact (IH Hm)]. intros Hin. apply Hk. exact (keys_remove_incl k m _ Hin).
Qed.

Lemma remove_not_in k m : NoDup (keys m) -> ~ In k (keys (hm_remove k m)).
Proof.
  induction m as [|[k0 vs] m IH]; cbn [hm_remove keys map]; intros H; [intros []|].
  inversion H as [|? ? Hk Hm]; subst. destruct (text_eqb k k0) eqn:E.
  - apply text_eqb_eq in E. subst. exact Hk.
  - cbn [map fst]. intros [->|Hin]; [rewrite text_eqb_refl in E; discriminate|]. exact (IH Hm Hin).
Qed.

(* ---------------- the dict of later assignments ---------------- *)
Lemma env_get_set K K' v e : env_get K (env_set K' v e) = if text_eqb K K' then Some v else env_get K e.
Proof.
  induction e as [|[k0 v0] e IH]; cbn [env_set env_get].
  - destruct (text_eqb K K'); reflexivity.
  - destruct (text_eqb K' k0) eqn:E0.
    + apply text_eqb_eq in E0. subst k0. cbn [env_get]. destruct (text_eqb K K'); reflexivity.
    + cbn [env_get]. destruct (text_eqb K k0) eqn:E1.
      * apply text_eqb_eq in E1. subst k0. replace (text_eqb K K') with false; [reflexivity|].
        symmetry. apply text_eqb_neq. intros ->. rewrite text_eqb_refl in E0. discriminate.
      * exact IH.
Qed.

Definition step (K : text) (acc : option text) (kv : text * text) : option text :=
  if text_eqb K (cgi_key (fst kv)) then Some (snd kv) else acc.

Lemma env_get_fold K L : forall x,
  env_get K (fold_left (fun e kv => env_set (cgi_key (fst kv)) (snd kv) e) L x) = fold_left (step K) L (env_get K x).
Proof.
  induction L as [|kv L IH]; intros x; cbn [fold_left]; [reflexivity|].
  rewrite IH, env_get_set. reflexivity.
Qed.

Lemma fold_step_nomatch K L : (forall kv, In kv L -> text_eqb K (cgi_key (fst kv)) = false) ->
  forall acc, fold_left (step K) L acc = acc.
Proof.
  induction L as [|kv L IH]; intros H acc; cbn [fold_left]; [reflexivity|].
  unfold step at 2. rewrite (H kv (or_introl eq_refl)). apply IH. intros x Hx. apply H. right. exact Hx.
Qed.

Lemma fold_step_Some K L : forall x, exists v, fold_left (step K) L (Some x) = Some v.
Proof.
  induction L as [|kv L IH]; intros x; cbn [fold_left]; [eauto|].
  unfold step at 2. destruct (text_eqb K (cgi_key (fst kv))); apply IH.
Qed.

Lemma fold_step_exists K L : (exists kv, In kv L /\ text_eqb K (cgi_key (fst kv)) = true) ->
  forall acc, exists v, fold_left (step K) L acc = Some v.
Proof.
  induction L as [|kv L IH]; intros [x [Hin Hx]] acc; [destruct Hin|]. cbn [fold_left].
  destruct Hin as [->|Hin].
  - unfold step at 2. rewrite Hx. apply fold_step_Some.
  - apply IH. eauto.
Qed.

Lemma fold_step_unique K L k v :
  NoDup (map fst L) -> In (k, v) L -> K = cgi_key k ->
  (forall k' v', In (k', v') L -> cgi_key k' = K -> k' = k) ->
  forall acc, fold_left (step K) L acc = Some v.
Proof.
  induction L as [|[k1 v1] L IH]; intros Hnd Hin HK Hu acc; [destruct Hin|].
  cbn [map fst] in Hnd. inversion Hnd as [|? ? Hk1 Hnd']; subst. cbn [fold_left]. destruct Hin as [E|Hin].
  - inversion E; subst. unfold step at 2. cbn [fst snd]. rewrite text_eqb_refl.
    apply fold_step_nomatch. intros [k' v'] Hin'. cbn [fst]. apply text_eqb_neq. intros Heq.
    assert (k' = k) by (apply (Hu k' v'); [right; exact Hin'|symmetry; exact Heq]). subst k'.
    apply Hk1. apply in_map_iff. exists (k, v'). split; [reflexivity|exact Hin'].
  - apply IH; [exact Hnd'|exact Hin|reflexivity|]. intros k' v' Hin' He. apply (Hu k' v'); [right; exact Hin'|exact He].
Qed.

Lemma hm_items_fst m : map fst (hm_items m) = keys m.
Proof. unfold hm_items, keys. rewrite map_map. reflexivity. Qed.

Lemma hm_items_In k v m : In (k, v) (hm_items m) <-> exists vs, In (k, vs) m /\ v = join [44] vs.
Proof.
  unfold hm_items. rewrite in_map_iff. split.
  - intros [[k0 vs] [E Hin]]. cbn [fst snd] in E. inversion E; subst. eauto.
  - intros [vs [Hin ->]]. exists (k, vs). split; [reflexivity|exact Hin].
Qed.
