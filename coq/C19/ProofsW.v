(* C19 — whitespace directives are scoped linearly.  [Flat] is a tokenizer WITHOUT any
   nesting: it walks the tags of a file left to right, a {% whitespace M %} tag sets the
   mode for all following text, wherever the tag stands.  The literal text chunks of the
   parsed tree, read in document order (descending into if/for/while/try/apply/block
   bodies), are exactly the chunks of the flat tokenizer — so the mode chosen inside a
   nested body stays in force after the body's {% end %}. *)
From Coq Require Import List NArith Arith Bool String Lia.
Import ListNotations.
From TV Require Import Lib.Obs Lib.C21_Utf8 C19.Model.
Local Open Scope N_scope.

Definition chunk := (text * wsmode)%type.

Fixpoint texts (n : node) : list chunk :=
  match n with
  | NText v _ ws => [(v, ws)]
  | NControl _ _ b => flat_map texts b
  | NApply _ _ b => flat_map texts b
  | NBlock _ _ b => flat_map texts b
  | _ => []
  end.
Definition texts_list (ns : list node) : list chunk := flat_map texts ns.

(* text before the next tag *)
Definition pre_of (curly : nat) (st : rstate) : list chunk * rstate :=
  match curly with
  | O => ([], st)
  | _ => let '(c, st') := consume curly st in ([(c, r_ws st')], st')
  end.

Definition closer (brace : text) : N * N :=
  if second brace =? 35 then (35, 125) else if second brace =? 123 then (125, 125) else (37, 125).

(* the only tags that change the reader: {% whitespace M %} and {% autoescape F %} *)
Definition upd (brace c : text) (st4 : rstate) : option rstate :=
  if (second brace =? 35) || (second brace =? 123) then Some st4 else
  let '(op, sfx0) := partition_sp (strip c) in
  let sfx := strip sfx0 in
  if teqb op (s2l "autoescape") then
    Some (mkR (r_txt st4) (r_line st4) (r_ws st4) (if teqb sfx (s2l "None") then None else Some sfx) (r_pos st4))
  else if teqb op (s2l "whitespace") then
    match ws_of_text sfx with
    | Some m => Some (mkR (r_txt st4) (r_line st4) m (r_ae st4) (r_pos st4))
    | None => None
    end
  else Some st4.

Definition bang (st2 : rstate) : bool := match r_txt st2 with c :: _ => c =? 33 | [] => false end.

Inductive Flat : rstate -> list chunk -> Prop :=
| F_eof st s st' :
    scan (r_txt st) 0 = None -> consume_all st = (s, st') -> Flat st [(s, r_ws st')]
| F_bang st curly pre st1 brace st2 x st3 l :
    scan (r_txt st) 0 = Some curly -> pre_of curly st = (pre, st1) -> consume 2 st1 = (brace, st2) ->
    bang st2 = true -> consume 1 st2 = (x, st3) -> Flat st3 l ->
    Flat st (pre ++ (brace, r_ws st3) :: l)
| F_tag st curly pre st1 brace st2 e c st3 y st4 st5 l :
    scan (r_txt st) 0 = Some curly -> pre_of curly st = (pre, st1) -> consume 2 st1 = (brace, st2) ->
    bang st2 = false ->
    find2 (fst (closer brace)) (snd (closer brace)) (r_txt st2) = Some e ->
    consume e st2 = (c, st3) -> consume 2 st3 = (y, st4) -> upd brace c st4 = Some st5 ->
    Flat st5 l -> Flat st (pre ++ l).

Lemma teqb_eq' a b : teqb a b = true -> a = b.
Proof. apply list_eqb_sound. intros x y H. apply N.eqb_eq. exact H. Qed.

Lemma texts_list_app a b : texts_list (a ++ b) = texts_list a ++ texts_list b.
Proof. unfold texts_list. induction a; simpl; [reflexivity|]. rewrite IHa, app_assoc. reflexivity. Qed.
Lemma texts_rev_cons n acc : texts_list (rev (n :: acc)) = texts_list (rev acc) ++ texts n.
Proof. simpl. rewrite texts_list_app. unfold texts_list at 2. simpl. rewrite app_nil_r. reflexivity. Qed.

Definition FlatGoal (ib : option text) (st st' : rstate) (T : list chunk) : Prop :=
  match ib with
  | None => Flat st T
  | Some _ => forall l, Flat st' l -> Flat st (T ++ l)
  end.

Ltac step H :=
  match type of H with
  | (if ?c then _ else _) = _ => destruct c eqn:?
  | (match ?x with _ => _ end) = _ => destruct x eqn:?
  end.

Ltac op_false X :=
  match goal with Hp : partition_sp _ = (?op, _) |- _ =>
    assert (teqb op (s2l X) = false) by
      (destruct (teqb op (s2l X)) eqn:Eop; [|reflexivity]; try congruence;
       apply teqb_eq' in Eop; subst op;
       repeat match goal with
         | H : teqb (s2l _) _ = true |- _ => vm_compute in H; discriminate H
         | H : op_in (s2l _) _ = true |- _ => vm_compute in H; discriminate H
         | H : allowed_parents (s2l _) = Some _ |- _ => vm_compute in H; discriminate H
         end)
  end.

Lemma upd_plain brace c st4 op sfx0 :
  (second brace =? 35) = false -> (second brace =? 123) = false ->
  partition_sp (strip c) = (op, sfx0) ->
  teqb op (s2l "autoescape") = false -> teqb op (s2l "whitespace") = false ->
  upd brace c st4 = Some st4.
Proof. intros H1 H2 H3 H4 H5. unfold upd. rewrite H1, H2, H3, H4, H5. reflexivity. Qed.

Lemma closer_block brace : (second brace =? 35) = false -> (second brace =? 123) = false -> closer brace = (37, 125).
Proof. intros H1 H2. unfold closer. rewrite H1, H2. reflexivity. Qed.

Lemma parse_flat : forall f st ib il acc body st',
  parse_body f st ib il acc = POk (body, st') ->
  exists T, texts_list body = texts_list (rev acc) ++ T /\ FlatGoal ib st st' T.
Proof.
  induction f as [|f IH]; intros st ib il acc body st' H; [discriminate|].
  cbn [parse_body] in H.
  destruct (scan (r_txt st) 0) as [curly|] eqn:Escan.
  2:{ destruct ib; [discriminate|]. destruct (consume_all st) as [s st1] eqn:Ec.
      injection H as <- <-. exists [(s, r_ws st1)]. split; [apply texts_rev_cons|].
      simpl. eapply F_eof; eauto. }
  destruct (match curly with
            | O => (acc, st)
            | S _ => let '(c, st'0) := consume curly st in (NText c (r_line st'0) (r_ws st'0) :: acc, st'0)
            end) as [acc1 st1] eqn:E1.
  assert (Hpre : exists pre, pre_of curly st = (pre, st1) /\ texts_list (rev acc1) = texts_list (rev acc) ++ pre).
  { unfold pre_of. destruct curly.
    - inversion E1; subst. exists []. rewrite app_nil_r. auto.
    - destruct (consume (S curly) st) as [c0 st0]. inversion E1; subst. eexists; split; [reflexivity|].
      apply texts_rev_cons. }
  destruct Hpre as (pre & Hpre & Hacc1). clear E1.
  destruct (consume 2 st1) as [brace st2] eqn:E2.
  fold (bang st2) in H.
  destruct (bang st2) eqn:Ebang.
  { destruct (consume 1 st2) as [x st3] eqn:E3.
    destruct (IH _ _ _ _ _ _ H) as (T' & HT & HG).
    exists (pre ++ (brace, r_ws st3) :: T'). split.
    - rewrite HT, texts_rev_cons, Hacc1. simpl. rewrite <- !app_assoc. reflexivity.
    - destruct ib; simpl in *.
      + intros l Hl. rewrite <- app_assoc. simpl. eapply F_bang; eauto.
      + eapply F_bang; eauto. }
  assert (Hclose : forall ns sX (stX : rstate) e c st3 y st4,
            find2 (fst (closer brace)) (snd (closer brace)) (r_txt st2) = Some e ->
            consume e st2 = (c, st3) -> consume 2 st3 = (y, st4) -> upd brace c st4 = Some stX ->
            texts_list (rev ns) = texts_list (rev acc1) ->
            parse_body f sX ib il ns = POk (body, st') -> sX = stX ->
            exists T, texts_list body = texts_list (rev acc) ++ T /\ FlatGoal ib st st' T).
  { intros ns sX stX e c st3 y st4 Hf Hc1 Hc2 Hu Hns Hp ->.
    destruct (IH _ _ _ _ _ _ Hp) as (T' & HT & HG).
    exists (pre ++ T'). split.
    - rewrite HT, Hns, Hacc1. rewrite <- !app_assoc. reflexivity.
    - destruct ib; cbn [FlatGoal] in HG |- *.
      + intros l Hl. rewrite <- !app_assoc. eapply F_tag; eauto.
      + eapply F_tag; eauto. }
  destruct (second brace =? 35) eqn:Hb0.
  { destruct (find2 35 125 (r_txt st2)) as [e|] eqn:Hf; [|discriminate].
    destruct (consume e st2) as [c st3] eqn:Hc1. destruct (consume 2 st3) as [y st4] eqn:Hc2.
    eapply (Hclose acc1 st4 st4); eauto.
    - unfold closer. rewrite Hb0. exact Hf.
    - unfold upd. rewrite Hb0. reflexivity.
  }
  destruct (second brace =? 123) eqn:Hb1.
  { destruct (find2 125 125 (r_txt st2)) as [e|] eqn:Hf; [|discriminate].
    destruct (consume e st2) as [c st3] eqn:Hc1. destruct (consume 2 st3) as [y st4] eqn:Hc2.
    destruct (is_nil (strip c)); [discriminate|].
    eapply (Hclose (NExpr (strip c) (r_line st2) false :: acc1) st4 st4); eauto.
    - unfold closer. rewrite Hb0, Hb1. exact Hf.
    - unfold upd. rewrite Hb0, Hb1. reflexivity.
    - rewrite texts_rev_cons. simpl. rewrite app_nil_r. reflexivity. }
  destruct (find2 37 125 (r_txt st2)) as [e|] eqn:Hf; [|discriminate].
  destruct (consume e st2) as [c st3] eqn:Hc1. destruct (consume 2 st3) as [y st4] eqn:Hc2.
  destruct (is_nil (strip c)) eqn:Hnil; [discriminate|].
  destruct (partition_sp (strip c)) as [op sfx0] eqn:Hpart.
  assert (Hcl : find2 (fst (closer brace)) (snd (closer brace)) (r_txt st2) = Some e)
    by (rewrite (closer_block _ Hb0 Hb1); exact Hf).
  repeat (step H;
          try solve [ discriminate
                    | match goal with Hp : parse_body _ ?sx _ _ ?ns = POk _ |- _ =>
                        eapply (Hclose ns sx sx _ _ _ _ _ Hcl Hc1 Hc2);
                        [ first
                            [ eapply upd_plain; eauto; [op_false "autoescape"%string; assumption|op_false "whitespace"%string; assumption]
                            | unfold upd; rewrite Hb0, Hb1; cbn [orb]; rewrite Hpart;
                              repeat match goal with Ht : teqb op _ = _ |- _ => rewrite Ht end;
                              repeat match goal with Ht : ws_of_text _ = _ |- _ => rewrite Ht end; reflexivity ]
                        | first [reflexivity | rewrite texts_rev_cons; simpl; rewrite app_nil_r; reflexivity]
                        | exact Hp | reflexivity ]
                      end ]).
  1:{ injection H as <- <-. exists pre. split; [exact Hacc1|].
      cbn [FlatGoal]. intros l Hl. eapply F_tag; eauto.
      eapply upd_plain; eauto; [op_false "autoescape"%string; assumption|op_false "whitespace"%string; assumption]. }
  all: match goal with
       | Hb : parse_body _ ?s4 (Some _) _ [] = POk (?bb, ?s5), Hp : parse_body _ ?s5 _ _ _ = POk _,
         Hpt : partition_sp (strip ?cc) = _, Hbr : (second ?br =? 35) = false |- _ =>
           destruct (IH _ _ _ _ _ _ Hb) as (Tb & HTb & HGb);
           destruct (IH _ _ _ _ _ _ Hp) as (T' & HT & HG);
           cbn [FlatGoal] in HGb; simpl in HTb;
           assert (Hu : upd br cc s4 = Some s4)
             by (eapply upd_plain; eauto;
                 solve [op_false "autoescape"%string; assumption | op_false "whitespace"%string; assumption]);
           exists (pre ++ Tb ++ T'); split;
           [ rewrite HT, texts_rev_cons, Hacc1; cbn [texts]; fold (texts_list bb); rewrite HTb;
             rewrite <- !app_assoc; reflexivity
           | destruct ib; cbn [FlatGoal] in HG |- *;
             [ intros l0 Hl0; rewrite <- !app_assoc; eapply F_tag; eauto
             | eapply F_tag; eauto ] ]
       end.
Qed.

(* top level: the text chunks of a parsed file, in document order, are the flat tokenizer's *)
Theorem parse_file_texts_are_flat : forall ws m ae name src t,
  ws_of_text ws = Some m -> parse_file ws ae name src = POk t ->
  Flat (mkR src 1 m ae 0) (texts_list (t_body t)).
Proof.
  intros ws m ae name src t Hws H. unfold parse_file in H. rewrite Hws in H.
  destruct (parse_body (S (List.length src)) (mkR src 1 m ae 0) None false []) as [[b s]|] eqn:E; [|discriminate].
  inversion H; subst. simpl.
  destruct (parse_flat _ _ _ _ _ _ _ E) as (T & HT & HG). simpl in HT, HG. rewrite HT. exact HG.
Qed.
