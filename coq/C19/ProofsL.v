(* C19 — ParseError line numbers: every ParseError raised by _parse names the line of a reader position (1 + the number of newlines before some offset of the source). *)
From Coq Require Import List NArith Arith Bool String Lia.
Import ListNotations.
From TV Require Import Lib.Obs Lib.C21_Utf8 C19.Model.
Local Open Scope N_scope.

(* the reader is at offset n of the source and its line counter is 1 + newlines before n *)
Definition pos_ok (src : text) (st : rstate) : Prop :=
  exists n, r_txt st = skipn n src /\ r_line st = (1 + count_nl (firstn n src))%nat.

Lemma count_nl_app a b : count_nl (a ++ b) = (count_nl a + count_nl b)%nat.
Proof. induction a as [|c r IH]; simpl; [reflexivity|]. destruct (c =? 10); rewrite IH; reflexivity. Qed.

Lemma firstn_add {A} (l : list A) n m : firstn (n + m) l = firstn n l ++ firstn m (skipn n l).
Proof.
  revert l; induction n as [|n IH]; intros l; simpl; [reflexivity|].
  destruct l as [|x r]; simpl; [destruct m; reflexivity|]. rewrite IH. reflexivity.
Qed.
Lemma skipn_add {A} (l : list A) n m : skipn m (skipn n l) = skipn (n + m) l.
Proof.
  revert l; induction n as [|n IH]; intros l; simpl; [reflexivity|].
  destruct l as [|x r]; simpl; [destruct m; reflexivity|]. apply IH.
Qed.

Lemma consume_pos src m st s st' : pos_ok src st -> consume m st = (s, st') -> pos_ok src st'.
Proof.
  intros (n & Ht & Hl) H. unfold consume in H. inversion H; subst; clear H.
  exists (n + m)%nat. simpl. rewrite Ht, Hl, skipn_add, firstn_add, count_nl_app. split; [reflexivity|lia].
Qed.

Lemma mkR_pos src st ws ae : pos_ok src st -> pos_ok src (mkR (r_txt st) (r_line st) ws ae).
Proof. intros (n & H1 & H2). exists n. simpl. auto. Qed.

Ltac step H :=
  match type of H with
  | (if ?c then _ else _) = _ => destruct c eqn:?
  | (match ?x with _ => _ end) = _ => destruct x eqn:?
  end.
Ltac derive :=
  repeat match goal with
  | Hc : consume _ ?a = (_, ?b), Hp : pos_ok ?src ?a |- _ =>
      lazymatch goal with
      | _ : pos_ok src b |- _ => fail
      | _ => pose proof (consume_pos _ _ _ _ _ Hp Hc)
      end
  end.

Lemma parse_ok_pos : forall f src st ib il acc body st',
  parse_body f st ib il acc = POk (body, st') -> pos_ok src st -> pos_ok src st'.
Proof.
  induction f as [|f IH]; intros src st ib il acc body st' H Hp; [discriminate|].
  cbn [parse_body] in H.
  destruct (scan (r_txt st) 0) as [curly|] eqn:Escan.
  2:{ destruct ib; [discriminate|]. destruct (consume_all st) as [s st1] eqn:Ec.
      injection H as _ <-. unfold consume_all in Ec. eapply consume_pos; eauto. }
  destruct (match curly with
            | O => (acc, st)
            | S _ => let '(c, st'0) := consume curly st in (NText c (r_line st'0) (r_ws st'0) :: acc, st'0)
            end) as [acc1 st1] eqn:E1.
  assert (Hp1 : pos_ok src st1).
  { destruct curly; [inversion E1; subst; auto|]. destruct (consume (S curly) st) as [c0 st0] eqn:Ec.
    inversion E1; subst. eapply consume_pos; eauto. }
  clear E1.
  repeat (step H; derive;
          try solve [ discriminate
                    | injection H as _ <-; assumption
                    | eapply IH; [exact H|]; first [assumption | apply mkR_pos; assumption]
                    ]).
  all: match goal with
       | Hb : parse_body _ ?s _ _ [] = POk (_, _), Hq : pos_ok _ ?s |- _ =>
           pose proof (IH _ _ _ _ _ _ _ Hb Hq)
       end; eapply IH; [exact H|assumption].
Qed.

(* every ParseError names the line of the reader's position in the source *)
Lemma parse_err_pos : forall f src st ib il acc k line,
  parse_body f st ib il acc = PErr (PE k line) -> pos_ok src st ->
  exists n, line = (1 + count_nl (firstn n src))%nat.
Proof.
  induction f as [|f IH]; intros src st ib il acc k line H Hp; [discriminate|].
  cbn [parse_body] in H.
  destruct (scan (r_txt st) 0) as [curly|] eqn:Escan.
  2:{ destruct ib; [|destruct (consume_all st); discriminate].
      injection H as _ <-. destruct Hp as (n & _ & Hl). eauto. }
  destruct (match curly with
            | O => (acc, st)
            | S _ => let '(c, st'0) := consume curly st in (NText c (r_line st'0) (r_ws st'0) :: acc, st'0)
            end) as [acc1 st1] eqn:E1.
  assert (Hp1 : pos_ok src st1).
  { destruct curly; [inversion E1; subst; auto|]. destruct (consume (S curly) st) as [c0 st0] eqn:Ec.
    inversion E1; subst. eapply consume_pos; eauto. }
  clear E1.
  repeat (step H; derive;
          try solve [ discriminate
                    | injection H as _ <-;
                      match goal with Hq : pos_ok _ ?s |- exists n, r_line ?s = _ =>
                        destruct Hq as (n0 & _ & Hl0); eauto end
                    | eapply IH; [exact H|]; first [assumption | apply mkR_pos; assumption]
                    ]).
  all: try match goal with
       | Hb : parse_body _ ?s _ _ [] = POk (_, _), Hq : pos_ok _ ?s |- _ =>
           pose proof (parse_ok_pos _ _ _ _ _ _ _ _ Hb Hq)
       end.
  all: first
    [ injection H as _ <-;
      match goal with Hq : pos_ok _ ?s |- exists n, r_line ?s = _ =>
        destruct Hq as (n0 & _ & Hl0); eauto end
    | eapply IH; [exact H|assumption]
    | match goal with
      | Hb : parse_body _ _ _ _ [] = PErr ?e |- _ => injection H as ->; eapply IH; [exact Hb|assumption]
      end ].
Qed.

Theorem parse_file_error_line : forall ws ae name src k line,
  parse_file ws ae name src = PErr (PE k line) ->
  exists n, line = (1 + count_nl (firstn n src))%nat.
Proof.
  intros ws ae name src k line H. unfold parse_file in H.
  destruct (ws_of_text ws) as [m|]; [|discriminate].
  destruct (parse_body (S (List.length src)) (mkR src 1 m ae) None false []) as [[b s]|e] eqn:E; [discriminate|].
  injection H as ->. eapply parse_err_pos; [exact E|]. exists O. simpl. auto.
Qed.

Corollary parse_file_error_line_in_range : forall ws ae name src k line,
  parse_file ws ae name src = PErr (PE k line) -> (1 <= line <= 1 + count_nl src)%nat.
Proof.
  intros ws ae name src k line H. destruct (parse_file_error_line _ _ _ _ _ _ H) as (n & ->).
  split; [lia|]. rewrite <- (firstn_skipn n src) at 2. rewrite count_nl_app. lia.
Qed.
