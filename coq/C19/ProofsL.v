(* C19 — ParseError line numbers, exactly.  The reader state carries reader.pos; every
   ParseError is raised with lineno = 1 + the number of newlines before reader.pos,
   and reader.pos is characterised per error class (just after the closing token of
   the offending tag / just after the unterminated opening token / the point after
   which no further tag exists). *)
From Coq Require Import List NArith Arith Bool String Lia.
Import ListNotations.
From TV Require Import Lib.Obs Lib.C21_Utf8 C19.Model.
Local Open Scope N_scope.

Definition pos_ok (src : text) (st : rstate) : Prop :=
  r_txt st = skipn (r_pos st) src
  /\ r_line st = (1 + count_nl (firstn (r_pos st) src))%nat
  /\ (r_pos st <= List.length src)%nat.

Lemma count_nl_app a b : count_nl (a ++ b) = (count_nl a + count_nl b)%nat.
Proof. induction a as [|c r IH]; simpl; [reflexivity|]. destruct (c =? 10); rewrite IH; reflexivity. Qed.

Lemma firstn_add {A} (l : list A) n m : firstn (n + m) l = firstn n l ++ firstn m (skipn n l).
Proof.
  revert l; induction n as [|n IH]; intros l; simpl; [reflexivity|].
  destruct l as [|x r]; simpl; [destruct m; reflexivity|]. rewrite IH. reflexivity.
Qed.
Lemma skipn_add {A} (l : list A) n m : skipn m (skipn n l) = skipn (n + m) l.
Proof.
  revert l; induction n as [|n IH]; intros l; simpl; [reflexivity|].
  destruct l as [|x r]; simpl; [destruct m; reflexivity|]. apply IH.
Qed.
Lemma skipn_sat {A} (l : list A) m : skipn m l = skipn (List.length (firstn m l)) l.
Proof. revert l; induction m as [|m IH]; intros [|x r]; simpl; auto. Qed.
Lemma firstn_sat {A} (l : list A) m : firstn m l = firstn (List.length (firstn m l)) l.
Proof. revert l; induction m as [|m IH]; intros [|x r]; simpl; auto. f_equal. apply IH. Qed.

Lemma consume_pos src m st s st' : pos_ok src st -> consume m st = (s, st') ->
  pos_ok src st' /\ s = firstn m (skipn (r_pos st) src) /\ r_pos st' = (r_pos st + List.length s)%nat.
Proof.
  intros (Ht & Hl & Hb) H. unfold consume in H. inversion H; subst; clear H. cbn [r_pos r_txt r_line].
  split; [|split; [rewrite Ht; reflexivity|reflexivity]].
  unfold pos_ok. cbn [r_pos r_txt r_line].
  set (m' := List.length (firstn m (r_txt st))).
  assert (Hm : (m' <= List.length (r_txt st))%nat) by (unfold m'; rewrite firstn_length; lia).
  rewrite Ht in Hm. rewrite skipn_length in Hm.
  repeat split.
  - rewrite (skipn_sat (r_txt st) m). fold m'. rewrite Ht, skipn_add. reflexivity.
  - rewrite firstn_add, count_nl_app, Hl. rewrite (firstn_sat (r_txt st) m). fold m'. rewrite Ht. lia.
  - lia.
Qed.

(* positions *)
Definition closed_by (src : text) (pos : nat) (tok : text) : Prop :=
  (2 <= pos)%nat /\ firstn 2 (skipn (pos - 2) src) = tok.
Definition opened (src : text) (pos : nat) (tok : text) : Prop :=
  exists p0, pos = (p0 + List.length tok)%nat /\ tok = firstn 2 (skipn p0 src).

Lemma find2_at a b : forall s e, find2 a b s = Some e ->
  firstn 2 (skipn e s) = [a; b] /\ (e + 2 <= List.length s)%nat.
Proof.
  induction s as [|c r IH]; intros e H; [discriminate|]. simpl in H.
  destruct r as [|d r']; [discriminate|].
  destruct ((c =? a) && (d =? b)) eqn:E.
  - inversion H; subst. apply andb_true_iff in E as [E1 E2]. apply N.eqb_eq in E1, E2. subst. simpl. split; [reflexivity|lia].
  - destruct (find2 a b (d :: r')) as [e'|] eqn:E'; [|discriminate]. inversion H; subst.
    destruct (IH e' eq_refl) as [H1 H2]. split; [exact H1|simpl in *; lia].
Qed.

Lemma after_find src a b r n t r0 t0 r1 :
  pos_ok src r -> find2 a b (r_txt r) = Some n ->
  consume n r = (t, r0) -> consume 2 r0 = (t0, r1) ->
  closed_by src (r_pos r1) [a; b].
Proof.
  intros Hp Hf H1 H2. destruct (find2_at a b _ _ Hf) as [Ha Hb].
  destruct (consume_pos _ _ _ _ _ Hp H1) as (Hp0 & Es & Ep0).
  destruct (consume_pos _ _ _ _ _ Hp0 H2) as (Hp1 & Es0 & Ep1).
  destruct Hp as (Ht & _ & _).
  assert (Ln : List.length t = n).
  { rewrite Es, firstn_length, <- Ht. lia. }
  assert (Et0 : t0 = [a; b]).
  { rewrite Es0, Ep0, Ln, <- skipn_add, <- Ht. exact Ha. }
  unfold closed_by. rewrite Ep1, Ep0, Ln, Et0. simpl List.length. split; [lia|].
  replace (r_pos r + n + 2 - 2)%nat with (r_pos r + n)%nat by lia.
  rewrite <- skipn_add, <- Ht. exact Ha.
Qed.

Lemma mkR_pos src st ws ae : pos_ok src st -> pos_ok src (mkR (r_txt st) (r_line st) ws ae (r_pos st)).
Proof. intros H. exact H. Qed.

Ltac step H :=
  match type of H with
  | (if ?c then _ else _) = _ => destruct c eqn:?
  | (match ?x with _ => _ end) = _ => destruct x eqn:?
  end.
Ltac derive :=
  repeat match goal with
  | Hc : consume _ ?a = (_, ?b), Hp : pos_ok ?src ?a |- _ =>
      lazymatch goal with
      | _ : pos_ok src b |- _ => fail
      | _ => pose proof (proj1 (consume_pos _ _ _ _ _ Hp Hc))
      end
  end;
  repeat match goal with
  | Hf : find2 ?a ?b (r_txt ?r) = Some ?n, H1 : consume ?n ?r = (_, ?r0), H2 : consume 2 ?r0 = (_, ?r1),
    Hp : pos_ok ?src ?r |- _ =>
      lazymatch goal with
      | _ : closed_by src (r_pos r1) _ |- _ => fail
      | _ => pose proof (after_find _ _ _ _ _ _ _ _ _ Hp Hf H1 H2)
      end
  end.

Definition some_block (ib : option text) : Prop := match ib with Some _ => True | None => False end.

Lemma parse_ok_pos : forall f src st ib il acc body st',
  parse_body f st ib il acc = POk (body, st') -> pos_ok src st ->
  pos_ok src st' /\ (some_block ib -> closed_by src (r_pos st') [37; 125]).
Proof.
  induction f as [|f IH]; intros src st ib il acc body st' H Hp; [discriminate|].
  cbn [parse_body] in H.
  destruct (scan (r_txt st) 0) as [curly|] eqn:Escan.
  2:{ destruct ib; [discriminate|]. destruct (consume_all st) as [s st1] eqn:Ec.
      injection H as _ <-. unfold consume_all in Ec. split; [|intros []].
      exact (proj1 (consume_pos _ _ _ _ _ Hp Ec)). }
  destruct (match curly with
            | O => (acc, st)
            | S _ => let '(c, st'0) := consume curly st in (NText c (r_line st'0) (r_ws st'0) :: acc, st'0)
            end) as [acc1 st1] eqn:E1.
  assert (Hp1 : pos_ok src st1).
  { destruct curly; [inversion E1; subst; auto|]. destruct (consume (S curly) st) as [c0 st0] eqn:Ec.
    inversion E1; subst. exact (proj1 (consume_pos _ _ _ _ _ Hp Ec)). }
  clear E1.
  repeat (step H; derive;
          try solve [ discriminate
                    | injection H as _ <-; split; [assumption|intros _; assumption]
                    | eapply IH; [exact H|]; first [assumption | apply mkR_pos; assumption]
                    ]).
  all: match goal with
       | Hb : parse_body _ ?s _ _ [] = POk (_, _), Hq : pos_ok _ ?s |- _ =>
           pose proof (proj1 (IH _ _ _ _ _ _ _ Hb Hq))
       end; eapply IH; [exact H|assumption].
Qed.

Definition second_is (tok : text) (c : N) : Prop := second tok = c.

Definition where_ok (src : text) (k : pek) (pos : nat) : Prop :=
  match k with
  | MissingEnd => scan (skipn pos src) 0 = None
  | MissingEndComment =>
      find2 35 125 (skipn pos src) = None /\ exists tok, opened src pos tok /\ second tok = 35
  | MissingEndExpr =>
      find2 125 125 (skipn pos src) = None /\ exists tok, opened src pos tok /\ second tok = 123
  | MissingEndBlock =>
      find2 37 125 (skipn pos src) = None
      /\ exists tok, opened src pos tok /\ second tok <> 35 /\ second tok <> 123
  | EmptyExpr => closed_by src pos [125; 125]
  | _ => closed_by src pos [37; 125]
  end.

Lemma opened_of src st1 tok st2 : pos_ok src st1 -> consume 2 st1 = (tok, st2) -> opened src (r_pos st2) tok.
Proof.
  intros Hp Hc. destruct (consume_pos _ _ _ _ _ Hp Hc) as (_ & Es & Ep).
  exists (r_pos st1). split; assumption.
Qed.

Lemma parse_err_exact : forall f src st ib il acc k line pos,
  parse_body f st ib il acc = PErr (PE k line pos) -> pos_ok src st ->
  line = (1 + count_nl (firstn pos src))%nat /\ (pos <= List.length src)%nat /\ where_ok src k pos.
Proof.
  induction f as [|f IH]; intros src st ib il acc k line pos H Hp; [discriminate|].
  cbn [parse_body] in H.
  destruct (scan (r_txt st) 0) as [curly|] eqn:Escan.
  2:{ destruct ib; [|destruct (consume_all st); discriminate].
      injection H as <- <- <-. destruct Hp as (Ht & Hl & Hb). repeat split; auto.
      simpl. rewrite <- Ht. exact Escan. }
  destruct (match curly with
            | O => (acc, st)
            | S _ => let '(c, st'0) := consume curly st in (NText c (r_line st'0) (r_ws st'0) :: acc, st'0)
            end) as [acc1 st1] eqn:E1.
  assert (Hp1 : pos_ok src st1).
  { destruct curly; [inversion E1; subst; auto|]. destruct (consume (S curly) st) as [c0 st0] eqn:Ec.
    inversion E1; subst. exact (proj1 (consume_pos _ _ _ _ _ Hp Ec)). }
  clear E1.
  destruct (consume 2 st1) as [tok st2] eqn:E2.
  pose proof (opened_of _ _ _ _ Hp1 E2) as Hop.
  pose proof (proj1 (consume_pos _ _ _ _ _ Hp1 E2)) as Hp2.
  repeat (step H; derive;
          try solve [ discriminate
                    | injection H as <- <- <-;
                      match goal with Hq : pos_ok _ ?s |- _ /\ _ /\ where_ok _ _ (r_pos ?s) =>
                        destruct Hq as (Ht0 & Hl0 & Hb0); split; [exact Hl0|split; [exact Hb0|]];
                        simpl; first
                          [ assumption
                          | split; [rewrite <- Ht0; assumption|];
                            exists tok; split; [assumption|];
                            first [ apply N.eqb_eq; assumption
                                  | split; intro Hx; rewrite Hx in *; discriminate ] ]
                      end
                    | eapply IH; [exact H|]; first [assumption | apply mkR_pos; assumption]
                    ]).
  all: try match goal with
       | Hb : parse_body _ ?s _ _ [] = POk (_, _), Hq : pos_ok _ ?s |- _ =>
           destruct (parse_ok_pos _ _ _ _ _ _ _ _ Hb Hq) as [Hq5 Hc5]; specialize (Hc5 I)
       end.
  all: first
    [ injection H as <- <- <-;
      match goal with Hq : pos_ok _ ?s |- _ /\ _ /\ where_ok _ _ (r_pos ?s) =>
        destruct Hq as (Ht0 & Hl0 & Hb0); split; [exact Hl0|split; [exact Hb0|simpl; assumption]] end
    | eapply IH; [exact H|assumption]
    | match goal with
      | Hb : parse_body _ _ _ _ [] = PErr ?e |- _ => injection H as ->; eapply IH; [exact Hb|assumption]
      end ].
Qed.

Theorem parse_file_error_exact : forall ws ae name src k line pos,
  parse_file ws ae name src = PErr (PE k line pos) ->
  line = (1 + count_nl (firstn pos src))%nat /\ (pos <= List.length src)%nat /\ where_ok src k pos.
Proof.
  intros ws ae name src k line pos H. unfold parse_file in H.
  destruct (ws_of_text ws) as [m|]; [|discriminate].
  destruct (parse_body (S (List.length src)) (mkR src 1 m ae 0) None false []) as [[b s]|e] eqn:E; [discriminate|].
  injection H as ->. eapply parse_err_exact; [exact E|].
  unfold pos_ok. simpl. repeat split; lia.
Qed.
