(* C19 — the code writer against the substituted tree: the lines written by
   _ChunkList.generate (with the include stack, the apply counter and the
   intermediate blocks at indent-1) are the flattening of utree (uresolve ...). *)
From Coq Require Import List NArith Arith Bool String Lia.
Import ListNotations.
From TV Require Import Lib.Obs Lib.C21_Utf8 C19.Model C19.Codegen C19.Sem C19.Spec C19.ProofsA C19.ProofsB1.
Local Open Scope N_scope.

Definition is_inter (n : node) : bool := match n with NInter _ _ => true | _ => false end.
Definition no_inter (ns : list node) : bool := forallb (fun n => negb (is_inter n)) ns.
Fixpoint wf_node (n : node) : bool :=
  match n with
  | NInter s _ => inter_op s
  | NControl s _ b => ctl_op s && forallb wf_node b
  | NApply _ _ b => forallb wf_node b && no_inter b
  | NBlock _ _ b => forallb wf_node b && no_inter b
  | _ => true
  end.
Definition wf_top (ns : list node) : bool := forallb wf_node ns && no_inter ns.

Definition ld_wf (ld : loadfn) : Prop :=
  match ld with
  | None => True
  | Some load => forall n t, load n = GOk t -> wf_top (t_body t) = true
  end.
Definition nb_wf (nb : nbmap) : Prop :=
  forall name body t, nb_find name nb = Some (body, t) -> wf_top body = true.

Lemma gbind_ok {A B} (r : gres A) (f : A -> gres B) b :
  gbind r f = GOk b -> exists a, r = GOk a /\ f a = GOk b.
Proof. destruct r; simpl; [eauto|discriminate]. Qed.

(* ---------- line layout of a segmented chunk list ---------- *)
Fixpoint inter_lines (k : nat) (cls : list (text * list unode)) (cnt : nat)
  : list (nat * pline) * nat :=
  match cls with
  | [] => ([], cnt)
  | (s, b) :: r =>
      let '(t1, d1) := utree_list b cnt in
      let '(l2, d2) := inter_lines k r d1 in
      ((k, LPass) :: ((k - 1)%nat, LHeader s) :: flat_list k t1 ++ l2, d2)
  end.
Definition seg_emit (k : nat) (seg : list unode) (cls : list (text * list unode)) (cnt : nat)
  : list (nat * pline) * nat :=
  let '(t0, c0) := utree_list seg cnt in
  let '(l1, c1) := inter_lines k cls c0 in
  (flat_list k t0 ++ l1, c1).

Lemma utree_list_app a b cnt :
  utree_list (a ++ b) cnt =
  let '(t1, c1) := utree_list a cnt in let '(t2, c2) := utree_list b c1 in (t1 ++ t2, c2).
Proof.
  revert cnt; induction a as [|x r IH]; intros cnt.
  - simpl. destruct (utree_list b cnt); reflexivity.
  - change ((x :: r) ++ b) with (x :: (r ++ b)). rewrite !utree_list_cons.
    destruct (utree x cnt) as [tx cx]. rewrite IH.
    destruct (utree_list r cx) as [tr cr]. destruct (utree_list b cr) as [tb cb].
    rewrite app_assoc. reflexivity.
Qed.

Lemma seg_emit_app k us seg cls cnt :
  seg_emit k (us ++ seg) cls cnt =
  let '(t1, c1) := utree_list us cnt in
  let '(l2, c2) := seg_emit k seg cls c1 in (flat_list k t1 ++ l2, c2).
Proof.
  unfold seg_emit. rewrite utree_list_app.
  destruct (utree_list us cnt) as [t1 c1]. destruct (utree_list seg c1) as [t2 c2].
  destruct (inter_lines k cls c2) as [l1 c3]. rewrite flat_list_app, app_assoc. reflexivity.
Qed.

Lemma seg_emit_inter k s seg cls cnt :
  seg_emit k [] ((s, seg) :: cls) cnt =
  let '(l2, c2) := seg_emit k seg cls cnt in ((k, LPass) :: ((k - 1)%nat, LHeader s) :: l2, c2).
Proof.
  unfold seg_emit. simpl. destruct (utree_list seg cnt) as [t1 d1].
  destruct (inter_lines k cls d1) as [l2 d2]. reflexivity.
Qed.

(* the intermediate blocks written at indent-1 inside a suite are sibling clauses *)
Lemma comp_shift k s : forall cls tb c1,
  let '(tc, c2) := utree_cls cls c1 in
  let '(li, c2') := inter_lines (S k) cls c1 in
  c2 = c2' /\
  flat k (TComp (LHeader s) (tb ++ [TLine LPass])) ++ flat_list k tc
  = (k, LHeader s) :: flat_list (S k) tb ++ li ++ [(S k, LPass)].
Proof.
  intros cls; revert s. induction cls as [|[s' b] r IH]; intros s tb c1.
  - simpl. split; [reflexivity|].
    change (flat_map (flat (S k)) (tb ++ [TLine LPass])) with (flat_list (S k) (tb ++ [TLine LPass])).
    rewrite flat_list_app, app_nil_r. reflexivity.
  - cbn [utree_cls inter_lines]. destruct (utree_list b c1) as [t1 d1].
    specialize (IH s' t1 d1). destruct (utree_cls r d1) as [t2 d2].
    destruct (inter_lines (S k) r d1) as [l2 d2']. destruct IH as [E1 E2]. split; [exact E1|].
    rewrite flat_list_cons, E2. cbn [flat].
    change (flat_map (flat (S k)) (tb ++ [TLine LPass])) with (flat_list (S k) (tb ++ [TLine LPass])).
    rewrite flat_list_app. simpl. rewrite Nat.sub_0_r.
    rewrite <- !app_assoc. simpl. reflexivity.
Qed.

Lemma comp_emit k s b c cnt :
  let '(T, c') := utree (UComp s b c) cnt in
  let '(l, c'') := seg_emit (S k) b c cnt in
  c' = c'' /\ flat_list k T = (k, LHeader s) :: l ++ [(S k, LPass)].
Proof.
  rewrite utree_comp. unfold seg_emit. destruct (utree_list b cnt) as [tb c1].
  pose proof (comp_shift k s c tb c1) as H.
  destruct (utree_cls c c1) as [tc c2]. destruct (inter_lines (S k) c c1) as [li c2'].
  destruct H as [E1 E2]. split; [exact E1|].
  rewrite flat_list_cons, E2. rewrite <- app_assoc. reflexivity.
Qed.

(* ---------- uresolve: chunk lists without a top-level intermediate tag have no clauses ---------- *)
Lemma no_inter_cls : forall f ld nb ae ns seg cls,
  uresolve f ld nb ae ns = GOk (seg, cls) -> no_inter ns = true -> cls = [].
Proof.
  induction f as [|f IH]; intros ld nb ae ns seg cls H Hn; [discriminate|].
  destruct ns as [|n r]; [simpl in H; inversion H; reflexivity|].
  simpl in Hn. apply andb_true_iff in Hn as [Hi Hr].
  assert (Hnext : forall l, gbind (uresolve f ld nb ae r) (fun '(seg0, cls0) => GOk (l ++ seg0, cls0)) = GOk (seg, cls) -> cls = []).
  { intros l Hl. apply gbind_ok in Hl as ([s0 c0] & H1 & H2). inversion H2; subst. eapply IH; eauto. }
  destruct n; cbn [uresolve] in H; try discriminate.
  - destruct (is_nil (text_value ws v)); [eapply Hnext; exact H|].
    apply gbind_ok in H as (b & _ & H). eapply Hnext; exact H.
  - eapply Hnext; exact H.
  - eapply Hnext; exact H.
  - apply gbind_ok in H as ([b c] & _ & H). eapply Hnext; exact H.
  - apply gbind_ok in H as ([b c] & _ & H). destruct c; [|discriminate]. eapply Hnext; exact H.
  - destruct (nb_find name nb) as [[bb t]|]; [|discriminate].
    apply gbind_ok in H as ([b c] & _ & H). destruct c; [|discriminate]. eapply Hnext; exact H.
  - destruct ld as [load|]; [|discriminate].
    apply gbind_ok in H as (t & _ & H). apply gbind_ok in H as ([b c] & _ & H).
    destruct c; [|discriminate]. eapply Hnext; exact H.
Qed.

(* ---------- the code writer ---------- *)
Definition strip1 (c : cline) : nat * pline := (c_ind c, c_line c).

Lemma strip_app a b : strip_comments (a ++ b) = strip_comments a ++ strip_comments b.
Proof. apply map_app. Qed.

Definition GenP (f : nat) (ld : loadfn) (nb : nbmap) : Prop :=
  forall ns k w ls w', (1 <= k)%nat -> forallb wf_node ns = true ->
    gen f ld nb k ns w = GOk (ls, w') ->
    exists seg cls,
      uresolve f ld nb (t_ae (w_cur w)) ns = GOk (seg, cls)
      /\ seg_emit k seg cls (w_cnt w) = (strip_comments ls, w_cnt w')
      /\ w_cur w' = w_cur w /\ w_stack w' = w_stack w
      /\ forallb wf_u seg = true /\ wf_ucls cls = true.

Lemma wf_top_parts ns : wf_top ns = true -> forallb wf_node ns = true /\ no_inter ns = true.
Proof. unfold wf_top. intros H. apply andb_true_iff in H. exact H. Qed.

Theorem gen_uresolve : forall f ld nb, ld_wf ld -> nb_wf nb -> GenP f ld nb.
Proof.
  induction f as [|f IH]; intros ld nb Hld Hnb ns k w ls w' Hk Hwf Hg; [discriminate|].
  specialize (IH ld nb Hld Hnb).
  destruct ns as [|n r].
  { simpl in Hg. inversion Hg; subst. exists [], []. repeat split; reflexivity. }
  simpl in Hwf. apply andb_true_iff in Hwf as [Hwn Hwr].
  cbn [gen] in Hg. apply gbind_ok in Hg as ([ls1 w1] & Hn & Hg).
  apply gbind_ok in Hg as ([ls2 w2] & Hr & Hg). inversion Hg; subst ls w'; clear Hg.
  (* the rest of the list, once we know the node leaves cur/stack unchanged *)
  assert (Hrest : w_cur w1 = w_cur w -> w_stack w1 = w_stack w ->
          forall us, forallb wf_u us = true ->
            (let '(t1, c1) := utree_list us (w_cnt w) in
             flat_list k t1 = strip_comments ls1 /\ c1 = w_cnt w1) ->
            gbind (uresolve f ld nb (t_ae (w_cur w)) r) (fun '(seg, cls) => GOk (us ++ seg, cls))
              = uresolve (S f) ld nb (t_ae (w_cur w)) (n :: r) ->
            exists seg cls,
              uresolve (S f) ld nb (t_ae (w_cur w)) (n :: r) = GOk (seg, cls)
              /\ seg_emit k seg cls (w_cnt w) = (strip_comments (ls1 ++ ls2), w_cnt w2)
              /\ w_cur w2 = w_cur w /\ w_stack w2 = w_stack w
              /\ forallb wf_u seg = true /\ wf_ucls cls = true).
  { intros Hc Hs us Hwu Hus Heq.
    destruct (IH r k w1 ls2 w2 Hk Hwr Hr) as (seg & cls & U & E & C & S & W1 & W2).
    rewrite Hc in U. exists (us ++ seg), cls. rewrite <- Heq, U. simpl.
    split; [reflexivity|]. split.
    - rewrite seg_emit_app. destruct (utree_list us (w_cnt w)) as [t1 c1]. destruct Hus as [F1 F2].
      subst c1. rewrite E, strip_app, F1. reflexivity.
    - repeat split; try congruence. rewrite forallb_app, Hwu, W1. reflexivity. }
  destruct n as [v line ws|e line raw|s line|s line|s line body|m line body|name line body|name|name line].
  - (* text *)
    simpl in Hn.
    destruct (is_nil (text_value ws v)) eqn:En.
    + inversion Hn; subst. apply (Hrest eq_refl eq_refl []); [reflexivity|simpl; auto|].
      cbn [uresolve]. rewrite En. reflexivity.
    + apply gbind_ok in Hn as (b & Hb & Hn). inversion Hn; subst.
      apply (Hrest eq_refl eq_refl [UText b]); [reflexivity|simpl; auto|].
      cbn [uresolve]. rewrite En, Hb. reflexivity.
  - (* expression *)
    simpl in Hn. inversion Hn; subst.
    apply (Hrest eq_refl eq_refl [UExpr e (if raw then None else t_ae (w_cur w1))]);
      [reflexivity| |reflexivity].
    simpl. destruct raw; [simpl; auto|]. destruct (t_ae (w_cur w1)); simpl; auto.
  - (* statement *)
    simpl in Hn. inversion Hn; subst.
    apply (Hrest eq_refl eq_refl [UStmt s]); [reflexivity|simpl; auto|reflexivity].
  - (* intermediate block *)
    simpl in Hn. inversion Hn; subst ls1 w1; clear Hn.
    destruct (IH r k w ls2 w2 Hk Hwr Hr) as (seg & cls & U & E & C & S & W1 & W2).
    exists [], ((s, seg) :: cls). cbn [uresolve]. rewrite U. simpl.
    split; [reflexivity|]. split; [|repeat split; auto].
    + rewrite seg_emit_inter, E. reflexivity.
    + simpl. simpl in Hwn. rewrite Hwn, W1, W2. reflexivity.
  - (* control block *)
    simpl in Hwn. apply andb_true_iff in Hwn as [Hop Hwb].
    simpl in Hn. apply gbind_ok in Hn as ([lsb wb] & Hb & Hn). inversion Hn; subst ls1 w1; clear Hn.
    destruct (IH body (S k) w lsb wb ltac:(lia) Hwb Hb) as (b & c & Ub & Eb & Cb & Sb & Wb1 & Wb2).
    apply (Hrest Cb Sb [UComp s b c]); [| |cbn [uresolve]; rewrite Ub; reflexivity].
    + simpl. rewrite Hop, Wb1. simpl. rewrite andb_true_r.
      change ((fix go (cs : list (text * list unode)) : bool :=
                 match cs with [] => true | (s', b0) :: r0 => inter_op s' && forallb wf_u b0 && go r0 end) c)
        with (wf_ucls c). exact Wb2.
    + rewrite utree_list_cons. pose proof (comp_emit k s b c (w_cnt w)) as H.
      destruct (utree (UComp s b c) (w_cnt w)) as [T c']. rewrite Eb in H. destruct H as [H1 H2].
      simpl. rewrite app_nil_r. split; [|exact H1].
      rewrite H2. simpl. unfold strip_comments. rewrite map_app. reflexivity.
  - (* apply *)
    simpl in Hwn. apply andb_true_iff in Hwn as [Hwb Hni].
    simpl in Hn. apply gbind_ok in Hn as ([lsb wb] & Hb & Hn). inversion Hn; subst ls1 w1; clear Hn.
    destruct (IH body (S k) _ lsb wb ltac:(lia) Hwb Hb) as (b & c & Ub & Eb & Cb & Sb & Wb1 & Wb2).
    simpl in Ub, Eb, Cb, Sb.
    assert (c = []) by (eapply no_inter_cls; eauto). subst c.
    apply (Hrest Cb Sb [UApply m b]); [simpl; rewrite Wb1; reflexivity| |cbn [uresolve]; rewrite Ub; reflexivity].
    rewrite utree_list_cons, utree_apply. cbn zeta.
    unfold seg_emit in Eb. destruct (utree_list b (S (w_cnt w))) as [tb c1]. simpl in Eb.
    rewrite app_nil_r in Eb. inversion Eb; subst.
    simpl. split; [|reflexivity].
    change (flat_map (flat (S k)) (tb ++ [TLine LReturn])) with (flat_list (S k) (tb ++ [TLine LReturn])).
    rewrite flat_list_app, strip_app, H0. simpl. rewrite <- app_assoc. reflexivity.
  - (* named block *)
    simpl in Hn. destruct (nb_find name nb) as [[bbody t]|] eqn:Enb; [|discriminate].
    apply gbind_ok in Hn as ([lsb wb] & Hb & Hn). apply gbind_ok in Hn as (wp & Hp & Hn).
    inversion Hn; subst ls1 w1; clear Hn.
    destruct (wf_top_parts _ (Hnb _ _ _ Enb)) as [Hwb Hni].
    destruct (IH bbody k _ lsb wb Hk Hwb Hb) as (b & c & Ub & Eb & Cb & Sb & Wb1 & Wb2).
    simpl in Ub, Eb, Cb, Sb.
    assert (c = []) by (eapply no_inter_cls; eauto). subst c.
    unfold w_pop in Hp. rewrite Sb in Hp. inversion Hp; subst wp; clear Hp.
    apply (Hrest eq_refl eq_refl b); [exact Wb1| |cbn [uresolve]; rewrite Enb, Ub; reflexivity].
    unfold seg_emit in Eb. destruct (utree_list b (w_cnt w)) as [tb c1]. simpl in Eb.
    rewrite app_nil_r in Eb. inversion Eb; subst. simpl. auto.
  - (* extends below the top level *)
    simpl in Hn. discriminate.
  - (* include *)
    simpl in Hn. destruct ld as [load|] eqn:Eld; [|discriminate].
    apply gbind_ok in Hn as (t & Ht & Hn).
    apply gbind_ok in Hn as ([lsb wb] & Hb & Hn). apply gbind_ok in Hn as (wp & Hp & Hn).
    inversion Hn; subst ls1 w1; clear Hn.
    destruct (wf_top_parts _ (Hld _ _ Ht)) as [Hwb Hni].
    destruct (IH (t_body t) k _ lsb wb Hk Hwb Hb) as (b & c & Ub & Eb & Cb & Sb & Wb1 & Wb2).
    simpl in Ub, Eb, Cb, Sb.
    assert (c = []) by (eapply no_inter_cls; eauto). subst c.
    unfold w_pop in Hp. rewrite Sb in Hp. inversion Hp; subst wp; clear Hp.
    apply (Hrest eq_refl eq_refl b); [exact Wb1| |cbn [uresolve]; rewrite Ht; cbn [gbind]; rewrite Ub; reflexivity].
    unfold seg_emit in Eb. destruct (utree_list b (w_cnt w)) as [tb c1]. simpl in Eb.
    rewrite app_nil_r in Eb. inversion Eb; subst. simpl. auto.
Qed.
