(* C19 — Compiled templates produce what the template language defines.
   Property theorems only; proofs are in ProofsA/B1/B2/B3/P/C/T.v. *)
From Coq Require Import List NArith String.
Import ListNotations.
Local Open Scope string_scope.
From TV Require Import Lib.Obs Lib.C21_Utf8 C19.Model C19.Codegen C19.Sem C19.Spec C19.Pool C19.Run
  C19.ProofsA C19.ProofsB1 C19.ProofsB2 C19.ProofsB3 C19.ProofsP C19.ProofsC C19.ProofsT C19.ProofsL C19.ProofsW.

(* (REF-1) Executing the Python statements the compiler should emit for a resolved
   template gives exactly the output / escaping exception of the direct
   interpretation of the template: every variable environment, every namespace of
   functions, every fuel; if/elif/else, for/else, while/else, break, continue,
   try/except/else/finally, apply, set. *)
Theorem C19_emitted_statements_refine_direct_interpretation :
  forall (env : Type) lookup assign push pop callfn fuel rs (genv : env),
    run_prog env lookup assign push pop callfn fuel (ir_list rs) genv
    = run_template env lookup assign push pop callfn fuel rs genv.
Proof. exact run_prog_ir_eq_run_template. Qed.
Print Assumptions C19_emitted_statements_refine_direct_interpretation.

(* (REF-2) Compiler correctness.  For every loader whose templates are parser
   output, every parsed template and every fuel: if Template(...) construction
   succeeds — the code writer (pass insertion, intermediate blocks at indent-1,
   apply functions and counter, named-block override resolution, extends,
   include with the include stack) produced lines that CPython's indentation
   reader and grammar accept — then the template resolves and the compiled
   statement list IS the one of REF-1. *)
Theorem C19_compiler_correct :
  forall fuel ld t co,
    ld_wf ld -> wf_top (t_body t) = true ->
    construct fuel ld t = GOk co ->
    exists rs, resolve_template fuel ld t = GOk rs /\ co_prog co = ir_list rs.
Proof. exact construct_sound. Qed.
Print Assumptions C19_compiler_correct.

(* the two premises of REF-2 hold for everything the parser and the loader produce *)
Theorem C19_parser_output_is_well_formed :
  (forall ws ae name src t, parse_file ws ae name src = POk t -> wf_top (t_body t) = true)
  /\ (forall depth fuel o files, ld_wf (Some (loadf depth fuel o files))).
Proof. split; [exact parse_file_wf|exact loadf_wf]. Qed.
Print Assumptions C19_parser_output_is_well_formed.

(* (REF) end to end on the executable model of Template(...).generate(): parse,
   generate code, read it back, run it == parse, resolve, interpret directly. *)
Theorem C19_generate_equals_direct_interpretation :
  forall c co,
    gbind (root_template c) (construct GEN_FUEL (the_loader c)) = GOk co ->
    exists rs,
      gbind (root_template c) (resolve_template GEN_FUEL (the_loader c)) = GOk rs
      /\ co_prog co = ir_list rs
      /\ forall fuel genv,
           run_prog cenv c_lookup c_assign c_push c_pop c_callfn fuel (co_prog co) genv
           = run_template cenv c_lookup c_assign c_push c_pop c_callfn fuel rs genv.
Proof. exact compiled_equals_interpreted. Qed.
Print Assumptions C19_generate_equals_direct_interpretation.

(* the indentation reader inverts four-spaces-per-level flattening of any statement tree *)
Theorem C19_indentation_reader_inverts_flattening :
  forall fuel k ts rest,
    (List.length (flat_list k ts) + List.length rest < fuel)%nat ->
    forallb tree_ok ts = true -> rest_ok k rest ->
    blocks fuel k (flat_list k ts ++ rest) = Some (ts, rest).
Proof. exact blocks_flat. Qed.
Print Assumptions C19_indentation_reader_inverts_flattening.

(* (RT) directive-free text is one chunk and is reproduced byte-for-byte apart
   from the selected whitespace filtering *)
Theorem C19_directive_free_text_is_reproduced :
  forall (env : Type) lookup assign push pop callfn ws m ae name src t b fuel rfuel (genv : env),
    ws_of_text ws = Some m -> scan src 0 = None ->
    parse_file ws ae name src = POk t ->
    utf8_encode (text_value m src) = Some b ->
    exists rs,
      resolve_template (S (S fuel)) None t = GOk rs
      /\ run_template env lookup assign push pop callfn (S rfuel) rs genv = OutBytes b.
Proof. exact directive_free_output. Qed.
Print Assumptions C19_directive_free_text_is_reproduced.

Example C19_directive_free_example :
  scan (s2l "a { b }} %} c") 0 = None /\ ws_of_text (s2l "all") = Some WAll.
Proof. split; reflexivity. Qed.

(* (RT) "{{!", "{%!", "{#!" yield the literal two-character token; the "!" is consumed *)
Theorem C19_escaped_braces_are_literal :
  forall f txt line ws ae pos ib il acc b rest,
    txt = (123 :: b :: 33 :: rest)%N -> is_special b = true ->
    parse_body (S f) (mkR txt line ws ae pos) ib il acc
    = parse_body f (mkR rest line ws ae (pos + 3)) ib il (NText [123; b]%N line ws :: acc).
Proof. exact escape_yields_literal_braces. Qed.
Print Assumptions C19_escaped_braces_are_literal.

(* (ERR) Every ParseError raised while parsing carries
     lineno = 1 + the number of newlines before reader.pos,
   where reader.pos (carried by the model's error, not observable in Tornado) is:
   - for an unterminated comment / expression / block tag: just after its opening
     two-character token, and the closing token does not occur in the rest;
   - "Missing {% end %}": a position after which the scanner finds no further tag;
   - "Empty expression": just after the closing "}}" of the offending tag;
   - every other class (empty block, unknown operator, misplaced else/elif/except/
     finally/end/break/continue, missing argument of extends/include/set/import):
     just after the closing "%}" of the offending tag; for apply/block without an
     argument, just after the "%}" of the block's {% end %}. *)
Theorem C19_parse_error_names_the_line_of_the_offending_tag :
  forall ws ae name src k line pos,
    parse_file ws ae name src = PErr (PE k line pos) ->
    line = (1 + count_nl (firstn pos src))%nat /\ (pos <= List.length src)%nat /\ where_ok src k pos.
Proof. exact parse_file_error_exact. Qed.
Print Assumptions C19_parse_error_names_the_line_of_the_offending_tag.

(* (WS) Whitespace directives are scoped linearly.  [Flat] (ProofsW.v) walks the tags of a
   file left to right WITHOUT any nesting; a {% whitespace M %} tag sets the mode of all
   following text wherever it stands.  The literal text chunks of the parsed tree, in
   document order (descending into if/for/while/try/apply/block bodies), with the mode
   recorded in each chunk, are exactly the flat tokenizer's: a mode chosen inside a nested
   body stays in force after that body's {% end %}, for every source text. *)
Theorem C19_whitespace_directive_scoping_is_linear :
  forall ws m ae name src t,
    ws_of_text ws = Some m -> parse_file ws ae name src = POk t ->
    Flat (mkR src 1 m ae 0) (texts_list (t_body t)).
Proof. exact parse_file_texts_are_flat. Qed.
Print Assumptions C19_whitespace_directive_scoping_is_linear.

(* the model satisfies the checker that is applied to the implementation's observables *)
Theorem C19_model_satisfies_checker : forall c, check_case c (run_case c) = true.
Proof. exact model_satisfies_checker. Qed.
Print Assumptions C19_model_satisfies_checker.
