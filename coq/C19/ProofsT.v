(* C19 — literal text: a source without any directive is one text chunk and is
   reproduced byte-for-byte apart from the selected whitespace filtering; the
   escapes "{{!" "{%!" "{#!" yield the literal two-character brace token. *)
From Coq Require Import List NArith ZArith Arith Bool String Lia.
Import ListNotations.
From TV Require Import Lib.Obs Lib.C21_Utf8 C19.Model C19.Codegen C19.Sem C19.Spec C19.Pool C19.Run.
Local Open Scope N_scope.

Lemma parse_directive_free ws m ae name src :
  ws_of_text ws = Some m -> scan src 0 = None ->
  parse_file ws ae name src = POk (mkT name ae [NText src (1 + count_nl src)%nat m]).
Proof.
  intros Hws Hs. unfold parse_file. rewrite Hws. cbn [parse_body r_txt]. rewrite Hs.
  unfold consume_all, consume. cbn [r_txt r_line r_ws r_ae]. rewrite firstn_all. reflexivity.
Qed.

Section Text.
  Variable env : Type.
  Variable lookup : text -> env -> xres value.
  Variable assign : text -> value -> env -> env.
  Variable push : list text -> env -> env.
  Variable pop : env -> env.
  Variable callfn : text -> list N -> xres (list N).

  Theorem directive_free_output : forall ws m ae name src t b fuel rfuel genv,
    ws_of_text ws = Some m -> scan src 0 = None ->
    parse_file ws ae name src = POk t ->
    utf8_encode (text_value m src) = Some b ->
    exists rs,
      resolve_template (S (S fuel)) None t = GOk rs
      /\ run_template env lookup assign push pop callfn (S rfuel) rs genv = OutBytes b.
  Proof.
    intros ws m ae name src t b fuel rfuel genv Hws Hs Hp Hb.
    rewrite (parse_directive_free ws m ae name src Hws Hs) in Hp. inversion Hp; subst t; clear Hp.
    unfold resolve_template, uresolve_template. cbn [ancestors t_body gbind rev app fnb_all fnb].
    unfold uresolve_top. cbn [uresolve t_body t_ae].
    destruct (is_nil (text_value m src)) eqn:En.
    - exists []. split; [destruct fuel; reflexivity|].
      destruct (text_value m src); [|discriminate]. simpl in Hb. inversion Hb. reflexivity.
    - unfold encode_lit. rewrite Hb. exists [RText b]. split; [destruct fuel; reflexivity|].
      reflexivity.
  Qed.
End Text.

(* "{{!" / "{%!" / "{#!": the two-character token is emitted as text, the "!" is dropped *)
Lemma scan_escape b rest : is_special b = true -> scan (123 :: b :: 33 :: rest) 0 = Some O.
Proof. intros Hb. simpl. rewrite Hb. simpl. destruct (b =? 123); reflexivity. Qed.

Theorem escape_yields_literal_braces : forall f txt line ws ae pos ib il acc b rest,
  txt = 123 :: b :: 33 :: rest -> is_special b = true ->
  parse_body (S f) (mkR txt line ws ae pos) ib il acc
  = parse_body f (mkR rest line ws ae (pos + 3)) ib il (NText [123; b] line ws :: acc).
Proof.
  intros f txt line ws ae pos ib il acc b rest -> Hb.
  cbn [parse_body r_txt]. rewrite (scan_escape b rest Hb).
  assert (H2 : (b =? 10) = false).
  { unfold is_special in Hb. destruct (b =? 10) eqn:E; [|reflexivity]. apply N.eqb_eq in E. subst b. discriminate. }
  unfold consume. cbn [r_txt r_line r_ws r_ae firstn skipn count_nl]. rewrite H2.
  cbn. rewrite !Nat.add_0_r. replace (pos + 2 + 1)%nat with (pos + 3)%nat by lia. reflexivity.
Qed.
