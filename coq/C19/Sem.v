(* C19/C20 — the statement forms the template compiler emits: recognition of the
   pool's headers and statements, grouping of the indentation tree into a small
   Python statement IR (what compile() accepts), the big-step semantics of that
   IR, Template(...) construction / loader, and — the specification — the
   resolved template tree with its direct interpreter.  Definitions only. *)
From Coq Require Import List NArith Arith Bool String.
Import ListNotations.
From TV Require Import Lib.Obs Lib.C21_Utf8 C19.Model C19.Codegen.
Local Open Scope N_scope.

Inductive cres (A : Type) := COk (a : A) | CSyntax | CUnsup.
Arguments COk {A} a.
Arguments CSyntax {A}.
Arguments CUnsup {A}.
Definition cbind {A B} (r : cres A) (f : A -> cres B) : cres B :=
  match r with COk a => f a | CSyntax => CSyntax | CUnsup => CUnsup end.

(* ---------- the expression pool's syntax: plain identifiers ---------- *)
Definition is_alpha_ (c : N) : bool := in_range 65 90 c || in_range 97 122 c || (c =? 95).
Definition is_alnum_ (c : N) : bool := is_alpha_ c || in_range 48 57 c.
Definition keywords : list string :=
  ["False"; "None"; "True"; "and"; "as"; "assert"; "async"; "await"; "break"; "class"; "continue";
   "def"; "del"; "elif"; "else"; "except"; "finally"; "for"; "from"; "global"; "if"; "import"; "in";
   "is"; "lambda"; "nonlocal"; "not"; "or"; "pass"; "raise"; "return"; "try"; "while"; "with"; "yield";
   "match"; "case"; "type"; "print"; "exec"]%string.
Definition is_ident (s : text) : bool :=
  match s with
  | [] => false
  | c :: r => is_alpha_ c && forallb is_alnum_ r && negb (op_in s keywords)
              && negb (starts_with (s2l "_tt_") s)
  end.

Inductive sstmt := SBreak | SContinue | SAssign (x e : text).
Inductive hdr :=
| HIf (e : text) | HElif (e : text) | HElse | HFor (x e : text) | HWhile (e : text)
| HTry | HExcept (c : option text) | HFinally.

Definition exn_classes : list string :=
  ["Exception"; "BaseException"; "NameError"; "TypeError"; "ValueError"; "UnicodeError";
   "UnicodeEncodeError"; "UnicodeDecodeError"; "LookupError"; "KeyError"]%string.

Definition need_ident (e : text) {A} (k : cres A) : cres A :=
  if is_nil e then CSyntax else if is_ident e then k else CUnsup.

Fixpoint split_eq (s : text) : option (text * text) :=
  match s with
  | [] => None
  | c :: r => if c =? 61 then Some ([], r)
              else match split_eq r with Some (a, b) => Some (c :: a, b) | None => None end
  end.

Definition parse_simple (s : text) : cres sstmt :=
  if teqb s (s2l "break") then COk SBreak
  else if teqb s (s2l "continue") then COk SContinue
  else match split_eq s with
       | Some (a, b) =>
           let x := strip a in let e := strip b in
           if is_ident x && is_ident e then COk (SAssign x e) else CUnsup
       | None => CUnsup
       end.

Definition parse_hdr (s : text) : cres hdr :=
  let '(op, rest0) := partition_sp s in
  let rest := strip rest0 in
  if teqb op (s2l "if") then need_ident rest (COk (HIf rest))
  else if teqb op (s2l "elif") then need_ident rest (COk (HElif rest))
  else if teqb op (s2l "while") then need_ident rest (COk (HWhile rest))
  else if teqb op (s2l "else") then if is_nil rest then COk HElse else CUnsup
  else if teqb op (s2l "try") then if is_nil rest then COk HTry else CUnsup
  else if teqb op (s2l "finally") then if is_nil rest then COk HFinally else CUnsup
  else if teqb op (s2l "except") then
    if is_nil rest then COk (HExcept None)
    else if op_in rest exn_classes then COk (HExcept (Some rest)) else CUnsup
  else if teqb op (s2l "for") then
    if is_nil rest then CSyntax else
    let '(x, r1) := partition_sp rest in
    let '(kw, r2) := partition_sp (strip r1) in
    let e := strip r2 in
    if is_ident x && teqb kw (s2l "in") && is_ident e then COk (HFor x e) else CUnsup
  else CUnsup.

Definition is_clause (h : hdr) : bool :=
  match h with HElif _ | HElse | HExcept _ | HFinally => true | _ => false end.

(* ---------- the statement IR ---------- *)
Inductive pstmt :=
| PLit (b : list N)            (* _tt_append(b'..') *)
| PTmp (e : text)              (* _tt_tmp = E *)
| PConv                        (* if isinstance(..): .. / else: .. *)
| PEsc (f : text)              (* _tt_tmp = _tt_utf8(F(_tt_tmp)) *)
| PAppTmp                      (* _tt_append(_tt_tmp) *)
| PPass
| PSimple (s : sstmt)
| PComp (h : hdr) (body : list pstmt) (cls : list (hdr * list pstmt))
| PApply (m : text) (body : list pstmt).   (* def _tt_applyN(): ... ; _tt_append(_tt_utf8(M(_tt_applyN()))) *)

(* grouping, right to left.  Pending items wait for the statement on their left. *)
Record gacc := mkG { g_else : bool; g_call : option (text * text);
                     g_cl : list (hdr * list pstmt); g_out : list pstmt }.
Definition g_empty : gacc := mkG false None [] [].
Definition g_push (p : pstmt) (a : gacc) : gacc := mkG false None [] (p :: g_out a).
Definition g_finish (r : cres gacc) : cres (list pstmt) :=
  cbind r (fun a =>
    if g_else a then CSyntax
    else match g_cl a with _ :: _ => CSyntax | [] =>
         match g_call a with Some _ => CUnsup | None => COk (g_out a) end end).

Definition fn_ok (f : text) : bool := is_nil f || is_ident f.

Fixpoint group_tree (t : tree) (a : gacc) {struct t} : cres gacc :=
  let group_list :=
    fix gl (ts : list tree) : cres gacc :=
      match ts with
      | [] => COk g_empty
      | x :: r => cbind (gl r) (group_tree x)
      end in
  let fn_body :=
    fix fb (ts : list tree) : cres gacc :=
      match ts with
      | [] => CUnsup
      | [TLine LReturn] => COk g_empty
      | x :: r => cbind (fb r) (group_tree x)
      end in
  if g_else a then
    match t with TLine LConv => COk (g_push PConv a) | _ => CSyntax end
  else match g_call a with
  | Some (m, n) =>
      match t with
      | TComp (LDef n') (TLine LBufInit :: TLine LAppInit :: mid) =>
          if teqb n n' && is_ident m then
            cbind (g_finish (fn_body mid)) (fun b => COk (g_push (PApply m b) a))
          else CUnsup
      | _ => CUnsup
      end
  | None =>
      match t with
      | TComp (LHeader s) body =>
          cbind (parse_hdr s) (fun h =>
          cbind (g_finish (group_list body)) (fun b =>
            if is_clause h then COk (mkG false None ((h, b) :: g_cl a) (g_out a))
            else COk (mkG false None [] (PComp h b (g_cl a) :: g_out a))))
      | TComp _ _ => CUnsup
      | TLine l =>
          match g_cl a with
          | _ :: _ => CSyntax
          | [] =>
              match l with
              | LConvElse => COk (mkG true None [] (g_out a))
              | LApplyCall m n => COk (mkG false (Some (m, n)) [] (g_out a))
              | LAppLit b => COk (g_push (PLit b) a)
              | LTmp e => need_ident e (COk (g_push (PTmp e) a))
              | LEsc f => if fn_ok f then COk (g_push (PEsc f) a) else CUnsup
              | LAppTmp => COk (g_push PAppTmp a)
              | LPass => COk (g_push PPass a)
              | LStmt s => cbind (parse_simple s) (fun x => COk (g_push (PSimple x) a))
              | _ => CUnsup
              end
          end
      end
  end.

Fixpoint fn_body (ts : list tree) : cres gacc :=
  match ts with
  | [] => CUnsup
  | [TLine LReturn] => COk g_empty
  | x :: r => cbind (fn_body r) (group_tree x)
  end.
Fixpoint group_list (ts : list tree) : cres gacc :=
  match ts with
  | [] => COk g_empty
  | x :: r => cbind (group_list r) (group_tree x)
  end.

Definition group_top (ts : list tree) : cres (list pstmt) :=
  match ts with
  | [TComp (LDef n) (TLine LBufInit :: TLine LAppInit :: mid)] =>
      if teqb n execute_name then g_finish (fn_body mid) else CUnsup
  | _ => CUnsup
  end.

(* ---------- the part of CPython's grammar that can reject emitted code ---------- *)
Definition is_loop (h : hdr) : bool := match h with HFor _ _ | HWhile _ => true | _ => false end.

(* clause sequences: if: elif* else?; loops: else?; try: (except+ else? finally?) | finally *)
Fixpoint if_clauses (hs : list hdr) : bool :=
  match hs with
  | [] => true
  | HElif _ :: r => if_clauses r
  | [HElse] => true
  | _ => false
  end.
Definition loop_clauses (hs : list hdr) : bool :=
  match hs with [] | [HElse] => true | _ => false end.
Definition try_tail (hs : list hdr) : bool :=
  match hs with [] | [HElse] | [HFinally] | [HElse; HFinally] => true | _ => false end.
Fixpoint try_excepts (hs : list hdr) : bool :=       (* at least one except seen *)
  match hs with
  | HExcept None :: r => try_tail r                  (* bare except must be the last handler *)
  | HExcept (Some _) :: r => try_tail r || try_excepts r
  | _ => false
  end.
Definition try_clauses (hs : list hdr) : bool :=
  match hs with [HFinally] => true | _ => try_excepts hs end.
Definition clauses_ok (h : hdr) (hs : list hdr) : bool :=
  match h with
  | HIf _ => if_clauses hs
  | HFor _ _ | HWhile _ => loop_clauses hs
  | HTry => try_clauses hs
  | _ => false
  end.

Fixpoint syntax_ok (in_loop : bool) (s : pstmt) {struct s} : bool :=
  match s with
  | PSimple SBreak | PSimple SContinue => in_loop
  | PComp h body cls =>
      clauses_ok h (map fst cls)
      && forallb (syntax_ok (is_loop h || in_loop)) body
      && (fix go (cs : list (hdr * list pstmt)) : bool :=
            match cs with
            | [] => true
            | (_, b) :: r => forallb (syntax_ok in_loop) b && go r
            end) cls
  | PApply _ body => forallb (syntax_ok false) body
  | _ => true
  end.

(* compile(code): the statement list of _tt_execute *)
Definition compile_lines (ls : list (nat * pline)) : cres (list pstmt) :=
  match blocks_top ls with
  | None => CSyntax
  | Some ts => cbind (group_top ts) (fun p => if forallb (syntax_ok false) p then COk p else CSyntax)
  end.

(* ---------- Template(...): parse (done by the caller), generate, compile ---------- *)
Record compiled := mkCo { co_tmpl : tmpl; co_code : list cline; co_prog : list pstmt }.

Definition construct (fuel : nat) (ld : loadfn) (t : tmpl) : gres compiled :=
  gbind (generate_python fuel ld t) (fun code =>
  match compile_lines (strip_comments code) with
  | COk p => GOk (mkCo t code p)
  | CSyntax => GErr GSyntax
  | CUnsup => GErr GUnsupported
  end).

Fixpoint assoc (k : text) (l : list (text * text)) : option text :=
  match l with
  | [] => None
  | (a, b) :: r => if teqb a k then Some b else assoc k r
  end.

(* DictLoader.load: [depth] bounds the nesting of loads *)
Fixpoint loadf (depth fuel : nat) (o : lopts) (files : list (text * text)) : text -> gres tmpl :=
  match depth with
  | O => fun _ => GErr GFuel
  | S d => fun name =>
      match assoc name files with
      | None => GErr GKeyError
      | Some src =>
          gbind (of_pres (parse_with_loader o name src)) (fun t =>
          gbind (construct fuel (Some (loadf d fuel o files)) t) (fun _ => GOk t))
      end
  end.

(* ================= values and run-time behaviour ================= *)
Inductive value :=
| VStr (s : text)
| VBytes (b : list N)
| VInt (n : nat)
| VObj (s : option text) (truth : bool) (items : option (list text)).
   (* an object: str() result (None = __str__ raises ValueError), bool(), iter() *)

Inductive exn := XName | XType | XValue | XEncode | XDecode.
Inductive xres (A : Type) := XOk (a : A) | XErr (e : exn).
Arguments XOk {A} a.
Arguments XErr {A} e.

Definition enc (s : text) : xres (list N) :=
  match utf8_encode s with Some b => XOk b | None => XErr XEncode end.

(* the two conversion lines: bytes/str -> utf8(v), anything else -> utf8(str(v)) *)
Definition to_utf8 (v : value) : xres (list N) :=
  match v with
  | VStr s => enc s
  | VBytes b => XOk b
  | VInt n => XOk (dec_of_nat n)
  | VObj (Some s) _ _ => enc s
  | VObj None _ _ => XErr XValue
  end.

Definition truthy (v : value) : bool :=
  match v with
  | VStr s => negb (is_nil s)
  | VBytes b => negb (is_nil b)
  | VInt n => negb (n =? 0)%nat
  | VObj _ t _ => t
  end.

Definition iter_items (v : value) : xres (list value) :=
  match v with
  | VStr s => XOk (map (fun c => VStr [c]) s)
  | VBytes b => XOk (map (fun c => VInt (N.to_nat c)) b)
  | VInt _ => XErr XType
  | VObj _ _ (Some l) => XOk (map VStr l)
  | VObj _ _ None => XErr XType
  end.

Definition catches (c : option text) (x : exn) : bool :=
  match c with
  | None => true
  | Some n =>
      if op_in n ["Exception"; "BaseException"]%string then true
      else if teqb n (s2l "NameError") then match x with XName => true | _ => false end
      else if teqb n (s2l "TypeError") then match x with XType => true | _ => false end
      else if teqb n (s2l "ValueError") then match x with XValue | XEncode | XDecode => true | _ => false end
      else if teqb n (s2l "UnicodeError") then match x with XEncode | XDecode => true | _ => false end
      else if teqb n (s2l "UnicodeEncodeError") then match x with XEncode => true | _ => false end
      else if teqb n (s2l "UnicodeDecodeError") then match x with XDecode => true | _ => false end
      else false
  end.

Inductive sig := SNormal | SBrk | SCont | SRaise (x : exn).

Fixpoint plocals (s : pstmt) : list text :=
  match s with
  | PSimple (SAssign x _) => [x]
  | PComp h body cls =>
      match h with HFor x _ => [x] | _ => [] end
      ++ flat_map plocals body
      ++ (fix go (cs : list (hdr * list pstmt)) : list text :=
            match cs with [] => [] | (_, b) :: r => flat_map plocals b ++ go r end) cls
  | _ => []
  end.

(* ---------- control flow shared by the IR semantics and the direct interpreter:
   Python's statement sequencing, if/elif/else, while/else, for/else,
   try/except/else/finally with break/continue/raise signals ---------- *)
Inductive rr (St : Type) := RFuelOut | RStuck | RDone (o : sig) (st : St).
Arguments RFuelOut {St}.
Arguments RStuck {St}.
Arguments RDone {St} o st.

Section Ctl.
  Variables Stmt St : Type.
  Variable go : Stmt -> St -> rr St.
  Variable cond : text -> St -> (bool -> rr St) -> rr St.

  Fixpoint run_list (ss : list Stmt) (st : St) : rr St :=
    match ss with
    | [] => RDone SNormal st
    | x :: r => match go x st with RDone SNormal st' => run_list r st' | other => other end
    end.

  Fixpoint else_clause (cs : list (hdr * list Stmt)) (st : St) : rr St :=
    match cs with
    | [] => RDone SNormal st
    | (HElse, b) :: _ => run_list b st
    | _ :: r => else_clause r st
    end.

  Fixpoint if_chain (cs : list (hdr * list Stmt)) (st : St) : rr St :=
    match cs with
    | [] => RDone SNormal st
    | (HElif e, b) :: r => cond e st (fun c => if c then run_list b st else if_chain r st)
    | (HElse, b) :: _ => run_list b st
    | _ => RStuck
    end.

  Definition if_block (e : text) (body : list Stmt) (cls : list (hdr * list Stmt)) (st : St) : rr St :=
    cond e st (fun c => if c then run_list body st else if_chain cls st).

  Definition while_block (again : St -> rr St) (e : text) (body : list Stmt)
             (cls : list (hdr * list Stmt)) (st : St) : rr St :=
    cond e st (fun c =>
      if c then
        match run_list body st with
        | RDone SNormal st' | RDone SCont st' => again st'
        | RDone SBrk st' => RDone SNormal st'
        | other => other
        end
      else else_clause cls st).

  Fixpoint for_loop (bind : value -> St -> St) (run_body run_else : St -> rr St)
           (its : list value) (st : St) : rr St :=
    match its with
    | [] => run_else st
    | it :: r =>
        match run_body (bind it st) with
        | RDone SNormal st' | RDone SCont st' => for_loop bind run_body run_else r st'
        | RDone SBrk st' => RDone SNormal st'
        | other => other
        end
    end.

  Fixpoint handlers (x : exn) (st1 : St) (cs : list (hdr * list Stmt)) : rr St :=
    match cs with
    | [] => RDone (SRaise x) st1
    | (HExcept c, b) :: r => if catches c x then run_list b st1 else handlers x st1 r
    | _ :: r => handlers x st1 r
    end.

  Fixpoint finally_clause (r1 : rr St) (cs : list (hdr * list Stmt)) : rr St :=
    match cs with
    | [] => r1
    | (HFinally, b) :: _ =>
        match r1 with
        | RDone o st2 =>
            match run_list b st2 with
            | RDone SNormal st3 => RDone o st3
            | other => other
            end
        | other => other
        end
    | _ :: r => finally_clause r1 r
    end.

  Definition try_block (body : list Stmt) (cls : list (hdr * list Stmt)) (st : St) : rr St :=
    let r1 :=
      match run_list body st with
      | RDone (SRaise x) st1 => handlers x st1 cls
      | RDone SNormal st1 => else_clause cls st1
      | other => other
      end in
    finally_clause r1 cls.
End Ctl.

Inductive outcome := OutFuel | OutStuck | OutBytes (b : list N) | OutExn (x : exn).

Section Semantics.
  (* The expression pool: variable lookup, assignment, function-scope entry/exit
     and the functions callable from autoescape / apply are inputs. *)
  Variable env : Type.
  Variable lookup : text -> env -> xres value.
  Variable assign : text -> value -> env -> env.
  Variable push : list text -> env -> env.
  Variable pop : env -> env.
  Variable callfn : text -> list N -> xres (list N).     (* _tt_utf8(F(bytes)) *)

  (* ---------- IR semantics ---------- *)
  Record pstate := mkPS { ps_env : env; ps_tmp : option value; ps_buf : list N }.
  Definition prr := rr pstate.

  Definition ps_app (b : list N) (st : pstate) : pstate :=
    mkPS (ps_env st) (ps_tmp st) (ps_buf st ++ b).
  Definition ps_raise (x : exn) (st : pstate) : prr := RDone (SRaise x) st.
  Definition ps_bind (x : text) (v : value) (st : pstate) : pstate :=
    mkPS (assign x v (ps_env st)) (ps_tmp st) (ps_buf st).

  Definition p_cond (e : text) (st : pstate) (k : bool -> prr) : prr :=
    match lookup e (ps_env st) with XOk v => k (truthy v) | XErr x => ps_raise x st end.

  Fixpoint exec (fuel : nat) : pstmt -> pstate -> prr :=
    match fuel with
    | O => fun _ _ => RFuelOut
    | S f =>
      fix go (s : pstmt) (st : pstate) {struct s} : prr :=
        match s with
        | PLit b => RDone SNormal (ps_app b st)
        | PTmp e =>
            match lookup e (ps_env st) with
            | XOk v => RDone SNormal (mkPS (ps_env st) (Some v) (ps_buf st))
            | XErr x => ps_raise x st
            end
        | PConv =>
            match ps_tmp st with
            | None => RStuck
            | Some v =>
                match to_utf8 v with
                | XOk b => RDone SNormal (mkPS (ps_env st) (Some (VBytes b)) (ps_buf st))
                | XErr x => ps_raise x st
                end
            end
        | PEsc fn =>
            match ps_tmp st with
            | Some (VBytes b) =>
                match callfn fn b with
                | XOk b' => RDone SNormal (mkPS (ps_env st) (Some (VBytes b')) (ps_buf st))
                | XErr x => ps_raise x st
                end
            | _ => RStuck
            end
        | PAppTmp =>
            match ps_tmp st with
            | Some (VBytes b) => RDone SNormal (ps_app b st)
            | _ => RStuck
            end
        | PPass => RDone SNormal st
        | PSimple SBreak => RDone SBrk st
        | PSimple SContinue => RDone SCont st
        | PSimple (SAssign x e) =>
            match lookup e (ps_env st) with
            | XOk v => RDone SNormal (ps_bind x v st)
            | XErr x' => ps_raise x' st
            end
        | PApply m body =>
            match run_list _ _ go body (mkPS (push (flat_map plocals body) (ps_env st)) None []) with
            | RDone SNormal si =>
                let st' := mkPS (pop (ps_env si)) (ps_tmp st) (ps_buf st) in
                match callfn m (ps_buf si) with
                | XOk b => RDone SNormal (ps_app b st')
                | XErr x => ps_raise x st'
                end
            | RDone (SRaise x) si => ps_raise x (mkPS (pop (ps_env si)) (ps_tmp st) (ps_buf st))
            | RDone _ _ => RStuck
            | other => other
            end
        | PComp h body cls =>
            match h with
            | HIf e => if_block _ _ go p_cond e body cls st
            | HWhile e => while_block _ _ go p_cond (exec f s) e body cls st
            | HFor x e =>
                match lookup e (ps_env st) with
                | XErr x' => ps_raise x' st
                | XOk v =>
                    match iter_items v with
                    | XErr x' => ps_raise x' st
                    | XOk items => for_loop _ (ps_bind x) (run_list _ _ go body) (else_clause _ _ go cls) items st
                    end
                end
            | HTry => try_block _ _ go body cls st
            | _ => RStuck
            end
        end
    end.

  Definition exec_list (fuel : nat) : list pstmt -> pstate -> prr := run_list _ _ (exec fuel).

  (* _tt_execute(): result bytes, or the exception that escapes *)
  Definition run_prog (fuel : nat) (p : list pstmt) (genv : env) : outcome :=
    match exec_list fuel p (mkPS (push (flat_map plocals p) genv) None []) with
    | RFuelOut => OutFuel
    | RStuck => OutStuck
    | RDone SNormal st => OutBytes (ps_buf st)
    | RDone (SRaise x) _ => OutExn x
    | RDone _ _ => OutStuck
    end.
End Semantics.
