(* C19/C20 — tornado/template.py: text utilities, filter_whitespace, bytes repr,
   _TemplateReader and _parse (transliteration).  Definitions only.
   Text = list of code points (list N); bytes = list of byte values (list N). *)
From Coq Require Import List NArith Arith Bool String Ascii.
Import ListNotations.
From TV Require Import Lib.Obs Lib.C21_Utf8.
Local Open Scope N_scope.

Definition text := list N.

Fixpoint s2l (s : string) : text :=
  match s with
  | EmptyString => []
  | String a r => N_of_ascii a :: s2l r
  end.

Definition teqb (a b : text) : bool := list_eqb N.eqb a b.

(* ---------- str.isspace / regex \s for str patterns (verified against CPython
   over all code points by the harness self-test) ---------- *)
Definition py_isspace (c : N) : bool :=
  in_range 9 13 c || in_range 28 32 c || (c =? 133) || (c =? 160) || (c =? 5760)
  || in_range 8192 8202 c || (c =? 8232) || (c =? 8233) || (c =? 8239) || (c =? 8287)
  || (c =? 12288).

Fixpoint drop_while (p : N -> bool) (s : text) : text :=
  match s with
  | [] => []
  | c :: r => if p c then drop_while p r else s
  end.
Definition strip_by (p : N -> bool) (s : text) : text :=
  rev (drop_while p (rev (drop_while p s))).
Definition strip (s : text) : text := strip_by py_isspace s.          (* str.strip() *)
Definition strip_char (q : N) (s : text) : text := strip_by (N.eqb q) s.  (* str.strip(q) *)

(* str.partition(" "): (before, after); after = [] when there is no space *)
Fixpoint partition_sp (s : text) : text * text :=
  match s with
  | [] => ([], [])
  | c :: r => if c =? 32 then ([], r) else let '(a, b) := partition_sp r in (c :: a, b)
  end.

Fixpoint starts_with (p s : text) : bool :=
  match p, s with
  | [], _ => true
  | a :: p', b :: s' => (a =? b) && starts_with p' s'
  | _ :: _, [] => false
  end.
Fixpoint contains (p s : text) : bool :=
  starts_with p s || match s with [] => false | _ :: r => contains p r end.
Definition ends_with (p s : text) : bool := starts_with (rev p) (rev s).

(* index of the first occurrence of the two-character needle *)
Fixpoint find2 (a b : N) (s : text) : option nat :=
  match s with
  | [] => None
  | c :: r =>
      match r with
      | d :: _ => if (c =? a) && (d =? b) then Some O
                  else option_map S (find2 a b r)
      | [] => None
      end
  end.

Fixpoint count_nl (s : text) : nat :=
  match s with
  | [] => O
  | c :: r => if c =? 10 then S (count_nl r) else count_nl r
  end.

(* ---------- filter_whitespace ---------- *)
Inductive wsmode := WAll | WSingle | WOneline.

Definition ws_of_text (m : text) : option wsmode :=
  if teqb m (s2l "all") then Some WAll
  else if teqb m (s2l "single") then Some WSingle
  else if teqb m (s2l "oneline") then Some WOneline
  else None.                                  (* Exception("invalid whitespace mode") *)

(* replace every maximal run of characters satisfying [p] by [f run] *)
Fixpoint map_runs (p : N -> bool) (f : text -> text) (s : text) (run : text) : text :=
  match s with
  | [] => match run with [] => [] | _ => f (rev run) end
  | c :: r =>
      if p c then map_runs p f r (c :: run)
      else match run with [] => [] | _ => f (rev run) end ++ c :: map_runs p f r []
  end.

Definition is_tab_sp (c : N) : bool := (c =? 9) || (c =? 32).
Definition has_nl (s : text) : bool := existsb (N.eqb 10) s.

Definition filter_whitespace (m : wsmode) (s : text) : text :=
  match m with
  | WAll => s
  | WSingle =>
      let s1 := map_runs is_tab_sp (fun _ => [32]) s [] in           (* runs of tab/space become one space *)
      map_runs py_isspace (fun run => if has_nl run then [10] else run) s1 []   (* whitespace runs containing a newline become one newline *)
  | WOneline => map_runs py_isspace (fun _ => [32]) s []              (* whitespace runs become one space *)
  end.

Definition pre_tag : text := [60; 112; 114; 101; 62].   (* <pre> *)

(* what _Text.generate appends (before UTF-8 encoding) *)
Definition text_value (m : wsmode) (v : text) : text :=
  if contains pre_tag v then v else filter_whitespace m v.

(* ---------- repr() of a bytes object ---------- *)
Definition hexd (n : N) : N := if n <? 10 then 48 + n else 87 + n.
Definition repr_byte (q : N) (c : N) : text :=
  if (c =? q) || (c =? 92) then [92; c]
  else if c =? 9 then [92; 116]
  else if c =? 10 then [92; 110]
  else if c =? 13 then [92; 114]
  else if (c <? 32) || (127 <=? c) then [92; 120; hexd (c / 16); hexd (c mod 16)]
  else [c].
Definition bytes_repr (b : list N) : text :=
  let q := if existsb (N.eqb 39) b && negb (existsb (N.eqb 34) b) then 34 else 39 in
  98 :: q :: flat_map (repr_byte q) b ++ [q].

(* ---------- decimal rendering of small naturals ---------- *)
Fixpoint dec_digits (fuel : nat) (n : nat) (acc : text) : text :=
  match fuel with
  | O => acc
  | S f =>
      let d := N.of_nat (n mod 10) in
      let acc' := (48 + d) :: acc in
      if (n / 10 =? 0)%nat then acc' else dec_digits f (n / 10)%nat acc'
  end.
Definition dec_of_nat (n : nat) : text := dec_digits (S n) n [].

(* ---------- syntax tree ---------- *)
Inductive node :=
| NText (v : text) (line : nat) (ws : wsmode)
| NExpr (e : text) (line : nat) (raw : bool)        (* _Expression / _Module *)
| NStmt (s : text) (line : nat)                     (* _Statement: set/import/from/break/continue *)
| NInter (s : text) (line : nat)                    (* _IntermediateControlBlock *)
| NControl (s : text) (line : nat) (body : list node)
| NApply (m : text) (line : nat) (body : list node)
| NBlock (name : text) (line : nat) (body : list node)
| NExtends (name : text)
| NInclude (name : text) (line : nat).

(* ---------- errors ---------- *)
Inductive pek :=
| MissingEnd | MissingEndComment | MissingEndExpr | EmptyExpr | MissingEndBlock | EmptyBlock
| InterOutside | InterBadParent | ExtraEnd | ExtendsMissing | ImportMissing | IncludeMissing
| SetMissing | ApplyMissing | BlockMissing | BreakOutside | UnknownOp.

Inductive perr :=
| PE (k : pek) (line : nat) (pos : nat)   (* ParseError(..., lineno); pos = reader.pos when raised (not observable) *)
| PBadWs                          (* Exception("invalid whitespace mode ...") *)
| PFuel.                          (* model artefact; excluded by the fuel bound *)

Inductive pres (A : Type) := POk (a : A) | PErr (e : perr).
Arguments POk {A} a.
Arguments PErr {A} e.

(* ---------- _TemplateReader: the unread suffix, the line counter, the current
   whitespace mode, and (threaded here) Template.autoescape ---------- *)
Record rstate := mkR { r_txt : text; r_line : nat; r_ws : wsmode; r_ae : option text; r_pos : nat }.

Definition consume (n : nat) (st : rstate) : text * rstate :=
  let s := firstn n (r_txt st) in
  (s, mkR (skipn n (r_txt st)) (r_line st + count_nl s)%nat (r_ws st) (r_ae st) (r_pos st + List.length s)%nat).
Definition consume_all (st : rstate) : text * rstate := consume (List.length (r_txt st)) st.

(* the "find next template directive" loop of _parse: offset of the brace that
   opens the next special token; None = EOF *)
Definition is_special (d : N) : bool := (d =? 123) || (d =? 37) || (d =? 35).
Fixpoint scan (s : text) (i : nat) : option nat :=
  match s with
  | [] => None
  | c :: rest =>
      if c =? 123 then
        match rest with
        | [] => None                                   (* curly + 1 == remaining *)
        | d :: rest2 =>
            if negb (is_special d) then scan rest (S i)
            else if (d =? 123) && match rest2 with e :: _ => e =? 123 | [] => false end
                 then scan rest (S i)
            else Some i
        end
      else scan rest (S i)
  end.

Definition op_in (op : text) (l : list string) : bool := existsb (fun s => teqb op (s2l s)) l.

(* intermediate_blocks.get(operator) *)
Definition allowed_parents (op : text) : option (list string) :=
  if teqb op (s2l "else") then Some ["if"; "for"; "while"; "try"]%string
  else if teqb op (s2l "elif") then Some ["if"]%string
  else if teqb op (s2l "except") then Some ["try"]%string
  else if teqb op (s2l "finally") then Some ["try"]%string
  else None.

Definition is_nil {A} (l : list A) : bool := match l with [] => true | _ => false end.
Definition second (s : text) : N := nth 1 s 0.

(* _parse.  [acc] is body.chunks reversed.  Returns the chunk list and the reader
   state after `{% end %}` (inside a block) or at EOF (top level). *)
Fixpoint parse_body (fuel : nat) (st : rstate) (in_block : option text) (in_loop : bool)
         (acc : list node) : pres (list node * rstate) :=
  match fuel with
  | O => PErr PFuel
  | S f =>
    match scan (r_txt st) 0 with
    | None =>
        match in_block with
        | Some _ => PErr (PE MissingEnd (r_line st) (r_pos st))
        | None =>
            let '(s, st') := consume_all st in
            POk (rev (NText s (r_line st') (r_ws st') :: acc), st')
        end
    | Some curly =>
        let '(acc1, st1) :=
          match curly with
          | O => (acc, st)
          | _ => let '(c, st') := consume curly st in (NText c (r_line st') (r_ws st') :: acc, st')
          end in
        let '(start_brace, st2) := consume 2 st1 in
        let line := r_line st2 in
        if match r_txt st2 with c :: _ => c =? 33 | [] => false end then   (* "{{!" "{%!" "{#!" *)
            let '(_, st3) := consume 1 st2 in
            parse_body f st3 in_block in_loop (NText start_brace line (r_ws st3) :: acc1)
        else
          if second start_brace =? 35 then                     (* comment *)
            match find2 35 125 (r_txt st2) with
            | None => PErr (PE MissingEndComment (r_line st2) (r_pos st2))
            | Some e =>
                let '(_, st3) := consume e st2 in
                let '(_, st4) := consume 2 st3 in
                parse_body f st4 in_block in_loop acc1
            end
          else if second start_brace =? 123 then               (* expression *)
            match find2 125 125 (r_txt st2) with
            | None => PErr (PE MissingEndExpr (r_line st2) (r_pos st2))
            | Some e =>
                let '(c, st3) := consume e st2 in
                let contents := strip c in
                let '(_, st4) := consume 2 st3 in
                if is_nil contents then PErr (PE EmptyExpr (r_line st4) (r_pos st4))
                else parse_body f st4 in_block in_loop (NExpr contents line false :: acc1)
            end
          else                                                 (* block *)
            match find2 37 125 (r_txt st2) with
            | None => PErr (PE MissingEndBlock (r_line st2) (r_pos st2))
            | Some e =>
                let '(c, st3) := consume e st2 in
                let contents := strip c in
                let '(_, st4) := consume 2 st3 in
                if is_nil contents then PErr (PE EmptyBlock (r_line st4) (r_pos st4)) else
                let '(operator, suffix0) := partition_sp contents in
                let suffix := strip suffix0 in
                let err k := PErr (PE k (r_line st4) (r_pos st4)) in
                let continue a := parse_body f st4 in_block in_loop a in
                match allowed_parents operator with
                | Some parents =>
                    match in_block with
                    | None => err InterOutside
                    | Some b =>
                        if op_in b parents then continue (NInter contents line :: acc1)
                        else err InterBadParent
                    end
                | None =>
                  if teqb operator (s2l "end") then
                    match in_block with
                    | None => err ExtraEnd
                    | Some _ => POk (rev acc1, st4)
                    end
                  else if teqb operator (s2l "comment") then continue acc1
                  else if teqb operator (s2l "extends") then
                    let sfx := strip_char 39 (strip_char 34 suffix) in
                    if is_nil sfx then err ExtendsMissing else continue (NExtends sfx :: acc1)
                  else if op_in operator ["import"; "from"]%string then
                    if is_nil suffix then err ImportMissing else continue (NStmt contents line :: acc1)
                  else if teqb operator (s2l "include") then
                    let sfx := strip_char 39 (strip_char 34 suffix) in
                    if is_nil sfx then err IncludeMissing else continue (NInclude sfx line :: acc1)
                  else if teqb operator (s2l "set") then
                    if is_nil suffix then err SetMissing else continue (NStmt suffix line :: acc1)
                  else if teqb operator (s2l "autoescape") then
                    let fn := if teqb suffix (s2l "None") then None else Some suffix in
                    parse_body f (mkR (r_txt st4) (r_line st4) (r_ws st4) fn (r_pos st4)) in_block in_loop acc1
                  else if teqb operator (s2l "whitespace") then
                    match ws_of_text suffix with
                    | None => PErr PBadWs
                    | Some m =>
                        parse_body f (mkR (r_txt st4) (r_line st4) m (r_ae st4) (r_pos st4)) in_block in_loop acc1
                    end
                  else if teqb operator (s2l "raw") then continue (NExpr suffix line true :: acc1)
                  else if teqb operator (s2l "module") then
                    continue (NExpr (s2l "_tt_modules." ++ suffix) line true :: acc1)
                  else if op_in operator ["apply"; "block"; "try"; "if"; "for"; "while"]%string then
                    let loop' :=
                      if op_in operator ["for"; "while"]%string then true
                      else if teqb operator (s2l "apply") then false
                      else in_loop in
                    match parse_body f st4 (Some operator) loop' [] with
                    | PErr e => PErr e
                    | POk (block_body, st5) =>
                        let err5 k := PErr (PE k (r_line st5) (r_pos st5)) in
                        let continue5 a := parse_body f st5 in_block in_loop a in
                        if teqb operator (s2l "apply") then
                          if is_nil suffix then err5 ApplyMissing
                          else continue5 (NApply suffix line block_body :: acc1)
                        else if teqb operator (s2l "block") then
                          if is_nil suffix then err5 BlockMissing
                          else continue5 (NBlock suffix line block_body :: acc1)
                        else continue5 (NControl contents line block_body :: acc1)
                    end
                  else if op_in operator ["break"; "continue"]%string then
                    if in_loop then continue (NStmt contents line :: acc1) else err BreakOutside
                  else err UnknownOp
                end
            end
    end
  end.

(* ---------- Template.__init__ up to _parse ---------- *)
Record tmpl := mkT { t_name : text; t_ae : option text; t_body : list node }.

(* loader defaults: autoescape, whitespace (None = by file name) *)
Record lopts := mkL { l_ae : option text; l_ws : option text }.

Definition default_ws (name : text) : text :=
  if ends_with (s2l ".html") name || ends_with (s2l ".js") name then s2l "single" else s2l "all".

Definition parse_file (ws : text) (ae : option text) (name src : text) : pres tmpl :=
  match ws_of_text ws with
  | None => PErr PBadWs
  | Some m =>
      match parse_body (S (List.length src)) (mkR src 1 m ae 0) None false [] with
      | PErr e => PErr e
      | POk (body, st) => POk (mkT name (r_ae st) body)
      end
  end.

(* Template(src, name, loader) with the loader's defaults *)
Definition ws_for (o : lopts) (name : text) : text :=
  match l_ws o with
  | Some w => if is_nil w then default_ws name else w
  | None => default_ws name
  end.
Definition parse_with_loader (o : lopts) (name src : text) : pres tmpl :=
  parse_file (ws_for o name) (l_ae o) name src.
