(* C19 — what _parse guarantees about its output: intermediate tags occur only
   directly inside if/for/while/try bodies and carry one of the four intermediate
   operators; control blocks carry one of the four control operators. *)
From Coq Require Import List NArith Arith Bool String Lia.
Import ListNotations.
From TV Require Import Lib.Obs Lib.C21_Utf8 C19.Model C19.Codegen C19.Sem C19.Spec
  C19.ProofsA C19.ProofsB1 C19.ProofsB2.
Local Open Scope N_scope.

Definition allow_inter (ib : option text) : bool :=
  match ib with Some b => op_in b ["if"; "for"; "while"; "try"]%string | None => false end.

Lemma forallb_rev {A} (p : A -> bool) l : forallb p (rev l) = forallb p l.
Proof.
  induction l as [|x r IH]; [reflexivity|]. simpl. rewrite forallb_app, IH. simpl.
  rewrite andb_true_r. apply andb_comm.
Qed.

Lemma allowed_parents_sub op ps b :
  allowed_parents op = Some ps -> op_in b ps = true ->
  op_in b ["if"; "for"; "while"; "try"]%string = true
  /\ op_in op ["else"; "elif"; "except"; "finally"]%string = true.
Proof.
  unfold allowed_parents. unfold op_in at 3. cbn [existsb].
  destruct (teqb op (s2l "else")) eqn:E1.
  { intros H; inversion H; subst. intros Hb. split; [exact Hb|reflexivity]. }
  destruct (teqb op (s2l "elif")) eqn:E2.
  { intros H; inversion H; subst. intros Hb. split; [|reflexivity].
    unfold op_in in *. cbn [existsb] in *. rewrite orb_false_r in Hb. rewrite Hb. reflexivity. }
  destruct (teqb op (s2l "except")) eqn:E3.
  { intros H; inversion H; subst. intros Hb. split; [|reflexivity].
    unfold op_in in *. cbn [existsb] in *. rewrite orb_false_r in Hb. rewrite Hb.
    rewrite !orb_true_r. reflexivity. }
  destruct (teqb op (s2l "finally")) eqn:E4; [|discriminate].
  intros H; inversion H; subst. intros Hb. split; [|reflexivity].
  unfold op_in in *. cbn [existsb] in *. rewrite orb_false_r in Hb. rewrite Hb.
  rewrite !orb_true_r. reflexivity.
Qed.

Definition WfP (f : nat) : Prop :=
  forall st ib il acc body st',
    parse_body f st ib il acc = POk (body, st') ->
    forallb wf_node acc = true -> (allow_inter ib = false -> no_inter acc = true) ->
    forallb wf_node body = true /\ (allow_inter ib = false -> no_inter body = true).

Lemma finish_ok acc ib :
  forallb wf_node acc = true -> (allow_inter ib = false -> no_inter acc = true) ->
  forallb wf_node (rev acc) = true /\ (allow_inter ib = false -> no_inter (rev acc) = true).
Proof. unfold no_inter. rewrite !forallb_rev. auto. Qed.

Ltac step H :=
  match type of H with
  | (if ?c then _ else _) = _ => destruct c eqn:?
  | (match ?x with _ => _ end) = _ => destruct x eqn:?
  end.
Ltac leaf IH Hacc1 Hni1 :=
  match goal with
  | H : PErr _ = POk _ |- _ => discriminate H
  | H : parse_body _ _ _ _ ?a = POk _ |- _ =>
      apply IH in H; [exact H | simpl; rewrite ?Hacc1; auto | intro Hx; simpl; auto ]
  end.

Lemma parse_body_wf : forall f, WfP f.
Proof.
  induction f as [|f IH]; intros st ib il acc body st' H Hacc Hni; [discriminate|]. unfold WfP in IH.
  cbn [parse_body] in H.
  destruct (scan (r_txt st) 0) as [curly|] eqn:Escan.
  2:{ destruct ib; [discriminate|]. destruct (consume_all st) as [s st1]. injection H as Hb Hs. rewrite <- Hb.
      apply (finish_ok (NText s (r_line st1) (r_ws st1) :: acc) None); simpl; auto. }
  destruct (match curly with
            | O => (acc, st)
            | S _ => let '(c, st'0) := consume curly st in (NText c (r_line st'0) (r_ws st'0) :: acc, st'0)
            end) as [acc1 st1] eqn:E1.
  assert (Hacc1 : forallb wf_node acc1 = true /\ (allow_inter ib = false -> no_inter acc1 = true)).
  { destruct curly; [inversion E1; subst; auto|]. destruct (consume (S curly) st) as [c0 st0].
    inversion E1; subst. simpl. auto. }
  destruct Hacc1 as [Hacc1 Hni1]. clear E1 Hacc Hni.
  destruct (consume 2 st1) as [start_brace st2] eqn:E2.
  repeat (step H; try solve [leaf IH Hacc1 Hni1]).
  - destruct (allowed_parents_sub _ _ _ Heqo0 Heqb3) as [A1 A2].
    apply IH in H; [exact H| simpl; unfold inter_op; rewrite Heqp1; cbn [fst]; rewrite A2, Hacc1; reflexivity
                   | intro Hx; unfold allow_inter in Hx; rewrite A1 in Hx; discriminate].
  - injection H as Hb Hs. rewrite <- Hb. apply finish_ok; auto.
  - destruct (IH _ _ _ _ _ _ Heqp2 eq_refl (fun _ => eq_refl)) as [B1 B2].
    apply teqb_eq in Heqb14. subst t1. specialize (B2 eq_refl).
    apply IH in H; [exact H| simpl; rewrite B1, B2, Hacc1; reflexivity | intro Hx; simpl; auto].
  - destruct (IH _ _ _ _ _ _ Heqp2 eq_refl (fun _ => eq_refl)) as [B1 B2].
    apply teqb_eq in Heqb15. subst t1. specialize (B2 eq_refl).
    apply IH in H; [exact H| simpl; rewrite B1, B2, Hacc1; reflexivity | intro Hx; simpl; auto].
  - destruct (IH _ _ _ _ _ _ Heqp2 eq_refl (fun _ => eq_refl)) as [B1 B2].
    assert (Hc : ctl_op (strip t) = true).
    { unfold ctl_op. rewrite Heqp1. cbn [fst]. unfold op_in in *. cbn [existsb] in *.
      rewrite Heqb14, Heqb15 in Heqb13. cbn [orb] in Heqb13.
      destruct (teqb t1 (s2l "try")), (teqb t1 (s2l "if")), (teqb t1 (s2l "for")), (teqb t1 (s2l "while"));
        simpl in *; congruence. }
    apply IH in H; [exact H| simpl; rewrite Hc, B1, Hacc1; reflexivity | intro Hx; simpl; auto].
Qed.

Theorem parse_file_wf ws ae name src t :
  parse_file ws ae name src = POk t -> wf_top (t_body t) = true.
Proof.
  unfold parse_file. destruct (ws_of_text ws) as [m|]; [|discriminate].
  destruct (parse_body (S (List.length src)) (mkR src 1 m ae 0) None false []) as [[body st]|] eqn:E;
    [|discriminate].
  intros H. inversion H; subst. simpl.
  destruct (parse_body_wf _ _ _ _ _ _ _ E eq_refl (fun _ => eq_refl)) as [B1 B2].
  unfold wf_top. rewrite B1, (B2 eq_refl). reflexivity.
Qed.

Theorem loadf_wf : forall depth fuel o files, ld_wf (Some (loadf depth fuel o files)).
Proof.
  intros depth fuel o files n t H. destruct depth as [|d]; [discriminate|].
  simpl in H. destruct (assoc n files) as [src|]; [|discriminate].
  apply gbind_ok in H as (t0 & Hp & H). apply gbind_ok in H as (co & _ & H). inversion H; subst t0.
  unfold parse_with_loader, of_pres in Hp.
  destruct (parse_file (ws_for o n) (l_ae o) n src) as [t1|] eqn:E; [|discriminate].
  inversion Hp; subst. eapply parse_file_wf; eauto.
Qed.
