(* C19/C20 — tornado/template.py: the emitted Python as structured lines
   (_CodeWriter, every _Node.generate), Template._get_ancestors, find_named_blocks,
   _generate_python, the loader, plus the reading-back of the emitted lines by
   indentation (what CPython's compile does with them, for the statement forms the
   compiler emits).  Definitions only. *)
From Coq Require Import List NArith Arith Bool String.
Import ListNotations.
From TV Require Import Lib.Obs Lib.C21_Utf8 C19.Model.
Local Open Scope N_scope.

(* ---------- emitted lines ---------- *)
Inductive pline :=
| LDef (name : text)                 (* def NAME(): *)
| LBufInit                           (* _tt_buffer = [] *)
| LAppInit                           (* _tt_append = _tt_buffer.append *)
| LReturn                            (* return _tt_utf8('').join(_tt_buffer) *)
| LApplyCall (m name : text)         (* _tt_append(_tt_utf8(M(NAME()))) *)
| LHeader (s : text)                 (* S: *)
| LPass
| LStmt (s : text)
| LTmp (e : text)                    (* _tt_tmp = E *)
| LConv                              (* if isinstance(_tt_tmp, _tt_string_types): _tt_tmp = _tt_utf8(_tt_tmp) *)
| LConvElse                          (* else: _tt_tmp = _tt_utf8(str(_tt_tmp)) *)
| LEsc (f : text)                    (* _tt_tmp = _tt_utf8(F(_tt_tmp)) *)
| LAppTmp                            (* _tt_append(_tt_tmp) *)
| LAppLit (b : list N).              (* _tt_append(b'...') *)

Definition render (l : pline) : text :=
  match l with
  | LDef n => s2l "def " ++ n ++ s2l "():"
  | LBufInit => s2l "_tt_buffer = []"
  | LAppInit => s2l "_tt_append = _tt_buffer.append"
  | LReturn => s2l "return _tt_utf8('').join(_tt_buffer)"
  | LApplyCall m n => s2l "_tt_append(_tt_utf8(" ++ m ++ s2l "(" ++ n ++ s2l "())))"
  | LHeader s => s ++ s2l ":"
  | LPass => s2l "pass"
  | LStmt s => s
  | LTmp e => s2l "_tt_tmp = " ++ e
  | LConv => s2l "if isinstance(_tt_tmp, _tt_string_types): _tt_tmp = _tt_utf8(_tt_tmp)"
  | LConvElse => s2l "else: _tt_tmp = _tt_utf8(str(_tt_tmp))"
  | LEsc f => s2l "_tt_tmp = _tt_utf8(" ++ f ++ s2l "(_tt_tmp))"
  | LAppTmp => s2l "_tt_append(_tt_tmp)"
  | LAppLit b => s2l "_tt_append(" ++ bytes_repr b ++ s2l ")"
  end.

(* one written line: indent, statement, and the trailing comment's content:
   current template name, line number, include stack (innermost first) *)
Record cline := mkC { c_ind : nat; c_line : pline; c_name : text; c_no : nat; c_via : list (text * nat) }.

(* ---------- errors of Template(...) construction ---------- *)
Inductive gerr :=
| GParse (e : perr)
| GNoLoader          (* ParseError("{% extends %} block found, but no template loader"), lineno 0 *)
| GKeyError          (* DictLoader: no such template *)
| GNotImpl           (* _ExtendsBlock.generate: extends below the top level *)
| GAssert            (* include without a loader *)
| GNoBlock           (* named_blocks[name] missing (unreachable through _generate_python) *)
| GEncode            (* UnicodeEncodeError: lone surrogate in literal text *)
| GSyntax            (* compile(): SyntaxError *)
| GUnsupported       (* emitted code outside the statement forms the model reads back *)
| GFuel.             (* model artefact *)
Inductive gres (A : Type) := GOk (a : A) | GErr (e : gerr).
Arguments GOk {A} a.
Arguments GErr {A} e.
Definition gbind {A B} (r : gres A) (f : A -> gres B) : gres B :=
  match r with GOk a => f a | GErr e => GErr e end.
Definition of_pres {A} (r : pres A) : gres A :=
  match r with POk a => GOk a | PErr e => GErr (GParse e) end.

(* loader.load as a function; None = no loader *)
Definition loadfn := option (text -> gres tmpl).

(* ---------- Template._get_ancestors ---------- *)
Fixpoint ancestors (fuel : nat) (ld : loadfn) (t : tmpl) : gres (list tmpl) :=
  match fuel with
  | O => GErr GFuel
  | S f =>
      gbind
        ((fix go (cs : list node) : gres (list tmpl) :=
            match cs with
            | [] => GOk []
            | NExtends n :: r =>
                match ld with
                | None => GErr GNoLoader
                | Some load =>
                    gbind (load n) (fun t' =>
                    gbind (ancestors f ld t') (fun a =>
                    gbind (go r) (fun b => GOk (a ++ b))))
                end
            | _ :: r => go r
            end) (t_body t))
        (fun l => GOk (t :: l))
  end.

(* ---------- find_named_blocks: name -> (body, defining template); newest first ---------- *)
Definition nbmap := list (text * (list node * tmpl)).
Fixpoint nb_find (name : text) (m : nbmap) : option (list node * tmpl) :=
  match m with
  | [] => None
  | (k, v) :: r => if teqb k name then Some v else nb_find name r
  end.

Fixpoint fnb (fuel : nat) (ld : loadfn) (t : tmpl) (ns : list node) (nb : nbmap) : gres nbmap :=
  match fuel with
  | O => GErr GFuel
  | S f =>
      match ns with
      | [] => GOk nb
      | n :: r =>
          gbind
            match n with
            | NControl _ _ b => fnb f ld t b nb
            | NApply _ _ b => fnb f ld t b nb
            | NBlock name _ b => fnb f ld t b ((name, (b, t)) :: nb)
            | NInclude name _ =>
                match ld with
                | None => GErr GAssert
                | Some load => gbind (load name) (fun t' => fnb f ld t' (t_body t') nb)
                end
            | _ => GOk nb
            end
            (fun nb' => fnb f ld t r nb')
      end
  end.

(* ---------- _CodeWriter state ---------- *)
Record wstate := mkW { w_cnt : nat; w_cur : tmpl; w_stack : list (tmpl * nat) }.

Definition wl (ind : nat) (l : pline) (no : nat) (w : wstate) : cline :=
  mkC ind l (t_name (w_cur w)) no (map (fun p => (t_name (fst p), snd p)) (w_stack w)).

Definition w_push (t : tmpl) (line : nat) (w : wstate) : wstate :=
  mkW (w_cnt w) t ((w_cur w, line) :: w_stack w).
Definition w_pop (w : wstate) : gres wstate :=
  match w_stack w with
  | (t, _) :: r => GOk (mkW (w_cnt w) t r)
  | [] => GErr GAssert
  end.

Definition apply_name (n : nat) : text := s2l "_tt_apply" ++ dec_of_nat n.

Definition encode_lit (v : text) : gres (list N) :=
  match utf8_encode v with Some b => GOk b | None => GErr GEncode end.

(* _ChunkList.generate at indentation [ind] *)
Fixpoint gen (fuel : nat) (ld : loadfn) (nb : nbmap) (ind : nat) (ns : list node) (w : wstate)
  : gres (list cline * wstate) :=
  match fuel with
  | O => GErr GFuel
  | S f =>
      match ns with
      | [] => GOk ([], w)
      | n :: r =>
          gbind
            match n with
            | NText v line ws =>
                let v' := text_value ws v in
                if is_nil v' then GOk ([], w)
                else gbind (encode_lit v') (fun b => GOk ([wl ind (LAppLit b) line w], w))
            | NExpr e line raw =>
                let esc := if raw then [] else
                           match t_ae (w_cur w) with Some fn => [wl ind (LEsc fn) line w] | None => [] end in
                GOk ([wl ind (LTmp e) line w; wl ind LConv line w; wl ind LConvElse line w]
                       ++ esc ++ [wl ind LAppTmp line w], w)
            | NStmt s line => GOk ([wl ind (LStmt s) line w], w)
            | NInter s line => GOk ([wl ind LPass line w; wl (ind - 1) (LHeader s) line w], w)
            | NControl s line body =>
                gbind (gen f ld nb (S ind) body w) (fun '(ls, w') =>
                GOk (wl ind (LHeader s) line w :: ls ++ [wl (S ind) LPass line w'], w'))
            | NApply m line body =>
                let name := apply_name (w_cnt w) in
                let w1 := mkW (S (w_cnt w)) (w_cur w) (w_stack w) in
                gbind (gen f ld nb (S ind) body w1) (fun '(ls, w') =>
                GOk (wl ind (LDef name) line w1 :: wl (S ind) LBufInit line w1 :: wl (S ind) LAppInit line w1
                       :: ls ++ [wl (S ind) LReturn line w'; wl ind (LApplyCall m name) line w'], w'))
            | NBlock name line _ =>
                match nb_find name nb with
                | None => GErr GNoBlock
                | Some (body, t) =>
                    gbind (gen f ld nb ind body (w_push t line w)) (fun '(ls, w') =>
                    gbind (w_pop w') (fun w'' => GOk (ls, w'')))
                end
            | NExtends _ => GErr GNotImpl
            | NInclude name line =>
                match ld with
                | None => GErr GAssert
                | Some load =>
                    gbind (load name) (fun t =>
                    gbind (gen f ld nb ind (t_body t) (w_push t line w)) (fun '(ls, w') =>
                    gbind (w_pop w') (fun w'' => GOk (ls, w''))))
                end
            end
            (fun '(ls, w') => gbind (gen f ld nb ind r w') (fun '(ls2, w'') => GOk (ls ++ ls2, w'')))
      end
  end.

Definition execute_name : text := s2l "_tt_execute".

(* _File.generate *)
Definition gen_file (fuel : nat) (ld : loadfn) (nb : nbmap) (t : tmpl) : gres (list cline) :=
  let w := mkW 0 t [] in
  gbind (gen fuel ld nb 1 (t_body t) w) (fun '(ls, w') =>
  GOk (wl 0 (LDef execute_name) 0 w :: wl 1 LBufInit 0 w :: wl 1 LAppInit 0 w
         :: ls ++ [wl 1 LReturn 0 w'])).

Fixpoint fnb_all (fuel : nat) (ld : loadfn) (ts : list tmpl) (nb : nbmap) : gres nbmap :=
  match ts with
  | [] => GOk nb
  | t :: r => gbind (fnb fuel ld t (t_body t) nb) (fun nb' => fnb_all fuel ld r nb')
  end.

(* Template._generate_python *)
Definition generate_python (fuel : nat) (ld : loadfn) (t : tmpl) : gres (list cline) :=
  gbind (ancestors fuel ld t) (fun ancs =>
  let ancs' := rev ancs in
  gbind (fnb_all fuel ld ancs' []) (fun nb =>
  match ancs' with
  | root :: _ => gen_file fuel ld nb root
  | [] => GErr GNoBlock
  end)).

(* ================= reading the emitted lines back ================= *)
Inductive tree := TLine (l : pline) | TComp (h : pline) (body : list tree).

Definition is_header (l : pline) : bool :=
  match l with LDef _ | LHeader _ => true | _ => false end.

(* suite at indentation k; None = IndentationError *)
Fixpoint blocks (fuel : nat) (k : nat) (ls : list (nat * pline))
  : option (list tree * list (nat * pline)) :=
  match fuel with
  | O => None
  | S f =>
      match ls with
      | [] => Some ([], [])
      | (i, l) :: r =>
          if (i <? k)%nat then Some ([], ls)
          else if (k <? i)%nat then None
          else if is_header l then
            match blocks f (S k) r with
            | Some (b :: body, r') =>
                match blocks f k r' with
                | Some (sibs, r'') => Some (TComp l (b :: body) :: sibs, r'')
                | None => None
                end
            | _ => None
            end
          else
            match blocks f k r with
            | Some (sibs, r') => Some (TLine l :: sibs, r')
            | None => None
            end
      end
  end.

Definition strip_comments (ls : list cline) : list (nat * pline) :=
  map (fun c => (c_ind c, c_line c)) ls.

Definition blocks_top (ls : list (nat * pline)) : option (list tree) :=
  match blocks (S (List.length ls)) 0 ls with
  | Some (ts, []) => Some ts
  | _ => None
  end.
