(* C19/C20 — the concrete expression pool used by the correspondence check:
   variables looked up in Python's function scopes (frames of declared locals over
   the keyword-argument namespace) and the functions the harness puts in the
   template namespace.  Definitions only. *)
From Coq Require Import List NArith Arith Bool String.
Import ListNotations.
From TV Require Import Lib.Obs Lib.C21_Utf8 C19.Model C19.Codegen C19.Sem C21.Model.
Local Open Scope N_scope.

Definition frame := (list text * list (text * value))%type.   (* declared locals, bindings *)
Definition cenv := (list frame * list (text * value))%type.   (* innermost first; globals *)

Fixpoint vassoc (k : text) (l : list (text * value)) : option value :=
  match l with
  | [] => None
  | (a, b) :: r => if teqb a k then Some b else vassoc k r
  end.

Fixpoint lookup_frames (x : text) (fs : list frame) (g : list (text * value)) : xres value :=
  match fs with
  | [] => match vassoc x g with Some v => XOk v | None => XErr XName end
  | (decl, bs) :: r =>
      if existsb (teqb x) decl then
        match vassoc x bs with Some v => XOk v | None => XErr XName end   (* UnboundLocalError *)
      else lookup_frames x r g
  end.
Definition c_lookup (x : text) (e : cenv) : xres value := lookup_frames x (fst e) (snd e).
Definition c_assign (x : text) (v : value) (e : cenv) : cenv :=
  match fst e with
  | (decl, bs) :: r => ((decl, (x, v) :: bs) :: r, snd e)
  | [] => e
  end.
Definition c_push (ns : list text) (e : cenv) : cenv := ((ns, []) :: fst e, snd e).
Definition c_pop (e : cenv) : cenv := (tl (fst e), snd e).

(* functions in the namespace: _tt_utf8(F(bytes)) *)
Definition c_callfn (f : text) (b : list N) : xres (list N) :=
  if is_nil f then XOk b                                              (* "(_tt_tmp)" *)
  else if op_in f ["xhtml_escape"; "escape"]%string then
    match utf8_decode b with
    | None => XErr XDecode
    | Some s => enc (html_escape s)
    end
  else if teqb f (s2l "wrap") then XOk (60 :: b ++ [62])              (* b"<" + x + b">" *)
  else if teqb f (s2l "rev") then XOk (rev b)
  else if teqb f (s2l "tostr") then enc b                             (* x.decode("latin-1") *)
  else XErr XName.
