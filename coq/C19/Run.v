(* C19 — executable entry points for the correspondence check. *)
From Coq Require Import List NArith ZArith Arith Bool String.
Import ListNotations.
From TV Require Import Lib.Obs Lib.C21_Utf8 C19.Model C19.Codegen C19.Sem C19.Spec C19.Pool.
Local Open Scope N_scope.

(* (use_loader, loader autoescape, loader whitespace, files),
   (root name, root source, Template(autoescape=...) if given, Template(whitespace=...) if given),
   keyword arguments of generate() *)
Definition case : Type :=
  ((bool * option text * option text * list (text * text))
   * (text * text * option (option text) * option text)
   * list (text * value))%type.

Definition GEN_FUEL : nat := 400.
Definition LOAD_DEPTH : nat := 6.
Definition RUN_FUEL : nat := 60.

Definition pek_name (k : pek) : string :=
  match k with
  | MissingEnd => "MissingEnd" | MissingEndComment => "MissingEndComment"
  | MissingEndExpr => "MissingEndExpr" | EmptyExpr => "EmptyExpr"
  | MissingEndBlock => "MissingEndBlock" | EmptyBlock => "EmptyBlock"
  | InterOutside => "InterOutside" | InterBadParent => "InterBadParent" | ExtraEnd => "ExtraEnd"
  | ExtendsMissing => "ExtendsMissing" | ImportMissing => "ImportMissing"
  | IncludeMissing => "IncludeMissing" | SetMissing => "SetMissing" | ApplyMissing => "ApplyMissing"
  | BlockMissing => "BlockMissing" | BreakOutside => "BreakOutside" | UnknownOp => "UnknownOp"
  end.

Definition gerr_obs (e : gerr) : obs :=
  match e with
  | GParse (PE k line _) => OList [OTag "ParseError"; OTag (pek_name k); OInt (Z.of_nat line)]
  | GParse PBadWs => OTag "BadWhitespace"
  | GParse PFuel => OTag "Fuel"
  | GNoLoader => OList [OTag "ParseError"; OTag "NoLoader"; OInt 0]
  | GKeyError => OTag "KeyError"
  | GNotImpl => OTag "NotImplementedError"
  | GAssert => OTag "AssertionError"
  | GNoBlock => OTag "NoBlock"
  | GEncode => OTag "UnicodeEncodeError"
  | GSyntax => OTag "SyntaxError"
  | GUnsupported => OTag "Unsupported"
  | GFuel => OTag "Fuel"
  end.

Definition exn_name (x : exn) : string :=
  match x with
  | XName => "NameError" | XType => "TypeError" | XValue => "ValueError"
  | XEncode => "UnicodeEncodeError" | XDecode => "UnicodeDecodeError"
  end.
Definition out_obs (o : outcome) : obs :=
  match o with
  | OutFuel => OTag "Fuel"
  | OutStuck => OTag "Stuck"
  | OutBytes b => OBytes b
  | OutExn x => OList [OTag "raise"; OTag (exn_name x)]
  end.

Definition cline_obs (c : cline) : obs :=
  OList [OInt (Z.of_nat (c_ind c)); OBytes (render (c_line c)); OBytes (c_name c); OInt (Z.of_nat (c_no c));
         OList (map (fun p => OList [OBytes (fst p); OInt (Z.of_nat (snd p))]) (c_via c))].

Definition default_ae : option text := Some (s2l "xhtml_escape").

Definition the_loader (c : case) : loadfn :=
  let '((use, lae, lws, files), _, _) := c in
  if use then Some (loadf LOAD_DEPTH GEN_FUEL (mkL lae lws) files) else None.

Definition root_template (c : case) : gres tmpl :=
  let '((use, lae, lws, files), (name, src, rae, rws), _) := c in
  let ws := match rws with
            | Some w => w
            | None => if use then ws_for (mkL lae lws) name else default_ws name
            end in
  let ae := match rae with
            | Some a => a
            | None => if use then lae else default_ae
            end in
  of_pres (parse_file ws ae name src).

Definition genv_of (c : case) : cenv := ([], snd c).

Definition run_case (c : case) : obs :=
  match gbind (root_template c) (construct GEN_FUEL (the_loader c)) with
  | GErr e => gerr_obs e
  | GOk co =>
      OList [OTag "ok"; OList (map cline_obs (co_code co));
             out_obs (run_prog cenv c_lookup c_assign c_push c_pop c_callfn RUN_FUEL (co_prog co) (genv_of c))]
  end.

(* the specification applied to the implementation's observable: when the
   implementation produced output (or a run-time exception), it must be what the
   direct interpreter of the resolved template gives; construction errors must be
   the ones the model of Template(...) reports (kind and line). *)
Definition spec_out (c : case) : option obs :=
  match gbind (root_template c) (resolve_template GEN_FUEL (the_loader c)) with
  | GErr _ => None
  | GOk rs => Some (out_obs (run_template cenv c_lookup c_assign c_push c_pop c_callfn RUN_FUEL rs (genv_of c)))
  end.

Definition check_case (c : case) (o : obs) : bool :=
  match o with
  | OList [OTag "ok"; _; out] =>
      match spec_out c with Some s => obs_eqb out s | None => false end
  | _ => obs_eqb o (run_case c)
  end.
