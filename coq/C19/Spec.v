(* C19/C20 — the specification side: the resolved template tree (inheritance,
   blocks and includes substituted; every expression tag annotated with the
   escaping function of the FILE that contains it, passed down lexically) and the
   direct interpreter of the template language on it.  Definitions only. *)
From Coq Require Import List NArith Arith Bool String.
Import ListNotations.
From TV Require Import Lib.Obs Lib.C21_Utf8 C19.Model C19.Codegen C19.Sem.
Local Open Scope N_scope.

Inductive rnode :=
| RText (b : list N)                       (* literal bytes (whitespace-filtered, UTF-8) *)
| RExpr (e : text) (esc : option text)     (* expression tag; esc = escaping function applied *)
| RSimple (s : sstmt)
| RComp (h : hdr) (body : list rnode) (cls : list (hdr * list rnode))
| RApply (m : text) (body : list rnode).

Definition of_cres {A} (r : cres A) : gres A :=
  match r with COk a => GOk a | CSyntax => GErr GSyntax | CUnsup => GErr GUnsupported end.

(* ---------- step 1: substitution of inheritance, blocks and includes.  The
   result keeps the tag texts verbatim. [ae] is the autoescape setting of the FILE
   whose chunks are being resolved: it is passed down lexically and replaced only
   when the walk enters another file's chunks (include, overriding block). ---------- *)
Inductive unode :=
| UText (b : list N)
| UExpr (e : text) (esc : option text)
| UStmt (s : text)
| UComp (s : text) (body : list unode) (cls : list (text * list unode))
| UApply (m : text) (body : list unode).

Definition useg := (list unode * list (text * list unode))%type.

(* Result: the chunks up to the first intermediate tag, and the clauses after. *)
Fixpoint uresolve (fuel : nat) (ld : loadfn) (nb : nbmap) (ae : option text) (ns : list node)
  : gres useg :=
  match fuel with
  | O => GErr GFuel
  | S f =>
      match ns with
      | [] => GOk ([], [])
      | n :: r =>
          let next (l : list unode) : gres useg :=
            gbind (uresolve f ld nb ae r) (fun '(seg, cls) => GOk (l ++ seg, cls)) in
          let whole (ae' : option text) (body : list node) (k : list unode -> gres useg) : gres useg :=
            gbind (uresolve f ld nb ae' body) (fun '(b, c) =>
              match c with [] => k b | _ :: _ => GErr GSyntax end) in
          match n with
          | NText v _ ws =>
              let v' := text_value ws v in
              if is_nil v' then next [] else gbind (encode_lit v') (fun b => next [UText b])
          | NExpr e _ raw => next [UExpr e (if raw then None else ae)]
          | NStmt s _ => next [UStmt s]
          | NInter s _ =>
              gbind (uresolve f ld nb ae r) (fun '(seg, cls) => GOk ([], (s, seg) :: cls))
          | NControl s _ body =>
              gbind (uresolve f ld nb ae body) (fun '(b, c) => next [UComp s b c])
          | NApply m _ body => whole ae body (fun b => next [UApply m b])
          | NBlock name _ _ =>
              match nb_find name nb with
              | None => GErr GNoBlock
              | Some (body, t) => whole (t_ae t) body next
              end
          | NExtends _ => GErr GNotImpl
          | NInclude name _ =>
              match ld with
              | None => GErr GAssert
              | Some load => gbind (load name) (fun t => whole (t_ae t) (t_body t) next)
              end
          end
      end
  end.

(* ---------- step 2: reading the tag texts (the pool's syntax) ---------- *)
Definition refine_hdr (primary : bool) (s : text) : cres hdr :=
  cbind (parse_hdr s) (fun h => if Bool.eqb (is_clause h) primary then CUnsup else COk h).

Fixpoint refine (u : unode) : cres (list rnode) :=
  let refine_list :=
    fix rl (us : list unode) : cres (list rnode) :=
      match us with
      | [] => COk []
      | x :: r => cbind (rl r) (fun rs => cbind (refine x) (fun a => COk (a ++ rs)))
      end in
  match u with
  | UText b => COk [RText b]
  | UExpr e esc =>
      match esc with
      | Some f => if fn_ok f then need_ident e (COk [RExpr e esc]) else CUnsup
      | None => need_ident e (COk [RExpr e esc])
      end
  | UStmt s => cbind (parse_simple s) (fun x => COk [RSimple x])
  | UComp s body cls =>
      cbind ((fix rc (cs : list (text * list unode)) : cres (list (hdr * list rnode)) :=
                match cs with
                | [] => COk []
                | (s', b) :: r =>
                    cbind (rc r) (fun rcs =>
                    cbind (refine_list b) (fun rb =>
                    cbind (refine_hdr false s') (fun h' => COk ((h', rb) :: rcs))))
                end) cls) (fun rcs =>
      cbind (refine_list body) (fun rb =>
      cbind (refine_hdr true s) (fun h => COk [RComp h rb rcs])))
  | UApply m body =>
      cbind (refine_list body) (fun rb => if is_ident m then COk [RApply m rb] else CUnsup)
  end.

Fixpoint refine_list (us : list unode) : cres (list rnode) :=
  match us with
  | [] => COk []
  | x :: r => cbind (refine_list r) (fun rs => cbind (refine x) (fun a => COk (a ++ rs)))
  end.

Definition uresolve_top (fuel : nat) (ld : loadfn) (nb : nbmap) (root : tmpl) : gres (list unode) :=
  gbind (uresolve fuel ld nb (t_ae root) (t_body root)) (fun '(b, c) =>
    match c with [] => GOk b | _ :: _ => GErr GSyntax end).

(* Template -> substituted tree, following _generate_python's choice of root and blocks *)
Definition uresolve_template (fuel : nat) (ld : loadfn) (t : tmpl) : gres (list unode) :=
  gbind (ancestors fuel ld t) (fun ancs =>
  let ancs' := rev ancs in
  gbind (fnb_all fuel ld ancs' []) (fun nb =>
  match ancs' with
  | root :: _ => uresolve_top fuel ld nb root
  | [] => GErr GNoBlock
  end)).

Definition resolve_template (fuel : nat) (ld : loadfn) (t : tmpl) : gres (list rnode) :=
  gbind (uresolve_template fuel ld t) (fun us => of_cres (refine_list us)).

(* ---------- the lines the compiler should write for a substituted tree: a
   statement tree (apply functions numbered left to right, `pass` closing every
   suite) flattened with four spaces per level ---------- *)
Fixpoint utree (u : unode) (cnt : nat) {struct u} : list tree * nat :=
  let utree_list :=
    fix ul (us : list unode) (cnt : nat) : list tree * nat :=
      match us with
      | [] => ([], cnt)
      | x :: r => let '(a, c1) := utree x cnt in let '(b, c2) := ul r c1 in (a ++ b, c2)
      end in
  match u with
  | UText b => ([TLine (LAppLit b)], cnt)
  | UExpr e esc =>
      ([TLine (LTmp e); TLine LConv; TLine LConvElse]
         ++ match esc with Some f => [TLine (LEsc f)] | None => [] end ++ [TLine LAppTmp], cnt)
  | UStmt s => ([TLine (LStmt s)], cnt)
  | UComp s body cls =>
      let '(tb, c1) := utree_list body cnt in
      let '(tc, c2) :=
        (fix uc (cs : list (text * list unode)) (cnt : nat) : list tree * nat :=
           match cs with
           | [] => ([], cnt)
           | (s', b) :: r =>
               let '(t1, d1) := utree_list b cnt in
               let '(t2, d2) := uc r d1 in
               (TComp (LHeader s') (t1 ++ [TLine LPass]) :: t2, d2)
           end) cls c1 in
      (TComp (LHeader s) (tb ++ [TLine LPass]) :: tc, c2)
  | UApply m body =>
      let name := apply_name cnt in
      let '(tb, c1) := utree_list body (S cnt) in
      ([TComp (LDef name) (TLine LBufInit :: TLine LAppInit :: tb ++ [TLine LReturn]);
        TLine (LApplyCall m name)], c1)
  end.

Fixpoint utree_list (us : list unode) (cnt : nat) : list tree * nat :=
  match us with
  | [] => ([], cnt)
  | x :: r => let '(a, c1) := utree x cnt in let '(b, c2) := utree_list r c1 in (a ++ b, c2)
  end.
Fixpoint utree_cls (cs : list (text * list unode)) (cnt : nat) : list tree * nat :=
  match cs with
  | [] => ([], cnt)
  | (s', b) :: r =>
      let '(t1, d1) := utree_list b cnt in
      let '(t2, d2) := utree_cls r d1 in
      (TComp (LHeader s') (t1 ++ [TLine LPass]) :: t2, d2)
  end.

Fixpoint flat (k : nat) (t : tree) : list (nat * pline) :=
  match t with
  | TLine l => [(k, l)]
  | TComp h body => (k, h) :: flat_map (flat (S k)) body
  end.
Definition flat_list (k : nat) (ts : list tree) : list (nat * pline) := flat_map (flat k) ts.

Definition file_tree (us : list unode) : tree :=
  TComp (LDef execute_name)
    (TLine LBufInit :: TLine LAppInit :: fst (utree_list us 0) ++ [TLine LReturn]).
Definition emit_file (us : list unode) : list (nat * pline) := flat 0 (file_tree us).

(* ---------- what the compiler should emit for a resolved tree ---------- *)
Fixpoint ir_of (r : rnode) : list pstmt :=
  match r with
  | RText b => [PLit b]
  | RExpr e esc => [PTmp e; PConv] ++ match esc with Some f => [PEsc f] | None => [] end ++ [PAppTmp]
  | RSimple s => [PSimple s]
  | RComp h body cls =>
      [PComp h (flat_map ir_of body ++ [PPass])
         ((fix go (cs : list (hdr * list rnode)) : list (hdr * list pstmt) :=
             match cs with
             | [] => []
             | (h', b) :: r => (h', flat_map ir_of b ++ [PPass]) :: go r
             end) cls)]
  | RApply m body => [PApply m (flat_map ir_of body)]
  end.
Definition ir_list (rs : list rnode) : list pstmt := flat_map ir_of rs.

Fixpoint rlocals (r : rnode) : list text :=
  match r with
  | RSimple (SAssign x _) => [x]
  | RComp h body cls =>
      match h with HFor x _ => [x] | _ => [] end
      ++ flat_map rlocals body
      ++ (fix go (cs : list (hdr * list rnode)) : list text :=
            match cs with [] => [] | (_, b) :: r => flat_map rlocals b ++ go r end) cls
  | _ => []
  end.

Section Interp.
  Variable env : Type.
  Variable lookup : text -> env -> xres value.
  Variable assign : text -> value -> env -> env.
  Variable push : list text -> env -> env.
  Variable pop : env -> env.
  Variable callfn : text -> list N -> xres (list N).

  Definition istate := (env * list N)%type.          (* variables, output so far *)
  Definition irr := rr istate.

  Definition i_app (b : list N) (st : istate) : istate := (fst st, snd st ++ b).
  Definition i_bind (x : text) (v : value) (st : istate) : istate := (assign x v (fst st), snd st).
  Definition i_cond (e : text) (st : istate) (k : bool -> irr) : irr :=
    match lookup e (fst st) with XOk v => k (truthy v) | XErr x => RDone (SRaise x) st end.

  (* what an expression tag contributes: the value as UTF-8, escaped if required *)
  Definition contribution (esc : option text) (v : value) : xres (list N) :=
    match to_utf8 v with
    | XErr x => XErr x
    | XOk b => match esc with None => XOk b | Some f => callfn f b end
    end.

  Fixpoint interp (fuel : nat) : rnode -> istate -> irr :=
    match fuel with
    | O => fun _ _ => RFuelOut
    | S f =>
      fix go (s : rnode) (st : istate) {struct s} : irr :=
        match s with
        | RText b => RDone SNormal (i_app b st)
        | RExpr e esc =>
            match lookup e (fst st) with
            | XErr x => RDone (SRaise x) st
            | XOk v =>
                match contribution esc v with
                | XOk b => RDone SNormal (i_app b st)
                | XErr x => RDone (SRaise x) st
                end
            end
        | RSimple SBreak => RDone SBrk st
        | RSimple SContinue => RDone SCont st
        | RSimple (SAssign x e) =>
            match lookup e (fst st) with
            | XOk v => RDone SNormal (i_bind x v st)
            | XErr x' => RDone (SRaise x') st
            end
        | RApply m body =>
            match run_list _ _ go body (push (flat_map rlocals body) (fst st), []) with
            | RDone SNormal si =>
                let st' := (pop (fst si), snd st) in
                match callfn m (snd si) with
                | XOk b => RDone SNormal (i_app b st')
                | XErr x => RDone (SRaise x) st'
                end
            | RDone (SRaise x) si => RDone (SRaise x) (pop (fst si), snd st)
            | RDone _ _ => RStuck
            | other => other
            end
        | RComp h body cls =>
            match h with
            | HIf e => if_block _ _ go i_cond e body cls st
            | HWhile e => while_block _ _ go i_cond (interp f s) e body cls st
            | HFor x e =>
                match lookup e (fst st) with
                | XErr x' => RDone (SRaise x') st
                | XOk v =>
                    match iter_items v with
                    | XErr x' => RDone (SRaise x') st
                    | XOk items => for_loop _ (i_bind x) (run_list _ _ go body) (else_clause _ _ go cls) items st
                    end
                end
            | HTry => try_block _ _ go body cls st
            | _ => RStuck
            end
        end
    end.

  Definition interp_list (fuel : nat) : list rnode -> istate -> irr := run_list _ _ (interp fuel).

  Definition run_template (fuel : nat) (rs : list rnode) (genv : env) : outcome :=
    match interp_list fuel rs (push (flat_map rlocals rs) genv, []) with
    | RFuelOut => OutFuel
    | RStuck => OutStuck
    | RDone SNormal st => OutBytes (snd st)
    | RDone (SRaise x) _ => OutExn x
    | RDone _ _ => OutStuck
    end.
End Interp.
