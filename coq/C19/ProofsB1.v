(* C19 — compile(flatten(tree)) = the statement IR:  (1) reading indented lines
   back inverts flattening, (2) grouping the statement tree of a substituted
   template yields ir_list of its refinement. *)
From Coq Require Import List NArith Arith Bool String Lia.
Import ListNotations.
From TV Require Import Lib.Obs Lib.C21_Utf8 C19.Model C19.Codegen C19.Sem C19.Spec C19.ProofsA.
Local Open Scope N_scope.

(* ================= blocks inverts flat ================= *)
Fixpoint tree_ok (t : tree) : bool :=
  match t with
  | TLine l => negb (is_header l)
  | TComp h body => is_header h && negb (is_nil body) && forallb tree_ok body
  end.

Definition rest_ok (k : nat) (rest : list (nat * pline)) : Prop :=
  match rest with [] => True | (i, _) :: _ => (i < k)%nat end.

Lemma flat_head k t : exists l tl, flat k t = (k, l) :: tl.
Proof. destruct t; simpl; eauto. Qed.

Lemma flat_list_cons k t ts : flat_list k (t :: ts) = flat k t ++ flat_list k ts.
Proof. reflexivity. Qed.
Lemma flat_list_app k a b : flat_list k (a ++ b) = flat_list k a ++ flat_list k b.
Proof. unfold flat_list. apply flat_map_app'. Qed.

Lemma blocks_flat : forall fuel k ts rest,
  (List.length (flat_list k ts) + List.length rest < fuel)%nat ->
  forallb tree_ok ts = true -> rest_ok k rest ->
  blocks fuel k (flat_list k ts ++ rest) = Some (ts, rest).
Proof.
  induction fuel as [|f IH]; intros k ts rest Hlen Hok Hrest; [lia|].
  destruct ts as [|t sibs].
  - simpl. destruct rest as [|[i l] r]; [reflexivity|].
    simpl in Hrest. apply Nat.ltb_lt in Hrest. rewrite Hrest. reflexivity.
  - simpl in Hok. apply andb_true_iff in Hok as [Ht Hs].
    rewrite flat_list_cons. rewrite <- app_assoc.
    destruct t as [l|h body].
    + simpl. rewrite Nat.ltb_irrefl. simpl in Ht. apply negb_true_iff in Ht. rewrite Ht.
      rewrite IH; [reflexivity| |exact Hs|exact Hrest].
      rewrite flat_list_cons in Hlen. simpl in Hlen. lia.
    + simpl in Ht. apply andb_true_iff in Ht as [Ht Hb]. apply andb_true_iff in Ht as [Hh Hne].
      cbn [flat]. change (flat_map (flat (S k)) body) with (flat_list (S k) body).
      cbn [app]. cbn [blocks]. rewrite Nat.ltb_irrefl, Hh.
      rewrite flat_list_cons in Hlen. cbn [flat] in Hlen.
      change (flat_map (flat (S k)) body) with (flat_list (S k) body) in Hlen.
      simpl in Hlen. rewrite app_length in Hlen.
      rewrite (IH (S k) body (flat_list k sibs ++ rest)); [| |exact Hb|].
      * destruct body as [|b0 body']; [discriminate|].
        rewrite IH; [reflexivity| |exact Hs|exact Hrest]. lia.
      * rewrite app_length. lia.
      * destruct sibs as [|s0 sibs'].
        -- simpl. destruct rest as [|[i l] r]; [exact I|]. simpl in *. lia.
        -- rewrite flat_list_cons. destruct (flat_head k s0) as (l & tl & E). rewrite E. simpl. lia.
Qed.

(* ================= grouping ================= *)
Section UnodeInd.
  Variable P : unode -> Prop.
  Hypothesis Htext : forall b, P (UText b).
  Hypothesis Hexpr : forall e esc, P (UExpr e esc).
  Hypothesis Hstmt : forall s, P (UStmt s).
  Hypothesis Hcomp : forall s body cls,
      Forall P body -> Forall (fun c => Forall P (snd c)) cls -> P (UComp s body cls).
  Hypothesis Happly : forall m body, Forall P body -> P (UApply m body).

  Fixpoint unode_ind2 (r : unode) : P r :=
    match r with
    | UText b => Htext b
    | UExpr e esc => Hexpr e esc
    | UStmt s => Hstmt s
    | UComp h body cls =>
        Hcomp h body cls
          ((fix go (l : list unode) : Forall P l :=
              match l with [] => Forall_nil _ | x :: r => Forall_cons _ (unode_ind2 x) (go r) end) body)
          ((fix goc (cs : list (text * list unode)) : Forall (fun c => Forall P (snd c)) cs :=
              match cs with
              | [] => Forall_nil _
              | c :: r =>
                  Forall_cons _
                    ((fix go (l : list unode) : Forall P l :=
                        match l with [] => Forall_nil _ | x :: r => Forall_cons _ (unode_ind2 x) (go r) end) (snd c))
                    (goc r)
              end) cls)
    | UApply m body =>
        Happly m body
          ((fix go (l : list unode) : Forall P l :=
              match l with [] => Forall_nil _ | x :: r => Forall_cons _ (unode_ind2 x) (go r) end) body)
    end.
End UnodeInd.

(* operator words: what _parse guarantees about control and intermediate tags *)
Definition ctl_op (s : text) : bool := op_in (fst (partition_sp s)) ["if"; "for"; "while"; "try"]%string.
Definition inter_op (s : text) : bool := op_in (fst (partition_sp s)) ["else"; "elif"; "except"; "finally"]%string.

Fixpoint wf_u (u : unode) : bool :=
  match u with
  | UComp s body cls =>
      ctl_op s && forallb wf_u body
      && (fix go (cs : list (text * list unode)) : bool :=
            match cs with [] => true | (s', b) :: r => inter_op s' && forallb wf_u b && go r end) cls
  | UApply _ body => forallb wf_u body
  | _ => true
  end.
Fixpoint wf_ucls (cs : list (text * list unode)) : bool :=
  match cs with [] => true | (s', b) :: r => inter_op s' && forallb wf_u b && wf_ucls r end.
Lemma wf_u_comp s body cls :
  wf_u (UComp s body cls) = ctl_op s && forallb wf_u body && wf_ucls cls.
Proof. reflexivity. Qed.

Fixpoint refine_cls (cs : list (text * list unode)) : cres (list (hdr * list rnode)) :=
  match cs with
  | [] => COk []
  | (s', b) :: r =>
      cbind (refine_cls r) (fun rcs =>
      cbind (refine_list b) (fun rb =>
      cbind (refine_hdr false s') (fun h' => COk ((h', rb) :: rcs))))
  end.
Lemma refine_comp s body cls :
  refine (UComp s body cls) =
  cbind (refine_cls cls) (fun rcs =>
  cbind (refine_list body) (fun rb =>
  cbind (refine_hdr true s) (fun h => COk [RComp h rb rcs]))).
Proof. reflexivity. Qed.
Lemma refine_apply m body :
  refine (UApply m body) =
  cbind (refine_list body) (fun rb => if is_ident m then COk [RApply m rb] else CUnsup).
Proof. reflexivity. Qed.

Lemma utree_comp s body cls cnt :
  utree (UComp s body cls) cnt =
  let '(tb, c1) := utree_list body cnt in
  let '(tc, c2) := utree_cls cls c1 in
  (TComp (LHeader s) (tb ++ [TLine LPass]) :: tc, c2).
Proof. reflexivity. Qed.
Lemma utree_apply m body cnt :
  utree (UApply m body) cnt =
  let name := apply_name cnt in
  let '(tb, c1) := utree_list body (S cnt) in
  ([TComp (LDef name) (TLine LBufInit :: TLine LAppInit :: tb ++ [TLine LReturn]);
    TLine (LApplyCall m name)], c1).
Proof. reflexivity. Qed.

Fixpoint fold_group (ts : list tree) (a : gacc) : cres gacc :=
  match ts with
  | [] => COk a
  | x :: r => cbind (fold_group r a) (group_tree x)
  end.
Lemma group_list_fold ts : group_list ts = fold_group ts g_empty.
Proof. induction ts as [|x r IH]; simpl; [reflexivity|]. rewrite IH. reflexivity. Qed.
Lemma fold_group_app a b acc :
  fold_group (a ++ b) acc = cbind (fold_group b acc) (fold_group a).
Proof.
  induction a as [|x r IH]; simpl.
  - destruct (fold_group b acc); reflexivity.
  - rewrite IH. destruct (fold_group b acc); reflexivity.
Qed.
Lemma fn_body_ret tb : fn_body (tb ++ [TLine LReturn]) = fold_group tb g_empty.
Proof.
  induction tb as [|x r IH]; [reflexivity|].
  change ((x :: r) ++ [TLine LReturn]) with (x :: (r ++ [TLine LReturn])).
  cbn [fold_group]. rewrite <- IH.
  destruct r as [|y r']; simpl; [|destruct x as [[]|]; reflexivity].
  destruct x as [[]|]; reflexivity.
Qed.

Definition closed (a : gacc) : Prop := g_else a = false /\ g_call a = None /\ g_cl a = [].

Lemma gt_comp s body a : g_else a = false -> g_call a = None ->
  group_tree (TComp (LHeader s) body) a =
  cbind (parse_hdr s) (fun h =>
  cbind (g_finish (group_list body)) (fun b =>
    if is_clause h then COk (mkG false None ((h, b) :: g_cl a) (g_out a))
    else COk (mkG false None [] (PComp h b (g_cl a) :: g_out a)))).
Proof. intros H1 H2. simpl. rewrite H1, H2. reflexivity. Qed.

Lemma teqb_refl s : teqb s s = true.
Proof. unfold teqb. induction s as [|c r IH]; simpl; [reflexivity|]. rewrite N.eqb_refl. exact IH. Qed.

Lemma teqb_eq a b : teqb a b = true -> a = b.
Proof. apply list_eqb_sound. intros x y H. apply N.eqb_eq. exact H. Qed.

Lemma op_in_cons op s l : op_in op (s :: l) = teqb op (s2l s) || op_in op l.
Proof. reflexivity. Qed.

Lemma ctl_op_primary s h : ctl_op s = true -> parse_hdr s = COk h -> is_clause h = false.
Proof.
  unfold ctl_op, parse_hdr. destruct (partition_sp s) as [op rest0]. cbn [fst].
  intros Hop. rewrite !op_in_cons in Hop. cbn [op_in existsb] in Hop.
  unfold need_ident.
  destruct (teqb op (s2l "if")) eqn:E1.
  { destruct (is_nil (strip rest0)); [discriminate|]. destruct (is_ident (strip rest0)); [|discriminate].
    intros H; inversion H; reflexivity. }
  destruct (teqb op (s2l "elif")) eqn:E2.
  { apply teqb_eq in E2. subst op. discriminate. }
  destruct (teqb op (s2l "while")) eqn:E3.
  { destruct (is_nil (strip rest0)); [discriminate|]. destruct (is_ident (strip rest0)); [|discriminate].
    intros H; inversion H; reflexivity. }
  destruct (teqb op (s2l "else")) eqn:E4.
  { apply teqb_eq in E4. subst op. discriminate. }
  destruct (teqb op (s2l "try")) eqn:E5.
  { destruct (is_nil (strip rest0)); [|discriminate]. intros H; inversion H; reflexivity. }
  destruct (teqb op (s2l "finally")) eqn:E6.
  { apply teqb_eq in E6. subst op. discriminate. }
  destruct (teqb op (s2l "except")) eqn:E7.
  { apply teqb_eq in E7. subst op. discriminate. }
  destruct (teqb op (s2l "for")) eqn:E8; [|discriminate].
  destruct (is_nil (strip rest0)); [discriminate|].
  destruct (partition_sp (strip rest0)) as [x r1]. destruct (partition_sp (strip r1)) as [kw r2].
  destruct (is_ident x && teqb kw (s2l "in") && is_ident (strip r2)); [|discriminate].
  intros H; inversion H; reflexivity.
Qed.

Lemma inter_op_clause s h : inter_op s = true -> parse_hdr s = COk h -> is_clause h = true.
Proof.
  unfold inter_op, parse_hdr. destruct (partition_sp s) as [op rest0]. cbn [fst].
  intros Hop. rewrite !op_in_cons in Hop. cbn [op_in existsb] in Hop.
  unfold need_ident.
  destruct (teqb op (s2l "if")) eqn:E1.
  { apply teqb_eq in E1. subst op. discriminate. }
  destruct (teqb op (s2l "elif")) eqn:E2.
  { destruct (is_nil (strip rest0)); [discriminate|]. destruct (is_ident (strip rest0)); [|discriminate].
    intros H; inversion H; reflexivity. }
  destruct (teqb op (s2l "while")) eqn:E3.
  { apply teqb_eq in E3. subst op. discriminate. }
  destruct (teqb op (s2l "else")) eqn:E4.
  { destruct (is_nil (strip rest0)); [|discriminate]. intros H; inversion H; reflexivity. }
  destruct (teqb op (s2l "try")) eqn:E5.
  { apply teqb_eq in E5. subst op. discriminate. }
  destruct (teqb op (s2l "finally")) eqn:E6.
  { destruct (is_nil (strip rest0)); [|discriminate]. intros H; inversion H; reflexivity. }
  destruct (teqb op (s2l "except")) eqn:E7.
  { destruct (is_nil (strip rest0)); [intros H; inversion H; reflexivity|].
    destruct (op_in (strip rest0) exn_classes); [|discriminate]. intros H; inversion H; reflexivity. }
  destruct (teqb op (s2l "for")) eqn:E8; [|discriminate].
  apply teqb_eq in E8. subst op. discriminate.
Qed.

Definition GP (u : unode) : Prop :=
  forall cnt a a', wf_u u = true -> closed a ->
    fold_group (fst (utree u cnt)) a = COk a' ->
    exists rs, refine u = COk rs /\ closed a' /\ g_out a' = flat_map ir_of rs ++ g_out a.

Lemma cbind_ok {A B} (r : cres A) (f : A -> cres B) b :
  cbind r f = COk b -> exists a, r = COk a /\ f a = COk b.
Proof. destruct r; simpl; try discriminate. eauto. Qed.

Lemma utree_list_cons x r cnt :
  utree_list (x :: r) cnt =
  let '(a, c1) := utree x cnt in let '(b, c2) := utree_list r c1 in (a ++ b, c2).
Proof. reflexivity. Qed.

Lemma group_ulist us : Forall GP us ->
  forall cnt a a', forallb wf_u us = true -> closed a ->
    fold_group (fst (utree_list us cnt)) a = COk a' ->
    exists rs, refine_list us = COk rs /\ closed a' /\ g_out a' = flat_map ir_of rs ++ g_out a.
Proof.
  induction 1 as [|x r Hx _ IH]; intros cnt a a' Hwf Hc Hf.
  - simpl in Hf. inversion Hf; subst. exists []. auto.
  - simpl in Hwf. apply andb_true_iff in Hwf as [Hwx Hwr].
    rewrite utree_list_cons in Hf.
    destruct (utree x cnt) as [t1 c1] eqn:E1. destruct (utree_list r c1) as [t2 c2] eqn:E2.
    cbn [fst] in Hf. rewrite fold_group_app in Hf.
    apply cbind_ok in Hf as (a2 & Hf2 & Hf1).
    destruct (IH c1 a a2 Hwr Hc) as (rs2 & R2 & C2 & O2); [rewrite E2; exact Hf2|].
    destruct (Hx cnt a2 a' Hwx C2) as (rs1 & R1 & C1 & O1); [rewrite E1; exact Hf1|].
    exists (rs1 ++ rs2). split; [|split; [exact C1|]].
    + simpl. rewrite R2. simpl. rewrite R1. reflexivity.
    + rewrite O1, O2, flat_map_app', app_assoc. reflexivity.
Qed.

(* a suite: statements followed by `pass` *)
Lemma group_suite us : Forall GP us -> forall cnt p, forallb wf_u us = true ->
  g_finish (group_list (fst (utree_list us cnt) ++ [TLine LPass])) = COk p ->
  exists rs, refine_list us = COk rs /\ p = flat_map ir_of rs ++ [PPass].
Proof.
  intros H cnt p Hwf Hg. rewrite group_list_fold, fold_group_app in Hg.
  simpl in Hg.
  destruct (fold_group (fst (utree_list us cnt)) (g_push PPass g_empty)) as [a'| |] eqn:E; try discriminate.
  destruct (group_ulist us H cnt (g_push PPass g_empty) a' Hwf) as (rs & R & (C1 & C2 & C3) & O);
    [repeat split|exact E|].
  exists rs. split; [exact R|].
  unfold g_finish in Hg. simpl in Hg. rewrite C1, C3, C2 in Hg. inversion Hg. rewrite O. reflexivity.
Qed.

Lemma group_ucls cls : Forall (fun c => Forall GP (snd c)) cls ->
  forall cnt a a1, wf_ucls cls = true -> closed a ->
    fold_group (fst (utree_cls cls cnt)) a = COk a1 ->
    exists rcs, refine_cls cls = COk rcs /\ g_else a1 = false /\ g_call a1 = None
                /\ g_cl a1 = ir_cls rcs /\ g_out a1 = g_out a.
Proof.
  induction 1 as [|[s' b] r Hb _ IH]; intros cnt a a1 Hwf Hc Hf.
  - simpl in Hf. inversion Hf; subst. destruct Hc as (C1 & C2 & C3). exists []. simpl. auto.
  - simpl in Hwf. apply andb_true_iff in Hwf as [Hw Hwr]. apply andb_true_iff in Hw as [Hop Hwb].
    cbn [utree_cls] in Hf.
    destruct (utree_list b cnt) as [t1 d1] eqn:E1. destruct (utree_cls r d1) as [t2 d2] eqn:E2.
    cbn [fst fold_group] in Hf. apply cbind_ok in Hf as (a2 & Hf2 & Hf1).
    destruct (IH d1 a a2 Hwr Hc) as (rcs & R & G1 & G2 & G3 & G4); [rewrite E2; exact Hf2|].
    rewrite (gt_comp _ _ _ G1 G2) in Hf1.
    apply cbind_ok in Hf1 as (h' & Hh & Hf1). apply cbind_ok in Hf1 as (pb & Hpb & Hf1).
    rewrite (inter_op_clause _ _ Hop Hh) in Hf1. inversion Hf1; subst a1; clear Hf1.
    simpl in Hb.
    destruct (group_suite b Hb cnt pb Hwb) as (rb & Rb & Pb); [rewrite E1; exact Hpb|].
    exists ((h', rb) :: rcs). simpl. rewrite R. simpl. rewrite Rb. simpl.
    unfold refine_hdr. rewrite Hh. simpl. rewrite (inter_op_clause _ _ Hop Hh). simpl.
    repeat split; auto. rewrite G3, Pb. reflexivity.
Qed.

Theorem group_unode : forall u, GP u.
Proof.
  induction u as [b|e esc|s|s body cls IHb IHc|m body IHb] using unode_ind2;
    intros cnt a a' Hwf (C1 & C2 & C3) Hf; destruct a as [ge gc gcl go]; simpl in C1, C2, C3; subst.
  - simpl in Hf. inversion Hf; subst. exists [RText b]. repeat split.
  - destruct esc as [fn|]; simpl in Hf.
    + destruct (fn_ok fn) eqn:Efn; [|discriminate]. simpl in Hf.
      unfold need_ident in *. destruct (is_nil e) eqn:En; [discriminate|].
      destruct (is_ident e) eqn:Ei; [|discriminate]. inversion Hf; subst.
      exists [RExpr e (Some fn)]. simpl. rewrite Efn. unfold need_ident. rewrite En, Ei. repeat split.
    + unfold need_ident in *. destruct (is_nil e) eqn:En; [discriminate|].
      destruct (is_ident e) eqn:Ei; [|discriminate]. inversion Hf; subst.
      exists [RExpr e None]. simpl. unfold need_ident. rewrite En, Ei. repeat split.
  - simpl in Hf. destruct (parse_simple s) as [x| |] eqn:E; try discriminate. inversion Hf; subst.
    exists [RSimple x]. simpl. rewrite E. repeat split.
  - rewrite wf_u_comp in Hwf. apply andb_true_iff in Hwf as [Hw Hwc]. apply andb_true_iff in Hw as [Hop Hwb].
    rewrite utree_comp in Hf.
    destruct (utree_list body cnt) as [tb c1] eqn:E1. destruct (utree_cls cls c1) as [tc c2] eqn:E2.
    cbn [fst fold_group] in Hf. apply cbind_ok in Hf as (a1 & Hf2 & Hf1).
    destruct (group_ucls cls IHc c1 (mkG false None [] go) a1 Hwc) as (rcs & R & G1 & G2 & G3 & G4);
      [repeat split|rewrite E2; exact Hf2|].
    rewrite (gt_comp _ _ _ G1 G2) in Hf1.
    apply cbind_ok in Hf1 as (h & Hh & Hf1). apply cbind_ok in Hf1 as (pb & Hpb & Hf1).
    rewrite (ctl_op_primary _ _ Hop Hh) in Hf1. inversion Hf1; subst a'; clear Hf1.
    destruct (group_suite body IHb cnt pb Hwb) as (rb & Rb & Pb); [rewrite E1; exact Hpb|].
    exists [RComp h rb rcs]. rewrite refine_comp, R. simpl. rewrite Rb. simpl.
    unfold refine_hdr. rewrite Hh. simpl. rewrite (ctl_op_primary _ _ Hop Hh). simpl.
    repeat split. rewrite G3, G4, Pb. reflexivity.
  - rewrite utree_apply in Hf. cbn zeta in Hf.
    destruct (utree_list body (S cnt)) as [tb c1] eqn:E1.
    cbn [fst fold_group] in Hf. simpl in Hf. rewrite teqb_refl in Hf. simpl in Hf.
    destruct (is_ident m) eqn:Em; [|discriminate].
    rewrite fn_body_ret in Hf.
    destruct (g_finish (fold_group tb g_empty)) as [pb| |] eqn:Eg; try discriminate.
    simpl in Hf. inversion Hf; subst a'; clear Hf.
    simpl in Hwf.
    unfold g_finish in Eg. apply cbind_ok in Eg as (ab & Eb & Eg).
    destruct (group_ulist body IHb (S cnt) g_empty ab Hwf) as (rb & Rb & (D1 & D2 & D3) & Ob);
      [repeat split|rewrite E1; exact Eb|].
    rewrite D1, D3, D2 in Eg. inversion Eg; subst pb.
    exists [RApply m rb]. rewrite refine_apply, Rb. simpl. rewrite Em.
    repeat split. simpl. rewrite Ob. simpl. rewrite app_nil_r. reflexivity.
Qed.
