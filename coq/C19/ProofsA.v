(* C19 — refinement: executing the statement IR that the compiler should emit
   for a resolved template (ir_of) is the direct interpretation of the template. *)
From Coq Require Import List NArith Arith Bool String Lia.
Import ListNotations.
From TV Require Import Lib.Obs Lib.C21_Utf8 C19.Model C19.Codegen C19.Sem C19.Spec.
Local Open Scope N_scope.

(* ---------- induction principle for the nested type ---------- *)
Section RnodeInd.
  Variable P : rnode -> Prop.
  Hypothesis Htext : forall b, P (RText b).
  Hypothesis Hexpr : forall e esc, P (RExpr e esc).
  Hypothesis Hsimple : forall s, P (RSimple s).
  Hypothesis Hcomp : forall h body cls,
      Forall P body -> Forall (fun c => Forall P (snd c)) cls -> P (RComp h body cls).
  Hypothesis Happly : forall m body, Forall P body -> P (RApply m body).

  Fixpoint rnode_ind2 (r : rnode) : P r :=
    match r with
    | RText b => Htext b
    | RExpr e esc => Hexpr e esc
    | RSimple s => Hsimple s
    | RComp h body cls =>
        Hcomp h body cls
          ((fix go (l : list rnode) : Forall P l :=
              match l with [] => Forall_nil _ | x :: r => Forall_cons _ (rnode_ind2 x) (go r) end) body)
          ((fix goc (cs : list (hdr * list rnode)) : Forall (fun c => Forall P (snd c)) cs :=
              match cs with
              | [] => Forall_nil _
              | c :: r =>
                  Forall_cons _
                    ((fix go (l : list rnode) : Forall P l :=
                        match l with [] => Forall_nil _ | x :: r => Forall_cons _ (rnode_ind2 x) (go r) end) (snd c))
                    (goc r)
              end) cls)
    | RApply m body =>
        Happly m body
          ((fix go (l : list rnode) : Forall P l :=
              match l with [] => Forall_nil _ | x :: r => Forall_cons _ (rnode_ind2 x) (go r) end) body)
    end.
End RnodeInd.

Fixpoint ir_cls (cs : list (hdr * list rnode)) : list (hdr * list pstmt) :=
  match cs with
  | [] => []
  | (h', b) :: r => (h', flat_map ir_of b ++ [PPass]) :: ir_cls r
  end.
Lemma ir_of_comp h body cls :
  ir_of (RComp h body cls) = [PComp h (flat_map ir_of body ++ [PPass]) (ir_cls cls)].
Proof. reflexivity. Qed.

Fixpoint rlocals_cls (cs : list (hdr * list rnode)) : list text :=
  match cs with [] => [] | (_, b) :: r => flat_map rlocals b ++ rlocals_cls r end.
Fixpoint plocals_cls (cs : list (hdr * list pstmt)) : list text :=
  match cs with [] => [] | (_, b) :: r => flat_map plocals b ++ plocals_cls r end.

Lemma flat_map_app' {A B} (f : A -> list B) l1 l2 :
  flat_map f (l1 ++ l2) = flat_map f l1 ++ flat_map f l2.
Proof. induction l1; simpl; [reflexivity|]. rewrite IHl1, app_assoc. reflexivity. Qed.

(* the function-local names are the same on both sides *)
Lemma locals_ir r : flat_map plocals (ir_of r) = rlocals r.
Proof.
  induction r as [b|e esc|s|h body cls IHb IHc|m body IHb] using rnode_ind2.
  - reflexivity.
  - destruct esc; reflexivity.
  - destruct s; reflexivity.
  - rewrite ir_of_comp. cbn [flat_map]. rewrite app_nil_r.
    change (plocals (PComp h (flat_map ir_of body ++ [PPass]) (ir_cls cls)))
      with (match h with HFor x _ => [x] | _ => [] end
            ++ flat_map plocals (flat_map ir_of body ++ [PPass]) ++ plocals_cls (ir_cls cls)).
    change (rlocals (RComp h body cls))
      with (match h with HFor x _ => [x] | _ => [] end ++ flat_map rlocals body ++ rlocals_cls cls).
    f_equal. f_equal.
    + rewrite flat_map_app'. simpl. rewrite app_nil_r.
      induction IHb as [|x l Hx _ IH]; simpl; [reflexivity|].
      rewrite flat_map_app', Hx, IH. reflexivity.
    + induction IHc as [|[h' b] l Hc _ IH]; simpl; [reflexivity|].
      rewrite IH. f_equal. rewrite flat_map_app'. simpl. rewrite app_nil_r.
      simpl in Hc. induction Hc as [|x l' Hx _ IH']; simpl; [reflexivity|].
      rewrite flat_map_app', Hx, IH'. reflexivity.
  - reflexivity.
Qed.

Lemma locals_ir_list rs : flat_map plocals (flat_map ir_of rs) = flat_map rlocals rs.
Proof.
  induction rs as [|x l IH]; simpl; [reflexivity|].
  rewrite flat_map_app', locals_ir, IH. reflexivity.
Qed.

(* ---------- generic facts about statement sequencing ---------- *)
Lemma run_list_app {Stmt St} (go : Stmt -> St -> rr St) a b st :
  run_list _ _ go (a ++ b) st =
  match run_list _ _ go a st with RDone SNormal st' => run_list _ _ go b st' | other => other end.
Proof.
  revert st; induction a as [|x a IH]; intros st; simpl; [reflexivity|].
  destruct (go x st) as [| |o st']; try reflexivity. destruct o; try reflexivity. apply IH.
Qed.

Lemma run_list_single {Stmt St} (go : Stmt -> St -> rr St) x st :
  run_list _ _ go [x] st = go x st.
Proof. simpl. destruct (go x st) as [| |o st']; try reflexivity. destruct o; reflexivity. Qed.

Section Refine.
  Variable env : Type.
  Variable lookup : text -> env -> xres value.
  Variable assign : text -> value -> env -> env.
  Variable push : list text -> env -> env.
  Variable pop : env -> env.
  Variable callfn : text -> list N -> xres (list N).

  Local Notation exec := (exec env lookup assign push pop callfn).
  Local Notation interp := (interp env lookup assign push pop callfn).
  Local Notation pst := (pstate env).
  Local Notation p_cond := (p_cond env lookup).
  Local Notation i_cond := (i_cond env lookup).

  (* forgetting the scratch variable _tt_tmp *)
  Definition proj (r : rr pst) : rr (istate env) :=
    match r with
    | RFuelOut => RFuelOut
    | RStuck => RStuck
    | RDone o st => RDone o (ps_env _ st, ps_buf _ st)
    end.

  Section Fixed.
    Variable G1 : pstmt -> pst -> rr pst.
    Variable G2 : rnode -> istate env -> rr (istate env).
    Hypothesis Gpass : forall st, G1 PPass st = RDone SNormal st.

    Definition HX (x : rnode) : Prop :=
      forall e t b, proj (run_list _ _ G1 (ir_of x) (mkPS _ e t b)) = G2 x (e, b).

    Lemma sim_list xs : Forall HX xs ->
      forall e t b, proj (run_list _ _ G1 (flat_map ir_of xs) (mkPS _ e t b)) = run_list _ _ G2 xs (e, b).
    Proof.
      induction 1 as [|x l Hx _ IH]; intros e t b; simpl; [reflexivity|].
      rewrite run_list_app. specialize (Hx e t b).
      destruct (run_list _ _ G1 (ir_of x) (mkPS _ e t b)) as [| |o [e' t' b']]; simpl in Hx; rewrite <- Hx;
        try reflexivity.
      destruct o; try reflexivity. apply IH.
    Qed.

    Lemma sim_body xs : Forall HX xs ->
      forall e t b, proj (run_list _ _ G1 (flat_map ir_of xs ++ [PPass]) (mkPS _ e t b)) = run_list _ _ G2 xs (e, b).
    Proof.
      intros H e t b. rewrite run_list_app. rewrite <- (sim_list xs H e t b).
      destruct (run_list _ _ G1 (flat_map ir_of xs) (mkPS _ e t b)) as [| |o st]; try reflexivity.
      destruct o; try reflexivity. simpl. rewrite Gpass. reflexivity.
    Qed.

    Definition HC (cls : list (hdr * list rnode)) : Prop := Forall (fun c => Forall HX (snd c)) cls.

    Lemma sim_else cls : HC cls -> forall e t b,
      proj (else_clause _ _ G1 (ir_cls cls) (mkPS _ e t b)) = else_clause _ _ G2 cls (e, b).
    Proof.
      induction 1 as [|[h bd] l Hc _ IH]; intros e t b; simpl; [reflexivity|].
      destruct h; try apply IH. apply sim_body. exact Hc.
    Qed.

    Lemma sim_cond ex e t b k1 k2 :
      (forall c, proj (k1 c) = k2 c) ->
      proj (p_cond ex (mkPS _ e t b) k1) = i_cond ex (e, b) k2.
    Proof.
      intros H. unfold Sem.p_cond, Spec.i_cond. simpl.
      destruct (lookup ex e); [apply H|reflexivity].
    Qed.

    Lemma sim_ifchain cls : HC cls -> forall e t b,
      proj (if_chain _ _ G1 p_cond (ir_cls cls) (mkPS _ e t b)) = if_chain _ _ G2 i_cond cls (e, b).
    Proof.
      induction 1 as [|[h bd] l Hc _ IH]; intros e t b; simpl; [reflexivity|].
      destruct h; try reflexivity.
      - apply sim_cond. intros [|]; [apply sim_body; exact Hc|apply IH].
      - apply sim_body. exact Hc.
    Qed.

    Lemma sim_handlers cls : HC cls -> forall x e t b,
      proj (handlers _ _ G1 x (mkPS _ e t b) (ir_cls cls)) = handlers _ _ G2 x (e, b) cls.
    Proof.
      induction 1 as [|[h bd] l Hc _ IH]; intros x e t b; simpl; [reflexivity|].
      destruct h; try apply IH. destruct (catches c x); [apply sim_body; exact Hc|apply IH].
    Qed.

    Lemma sim_finally cls : HC cls -> forall r1 r2, proj r1 = r2 ->
      proj (finally_clause _ _ G1 r1 (ir_cls cls)) = finally_clause _ _ G2 r2 cls.
    Proof.
      induction 1 as [|[h bd] l Hc _ IH]; intros r1 r2 Hr; simpl; [exact Hr|].
      destruct h; try (apply IH; exact Hr).
      subst r2. destruct r1 as [| |o [e t b]]; try reflexivity. simpl.
      rewrite <- (sim_body bd Hc e t b).
      destruct (run_list _ _ G1 (flat_map ir_of bd ++ [PPass]) (mkPS _ e t b)) as [| |o' st']; try reflexivity.
      destruct o'; reflexivity.
    Qed.

    Lemma sim_try body cls : Forall HX body -> HC cls -> forall e t b,
      proj (try_block _ _ G1 (flat_map ir_of body ++ [PPass]) (ir_cls cls) (mkPS _ e t b))
      = try_block _ _ G2 body cls (e, b).
    Proof.
      intros Hb Hc e t b. unfold try_block. apply sim_finally; [exact Hc|].
      rewrite <- (sim_body body Hb e t b).
      destruct (run_list _ _ G1 (flat_map ir_of body ++ [PPass]) (mkPS _ e t b)) as [| |o [e' t' b']];
        try reflexivity.
      destruct o; try reflexivity; simpl.
      - apply sim_else. exact Hc.
      - apply sim_handlers. exact Hc.
    Qed.

    Lemma sim_for x body cls : Forall HX body -> HC cls -> forall items e t b,
      proj (for_loop _ (ps_bind _ assign x) (run_list _ _ G1 (flat_map ir_of body ++ [PPass]))
              (else_clause _ _ G1 (ir_cls cls)) items (mkPS _ e t b))
      = for_loop _ (i_bind _ assign x) (run_list _ _ G2 body) (else_clause _ _ G2 cls) items (e, b).
    Proof.
      intros Hb Hc. induction items as [|it r IH]; intros e t b; simpl.
      - apply sim_else. exact Hc.
      - unfold ps_bind, i_bind. simpl. rewrite <- (sim_body body Hb (assign x it e) t b).
        destruct (run_list _ _ G1 (flat_map ir_of body ++ [PPass]) (mkPS _ (assign x it e) t b))
          as [| |o [e' t' b']]; try reflexivity.
        destruct o; try reflexivity; apply IH.
    Qed.

    Lemma sim_while (A1 : pst -> rr pst) (A2 : istate env -> rr (istate env)) ex body cls :
      (forall e t b, proj (A1 (mkPS _ e t b)) = A2 (e, b)) ->
      Forall HX body -> HC cls -> forall e t b,
      proj (while_block _ _ G1 p_cond A1 ex (flat_map ir_of body ++ [PPass]) (ir_cls cls) (mkPS _ e t b))
      = while_block _ _ G2 i_cond A2 ex body cls (e, b).
    Proof.
      intros HA Hb Hc e t b. unfold while_block. apply sim_cond. intros [|].
      - rewrite <- (sim_body body Hb e t b).
        destruct (run_list _ _ G1 (flat_map ir_of body ++ [PPass]) (mkPS _ e t b)) as [| |o [e' t' b']];
          try reflexivity.
        destruct o; try reflexivity; apply HA.
      - apply sim_else. exact Hc.
    Qed.

    Lemma sim_if ex body cls : Forall HX body -> HC cls -> forall e t b,
      proj (if_block _ _ G1 p_cond ex (flat_map ir_of body ++ [PPass]) (ir_cls cls) (mkPS _ e t b))
      = if_block _ _ G2 i_cond ex body cls (e, b).
    Proof.
      intros Hb Hc e t b. unfold if_block. apply sim_cond. intros [|].
      - apply sim_body. exact Hb.
      - apply sim_ifchain. exact Hc.
    Qed.
  End Fixed.

  Lemma ir_of_nonempty r : exists p l, ir_of r = p :: l.
  Proof. destruct r; simpl; eauto. Qed.

  Theorem exec_ir_refines_interp : forall fuel r e t b,
    proj (run_list _ _ (exec fuel) (ir_of r) (mkPS _ e t b)) = interp fuel r (e, b).
  Proof.
    induction fuel as [|f IHf].
    - intros r e t b. destruct (ir_of_nonempty r) as (p & l & E). rewrite E. reflexivity.
    - intros r. change (HX (exec (S f)) (interp (S f)) r).
      induction r as [bb|ex esc|s|h body cls IHb IHc|m body IHb] using rnode_ind2; intros e t b.
      + reflexivity.
      + simpl. unfold contribution. destruct (lookup ex e) as [v|x]; [|reflexivity]. simpl.
        destruct (to_utf8 v) as [bs|x]; [|reflexivity].
        destruct esc as [fn|]; simpl; [|reflexivity].
        destruct (callfn fn bs); reflexivity.
      + destruct s as [| |x ex]; try reflexivity. simpl. destruct (lookup ex e); reflexivity.
      + rewrite ir_of_comp, run_list_single.
        assert (Gp : forall st, exec (S f) PPass st = RDone SNormal st) by reflexivity.
        destruct h as [ex|ex| |x ex|ex| |c|]; try reflexivity.
        * apply (sim_if _ _ Gp); assumption.
        * change (proj (match lookup ex e with
                        | XErr x' => RDone (SRaise x') (mkPS _ e t b)
                        | XOk v => match iter_items v with
                                   | XErr x' => RDone (SRaise x') (mkPS _ e t b)
                                   | XOk items =>
                                       for_loop _ (ps_bind _ assign x)
                                         (run_list _ _ (exec (S f)) (flat_map ir_of body ++ [PPass]))
                                         (else_clause _ _ (exec (S f)) (ir_cls cls)) items (mkPS _ e t b)
                                   end
                        end)
                  = match lookup ex e with
                    | XErr x' => RDone (SRaise x') (e, b)
                    | XOk v => match iter_items v with
                               | XErr x' => RDone (SRaise x') (e, b)
                               | XOk items =>
                                   for_loop _ (i_bind _ assign x) (run_list _ _ (interp (S f)) body)
                                     (else_clause _ _ (interp (S f)) cls) items (e, b)
                               end
                    end).
          destruct (lookup ex e) as [v|]; [|reflexivity].
          destruct (iter_items v); [|reflexivity].
          apply (sim_for _ _ Gp); assumption.
        * change (proj (while_block _ _ (exec (S f)) p_cond
                          (exec f (PComp (HWhile ex) (flat_map ir_of body ++ [PPass]) (ir_cls cls)))
                          ex (flat_map ir_of body ++ [PPass]) (ir_cls cls) (mkPS _ e t b))
                  = while_block _ _ (interp (S f)) i_cond (interp f (RComp (HWhile ex) body cls))
                      ex body cls (e, b)).
          apply (sim_while _ _ Gp); try assumption.
          intros e' t' b'. rewrite <- (IHf _ e' t' b'). rewrite ir_of_comp, run_list_single. reflexivity.
        * apply (sim_try _ _ Gp); assumption.
      + cbn [ir_of]. rewrite run_list_single.
        change (proj (match run_list _ _ (exec (S f)) (flat_map ir_of body)
                              (mkPS _ (push (flat_map plocals (flat_map ir_of body)) e) None []) with
                      | RDone SNormal si =>
                          let st' := mkPS _ (pop (ps_env _ si)) t b in
                          match callfn m (ps_buf _ si) with
                          | XOk bs => RDone SNormal (ps_app _ bs st')
                          | XErr x => RDone (SRaise x) st'
                          end
                      | RDone (SRaise x) si => RDone (SRaise x) (mkPS _ (pop (ps_env _ si)) t b)
                      | RDone _ _ => RStuck
                      | other => other
                      end)
                = match run_list _ _ (interp (S f)) body (push (flat_map rlocals body) e, []) with
                  | RDone SNormal si =>
                      let st' := (pop (fst si), b) in
                      match callfn m (snd si) with
                      | XOk bs => RDone SNormal (i_app _ bs st')
                      | XErr x => RDone (SRaise x) st'
                      end
                  | RDone (SRaise x) si => RDone (SRaise x) (pop (fst si), b)
                  | RDone _ _ => RStuck
                  | other => other
                  end).
        rewrite locals_ir_list.
        rewrite <- (sim_list _ _ body IHb (push (flat_map rlocals body) e) None []).
        destruct (run_list _ _ (exec (S f)) (flat_map ir_of body)
                    (mkPS _ (push (flat_map rlocals body) e) None [])) as [| |o [e' t' b']]; try reflexivity.
        destruct o; try reflexivity. simpl. destruct (callfn m b'); reflexivity.
  Qed.

  (* whole programs: same output, same escaping exception *)
  Theorem run_prog_ir_eq_run_template : forall fuel rs genv,
    run_prog env lookup assign push pop callfn fuel (ir_list rs) genv
    = run_template env lookup assign push pop callfn fuel rs genv.
  Proof.
    intros fuel rs genv. unfold run_prog, run_template, exec_list, interp_list, ir_list.
    rewrite locals_ir_list.
    assert (H : Forall (HX (exec fuel) (interp fuel)) rs).
    { apply Forall_forall. intros r _ e t b. apply exec_ir_refines_interp. }
    rewrite <- (sim_list _ _ rs H (push (flat_map rlocals rs) genv) None []).
    destruct (run_list _ _ (exec fuel) (flat_map ir_of rs)
                (mkPS _ (push (flat_map rlocals rs) genv) None [])) as [| |o st]; try reflexivity;
      try (destruct o; reflexivity).
  Qed.
End Refine.
