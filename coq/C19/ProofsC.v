(* C19 — end-to-end statements on the executable entry points. *)
From Coq Require Import List NArith ZArith Arith Bool String Lia.
Import ListNotations.
From TV Require Import Lib.Obs Lib.C21_Utf8 C19.Model C19.Codegen C19.Sem C19.Spec C19.Pool C19.Run
  C19.ProofsA C19.ProofsB1 C19.ProofsB2 C19.ProofsB3 C19.ProofsP.
Local Open Scope N_scope.

Lemma list_eqb_refl {A} (eqb : A -> A -> bool) :
  (forall a, eqb a a = true) -> forall l, list_eqb eqb l l = true.
Proof. intros H l. induction l as [|a r IH]; simpl; [reflexivity|]. rewrite H, IH. reflexivity. Qed.

Lemma obs_eqb_refl : forall o, obs_eqb o o = true.
Proof.
  fix IH 1. intros o. destruct o as [|b|z|l|s|l]; simpl.
  - reflexivity.
  - destruct b; reflexivity.
  - apply Z.eqb_refl.
  - apply list_eqb_refl. apply N.eqb_refl.
  - apply String.eqb_refl.
  - induction l as [|a r IHl]; [reflexivity|]. rewrite IH. exact IHl.
Qed.

Lemma the_loader_wf c : ld_wf (the_loader c).
Proof.
  destruct c as [[[[[use lae] lws] files] rt] env]. unfold the_loader.
  destruct use; [apply loadf_wf|exact I].
Qed.

Lemma root_template_wf c t : root_template c = GOk t -> wf_top (t_body t) = true.
Proof.
  destruct c as [[[[[use lae] lws] files] [[[name src] rae] rws]] env]. unfold root_template, of_pres.
  match goal with |- context [parse_file ?a ?b ?c ?d] => destruct (parse_file a b c d) eqn:E end;
    [|discriminate].
  intros H. inversion H; subst. eapply parse_file_wf; eauto.
Qed.

(* compiler correctness on the executable model: whenever Template(...) succeeds,
   the resolved template exists and running the compiled code equals interpreting it *)
Theorem compiled_equals_interpreted : forall c co,
  gbind (root_template c) (construct GEN_FUEL (the_loader c)) = GOk co ->
  exists rs,
    gbind (root_template c) (resolve_template GEN_FUEL (the_loader c)) = GOk rs
    /\ co_prog co = ir_list rs
    /\ forall fuel genv,
         run_prog cenv c_lookup c_assign c_push c_pop c_callfn fuel (co_prog co) genv
         = run_template cenv c_lookup c_assign c_push c_pop c_callfn fuel rs genv.
Proof.
  intros c co H. apply gbind_ok in H as (t & Ht & H).
  destruct (construct_sound _ _ _ _ (the_loader_wf c) (root_template_wf c t Ht) H) as (rs & R & P).
  exists rs. rewrite Ht. simpl. split; [exact R|]. split; [exact P|].
  intros fuel genv. rewrite P. apply run_prog_ir_eq_run_template.
Qed.

Theorem model_satisfies_checker : forall c, check_case c (run_case c) = true.
Proof.
  intros c. unfold run_case.
  destruct (gbind (root_template c) (construct GEN_FUEL (the_loader c))) as [co|e] eqn:E.
  - destruct (compiled_equals_interpreted c co E) as (rs & R & P & Q).
    unfold check_case, spec_out. rewrite R. rewrite Q. apply obs_eqb_refl.
  - unfold check_case. unfold run_case. rewrite E.
    destruct e as [[k line| |]| | | | | | | | |]; simpl; try apply obs_eqb_refl;
      rewrite ?Z.eqb_refl; try reflexivity; destruct k; reflexivity.
Qed.
