(* C19 — compiler correctness assembled: whenever Template(...) construction
   succeeds, the compiled statement list is ir_list of the resolved template. *)
From Coq Require Import List NArith Arith Bool String Lia.
Import ListNotations.
From TV Require Import Lib.Obs Lib.C21_Utf8 C19.Model C19.Codegen C19.Sem C19.Spec
  C19.ProofsA C19.ProofsB1 C19.ProofsB2.
Local Open Scope N_scope.

(* ---------- the statement tree is well-formed for the indentation reader ---------- *)
Lemma forallb_app' {A} (p : A -> bool) a b : forallb p (a ++ b) = forallb p a && forallb p b.
Proof. apply forallb_app. Qed.

Lemma is_nil_snoc {A} (l : list A) x : is_nil (l ++ [x]) = false.
Proof. destruct l; reflexivity. Qed.

Definition TP (u : unode) : Prop := forall cnt, forallb tree_ok (fst (utree u cnt)) = true.

Lemma utree_list_ok us : Forall TP us -> forall cnt, forallb tree_ok (fst (utree_list us cnt)) = true.
Proof.
  induction 1 as [|x r Hx _ IH]; intros cnt; [reflexivity|].
  rewrite utree_list_cons. specialize (Hx cnt). destruct (utree x cnt) as [a c1].
  specialize (IH c1). destruct (utree_list r c1) as [b c2]. simpl in *.
  rewrite forallb_app', Hx, IH. reflexivity.
Qed.

Lemma utree_cls_ok cls : Forall (fun c => Forall TP (snd c)) cls ->
  forall cnt, forallb tree_ok (fst (utree_cls cls cnt)) = true.
Proof.
  induction 1 as [|[s b] r Hb _ IH]; intros cnt; [reflexivity|].
  cbn [utree_cls]. pose proof (utree_list_ok b Hb cnt) as H1.
  destruct (utree_list b cnt) as [t1 d1]. specialize (IH d1).
  destruct (utree_cls r d1) as [t2 d2]. simpl in *.
  rewrite is_nil_snoc, forallb_app', H1, IH. reflexivity.
Qed.

Lemma utree_ok : forall u, TP u.
Proof.
  induction u as [b|e esc|s|s body cls IHb IHc|m body IHb] using unode_ind2; intros cnt.
  - reflexivity.
  - destruct esc; reflexivity.
  - reflexivity.
  - rewrite utree_comp. pose proof (utree_list_ok body IHb cnt) as H1.
    destruct (utree_list body cnt) as [tb c1]. pose proof (utree_cls_ok cls IHc c1) as H2.
    destruct (utree_cls cls c1) as [tc c2]. simpl in *.
    rewrite is_nil_snoc, forallb_app', H1, H2. reflexivity.
  - rewrite utree_apply. cbn zeta. pose proof (utree_list_ok body IHb (S cnt)) as H1.
    destruct (utree_list body (S cnt)) as [tb c1]. simpl in *.
    rewrite forallb_app', H1. reflexivity.
Qed.

Lemma utree_list_ok' us cnt : forallb tree_ok (fst (utree_list us cnt)) = true.
Proof. apply utree_list_ok. apply Forall_forall. intros u _. apply utree_ok. Qed.

(* ---------- compile(emit_file us) ---------- *)
Theorem compile_emit_file us p :
  forallb wf_u us = true ->
  compile_lines (emit_file us) = COk p ->
  exists rs, refine_list us = COk rs /\ p = ir_list rs.
Proof.
  intros Hwf H. unfold compile_lines, blocks_top in H.
  assert (Hb : blocks (S (List.length (emit_file us))) 0 (emit_file us) = Some ([file_tree us], [])).
  { unfold emit_file.
    replace (flat 0 (file_tree us)) with (flat_list 0 [file_tree us] ++ []) at 2
      by (unfold flat_list; simpl; rewrite !app_nil_r; reflexivity).
    apply blocks_flat.
    - unfold flat_list. simpl. rewrite !app_nil_r. lia.
    - unfold file_tree. cbn [forallb tree_ok is_header is_nil negb andb].
      rewrite forallb_app', utree_list_ok'. reflexivity.
    - exact I. }
  rewrite Hb in H. unfold file_tree in H. cbn [group_top cbind] in H.
  unfold execute_name in H. rewrite teqb_refl in H.
  apply cbind_ok in H as (p' & Hg & H).
  destruct (forallb (syntax_ok false) p'); [|discriminate]. inversion H; subst p'; clear H.
  rewrite fn_body_ret in Hg. unfold g_finish in Hg. apply cbind_ok in Hg as (a & Ha & Hg).
  assert (HF : Forall GP us) by (apply Forall_forall; intros u _; apply group_unode).
  destruct (group_ulist us HF 0%nat g_empty a Hwf) as (rs & R & (C1 & C2 & C3) & O);
    [repeat split|exact Ha|].
  rewrite C1, C3, C2 in Hg. inversion Hg; subst p.
  exists rs. split; [exact R|]. rewrite O. simpl. rewrite app_nil_r. reflexivity.
Qed.

(* ---------- well-formedness of ancestors and named blocks ---------- *)
Lemma ancestors_wf : forall f ld t ancs, ld_wf ld -> wf_top (t_body t) = true ->
  ancestors f ld t = GOk ancs -> Forall (fun a => wf_top (t_body a) = true) ancs.
Proof.
  induction f as [|f IH]; intros ld t ancs Hld Hwf H; [discriminate|].
  cbn [ancestors] in H. apply gbind_ok in H as (l & Hl & H). inversion H; subst ancs; clear H.
  constructor; [exact Hwf|]. clear Hwf. revert l Hl. generalize (t_body t) as cs.
  induction cs as [|c r IHc]; intros l Hl.
  - inversion Hl. constructor.
  - destruct c; try (apply IHc; exact Hl).
    destruct ld as [load|]; [|discriminate].
    apply gbind_ok in Hl as (t' & Ht' & Hl). apply gbind_ok in Hl as (a & Ha & Hl).
    apply gbind_ok in Hl as (b & Hb & Hl). inversion Hl; subst l.
    apply Forall_app. split.
    + eapply IH; [exact Hld|exact (Hld _ _ Ht')|exact Ha].
    + apply IHc. exact Hb.
Qed.

Lemma nb_wf_cons name body t nb :
  wf_top body = true -> nb_wf nb -> nb_wf ((name, (body, t)) :: nb).
Proof.
  intros Hb Hnb n b' t' H. simpl in H. destruct (teqb name n).
  - inversion H; subst. exact Hb.
  - eapply Hnb; eauto.
Qed.

Lemma fnb_wf : forall f ld t ns nb nb', ld_wf ld -> forallb wf_node ns = true -> nb_wf nb ->
  fnb f ld t ns nb = GOk nb' -> nb_wf nb'.
Proof.
  induction f as [|f IH]; intros ld t ns nb nb' Hld Hwf Hnb H; [discriminate|].
  destruct ns as [|n r]; [simpl in H; inversion H; subst; exact Hnb|].
  simpl in Hwf. apply andb_true_iff in Hwf as [Hwn Hwr].
  cbn [fnb] in H. apply gbind_ok in H as (nb1 & H1 & H2).
  assert (nb_wf nb1).
  { destruct n; try (inversion H1; subst; exact Hnb).
    - simpl in Hwn. apply andb_true_iff in Hwn as [_ Hwb]. eapply IH; [exact Hld|exact Hwb|exact Hnb|exact H1].
    - simpl in Hwn. apply andb_true_iff in Hwn as [Hwb _]. eapply IH; [exact Hld|exact Hwb|exact Hnb|exact H1].
    - simpl in Hwn. pose proof Hwn as Hw2. apply andb_true_iff in Hwn as [Hwb _].
      eapply IH; [exact Hld|exact Hwb| |exact H1]. apply nb_wf_cons; assumption.
    - destruct ld as [load|] eqn:E; [|discriminate]. apply gbind_ok in H1 as (t' & Ht' & H1).
      pose proof (Hld _ _ Ht') as Hw. apply wf_top_parts in Hw as [Hw _].
      subst ld. eapply IH; [exact Hld|exact Hw|exact Hnb|exact H1]. }
  eapply IH; [exact Hld|exact Hwr|exact H|exact H2].
Qed.

Lemma fnb_all_wf : forall f ld ts nb nb', ld_wf ld ->
  Forall (fun a => wf_top (t_body a) = true) ts -> nb_wf nb ->
  fnb_all f ld ts nb = GOk nb' -> nb_wf nb'.
Proof.
  intros f ld ts. induction ts as [|t r IH]; intros nb nb' Hld Hts Hnb H.
  - inversion H; subst. exact Hnb.
  - simpl in H. apply gbind_ok in H as (nb1 & H1 & H2). inversion Hts; subst.
    apply wf_top_parts in H3 as [H3 _].
    eapply IH; [exact Hld|exact H4| |exact H2]. eapply fnb_wf; [exact Hld|exact H3|exact Hnb|exact H1].
Qed.

(* ---------- Template(...) construction ---------- *)
Theorem construct_sound : forall fuel ld t co,
  ld_wf ld -> wf_top (t_body t) = true ->
  construct fuel ld t = GOk co ->
  exists rs, resolve_template fuel ld t = GOk rs /\ co_prog co = ir_list rs.
Proof.
  intros fuel ld t co Hld Hwf H. unfold construct in H.
  apply gbind_ok in H as (code & Hcode & H).
  destruct (compile_lines (strip_comments code)) as [p| |] eqn:Ec; try discriminate.
  inversion H; subst co; clear H. cbn [co_prog].
  unfold generate_python in Hcode. apply gbind_ok in Hcode as (ancs & Ha & Hcode).
  apply gbind_ok in Hcode as (nb & Hnb & Hcode).
  pose proof (ancestors_wf _ _ _ _ Hld Hwf Ha) as Hancs.
  assert (Hancs' : Forall (fun a => wf_top (t_body a) = true) (rev ancs)).
  { apply Forall_forall. intros x Hx. apply in_rev in Hx. rewrite Forall_forall in Hancs. auto. }
  assert (Hnbwf : nb_wf nb).
  { eapply fnb_all_wf; eauto. intros n b t' Hn. discriminate. }
  destruct (rev ancs) as [|root rest] eqn:Er; [discriminate|].
  inversion Hancs' as [|? ? Hroot _]; subst.
  unfold gen_file in Hcode. apply gbind_ok in Hcode as ([ls w'] & Hg & Hcode).
  inversion Hcode; subst code; clear Hcode.
  apply wf_top_parts in Hroot as [Hr1 Hr2].
  destruct (gen_uresolve fuel ld nb Hld Hnbwf (t_body root) 1%nat _ ls w' (le_n 1) Hr1 Hg)
    as (seg & cls & U & E & C & S & W1 & W2).
  simpl in U, E.
  assert (cls = []) by (eapply no_inter_cls; eauto). subst cls.
  assert (Hlines : strip_comments
            (wl 0 (LDef execute_name) 0 (mkW 0 root []) :: wl 1 LBufInit 0 (mkW 0 root [])
               :: wl 1 LAppInit 0 (mkW 0 root []) :: ls ++ [wl 1 LReturn 0 w']) = emit_file seg).
  { unfold emit_file, file_tree. unfold seg_emit in E.
    destruct (utree_list seg 0) as [t0 c0]. simpl in E. rewrite app_nil_r in E. inversion E; subst.
    simpl. rewrite strip_app. simpl.
    change (flat_map (flat 1) (t0 ++ [TLine LReturn])) with (flat_list 1 (t0 ++ [TLine LReturn])).
    rewrite flat_list_app. rewrite H0. reflexivity. }
  rewrite Hlines in Ec.
  destruct (compile_emit_file seg p W1 Ec) as (rs & R & P).
  exists rs. split; [|exact P].
  unfold resolve_template, uresolve_template. rewrite Ha. cbn [gbind]. rewrite Er, Hnb. cbn [gbind].
  unfold uresolve_top. rewrite U. cbn [gbind]. rewrite R. reflexivity.
Qed.
