(* C23 — signed values (tornado/web.py create_signed_value, _get_version,
   decode_signed_value, _decode_signed_value_v1/_v2, _decode_fields_v2).
   Definitions only.  Bytes are [list N]; names/values/secrets are the UTF-8
   bytes the code works on (utf8() is applied by the harness).  HMAC is a
   section variable ([mac1] = hex HMAC-SHA1, [mac2] = hex HMAC-SHA256). *)
From Coq Require Import List NArith ZArith Bool Arith.
Import ListNotations.

Definition bytes := list N.

Inductive exn := ValueError | AssertionError | KeyError.
Inductive res (A : Type) := Ok (a : A) | Raise (e : exn).
Arguments Ok {A} a.
Arguments Raise {A} e.

(* ------------------------------------------------------------------ *)
(* byte-string helpers                                                  *)
Local Open Scope N_scope.

Fixpoint bytes_eqb (a b : bytes) : bool :=
  match a, b with
  | [], [] => true
  | x :: a', y :: b' => (x =? y) && bytes_eqb a' b'
  | _, _ => false
  end.

Definition is_digit (c : N) : bool := (48 <=? c) && (c <=? 57).
(* Py_ISSPACE on bytes: \t \n \v \f \r and space *)
Definition is_space (c : N) : bool := ((9 <=? c) && (c <=? 13)) || (c =? 32).

(* s.partition(sep) for a one-byte separator: (before, found, after) *)
Fixpoint partition (sep : N) (l : bytes) : bytes * bool * bytes :=
  match l with
  | [] => ([], false, [])
  | c :: r =>
      if c =? sep then ([], true, r)
      else let '(a, f, b) := partition sep r in (c :: a, f, b)
  end.

(* s.split(sep) for a one-byte separator (never returns the empty list) *)
Fixpoint split (sep : N) (l : bytes) : list bytes :=
  match l with
  | [] => [[]]
  | c :: r =>
      if c =? sep then [] :: split sep r
      else match split sep r with
           | p :: ps => (c :: p) :: ps
           | [] => [[c]]            (* unreachable: split_nonempty in Proofs *)
           end
  end.

(* Python slice index clamping and s[lo:hi], s[lo:] *)
Local Open Scope Z_scope.
Definition clampi (len i : Z) : Z := if i <? 0 then Z.max 0 (len + i) else Z.min len i.
Definition py_slice (l : bytes) (lo hi : Z) : bytes :=
  let len := Z.of_nat (length l) in
  let a := clampi len lo in
  let b := clampi len hi in
  firstn (Z.to_nat (b - a)) (skipn (Z.to_nat a) l).
Definition py_from (l : bytes) (lo : Z) : bytes :=
  skipn (Z.to_nat (clampi (Z.of_nat (length l)) lo)) l.

(* ------------------------------------------------------------------ *)
(* decimal printing: str(int)                                           *)
Local Open Scope N_scope.
Fixpoint dec_fuel (f : nat) (n : N) : bytes :=
  match f with
  | O => []                                   (* unreachable with the fuel below *)
  | S f' => if n <? 10 then [48 + n] else dec_fuel f' (n / 10) ++ [48 + n mod 10]
  end.
Definition dec_N (n : N) : bytes := dec_fuel (S (N.to_nat (N.log2 n))) n.
Definition dec_Z (z : Z) : bytes :=
  if (z <? 0)%Z then 45 :: dec_N (Z.abs_N z) else dec_N (Z.to_N z).

(* int(b) for a bytes object, base 10: optional surrounding whitespace, optional
   sign, digits with single underscores between digits.  None = ValueError.
   (CPython's 4300-digit limit is not modelled, see NOTES.md.) *)
Fixpoint lstrip (l : bytes) : bytes :=
  match l with
  | c :: r => if is_space c then lstrip r else l
  | [] => []
  end.
Definition strip (l : bytes) : bytes := rev (lstrip (rev (lstrip l))).

Fixpoint digits_val (acc : N) (prev_digit : bool) (l : bytes) : option N :=
  match l with
  | [] => if prev_digit then Some acc else None
  | c :: r =>
      if is_digit c then digits_val (10 * acc + (c - 48)) true r
      else if (c =? 95) && prev_digit then digits_val acc false r
      else None
  end.

Definition py_int (l : bytes) : option Z :=
  match strip l with
  | [] => None
  | c :: r =>
      if c =? 45 then option_map (fun n => (- Z.of_N n)%Z) (digits_val 0 false r)
      else if c =? 43 then option_map Z.of_N (digits_val 0 false r)
      else option_map Z.of_N (digits_val 0 false (c :: r))
  end.

(* ------------------------------------------------------------------ *)
(* base64: b64encode, and binascii.a2b_base64 in non-strict mode        *)
Definition b64_char (i : N) : N :=
  if i <? 26 then 65 + i
  else if i <? 52 then 97 + (i - 26)
  else if i <? 62 then 48 + (i - 52)
  else if i =? 62 then 43 else 47.

Definition b64_val (c : N) : option N :=
  if (65 <=? c) && (c <=? 90) then Some (c - 65)
  else if (97 <=? c) && (c <=? 122) then Some (c - 97 + 26)
  else if (48 <=? c) && (c <=? 57) then Some (c - 48 + 52)
  else if c =? 43 then Some 62
  else if c =? 47 then Some 63
  else None.

Fixpoint b64encode (l : bytes) : bytes :=
  match l with
  | [] => []
  | [a] => [b64_char (a / 4); b64_char ((a mod 4) * 16); 61; 61]
  | [a; b] => [b64_char (a / 4); b64_char ((a mod 4) * 16 + b / 16); b64_char ((b mod 16) * 4); 61]
  | a :: b :: c :: r =>
      b64_char (a / 4) :: b64_char ((a mod 4) * 16 + b / 16)
      :: b64_char ((b mod 16) * 4 + c / 64) :: b64_char (c mod 64) :: b64encode r
  end.

(* the decoding loop of binascii_a2b_base64_impl (strict_mode = 0):
   qp = quad_pos, left = leftchar, pads = number of consecutive '=' seen.
   None = binascii.Error (caught by the callers: "except Exception") *)
Fixpoint b64dec (qp : nat) (left : N) (pads : nat) (l : bytes) : option bytes :=
  match l with
  | [] => match qp with O => Some [] | _ => None end
  | c :: r =>
      if c =? 61 then
        if (2 <=? qp)%nat then
          if (4 <=? qp + S pads)%nat then Some []        (* goto done *)
          else b64dec qp left (S pads) r
        else b64dec qp left pads r
      else
        match b64_val c with
        | None => b64dec qp left pads r                  (* non-alphabet bytes are skipped *)
        | Some v =>
            match qp with
            | 0%nat => b64dec 1 v 0 r
            | 1%nat => option_map (cons (left * 4 + v / 16)) (b64dec 2 (v mod 16) 0 r)
            | 2%nat => option_map (cons (left * 16 + v / 4)) (b64dec 3 (v mod 4) 0 r)
            | _ => option_map (cons (left * 64 + v)) (b64dec 0 0 0 r)
            end
        end
  end.
Definition b64decode (l : bytes) : option bytes := b64dec 0 0 0 l.

(* ------------------------------------------------------------------ *)
(* _get_version: the bytes regex "a digit 1-9, digits, a pipe, anything" (compiled with
   re.DOTALL since 6426f2d, so the tail is unconstrained), then int(group 1); values
   > 999 fall back to 1 *)
Fixpoint span_digits (l : bytes) : bytes * bytes :=
  match l with
  | c :: r => if is_digit c then let '(d, t) := span_digits r in (c :: d, t) else ([], l)
  | [] => ([], [])
  end.

Fixpoint digits_to_N (acc : N) (d : bytes) : N :=
  match d with [] => acc | c :: r => digits_to_N (10 * acc + (c - 48)) r end.

Definition get_version (x : bytes) : Z :=
  let '(d, t) := span_digits x in
  match d, t with
  | c :: _, p :: r =>
      if negb (c =? 48) && (p =? 124) then
        (if (3 <? length d)%nat then 1%Z else Z.of_N (digits_to_N 0 d))
      else 1%Z
  | _, _ => 1%Z
  end.

(* ------------------------------------------------------------------ *)
(* secrets: a byte string or a key-version dictionary                   *)
Inductive secret := SStr (k : bytes) | SDict (d : list (Z * bytes)).

Fixpoint dict_get (d : list (Z * bytes)) (kv : Z) : option bytes :=
  match d with
  | [] => None
  | (k, v) :: r => if (k =? kv)%Z then Some v else dict_get r kv
  end.

Definition secret_key (s : secret) (kv : Z) : option bytes :=
  match s with SStr k => Some k | SDict d => dict_get d kv end.

(* bytes.isdigit(): non-empty and ASCII digits only *)
Definition is_digits (l : bytes) : bool :=
  match l with [] => false | _ => forallb is_digit l end.

Definition starts_with_zero (l : bytes) : bool :=
  match l with c :: _ => c =? 48 | [] => false end.

(* _consume_field; None = ValueError (caught in _decode_signed_value_v2) *)
Definition consume_field (s : bytes) : option (bytes * bytes) :=
  let '(len_b, _, rest) := partition 58 s in
  match py_int len_b with
  | None => None
  | Some n =>
      if bytes_eqb (py_slice rest n (n + 1)) [124]
      then Some (py_slice rest 0 n, py_from rest (n + 1))
      else None
  end.

(* _decode_fields_v2 *)
Definition decode_fields (x : bytes) : option (Z * bytes * bytes * bytes * bytes) :=
  match consume_field (skipn 2 x) with
  | None => None
  | Some (kvb, r1) =>
  match consume_field r1 with
  | None => None
  | Some (tsb, r2) =>
  match consume_field r2 with
  | None => None
  | Some (nf, r3) =>
  match consume_field r3 with
  | None => None
  | Some (vf, sg) =>
  match py_int kvb with
  | None => None
  | Some kv => Some (kv, tsb, nf, vf, sg)
  end end end end end.

Definition field (s : bytes) : bytes := dec_N (N.of_nat (length s)) ++ [58] ++ s.

(* the string signed by create_signed_value version 2 *)
Definition to_sign2 (kv t : Z) (name v : bytes) : bytes :=
  [50; 124] ++ field (dec_Z kv) ++ [124] ++ field (dec_Z t) ++ [124]
  ++ field name ++ [124] ++ field (b64encode v) ++ [124].

(* ------------------------------------------------------------------ *)
(* arguments as the Python API takes them: str (code points) or bytes; escape.utf8() *)
Inductive pyarg := PStr (cps : list N) | PBytes (b : bytes).

Definition utf8_cp (c : N) : bytes :=
  if c <? 128 then [c]
  else if c <? 2048 then [192 + c / 64; 128 + c mod 64]
  else if c <? 65536 then [224 + c / 4096; 128 + (c / 64) mod 64; 128 + c mod 64]
  else [240 + c / 262144; 128 + (c / 4096) mod 64; 128 + (c / 64) mod 64; 128 + c mod 64].

Definition utf8 (a : pyarg) : bytes :=
  match a with PStr cps => flat_map utf8_cp cps | PBytes b => b end.

(* cookie_secret as configured: a str/bytes, or a dict {key_version: str/bytes} *)
Inductive secret_arg := SAStr (k : pyarg) | SADict (d : list (Z * pyarg)).
Definition secret_of (sa : secret_arg) : secret :=
  match sa with
  | SAStr k => SStr (utf8 k)
  | SADict d => SDict (map (fun p => (fst p, utf8 (snd p))) d)
  end.

(* get_signature_key_version on bytes *)
Definition key_version_of (x : bytes) : option Z :=
  if (get_version x <? 2)%Z then None
  else match decode_fields x with
       | Some (kv, _, _, _, _) => Some kv
       | None => None
       end.
Definition get_signature_key_version (x : pyarg) : option Z := key_version_of (utf8 x).

Section WithMac.
  Variable mac1 : bytes -> bytes -> bytes.   (* key, message -> hex HMAC-SHA1 *)
  Variable mac2 : bytes -> bytes -> bytes.   (* key, message -> hex HMAC-SHA256 *)

  (* create_signed_value(secret, name, value, version, clock=lambda: t, key_version=kv) *)
  Definition create (s : secret) (name v : bytes) (ver t : Z) (kv : option Z) : res bytes :=
    if (ver =? 1)%Z then
      match s with
      | SDict _ => Raise AssertionError
      | SStr k =>
          let b := b64encode v in
          let ts := dec_Z t in
          Ok (b ++ [124] ++ ts ++ [124] ++ mac1 k (name ++ b ++ ts))
      end
    else if (ver =? 2)%Z then
      let kvn := match kv with Some z => z | None => 0%Z end in     (* key_version or 0 *)
      let m := to_sign2 kvn t name v in
      match s with
      | SStr k => Ok (m ++ mac2 k m)
      | SDict d =>
          match kv with
          | None => Raise AssertionError
          | Some z => match dict_get d z with
                      | None => Raise KeyError
                      | Some k => Ok (m ++ mac2 k m)
                      end
          end
      end
    else Raise ValueError.

  (* _decode_signed_value_v1; maxage = max_age_days * 86400, now = clock() *)
  Definition decode_v1 (k name x : bytes) (maxage now : Z) : option bytes :=
    match split 124 x with
    | [p0; p1; sg] =>
        if negb (bytes_eqb sg (mac1 k (name ++ p0 ++ p1))) then None
        else if negb (is_digits p1) then None              (* bf2e153 *)
        else match py_int p1 with
             | None => None
             | Some t =>
                 if (t <? now - maxage)%Z then None
                 else if (now + 31 * 86400 <? t)%Z then None
                 else if starts_with_zero p1 then None
                 else b64decode p0
             end
    | _ => None
    end.

  (* _decode_signed_value_v2 *)
  Definition decode_v2 (s : secret) (name x : bytes) (maxage now : Z) : option bytes :=
    match decode_fields x with
    | None => None
    | Some (kv, tsb, nf, vf, sg) =>
        let signed := py_slice x 0 (- Z.of_nat (length sg)) in
        match secret_key s kv with
        | None => None                                         (* KeyError *)
        | Some k =>
            if negb (bytes_eqb sg (mac2 k signed)) then None
            else if negb (bytes_eqb nf name) then None
            else match py_int tsb with
                 | None => None
                 | Some t => if (t <? now - maxage)%Z then None else b64decode vf
                 end
        end
    end.

  (* decode_signed_value(secret, name, x, max_age_days, clock, min_version) *)
  Definition decode (s : secret) (name x : bytes) (maxage now minv : Z) : res (option bytes) :=
    if (2 <? minv)%Z then Raise ValueError
    else match x with
         | [] => Ok None
         | _ =>
             let v := get_version x in
             if (v <? minv)%Z then Ok None
             else if (v =? 1)%Z then
               match s with
               | SDict _ => Ok None
               | SStr k => Ok (decode_v1 k name x maxage now)
               end
             else if (v =? 2)%Z then Ok (decode_v2 s name x maxage now)
             else Ok None
         end.

  (* the public functions with their Python argument types *)
  Definition create_api (sa : secret_arg) (name value : pyarg) (ver t : Z) (kv : option Z) : res bytes :=
    create (secret_of sa) (utf8 name) (utf8 value) ver t kv.

  (* value may be None (a missing cookie) *)
  Definition decode_api (sa : secret_arg) (name : pyarg) (x : option pyarg) (maxage now minv : Z)
    : res (option bytes) :=
    match x with
    | None => if (2 <? minv)%Z then Raise ValueError else Ok None
    | Some xa => decode (secret_of sa) (utf8 name) (utf8 xa) maxage now minv
    end.

  (* the (at most one) HMAC evaluation decode performs: (true = SHA1, key, message) *)
  Definition decode_query (s : secret) (name x : bytes) (minv : Z) : option (bool * bytes * bytes) :=
    if (2 <? minv)%Z then None
    else match x with
         | [] => None
         | _ =>
             let v := get_version x in
             if (v <? minv)%Z then None
             else if (v =? 1)%Z then
               match s, split 124 x with
               | SStr k, [p0; p1; _] => Some (true, k, name ++ p0 ++ p1)
               | _, _ => None
               end
             else if (v =? 2)%Z then
               match decode_fields x with
               | Some (kv, _, _, _, sg) =>
                   match secret_key s kv with
                   | Some k => Some (false, k, py_slice x 0 (- Z.of_nat (length sg)))
                   | None => None
                   end
               | None => None
               end
             else None
         end.
End WithMac.
