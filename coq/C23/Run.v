(* C23 — executable entry points for the correspondence check. *)
From Coq Require Import List NArith ZArith String Bool.
Import ListNotations.
From TV Require Import Lib.Obs C23.Model.

(* provenance of the string given to decode (supplied by the generator):
   HNone    : no key holder was involved (arbitrary string)
   HCrafted : the harness itself MACed a hand-built (non-create) message with the key;
              only totality is claimed
   HAuth    : the string was derived from create(s0, name0, v0, ver0, t0, kv0) *)
Inductive hint :=
| HNone | HCrafted
| HAuth (s0 : secret) (name0 v0 : bytes) (ver0 t0 : Z) (kv0 : option Z).

Inductive op :=
| OpCreate (s : secret) (name v : bytes) (ver t : Z) (kv : option Z)
| OpDecode (s : secret) (name x : bytes) (maxage now minv : Z) (h : hint).

(* HMAC table of the case: (true = sha1, key, message, hex digest), computed by the
   harness with Python's hmac module *)
Definition mactable := list (bool * bytes * bytes * bytes).

Fixpoint tlookup (tbl : mactable) (alg : bool) (k m : bytes) : option bytes :=
  match tbl with
  | [] => None
  | (a, k', m', d) :: r =>
      if Bool.eqb a alg && bytes_eqb k' k && bytes_eqb m' m then Some d else tlookup r alg k m
  end.
(* a missing entry yields a non-byte sentinel; run_case reports it as MacMissing *)
Definition tmac (tbl : mactable) (alg : bool) (k m : bytes) : bytes :=
  match tlookup tbl alg k m with Some d => d | None => [256%N] end.

Definition exn_tag (e : exn) : obs :=
  match e with
  | ValueError => OTag "ValueError"
  | AssertionError => OTag "AssertionError"
  | KeyError => OTag "KeyError"
  end.

Definition all_bytes (l : bytes) : bool := forallb (fun c => N.ltb c 256) l.

Definition run_case (c : mactable * op) : obs :=
  let '(tbl, o) := c in
  match o with
  | OpCreate s name v ver t kv =>
      match create (tmac tbl true) (tmac tbl false) s name v ver t kv with
      | Ok y => if all_bytes y then OBytes y else OTag "MacMissing"
      | Raise e => exn_tag e
      end
  | OpDecode s name x maxage now minv _ =>
      let missing :=
        match decode_query s name x minv with
        | Some (alg, k, m) => match tlookup tbl alg k m with Some _ => false | None => true end
        | None => false
        end in
      if missing then OTag "MacMissing"
      else match decode (tmac tbl true) (tmac tbl false) s name x maxage now minv with
           | Ok None => ONone
           | Ok (Some v) => OBytes v
           | Raise e => exn_tag e
           end
  end.

(* ---- the property on the implementation's observable ---- *)
Local Open Scope Z_scope.

Definition secret_eqb_str (s : secret) (k : bytes) : bool :=
  match s with SStr k' => bytes_eqb k' k | SDict _ => false end.

(* the key create(s0, .., ver0, kv0) signs with *)
Definition create_key (s0 : secret) (kv0 : option Z) : option bytes :=
  match s0, kv0 with
  | SStr k, _ => Some k
  | SDict d, Some z => dict_get d z
  | SDict _, None => None
  end.

Definition opt_bytes_eqb (a b : option bytes) : bool :=
  match a, b with
  | Some x, Some y => bytes_eqb x y
  | _, _ => false
  end.

Definition check_decode (tbl : mactable) (s : secret) (name x : bytes) (maxage now minv : Z)
           (h : hint) (o : obs) : bool :=
  if 2 <? minv then obs_eqb o (OTag "ValueError") else
  match o with
  | ONone =>
      (* the round trip: an authentic value, presented unchanged with the same key and
         name inside its validity window, must NOT be rejected *)
      match h with
      | HAuth s0 name0 v0 ver0 t0 kv0 =>
          match create (tmac tbl true) (tmac tbl false) s0 name0 v0 ver0 t0 kv0 with
          | Ok y =>
              let kvn := match kv0 with Some z => z | None => 0 end in
              negb (bytes_eqb x y && bytes_eqb name name0
                    && opt_bytes_eqb (if ver0 =? 1 then (match s with SStr k => Some k | _ => None end)
                                      else secret_key s kvn) (create_key s0 kv0)
                    && (minv <=? ver0) && (1 <=? t0) && (now - maxage <=? t0)
                    && ((ver0 =? 2) || (t0 <=? now + 31 * 86400)))
          | Raise _ => true
          end
      | _ => true
      end
  | OBytes v =>
      (* soundness: a value is only ever returned for (a re-split of, in format 1) an
         authentic message, under the same key *)
      match h with
      | HNone => false
      | HCrafted => true
      | HAuth s0 name0 v0 ver0 t0 kv0 =>
          match create (tmac tbl true) (tmac tbl false) s0 name0 v0 ver0 t0 kv0 with
          | Raise _ => false
          | Ok y =>
              if ver0 =? 2 then
                let kvn := match kv0 with Some z => z | None => 0 end in
                bytes_eqb x y && bytes_eqb name name0 && bytes_eqb v v0
                && opt_bytes_eqb (secret_key s kvn) (create_key s0 kv0)
                && (minv <=? 2) && (now - maxage <=? t0)
              else
                match s, s0, split 124%N x, split 124%N y with
                | SStr k, SStr k0, [p0; p1; sg], [q0; q1; sg0] =>
                    bytes_eqb k k0 && bytes_eqb sg sg0 && (minv <=? 1)
                    && bytes_eqb (name ++ p0 ++ p1) (name0 ++ q0 ++ q1)
                    (* the accepted timestamp field is canonical decimal, inside the window *)
                    && is_digits p1 && negb (starts_with_zero p1)
                    && match py_int p1 with
                       | Some t =>
                           (now - maxage <=? t) && (t <=? now + 31 * 86400)
                           (* same name: the issued string itself (original value), or a digit
                              shift that changes the timestamp by more than a factor of two;
                              another name: format 1 cross-name re-split (documented weakness) *)
                           && (negb (bytes_eqb name name0)
                               || (bytes_eqb p0 q0 && bytes_eqb v v0) || (2 * t0 <? t) || (2 * t <? t0))
                       | None => false
                       end
                | _, _, _, _ => false
                end
          end
      end
  | _ => false       (* decoding never raises *)
  end.

Definition check_case (c : mactable * op) (o : obs) : bool :=
  let '(tbl, p) := c in
  match p with
  | OpCreate _ _ _ _ _ _ => true
  | OpDecode s name x maxage now minv h => check_decode tbl s name x maxage now minv h o
  end.
