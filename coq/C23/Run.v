(* C23 — executable entry points for the correspondence check. *)
From Coq Require Import List NArith ZArith String Bool.
Import ListNotations.
From TV Require Import Lib.Obs C23.Model.

(* provenance of the string given to decode (supplied by the generator):
   HNone    : no key holder was involved (arbitrary string)
   HCrafted : the harness itself MACed a hand-built (non-create) message with the key;
              only totality is claimed
   HAuth    : the string was derived from create(s0, name0, v0, ver0, t0, kv0) *)
Inductive hint :=
| HNone | HCrafted
| HAuth (s0 : secret_arg) (name0 v0 : pyarg) (ver0 t0 : Z) (kv0 : option Z).

Inductive op :=
| OpCreate (s : secret_arg) (name v : pyarg) (ver t : Z) (kv : option Z)
| OpDecode (s : secret_arg) (name : pyarg) (x : option pyarg) (maxage now minv : Z) (h : hint)
| OpKeyVersion (x : pyarg).

(* HMAC table of the case: (true = sha1, key, message, hex digest), computed by the
   harness with Python's hmac module *)
Definition mactable := list (bool * bytes * bytes * bytes).

Fixpoint tlookup (tbl : mactable) (alg : bool) (k m : bytes) : option bytes :=
  match tbl with
  | [] => None
  | (a, k', m', d) :: r =>
      if Bool.eqb a alg && bytes_eqb k' k && bytes_eqb m' m then Some d else tlookup r alg k m
  end.
(* a missing entry yields a non-byte sentinel; run_case reports it as MacMissing *)
Definition tmac (tbl : mactable) (alg : bool) (k m : bytes) : bytes :=
  match tlookup tbl alg k m with Some d => d | None => [256%N] end.

Definition exn_tag (e : exn) : obs :=
  match e with
  | ValueError => OTag "ValueError"
  | AssertionError => OTag "AssertionError"
  | KeyError => OTag "KeyError"
  end.

Definition all_bytes (l : bytes) : bool := forallb (fun c => N.ltb c 256) l.

Definition dec_obs (r : res (option bytes)) : obs :=
  match r with
  | Ok None => ONone
  | Ok (Some v) => OBytes v
  | Raise e => exn_tag e
  end.

Definition run_case (c : mactable * op) : obs :=
  let '(tbl, o) := c in
  match o with
  | OpCreate s name v ver t kv =>
      match create_api (tmac tbl true) (tmac tbl false) s name v ver t kv with
      | Ok y => if all_bytes y then OBytes y else OTag "MacMissing"
      | Raise e => exn_tag e
      end
  | OpDecode s name None maxage now minv _ =>
      dec_obs (decode_api (tmac tbl true) (tmac tbl false) s name None maxage now minv)
  | OpDecode s name (Some xa) maxage now minv _ =>
      let missing :=
        match decode_query (secret_of s) (utf8 name) (utf8 xa) minv with
        | Some (alg, k, m) => match tlookup tbl alg k m with Some _ => false | None => true end
        | None => false
        end in
      if missing then OTag "MacMissing"
      else dec_obs (decode_api (tmac tbl true) (tmac tbl false) s name (Some xa) maxage now minv)
  | OpKeyVersion x =>
      match get_signature_key_version x with None => ONone | Some z => OInt z end
  end.

(* ---- the property on the implementation's observable ---- *)
Local Open Scope Z_scope.

(* the key create(s0, .., kv0) signs with (format 2) *)
Definition create_key (s0 : secret) (kv0 : option Z) : option bytes :=
  match s0, kv0 with
  | SStr k, _ => Some k
  | SDict d, Some z => dict_get d z
  | SDict _, None => None
  end.

Definition opt_bytes_eqb (a b : option bytes) : bool :=
  match a, b with
  | Some x, Some y => bytes_eqb x y
  | _, _ => false
  end.

Definition is_suffix (d x : bytes) : bool :=
  (List.length d <=? List.length x)%nat && bytes_eqb d (skipn (List.length x - List.length d) x).

Definition digest_ok (d : bytes) : bool :=
  match d with [] => false | _ => forallb (fun c => negb (N.eqb c 124) && negb (N.eqb c 10)) d end.

(* the table is well formed: every digest looks like a digest *)
Definition tbl_ok (tbl : mactable) : bool := forallb (fun e => digest_ok (snd e)) tbl.

(* the (algorithm, key, message) create evaluates *)
Definition create_query (s0 : secret) (name0 v0 : bytes) (ver0 t0 : Z) (kv0 : option Z)
  : option (bool * bytes * bytes) :=
  if ver0 =? 1 then
    match s0 with
    | SStr k => Some (true, k, name0 ++ b64encode v0 ++ dec_Z t0)
    | SDict _ => None
    end
  else if ver0 =? 2 then
    match create_key s0 kv0 with
    | Some k => Some (false, k, to_sign2 (match kv0 with Some z => z | None => 0 end) t0 name0 v0)
    | None => None
    end
  else None.

Definition query_eqb (a : bool) (k m : bytes) (q : option (bool * bytes * bytes)) : bool :=
  match q with
  | Some (a', k', m') => Bool.eqb a a' && bytes_eqb k k' && bytes_eqb m m'
  | None => false
  end.

(* Provenance is honest: every table digest that the presented string ends with belongs to
   the MAC evaluation of the declared origin ([q]; None for HNone).  In other words the
   string does not carry a valid MAC that the declared key holder did not issue.  (This is the
   unforgeability premise of the soundness theorems, made checkable per case; the harness's
   py_check asserts independently that it holds on every generated case.) *)
Definition provenance_ok (tbl : mactable) (x : bytes) (q : option (bool * bytes * bytes)) : bool :=
  forallb (fun e => let '(a, k, m, d) := e in negb (is_suffix d x) || query_eqb a k m q) tbl.

Definition check_decode (tbl : mactable) (s : secret) (name x : bytes) (maxage now minv : Z)
           (h : option (secret * bytes * bytes * Z * Z * option Z) + bool) (o : obs) : bool :=
  if 2 <? minv then obs_eqb o (OTag "ValueError") else
  match o with
  | OTag t => String.eqb t "MacMissing"  (* model-side only: the implementation cannot produce it *)
  | ONone =>
      (* the round trip: an authentic value, presented unchanged with the same key and
         name inside its validity window, must NOT be rejected *)
      match h with
      | inl (Some (s0, name0, v0, ver0, t0, kv0)) =>
          match create (tmac tbl true) (tmac tbl false) s0 name0 v0 ver0 t0 kv0 with
          | Ok y =>
              let kvn := match kv0 with Some z => z | None => 0 end in
              negb (tbl_ok tbl && all_bytes v0
                    && bytes_eqb x y && bytes_eqb name name0
                    && (if ver0 =? 1 then (match s, s0 with SStr k, SStr k0 => bytes_eqb k k0 | _, _ => false end)
                        else opt_bytes_eqb (secret_key s kvn) (create_key s0 kv0))
                    && (minv <=? ver0) && (1 <=? t0) && (now - maxage <=? t0)
                    && ((ver0 =? 2) || (t0 <=? now + 31 * 86400)))
          | Raise _ => true
          end
      | _ => true
      end
  | OBytes v =>
      (* soundness: a value is only ever returned for (a re-split of, in format 1) an
         authentic message, under the same key *)
      match h with
      | inr true => true                                            (* HCrafted *)
      | inr false | inl None => negb (tbl_ok tbl && provenance_ok tbl x None)      (* HNone: a forgery *)
      | inl (Some (s0, name0, v0, ver0, t0, kv0)) =>
          if negb (tbl_ok tbl && all_bytes v0
                   && provenance_ok tbl x (create_query s0 name0 v0 ver0 t0 kv0)) then true else
          match create (tmac tbl true) (tmac tbl false) s0 name0 v0 ver0 t0 kv0 with
          | Raise _ => false
          | Ok y =>
              if ver0 =? 2 then
                let kvn := match kv0 with Some z => z | None => 0 end in
                bytes_eqb x y && bytes_eqb name name0 && bytes_eqb v v0
                && opt_bytes_eqb (secret_key s kvn) (create_key s0 kv0)
                && (minv <=? 2) && (now - maxage <=? t0)
              else
                match s, s0, split 124%N x, split 124%N y with
                | SStr k, SStr k0, [p0; p1; sg], [q0; q1; sg0] =>
                    bytes_eqb k k0 && bytes_eqb sg sg0 && (minv <=? 1)
                    && bytes_eqb (name ++ p0 ++ p1) (name0 ++ q0 ++ q1)
                    (* the accepted timestamp field is canonical decimal, inside the window *)
                    && is_digits p1 && negb (starts_with_zero p1)
                    && match py_int p1 with
                       | Some t =>
                           (now - maxage <=? t) && (t <=? now + 31 * 86400)
                           (* same name: the issued string itself (original value), or a digit
                              shift that changes the timestamp by more than a factor of two;
                              another name: format 1 cross-name re-split (documented weakness) *)
                           && (negb (bytes_eqb name name0)
                               || (bytes_eqb p0 q0 && bytes_eqb v v0) || (2 * t0 <? t) || (2 * t <? t0))
                       | None => false
                       end
                | _, _, _, _ => false
                end
          end
      end
  | _ => false       (* decoding never raises *)
  end.

Definition hint_bytes (h : hint) : option (secret * bytes * bytes * Z * Z * option Z) + bool :=
  match h with
  | HNone => inr false
  | HCrafted => inr true
  | HAuth s0 name0 v0 ver0 t0 kv0 => inl (Some (secret_of s0, utf8 name0, utf8 v0, ver0, t0, kv0))
  end.

Definition check_case (c : mactable * op) (o : obs) : bool :=
  let '(tbl, p) := c in
  match p with
  | OpCreate _ _ _ _ _ _ => true
  | OpKeyVersion _ => true
  | OpDecode s name None maxage now minv h =>
      if 2 <? minv then obs_eqb o (OTag "ValueError") else obs_eqb o ONone
  | OpDecode s name (Some xa) maxage now minv h =>
      check_decode tbl (secret_of s) (utf8 name) (utf8 xa) maxage now minv (hint_bytes h) o
  end.
