(* C23 — key separation, satisfiability of the HMAC premises, concrete witnesses. *)
From Coq Require Import List NArith ZArith Bool Arith Lia.
Import ListNotations.
From TV Require Import C23.Model C23.Proofs1 C23.Proofs2.

Local Open Scope N_scope.

Section KeySep.
  Variable mac1 mac2 : bytes -> bytes -> bytes.
  Hypothesis Hsig1 : forall k m, mac1 k m <> [] /\ Forall sigok (mac1 k m).
  Hypothesis Hsig2 : forall k m, mac2 k m <> [] /\ Forall sigok (mac2 k m).
  (* idealised HMAC: two keys never give the same tag on the same message *)
  Hypothesis Hinj2 : forall k k' m, mac2 k m = mac2 k' m -> k = k'.

  Theorem key_separation_v2 : forall s0 name0 v0 t0 kv0 y s name maxage now minv v,
      Forall isbyte v0 ->
      create mac1 mac2 s0 name0 v0 2 t0 kv0 = Ok y ->
      decode mac1 mac2 s name y maxage now minv = Ok (Some v) ->
      name = name0 /\ v = v0 /\ (now - maxage <= t0)%Z /\
      exists k, secret_key s0 (match kv0 with Some z => z | None => 0%Z end) = Some k /\
                secret_key s (match kv0 with Some z => z | None => 0%Z end) = Some k.
  Proof.
    intros s0 name0 v0 t0 kv0 y s name maxage now minv v Hv Hc Hd.
    destruct (authentic_v2_reader mac1 mac2 Hsig1 Hsig2 _ _ _ _ _ _ _ _ _ _ _ _ Hv Hc Hd)
      as [A [B [C [_ [kvn [k0 [k [E [H0 [H1 H2]]]]]]]]]].
    repeat split; auto. subst kvn. apply Hinj2 in H2. subst k0. exists k. auto.
  Qed.
End KeySep.

(* ---------------- the premises are satisfiable ---------------- *)
(* a toy MAC whose output has the required shape and which is injective in the key *)
Definition toy_enc (c : N) : N := 200 + c.
Definition toy_mac (k m : bytes) : bytes := 48 :: map toy_enc k.

Lemma toy_sig : forall k m, toy_mac k m <> [] /\ Forall sigok (toy_mac k m).
Proof.
  intros k m. split; [discriminate|]. unfold toy_mac. constructor; [unfold sigok; lia|].
  induction k as [|c k IH]; cbn [map]; [constructor|]. constructor; [unfold sigok, toy_enc; lia|exact IH].
Qed.

Lemma toy_inj : forall k k' m, toy_mac k m = toy_mac k' m -> k = k'.
Proof.
  intros k k' m H. unfold toy_mac in H. inversion H as [H']. clear H.
  revert k' H'. induction k as [|c k IH]; intros [|c' k'] H; cbn [map] in H; try discriminate; [reflexivity|].
  injection H as Hc Ht. unfold toy_enc in Hc. f_equal; [lia|auto].
Qed.

Definition ex_secret := SDict [(0%Z, [107]); (3%Z, [107; 51])].
Definition ex_name : bytes := [110; 195; 169; 124; 58; 10; 50].    (* "n\xc3\xa9|:\n2" *)
Definition ex_value : bytes := [0; 255; 124; 49; 50].

(* a concrete non-trivial instance of the round-trip hypotheses (dictionary secret, key
   version 3, non-ASCII name containing the delimiters and a newline), checked by computation *)
Example roundtrip_v2_instance :
  exists y, create toy_mac toy_mac ex_secret ex_name ex_value 2 1300000000 (Some 3%Z) = Ok y /\
            Forall isbyte ex_value /\
            decode toy_mac toy_mac ex_secret ex_name y (31 * 86400) (1300000000 + 31 * 86400) 1 = Ok (Some ex_value).
Proof.
  eexists. split; [reflexivity|]. split; [repeat constructor|].
  vm_compute. reflexivity.
Qed.

Example roundtrip_v1_instance :
  exists y, create toy_mac toy_mac (SStr [107]) ex_name ex_value 1 1300000000 None = Ok y /\
            decode toy_mac toy_mac (SStr [107]) ex_name y (31 * 86400) (1300000000 - 31 * 86400) 1 = Ok (Some ex_value).
Proof. eexists. split; [reflexivity|]. vm_compute. reflexivity. Qed.

(* format-1 cross-name replay, concrete: signed for name "n" with value "abcdef",
   accepted under name "nYWJj" with value "def" *)
Lemma v1_cross_name_witness :
  exists y p0' rest,
    create toy_mac toy_mac (SStr [107]) [110] [97;98;99;100;101;102] 1 1300000000 None = Ok y /\
    y = [89;87;74;106] ++ p0' ++ rest /\
    decode toy_mac toy_mac (SStr [107]) [110;89;87;74;106] (p0' ++ rest) (31 * 86400) 1300000000 1
    = Ok (Some [100;101;102]).
Proof.
  eexists. exists [90;71;86;109]. eexists. split; [reflexivity|]. split; [vm_compute; reflexivity|].
  vm_compute. reflexivity.
Qed.
