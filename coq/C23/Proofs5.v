(* C23 — the model satisfies the property checker: forall i, check_case i (run_case i) = true. *)
From Coq Require Import List NArith ZArith Bool Arith Lia String.
Import ListNotations.
From TV Require Import Lib.Obs C23.Model C23.Run C23.Proofs C23.Proofs1 C23.Proofs2.

Local Open Scope N_scope.

(* ---------------- the MAC table as a MAC function ---------------- *)
Lemma digest_ok_shape : forall d, digest_ok d = true -> d <> [] /\ Forall sigok d.
Proof.
  intros d H. unfold digest_ok in H. destruct d as [|c r]; [discriminate|]. split; [discriminate|].
  apply Forall_forall. intros x Hx. rewrite forallb_forall in H. specialize (H x Hx).
  apply andb_true_iff in H as [A B]. apply negb_true_iff in A. apply negb_true_iff in B.
  apply N.eqb_neq in A. apply N.eqb_neq in B. split; assumption.
Qed.

Lemma tlookup_in : forall tbl a k m d, tlookup tbl a k m = Some d -> In (a, k, m, d) tbl.
Proof.
  induction tbl as [|[[[a' k'] m'] d'] r IH]; intros a k m d H; cbn [tlookup] in H; [discriminate|].
  destruct (Bool.eqb a' a && bytes_eqb k' k && bytes_eqb m' m) eqn:E.
  - apply andb_true_iff in E as [E E3]. apply andb_true_iff in E as [E1 E2].
    apply Bool.eqb_prop in E1. apply bytes_eqb_eq in E2. apply bytes_eqb_eq in E3.
    inversion H. subst. left. reflexivity.
  - right. apply IH. exact H.
Qed.

Lemma tmac_shape : forall tbl a, tbl_ok tbl = true ->
    forall k m, tmac tbl a k m <> [] /\ Forall sigok (tmac tbl a k m).
Proof.
  intros tbl a Hok k m. unfold tmac. destruct (tlookup tbl a k m) as [d|] eqn:E.
  - apply tlookup_in in E. unfold tbl_ok in Hok. rewrite forallb_forall in Hok.
    specialize (Hok _ E). cbn [snd] in Hok. apply digest_ok_shape. exact Hok.
  - split; [discriminate|]. repeat constructor; unfold sigok; lia.
Qed.

Lemma is_suffix_app : forall (a d : bytes), is_suffix d (a ++ d) = true.
Proof.
  intros a d. unfold is_suffix. rewrite app_length. apply andb_true_iff. split.
  - apply Nat.leb_le. lia.
  - replace (List.length a + List.length d - List.length d)%nat with (List.length a) by lia.
    rewrite skipn_app, Nat.sub_diag, skipn_all. cbn [skipn app]. apply bytes_eqb_refl.
Qed.

Lemma provenance_use : forall tbl x q a k m d,
    provenance_ok tbl x q = true -> In (a, k, m, d) tbl -> is_suffix d x = true ->
    q = Some (a, k, m).
Proof.
  intros tbl x q a k m d Hp Hin Hs. unfold provenance_ok in Hp. rewrite forallb_forall in Hp.
  specialize (Hp _ Hin). cbn beta iota in Hp. rewrite Hs in Hp. cbn [negb orb] in Hp.
  unfold query_eqb in Hp. destruct q as [[[a' k'] m']|]; [|discriminate].
  apply andb_true_iff in Hp as [Hp E3]. apply andb_true_iff in Hp as [E1 E2].
  apply Bool.eqb_prop in E1. apply bytes_eqb_eq in E2. apply bytes_eqb_eq in E3. subst. reflexivity.
Qed.

Lemma all_bytes_isbyte : forall l, all_bytes l = true -> Forall isbyte l.
Proof.
  intros l H. apply Forall_forall. intros x Hx. unfold all_bytes in H. rewrite forallb_forall in H.
  specialize (H x Hx). apply N.ltb_lt in H. exact H.
Qed.

(* ---------------- the query decode makes ---------------- *)
Lemma decode_query_v2 : forall s name x minv kv tsb nf vf sg k,
    (minv <= 2)%Z -> get_version x = 2%Z -> x <> [] ->
    decode_fields x = Some (kv, tsb, nf, vf, sg) -> secret_key s kv = Some k ->
    decode_query s name x minv = Some (false, k, py_slice x 0 (- Z.of_nat (List.length sg))).
Proof.
  intros s name x minv kv tsb nf vf sg k Hm Hv Hx Hf Hk. unfold decode_query.
  destruct (2 <? minv)%Z eqn:E; [apply Z.ltb_lt in E; lia|].
  destruct x as [|c x']; [contradiction|]. rewrite Hv. rewrite E. cbn [Z.eqb Pos.eqb].
  rewrite Hf, Hk. reflexivity.
Qed.

Lemma decode_query_v1 : forall k name x minv p0 p1 sg,
    (minv <= 1)%Z -> get_version x = 1%Z -> x <> [] ->
    split 124 x = [p0; p1; sg] ->
    decode_query (SStr k) name x minv = Some (true, k, name ++ p0 ++ p1).
Proof.
  intros k name x minv p0 p1 sg Hm Hv Hx Hs. unfold decode_query.
  destruct (2 <? minv)%Z eqn:E; [apply Z.ltb_lt in E; lia|].
  destruct x as [|c x']; [contradiction|]. rewrite Hv.
  destruct (1 <? minv)%Z eqn:E1; [apply Z.ltb_lt in E1; lia|]. cbn [Z.eqb Pos.eqb].
  rewrite Hs. reflexivity.
Qed.

Definition run_decode (tbl : mactable) (s : secret) (name x : bytes) (maxage now minv : Z) : obs :=
  let missing :=
    match decode_query s name x minv with
    | Some (alg, k, m) => match tlookup tbl alg k m with Some _ => false | None => true end
    | None => false
    end in
  if missing then OTag "MacMissing"
  else dec_obs (decode (tmac tbl true) (tmac tbl false) s name x maxage now minv).

(* what an accepting run of the model looks like, in terms of the table *)
Lemma accept_inv : forall tbl s name x maxage now minv v,
    tbl_ok tbl = true ->
    run_decode tbl s name x maxage now minv = OBytes v ->
    (* format 2 *)
    (exists kvn tsb vf k S t d,
        get_version x = 2%Z /\ (minv <= 2)%Z /\
        decode_fields x = Some (kvn, tsb, name, vf, d) /\ x = S ++ d /\
        secret_key s kvn = Some k /\ In (false, k, S, d) tbl /\ tmac tbl false k S = d /\
        py_int tsb = Some t /\ (now - maxage <= t)%Z /\ b64decode vf = Some v)
    \/
    (* format 1 *)
    (exists k p0 p1 t d,
        get_version x = 1%Z /\ (minv <= 1)%Z /\ s = SStr k /\
        x = p0 ++ 124 :: p1 ++ 124 :: d /\ split 124 x = [p0; p1; d] /\
        In (true, k, name ++ p0 ++ p1, d) tbl /\ tmac tbl true k (name ++ p0 ++ p1) = d /\
        p1 = dec_Z t /\ (1 <= t)%Z /\ (now - maxage <= t <= now + 31 * 86400)%Z /\ b64decode p0 = Some v).
Proof.
  intros tbl s name x maxage now minv v Hok Hr.
  pose proof (tmac_shape tbl true Hok) as Hs1. pose proof (tmac_shape tbl false Hok) as Hs2.
  unfold run_decode in Hr.
  destruct (decode_query s name x minv) as [[[a kq] mq]|] eqn:Eq.
  2:{ (* no query and yet a value: impossible *)
    cbn iota in Hr.
    destruct (decode (tmac tbl true) (tmac tbl false) s name x maxage now minv) as [[v'|]|e] eqn:Ed;
      cbn [dec_obs] in Hr; try discriminate; [|destruct e; discriminate].
    exfalso.
    destruct (decode_some_cases _ _ Hs1 Hs2 _ _ _ _ _ _ _ Ed) as [[H1 [Hm [k [-> Hv1]]]]|[H2 [Hm Hv2]]].
    - destruct (soundness_v1 _ _ Hs1 Hs2 _ _ _ _ _ _ _ Ed H1) as [k' [p0 [p1 [t [Es [Hx [F0 [Hp1 _]]]]]]]].
      inversion Es; subst k'.
      assert (Hsp : split 124 x = [p0; p1; tmac tbl true k (name ++ p0 ++ p1)]).
      { rewrite Hx. apply split_v1; [exact F0| |].
        - rewrite Hp1. eapply Forall_impl; [|apply dec_Z_nodelim]. intros c [A _]. exact A.
        - destruct (Hs1 k (name ++ p0 ++ p1)) as [_ F]. eapply Forall_impl; [|exact F]. intros c [A _]. exact A. }
      assert (Hne : x <> []) by (rewrite Hx; intros E; apply app_eq_nil in E as [_ E]; discriminate).
      rewrite (decode_query_v1 k name x minv _ _ _ Hm H1 Hne Hsp) in Eq. discriminate.
    - destruct (decode_v2_inv _ Hs2 _ _ _ _ _ _ Hv2) as [kv [tsb [vf [k [S [t [Hf [Hx [Hk _]]]]]]]]].
      assert (Hne : x <> []).
      { rewrite Hx. destruct (Hs2 k S) as [Hn _]. intros E. apply app_eq_nil in E as [_ E]. contradiction. }
      rewrite (decode_query_v2 s name x minv _ _ _ _ _ k Hm H2 Hne Hf Hk) in Eq. discriminate. }
  destruct (tlookup tbl a kq mq) as [d|] eqn:El; [|discriminate]. cbn iota in Hr.
  destruct (decode (tmac tbl true) (tmac tbl false) s name x maxage now minv) as [[v'|]|e] eqn:Ed;
    cbn [dec_obs] in Hr; try discriminate; [|destruct e; discriminate].
  inversion Hr; subst v'. clear Hr.
  destruct (decode_some_cases _ _ Hs1 Hs2 _ _ _ _ _ _ _ Ed) as [[H1 [Hm [k [-> Hv1]]]]|[H2 [Hm Hv2]]].
  - right.
    destruct (soundness_v1 _ _ Hs1 Hs2 _ _ _ _ _ _ _ Ed H1) as [k' [p0 [p1 [t [Es [Hx [F0 [Hp1 [Ht [Hw [Hb _]]]]]]]]]]].
    inversion Es; subst k'.
    assert (Hsp : split 124 x = [p0; p1; tmac tbl true k (name ++ p0 ++ p1)]).
    { rewrite Hx. apply split_v1; [exact F0| |].
      - rewrite Hp1. eapply Forall_impl; [|apply dec_Z_nodelim]. intros c [A _]. exact A.
      - destruct (Hs1 k (name ++ p0 ++ p1)) as [_ F]. eapply Forall_impl; [|exact F]. intros c [A _]. exact A. }
    assert (Hne : x <> []) by (rewrite Hx; intros E; apply app_eq_nil in E as [_ E]; discriminate).
    rewrite (decode_query_v1 k name x minv _ _ _ Hm H1 Hne Hsp) in Eq. inversion Eq; subst a kq mq.
    assert (Etm : tmac tbl true k (name ++ p0 ++ p1) = d) by (unfold tmac; rewrite El; reflexivity).
    exists k, p0, p1, t, d. rewrite Etm in Hx, Hsp.
    repeat split; auto; try lia. apply tlookup_in. exact El.
  - left.
    destruct (decode_v2_inv _ Hs2 _ _ _ _ _ _ Hv2) as [kv [tsb [vf [k [S [t [Hf [Hx [Hk [Ht [Hw Hb]]]]]]]]]]].
    assert (Hne : x <> []).
    { rewrite Hx. destruct (Hs2 k S) as [Hn _]. intros E. apply app_eq_nil in E as [_ E]. contradiction. }
    rewrite (decode_query_v2 s name x minv _ _ _ _ _ k Hm H2 Hne Hf Hk) in Eq.
    assert (Hsl : py_slice x 0 (- Z.of_nat (List.length (tmac tbl false k S))) = S).
    { rewrite Hx at 1. apply slice_drop_suffix. apply Hs2. }
    rewrite Hsl in Eq. inversion Eq; subst a kq mq.
    assert (Etm : tmac tbl false k S = d) by (unfold tmac; rewrite El; reflexivity).
    exists kv, tsb, vf, k, S, t, d. rewrite Etm in Hf, Hx.
    repeat split; auto. apply tlookup_in. exact El.
Qed.

(* ---------------- auxiliary facts about create ---------------- *)
Lemma create2_of_key : forall mac1 mac2 s0 name0 v0 t0 kv0 k,
    create_key s0 kv0 = Some k ->
    create mac1 mac2 s0 name0 v0 2 t0 kv0 =
    Ok (to_sign2 (match kv0 with Some z => z | None => 0%Z end) t0 name0 v0
        ++ mac2 k (to_sign2 (match kv0 with Some z => z | None => 0%Z end) t0 name0 v0)).
Proof.
  intros mac1 mac2 s0 name0 v0 t0 kv0 k Hk. unfold create. cbn [Z.eqb Pos.eqb].
  destruct s0 as [k0|d]; cbn [create_key] in Hk.
  - inversion Hk. reflexivity.
  - destruct kv0 as [z|]; [|discriminate]. rewrite Hk. reflexivity.
Qed.

Lemma create2_key_inv : forall mac1 mac2 s0 name0 v0 t0 kv0 y,
    create mac1 mac2 s0 name0 v0 2 t0 kv0 = Ok y -> exists k, create_key s0 kv0 = Some k.
Proof.
  intros mac1 mac2 s0 name0 v0 t0 kv0 y H. unfold create in H. cbn [Z.eqb Pos.eqb] in H.
  destruct s0 as [k0|d]; cbn [create_key]; [eauto|].
  destruct kv0 as [z|]; [|discriminate]. destruct (dict_get d z) as [k|]; [eauto|discriminate].
Qed.

Lemma create_ver : forall mac1 mac2 s0 name0 v0 ver0 t0 kv0 y,
    create mac1 mac2 s0 name0 v0 ver0 t0 kv0 = Ok y -> ver0 = 1%Z \/ ver0 = 2%Z.
Proof.
  intros mac1 mac2 s0 name0 v0 ver0 t0 kv0 y H. unfold create in H.
  destruct (ver0 =? 1)%Z eqn:E1; [apply Z.eqb_eq in E1; auto|].
  destruct (ver0 =? 2)%Z eqn:E2; [apply Z.eqb_eq in E2; auto|discriminate].
Qed.

Lemma rt_reader_v2 : forall mac1 mac2,
    (forall k m, mac1 k m <> [] /\ Forall sigok (mac1 k m)) ->
    (forall k m, mac2 k m <> [] /\ Forall sigok (mac2 k m)) ->
    forall s name kvn t v k maxage now minv,
      Forall isbyte v -> secret_key s kvn = Some k -> (minv <= 2)%Z -> (now - maxage <= t)%Z ->
      decode mac1 mac2 s name (to_sign2 kvn t name v ++ mac2 k (to_sign2 kvn t name v)) maxage now minv = Ok (Some v).
Proof.
  intros mac1 mac2 Hs1 Hs2 s name kvn t v k maxage now minv Hv Hk Hm Hw.
  rewrite (decode_on_v2 mac1 mac2 Hs1 Hs2); [|assumption|apply get_version_to_sign2|].
  - rewrite decode_v2_canon by apply Hs2. rewrite Hk, !bytes_eqb_refl. cbn [negb].
    destruct (t <? now - maxage)%Z eqn:E; [apply Z.ltb_lt in E; lia|].
    rewrite b64_roundtrip by assumption. reflexivity.
  - rewrite to_sign2_body. discriminate.
Qed.

Lemma run_decode_shape : forall tbl s name x maxage now minv,
    (minv <= 2)%Z ->
    run_decode tbl s name x maxage now minv = OTag "MacMissing" \/
    (exists r, run_decode tbl s name x maxage now minv = dec_obs (Ok r) /\
               decode (tmac tbl true) (tmac tbl false) s name x maxage now minv = Ok r).
Proof.
  intros tbl s name x maxage now minv Hm. unfold run_decode.
  destruct (match decode_query s name x minv with
            | Some (alg, k, m) => match tlookup tbl alg k m with Some _ => false | None => true end
            | None => false end); [left; reflexivity|].
  right. destruct (decode_total (tmac tbl true) (tmac tbl false) s name x maxage now minv Hm) as [r Hr].
  exists r. rewrite Hr. auto.
Qed.

Local Open Scope Z_scope.

(* ---------------- the model satisfies the checker ---------------- *)
Lemma check_decode_model : forall tbl s name x maxage now minv h,
    check_decode tbl s name x maxage now minv h (run_decode tbl s name x maxage now minv) = true.
Proof.
  intros tbl s name x maxage now minv h. unfold check_decode.
  destruct (2 <? minv) eqn:Em.
  { unfold run_decode, decode_query, decode. rewrite Em. reflexivity. }
  apply Z.ltb_ge in Em.
  destruct (run_decode_shape tbl s name x maxage now minv Em) as [Hr|[r [Hr Hd]]]; rewrite Hr.
  { reflexivity. }
  destruct r as [v|]; cbn [dec_obs].
  - (* ---------- a value was returned: soundness ---------- *)
    assert (Hacc : tbl_ok tbl = true ->
                   run_decode tbl s name x maxage now minv = OBytes v) by (intros _; exact Hr).
    destruct h as [[[[[[[s0 name0] v0] ver0] t0] kv0]|]|[|]].
    + (* HAuth *)
      destruct (tbl_ok tbl) eqn:Hok; [|reflexivity]. cbn [andb].
      destruct (all_bytes v0) eqn:Hb0; [|reflexivity]. cbn [andb].
      destruct (provenance_ok tbl x (create_query s0 name0 v0 ver0 t0 kv0)) eqn:Hp; [|reflexivity].
      cbn [negb].
      pose proof (all_bytes_isbyte _ Hb0) as Hv0.
      pose proof (tmac_shape tbl true Hok) as Hs1. pose proof (tmac_shape tbl false Hok) as Hs2.
      destruct (accept_inv tbl s name x maxage now minv v Hok (Hacc eq_refl))
        as [[kvn [tsb [vf [k [S [t [d [Hg [Hmv [Hf [Hx [Hk [Hin [Etm [Ht [Hw Hbv]]]]]]]]]]]]]]]]
           |[k [p0 [p1 [t [d [Hg [Hmv [Es [Hx [Hsp [Hin [Etm [Hp1 [Ht1 [Hw Hbv]]]]]]]]]]]]]]]].
      * (* format 2 *)
        assert (Hsuf : is_suffix d x = true) by (rewrite Hx; apply is_suffix_app).
        pose proof (provenance_use _ _ _ _ _ _ _ Hp Hin Hsuf) as Hq.
        unfold create_query in Hq.
        destruct (ver0 =? 1) eqn:E1; [destruct s0; discriminate|].
        destruct (ver0 =? 2) eqn:E2; [|discriminate]. apply Z.eqb_eq in E2. subst ver0.
        destruct (create_key s0 kv0) as [k'|] eqn:Ek; [|discriminate].
        inversion Hq; subst k' S. clear Hq.
        rewrite (create2_of_key _ _ _ _ _ _ _ _ Ek). cbn [Z.eqb Pos.eqb].
        rewrite Etm. rewrite Hx in Hf. rewrite decode_fields_canon in Hf.
        injection Hf as F1 F2 F3 F4. subst kvn tsb name vf.
        rewrite py_int_dec_Z in Ht. injection Ht as Ht. subst t.
        rewrite b64_roundtrip in Hbv by assumption. injection Hbv as Hbv. subst v.
        rewrite Hx, !bytes_eqb_refl. rewrite Hk. cbn [opt_bytes_eqb]. rewrite bytes_eqb_refl.
        cbn [andb]. apply andb_true_iff. split; apply Z.leb_le; lia.
      * (* format 1 *)
        assert (Hsuf : is_suffix d x = true).
        { rewrite Hx. replace (p0 ++ 124%N :: p1 ++ 124%N :: d) with ((p0 ++ 124%N :: p1 ++ [124%N]) ++ d).
          - apply is_suffix_app.
          - rewrite <- !app_assoc. cbn [app]. rewrite <- app_assoc. reflexivity. }
        pose proof (provenance_use _ _ _ _ _ _ _ Hp Hin Hsuf) as Hq.
        unfold create_query in Hq.
        destruct (ver0 =? 1) eqn:E1.
        2:{ destruct (ver0 =? 2); [|discriminate]. destruct (create_key s0 kv0); discriminate. }
        apply Z.eqb_eq in E1. subst ver0.
        destruct s0 as [k0|d0]; [|discriminate]. inversion Hq as [[Ek Em0]]. subst k0. clear Hq.
        unfold create. cbn [Z.eqb Pos.eqb]. subst s.
        destruct (b64encode_shape v0 Hv0) as [Fb _].
        assert (Fb' : Forall (fun c => c <> 124%N) (b64encode v0))
          by (eapply Forall_impl; [|exact Fb]; intros c [A _]; exact A).
        assert (Ft : Forall (fun c => c <> 124%N) (dec_Z t0))
          by (eapply Forall_impl; [|apply dec_Z_nodelim]; intros c [A _]; exact A).
        rewrite Em0, Etm.
        assert (Fd : Forall (fun c => c <> 124%N) d).
        { rewrite <- Etm. destruct (Hs1 k (name ++ p0 ++ p1)) as [_ F]. eapply Forall_impl; [|exact F]. intros c [A _]. exact A. }
        change (b64encode v0 ++ [124%N] ++ dec_Z t0 ++ [124%N] ++ d)
          with (b64encode v0 ++ 124%N :: dec_Z t0 ++ 124%N :: d).
        rewrite (split_v1 _ _ _ Fb' Ft Fd). rewrite Hsp.
        rewrite !bytes_eqb_refl. cbn [andb].
        assert (Hm1 : (minv <=? 1) = true) by (apply Z.leb_le; lia). rewrite Hm1. cbn [andb].
        rewrite Em0, bytes_eqb_refl. cbn [andb].
        rewrite Hp1. rewrite is_digits_dec_Z by lia. rewrite dec_Z_no_leading_zero by lia. cbn [negb andb].
        rewrite py_int_dec_Z.
        assert (W1 : (now - maxage <=? t) = true) by (apply Z.leb_le; lia).
        assert (W2 : (t <=? now + 31 * 86400) = true) by (apply Z.leb_le; lia).
        rewrite W1, W2. cbn [andb].
        destruct (bytes_eqb name name0) eqn:En; [|reflexivity]. cbn [negb orb].
        apply bytes_eqb_eq in En. subst name0. apply app_inv_head in Em0.
        destruct (Z_le_gt_dec t0 0) as [Hle|Hgt].
        { assert (E : (2 * t0 <? t) = true) by (apply Z.ltb_lt; lia). rewrite E. rewrite orb_true_r. reflexivity. }
        assert (C1 : canonical p1).
        { rewrite Hp1. unfold dec_Z. destruct (t <? 0) eqn:E; [apply Z.ltb_lt in E; lia|]. apply dec_N_canonical. lia. }
        assert (C0 : canonical (dec_Z t0)).
        { unfold dec_Z. destruct (t0 <? 0) eqn:E; [apply Z.ltb_lt in E; lia|]. apply dec_N_canonical. lia. }
        assert (D1 : digits_to_N 0 p1 = Z.to_N t).
        { rewrite Hp1. unfold dec_Z. destruct (t <? 0) eqn:E; [apply Z.ltb_lt in E; lia|]. apply dec_N_spec. }
        assert (D0 : digits_to_N 0 (dec_Z t0) = Z.to_N t0).
        { unfold dec_Z. destruct (t0 <? 0) eqn:E; [apply Z.ltb_lt in E; lia|]. apply dec_N_spec. }
        symmetry in Em0.
        destruct (resplit_cases _ _ _ _ C1 C0 Em0) as [[E0 E1]|[L|L]].
        -- subst p0. rewrite bytes_eqb_refl. rewrite b64_roundtrip in Hbv by assumption.
           injection Hbv as Hbv. subst v. rewrite bytes_eqb_refl. reflexivity.
        -- rewrite D0, D1 in L. assert (E : (2 * t0 <? t) = true) by (apply Z.ltb_lt; lia).
           rewrite E. rewrite orb_true_r. reflexivity.
        -- rewrite D0, D1 in L. assert (E : (2 * t <? t0) = true) by (apply Z.ltb_lt; lia).
           rewrite E. rewrite !orb_true_r. reflexivity.
    + (* inl None: treated as HNone *)
      destruct (tbl_ok tbl) eqn:Hok; [|reflexivity]. cbn [andb].
      destruct (provenance_ok tbl x None) eqn:Hp; [|reflexivity]. exfalso.
      destruct (accept_inv tbl s name x maxage now minv v Hok (Hacc eq_refl))
        as [(kvn & tsb & vf & k & S & t & d & _ & _ & _ & Hx & _ & Hin & _)
           |(k & p0 & p1 & t & d & _ & _ & _ & Hx & _ & Hin & _)].
      * assert (Hsuf : is_suffix d x = true) by (rewrite Hx; apply is_suffix_app).
        pose proof (provenance_use _ _ _ _ _ _ _ Hp Hin Hsuf). discriminate.
      * assert (Hsuf : is_suffix d x = true).
        { rewrite Hx. replace (p0 ++ 124%N :: p1 ++ 124%N :: d) with ((p0 ++ 124%N :: p1 ++ [124%N]) ++ d).
          - apply is_suffix_app.
          - rewrite <- !app_assoc. cbn [app]. rewrite <- app_assoc. reflexivity. }
        pose proof (provenance_use _ _ _ _ _ _ _ Hp Hin Hsuf). discriminate.
    + reflexivity.
    + (* HNone *)
      destruct (tbl_ok tbl) eqn:Hok; [|reflexivity]. cbn [andb].
      destruct (provenance_ok tbl x None) eqn:Hp; [|reflexivity]. exfalso.
      destruct (accept_inv tbl s name x maxage now minv v Hok (Hacc eq_refl))
        as [(kvn & tsb & vf & k & S & t & d & _ & _ & _ & Hx & _ & Hin & _)
           |(k & p0 & p1 & t & d & _ & _ & _ & Hx & _ & Hin & _)].
      * assert (Hsuf : is_suffix d x = true) by (rewrite Hx; apply is_suffix_app).
        pose proof (provenance_use _ _ _ _ _ _ _ Hp Hin Hsuf). discriminate.
      * assert (Hsuf : is_suffix d x = true).
        { rewrite Hx. replace (p0 ++ 124%N :: p1 ++ 124%N :: d) with ((p0 ++ 124%N :: p1 ++ [124%N]) ++ d).
          - apply is_suffix_app.
          - rewrite <- !app_assoc. cbn [app]. rewrite <- app_assoc. reflexivity. }
        pose proof (provenance_use _ _ _ _ _ _ _ Hp Hin Hsuf). discriminate.
  - (* ---------- rejected: the round trip obligation ---------- *)
    destruct h as [[[[[[[s0 name0] v0] ver0] t0] kv0]|]|b]; try reflexivity.
    destruct (create (tmac tbl true) (tmac tbl false) s0 name0 v0 ver0 t0 kv0) as [y|e] eqn:Ec; [|reflexivity].
    apply negb_true_iff.
    match goal with |- ?c = false => destruct c eqn:Econj; [exfalso|reflexivity] end.
    repeat (apply andb_true_iff in Econj; let H := fresh "C" in destruct Econj as [Econj H]).
    (* Econj: tbl_ok; C7..: in reverse order *)
    pose proof (tmac_shape tbl true Econj) as Hs1. pose proof (tmac_shape tbl false Econj) as Hs2.
    match goal with H : all_bytes v0 = true |- _ => pose proof (all_bytes_isbyte _ H) as Hv0 end.
    match goal with H : bytes_eqb x y = true |- _ => apply bytes_eqb_eq in H; subst y end.
    match goal with H : bytes_eqb name name0 = true |- _ => apply bytes_eqb_eq in H; subst name0 end.
    repeat match goal with H : (_ <=? _) = true |- _ => apply Z.leb_le in H end.
    assert (Hdec : decode (tmac tbl true) (tmac tbl false) s name x maxage now minv = Ok (Some v0)).
    { destruct (create_ver _ _ _ _ _ _ _ _ _ Ec) as [-> | ->].
      - (* format 1 *)
        cbn [Z.eqb Pos.eqb] in *.
        destruct s as [k|ds]; [|discriminate]. destruct s0 as [k0|d0]; [|discriminate].
        match goal with H : bytes_eqb k k0 = true |- _ => apply bytes_eqb_eq in H; subst k0 end.
        match goal with H : (false || _)%bool = true |- _ => cbn [orb] in H; apply Z.leb_le in H end.
        eapply (roundtrip_v1 _ _ Hs1 Hs2); eauto.
      - (* format 2 *)
        cbn [Z.eqb Pos.eqb] in *.
        destruct (create2_key_inv _ _ _ _ _ _ _ _ Ec) as [k0 Ek0].
        rewrite (create2_of_key _ _ _ _ _ _ _ _ Ek0) in Ec. injection Ec as Ec. subst x.
        match goal with H : opt_bytes_eqb _ _ = true |- _ => rewrite Ek0 in H; unfold opt_bytes_eqb in H end.
        destruct (secret_key s (match kv0 with Some z => z | None => 0 end)) as [k|] eqn:Ek; [|discriminate].
        match goal with H : bytes_eqb k k0 = true |- _ => apply bytes_eqb_eq in H; subst k0 end.
        apply (rt_reader_v2 _ _ Hs1 Hs2); auto. }
    rewrite Hdec in Hd. discriminate.
Qed.

Theorem check_accepts_model : forall c, check_case c (run_case c) = true.
Proof.
  intros [tbl [s name v ver t kv | s name [xa|] maxage now minv h | x]]; cbn [check_case run_case]; try reflexivity.
  - apply check_decode_model.
  - unfold decode_api. destruct (2 <? minv)%Z; reflexivity.
Qed.
