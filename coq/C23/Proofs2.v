(* C23 — round trip, unique parsing, soundness, key separation. *)
From Coq Require Import List NArith ZArith Bool Arith Lia.
Import ListNotations.
From TV Require Import C23.Model C23.Proofs1.

Local Open Scope N_scope.

Definition sigok (c : N) : Prop := c <> 124 /\ c <> 10.

(* ---------------- unique parsing of the canonical format-2 layout ---------------- *)
Lemma consume_field_canon : forall s rest, consume_field (field s ++ 124 :: rest) = Some (s, rest).
Proof.
  intros s rest. unfold consume_field, field.
  replace ((dec_N (N.of_nat (length s)) ++ [58] ++ s) ++ 124 :: rest)
    with (dec_N (N.of_nat (length s)) ++ 58 :: (s ++ 124 :: rest))
    by (rewrite <- !app_assoc; reflexivity).
  rewrite partition_app.
  2:{ eapply Forall_impl; [|apply dec_N_nodelim]. intros c [_ [_ A]]. exact A. }
  rewrite py_int_dec_N. rewrite nat_N_Z.
  rewrite slice_at. cbn [bytes_eqb]. rewrite N.eqb_refl. cbn [andb].
  rewrite slice_prefix, from_at. reflexivity.
Qed.

Definition body2 (kv t : Z) (name v : bytes) : bytes :=
  field (dec_Z kv) ++ 124 :: field (dec_Z t) ++ 124 :: field name ++ 124 :: field (b64encode v) ++ [124].

Lemma to_sign2_body : forall kv t name v, to_sign2 kv t name v = 50 :: 124 :: body2 kv t name v.
Proof.
  intros. unfold to_sign2, body2. cbn [app]. reflexivity.
Qed.

Lemma decode_fields_canon : forall kv t name v sg,
    decode_fields (to_sign2 kv t name v ++ sg) = Some (kv, dec_Z t, name, b64encode v, sg).
Proof.
  intros. rewrite to_sign2_body. unfold decode_fields, body2. cbn [app skipn].
  rewrite <- !app_assoc. cbn [app]. rewrite consume_field_canon.
  rewrite <- !app_assoc. cbn [app]. rewrite consume_field_canon.
  rewrite <- !app_assoc. cbn [app]. rewrite consume_field_canon.
  rewrite <- !app_assoc. cbn [app]. rewrite consume_field_canon.
  rewrite py_int_dec_Z. reflexivity.
Qed.

Lemma get_version_to_sign2 : forall kv t name v sg,
    get_version (to_sign2 kv t name v ++ sg) = 2%Z.
Proof. intros. rewrite to_sign2_body. reflexivity. Qed.

(* suffix facts for the lax parser *)
Lemma consume_field_suffix : forall s f r, consume_field s = Some (f, r) -> exists pre, s = pre ++ r.
Proof.
  intros s f r H. unfold consume_field in H.
  destruct (partition 58 s) as [[lb fd] rest] eqn:Ep.
  destruct (py_int lb) as [n|]; [|discriminate].
  destruct (bytes_eqb (py_slice rest n (n + 1)) [124]); [|discriminate].
  inversion H; subst.
  destruct (partition_suffix _ _ _ _ _ Ep) as [p1 H1].
  destruct (py_from_suffix rest (n + 1)) as [p2 H2].
  exists (p1 ++ p2). rewrite <- app_assoc, <- H2. exact H1.
Qed.

Lemma decode_fields_suffix : forall x kv tsb nf vf sg,
    decode_fields x = Some (kv, tsb, nf, vf, sg) -> exists pre, x = pre ++ sg.
Proof.
  intros x kv tsb nf vf sg H. unfold decode_fields in H.
  destruct (consume_field (skipn 2 x)) as [[a r1]|] eqn:E1; [|discriminate].
  destruct (consume_field r1) as [[b r2]|] eqn:E2; [|discriminate].
  destruct (consume_field r2) as [[c r3]|] eqn:E3; [|discriminate].
  destruct (consume_field r3) as [[d r4]|] eqn:E4; [|discriminate].
  destruct (py_int a); [|discriminate]. inversion H; subst.
  apply consume_field_suffix in E1 as [q1 H1]. apply consume_field_suffix in E2 as [q2 H2].
  apply consume_field_suffix in E3 as [q3 H3]. apply consume_field_suffix in E4 as [q4 H4].
  exists (firstn 2 x ++ q1 ++ q2 ++ q3 ++ q4).
  rewrite <- !app_assoc. rewrite <- H4, <- H3, <- H2, <- H1. symmetry. apply firstn_skipn.
Qed.

Section WithMac.
  Variable mac1 mac2 : bytes -> bytes -> bytes.
  (* the only facts about HMAC output the parser depends on: a hex digest is not empty and
     contains neither a pipe nor a newline *)
  Hypothesis Hsig1 : forall k m, mac1 k m <> [] /\ Forall sigok (mac1 k m).
  Hypothesis Hsig2 : forall k m, mac2 k m <> [] /\ Forall sigok (mac2 k m).

  (* what create version 2 returns *)
  Lemma create2_inv : forall s name v t kv y,
      create mac1 mac2 s name v 2 t kv = Ok y ->
      exists kvn k, y = to_sign2 kvn t name v ++ mac2 k (to_sign2 kvn t name v) /\ secret_key s kvn = Some k
                    /\ kvn = match kv with Some z => z | None => 0%Z end.
  Proof.
    intros s name v t kv y H. unfold create in H. cbn [Z.eqb Pos.eqb] in H.
    destruct s as [k|d].
    - inversion H; subst. eexists _, k. repeat split.
    - destruct kv as [z|]; [|discriminate]. destruct (dict_get d z) as [k|] eqn:E; [|discriminate].
      inversion H; subst. exists z, k. repeat split. exact E.
  Qed.

  (* decode_v2 on a canonical message *)
  Lemma decode_v2_canon : forall s name kvn t n0 v0 sg maxage now,
      sg <> [] ->
      decode_v2 mac2 s name (to_sign2 kvn t n0 v0 ++ sg) maxage now =
      match secret_key s kvn with
      | None => None
      | Some k =>
          if negb (bytes_eqb sg (mac2 k (to_sign2 kvn t n0 v0))) then None
          else if negb (bytes_eqb n0 name) then None
          else if (t <? now - maxage)%Z then None else b64decode (b64encode v0)
      end.
  Proof.
    intros. unfold decode_v2. rewrite decode_fields_canon. rewrite slice_drop_suffix by assumption.
    destruct (secret_key s kvn); [|reflexivity]. rewrite py_int_dec_Z. reflexivity.
  Qed.

  Lemma decode_on_v2 : forall s name x maxage now minv,
      (minv <= 2)%Z -> get_version x = 2%Z -> x <> [] ->
      decode mac1 mac2 s name x maxage now minv = Ok (decode_v2 mac2 s name x maxage now).
  Proof.
    intros s name x maxage now minv Hm Hv Hx. unfold decode.
    destruct (2 <? minv)%Z eqn:E; [apply Z.ltb_lt in E; lia|].
    destruct x as [|c x']; [contradiction|]. rewrite Hv.
    destruct (2 <? minv)%Z eqn:E'; [discriminate|]. reflexivity.
  Qed.

  (* ---------------- round trip, format 2 ---------------- *)
  Theorem roundtrip_v2 : forall s name v t kv y maxage now minv,
      Forall isbyte v ->
      create mac1 mac2 s name v 2 t kv = Ok y ->
      (minv <= 2)%Z -> (now - maxage <= t)%Z ->
      decode mac1 mac2 s name y maxage now minv = Ok (Some v).
  Proof.
    intros s name v t kv y maxage now minv Hv Hc Hm Hw.
    destruct (create2_inv _ _ _ _ _ _ Hc) as [kvn [k [-> [Hk _]]]].
    destruct (Hsig2 k (to_sign2 kvn t name v)) as [Hne _].
    rewrite decode_on_v2; [|assumption| |].
    - rewrite decode_v2_canon by assumption. rewrite Hk, !bytes_eqb_refl. cbn [negb].
      destruct (t <? now - maxage)%Z eqn:E; [apply Z.ltb_lt in E; lia|].
      rewrite b64_roundtrip by assumption. reflexivity.
    - apply get_version_to_sign2.
    - rewrite to_sign2_body. discriminate.
  Qed.

  (* an authentic format-2 value is rejected by every reader once expired *)
  Theorem expired_v2 : forall s0 name0 v t kv y s name maxage now minv,
      Forall isbyte v ->
      create mac1 mac2 s0 name0 v 2 t kv = Ok y ->
      (minv <= 2)%Z -> (t < now - maxage)%Z ->
      decode mac1 mac2 s name y maxage now minv = Ok None.
  Proof.
    intros s0 name0 v t kv y s name maxage now minv Hv Hc Hm Hw.
    destruct (create2_inv _ _ _ _ _ _ Hc) as [kvn [k [-> [Hk _]]]].
    destruct (Hsig2 k (to_sign2 kvn t name0 v)) as [Hne _].
    rewrite decode_on_v2; [|assumption| |].
    - rewrite decode_v2_canon by assumption.
      destruct (secret_key s kvn); [|reflexivity].
      destruct (negb _); [reflexivity|]. destruct (negb _); [reflexivity|].
      destruct (t <? now - maxage)%Z eqn:E; [reflexivity|apply Z.ltb_ge in E; lia].
    - apply get_version_to_sign2.
    - rewrite to_sign2_body. discriminate.
  Qed.

  (* ---------------- what any accepted string looks like ---------------- *)
  Lemma decode_v2_inv : forall s name x maxage now v,
      decode_v2 mac2 s name x maxage now = Some v ->
      exists kv tsb vf k S t,
        decode_fields x = Some (kv, tsb, name, vf, mac2 k S) /\ x = S ++ mac2 k S /\
        secret_key s kv = Some k /\ py_int tsb = Some t /\ (now - maxage <= t)%Z /\ b64decode vf = Some v.
  Proof.
    intros s name x maxage now v H. unfold decode_v2 in H.
    destruct (decode_fields x) as [[[[[kv tsb] nf] vf] sg]|] eqn:Ef; [|discriminate].
    destruct (secret_key s kv) as [k|] eqn:Ek; [|discriminate].
    destruct (bytes_eqb sg _) eqn:Es; cbn [negb] in H; [|discriminate].
    destruct (bytes_eqb nf name) eqn:En; cbn [negb] in H; [|discriminate].
    destruct (py_int tsb) as [t|] eqn:Et; [|discriminate].
    destruct (t <? now - maxage)%Z eqn:Ew; [discriminate|]. apply Z.ltb_ge in Ew.
    apply bytes_eqb_eq in Es. apply bytes_eqb_eq in En. subst nf.
    destruct (decode_fields_suffix _ _ _ _ _ _ Ef) as [pre Hx].
    assert (Hne : sg <> []) by (rewrite Es; apply Hsig2).
    pose proof (slice_drop_suffix pre sg Hne) as Hs. rewrite <- Hx in Hs. rewrite Hs in Es.
    exists kv, tsb, vf, k, pre, t. rewrite <- Es. repeat split; assumption.
  Qed.

  Lemma decode_some_cases : forall s name x maxage now minv v,
      decode mac1 mac2 s name x maxage now minv = Ok (Some v) ->
      (get_version x = 1%Z /\ (minv <= 1)%Z /\ exists k, s = SStr k /\ decode_v1 mac1 k name x maxage now = Some v)
      \/ (get_version x = 2%Z /\ (minv <= 2)%Z /\ decode_v2 mac2 s name x maxage now = Some v).
  Proof.
    intros s name x maxage now minv v H. unfold decode in H.
    destruct (2 <? minv)%Z eqn:E; [discriminate|]. apply Z.ltb_ge in E.
    destruct x as [|c x']; [discriminate|].
    destruct (get_version (c :: x') <? minv)%Z eqn:E1; [discriminate|]. apply Z.ltb_ge in E1.
    destruct (get_version (c :: x') =? 1)%Z eqn:E2.
    - apply Z.eqb_eq in E2. left. destruct s as [k|d]; [|discriminate].
      inversion H. repeat split; [assumption|lia|]. exists k. auto.
    - destruct (get_version (c :: x') =? 2)%Z eqn:E3; [|discriminate].
      apply Z.eqb_eq in E3. right. inversion H. auto.
  Qed.

  (* ---------------- soundness, format 2 ----------------
     Unforgeability is the explicit premise [Hunf]: whenever the presented string is some
     message followed by its valid MAC under a key the reader holds, that message was issued
     by create_signed_value (format 2, byte-valued payload). *)
  Theorem soundness_v2 : forall s name x maxage now minv v,
      decode mac1 mac2 s name x maxage now minv = Ok (Some v) ->
      get_version x = 2%Z ->
      (forall k S, x = S ++ mac2 k S -> (exists kv, secret_key s kv = Some k) ->
                   exists kv' t' n' v', S = to_sign2 kv' t' n' v' /\ Forall isbyte v') ->
      exists t kv, create mac1 mac2 s name v 2 t (Some kv) = Ok x /\ (now - maxage <= t)%Z /\ (minv <= 2)%Z.
  Proof.
    intros s name x maxage now minv v H Hv Hunf.
    destruct (decode_some_cases _ _ _ _ _ _ _ H) as [[H1 _]|[_ [Hm H2]]]; [lia|].
    destruct (decode_v2_inv _ _ _ _ _ _ H2) as [kv [tsb [vf [k [S [t [Hf [Hx [Hk [Ht [Hw Hb]]]]]]]]]]].
    destruct (Hunf k S Hx (ex_intro _ kv Hk)) as [kv' [t' [n' [v' [HS Hbytes]]]]].
    rewrite Hx, HS, decode_fields_canon in Hf. inversion Hf; subst kv' tsb n' vf.
    rewrite py_int_dec_Z in Ht. inversion Ht; subst t'.
    rewrite b64_roundtrip in Hb by assumption. inversion Hb; subst v'.
    exists t, kv. repeat split; try assumption.
    unfold create. cbn [Z.eqb Pos.eqb]. rewrite Hx, HS. destruct s as [k0|d].
    - cbn [secret_key] in Hk. inversion Hk. reflexivity.
    - cbn [secret_key] in Hk. rewrite Hk. reflexivity.
  Qed.

  (* ---------------- an authentic format-2 value under another reader ----------------
     no premise about forgeries is needed here: name, payload, window and key version are
     read back exactly, and the reader's key for that key version produced the same MAC *)
  Theorem authentic_v2_reader : forall s0 name0 v0 t0 kv0 y s name maxage now minv v,
      Forall isbyte v0 ->
      create mac1 mac2 s0 name0 v0 2 t0 kv0 = Ok y ->
      decode mac1 mac2 s name y maxage now minv = Ok (Some v) ->
      name = name0 /\ v = v0 /\ (now - maxage <= t0)%Z /\ (minv <= 2)%Z /\
      exists kvn k0 k, kvn = match kv0 with Some z => z | None => 0%Z end /\
                       secret_key s0 kvn = Some k0 /\ secret_key s kvn = Some k /\
                       mac2 k (to_sign2 kvn t0 name0 v0) = mac2 k0 (to_sign2 kvn t0 name0 v0).
  Proof.
    intros s0 name0 v0 t0 kv0 y s name maxage now minv v Hv Hc H.
    destruct (create2_inv _ _ _ _ _ _ Hc) as [kvn [k0 [-> [Hk0 Hkvn]]]].
    destruct (Hsig2 k0 (to_sign2 kvn t0 name0 v0)) as [Hne _].
    assert (Hg : get_version (to_sign2 kvn t0 name0 v0 ++ mac2 k0 (to_sign2 kvn t0 name0 v0)) = 2%Z)
      by apply get_version_to_sign2.
    destruct (decode_some_cases _ _ _ _ _ _ _ H) as [[H1 _]|[_ [Hm H2]]]; [rewrite Hg in H1; discriminate|].
    rewrite decode_v2_canon in H2 by assumption.
    destruct (secret_key s kvn) as [k|] eqn:Ek; [|discriminate].
    destruct (bytes_eqb _ (mac2 k _)) eqn:Es; cbn [negb] in H2; [|discriminate].
    destruct (bytes_eqb name0 name) eqn:En; cbn [negb] in H2; [|discriminate].
    destruct (t0 <? now - maxage)%Z eqn:Ew; [discriminate|]. apply Z.ltb_ge in Ew.
    rewrite b64_roundtrip in H2 by assumption. inversion H2; subst v.
    apply bytes_eqb_eq in Es. apply bytes_eqb_eq in En.
    repeat split; auto. exists kvn, k0, k. auto.
  Qed.

  (* ---------------- format 1 ---------------- *)
  Lemma span_digits_v1 : forall b rest,
      Forall (fun c => c <> 124) b ->
      (span_digits (b ++ 124 :: rest) = (b, 124 :: rest)) \/
      (exists d c t', span_digits (b ++ 124 :: rest) = (d, c :: t') /\ c <> 124).
  Proof.
    intros b rest H. induction H as [|c b Hc Hb IH].
    - left. reflexivity.
    - cbn [app span_digits]. destruct (is_digit c) eqn:Ed.
      + destruct IH as [IH|[d [c' [t' [IH Hc']]]]]; rewrite IH.
        * left. reflexivity.
        * right. exists (c :: d), c', t'. auto.
      + right. exists [], c, (b ++ 124 :: rest). auto.
  Qed.

  Lemma get_version_v1_shape : forall b rest,
      Forall (fun c => c <> 124) b -> (exists k, length b = (4 * k)%nat) ->
      get_version (b ++ 124 :: rest) = 1%Z.
  Proof.
    intros b rest Hb [k Hk]. unfold get_version.
    destruct (span_digits_v1 b rest Hb) as [E|[d [c [t' [E Hc]]]]]; rewrite E.
    - destruct b as [|c b']; [reflexivity|].
      destruct (negb (c =? 48) && (124 =? 124)); [|reflexivity].
      destruct (3 <? length (c :: b'))%nat eqn:E3; [reflexivity|].
      apply Nat.ltb_ge in E3. cbn [length] in *. lia.
    - destruct d as [|c0 d']; [reflexivity|].
      apply N.eqb_neq in Hc. rewrite Hc. rewrite andb_false_r. reflexivity.
  Qed.

  Lemma create1_inv : forall s name v t kv y,
      create mac1 mac2 s name v 1 t kv = Ok y ->
      exists k, s = SStr k /\
                y = b64encode v ++ 124 :: dec_Z t ++ 124 :: mac1 k (name ++ b64encode v ++ dec_Z t).
  Proof.
    intros s name v t kv y H. unfold create in H. cbn [Z.eqb Pos.eqb] in H.
    destruct s as [k|d]; [|discriminate]. inversion H. exists k. split; reflexivity.
  Qed.

  Lemma split_v1 : forall p0 p1 sg,
      Forall (fun c => c <> 124) p0 -> Forall (fun c => c <> 124) p1 -> Forall (fun c => c <> 124) sg ->
      split 124 (p0 ++ 124 :: p1 ++ 124 :: sg) = [p0; p1; sg].
  Proof. intros. rewrite split_app by assumption. rewrite split_app by assumption. rewrite split_nosep by assumption. reflexivity. Qed.

  Theorem roundtrip_v1 : forall s name v t kv y maxage now minv,
      Forall isbyte v ->
      create mac1 mac2 s name v 1 t kv = Ok y ->
      (minv <= 1)%Z -> (1 <= t)%Z -> (now - maxage <= t)%Z -> (t <= now + 31 * 86400)%Z ->
      decode mac1 mac2 s name y maxage now minv = Ok (Some v).
  Proof.
    intros s name v t kv y maxage now minv Hv Hc Hm Ht Hw Hf.
    destruct (create1_inv _ _ _ _ _ _ Hc) as [k [-> ->]].
    destruct (b64encode_shape v Hv) as [Fb Hlen].
    assert (Fb' : Forall (fun c => c <> 124) (b64encode v))
      by (eapply Forall_impl; [|exact Fb]; intros c [A _]; exact A).
    assert (Ft : Forall (fun c => c <> 124) (dec_Z t))
      by (eapply Forall_impl; [|apply dec_Z_nodelim]; intros c [A _]; exact A).
    assert (Fs : Forall (fun c => c <> 124) (mac1 k (name ++ b64encode v ++ dec_Z t)))
      by (destruct (Hsig1 k (name ++ b64encode v ++ dec_Z t)) as [_ F]; eapply Forall_impl; [|exact F]; intros c [A _]; exact A).
    unfold decode.
    destruct (2 <? minv)%Z eqn:E; [apply Z.ltb_lt in E; lia|].
    rewrite (get_version_v1_shape _ _ Fb' Hlen).
    destruct (b64encode v ++ 124 :: dec_Z t ++ 124 :: mac1 k (name ++ b64encode v ++ dec_Z t)) as [|c x'] eqn:Ex.
    { apply app_eq_nil in Ex as [_ Ex]. discriminate. }
    destruct (1 <? minv)%Z eqn:E1; [apply Z.ltb_lt in E1; lia|].
    cbn [Z.eqb Pos.eqb]. rewrite <- Ex. unfold decode_v1.
    rewrite split_v1 by assumption. rewrite bytes_eqb_refl. cbn [negb].
    rewrite is_digits_dec_Z by lia. cbn [negb].
    rewrite py_int_dec_Z.
    destruct (t <? now - maxage)%Z eqn:E2; [apply Z.ltb_lt in E2; lia|].
    destruct (now + 31 * 86400 <? t)%Z eqn:E3; [apply Z.ltb_lt in E3; lia|].
    rewrite dec_Z_no_leading_zero by assumption.
    rewrite b64_roundtrip by assumption. reflexivity.
  Qed.

  (* what an accepted format-1 string looks like (the weaker statement: the MAC covers the
     undelimited concatenation name ++ p0 ++ p1) *)
  Theorem soundness_v1 : forall s name x maxage now minv v,
      decode mac1 mac2 s name x maxage now minv = Ok (Some v) ->
      get_version x = 1%Z ->
      exists k p0 p1 t,
        s = SStr k /\ x = p0 ++ 124 :: p1 ++ 124 :: mac1 k (name ++ p0 ++ p1) /\
        Forall (fun c => c <> 124) p0 /\
        p1 = dec_Z t /\ (1 <= t)%Z /\ (now - maxage <= t <= now + 31 * 86400)%Z /\
        b64decode p0 = Some v /\ (minv <= 1)%Z.
  Proof.
    intros s name x maxage now minv v H Hv.
    destruct (decode_some_cases _ _ _ _ _ _ _ H) as [[_ [Hm [k [-> H1]]]]|[H2 _]]; [|lia].
    unfold decode_v1 in H1.
    destruct (split 124 x) as [|p0 [|p1 [|sg [|? ?]]]] eqn:Es; try discriminate.
    destruct (bytes_eqb sg _) eqn:Eg; cbn [negb] in H1; [|discriminate].
    destruct (is_digits p1) eqn:Ed; cbn [negb] in H1; [|discriminate].
    destruct (py_int p1) as [t|] eqn:Et; [|discriminate].
    destruct (t <? now - maxage)%Z eqn:E2; [discriminate|]. apply Z.ltb_ge in E2.
    destruct (now + 31 * 86400 <? t)%Z eqn:E3; [discriminate|]. apply Z.ltb_ge in E3.
    destruct (starts_with_zero p1) eqn:Ez; [discriminate|].
    destruct (accepted_ts_canonical p1 t Ed Ez Et) as [_ [Hp1 [Ht1 _]]].
    apply bytes_eqb_eq in Eg. apply split3_inv in Es as [Hx [F0 _]].
    exists k, p0, p1, t. rewrite <- Eg. repeat split; auto.
  Qed.

  (* ... and when the MACed text was issued for THIS name (unforgeability premise), the only
     accepted strings are the issued one (returning its value) or digit shifts between payload
     and timestamp, which move the timestamp by more than a factor of two *)
  Theorem soundness_v1_same_name : forall s name x maxage now minv v,
      decode mac1 mac2 s name x maxage now minv = Ok (Some v) ->
      get_version x = 1%Z ->
      (forall k p0 p1, x = p0 ++ 124 :: p1 ++ 124 :: mac1 k (name ++ p0 ++ p1) ->
                       exists v0 t0, Forall isbyte v0 /\ (1 <= t0)%Z /\ p0 ++ p1 = b64encode v0 ++ dec_Z t0) ->
      exists v0 t0 t,
        Forall isbyte v0 /\ (1 <= t0)%Z /\ (now - maxage <= t <= now + 31 * 86400)%Z /\ (minv <= 1)%Z /\
        ((create mac1 mac2 s name v0 1 t0 None = Ok x /\ v = v0 /\ t = t0)
         \/ (2 * t0 < t)%Z \/ (2 * t < t0)%Z).
  Proof.
    intros s name x maxage now minv v H Hv Hunf.
    destruct (soundness_v1 _ _ _ _ _ _ _ H Hv) as [k [p0 [p1 [t [-> [Hx [F0 [Hp1 [Ht [Hw [Hb Hm]]]]]]]]]]].
    destruct (Hunf k p0 p1 Hx) as [v0 [t0 [Hv0 [Ht0 Hcat]]]].
    exists v0, t0, t. repeat split; try assumption; try lia.
    assert (C1 : canonical p1).
    { rewrite Hp1. unfold dec_Z. destruct (t <? 0)%Z eqn:E; [apply Z.ltb_lt in E; lia|].
      apply dec_N_canonical. lia. }
    assert (C0 : canonical (dec_Z t0)).
    { unfold dec_Z. destruct (t0 <? 0)%Z eqn:E; [apply Z.ltb_lt in E; lia|].
      apply dec_N_canonical. lia. }
    assert (D1 : digits_to_N 0 p1 = Z.to_N t).
    { rewrite Hp1. unfold dec_Z. destruct (t <? 0)%Z eqn:E; [apply Z.ltb_lt in E; lia|].
      apply dec_N_spec. }
    assert (D0 : digits_to_N 0 (dec_Z t0) = Z.to_N t0).
    { unfold dec_Z. destruct (t0 <? 0)%Z eqn:E; [apply Z.ltb_lt in E; lia|]. apply dec_N_spec. }
    destruct (resplit_cases _ _ _ _ C1 C0 Hcat) as [[E0 E1]|[L|L]].
    - left. assert (t = t0).
      { rewrite E1 in D1. rewrite D0 in D1. lia. }
      subst t. split; [|split; [|reflexivity]].
      + unfold create. cbn [Z.eqb Pos.eqb]. rewrite Hx, E0, <- Hp1. reflexivity.
      + rewrite E0 in Hb. rewrite b64_roundtrip in Hb by assumption. inversion Hb. reflexivity.
    - right. left. rewrite D0, D1 in L. lia.
    - right. right. rewrite D0, D1 in L. lia.
  Qed.

  (* a key-version dictionary never accepts a format-1 value (and does not raise) *)
  Theorem dict_rejects_v1 : forall d name x maxage now minv,
      (minv <= 2)%Z -> get_version x = 1%Z ->
      decode mac1 mac2 (SDict d) name x maxage now minv = Ok None.
  Proof.
    intros d name x maxage now minv Hm Hv. unfold decode.
    destruct (2 <? minv)%Z eqn:E; [apply Z.ltb_lt in E; lia|].
    destruct x as [|c x']; [reflexivity|]. rewrite Hv.
    destruct (1 <? minv)%Z; reflexivity.
  Qed.

  (* min_version = 2 rejects every format-1 value *)
  Theorem min_version_rejects_v1 : forall s name x maxage now,
      get_version x = 1%Z -> decode mac1 mac2 s name x maxage now 2 = Ok None.
  Proof.
    intros s name x maxage now Hv. unfold decode. cbn [Z.ltb Z.compare Pos.compare Pos.compare_cont].
    destruct x as [|c x']; [reflexivity|]. rewrite Hv. reflexivity.
  Qed.

  (* version numbers other than 1 and 2 are rejected *)
  Theorem other_versions_rejected : forall s name x maxage now minv,
      (minv <= 2)%Z -> get_version x <> 1%Z -> get_version x <> 2%Z ->
      decode mac1 mac2 s name x maxage now minv = Ok None.
  Proof.
    intros s name x maxage now minv Hm H1 H2. unfold decode.
    destruct (2 <? minv)%Z eqn:E; [apply Z.ltb_lt in E; lia|].
    destruct x as [|c x']; [reflexivity|].
    destruct (get_version (c :: x') <? minv)%Z; [reflexivity|].
    destruct (get_version (c :: x') =? 1)%Z eqn:E1; [apply Z.eqb_eq in E1; contradiction|].
    destruct (get_version (c :: x') =? 2)%Z eqn:E2; [apply Z.eqb_eq in E2; contradiction|].
    reflexivity.
  Qed.

  (* format 1 does not separate the name from the payload: cross-name replay *)
  Theorem v1_cross_name_replay : forall k name w t maxage now v b1 b2,
      b64encode w = b1 ++ b2 -> Forall (fun c => c <> 124) b1 -> Forall (fun c => c <> 124) b2 ->
      (exists j, length b2 = (4 * j)%nat) -> b64decode b2 = Some v ->
      (1 <= t)%Z -> (now - maxage <= t)%Z -> (t <= now + 31 * 86400)%Z ->
      decode mac1 mac2 (SStr k) (name ++ b1)
             (b2 ++ 124 :: dec_Z t ++ 124 :: mac1 k (name ++ b64encode w ++ dec_Z t)) maxage now 1 = Ok (Some v).
  Proof.
    intros k name w t maxage now v b1 b2 Hb F1 F2 Hlen Hdec Ht Hw Hf.
    assert (Ft : Forall (fun c => c <> 124) (dec_Z t))
      by (eapply Forall_impl; [|apply dec_Z_nodelim]; intros c [A _]; exact A).
    assert (Fs : Forall (fun c => c <> 124) (mac1 k (name ++ b64encode w ++ dec_Z t)))
      by (destruct (Hsig1 k (name ++ b64encode w ++ dec_Z t)) as [_ F]; eapply Forall_impl; [|exact F]; intros c [A _]; exact A).
    unfold decode. cbn [Z.ltb Z.compare Pos.compare Pos.compare_cont].
    rewrite (get_version_v1_shape _ _ F2 Hlen).
    destruct (b2 ++ 124 :: dec_Z t ++ 124 :: mac1 k (name ++ b64encode w ++ dec_Z t)) as [|c x'] eqn:Ex.
    { apply app_eq_nil in Ex as [_ Ex]. discriminate. }
    cbn [Z.ltb Z.eqb Z.compare Pos.compare Pos.compare_cont Pos.eqb]. rewrite <- Ex. unfold decode_v1.
    rewrite split_v1 by assumption.
    replace ((name ++ b1) ++ b2 ++ dec_Z t) with (name ++ b64encode w ++ dec_Z t)
      by (rewrite Hb, <- !app_assoc; reflexivity).
    rewrite bytes_eqb_refl. cbn [negb]. rewrite is_digits_dec_Z by lia. cbn [negb]. rewrite py_int_dec_Z.
    destruct (t <? now - maxage)%Z eqn:E2; [apply Z.ltb_lt in E2; lia|].
    destruct (now + 31 * 86400 <? t)%Z eqn:E3; [apply Z.ltb_lt in E3; lia|].
    rewrite dec_Z_no_leading_zero by assumption. rewrite Hdec. reflexivity.
  Qed.
End WithMac.
