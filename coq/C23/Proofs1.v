(* C23 — library lemmas: byte strings, Python slices, decimal and base64 round trips. *)
From Coq Require Import List NArith ZArith Bool Arith Lia.
Import ListNotations.
From TV Require Import C23.Model.

Ltac Zify.zify_post_hook ::= Z.to_euclidean_division_equations.

Local Open Scope N_scope.

(* ---------------- bytes_eqb ---------------- *)
Lemma bytes_eqb_refl : forall a, bytes_eqb a a = true.
Proof. induction a as [|x a IH]; simpl; [reflexivity|]. rewrite N.eqb_refl. exact IH. Qed.

Lemma bytes_eqb_eq : forall a b, bytes_eqb a b = true -> a = b.
Proof.
  induction a as [|x a IH]; intros [|y b] H; simpl in H; try discriminate; [reflexivity|].
  apply andb_true_iff in H as [H1 H2]. apply N.eqb_eq in H1. subst. f_equal. auto.
Qed.

(* ---------------- partition / split ---------------- *)
Lemma partition_app : forall sep a b,
    Forall (fun c => c <> sep) a -> partition sep (a ++ sep :: b) = (a, true, b).
Proof.
  intros sep a b H. induction H as [|c a Hc Ha IH]; simpl.
  - rewrite N.eqb_refl. reflexivity.
  - apply N.eqb_neq in Hc. rewrite Hc, IH. reflexivity.
Qed.

Lemma split_nonempty : forall sep l, split sep l <> [].
Proof.
  intros sep l. induction l as [|c r IH]; simpl; [discriminate|].
  destruct (c =? sep); [discriminate|]. destruct (split sep r); [contradiction|discriminate].
Qed.

Lemma split_nosep : forall sep a, Forall (fun c => c <> sep) a -> split sep a = [a].
Proof.
  intros sep a H. induction H as [|c a Hc Ha IH]; simpl; [reflexivity|].
  apply N.eqb_neq in Hc. rewrite Hc, IH. reflexivity.
Qed.

Lemma split_app : forall sep a r,
    Forall (fun c => c <> sep) a -> split sep (a ++ sep :: r) = a :: split sep r.
Proof.
  intros sep a r H. induction H as [|c a Hc Ha IH]; simpl.
  - rewrite N.eqb_refl. reflexivity.
  - apply N.eqb_neq in Hc. rewrite Hc, IH. reflexivity.
Qed.

(* inversion: a three-part split *)
Lemma split_cons_inv : forall sep l p ps,
    split sep l = p :: ps ->
    Forall (fun c => c <> sep) p /\
    ((ps = [] /\ l = p) \/ (exists r, l = p ++ sep :: r /\ split sep r = ps)).
Proof.
  intros sep l. induction l as [|c r IH]; intros p ps H; simpl in H.
  - inversion H; subst. split; [constructor|]. left; auto.
  - destruct (c =? sep) eqn:E.
    + apply N.eqb_eq in E. inversion H; subst. split; [constructor|].
      right. exists r. auto.
    + destruct (split sep r) as [|p' ps'] eqn:Es; [exfalso; eapply split_nonempty; eauto|].
      inversion H; subst. destruct (IH p' ps eq_refl) as [Hp Hr].
      apply N.eqb_neq in E. split; [constructor; auto|].
      destruct Hr as [[-> ->]|[r' [-> Hs]]]; [left; auto|].
      right. exists r'. auto.
Qed.

Lemma split3_inv : forall l p0 p1 sg,
    split 124 l = [p0; p1; sg] ->
    l = p0 ++ 124 :: p1 ++ 124 :: sg /\
    Forall (fun c => c <> 124) p0 /\ Forall (fun c => c <> 124) p1 /\ Forall (fun c => c <> 124) sg.
Proof.
  intros l p0 p1 sg H.
  apply split_cons_inv in H as [H0 [[H _]|[r1 [-> H]]]]; [discriminate|].
  apply split_cons_inv in H as [H1 [[H _]|[r2 [-> H]]]]; [discriminate|].
  apply split_cons_inv in H as [H2 [[_ ->]|[r3 [_ H]]]].
  - auto.
  - exfalso. eapply split_nonempty; eauto.
Qed.

(* ---------------- Python slices ---------------- *)
Lemma slice_prefix : forall (s r : bytes),
    py_slice (s ++ r) 0 (Z.of_nat (length s)) = s.
Proof.
  intros s r. unfold py_slice, clampi. rewrite app_length.
  destruct (0 <? 0)%Z eqn:E0; [discriminate|].
  destruct (Z.of_nat (length s) <? 0)%Z eqn:E1; [apply Z.ltb_lt in E1; lia|].
  rewrite Z.min_r by lia. rewrite Z.min_r by lia.
  replace (Z.to_nat 0) with 0%nat by reflexivity. simpl skipn.
  rewrite Z.sub_0_r, Nat2Z.id. rewrite firstn_app, Nat.sub_diag, firstn_all. simpl. apply app_nil_r.
Qed.

Lemma slice_at : forall (s : bytes) c r,
    py_slice (s ++ c :: r) (Z.of_nat (length s)) (Z.of_nat (length s) + 1) = [c].
Proof.
  intros s c r. unfold py_slice, clampi. rewrite app_length. simpl length.
  destruct (Z.of_nat (length s) <? 0)%Z eqn:E1; [apply Z.ltb_lt in E1; lia|].
  destruct (Z.of_nat (length s) + 1 <? 0)%Z eqn:E2; [apply Z.ltb_lt in E2; lia|].
  rewrite Z.min_r by lia. rewrite Z.min_r by lia.
  replace (Z.of_nat (length s) + 1 - Z.of_nat (length s))%Z with 1%Z by lia.
  rewrite Nat2Z.id. rewrite skipn_app, Nat.sub_diag, skipn_all. reflexivity.
Qed.

Lemma from_at : forall (s : bytes) c r,
    py_from (s ++ c :: r) (Z.of_nat (length s) + 1) = r.
Proof.
  intros s c r. unfold py_from, clampi. rewrite app_length. simpl length.
  destruct (Z.of_nat (length s) + 1 <? 0)%Z eqn:E2; [apply Z.ltb_lt in E2; lia|].
  rewrite Z.min_r by lia.
  replace (Z.to_nat (Z.of_nat (length s) + 1)) with (length s + 1)%nat by lia.
  rewrite skipn_app. rewrite skipn_all2 by lia.
  replace (length s + 1 - length s)%nat with 1%nat by lia. reflexivity.
Qed.

Lemma slice_drop_suffix : forall (a b : bytes),
    b <> [] -> py_slice (a ++ b) 0 (- Z.of_nat (length b)) = a.
Proof.
  intros a b Hb. unfold py_slice, clampi. rewrite app_length.
  assert (Hl : (0 < length b)%nat) by (destruct b; [contradiction|simpl; lia]).
  destruct (0 <? 0)%Z eqn:E0; [discriminate|].
  destruct (- Z.of_nat (length b) <? 0)%Z eqn:E1; [|apply Z.ltb_ge in E1; lia].
  rewrite Z.min_r by lia. rewrite Z.max_r by lia.
  replace (Z.to_nat 0) with 0%nat by reflexivity. simpl skipn.
  replace (Z.to_nat (Z.of_nat (length a + length b) + - Z.of_nat (length b) - 0)) with (length a) by lia.
  rewrite firstn_app, Nat.sub_diag, firstn_all. simpl. apply app_nil_r.
Qed.

(* py_from always returns a suffix *)
Lemma py_from_suffix : forall (l : bytes) i, exists pre, l = pre ++ py_from l i.
Proof.
  intros l i. unfold py_from. exists (firstn (Z.to_nat (clampi (Z.of_nat (length l)) i)) l).
  symmetry. apply firstn_skipn.
Qed.

Lemma partition_suffix : forall sep l a f b, partition sep l = (a, f, b) -> exists pre, l = pre ++ b.
Proof.
  intros sep l. induction l as [|c r IH]; intros a f b H; simpl in H.
  - inversion H. exists []. reflexivity.
  - destruct (c =? sep).
    + inversion H; subst. exists [c]. reflexivity.
    + destruct (partition sep r) as [[a' f'] b'] eqn:E. inversion H; subst.
      destruct (IH _ _ _ eq_refl) as [pre Hp]. exists (c :: pre). simpl. congruence.
Qed.

(* ---------------- decimal ---------------- *)
Lemma is_digit_spec : forall c, is_digit c = true <-> 48 <= c <= 57.
Proof. intros c. unfold is_digit. rewrite andb_true_iff, !N.leb_le. tauto. Qed.

Lemma digits_to_N_app : forall l acc d,
    digits_to_N acc (l ++ [d]) = 10 * digits_to_N acc l + (d - 48).
Proof. induction l as [|c l IH]; intros acc d; simpl; [reflexivity|apply IH]. Qed.

Lemma digits_val_digits : forall l acc pd,
    Forall (fun c => is_digit c = true) l -> (l <> [] \/ pd = true) ->
    digits_val acc pd l = Some (digits_to_N acc l).
Proof.
  induction l as [|c l IH]; intros acc pd H Hne; simpl.
  - destruct Hne as [Hne| ->]; [contradiction|reflexivity].
  - pose proof (Forall_inv H) as Hc. cbv beta in Hc. rewrite Hc. apply IH; [exact (Forall_inv_tail H)|auto].
Qed.

Lemma dec_fuel_spec : forall f n,
    n < 10 ^ N.of_nat f -> (0 < f)%nat ->
    Forall (fun c => is_digit c = true) (dec_fuel f n) /\ dec_fuel f n <> [] /\
    digits_to_N 0 (dec_fuel f n) = n /\
    (0 < n -> exists c r, dec_fuel f n = c :: r /\ c <> 48).
Proof.
  induction f as [|f IH]; intros n Hn Hf; [lia|].
  cbn [dec_fuel]. destruct (n <? 10) eqn:E.
  - apply N.ltb_lt in E. repeat split.
    + constructor; [|constructor]. apply is_digit_spec. lia.
    + discriminate.
    + cbn [digits_to_N]. lia.
    + intros Hp. exists (48 + n), []. split; [reflexivity|lia].
  - apply N.ltb_ge in E.
    assert (Hq : n / 10 < 10 ^ N.of_nat f).
    { apply N.div_lt_upper_bound; [lia|]. rewrite Nat2N.inj_succ, N.pow_succ_r' in Hn. lia. }
    assert (Hf' : (0 < f)%nat).
    { destruct f; [|lia]. simpl in Hq. assert (1 <= n / 10) by (apply N.div_le_lower_bound; lia). lia. }
    destruct (IH (n / 10) Hq Hf') as [H1 [H2 [H3 H4]]].
    repeat split.
    + apply Forall_app. split; [exact H1|]. constructor; [|constructor].
      apply is_digit_spec. assert (n mod 10 < 10) by (apply N.mod_lt; lia). lia.
    + destruct (dec_fuel f (n / 10)); [contradiction|discriminate].
    + rewrite digits_to_N_app, H3.
      assert (n mod 10 < 10) by (apply N.mod_lt; lia).
      replace (48 + n mod 10 - 48) with (n mod 10) by lia.
      rewrite (N.div_mod n 10) at 3 by lia. reflexivity.
    + intros _. destruct H4 as [c [r [Hc Hne]]].
      { assert (1 <= n / 10) by (apply N.div_le_lower_bound; lia). lia. }
      rewrite Hc. exists c, (r ++ [48 + n mod 10]). split; [reflexivity|exact Hne].
Qed.

Lemma dec_N_fuel_ok : forall n, n < 10 ^ N.of_nat (S (N.to_nat (N.log2 n))).
Proof.
  intros n. rewrite Nat2N.inj_succ, N2Nat.id.
  destruct (N.eq_dec n 0) as [->|Hn]; [reflexivity|].
  assert (H := N.log2_spec n ltac:(lia)). destruct H as [_ H].
  eapply N.lt_le_trans; [exact H|]. apply N.pow_le_mono_l. lia.
Qed.

Lemma dec_N_spec : forall n,
    Forall (fun c => is_digit c = true) (dec_N n) /\ dec_N n <> [] /\
    digits_to_N 0 (dec_N n) = n /\ (0 < n -> exists c r, dec_N n = c :: r /\ c <> 48).
Proof. intros n. apply dec_fuel_spec; [apply dec_N_fuel_ok|lia]. Qed.

Lemma is_digit_not_space : forall c, is_digit c = true -> is_space c = false.
Proof.
  intros c H. apply is_digit_spec in H. unfold is_space.
  apply orb_false_iff. split.
  - apply andb_false_iff. right. apply N.leb_gt. lia.
  - apply N.eqb_neq. lia.
Qed.

Lemma lstrip_id : forall l, Forall (fun c => is_space c = false) l -> lstrip l = l.
Proof. intros l H. destruct H as [|c l Hc Hl]; simpl; [reflexivity|]. rewrite Hc. reflexivity. Qed.

Lemma strip_id : forall l, Forall (fun c => is_space c = false) l -> strip l = l.
Proof.
  intros l H. unfold strip. rewrite (lstrip_id l H).
  rewrite lstrip_id; [apply rev_involutive|]. apply Forall_rev. exact H.
Qed.

Lemma py_int_dec_N : forall n, py_int (dec_N n) = Some (Z.of_N n).
Proof.
  intros n. destruct (dec_N_spec n) as [H1 [H2 [H3 _]]].
  unfold py_int. rewrite strip_id.
  2:{ eapply Forall_impl; [|exact H1]. apply is_digit_not_space. }
  destruct (dec_N n) as [|c r] eqn:E; [contradiction|].
  pose proof (Forall_inv H1) as Hc. cbv beta in Hc. apply is_digit_spec in Hc.
  destruct (c =? 45) eqn:E1; [apply N.eqb_eq in E1; lia|].
  destruct (c =? 43) eqn:E2; [apply N.eqb_eq in E2; lia|].
  rewrite digits_val_digits; [|exact H1|left; discriminate]. rewrite H3. reflexivity.
Qed.

Lemma py_int_dec_Z : forall z, py_int (dec_Z z) = Some z.
Proof.
  intros z. unfold dec_Z. destruct (z <? 0)%Z eqn:E.
  - apply Z.ltb_lt in E. destruct (dec_N_spec (Z.abs_N z)) as [H1 [H2 [H3 _]]].
    unfold py_int. rewrite strip_id.
    2:{ constructor; [reflexivity|]. eapply Forall_impl; [|exact H1]. apply is_digit_not_space. }
    rewrite N.eqb_refl. rewrite digits_val_digits; [|exact H1|left; exact H2]. rewrite H3. simpl. f_equal. lia.
  - apply Z.ltb_ge in E. rewrite py_int_dec_N. f_equal. lia.
Qed.

Definition nodelim (c : N) : Prop := c <> 124 /\ c <> 10 /\ c <> 58.

Lemma digit_nodelim : forall c, is_digit c = true -> nodelim c.
Proof. intros c H. apply is_digit_spec in H. unfold nodelim. lia. Qed.

Lemma dec_N_nodelim : forall n, Forall nodelim (dec_N n).
Proof. intros n. destruct (dec_N_spec n) as [H _]. eapply Forall_impl; [|exact H]. apply digit_nodelim. Qed.

Lemma dec_Z_nodelim : forall z, Forall nodelim (dec_Z z).
Proof.
  intros z. unfold dec_Z. destruct (z <? 0)%Z; [|apply dec_N_nodelim].
  constructor; [unfold nodelim; lia|apply dec_N_nodelim].
Qed.

Lemma dec_Z_no_leading_zero : forall z, (1 <= z)%Z -> starts_with_zero (dec_Z z) = false.
Proof.
  intros z Hz. unfold dec_Z. destruct (z <? 0)%Z eqn:E; [apply Z.ltb_lt in E; lia|].
  destruct (dec_N_spec (Z.to_N z)) as [_ [_ [_ H]]].
  destruct H as [c [r [Hc Hne]]]; [lia|]. rewrite Hc. simpl. apply N.eqb_neq. exact Hne.
Qed.

(* ---------------- base64 ---------------- *)
Lemma lt64_in : forall i, i < 64 -> In i (map N.of_nat (seq 0 64)).
Proof.
  intros i H. apply in_map_iff. exists (N.to_nat i). split; [lia|]. apply in_seq. lia.
Qed.

Lemma b64_char_val : forall i, i < 64 ->
    b64_val (b64_char i) = Some i /\ (b64_char i =? 61) = false /\
    (b64_char i =? 124) = false /\ (b64_char i =? 10) = false.
Proof.
  intros i H.
  assert (A : forallb (fun i => match b64_val (b64_char i) with Some j => j =? i | None => false end
                                && negb (b64_char i =? 61) && negb (b64_char i =? 124) && negb (b64_char i =? 10))
                      (map N.of_nat (seq 0 64)) = true) by (vm_compute; reflexivity).
  rewrite forallb_forall in A. specialize (A i (lt64_in i H)).
  repeat (apply andb_true_iff in A; destruct A as [A ?]).
  destruct (b64_val (b64_char i)) as [j|]; [|discriminate]. apply N.eqb_eq in A. subst j.
  repeat split; auto; apply negb_true_iff; assumption.
Qed.

Definition isbyte (c : N) : Prop := c < 256.

Lemma b64_group : forall a b c rest, isbyte a -> isbyte b -> isbyte c ->
    b64dec 0 0 0 (b64_char (a / 4) :: b64_char ((a mod 4) * 16 + b / 16)
                  :: b64_char ((b mod 16) * 4 + c / 64) :: b64_char (c mod 64) :: rest)
    = option_map (fun t => a :: b :: c :: t) (b64dec 0 0 0 rest).
Proof.
  intros a b c rest Ha Hb Hc. unfold isbyte in *.
  assert (H0 : a / 4 < 64) by lia.
  assert (H1 : (a mod 4) * 16 + b / 16 < 64) by lia.
  assert (H2 : (b mod 16) * 4 + c / 64 < 64) by lia.
  assert (H3 : c mod 64 < 64) by lia.
  destruct (b64_char_val _ H0) as [V0 [E0 _]].
  destruct (b64_char_val _ H1) as [V1 [E1 _]].
  destruct (b64_char_val _ H2) as [V2 [E2 _]].
  destruct (b64_char_val _ H3) as [V3 [E3 _]].
  cbn [b64dec]. rewrite E0, V0. cbn [b64dec]. rewrite E1, V1. cbn [b64dec option_map].
  rewrite E2, V2. cbn [b64dec option_map]. rewrite E3, V3.
  destruct (b64dec 0 0 0 rest) as [t|]; cbn [option_map]; [|reflexivity].
  f_equal. f_equal; [lia|]. f_equal; [lia|]. f_equal. lia.
Qed.

Lemma list_ind3 : forall (P : list N -> Prop),
    P [] -> (forall a, P [a]) -> (forall a b, P [a; b]) ->
    (forall a b c r, P r -> P (a :: b :: c :: r)) -> forall l, P l.
Proof.
  intros P H0 H1 H2 H3. fix IH 1. intros [|a [|b [|c r]]].
  - exact H0.
  - apply H1.
  - apply H2.
  - apply H3. apply IH.
Qed.

Lemma b64_roundtrip : forall v, Forall isbyte v -> b64decode (b64encode v) = Some v.
Proof.
  unfold b64decode. induction v as [|a|a b|a b c r IH] using list_ind3; intros H.
  - reflexivity.
  - inversion H as [|? ? Ha _]; subst. unfold isbyte in Ha.
    assert (H0 : a / 4 < 64) by lia. assert (H1 : (a mod 4) * 16 < 64) by lia.
    destruct (b64_char_val _ H0) as [V0 [E0 _]]. destruct (b64_char_val _ H1) as [V1 [E1 _]].
    cbn [b64encode b64dec]. rewrite E0, V0. cbn [b64dec]. rewrite E1, V1. cbn. f_equal. f_equal. lia.
  - inversion H as [|? ? Ha H']; subst. inversion H' as [|? ? Hb _]; subst. unfold isbyte in *.
    assert (H0 : a / 4 < 64) by lia. assert (H1 : (a mod 4) * 16 + b / 16 < 64) by lia.
    assert (H2 : (b mod 16) * 4 < 64) by lia.
    destruct (b64_char_val _ H0) as [V0 [E0 _]]. destruct (b64_char_val _ H1) as [V1 [E1 _]].
    destruct (b64_char_val _ H2) as [V2 [E2 _]].
    cbn [b64encode b64dec]. rewrite E0, V0. cbn [b64dec]. rewrite E1, V1. cbn [b64dec option_map].
    rewrite E2, V2. cbn. f_equal. f_equal; [lia|]. f_equal. lia.
  - inversion H as [|? ? Ha H']; subst. inversion H' as [|? ? Hb H'']; subst.
    inversion H'' as [|? ? Hc Hr]; subst.
    cbn [b64encode]. rewrite b64_group by assumption. rewrite (IH Hr). reflexivity.
Qed.

Definition b64ok (c : N) : Prop := c <> 124 /\ c <> 10.

Lemma b64_char_ok : forall i, i < 64 -> b64ok (b64_char i).
Proof.
  intros i H. destruct (b64_char_val i H) as [_ [_ [A B]]].
  apply N.eqb_neq in A. apply N.eqb_neq in B. split; assumption.
Qed.

Lemma b64encode_shape : forall v, Forall isbyte v ->
    Forall b64ok (b64encode v) /\ exists k, length (b64encode v) = (4 * k)%nat.
Proof.
  induction v as [|a|a b|a b c r IH] using list_ind3; intros H.
  - split; [constructor|exists 0%nat; reflexivity].
  - inversion H as [|? ? Ha _]; subst. unfold isbyte in Ha. split; [|exists 1%nat; reflexivity].
    cbn [b64encode]. repeat constructor; try (apply b64_char_ok; lia); lia.
  - inversion H as [|? ? Ha H']; subst. inversion H' as [|? ? Hb _]; subst. unfold isbyte in *.
    split; [|exists 1%nat; reflexivity].
    cbn [b64encode]. repeat constructor; try (apply b64_char_ok; lia); lia.
  - inversion H as [|? ? Ha H']; subst. inversion H' as [|? ? Hb H'']; subst.
    inversion H'' as [|? ? Hc Hr]; subst. unfold isbyte in *.
    destruct (IH Hr) as [F [k Hk]]. split.
    + cbn [b64encode]. repeat constructor; try (apply b64_char_ok; lia). exact F.
    + exists (S k). cbn [b64encode length]. rewrite Hk. lia.
Qed.

(* ---------------- canonical decimal strings ---------------- *)
Lemma is_digits_spec : forall l, is_digits l = true -> l <> [] /\ Forall (fun c => is_digit c = true) l.
Proof.
  intros l H. unfold is_digits in H. destruct l as [|c r]; [discriminate|]. split; [discriminate|].
  apply Forall_forall. intros x Hx. rewrite forallb_forall in H. apply H. exact Hx.
Qed.

Lemma is_digits_intro : forall l, l <> [] -> Forall (fun c => is_digit c = true) l -> is_digits l = true.
Proof.
  intros l Hne H. unfold is_digits. destruct l as [|c r]; [contradiction|].
  apply forallb_forall. intros x Hx. rewrite Forall_forall in H. apply H. exact Hx.
Qed.

Lemma is_digits_dec_Z : forall z, (0 <= z)%Z -> is_digits (dec_Z z) = true.
Proof.
  intros z Hz. unfold dec_Z. destruct (z <? 0)%Z eqn:E; [apply Z.ltb_lt in E; lia|].
  destruct (dec_N_spec (Z.to_N z)) as [H1 [H2 _]]. apply is_digits_intro; assumption.
Qed.

Lemma digits_to_N_acc : forall l acc,
    digits_to_N acc l = acc * 10 ^ N.of_nat (length l) + digits_to_N 0 l.
Proof.
  induction l as [|c l IH]; intros acc; cbn [digits_to_N length].
  - cbn. lia.
  - rewrite IH, (IH (10 * 0 + (c - 48))). rewrite Nat2N.inj_succ, N.pow_succ_r'. ring.
Qed.

Lemma digits_to_N_app0 : forall a b acc, digits_to_N acc (a ++ b) = digits_to_N (digits_to_N acc a) b.
Proof. induction a as [|c a IH]; intros b acc; cbn [app digits_to_N]; [reflexivity|apply IH]. Qed.

Lemma digits_to_N_app_gen : forall a b,
    digits_to_N 0 (a ++ b) = digits_to_N 0 a * 10 ^ N.of_nat (length b) + digits_to_N 0 b.
Proof. intros a b. rewrite digits_to_N_app0. apply digits_to_N_acc. Qed.

Lemma pow10_pos : forall n, 1 <= 10 ^ n.
Proof. intros n. assert (10 ^ n <> 0) by (apply N.pow_nonzero; lia). lia. Qed.

Lemma digits_bound : forall l, Forall (fun c => is_digit c = true) l ->
    digits_to_N 0 l < 10 ^ N.of_nat (length l).
Proof.
  intros l H. induction H as [|c l Hc Hl IH]; [cbn; lia|].
  apply is_digit_spec in Hc. cbn [digits_to_N length]. rewrite digits_to_N_acc.
  rewrite Nat2N.inj_succ, N.pow_succ_r'.
  set (P := 10 ^ N.of_nat (length l)) in *. nia.
Qed.

Lemma digits_head_pos : forall c l, is_digit c = true -> c <> 48 ->
    1 <= digits_to_N 0 (c :: l).
Proof.
  intros c l Hc Hne. apply is_digit_spec in Hc. cbn [digits_to_N]. rewrite digits_to_N_acc.
  pose proof (pow10_pos (N.of_nat (length l))) as HP.
  set (P := 10 ^ N.of_nat (length l)) in *. nia.
Qed.

Lemma div10_bound : forall f n, 10 <= n -> n < 10 ^ N.of_nat (S f) ->
    n / 10 < 10 ^ N.of_nat f /\ (0 < f)%nat.
Proof.
  intros f n Hn Hlt.
  assert (Hq : n / 10 < 10 ^ N.of_nat f).
  { apply N.div_lt_upper_bound; [lia|]. rewrite Nat2N.inj_succ, N.pow_succ_r' in Hlt. exact Hlt. }
  split; [exact Hq|]. destruct f; [|lia]. cbn in Hq.
  assert (1 <= n / 10) by (apply N.div_le_lower_bound; lia). lia.
Qed.

Lemma dec_fuel_indep : forall f f' n,
    n < 10 ^ N.of_nat f -> n < 10 ^ N.of_nat f' -> (0 < f)%nat -> (0 < f')%nat ->
    dec_fuel f n = dec_fuel f' n.
Proof.
  induction f as [|f IH]; intros f' n H H' Hf Hf'; [lia|]. destruct f' as [|f']; [lia|].
  cbn [dec_fuel]. destruct (n <? 10) eqn:E; [reflexivity|]. apply N.ltb_ge in E.
  destruct (div10_bound f n E H) as [A B]. destruct (div10_bound f' n E H') as [A' B'].
  f_equal. apply IH; assumption.
Qed.

Definition canonical (p : bytes) : Prop :=
  Forall (fun c => is_digit c = true) p /\ exists c r, p = c :: r /\ c <> 48.

Lemma dec_N_canonical : forall n, 0 < n -> canonical (dec_N n).
Proof. intros n Hn. destruct (dec_N_spec n) as [H1 [_ [_ H4]]]. split; [exact H1|auto]. Qed.

Lemma dec_N_canon : forall p, canonical p -> dec_N (digits_to_N 0 p) = p.
Proof.
  induction p as [|d q IH] using rev_ind; intros [Hd [c [r [Hp Hc]]]]; [discriminate|].
  apply Forall_app in Hd as [Hq Hd1]. pose proof (Forall_inv Hd1) as Hdd. cbv beta in Hdd.
  apply is_digit_spec in Hdd. rewrite digits_to_N_app_gen. cbn [length digits_to_N].
  change (10 ^ N.of_nat 1) with 10.
  destruct q as [|c' q'].
  - cbn [digits_to_N]. unfold dec_N. cbn [dec_fuel].
    destruct (0 * 10 + (10 * 0 + (d - 48)) <? 10) eqn:E; [|apply N.ltb_ge in E; lia].
    cbn [app]. f_equal. lia.
  - cbn [app] in Hp. injection Hp as Hc' Hr. subst c'.
    assert (Hcan : canonical (c :: q')) by (split; [exact Hq|eauto]).
    specialize (IH Hcan).
    assert (Hpos : 1 <= digits_to_N 0 (c :: q')) by (apply digits_head_pos; [exact (Forall_inv Hq)|exact Hc]).
    set (Q := digits_to_N 0 (c :: q')) in *.
    set (n := Q * 10 + (10 * 0 + (d - 48))).
    assert (Hn10 : 10 <= n) by (unfold n; lia).
    assert (Hdiv : n / 10 = Q) by (unfold n; lia).
    assert (Hmod : n mod 10 = d - 48) by (unfold n; lia).
    unfold dec_N. cbn [dec_fuel].
    destruct (n <? 10) eqn:E; [apply N.ltb_lt in E; lia|].
    rewrite Hdiv, Hmod.
    destruct (div10_bound _ n Hn10 (dec_N_fuel_ok n)) as [A B]. rewrite Hdiv in A.
    rewrite (dec_fuel_indep _ (S (N.to_nat (N.log2 Q))) Q A (dec_N_fuel_ok Q) B ltac:(lia)).
    fold (dec_N Q). rewrite IH. f_equal. f_equal. lia.
Qed.

Lemma py_int_digits : forall p, is_digits p = true -> py_int p = Some (Z.of_N (digits_to_N 0 p)).
Proof.
  intros p H. apply is_digits_spec in H as [Hne H1].
  unfold py_int. rewrite strip_id.
  2:{ eapply Forall_impl; [|exact H1]. apply is_digit_not_space. }
  destruct p as [|c r]; [contradiction|].
  pose proof (Forall_inv H1) as Hc. cbv beta in Hc. apply is_digit_spec in Hc.
  destruct (c =? 45) eqn:E1; [apply N.eqb_eq in E1; lia|].
  destruct (c =? 43) eqn:E2; [apply N.eqb_eq in E2; lia|].
  rewrite digits_val_digits; [reflexivity|exact H1|left; discriminate].
Qed.

(* the timestamp field accepted by format 1: digits only, no leading zero = canonical *)
Lemma accepted_ts_canonical : forall p t,
    is_digits p = true -> starts_with_zero p = false -> py_int p = Some t ->
    canonical p /\ p = dec_Z t /\ (1 <= t)%Z /\ t = Z.of_N (digits_to_N 0 p).
Proof.
  intros p t Hd Hz Hi. rewrite (py_int_digits p Hd) in Hi. inversion Hi as [Ht]. clear Hi. subst t.
  destruct (is_digits_spec p Hd) as [Hne H1]. destruct p as [|c r]; [contradiction|].
  cbn [starts_with_zero] in Hz. apply N.eqb_neq in Hz.
  assert (Hcan : canonical (c :: r)) by (split; [exact H1|eauto]).
  pose proof (digits_head_pos c r (Forall_inv H1) Hz) as Hpos.
  split; [exact Hcan|]. split; [|split; [lia|reflexivity]].
  unfold dec_Z. destruct (Z.of_N (digits_to_N 0 (c :: r)) <? 0)%Z eqn:E; [apply Z.ltb_lt in E; lia|].
  rewrite N2Z.id. symmetry. apply dec_N_canon. exact Hcan.
Qed.

(* re-splitting  payload ++ timestamp  at another point, both timestamp fields canonical:
   either nothing moved, or the timestamp more than doubled, or more than halved *)
Lemma resplit_cases : forall p0 p1 b ts,
    canonical p1 -> canonical ts -> p0 ++ p1 = b ++ ts ->
    (p0 = b /\ p1 = ts) \/ 2 * digits_to_N 0 ts < digits_to_N 0 p1 \/ 2 * digits_to_N 0 p1 < digits_to_N 0 ts.
Proof.
  intros p0 p1 b ts [H1 [c1 [r1 [E1 N1]]]] [Hs [cs [rs [Es Ns]]]] H.
  apply app_eq_app in H as [l [[Ha Hb]|[Ha Hb]]].
  - (* ts = l ++ p1 *)
    destruct l as [|c l'].
    + left. rewrite app_nil_r in Ha. cbn [app] in Hb. auto.
    + right. right. rewrite Hb. rewrite digits_to_N_app_gen.
      rewrite Hb in Es. cbn [app] in Es. injection Es as Ec _. subst c.
      rewrite Hb in Hs. apply Forall_app in Hs as [Hl _].
      pose proof (digits_head_pos cs l' (Forall_inv Hl) Ns) as Hpos.
      pose proof (digits_bound p1 H1) as Hb1.
      set (P := 10 ^ N.of_nat (length p1)) in *. nia.
  - (* p1 = l ++ ts *)
    destruct l as [|c l'].
    + left. rewrite app_nil_r in Ha. cbn [app] in Hb. auto.
    + right. left. rewrite Hb. rewrite digits_to_N_app_gen.
      rewrite Hb in E1. cbn [app] in E1. injection E1 as Ec _. subst c.
      rewrite Hb in H1. apply Forall_app in H1 as [Hl _].
      pose proof (digits_head_pos c1 l' (Forall_inv Hl) N1) as Hpos.
      pose proof (digits_bound ts Hs) as Hbs.
      set (P := 10 ^ N.of_nat (length ts)) in *. nia.
Qed.
