(* C23 — API level (str/bytes arguments, None value, key version) and tampering. *)
From Coq Require Import List NArith ZArith Bool Arith Lia.
Import ListNotations.
From TV Require Import C23.Model C23.Proofs C23.Proofs1 C23.Proofs2.

Ltac Zify.zify_post_hook ::= Z.to_euclidean_division_equations.
Local Open Scope N_scope.

(* ---------------- utf8() ---------------- *)
Definition arg_ok (a : pyarg) : Prop :=
  match a with
  | PStr cps => Forall (fun c => c < 1114112) cps     (* Unicode code points *)
  | PBytes b => Forall isbyte b
  end.

Lemma utf8_cp_bytes : forall c, c < 1114112 -> Forall isbyte (utf8_cp c).
Proof.
  intros c H. unfold utf8_cp.
  destruct (c <? 128) eqn:E1; [apply N.ltb_lt in E1; repeat constructor; unfold isbyte; lia|].
  destruct (c <? 2048) eqn:E2; [apply N.ltb_lt in E2; repeat constructor; unfold isbyte; lia|].
  destruct (c <? 65536) eqn:E3; [apply N.ltb_lt in E3; repeat constructor; unfold isbyte; lia|].
  repeat constructor; unfold isbyte; lia.
Qed.

Lemma utf8_bytes : forall a, arg_ok a -> Forall isbyte (utf8 a).
Proof.
  intros [cps|b] H; cbn [utf8 arg_ok] in *; [|exact H].
  induction H as [|c cps Hc Hr IH]; cbn [flat_map]; [constructor|].
  apply Forall_app. split; [apply utf8_cp_bytes; exact Hc|exact IH].
Qed.

Lemma utf8_ascii : forall cps, Forall (fun c => c < 128) cps -> utf8 (PStr cps) = cps.
Proof.
  intros cps H. cbn [utf8]. induction H as [|c cps Hc Hr IH]; cbn [flat_map]; [reflexivity|].
  unfold utf8_cp. apply N.ltb_lt in Hc. rewrite Hc. cbn [app]. f_equal. exact IH.
Qed.

(* ---------------- key version ---------------- *)
Lemma key_version_canon : forall kvn t name v sg,
    key_version_of (to_sign2 kvn t name v ++ sg) = Some kvn.
Proof.
  intros. unfold key_version_of. rewrite get_version_to_sign2. rewrite decode_fields_canon. reflexivity.
Qed.

Section WithMac.
  Variable mac1 mac2 : bytes -> bytes -> bytes.
  Hypothesis Hsig1 : forall k m, mac1 k m <> [] /\ Forall sigok (mac1 k m).
  Hypothesis Hsig2 : forall k m, mac2 k m <> [] /\ Forall sigok (mac2 k m).

  (* the round trips at the level of the Python API: str or bytes secrets, names and values
     (names of any form, non-ASCII included), the signed value handed back as bytes or str *)
  Theorem api_roundtrip_v2 : forall sa name value t kv y xa maxage now minv,
      arg_ok value ->
      create_api mac1 mac2 sa name value 2 t kv = Ok y -> utf8 xa = y ->
      (minv <= 2)%Z -> (now - maxage <= t)%Z ->
      decode_api mac1 mac2 sa name (Some xa) maxage now minv = Ok (Some (utf8 value)).
  Proof.
    intros sa name value t kv y xa maxage now minv Hv Hc Hx Hm Hw.
    unfold decode_api, create_api in *. rewrite Hx.
    eapply (roundtrip_v2 mac1 mac2 Hsig1 Hsig2); eauto. apply utf8_bytes. exact Hv.
  Qed.

  Theorem api_roundtrip_v1 : forall sa name value t kv y xa maxage now minv,
      arg_ok value ->
      create_api mac1 mac2 sa name value 1 t kv = Ok y -> utf8 xa = y ->
      (minv <= 1)%Z -> (1 <= t)%Z -> (now - maxage <= t)%Z -> (t <= now + 31 * 86400)%Z ->
      decode_api mac1 mac2 sa name (Some xa) maxage now minv = Ok (Some (utf8 value)).
  Proof.
    intros sa name value t kv y xa maxage now minv Hv Hc Hx Hm Ht Hw Hf.
    unfold decode_api, create_api in *. rewrite Hx.
    eapply (roundtrip_v1 mac1 mac2 Hsig1 Hsig2); eauto. apply utf8_bytes. exact Hv.
  Qed.

  Theorem api_decode_total : forall sa name x maxage now minv,
      (minv <= 2)%Z -> exists r, decode_api mac1 mac2 sa name x maxage now minv = Ok r.
  Proof.
    intros sa name [xa|] maxage now minv Hm; unfold decode_api.
    - apply decode_total. exact Hm.
    - destruct (2 <? minv)%Z eqn:E; [apply Z.ltb_lt in E; lia|]. eauto.
  Qed.

  (* get_signature_key_version reads back the key version create_signed_value wrote
     (key_version or 0), for both secret forms; format-1 values have none *)
  Theorem key_version_of_created_v2 : forall sa name value t kv y xa,
      create_api mac1 mac2 sa name value 2 t kv = Ok y -> utf8 xa = y ->
      get_signature_key_version xa = Some (match kv with Some z => z | None => 0%Z end).
  Proof.
    intros sa name value t kv y xa Hc Hx. unfold get_signature_key_version, create_api in *. rewrite Hx.
    destruct (create2_inv mac1 mac2 _ _ _ _ _ _ Hc) as [kvn [k [-> [_ ->]]]].
    apply key_version_canon.
  Qed.

  Theorem key_version_of_created_v1 : forall sa name value t kv y xa,
      arg_ok value ->
      create_api mac1 mac2 sa name value 1 t kv = Ok y -> utf8 xa = y ->
      get_signature_key_version xa = None.
  Proof.
    intros sa name value t kv y xa Hv Hc Hx. unfold get_signature_key_version, create_api in *. rewrite Hx.
    destruct (create1_inv mac1 mac2 _ _ _ _ _ _ Hc) as [k [_ ->]].
    destruct (b64encode_shape _ (utf8_bytes _ Hv)) as [Fb Hlen].
    unfold key_version_of. rewrite (get_version_v1_shape mac1 mac2 Hsig1 Hsig2); [reflexivity| |exact Hlen].
    eapply Forall_impl; [|exact Fb]. intros c [A _]. exact A.
  Qed.

  (* ---------------- tampering with an authentic format-2 value ---------------- *)
  (* (a) the signed part is left intact and the signature bytes are changed in any way
         (substituted, truncated, extended, removed): rejected by the issuing secret under
         every name and clock.  No assumption on HMAC beyond its output shape. *)
  Lemma tamper_signature_v2 : forall s name' kvn t name v k sg' maxage now minv,
      secret_key s kvn = Some k -> (minv <= 2)%Z ->
      sg' <> mac2 k (to_sign2 kvn t name v) ->
      decode mac1 mac2 s name' (to_sign2 kvn t name v ++ sg') maxage now minv = Ok None.
  Proof.
    intros s name' kvn t name v k sg' maxage now minv Hk Hm Hne.
    destruct (decode_total mac1 mac2 s name' (to_sign2 kvn t name v ++ sg') maxage now minv Hm) as [[v'|] Hd]; [|exact Hd].
    exfalso.
    destruct (decode_some_cases mac1 mac2 Hsig1 Hsig2 _ _ _ _ _ _ _ Hd) as [[H1 _]|[_ [_ H2]]].
    - rewrite get_version_to_sign2 in H1. discriminate.
    - destruct (decode_v2_inv mac2 Hsig2 _ _ _ _ _ _ H2) as [kv' [tsb [vf [k' [S' [t' [Hf [Hx [Hk' _]]]]]]]]].
      rewrite decode_fields_canon in Hf. injection Hf as E1 E2 E3 E4 E5.
      rewrite <- E1, Hk in Hk'. injection Hk' as Ek.
      rewrite E5 in Hx. apply app_inv_tail in Hx. apply Hne. congruence.
  Qed.

  (* (b) the signature is left intact and the signed part is changed in any way: needs an
         HMAC with fixed-length digests (SHA-1 shorter than SHA-256) that is injective in the
         message (the design's idealisation). *)
  Variable L1 L2 : nat.
  Hypothesis Hlen1 : forall k m, length (mac1 k m) = L1.
  Hypothesis Hlen2 : forall k m, length (mac2 k m) = L2.
  Hypothesis HL : (L1 < L2)%nat.
  Hypothesis Hinj2 : forall k m k' m', mac2 k m = mac2 k' m' -> k = k' /\ m = m'.

  Lemma app_eq_same_len : forall (a b c d : bytes), a ++ b = c ++ d -> length b = length d -> a = c /\ b = d.
  Proof.
    induction a as [|x a IH]; intros b [|y c] d H Hl; cbn [app] in H.
    - auto.
    - exfalso. apply (f_equal (@length N)) in H. cbn [length] in H. rewrite app_length in H. lia.
    - exfalso. apply (f_equal (@length N)) in H. cbn [length] in H. rewrite app_length in H. lia.
    - injection H as Hx Hr. destruct (IH _ _ _ Hr Hl) as [E1 E2]. subst. auto.
  Qed.

  Lemma tamper_signed_part_v2 : forall s name' k S S' maxage now minv,
      (minv <= 2)%Z -> S' <> S ->
      decode mac1 mac2 s name' (S' ++ mac2 k S) maxage now minv = Ok None.
  Proof.
    intros s name' k S S' maxage now minv Hm Hne.
    destruct (decode_total mac1 mac2 s name' (S' ++ mac2 k S) maxage now minv Hm) as [[v'|] Hd]; [|exact Hd].
    exfalso.
    destruct (decode_some_cases mac1 mac2 Hsig1 Hsig2 _ _ _ _ _ _ _ Hd) as [[H1 [_ [k1 [-> Hv1]]]]|[_ [_ H2]]].
    - (* format 1: the string would end in a pipe followed by L1 < L2 pipe-free bytes *)
      assert (Hd' : decode mac1 mac2 (SStr k1) name' (S' ++ mac2 k S) maxage now minv = Ok (Some v')) by exact Hd.
      destruct (soundness_v1 mac1 mac2 Hsig1 Hsig2 _ _ _ _ _ _ _ Hd' H1) as [k2 [p0 [p1 [t [_ [Hx _]]]]]].
      replace (p0 ++ 124 :: p1 ++ 124 :: mac1 k2 (name' ++ p0 ++ p1))
        with ((p0 ++ 124 :: p1) ++ 124 :: mac1 k2 (name' ++ p0 ++ p1)) in Hx
        by (rewrite <- app_assoc; reflexivity).
      destruct (Hsig2 k S) as [_ F2].
      apply app_eq_app in Hx as [l [[Ha Hb]|[Ha Hb]]].
      + (* mac1-part = l ++ mac2 k S *)
        destruct l as [|c l'].
        * cbn [app] in Hb. rewrite <- Hb in F2. apply Forall_inv in F2. destruct F2 as [F2 _]. apply F2. reflexivity.
        * apply (f_equal (@length N)) in Hb. cbn [length app] in Hb. rewrite app_length, Hlen1, Hlen2 in Hb. lia.
      + (* mac2 k S = l ++ 124 :: ... *)
        rewrite Hb in F2. apply Forall_app in F2 as [_ F2]. apply Forall_inv in F2. destruct F2 as [F2 _]. apply F2. reflexivity.
    - destruct (decode_v2_inv mac2 Hsig2 _ _ _ _ _ _ H2) as [kv' [tsb [vf [k' [S'' [t' [_ [Hx _]]]]]]]].
      apply app_eq_same_len in Hx as [E1 E2]; [|rewrite !Hlen2; reflexivity].
      apply Hinj2 in E2 as [_ E2]. apply Hne. congruence.
  Qed.

  (* every single-byte substitution of an authentic format-2 value is rejected (issuing
     secret, any name, any clock) *)
  Theorem byte_substitution_rejected_v2 : forall s name v t kv y a c c' b name' maxage now minv,
      create mac1 mac2 s name v 2 t kv = Ok y -> (minv <= 2)%Z ->
      y = a ++ c :: b -> c' <> c ->
      decode mac1 mac2 s name' (a ++ c' :: b) maxage now minv = Ok None.
  Proof.
    intros s name v t kv y a c c' b name' maxage now minv Hc Hm Hy Hcc.
    destruct (create2_inv mac1 mac2 _ _ _ _ _ _ Hc) as [kvn [k [Hy' [Hk _]]]].
    rewrite Hy in Hy'. clear Hy Hc.
    apply app_eq_app in Hy' as [l [[Ha Hb]|[Ha Hb]]].
    - (* a = S ++ l: the edit is inside the signature *)
      rewrite Ha, <- app_assoc. eapply tamper_signature_v2; [exact Hk|exact Hm|].
      rewrite Hb. intros E. apply app_inv_head in E. inversion E. contradiction.
    - (* S = a ++ l *)
      destruct l as [|c0 l'].
      + rewrite app_nil_r in Ha. cbn [app] in Hb. subst a.
        change (to_sign2 kvn t name v ++ c' :: b) with (to_sign2 kvn t name v ++ (c' :: b)).
        eapply tamper_signature_v2; [exact Hk|exact Hm|]. rewrite <- Hb. intros E. inversion E. contradiction.
      + cbn [app] in Hb. inversion Hb; subst c0 b.
        replace (a ++ c' :: l' ++ mac2 k (to_sign2 kvn t name v)) with ((a ++ c' :: l') ++ mac2 k (to_sign2 kvn t name v))
          by (rewrite <- app_assoc; reflexivity).
        apply tamper_signed_part_v2; [exact Hm|]. rewrite Ha. intros E. apply app_inv_head in E. inversion E. contradiction.
  Qed.
End WithMac.
