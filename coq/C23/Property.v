(* C23 — Signed values cannot be forged, replayed across names or crash the reader.
   Property theorems only; proofs are in Proofs*.v.

   Conventions: byte strings are [list N]; [name], [v], secrets are the UTF-8 bytes the code
   works on; [maxage] = max_age_days * 86400 and [now] = clock() are integers; [mac1]/[mac2]
   are the hex HMAC-SHA1 / HMAC-SHA256 functions, universally quantified.  The premises
   [Hsig*] say only that a MAC is a non-empty string without '|' and newline (true of a hex
   digest); [sigok c := c <> 124 /\ c <> 10]. *)
From Coq Require Import List NArith ZArith.
Import ListNotations.
From TV Require Import Lib.Obs C23.Model C23.Run C23.Proofs C23.Proofs1 C23.Proofs2 C23.Proofs3 C23.Proofs4 C23.Proofs5.

Definition mac_shape (mac : bytes -> bytes -> bytes) : Prop :=
  forall k m, mac k m <> [] /\ Forall sigok (mac k m).

(* (Totality) Decoding never raises, whatever string it is given: any HMAC function, any
   secret form (string or key-version dictionary), any name, clock and max_age.
   min_version > 2 is a configuration error and raises ValueError by design. *)
Theorem C23_decode_never_raises :
  forall mac1 mac2 s name x maxage now minv,
    (minv <= 2)%Z -> exists r, decode mac1 mac2 s name x maxage now minv = Ok r.
Proof. exact decode_total. Qed.
Print Assumptions C23_decode_never_raises.

(* (Round trip, format 2 = default) For every secret (string or dictionary with the key
   version present), EVERY name (any bytes: non-ASCII, pipes, colons, newlines), every byte
   value and EVERY creation time, the created value decodes to the original value at any time [now] with
   now - max_age <= t (in particular from creation until max_age later), for min_version 1 or 2. *)
Theorem C23_roundtrip_v2 :
  forall mac1 mac2, mac_shape mac1 -> mac_shape mac2 ->
  forall s name v t kv y maxage now minv,
    Forall isbyte v ->
    create mac1 mac2 s name v 2 t kv = Ok y ->
    (minv <= 2)%Z -> (now - maxage <= t)%Z ->
    decode mac1 mac2 s name y maxage now minv = Ok (Some v).
Proof. exact roundtrip_v2. Qed.
Print Assumptions C23_roundtrip_v2.

(* (Round trip, format 1) Any name whatsoever, creation time at least one second after the
   epoch, now - max_age <= t <= now + 31 days. *)
Theorem C23_roundtrip_v1 :
  forall mac1 mac2, mac_shape mac1 -> mac_shape mac2 ->
  forall s name v t kv y maxage now minv,
    Forall isbyte v ->
    create mac1 mac2 s name v 1 t kv = Ok y ->
    (minv <= 1)%Z -> (1 <= t)%Z -> (now - maxage <= t)%Z -> (t <= now + 31 * 86400)%Z ->
    decode mac1 mac2 s name y maxage now minv = Ok (Some v).
Proof. exact roundtrip_v1. Qed.
Print Assumptions C23_roundtrip_v1.

(* (Soundness, format 2) If decoding a format-2 string returns a value then -- provided every
   "message followed by its valid MAC under a key the reader holds" found in the string was
   issued by create_signed_value (unforgeability, the idealised-HMAC premise) -- the string IS
   EXACTLY create(secret, name, v, t, kv) for the very same name and value and an unexpired t.
   Hence every modification of a signed value, another name, an expired timestamp or a
   different payload gives None. *)
Theorem C23_v2_soundness :
  forall mac1 mac2, mac_shape mac1 -> mac_shape mac2 ->
  forall s name x maxage now minv v,
    decode mac1 mac2 s name x maxage now minv = Ok (Some v) ->
    get_version x = 2%Z ->
    (forall k S, x = S ++ mac2 k S -> (exists kv, secret_key s kv = Some k) ->
                 exists kv' t' n' v', S = to_sign2 kv' t' n' v' /\ Forall isbyte v') ->
    exists t kv, create mac1 mac2 s name v 2 t (Some kv) = Ok x /\ (now - maxage <= t)%Z /\ (minv <= 2)%Z.
Proof. exact soundness_v2. Qed.
Print Assumptions C23_v2_soundness.

(* (No replay, format 2; no premise about forgeries) An authentic value presented to ANY
   reader (other secret, other name, other clock) is accepted only with the same name, the
   same value, inside the window, and only if the reader's key for the value's key version
   produces the same MAC as the writer's key. *)
Theorem C23_v2_authentic_value_other_reader :
  forall mac1 mac2, mac_shape mac1 -> mac_shape mac2 ->
  forall s0 name0 v0 t0 kv0 y s name maxage now minv v,
    Forall isbyte v0 ->
    create mac1 mac2 s0 name0 v0 2 t0 kv0 = Ok y ->
    decode mac1 mac2 s name y maxage now minv = Ok (Some v) ->
    name = name0 /\ v = v0 /\ (now - maxage <= t0)%Z /\ (minv <= 2)%Z /\
    exists kvn k0 k, kvn = match kv0 with Some z => z | None => 0%Z end /\
                     secret_key s0 kvn = Some k0 /\ secret_key s kvn = Some k /\
                     mac2 k (to_sign2 kvn t0 name0 v0) = mac2 k0 (to_sign2 kvn t0 name0 v0).
Proof. exact authentic_v2_reader. Qed.
Print Assumptions C23_v2_authentic_value_other_reader.

(* ... so with an HMAC that separates keys, a different secret or a different key for that
   key version rejects the value. *)
Theorem C23_v2_key_separation :
  forall mac1 mac2, mac_shape mac1 -> mac_shape mac2 ->
  (forall k k' m, mac2 k m = mac2 k' m -> k = k') ->
  forall s0 name0 v0 t0 kv0 y s name maxage now minv v,
    Forall isbyte v0 ->
    create mac1 mac2 s0 name0 v0 2 t0 kv0 = Ok y ->
    decode mac1 mac2 s name y maxage now minv = Ok (Some v) ->
    name = name0 /\ v = v0 /\ (now - maxage <= t0)%Z /\
    exists k, secret_key s0 (match kv0 with Some z => z | None => 0%Z end) = Some k /\
              secret_key s (match kv0 with Some z => z | None => 0%Z end) = Some k.
Proof. exact key_separation_v2. Qed.
Print Assumptions C23_v2_key_separation.

(* An expired authentic value is rejected by every reader. *)
Theorem C23_v2_expired_rejected :
  forall mac1 mac2, mac_shape mac1 -> mac_shape mac2 ->
  forall s0 name0 v t kv y s name maxage now minv,
    Forall isbyte v ->
    create mac1 mac2 s0 name0 v 2 t kv = Ok y ->
    (minv <= 2)%Z -> (t < now - maxage)%Z ->
    decode mac1 mac2 s name y maxage now minv = Ok None.
Proof. exact expired_v2. Qed.
Print Assumptions C23_v2_expired_rejected.

(* (Format 1, the weaker statement) An accepted format-1 string consists of exactly three
   pipe-free parts whose third part is the valid MAC, under the reader's (string) secret, of
   the UNDELIMITED concatenation name ++ p0 ++ p1; the timestamp field p1 is the CANONICAL
   decimal of an integer t >= 1 (digits only, no sign/space/underscore/leading zero: bf2e153)
   inside [now - max_age, now + 31 days], the result is b64decode p0, and min_version <= 1. *)
Theorem C23_v1_soundness_weaker :
  forall mac1 mac2, mac_shape mac1 -> mac_shape mac2 ->
  forall s name x maxage now minv v,
    decode mac1 mac2 s name x maxage now minv = Ok (Some v) ->
    get_version x = 1%Z ->
    exists k p0 p1 t,
      s = SStr k /\ x = p0 ++ 124%N :: p1 ++ 124%N :: mac1 k (name ++ p0 ++ p1) /\
      Forall (fun c => c <> 124%N) p0 /\
      p1 = dec_Z t /\ (1 <= t)%Z /\ (now - maxage <= t <= now + 31 * 86400)%Z /\
      b64decode p0 = Some v /\ (minv <= 1)%Z.
Proof. exact soundness_v1. Qed.
Print Assumptions C23_v1_soundness_weaker.

(* (Format 1, same name) If moreover every MACed text found in the string was issued for THIS
   name (unforgeability premise: name ++ p0 ++ p1 = name ++ b64encode v0 ++ str(t0) for an
   issued (v0, t0 >= 1)), then either the string IS create(secret, name, v0, version 1, t0) and
   the original value is returned, or digits were shifted between payload and timestamp and the
   accepted timestamp t differs from t0 by more than a factor of two (2*t0 < t or 2*t < t0) --
   so with now + 31 days < 2*t0 and t0 <= 2*(now - max_age), e.g. any realistic clock, every
   modification is rejected.  What remains possible in format 1: these digit shifts under
   absurd clocks, and re-splitting between name and payload (next-but-three theorem). *)
Theorem C23_v1_soundness_same_name :
  forall mac1 mac2, mac_shape mac1 -> mac_shape mac2 ->
  forall s name x maxage now minv v,
    decode mac1 mac2 s name x maxage now minv = Ok (Some v) ->
    get_version x = 1%Z ->
    (forall k p0 p1, x = p0 ++ 124%N :: p1 ++ 124%N :: mac1 k (name ++ p0 ++ p1) ->
                     exists v0 t0, Forall isbyte v0 /\ (1 <= t0)%Z /\ p0 ++ p1 = b64encode v0 ++ dec_Z t0) ->
    exists v0 t0 t,
      Forall isbyte v0 /\ (1 <= t0)%Z /\ (now - maxage <= t <= now + 31 * 86400)%Z /\ (minv <= 1)%Z /\
      ((create mac1 mac2 s name v0 1 t0 None = Ok x /\ v = v0 /\ t = t0)
       \/ (2 * t0 < t)%Z \/ (2 * t < t0)%Z).
Proof. exact soundness_v1_same_name. Qed.
Print Assumptions C23_v1_soundness_same_name.

(* A key-version dictionary never accepts (and never crashes on) a format-1-shaped string;
   this was the AssertionError fixed in 5737b77. *)
Theorem C23_dict_secret_rejects_v1 :
  forall mac1 mac2, mac_shape mac1 -> mac_shape mac2 ->
  forall d name x maxage now minv,
    (minv <= 2)%Z -> get_version x = 1%Z ->
    decode mac1 mac2 (SDict d) name x maxage now minv = Ok None.
Proof. exact dict_rejects_v1. Qed.
Print Assumptions C23_dict_secret_rejects_v1.

(* A version below min_version is rejected; versions other than 1 and 2 are rejected. *)
Theorem C23_min_version_2_rejects_v1 :
  forall mac1 mac2 s name x maxage now,
    get_version x = 1%Z -> decode mac1 mac2 s name x maxage now 2 = Ok None.
Proof. exact min_version_rejects_v1. Qed.
Print Assumptions C23_min_version_2_rejects_v1.

Theorem C23_other_versions_rejected :
  forall mac1 mac2, mac_shape mac1 -> mac_shape mac2 ->
  forall s name x maxage now minv,
    (minv <= 2)%Z -> get_version x <> 1%Z -> get_version x <> 2%Z ->
    decode mac1 mac2 s name x maxage now minv = Ok None.
Proof. exact other_versions_rejected. Qed.
Print Assumptions C23_other_versions_rejected.

(* (Refutation of "a different name gives None" for format 1, for EVERY HMAC.)  Split the
   base64 payload of an authentic format-1 value as b1 ++ b2 (b2 a whole number of quads):
   the value with payload b2 is accepted under the name  name ++ b1.  Format 1 is still
   accepted by default (DEFAULT_SIGNED_VALUE_MIN_VERSION = 1). *)
Theorem C23_v1_cross_name_replay_refuted :
  forall mac1 mac2, mac_shape mac1 -> mac_shape mac2 ->
  forall k name w t maxage now v b1 b2,
    b64encode w = b1 ++ b2 ->
    Forall (fun c => c <> 124%N) b1 -> Forall (fun c => c <> 124%N) b2 ->
    (exists j, length b2 = (4 * j)%nat) -> b64decode b2 = Some v ->
    (1 <= t)%Z -> (now - maxage <= t)%Z -> (t <= now + 31 * 86400)%Z ->
    decode mac1 mac2 (SStr k) (name ++ b1)
           (b2 ++ 124%N :: dec_Z t ++ 124%N :: mac1 k (name ++ b64encode w ++ dec_Z t)) maxage now 1
    = Ok (Some v).
Proof. exact v1_cross_name_replay. Qed.
Print Assumptions C23_v1_cross_name_replay_refuted.

(* ------------------------------------------------------------------------------------
   The Python API: secrets, names and values given as str (code points, utf8() modelled in
   Coq) or bytes; the signed value handed back as bytes or str, or None.
   [arg_ok]: a str is a list of Unicode code points (< 0x110000), a bytes object a list of bytes. *)

(* Round trip through the API for ALL names (str or bytes, non-ASCII included), all values,
   both secret forms: decode(create(name, value)) = utf8(value). *)
Theorem C23_api_roundtrip_v2 :
  forall mac1 mac2, mac_shape mac1 -> mac_shape mac2 ->
  forall sa name value t kv y xa maxage now minv,
    arg_ok value ->
    create_api mac1 mac2 sa name value 2 t kv = Ok y -> utf8 xa = y ->
    (minv <= 2)%Z -> (now - maxage <= t)%Z ->
    decode_api mac1 mac2 sa name (Some xa) maxage now minv = Ok (Some (utf8 value)).
Proof. intros; eapply api_roundtrip_v2; eauto. Qed.
Print Assumptions C23_api_roundtrip_v2.

Theorem C23_api_roundtrip_v1 :
  forall mac1 mac2, mac_shape mac1 -> mac_shape mac2 ->
  forall sa name value t kv y xa maxage now minv,
    arg_ok value ->
    create_api mac1 mac2 sa name value 1 t kv = Ok y -> utf8 xa = y ->
    (minv <= 1)%Z -> (1 <= t)%Z -> (now - maxage <= t)%Z -> (t <= now + 31 * 86400)%Z ->
    decode_api mac1 mac2 sa name (Some xa) maxage now minv = Ok (Some (utf8 value)).
Proof. intros; eapply api_roundtrip_v1; eauto. Qed.
Print Assumptions C23_api_roundtrip_v1.

(* decode_signed_value never raises for str, bytes or None input. *)
Theorem C23_api_decode_never_raises :
  forall mac1 mac2 sa name x maxage now minv,
    (minv <= 2)%Z -> exists r, decode_api mac1 mac2 sa name x maxage now minv = Ok r.
Proof. intros; eapply api_decode_total; eauto. Qed.
Print Assumptions C23_api_decode_never_raises.

(* get_signature_key_version returns the key version create_signed_value wrote
   (key_version or 0) for format 2, None for format 1; it is total by construction. *)
Theorem C23_key_version_of_created_v2 :
  forall mac1 mac2 sa name value t kv y xa,
    create_api mac1 mac2 sa name value 2 t kv = Ok y -> utf8 xa = y ->
    get_signature_key_version xa = Some (match kv with Some z => z | None => 0%Z end).
Proof. intros; eapply key_version_of_created_v2; eauto. Qed.
Print Assumptions C23_key_version_of_created_v2.

Theorem C23_key_version_of_created_v1 :
  forall mac1 mac2, mac_shape mac1 -> mac_shape mac2 ->
  forall sa name value t kv y xa,
    arg_ok value ->
    create_api mac1 mac2 sa name value 1 t kv = Ok y -> utf8 xa = y ->
    get_signature_key_version xa = None.
Proof. intros mac1 mac2 H1 H2; intros; eapply (key_version_of_created_v1 mac1 mac2 H1 H2); eauto. Qed.
Print Assumptions C23_key_version_of_created_v1.

(* ------------------------------------------------------------------------------------
   Tampering with an authentic format-2 value, under the HMAC section hypotheses. *)

(* (a) signed part intact, signature bytes changed in ANY way: rejected under every name and
   clock by any reader holding the issuing key under that key version.  Needs only the digest shape. *)
Theorem C23_v2_tampered_signature_rejected :
  forall mac1 mac2, mac_shape mac1 -> mac_shape mac2 ->
  forall s name' kvn t name v k sg' maxage now minv,
    secret_key s kvn = Some k -> (minv <= 2)%Z ->
    sg' <> mac2 k (to_sign2 kvn t name v) ->
    decode mac1 mac2 s name' (to_sign2 kvn t name v ++ sg') maxage now minv = Ok None.
Proof. intros; eapply tamper_signature_v2; eauto. Qed.
Print Assumptions C23_v2_tampered_signature_rejected.

(* (b) signature intact, signed part changed in ANY way (any reader, any secret): idealised
   HMAC = fixed digest lengths (SHA-1's shorter than SHA-256's) and injectivity. *)
Theorem C23_v2_tampered_signed_part_rejected :
  forall mac1 mac2, mac_shape mac1 -> mac_shape mac2 ->
  forall L1 L2, (forall k m, length (mac1 k m) = L1) -> (forall k m, length (mac2 k m) = L2) -> (L1 < L2)%nat ->
  (forall k m k' m', mac2 k m = mac2 k' m' -> k = k' /\ m = m') ->
  forall s name' k S S' maxage now minv,
    (minv <= 2)%Z -> S' <> S ->
    decode mac1 mac2 s name' (S' ++ mac2 k S) maxage now minv = Ok None.
Proof. intros; eapply tamper_signed_part_v2; eauto. Qed.
Print Assumptions C23_v2_tampered_signed_part_rejected.

(* Every single-byte substitution, at any position, of an authentic format-2 value is
   rejected by the issuing secret, under every name and clock. *)
Theorem C23_v2_byte_substitution_rejected :
  forall mac1 mac2, mac_shape mac1 -> mac_shape mac2 ->
  forall L1 L2, (forall k m, length (mac1 k m) = L1) -> (forall k m, length (mac2 k m) = L2) -> (L1 < L2)%nat ->
  (forall k m k' m', mac2 k m = mac2 k' m' -> k = k' /\ m = m') ->
  forall s name v t kv y a c c' b name' maxage now minv,
    create mac1 mac2 s name v 2 t kv = Ok y -> (minv <= 2)%Z ->
    y = a ++ c :: b -> c' <> c ->
    decode mac1 mac2 s name' (a ++ c' :: b) maxage now minv = Ok None.
Proof. intros; eapply byte_substitution_rejected_v2; eauto. Qed.
Print Assumptions C23_v2_byte_substitution_rejected.

(* ------------------------------------------------------------------------------------
   The executable model satisfies the property checker on EVERY input (every MAC table,
   every operation, every provenance hint): whatever check_case demands of the
   implementation's observable is true of the model's. *)
Theorem C23_check_accepts_model : forall c, check_case c (run_case c) = true.
Proof. exact check_accepts_model. Qed.
Print Assumptions C23_check_accepts_model.

(* The premises are satisfiable (a MAC of the required shape that separates keys), and the
   round-trip hypotheses have non-trivial instances (Proofs3: roundtrip_v2_instance,
   roundtrip_v1_instance, v1_cross_name_witness). *)
Theorem C23_premises_satisfiable :
  mac_shape toy_mac /\ (forall k k' m, toy_mac k m = toy_mac k' m -> k = k').
Proof. split; [exact toy_sig|exact toy_inj]. Qed.
Print Assumptions C23_premises_satisfiable.
