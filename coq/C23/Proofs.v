(* C23 — proofs. *)
From Coq Require Import List NArith ZArith Bool Arith Lia.
Import ListNotations.
From TV Require Import C23.Model.

Section Totality.
  Variable mac1 mac2 : bytes -> bytes -> bytes.

  Lemma decode_total : forall s name x maxage now minv,
      (minv <= 2)%Z -> exists r, decode mac1 mac2 s name x maxage now minv = Ok r.
  Proof.
    intros s name x maxage now minv Hm. unfold decode.
    destruct (2 <? minv)%Z eqn:E; [apply Z.ltb_lt in E; lia|].
    destruct x as [|c x']; [eauto|].
    destruct (get_version (c :: x') <? minv)%Z; [eauto|].
    destruct (get_version (c :: x') =? 1)%Z; [destruct s; eauto|].
    destruct (get_version (c :: x') =? 2)%Z; eauto.
  Qed.
End Totality.
