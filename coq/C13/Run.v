(* C13 — executable entry points used by the correspondence check. *)
From Coq Require Import List NArith ZArith Arith Bool String.
Import ListNotations.
From TV Require Import Lib.Obs C11.Model C11.Trace C11.Run.
Local Open Scope string_scope.

Definition run_case (i : input) : obs := run_trace i.

(* ----- the property on observables: no future is settled twice, and the user's close
   callback is never scheduled before a settlement of the same step ----- *)
Definition ev_fid (e : obs) : list Z :=
  match e with
  | OList [OTag t; OInt z; _] => if String.eqb t "done" then [z] else []
  | _ => []
  end.

Fixpoint nodupb (l : list Z) : bool :=
  match l with
  | [] => true
  | z :: l' => negb (existsb (Z.eqb z) l') && nodupb l'
  end.

Definition check_case (i : input) (o : obs) : bool :=
  nodupb (flat_map ev_fid (trace_events o)).
