(* C13/C11 — the listening invariant: in every reachable open state a pending read implies the
   stream listens for READ, buffered outgoing data (or a pending connect) implies it listens
   for WRITE.  G s s': what every internal function guarantees while the stream stays open. *)
From Coq Require Import List NArith Arith Bool Lia.
Import ListNotations.
From TV Require Import C11.Model C11.Proofs1 C11.Proofs2 C11.Ledger C11.Proofs3 C11.Proofs4 C11.Proofs5 C11.Fuel.

Definition lr (s : st) : bool := match io_state s with Some (true, _) => true | _ => false end.
Definition lw (s : st) : bool := match io_state s with Some (_, true) => true | _ => false end.

Record Gk (s s' : st) : Prop := {
  g_lr : lr s = true -> lr s' = true;
  g_lw : lw s = true -> lw s' = true;
  g_rd : rd_future s = None -> rd_future s' = None;
  g_wb : wbuf s' <> [] -> wbuf s <> [];
  g_dl : rd_delim s = None -> rd_delim s' = None;
  g_rx : rd_regex s = None -> rd_regex s' = None;
  g_cn : connecting s' = true -> connecting s = true
}.

Definition G (s s' : st) : Prop :=
  (closed s = true -> closed s' = true) /\ (closed s' = false -> Gk s s').

Lemma G_refl : forall s, G s s.
Proof. intros s. split; auto. intros _. constructor; auto. Qed.

Lemma G_trans : forall a b c, G a b -> G b c -> G a c.
Proof.
  intros a b c [A1 A2] [B1 B2]. split; auto. intros Hc.
  assert (Hb : closed b = false) by (destruct (closed b) eqn:E; auto; rewrite B1 in Hc; auto; discriminate).
  destruct (A2 Hb), (B2 Hc). constructor; auto.
Qed.

Lemma G_closed : forall s s', closed s' = true -> G s s'.
Proof. intros s s' H. split; auto. intros X; congruence. Qed.

(* same closed flag and the seven components hold outright *)
Lemma G_k : forall s s', closed s' = closed s -> Gk s s' -> G s s'.
Proof. intros s s' A K. split; [congruence|auto]. Qed.

Ltac gk := apply G_k; [reflexivity|constructor; cbn; auto].

Lemma G_io_add : forall r w s, closed s = false -> G s (add_io_state r w s).
Proof.
  intros r w s Hc. unfold add_io_state. rewrite Hc. apply G_k.
  - destruct (io_state s) as [[? ?]|]; reflexivity.
  - destruct (io_state s) as [[[|] [|]]|] eqn:E; destruct r, w; constructor; unfold lr, lw; cbn; rewrite ?E; auto; discriminate.
Qed.

Lemma G_add_io_state : forall r w s, G s (add_io_state r w s).
Proof.
  intros r w s. destruct (closed s) eqn:E; [|apply G_io_add; auto].
  unfold add_io_state. rewrite E. apply G_refl.
Qed.

Lemma G_maybe_ael : forall s, G s (maybe_add_error_listener s).
Proof.
  intros s. unfold maybe_add_error_listener.
  destruct (io_state s) as [[[|] [|]]|]; try apply G_refl;
    destruct (negb (closed s) && (rbs s =? 0) && close_cb s); try apply G_refl; apply G_add_io_state.
Qed.

Lemma G_finish_read : forall n s, G s (finish_read n s).
Proof.
  intros n s. unfold finish_read.
  destruct (user s); [|destruct n; [|destruct (S n <=? rbs s)]]; cbn;
    (eapply G_trans; [|apply G_maybe_ael]); destruct (rd_future s) eqn:E; gk.
Qed.

Lemma G_read_from_buffer : forall p s, G s (read_from_buffer p s).
Proof. intros. unfold read_from_buffer. eapply G_trans; [|apply G_finish_read]. gk. Qed.

Lemma G_close : forall e s x, G s (close e x).
Proof. intros. apply G_closed, closed_after_close. Qed.

Lemma G_read_to_buffer : forall s, G s (fst (read_to_buffer s)).
Proof.
  intros s. unfold read_to_buffer, read_from_fd.
  destruct (inq s) as [|[bs| |r] q]; cbn [fst].
  - apply G_refl.
  - match goal with |- context[length (firstn ?k bs)] => generalize k end. intros k.
    destruct (length (firstn k bs)).
    + cbn [fst]. apply G_close.
    + match goal with |- G _ (fst (if ?c then _ else _)) => destruct c end; cbn [fst].
      * apply G_close.
      * destruct (k <? length bs); gk.
  - cbn. apply G_close.
  - destruct r; cbn; apply G_close.
Qed.

Lemma G_rloop : forall fuel t nfp s, G s (fst (rloop fuel t nfp s)).
Proof.
  induction fuel as [|fuel IH]; intros t nfp s; cbn [rloop].
  - destruct (closed s); apply G_refl.
  - destruct (closed s); [apply G_refl|].
    pose proof (G_read_to_buffer s) as M1.
    destruct (read_to_buffer s) as [s1 r]. cbn [fst] in M1.
    assert (Hrest : G s (fst (if match t with Some t0 => t0 <=? rbs s1 | None => false end
               then (s1, of_frp (find_read_pos s1))
               else if nfp <=? rbs s1
                    then match find_read_pos s1 with
                         | FPos p => (s1, LPos p)
                         | FUnsat => (s1, LExn XUnsat)
                         | FNone => rloop fuel t (2 * rbs s1) s1
                         end
                    else rloop fuel t nfp s1))).
    { destruct (match t with Some t0 => t0 <=? rbs s1 | None => false end); [exact M1|].
      destruct (nfp <=? rbs s1); [|eapply G_trans; [exact M1|apply IH]].
      destruct (find_read_pos s1); try exact M1. eapply G_trans; [exact M1|apply IH]. }
    destruct r as [[|n]| |x]; auto.
Qed.

(* what the loop's result says about its final state *)
Lemma rloop_result : forall fuel t nfp s,
  match snd (rloop fuel t nfp s) with
  | LExn XUnsat => find_read_pos (fst (rloop fuel t nfp s)) = FUnsat
  | LExn XFuel => True
  | LExn _ => closed (fst (rloop fuel t nfp s)) = true
  | _ => True
  end.
Proof.
  induction fuel as [|fuel IH]; intros t nfp s; cbn [rloop].
  - destruct (closed s); cbn; auto. destruct (find_read_pos s); cbn; auto.
  - destruct (closed s).
    { cbn. destruct (find_read_pos s); cbn; auto. }
    destruct (read_to_buffer s) as [s1 r] eqn:Ertb.
    assert (Hfin : match snd (s1, of_frp (find_read_pos s1)) with
                   | LExn XUnsat => find_read_pos (fst (s1, of_frp (find_read_pos s1))) = FUnsat
                   | LExn XFuel => True
                   | LExn _ => closed (fst (s1, of_frp (find_read_pos s1))) = true
                   | _ => True end)
      by (cbn; destruct (find_read_pos s1) eqn:E; cbn; auto).
    assert (Hrest : match snd (if match t with Some t0 => t0 <=? rbs s1 | None => false end
               then (s1, of_frp (find_read_pos s1))
               else if nfp <=? rbs s1
                    then match find_read_pos s1 with
                         | FPos p => (s1, LPos p)
                         | FUnsat => (s1, LExn XUnsat)
                         | FNone => rloop fuel t (2 * rbs s1) s1
                         end
                    else rloop fuel t nfp s1) with
          | LExn XUnsat => find_read_pos (fst (if match t with Some t0 => t0 <=? rbs s1 | None => false end
               then (s1, of_frp (find_read_pos s1))
               else if nfp <=? rbs s1
                    then match find_read_pos s1 with
                         | FPos p => (s1, LPos p)
                         | FUnsat => (s1, LExn XUnsat)
                         | FNone => rloop fuel t (2 * rbs s1) s1
                         end
                    else rloop fuel t nfp s1)) = FUnsat
          | LExn XFuel => True
          | LExn _ => closed (fst (if match t with Some t0 => t0 <=? rbs s1 | None => false end
               then (s1, of_frp (find_read_pos s1))
               else if nfp <=? rbs s1
                    then match find_read_pos s1 with
                         | FPos p => (s1, LPos p)
                         | FUnsat => (s1, LExn XUnsat)
                         | FNone => rloop fuel t (2 * rbs s1) s1
                         end
                    else rloop fuel t nfp s1)) = true
          | _ => True end).
    { destruct (match t with Some t0 => t0 <=? rbs s1 | None => false end); [exact Hfin|].
      destruct (nfp <=? rbs s1); [|apply IH].
      destruct (find_read_pos s1) eqn:E; cbn; auto. apply IH. }
    destruct r as [[|n]| |x]; auto.
    (* _read_to_buffer raised: it closed first *)
    cbn. unfold read_to_buffer, read_from_fd in Ertb.
    destruct (inq s) as [|[bs| |r] q]; cbn in Ertb; try discriminate.
    + match type of Ertb with context[length (firstn ?k bs)] => destruct (length (firstn k bs)) end;
        [discriminate|].
      match type of Ertb with (if ?c then _ else _) = _ => destruct c end; [|discriminate].
      inversion Ertb; subst. apply closed_after_close.
    + destruct r; inversion Ertb; subst. apply closed_after_close.
Qed.

Lemma G_handle_read : forall s, G s (fst (handle_read s)).
Proof.
  intros s. unfold handle_read, read_to_buffer_loop.
  pose proof (G_rloop (S (qmeasure (inq s))) (loop_target s) 0 s) as M.
  destruct (rloop (S (qmeasure (inq s))) (loop_target s) 0 s) as [s1 r]. cbn [fst] in M.
  destruct r as [p| |x]; cbn [fst]; auto.
  - eapply G_trans; [exact M|apply G_read_from_buffer].
  - destruct x; cbn [fst]; auto; apply G_close.
Qed.

Lemma G_wloop : forall fuel s, G s (fst (wloop fuel s)).
Proof.
  induction fuel as [|fuel IH]; intros s; cbn [wloop].
  - destruct (wbuf s); cbn; gk.
  - destruct (wbuf s) as [|b w] eqn:Ew; [apply G_refl|]. rewrite <- Ew.
    unfold write_to_fd. destruct (sscript s) as [|[k| |x] r]; cbn [fst].
    + destruct (length (wbuf s)); cbn [fst]; [gk|]. eapply G_trans; [|apply IH]. gk.
      intros _. rewrite Ew. discriminate.
    + destruct (Nat.min k (length (wbuf s))); cbn [fst]; [gk|]. eapply G_trans; [|apply IH]. gk.
      intros _. rewrite Ew. discriminate.
    + gk.
    + apply G_close.
Qed.

Lemma G_resolve_writes : forall l s, G s (resolve_writes l s).
Proof.
  induction l as [|[i f] l IH]; intros s; cbn [resolve_writes]; [gk|].
  destruct (w_done s <? i); [gk|]. eapply G_trans; [|apply IH]. gk.
Qed.

Lemma G_handle_write : forall s, G s (handle_write s).
Proof.
  intros s. unfold handle_write. pose proof (G_wloop (S (length (wbuf s))) s) as M.
  destruct (wloop (S (length (wbuf s))) s) as [s1 e]. cbn [fst] in M.
  destruct e; auto. eapply G_trans; [exact M|apply G_resolve_writes].
Qed.

Lemma G_handle_connect : forall so s, G s (handle_connect so s).
Proof.
  intros so s. unfold handle_connect. destruct so; [apply G_close|].
  destruct (conn_future s); gk; discriminate.
Qed.

Lemma G_fold_run_cb : forall q s, G s (fold_left run_cb q s).
Proof.
  induction q as [|c q IH]; intros s; cbn; [apply G_refl|].
  eapply G_trans; [|apply IH]. destruct c; cbn; [gk|apply G_close].
Qed.

(* ---------- the invariant ---------- *)
Record WInv (s : st) : Prop := {
  w_read : rd_future s <> None -> lr s = true;
  w_write : wbuf s <> [] -> lw s = true;
  w_conn : connecting s = true -> lw s = true
}.
Definition Listening (s : st) : Prop := closed s = false -> WInv s.

Lemma G_listening : forall s s', G s s' -> Listening s -> Listening s'.
Proof.
  intros s s' [A B] H Hc.
  assert (Hs : closed s = false) by (destruct (closed s) eqn:E; auto; rewrite A in Hc; auto; discriminate).
  destruct (H Hs) as [W1 W2 W3]. destruct (B Hc). constructor.
  - intros X. apply g_lr0, W1. intros Y. apply X, g_rd0, Y.
  - intros X. apply g_lw0, W2, g_wb0, X.
  - intros X. apply g_lw0, W3, g_cn0, X.
Qed.

(* everything but the read clause (used while a read call is in progress) *)
Definition Listening_w (s : st) : Prop :=
  closed s = false -> (wbuf s <> [] -> lw s = true) /\ (connecting s = true -> lw s = true).

Lemma G_listening_w : forall s s', G s s' -> Listening_w s -> Listening_w s'.
Proof.
  intros s s' [A B] H Hc.
  assert (Hs : closed s = false) by (destruct (closed s) eqn:E; auto; rewrite A in Hc; auto; discriminate).
  destruct (H Hs) as [W2 W3]. destruct (B Hc). split.
  - intros X. apply g_lw0, W2, g_wb0, X.
  - intros X. apply g_lw0, W3, g_cn0, X.
Qed.

Lemma listening_of_w : forall s, Listening_w s -> (closed s = false -> rd_future s <> None -> lr s = true) -> Listening s.
Proof. intros s H R Hc. destruct (H Hc). constructor; auto. Qed.

Lemma lr_add_read : forall s, closed s = false -> lr (add_io_state true false s) = true.
Proof.
  intros s Hc. unfold add_io_state, lr. rewrite Hc. destruct (io_state s) as [[r0 w0]|]; cbn; auto.
  rewrite orb_true_r. reflexivity.
Qed.

Lemma frp_no_unsat : forall s, rd_delim s = None -> rd_regex s = None -> find_read_pos s <> FUnsat.
Proof.
  intros s A B. unfold find_read_pos. rewrite (frp_rest_clean s A B).
  destruct (rd_bytes s); [destruct (_ || _)|]; discriminate.
Qed.

(* a read call: criteria installed in s2, future set *)
Lemma read_call_listening : forall c f s2,
  Listening_w s2 -> (c = false -> rd_delim s2 = None /\ rd_regex s2 = None) ->
  Listening (fst (finish_call c f (try_inline_read s2))).
Proof.
  intros c f s2 HW Hc.
  assert (Hunsat : forall x, G s2 x -> closed x = false -> find_read_pos x = FUnsat -> c = true).
  { intros x [_ Gx] Hx Hf. destruct c; auto. destruct (Hc eq_refl) as [A B]. destruct (Gx Hx).
    exfalso. apply (frp_no_unsat x); auto. }
  unfold try_inline_read.
  destruct (find_read_pos s2) as [p| |] eqn:Ef; cbn [finish_call fst].
  - apply listening_of_w; [eapply G_listening_w; [apply G_read_from_buffer|exact HW]|].
    intros _ X. exfalso. apply X. unfold read_from_buffer. apply finish_read_future.
  - destruct (closed s2) eqn:E2; cbn [finish_call fst]; [intros X; congruence|].
    unfold read_to_buffer_loop.
    pose proof (G_rloop (S (qmeasure (inq s2))) (loop_target s2) 0 s2) as M.
    pose proof (rloop_result (S (qmeasure (inq s2))) (loop_target s2) 0 s2) as Rr.
    pose proof (rloop_fuel (S (qmeasure (inq s2))) (loop_target s2) 0 s2 ltac:(lia)) as Fu.
    destruct (rloop (S (qmeasure (inq s2))) (loop_target s2) 0 s2) as [s1 r]. cbn [fst snd] in *.
    destruct r as [p| |x]; cbn [finish_call fst].
    + apply listening_of_w; [eapply G_listening_w; [eapply G_trans; [exact M|apply G_read_from_buffer]|exact HW]|].
      intros _ X. exfalso. apply X. unfold read_from_buffer. apply finish_read_future.
    + destruct (closed s1) eqn:E1; [intros X; congruence|].
      apply listening_of_w; [eapply G_listening_w; [eapply G_trans; [exact M|apply G_add_io_state]|exact HW]|].
      intros _ _. apply lr_add_read. exact E1.
    + destruct x; cbn [fst]; try (intros X; congruence); try congruence.
      destruct (closed s1) eqn:E1.
      * destruct c; cbn [fst]; [intros X; rewrite closed_after_close in X; discriminate|intros X; congruence].
      * rewrite (Hunsat s1 M E1 Rr). cbn [fst]. intros X. rewrite closed_after_close in X. discriminate.
  - destruct (closed s2) eqn:E2.
    + destruct c; cbn [fst]; [intros X; rewrite closed_after_close in X; discriminate|intros X; congruence].
    + rewrite (Hunsat s2 (G_refl s2) E2 Ef). cbn [fst]. intros X. rewrite closed_after_close in X. discriminate.
Qed.

Lemma lw_add_write : forall s, closed s = false -> lw (add_io_state false true s) = true.
Proof.
  intros s Hc. unfold add_io_state, lw. rewrite Hc. destruct (io_state s) as [[r0 w0]|]; cbn; auto.
  rewrite orb_true_r. reflexivity.
Qed.

Lemma listening_same : forall s s', closed s' = closed s -> io_state s' = io_state s ->
  rd_future s' = rd_future s -> wbuf s' = wbuf s -> connecting s' = connecting s -> Listening s -> Listening s'.
Proof.
  intros s s' A B C D E H Hc. rewrite A in Hc. destruct (H Hc) as [W1 W2 W3].
  constructor; unfold lr, lw in *; rewrite ?B, ?C, ?D, ?E; auto.
Qed.

Lemma listening_w_same : forall s s', closed s' = closed s -> io_state s' = io_state s ->
  wbuf s' = wbuf s -> connecting s' = connecting s -> Listening s -> Listening_w s'.
Proof.
  intros s s' A B D E H Hc. rewrite A in Hc. destruct (H Hc) as [W1 W2 W3].
  split; unfold lr, lw in *; rewrite ?B, ?D, ?E; auto.
Qed.

Lemma do_read_listening : forall r s, Inv s -> Listening s -> Listening (fst (do_read r s)).
Proof.
  intros r s I H. unfold do_read, start_read.
  destruct (rd_future s) eqn:Hn; [exact H|].
  destruct (i_clean s I Hn) as (C1 & C2 & C3 & _).
  set (s0 := w_reqs _ _).
  destruct r as [n pt|n pt|d mx|q mx|].
  - apply read_call_listening; [eapply listening_w_same; [| | | |exact H]; reflexivity|]. intros _. split; assumption.
  - apply read_call_listening.
    + destruct (n <=? rbs s0); [|destruct (rbs s0)]; (eapply listening_w_same; [| | | |exact H]; reflexivity).
    + intros _. destruct (n <=? rbs s0); [|destruct (rbs s0)]; split; assumption.
  - apply read_call_listening; [eapply listening_w_same; [| | | |exact H]; reflexivity|]. discriminate.
  - apply read_call_listening; [eapply listening_w_same; [| | | |exact H]; reflexivity|]. discriminate.
  - destruct (closed s0) eqn:E0; cbn [fst].
    + intros X. destruct (G_finish_read (rbs s0) s0) as [A _]. rewrite (A E0) in X. discriminate.
    + apply read_call_listening; [eapply listening_w_same; [| | | |exact H]; reflexivity|]. intros _. split; assumption.
Qed.

Lemma do_write_listening : forall d s, Listening s -> Listening (fst (do_write d s)).
Proof.
  intros d s H. unfold do_write. destruct (closed s) eqn:Ec; [exact H|].
  match goal with |- context[if ?c then (s, RetRaise XWBufFull) else _] => destruct c end; [exact H|].
  destruct (H Ec) as [W1 W2 W3].
  match goal with |- context[if connecting ?x then _ else _] => set (s2 := x) end.
  destruct (connecting s2) eqn:Ecn; cbn [fst].
  - intros _. constructor; unfold lr, lw in *; cbn; auto.
  - pose proof (G_handle_write s2) as M.
    set (s3 := handle_write s2) in *.
    eapply G_listening; [apply G_maybe_ael|].
    intros Hc4.
    assert (Hc3 : closed s3 = false).
    { destruct (wbuf s3); auto. destruct (add_io_state_eq false true s3) as [y Hy]. rewrite Hy in Hc4. exact Hc4. }
    destruct M as [_ M]. destruct (M Hc3).
    assert (R3 : rd_future s3 <> None -> lr s3 = true).
    { intros X. apply g_lr0. apply W1. intros Y. apply X, g_rd0. exact Y. }
    assert (C3 : connecting s3 = true -> lw s3 = true).
    { intros X. apply g_cn0 in X. congruence. }
    destruct (wbuf s3) as [|b w] eqn:Ew.
    + constructor; auto; intros X; congruence.
    + destruct (G_io_add false true s3 Hc3) as [_ K]. specialize (K Hc4). destruct K.
      constructor.
      * intros X. apply g_lr1, R3. intros Y. apply X, g_rd1, Y.
      * intros _. apply lw_add_write; auto.
      * intros _. apply lw_add_write; auto.
Qed.

Lemma do_connect_listening : forall fl s, Listening s -> Listening (fst (do_connect fl s)).
Proof.
  intros fl s H. unfold do_connect. destruct (closed s) eqn:Ec; cbn [fst]; [intros X; cbn in X; congruence|].
  destruct fl; cbn [fst].
  - intros X. rewrite closed_after_close in X. discriminate.
  - match goal with |- Listening (add_io_state false true ?x) => set (s1 := x) end.
    assert (Hc1 : closed s1 = false) by exact Ec.
    intros Hc'. destruct (H Ec) as [W1 W2 W3].
    destruct (G_io_add false true s1 Hc1) as [_ K]. specialize (K Hc'). destruct K.
    constructor.
    + intros X. apply g_lr0. apply W1. intros Y. apply X, g_rd0. exact Y.
    + intros _. apply lw_add_write; auto.
    + intros _. apply lw_add_write; auto.
Qed.

Lemma handle_connect_open : forall so s, closed (handle_connect so s) = false -> connecting (handle_connect so s) = false.
Proof.
  intros so s H. unfold handle_connect in *. destruct so; [rewrite closed_after_close in H; discriminate|].
  destruct (conn_future s); reflexivity.
Qed.

Lemma handle_events_listening : forall r w e so fd s, Listening s -> Listening (fst (handle_events r w e so fd s)).
Proof.
  intros r w e so fd s H. unfold handle_events.
  destruct (closed s) eqn:Ec; [exact H|].
  assert (M1 : G s (if connecting s then handle_connect so s else s))
    by (destruct (connecting s); [apply G_handle_connect|apply G_refl]).
  assert (C1 : closed (if connecting s then handle_connect so s else s) = false ->
               connecting (if connecting s then handle_connect so s else s) = false).
  { destruct (connecting s) eqn:E; [apply handle_connect_open|auto]. }
  set (s1 := if connecting s then handle_connect so s else s) in *.
  destruct (closed s1) eqn:E1; [cbn; intros X; congruence|]. specialize (C1 eq_refl).
  assert (M2 : G s (fst (if r then handle_read s1 else (s1, None)))).
  { destruct r; cbn [fst]; auto. eapply G_trans; [exact M1|apply G_handle_read]. }
  assert (C2 : G s1 (fst (if r then handle_read s1 else (s1, None))))
    by (destruct r; cbn [fst]; [apply G_handle_read|apply G_refl]).
  destruct (if r then handle_read s1 else (s1, None)) as [s2 x]. cbn [fst] in *.
  destruct x as [x|].
  - destruct x; cbn [fst]; intros X; rewrite closed_after_close in X; discriminate.
  - destruct (closed s2) eqn:E2; [cbn; intros X; congruence|].
    assert (M3 : G s (if w then handle_write s2 else s2)).
    { destruct w; auto. eapply G_trans; [exact M2|apply G_handle_write]. }
    assert (C3 : G s1 (if w then handle_write s2 else s2)).
    { destruct w; auto. eapply G_trans; [exact C2|apply G_handle_write]. }
    set (s3 := if w then handle_write s2 else s2) in *.
    destruct (closed s3) eqn:E3; [cbn; intros X; congruence|].
    pose proof (G_listening _ _ M3 H) as H3.
    assert (Cn3 : connecting s3 = false).
    { destruct C3 as [_ K]. destruct (K E3). destruct (connecting s3) eqn:E; auto. rewrite g_cn0 in C1; auto. }
    destruct e; cbn [fst].
    + eapply listening_same; [| | | | |exact H3]; reflexivity.
    + destruct (io_state s3) as [[r0 w0]|] eqn:Eio; cbn [fst].
      * intros _.
        set (rd := match rd_future s3 with Some _ => true | None => false end).
        set (wr := match wbuf s3 with [] => false | _ => true end).
        set (rd' := if negb rd && negb wr && (rbs s3 =? 0) then true else rd).
        assert (Hrd : rd_future s3 <> None -> rd' = true).
        { intros X. subst rd' rd. destruct (rd_future s3); [|congruence]. cbn. reflexivity. }
        assert (Hwr : wbuf s3 <> [] -> wr = true).
        { intros X. subst wr. destruct (wbuf s3); [congruence|reflexivity]. }
        destruct (Bool.eqb r0 rd' && Bool.eqb w0 wr) eqn:Eq.
        -- apply andb_true_iff in Eq as [Q1 Q2]. apply eqb_prop in Q1. apply eqb_prop in Q2.
           constructor; unfold lr, lw; rewrite Eio; intros X.
           ++ rewrite Q1, (Hrd X). reflexivity.
           ++ rewrite Q2, (Hwr X). destruct r0; reflexivity.
           ++ congruence.
        -- constructor; unfold lr, lw; cbn; intros X.
           ++ rewrite (Hrd X). reflexivity.
           ++ rewrite (Hwr X). destruct rd'; reflexivity.
           ++ congruence.
      * intros X. rewrite closed_after_close in X. discriminate.
Qed.

Theorem step_listening : forall o s, Inv s -> Listening s -> Listening (fst (step s o)).
Proof.
  intros o s I H. destruct o; cbn [step].
  - apply do_read_listening; auto.
  - apply do_write_listening; auto.
  - apply do_connect_listening; auto.
  - cbn [fst]. eapply G_listening; [apply G_maybe_ael|]. eapply listening_same; [| | | | |exact H]; reflexivity.
  - cbn [fst]. intros X. rewrite closed_after_close in X. discriminate.
  - cbn [fst]. eapply listening_same; [| | | | |exact H]; reflexivity.
  - cbn [fst]. eapply listening_same; [| | | | |exact H]; reflexivity.
  - destruct (io_state s) as [[lr0 lw0]|] eqn:Ei; [|exact H].
    destruct (closed s); [exact H|].
    destruct (r && lr0 || w && lw0 || e); [|exact H]. apply handle_events_listening; auto.
  - cbn [fst]. eapply G_listening; [apply G_fold_run_cb|]. eapply listening_same; [| | | | |exact H]; reflexivity.
Qed.

Theorem run_listening : forall c m mw p, run_ok (init c m mw) p ->
  let s := run (init c m mw) p in
  closed s = false ->
  (rd_future s <> None -> lr s = true) /\ (wbuf s <> [] -> lw s = true) /\ (connecting s = true -> lw s = true).
Proof.
  intros c m mw p Hok.
  assert (Hgen : forall q s0, Inv s0 -> LInv (led_of s0) -> Listening s0 -> run_ok s0 q -> Listening (run s0 q)).
  { induction q as [|o q IH]; intros s0 I L H Hq; cbn [run]; auto.
    destruct Hq as [Ho Hq]. destruct (step_spec o s0 I L Ho) as [I1 M1].
    apply IH; auto; [eapply linv_moves; eauto|apply step_listening; auto]. }
  intros s Hc.
  assert (Hl : Listening s).
  { apply Hgen; auto; [apply inv_init|apply linv_init|].
    intros _. constructor; cbn; intros; congruence. }
  destruct (Hl Hc) as [W1 W2 W3]. auto.
Qed.
