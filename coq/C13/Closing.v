(* C13 — step level: the step during which the stream becomes closed leaves no future pending.
   R s s': going from s to s' either keeps `closed` and only removes tracked futures, or ends
   closed with nothing tracked.  Every internal function satisfies R; futures are only created
   at the start of read/write/connect calls. *)
From Coq Require Import List NArith Arith Bool Lia.
Import ListNotations.
From TV Require Import C11.Model C11.Proofs1 C11.Ledger C11.Proofs3 C11.Proofs4 C11.Proofs5 C13.Proofs.

Definition R (s s' : st) : Prop :=
  (closed s' = closed s /\ incl (held s') (held s)) \/ (closed s' = true /\ held s' = []).

Lemma R_refl : forall s, R s s. Proof. intros; left; split; [reflexivity|apply incl_refl]. Qed.

Lemma R_trans : forall a b c, R a b -> R b c -> R a c.
Proof.
  intros a b c [[A1 A2]|[A1 A2]] [[B1 B2]|[B1 B2]].
  - left. split; [congruence|eapply incl_tran; eauto].
  - right. auto.
  - right. split; [congruence|]. rewrite A2 in B2. destruct (held c); auto. exfalso. apply (B2 n). left; reflexivity.
  - right. auto.
Qed.

Lemma R_eq : forall s s', closed s' = closed s -> held s' = held s -> R s s'.
Proof. intros s s' A B. left. split; auto. rewrite B. apply incl_refl. Qed.

Ltac req := apply R_eq; reflexivity.

Lemma R_add_io_state : forall r w s, R s (add_io_state r w s).
Proof. intros. destruct (add_io_state_eq r w s) as [x ->]. req. Qed.
Lemma R_maybe_ael : forall s, R s (maybe_add_error_listener s).
Proof. intros. destruct (maybe_ael_eq s) as [x ->]. req. Qed.

Lemma R_drop_rd : forall s s', closed s' = closed s -> w_futs s' = w_futs s -> conn_future s' = conn_future s ->
  rd_future s' = None -> R s s'.
Proof.
  intros s s' A B C D. left. split; auto. unfold held. rewrite B, C, D. cbn. apply incl_appr, incl_refl.
Qed.

Lemma R_finish_read : forall n s, R s (finish_read n s).
Proof.
  intros n s. unfold finish_read.
  destruct (user s); [|destruct n; [|destruct (S n <=? rbs s)]]; cbn;
    (eapply R_trans; [|apply R_maybe_ael]); destruct (rd_future s) eqn:E;
    try (apply R_drop_rd; reflexivity); apply R_eq; unfold held; cbn; rewrite ?E; reflexivity.
Qed.

Lemma R_read_from_buffer : forall p s, R s (read_from_buffer p s).
Proof. intros. unfold read_from_buffer. eapply R_trans; [|apply R_finish_read]. req. Qed.

Lemma R_signal_closed : forall s, R s (signal_closed s).
Proof.
  intros s. destruct (signal_closed_shape s) as (_ & A & B & C & _ & D & _).
  left. split; auto. unfold held. rewrite A, B, C. cbn. intros x [].
Qed.

Lemma R_close : forall e s, R s (close e s).
Proof.
  intros e s. right. split; [apply closed_after_close|].
  unfold close. match goal with |- held (signal_closed ?x) = [] =>
    destruct (signal_closed_shape x) as (_ & A & B & C & _) end.
  unfold held. rewrite A, B, C. reflexivity.
Qed.

Lemma R_read_to_buffer : forall s, R s (fst (read_to_buffer s)).
Proof.
  intros s. unfold read_to_buffer, read_from_fd.
  destruct (inq s) as [|[bs| |r] q]; cbn [fst].
  - apply R_refl.
  - match goal with |- context[length (firstn ?k bs)] => generalize k end. intros k.
    destruct (length (firstn k bs)).
    + cbn [fst]. eapply R_trans; [|apply R_close]. destruct (k <? length bs); req.
    + match goal with |- R _ (fst (if ?c then _ else _)) => destruct c end; cbn [fst].
      * eapply R_trans; [|apply R_close]. destruct (k <? length bs); req.
      * destruct (k <? length bs); req.
  - cbn. eapply R_trans; [|apply R_close]. req.
  - destruct r; cbn; (eapply R_trans; [|apply R_close]); req.
Qed.

Lemma R_rloop : forall fuel t nfp s, R s (fst (rloop fuel t nfp s)).
Proof.
  induction fuel as [|fuel IH]; intros t nfp s; cbn [rloop].
  - destruct (closed s); apply R_refl.
  - destruct (closed s); [apply R_refl|].
    pose proof (R_read_to_buffer s) as M1.
    destruct (read_to_buffer s) as [s1 r]. cbn [fst] in M1.
    assert (Hrest : R s (fst (if match t with Some t0 => t0 <=? rbs s1 | None => false end
               then (s1, of_frp (find_read_pos s1))
               else if nfp <=? rbs s1
                    then match find_read_pos s1 with
                         | FPos p => (s1, LPos p)
                         | FUnsat => (s1, LExn XUnsat)
                         | FNone => rloop fuel t (2 * rbs s1) s1
                         end
                    else rloop fuel t nfp s1))).
    { destruct (match t with Some t0 => t0 <=? rbs s1 | None => false end); [exact M1|].
      destruct (nfp <=? rbs s1); [|eapply R_trans; [exact M1|apply IH]].
      destruct (find_read_pos s1); try exact M1. eapply R_trans; [exact M1|apply IH]. }
    destruct r as [[|n]| |x]; auto.
Qed.

Lemma R_handle_read : forall s, R s (fst (handle_read s)).
Proof.
  intros s. unfold handle_read, read_to_buffer_loop.
  pose proof (R_rloop (S (qmeasure (inq s))) (loop_target s) 0 s) as M.
  destruct (rloop (S (qmeasure (inq s))) (loop_target s) 0 s) as [s1 r]. cbn [fst] in M.
  destruct r as [p| |x]; cbn [fst]; auto.
  - eapply R_trans; [exact M|apply R_read_from_buffer].
  - destruct x; cbn [fst]; auto; (eapply R_trans; [exact M|apply R_close]).
Qed.

Lemma R_try_inline_read : forall s, R s (fst (try_inline_read s)).
Proof.
  intros s. unfold try_inline_read, read_to_buffer_loop.
  destruct (find_read_pos s); cbn [fst]; try apply R_refl; try apply R_read_from_buffer.
  destruct (closed s); cbn [fst]; [apply R_refl|].
  pose proof (R_rloop (S (qmeasure (inq s))) (loop_target s) 0 s) as M.
  destruct (rloop (S (qmeasure (inq s))) (loop_target s) 0 s) as [s1 r]. cbn [fst] in M.
  destruct r as [p| |x]; cbn [fst]; auto.
  - eapply R_trans; [exact M|apply R_read_from_buffer].
  - destruct (closed s1); auto. eapply R_trans; [exact M|apply R_add_io_state].
Qed.

Lemma R_finish_call : forall c f s p, R s (fst p) -> R s (fst (finish_call c f p)).
Proof.
  intros c f s [s1 [x|]] M; cbn in *; auto.
  destruct x; cbn; auto. destruct c; cbn; auto. eapply R_trans; [exact M|apply R_close].
Qed.

Lemma R_wloop : forall fuel s, R s (fst (wloop fuel s)).
Proof.
  induction fuel as [|fuel IH]; intros s; cbn [wloop].
  - destruct (wbuf s); cbn; req.
  - destruct (wbuf s) as [|b w] eqn:Ew; [apply R_refl|]. rewrite <- Ew.
    unfold write_to_fd. destruct (sscript s) as [|[k| |x] r]; cbn [fst].
    + destruct (length (wbuf s)); cbn [fst]; [req|]. eapply R_trans; [|apply IH]. req.
    + destruct (Nat.min k (length (wbuf s))); cbn [fst]; [req|]. eapply R_trans; [|apply IH]. req.
    + req.
    + eapply R_trans; [|apply R_close]. req.
Qed.

Lemma R_resolve_writes : forall l s, incl (map snd l) (map snd (w_futs s)) -> R s (resolve_writes l s).
Proof.
  induction l as [|[i f] l IH]; intros s Hi; cbn [resolve_writes].
  - left. split; [reflexivity|]. unfold held. cbn. apply incl_app; [apply incl_appl, incl_refl|apply incl_appr, incl_appr, incl_refl].
  - destruct (w_done s <? i).
    + left. split; [reflexivity|]. unfold held. cbn [rd_future w_futs conn_future w_w_futs].
      apply incl_app; [apply incl_appl, incl_refl|].
      apply incl_app; [apply incl_appr, incl_appl; exact Hi|apply incl_appr, incl_appr, incl_refl].
    + eapply R_trans; [|apply IH].
      * req.
      * cbn. intros x Hx. apply Hi. right. exact Hx.
Qed.

Lemma R_handle_write : forall s, R s (handle_write s).
Proof.
  intros s. unfold handle_write. pose proof (R_wloop (S (length (wbuf s))) s) as M.
  destruct (wloop (S (length (wbuf s))) s) as [s1 e]. cbn [fst] in M.
  destruct e; auto. eapply R_trans; [exact M|apply R_resolve_writes, incl_refl].
Qed.

Lemma R_handle_connect : forall so s, R s (handle_connect so s).
Proof.
  intros so s. unfold handle_connect. destruct so.
  - eapply R_trans; [|apply R_close]. req.
  - destruct (conn_future s) eqn:E.
    + left. split; [reflexivity|]. unfold held. cbn. rewrite E.
      apply incl_app; [apply incl_appl, incl_refl|]. rewrite app_nil_r. apply incl_appr, incl_appl, incl_refl.
    + apply R_eq; [reflexivity|]. unfold held. cbn. rewrite E. reflexivity.
Qed.

Lemma R_handle_events : forall r w e so fd s, R s (fst (handle_events r w e so fd s)).
Proof.
  intros r w e so fd s. unfold handle_events.
  destruct (closed s); [apply R_refl|].
  assert (M1 : R s (if connecting s then handle_connect so s else s))
    by (destruct (connecting s); [apply R_handle_connect|apply R_refl]).
  set (s1 := if connecting s then handle_connect so s else s) in *.
  destruct (closed s1); [exact M1|].
  assert (M2 : R s (fst (if r then handle_read s1 else (s1, None)))).
  { destruct r; cbn [fst]; auto. eapply R_trans; [exact M1|apply R_handle_read]. }
  destruct (if r then handle_read s1 else (s1, None)) as [s2 x]. cbn [fst] in M2.
  destruct x as [x|].
  - destruct x; cbn [fst]; (eapply R_trans; [exact M2|apply R_close]).
  - destruct (closed s2); [exact M2|].
    assert (M3 : R s (if w then handle_write s2 else s2)).
    { destruct w; auto. eapply R_trans; [exact M2|apply R_handle_write]. }
    set (s3 := if w then handle_write s2 else s2) in *.
    destruct (closed s3); [exact M3|].
    destruct e; cbn [fst].
    + eapply R_trans; [exact M3|]. req.
    + destruct (io_state s3) as [[r0 w0]|]; cbn [fst].
      * match goal with |- context[if ?c then s3 else _] => destruct c end; auto;
          try (eapply R_trans; [exact M3|]; req).
      * eapply R_trans; [exact M3|apply R_close].
Qed.

Lemma R_fold_run_cb : forall q s, R s (fold_left run_cb q s).
Proof.
  induction q as [|c q IH]; intros s; cbn; [apply R_refl|].
  eapply R_trans; [|apply IH]. destruct c; cbn.
  - req.
  - eapply R_trans; [|apply R_close]. req.
Qed.

(* from an open state, R into a closed state means nothing is left pending *)
Lemma R_closing : forall s s', R s s' -> closed s = false -> closed s' = true -> held s' = [].
Proof. intros s s' [[A _]|[_ B]] H1 H2; [congruence|exact B]. Qed.

Theorem closing_step_leaves_nothing_pending : forall o s,
  closed s = false -> closed (fst (step s o)) = true -> held (fst (step s o)) = [].
Proof.
  intros o s Hc Hc'. destruct o; cbn [step] in *.
  - (* read *)
    unfold do_read, start_read in *. destruct (rd_future s) eqn:Ef; [cbn in Hc'; congruence|].
    set (s0 := w_reqs _ _) in *.
    assert (H0 : closed s0 = false) by exact Hc.
    destruct r.
    + eapply R_closing; [apply R_finish_call, R_try_inline_read| |exact Hc']. exact H0.
    + eapply R_closing; [apply R_finish_call, R_try_inline_read| |exact Hc'].
      destruct (n <=? rbs s0); [exact H0|]. destruct (rbs s0); exact H0.
    + eapply R_closing; [apply R_finish_call, R_try_inline_read| |exact Hc']. exact H0.
    + eapply R_closing; [apply R_finish_call, R_try_inline_read| |exact Hc']. exact H0.
    + change (closed s0) with (closed s) in Hc'. rewrite Hc in Hc'.
      change (closed s0) with (closed s). rewrite Hc.
      eapply R_closing; [apply R_finish_call, R_try_inline_read| |exact Hc']. exact Hc.
  - (* write *)
    unfold do_write in *. rewrite Hc in *.
    match type of Hc' with context[if ?c then (s, RetRaise XWBufFull) else _] => destruct c end;
      [cbn in Hc'; congruence|].
    match type of Hc' with context[if connecting ?x then _ else _] =>
      set (s2 := x) in *; assert (H2 : closed s2 = false) by exact Hc; destruct (connecting s2) end;
      [cbn in Hc'; congruence|].
    cbn [fst] in *.
    eapply R_closing; [|exact H2|exact Hc'].
    eapply R_trans; [apply R_handle_write|]. eapply R_trans; [|apply R_maybe_ael].
    destruct (wbuf (handle_write s2)); [apply R_refl|apply R_add_io_state].
  - (* connect *)
    unfold do_connect in *. rewrite Hc in *. destruct fail; cbn [fst] in *.
    + match goal with |- held (close ?e ?x) = [] => pose proof (R_close e x) as M end.
      destruct M as [[A _]|[_ B]]; [|exact B]. rewrite closed_after_close in A. cbn in A. congruence.
    + match type of Hc' with closed (add_io_state ?a ?b ?x) = true =>
        destruct (add_io_state_eq a b x) as [y Hy]; rewrite Hy in Hc' end.
      cbn in Hc'. congruence.
  - cbn [fst] in *. destruct (maybe_ael_eq (w_close_cb true s)) as [y Hy]. rewrite Hy in Hc'. cbn in Hc'. congruence.
  - cbn [fst] in *. eapply R_closing; [apply R_close|exact Hc|exact Hc'].
  - cbn in Hc'. congruence.
  - cbn in Hc'. congruence.
  - destruct (io_state s) as [[lr lw]|]; [|cbn in Hc'; congruence].
    rewrite Hc in *.
    destruct (r && lr || w && lw || e); [|cbn in Hc'; congruence].
    eapply R_closing; [apply R_handle_events|exact Hc|exact Hc'].
  - cbn [fst] in *. eapply R_closing; [apply R_fold_run_cb| |exact Hc']. exact Hc.
Qed.
