(* C13 — the model's own observable passes check_case (for every program). *)
From Coq Require Import List NArith ZArith Arith Bool String Lia.
Import ListNotations.
From TV Require Import Lib.Obs C11.Model C11.Trace C11.Run C11.Proofs1 C11.Proofs2 C11.Ledger C11.Proofs3
  C11.Proofs4 C11.Frame C11.Proofs5 C11.Check C13.Run.

Lemma flat_ev_fid : forall l, flat_map ev_fid (map o_event l) = map Z.of_nat (done_fids l).
Proof.
  induction l as [|e l IH]; cbn [map flat_map done_fids]; [reflexivity|].
  rewrite IH. destruct e as [f o|c|c|]; cbn; try reflexivity; destruct c; reflexivity.
Qed.

Lemma nodupb_of_nat : forall l, NoDup l -> nodupb (map Z.of_nat l) = true.
Proof.
  induction l as [|a l IH]; intros H; cbn; [reflexivity|]. inversion H; subst.
  rewrite IH by assumption. rewrite andb_true_r. apply negb_true_iff.
  destruct (existsb (Z.eqb (Z.of_nat a)) (map Z.of_nat l)) eqn:E; auto.
  apply existsb_exists in E as (z & Hz & Hq). apply Z.eqb_eq in Hq. subst z.
  apply in_map_iff in Hz as (b & Hb & Hin). apply Nat2Z.inj in Hb. subst b. contradiction.
Qed.

Lemma done_fids_app_nodup : forall a b, NoDup (done_fids (a ++ b)) -> NoDup (done_fids b).
Proof.
  intros a b H. rewrite done_fids_app in H. induction (done_fids a) as [|x l IH]; cbn in H; auto.
  inversion H; auto.
Qed.

Theorem model_passes_check : forall c m mw p, run_ok (init c m mw) p ->
  check_case (c, m, mw, p) (run_case (c, m, mw, p)) = true.
Proof.
  intros c m mw p Hok. unfold check_case, run_case, run_trace, trace_events.
  destruct (trace_events_run p (init c m mw) (inv_init c m mw) (linv_init c m mw) Hok) as (x & Hx & Ht).
  rewrite Ht, flat_ev_fid. apply nodupb_of_nat. cbn in Hx.
  pose proof (settled_at_most_once c m mw p Hok) as N. rewrite Hx in N. exact N.
Qed.
