(* C13 — a closed stream has no IOLoop handler registered (so no later readiness event is ever
   processed), in every reachable state. *)
From Coq Require Import List NArith Arith Bool Lia.
Import ListNotations.
From TV Require Import C11.Model C11.Proofs1 C11.Proofs5.

Definition CI (s : st) : Prop := closed s = true -> io_state s = None.

Lemma CI_same : forall s s', closed s' = closed s -> io_state s' = io_state s -> CI s -> CI s'.
Proof. intros s s' A B H C. rewrite B. apply H. congruence. Qed.
Ltac cisx H := first [exact H | apply (CI_same _ _ eq_refl eq_refl H)].

Lemma CI_add_io_state : forall r w s, CI s -> CI (add_io_state r w s).
Proof.
  intros r w s H. unfold add_io_state. destruct (closed s) eqn:E; auto.
  destruct (io_state s) as [[? ?]|]; intros C; cbn in C; congruence.
Qed.

Lemma CI_maybe_ael : forall s, CI s -> CI (maybe_add_error_listener s).
Proof.
  intros s H. unfold maybe_add_error_listener.
  destruct (io_state s) as [[[|] [|]]|]; auto;
    destruct (negb (closed s) && (rbs s =? 0) && close_cb s); auto; apply CI_add_io_state; auto.
Qed.

Lemma CI_finish_read : forall n s, CI s -> CI (finish_read n s).
Proof.
  intros n s H. unfold finish_read.
  destruct (user s); [|destruct n; [|destruct (S n <=? rbs s)]]; cbn;
    apply CI_maybe_ael; destruct (rd_future s); cisx H.
Qed.

Lemma CI_read_from_buffer : forall p s, CI s -> CI (read_from_buffer p s).
Proof. intros. unfold read_from_buffer. apply CI_finish_read. match goal with H : CI _ |- _ => cisx H end. Qed.

Lemma CI_fold_settle : forall l s, CI s -> CI (fold_left settle_closed l s).
Proof.
  induction l as [|f l IH]; intros s H; cbn; auto. apply IH.
  unfold settle_closed. destruct (done_in (log s) f); auto.
Qed.

Lemma CI_signal_closed : forall s, CI s -> CI (signal_closed s).
Proof.
  intros s H. unfold signal_closed.
  set (s0 := match rd_future s with Some _ => _ | None => s end).
  assert (H0 : CI s0).
  { subst s0. destruct (rd_future s); auto. cbn. destruct (user s); cisx H. }
  match goal with |- CI (w_wbuf [] (if close_cb ?x then _ else _)) => assert (H1 : CI x) end.
  { apply CI_fold_settle. cisx H0. }
  match goal with |- CI (w_wbuf [] (if close_cb ?x then _ else _)) => destruct (close_cb x) end; cisx H1.
Qed.

Lemma CI_close : forall e s, CI s -> CI (close e s).
Proof.
  intros e s H. unfold close. apply CI_signal_closed.
  destruct (closed s); auto. intros _. reflexivity.
Qed.

Lemma CI_read_to_buffer : forall s, CI s -> CI (fst (read_to_buffer s)).
Proof.
  intros s H. unfold read_to_buffer, read_from_fd.
  destruct (inq s) as [|[bs| |r] q]; cbn [fst]; auto.
  - match goal with |- context[length (firstn ?k bs)] => generalize k end. intros k.
    destruct (length (firstn k bs)).
    + cbn [fst]. apply CI_close. destruct (k <? length bs); cisx H.
    + match goal with |- CI (fst (if ?c then _ else _)) => destruct c end; cbn [fst].
      * apply CI_close. destruct (k <? length bs); cisx H.
      * destruct (k <? length bs); cisx H.
  - cbn. apply CI_close. cisx H.
  - destruct r; cbn; apply CI_close; cisx H.
Qed.

Lemma CI_rloop : forall fuel t nfp s, CI s -> CI (fst (rloop fuel t nfp s)).
Proof.
  induction fuel as [|fuel IH]; intros t nfp s H; cbn [rloop].
  - destruct (closed s); exact H.
  - destruct (closed s) eqn:Ec; [exact H|].
    pose proof (CI_read_to_buffer s H) as M1.
    destruct (read_to_buffer s) as [s1 r]. cbn [fst] in M1.
    assert (Hrest : CI (fst (if match t with Some t0 => t0 <=? rbs s1 | None => false end
               then (s1, of_frp (find_read_pos s1))
               else if nfp <=? rbs s1
                    then match find_read_pos s1 with
                         | FPos p => (s1, LPos p)
                         | FUnsat => (s1, LExn XUnsat)
                         | FNone => rloop fuel t (2 * rbs s1) s1
                         end
                    else rloop fuel t nfp s1))).
    { destruct (match t with Some t0 => t0 <=? rbs s1 | None => false end); [exact M1|].
      destruct (nfp <=? rbs s1); [|apply IH; exact M1].
      destruct (find_read_pos s1); try exact M1. apply IH; exact M1. }
    destruct r as [[|n]| |x]; auto.
Qed.

Lemma CI_handle_read : forall s, CI s -> CI (fst (handle_read s)).
Proof.
  intros s H. unfold handle_read, read_to_buffer_loop.
  pose proof (CI_rloop (S (qmeasure (inq s))) (loop_target s) 0 s H) as M.
  destruct (rloop (S (qmeasure (inq s))) (loop_target s) 0 s) as [s1 r]. cbn [fst] in M.
  destruct r as [p| |x]; cbn [fst]; auto.
  - apply CI_read_from_buffer; auto.
  - destruct x; cbn [fst]; auto; apply CI_close; auto.
Qed.

Lemma CI_try_inline_read : forall s, CI s -> CI (fst (try_inline_read s)).
Proof.
  intros s H. unfold try_inline_read, read_to_buffer_loop.
  destruct (find_read_pos s); cbn [fst]; auto; try (apply CI_read_from_buffer; auto).
  destruct (closed s); cbn [fst]; auto.
  pose proof (CI_rloop (S (qmeasure (inq s))) (loop_target s) 0 s H) as M.
  destruct (rloop (S (qmeasure (inq s))) (loop_target s) 0 s) as [s1 r]. cbn [fst] in M.
  destruct r as [p| |x]; cbn [fst]; auto.
  - apply CI_read_from_buffer; auto.
  - destruct (closed s1); auto. apply CI_add_io_state; auto.
Qed.

Lemma CI_finish_call : forall c f p, CI (fst p) -> CI (fst (finish_call c f p)).
Proof.
  intros c f [s1 [x|]] M; cbn in *; auto.
  destruct x; cbn; auto. destruct c; cbn; auto. apply CI_close; auto.
Qed.

Lemma CI_do_read : forall r s, CI s -> CI (fst (do_read r s)).
Proof.
  intros r s H. unfold do_read, start_read. destruct (rd_future s); [exact H|].
  destruct r; try (apply CI_finish_call, CI_try_inline_read; cisx H).
  - apply CI_finish_call, CI_try_inline_read.
    match goal with |- context[if ?c then _ else _] => destruct c end; [cisx H|].
    match goal with |- context[match ?c with 0 => _ | S _ => _ end] => destruct c end; cisx H.
  - match goal with |- context[if closed ?x then _ else _] => destruct (closed x) end; cbn [fst].
    + apply CI_finish_read. cisx H.
    + apply CI_finish_call, CI_try_inline_read. cisx H.
Qed.

Lemma CI_wloop : forall fuel s, CI s -> CI (fst (wloop fuel s)).
Proof.
  induction fuel as [|fuel IH]; intros s H; cbn [wloop].
  - destruct (wbuf s); cbn; [exact H|cisx H].
  - destruct (wbuf s) as [|b w] eqn:Ew; [exact H|]. rewrite <- Ew.
    unfold write_to_fd. destruct (sscript s) as [|[k| |x] r]; cbn [fst].
    + destruct (length (wbuf s)); cbn [fst]; [cisx H|]. apply IH. cisx H.
    + destruct (Nat.min k (length (wbuf s))); cbn [fst]; [cisx H|]. apply IH. cisx H.
    + cisx H.
    + apply CI_close. cisx H.
Qed.

Lemma CI_resolve_writes : forall l s, CI s -> CI (resolve_writes l s).
Proof.
  induction l as [|[i f] l IH]; intros s H; cbn [resolve_writes]; [cisx H|].
  destruct (w_done s <? i); [cisx H|]. apply IH. cisx H.
Qed.

Lemma CI_handle_write : forall s, CI s -> CI (handle_write s).
Proof.
  intros s H. unfold handle_write. pose proof (CI_wloop (S (length (wbuf s))) s H) as M.
  destruct (wloop (S (length (wbuf s))) s) as [s1 e]. cbn [fst] in M.
  destruct e; auto. apply CI_resolve_writes; auto.
Qed.

Lemma CI_handle_connect : forall so s, CI s -> CI (handle_connect so s).
Proof.
  intros so s H. unfold handle_connect. destruct so.
  - apply CI_close. cisx H.
  - destruct (conn_future s); cisx H.
Qed.

Lemma CI_handle_events : forall r w e so fd s, CI s -> CI (fst (handle_events r w e so fd s)).
Proof.
  intros r w e so fd s H. unfold handle_events.
  destruct (closed s); [exact H|].
  assert (M1 : CI (if connecting s then handle_connect so s else s))
    by (destruct (connecting s); [apply CI_handle_connect|]; exact H).
  set (s1 := if connecting s then handle_connect so s else s) in *.
  destruct (closed s1); [exact M1|].
  assert (M2 : CI (fst (if r then handle_read s1 else (s1, None)))).
  { destruct r; cbn [fst]; auto. apply CI_handle_read; auto. }
  destruct (if r then handle_read s1 else (s1, None)) as [s2 x]. cbn [fst] in M2.
  destruct x as [x|].
  - destruct x; cbn [fst]; apply CI_close; auto.
  - destruct (closed s2); [exact M2|].
    assert (M3 : CI (if w then handle_write s2 else s2)).
    { destruct w; auto. apply CI_handle_write; auto. }
    set (s3 := if w then handle_write s2 else s2) in *.
    destruct (closed s3) eqn:E3; [exact M3|].
    destruct e; cbn [fst].
    + cisx M3.
    + destruct (io_state s3) as [[r0 w0]|]; cbn [fst].
      * match goal with |- context[if ?c then s3 else _] => destruct c end; auto.
        intros C. cbn in C. congruence.
      * apply CI_close; auto.
Qed.

Lemma CI_fold_run_cb : forall q s, CI s -> CI (fold_left run_cb q s).
Proof.
  induction q as [|c q IH]; intros s H; cbn; auto. apply IH. destruct c; cbn.
  - cisx H.
  - apply CI_close. cisx H.
Qed.

Lemma CI_step : forall o s, CI s -> CI (fst (step s o)).
Proof.
  intros o s H. destruct o; cbn [step].
  - apply CI_do_read; auto.
  - unfold do_write. destruct (closed s) eqn:Ec; [exact H|].
    match goal with |- context[if ?c then (s, RetRaise XWBufFull) else _] => destruct c end; [exact H|].
    match goal with |- context[if connecting ?x then _ else _] =>
      assert (H2 : CI x) by (cisx H); destruct (connecting x) end; cbn [fst]; [exact H2|].
    apply CI_maybe_ael.
    match goal with |- context[handle_write ?x] => pose proof (CI_handle_write x H2) as H3;
      destruct (wbuf (handle_write x)) end; auto. apply CI_add_io_state; auto.
  - unfold do_connect. destruct (closed s) eqn:Ec; cbn [fst].
    + cisx H.
    + destruct fail; cbn [fst]; [apply CI_close|apply CI_add_io_state]; cisx H.
  - cbn [fst]. apply CI_maybe_ael. cisx H.
  - cbn [fst]. apply CI_close; auto.
  - cbn [fst]. cisx H.
  - cbn [fst]. cisx H.
  - destruct (io_state s) as [[lr lw]|] eqn:Ei; [|exact H].
    destruct (closed s); [exact H|].
    destruct (r && lr || w && lw || e); [|exact H]. apply CI_handle_events; auto.
  - cbn [fst]. apply CI_fold_run_cb. cisx H.
Qed.

Theorem closed_has_no_handler : forall p s, CI s -> CI (run s p).
Proof. induction p as [|o p IH]; intros s H; cbn; auto. apply IH, CI_step, H. Qed.

(* hence readiness events are ignored after the close, whatever they are *)
Theorem events_after_close_are_ignored : forall r w e so fd s, closed s = true ->
  step s (OEvent r w e so fd) = (s, RetNone).
Proof.
  intros r w e so fd s H. cbn [step]. destruct (io_state s) as [[lr lw]|]; [|reflexivity].
  rewrite H. reflexivity.
Qed.
