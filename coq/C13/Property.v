(* C13 — Closing an IOStream settles every pending operation exactly once.
   Property theorems only; proofs are in C11/Ledger.v, C11/Proofs*.v, C13/Proofs.v, C13/Check.v.
   Statements quantify over every configuration and every operation sequence (see C11/Property.v);
   the statements about [close] hold for every reachable state and every close cause: all causes
   (local close, EOF, reset, read/write error, ERROR event, connect failure, unsatisfiable read,
   buffer overflow) go through the model function [close] with the corresponding error. *)
From Coq Require Import List NArith Arith.
Import ListNotations.
From TV Require Import Lib.Obs C11.Model C11.Trace C11.Run C11.Proofs1 C11.Ledger C11.Proofs3 C11.Proofs4
  C11.Proofs5 C11.Fuel C13.Run C13.Proofs C13.Closing C13.Final C13.ProofsP4 C13.Check.

(* No future is ever settled twice (the log of settlements is append-only, see below). *)
Theorem C13_settled_at_most_once : forall c m mw p, run_ok (init c m mw) p ->
  NoDup (done_fids (log (run (init c m mw) p))).
Proof. exact settled_at_most_once. Qed.
Print Assumptions C13_settled_at_most_once.

Theorem C13_log_is_append_only : forall c m mw p o, run_ok (init c m mw) (p ++ [o]) ->
  exists x, log (run (init c m mw) (p ++ [o])) = log (run (init c m mw) p) ++ x.
Proof.
  intros c m mw p o H.
  assert (Hrun : forall q s, run s (q ++ [o]) = fst (step (run s q) o))
    by (induction q as [|a q IH]; intros s; cbn; auto).
  assert (Hok : forall q s, run_ok s (q ++ [o]) -> run_ok s q /\ op_ok (run s q) o).
  { induction q as [|a q IH]; intros s Hq; cbn in *; [tauto|].
    destruct Hq as [Ha Hq]. destruct (IH _ Hq). tauto. }
  destruct (Hok p _ H) as [Hp Ho]. rewrite Hrun.
  destruct (reachable_spec c m mw p Hp) as [I L].
  destruct (step_spec o _ I L Ho) as [_ M].
  destruct (moves_log_prefix _ _ M) as [x Hx]. exists x. exact Hx.
Qed.
Print Assumptions C13_log_is_append_only.

(* Every future ever created is either settled or still tracked by the stream (as the pending
   read, a pending write, or the pending connect), and tracked futures are not settled yet. *)
Theorem C13_no_future_is_lost : forall c m mw p, run_ok (init c m mw) p ->
  let s := run (init c m mw) p in
  forall f, f < next_fid s ->
  done_in (log s) f = true \/ In f (opt (rd_future s) ++ map snd (w_futs s) ++ opt (conn_future s)).
Proof. exact no_future_lost. Qed.
Print Assumptions C13_no_future_is_lost.

(* Closing (any cause e, at any reachable point) leaves nothing pending: every future created so
   far is settled, each exactly once. *)
Theorem C13_close_settles_everything : forall c m mw p e, run_ok (init c m mw) p ->
  let s' := close e (run (init c m mw) p) in
  closed s' = true /\ rd_future s' = None /\ w_futs s' = [] /\ conn_future s' = None /\
  (forall f, f < next_fid s' -> done_in (log s') f = true) /\
  NoDup (done_fids (log s')).
Proof.
  intros c m mw p e H. destruct (reachable_spec c m mw p H) as [I L].
  exact (close_settles_all e _ I L).
Qed.
Print Assumptions C13_close_settles_everything.

(* Step level: whatever operation makes the stream closed (a local close, a read call or readiness
   event that meets EOF / reset / an error / an unsatisfiable read / a full buffer, a failing write or
   connect, the deferred close after an ERROR event), at the end of that step nothing is pending and
   every future created so far - including the one returned by this very call - is settled. *)
Theorem C13_closing_step_settles_everything : forall c m mw p o, run_ok (init c m mw) p ->
  let s := run (init c m mw) p in
  op_ok s o -> closed s = false -> closed (fst (step s o)) = true ->
  held (fst (step s o)) = [] /\
  (forall f, f < next_fid (fst (step s o)) -> done_in (log (fst (step s o))) f = true) /\
  NoDup (done_fids (log (fst (step s o)))).
Proof.
  intros c m mw p o H s Ho Hc Hc'. destruct (reachable_spec c m mw p H) as [I L].
  destruct (step_spec o s I L Ho) as [_ M]. pose proof (linv_moves _ _ M L) as L'.
  pose proof (closing_step_leaves_nothing_pending o s Hc Hc') as Hh.
  split; [exact Hh|]. split; [|apply (li_donenodup _ L')].
  intros f Hf. destruct (li_tracked _ L' f Hf) as [X|X]; auto.
  change (lheld (led_of (fst (step s o)))) with (held (fst (step s o))) in X. rewrite Hh in X. destruct X.
Qed.
Print Assumptions C13_closing_step_settles_everything.

(* What the pending read gets: read_until_close gets everything buffered; a read that
   _find_read_pos can satisfy from the buffer gets that data; anything else gets
   StreamClosedError carrying the real error (the cause's error, or the stream's earlier error). *)
Theorem C13_pending_read_at_close : forall c m mw p e f, run_ok (init c m mw) p ->
  let s := run (init c m mw) p in
  closed s = false -> rd_future s = Some f ->
  In (EvDone f (close_read_outcome e s)) (log (close e s)).
Proof.
  intros c m mw p e f H s Hc Hf. destruct (reachable_spec c m mw p H) as [I L].
  exact (pending_read_at_close e s f I L Hc Hf).
Qed.
Print Assumptions C13_pending_read_at_close.

(* _signal_closed: the settlements (all StreamClosedError(real_error) for futures that were
   pending) come first, then the close callback is scheduled — once: the registration is cleared. *)
Theorem C13_close_callback_after_the_futures_once : forall s, exists x,
  log (signal_closed s) = log s ++ x ++ (if close_cb s then [EvCallback CbUserClose] else []) /\
  (forall ev, In ev x -> exists f, ev = EvDone f (OClosed (error s)) /\ In f (held s)) /\
  close_cb (signal_closed s) = false /\
  cbq (signal_closed s) = cbq s ++ (if close_cb s then [CbUserClose] else []).
Proof. exact close_callback_after_futures. Qed.
Print Assumptions C13_close_callback_after_the_futures_once.

(* After the close: write and connect fail, reads take no new bytes from the transport. *)
Theorem C13_write_after_close_fails : forall d s, closed s = true ->
  do_write d s = (s, RetRaise (XClosed (error s))).
Proof. exact write_after_close. Qed.
Print Assumptions C13_write_after_close_fails.

Theorem C13_connect_after_close_fails : forall fl s, closed s = true -> snd (do_connect fl s) = RetRaise XAttr.
Proof. exact connect_after_close. Qed.
Print Assumptions C13_connect_after_close_fails.

Theorem C13_read_after_close_only_from_buffer : forall r s, closed s = true ->
  received (fst (do_read r s)) = received s /\ inq (fst (do_read r s)) = inq s.
Proof. exact read_after_close_no_new_bytes. Qed.
Print Assumptions C13_read_after_close_only_from_buffer.

Theorem C13_close_is_final : forall e s, closed (close e s) = true.
Proof. exact closed_after_close. Qed.
Print Assumptions C13_close_is_final.

(* A closed stream has no IOLoop handler registered - in every state reachable by ANY operation
   sequence (no premise) - so readiness events after the close are never processed. *)
Theorem C13_closed_stream_has_no_handler : forall c m mw p,
  closed (run (init c m mw) p) = true -> io_state (run (init c m mw) p) = None.
Proof. intros c m mw p. apply (closed_has_no_handler p (init c m mw)). intros H; discriminate H. Qed.
Print Assumptions C13_closed_stream_has_no_handler.

Theorem C13_events_after_close_are_ignored : forall r w e so fd s, closed s = true ->
  step s (OEvent r w e so fd) = (s, RetNone).
Proof. exact events_after_close_are_ignored. Qed.
Print Assumptions C13_events_after_close_are_ignored.

(* Listening invariant (liveness-enabling): in every reachable open state, a pending read implies the
   stream is registered for READ events, buffered outgoing data implies it is registered for WRITE
   events, and so does a pending connect - so no reachable state waits on data or on socket
   writability that the IOLoop would never report.  ([lr]/[lw] = the READ/WRITE bit of `_state`.) *)
Theorem C13_pending_operations_are_listening : forall c m mw p, run_ok (init c m mw) p ->
  let s := run (init c m mw) p in
  closed s = false ->
  (rd_future s <> None -> lr s = true) /\ (wbuf s <> [] -> lw s = true) /\ (connecting s = true -> lw s = true).
Proof. exact run_listening. Qed.
Print Assumptions C13_pending_operations_are_listening.

Example C13_listening_example :
  let s := run (init 4 4096 None)
             [OSendScript SBlock; OWrite [7;8]%N; ORead (RBytes 4 false); OArrive (TData [1]%N);
              OEvent true false false false false] in
  closed s = false /\ rd_future s <> None /\ wbuf s <> [] /\ lr s = true /\ lw s = true.
Proof. vm_compute. repeat split; discriminate. Qed.

Theorem C13_model_passes_check : forall c m mw p, run_ok (init c m mw) p ->
  check_case (c, m, mw, p) (run_case (c, m, mw, p)) = true.
Proof. exact C13.Check.model_passes_check. Qed.
Print Assumptions C13_model_passes_check.

Example C13_run_ok_example :
  run_ok (init 2 4096 None)
    [OConnect false; OWrite [1;2;3]%N; ORead (RBytes 4 false); OSetCloseCb;
     OArrive (TData [9]%N); OArrive (TErr true); OEvent true true false false false; ORunCallbacks].
Proof. vm_compute. repeat split. Qed.
