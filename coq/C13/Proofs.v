(* C13 — closing settles every pending operation exactly once: lemmas about close / _signal_closed. *)
From Coq Require Import List NArith Arith Bool Lia.
Import ListNotations.
From TV Require Import C11.Model C11.Proofs1 C11.Proofs2 C11.Ledger C11.Proofs3 C11.Proofs4 C11.Frame C11.Proofs5.

(* settle_closed changes nothing but the log *)
Lemma w_log_id : forall s, w_log (log s) s = s. Proof. destruct s; reflexivity. Qed.

Lemma fold_settle_only_log : forall l s,
  fold_left settle_closed l s = w_log (log (fold_left settle_closed l s)) s.
Proof.
  induction l as [|f l IH]; intros s; cbn [fold_left]; [symmetry; apply w_log_id|].
  assert (H : settle_closed s f = s \/ settle_closed s f = emit (EvDone f (OClosed (error s))) s)
    by (unfold settle_closed; destruct (done_in (log s) f); auto).
  destruct H as [-> | ->]; [apply IH|]. rewrite IH at 1. reflexivity.
Qed.

Definition pre_settle (s : st) : st :=
  w_conn_future None (w_w_futs [] (w_rd_future None
    (match rd_future s with
     | Some _ =>
         let sc := w_rd_partial false (w_rd_regex None (w_rd_delim None (w_rd_bytes None s))) in
         if user sc then
           let nrb := firstn (rbs sc) (rb sc) ++ match after sc with Some a => a | None => [] end in
           w_rbs (length nrb) (w_user false (w_after None (w_rb nrb sc)))
         else sc
     | None => s
     end))).

Definition held (s : st) : list nat := opt (rd_future s) ++ map snd (w_futs s) ++ opt (conn_future s).

Lemma pre_settle_frame : forall s,
  log (pre_settle s) = log s /\ error (pre_settle s) = error s /\ close_cb (pre_settle s) = close_cb s /\
  closed (pre_settle s) = closed s /\ next_fid (pre_settle s) = next_fid s /\ cbq (pre_settle s) = cbq s.
Proof.
  intros s. unfold pre_settle. destruct (rd_future s); cbn; [destruct (user s); cbn|]; repeat split; reflexivity.
Qed.

(* the exact shape of _signal_closed's effect on the log and the futures *)
Lemma signal_closed_shape : forall s,
  let lg := fold_left (settle_l (error s)) (held s) (log s) in
  log (signal_closed s) = lg ++ (if close_cb s then [EvCallback CbUserClose] else []) /\
  rd_future (signal_closed s) = None /\ w_futs (signal_closed s) = [] /\ conn_future (signal_closed s) = None /\
  close_cb (signal_closed s) = false /\ closed (signal_closed s) = closed s /\
  error (signal_closed s) = error s /\ next_fid (signal_closed s) = next_fid s /\
  cbq (signal_closed s) = cbq s ++ (if close_cb s then [CbUserClose] else []).
Proof.
  intros s lg.
  change (signal_closed s) with
    (let s2 := fold_left settle_closed (held s) (pre_settle s) in
     w_wbuf [] (if close_cb s2
                then emit (EvCallback CbUserClose) (w_cbq (cbq s2 ++ [CbUserClose]) (w_close_cb false s2))
                else s2)).
  cbv zeta.
  destruct (pre_settle_frame s) as (A & B & C & D & E & F).
  destruct (fold_settle_led (held s) (pre_settle s)) as [H1 H2].
  assert (Hlog : log (fold_left settle_closed (held s) (pre_settle s)) = lg).
  { apply (f_equal l_log) in H1. unfold led_of in H1. cbn [l_log] in H1. rewrite H1, B, A. reflexivity. }
  rewrite (fold_settle_only_log (held s) (pre_settle s)).
  rewrite Hlog. cbn -[pre_settle]. rewrite C.
  destruct (close_cb s); cbn -[pre_settle]; rewrite ?app_nil_r, ?D, ?E, ?F, ?B;
    repeat split; auto; unfold pre_settle; reflexivity.
Qed.

(* every settlement made by _signal_closed is a StreamClosedError with the stream's error *)
Lemma fold_settle_shape : forall e fs l, exists x,
  fold_left (settle_l e) fs l = l ++ x /\ (forall ev, In ev x -> exists f, ev = EvDone f (OClosed e) /\ In f fs).
Proof.
  induction fs as [|f fs IH]; intros l; cbn.
  - exists []. rewrite app_nil_r. split; [reflexivity|intros ev []].
  - destruct (IH (settle_l e l f)) as (x & Hx & Hin). unfold settle_l in *.
    destruct (done_in l f).
    + exists x. split; auto. intros ev H. destruct (Hin ev H) as (g & -> & Hg). eauto.
    + exists ([EvDone f (OClosed e)] ++ x). rewrite app_assoc. split; auto.
      intros ev H. apply in_app_or in H as [[<-|[]]|H]; eauto.
      destruct (Hin ev H) as (g & -> & Hg). eauto.
Qed.

Lemma fold_settle_emits : forall e fs l f,
  done_in l f = false -> In f fs -> In (EvDone f (OClosed e)) (fold_left (settle_l e) fs l).
Proof.
  induction fs as [|g fs IH]; intros l f Hd Hin; cbn; [destruct Hin|].
  destruct (Nat.eq_dec g f) as [->|Hne].
  - assert (Hs : settle_l e l f = l ++ [EvDone f (OClosed e)]) by (unfold settle_l; rewrite Hd; reflexivity).
    rewrite Hs.
    destruct (fold_settle_prefix e fs (l ++ [EvDone f (OClosed e)])) as [x ->].
    apply in_or_app. left. apply in_or_app. right. left. reflexivity.
  - destruct Hin as [->|Hin]; [congruence|]. apply IH; auto.
    unfold settle_l at 1. destruct (done_in l g); auto.
    rewrite done_in_app, Hd, done_in_single. cbn. apply Nat.eqb_neq. exact Hne.
Qed.

(* ---------- close settles everything ---------- *)
Theorem close_settles_all : forall e s, Inv s -> LInv (led_of s) ->
  let s' := close e s in
  closed s' = true /\ rd_future s' = None /\ w_futs s' = [] /\ conn_future s' = None /\
  (forall f, f < next_fid s' -> done_in (log s') f = true) /\
  NoDup (done_fids (log s')).
Proof.
  intros e s I L s'.
  pose proof (linv_moves _ _ (mv_close e s) L) as L'. fold s' in L'.
  assert (Hh : rd_future s' = None /\ w_futs s' = [] /\ conn_future s' = None).
  { subst s'. unfold close.
    match goal with |- context[signal_closed ?x] => destruct (signal_closed_shape x) as (_ & A & B & C & _) end.
    auto. }
  destruct Hh as (A & B & C).
  split; [apply closed_after_close|]. repeat split; auto.
  - intros f Hf. destruct (li_tracked _ L' f Hf) as [H|H]; auto.
    unfold lheld, led_of in H. cbn [l_rd l_wf l_cn] in H. rewrite A, B, C in H. destruct H.
  - apply (li_donenodup _ L').
Qed.

(* ---------- what a pending read gets when the stream closes ---------- *)
Definition close_read_outcome (e : option errk) (s : st) : outcome :=
  if rd_uclose s then OData (rb s)
  else match find_read_pos s with
       | FPos p => fr_result p s
       | _ => OClosed (match e with Some x => Some x | None => error s end)
       end.

Lemma in_log_mv : forall s s' ev, mv s s' -> In ev (log s) -> In ev (log s').
Proof.
  intros s s' ev M H. destruct (moves_log_prefix _ _ M) as [x Hx]. cbn in Hx. rewrite Hx.
  apply in_or_app. left. exact H.
Qed.

Lemma maybe_ael_log : forall s, log (maybe_add_error_listener s) = log s.
Proof. intros s. destruct (maybe_ael_eq s) as [x ->]. reflexivity. Qed.

Lemma finish_read_log : forall n s f, rd_future s = Some f ->
  log (finish_read n s) = log s ++ [EvDone f (fr_result n s)].
Proof.
  intros n s f Hf. unfold finish_read, fr_result.
  destruct (user s); [|destruct n; [|destruct (S n <=? rbs s)]];
    rewrite maybe_ael_log; cbn; rewrite Hf; reflexivity.
Qed.

Theorem pending_read_at_close : forall e s f, Inv s -> LInv (led_of s) ->
  closed s = false -> rd_future s = Some f ->
  In (EvDone f (close_read_outcome e s)) (log (close e s)).
Proof.
  intros e s f I L Hc Hf. unfold close. rewrite Hc.
  set (s1 := match e with Some e0 => w_error (Some e0) s | None => s end).
  assert (E1 : rd_uclose s1 = rd_uclose s /\ rd_future s1 = rd_future s /\ find_read_pos s1 = find_read_pos s
                /\ rb s1 = rb s /\ rbs s1 = rbs s /\ user s1 = user s /\ log s1 = log s
                /\ error s1 = match e with Some x => Some x | None => error s end)
    by (subst s1; destruct e; repeat split; reflexivity).
  destruct E1 as (U1 & F1 & P1 & R1 & S1 & Us1 & L1 & Er1).
  unfold close_read_outcome. rewrite U1, F1, Hf, P1.
  destruct (rd_uclose s) eqn:Eu.
  - (* read_until_close: everything buffered *)
    eapply in_log_mv; [apply mv_signal_closed|]. cbn.
    rewrite (finish_read_log (rbs s1) (w_rd_uclose false s1) f) by (cbn; congruence).
    apply in_or_app. left. apply in_or_app. right. left.
    unfold fr_result. cbn. rewrite Us1, R1, S1.
    destruct (i_uclose s I Eu) as (_ & A & _).
    assert (Hus : user s = false).
    { destruct (user s) eqn:E; auto. destruct (i_user s I E) as (X & _). congruence. }
    rewrite Hus, (i_nouser s I Hus), firstn_all. reflexivity.
  - destruct (find_read_pos s) as [p| |] eqn:Ep.
    + eapply in_log_mv; [apply mv_signal_closed|]. cbn. unfold read_from_buffer.
      rewrite (finish_read_log p _ f) by (cbn; congruence).
      apply in_or_app. left. apply in_or_app. right. left.
      unfold fr_result. cbn. rewrite Us1, R1. reflexivity.
    + match goal with |- In _ (log (signal_closed ?x)) => destruct (signal_closed_shape x) as (A & _) end.
      rewrite A. apply in_or_app. left. cbn. rewrite Er1.
      apply fold_settle_emits.
      * rewrite L1, done_in_app. cbn. rewrite orb_false_r.
        apply (li_pending _ L f). unfold lheld. cbn. rewrite Hf. left. reflexivity.
      * unfold held. cbn. rewrite F1, Hf. left. reflexivity.
    + match goal with |- In _ (log (signal_closed ?x)) => destruct (signal_closed_shape x) as (A & _) end.
      rewrite A. apply in_or_app. left. cbn. rewrite Er1.
      apply fold_settle_emits.
      * rewrite L1, done_in_app. cbn. rewrite orb_false_r.
        apply (li_pending _ L f). unfold lheld. cbn. rewrite Hf. left. reflexivity.
      * unfold held. cbn. rewrite F1, Hf. left. reflexivity.
Qed.

(* ---------- the close callback: after the futures, and once ---------- *)
Theorem close_callback_after_futures : forall s, exists x,
  log (signal_closed s) = log s ++ x ++ (if close_cb s then [EvCallback CbUserClose] else []) /\
  (forall ev, In ev x -> exists f, ev = EvDone f (OClosed (error s)) /\ In f (held s)) /\
  close_cb (signal_closed s) = false /\
  cbq (signal_closed s) = cbq s ++ (if close_cb s then [CbUserClose] else []).
Proof.
  intros s. destruct (signal_closed_shape s) as (A & _ & _ & _ & B & _ & _ & _ & C).
  destruct (fold_settle_shape (error s) (held s) (log s)) as (x & Hx & Hin).
  exists x. rewrite A, Hx, <- app_assoc. repeat split; auto.
Qed.

(* ---------- after the close ---------- *)
Theorem write_after_close : forall d s, closed s = true -> do_write d s = (s, RetRaise (XClosed (error s))).
Proof. intros d s H. unfold do_write. rewrite H. reflexivity. Qed.

Theorem connect_after_close : forall fl s, closed s = true -> snd (do_connect fl s) = RetRaise XAttr.
Proof. intros fl s H. unfold do_connect. rewrite H. reflexivity. Qed.
