(* C46 — proofs about decimal text, grouping and the grouped-number parser. *)
From Coq Require Import List ZArith NArith Bool Lia Arith.
Import ListNotations.
From TV Require Import Lib.Obs C46.Model C46.Run.

(* ------------------------------------------------------------------ *)
(* le_digits: fuel adequacy and meaning                                *)
(* ------------------------------------------------------------------ *)
Local Open Scope N_scope.

Fixpoint le_val (ds : list N) : N :=
  match ds with [] => 0 | d :: r => d + 10 * le_val r end.

(* canonical little-endian digit list: digits < 10, non-empty, most
   significant (last) digit non-zero unless the list is [0] *)
Inductive le_canon : list N -> Prop :=
| lc_one : forall d, d < 10 -> le_canon [d]
| lc_cons : forall d r, d < 10 -> le_canon r -> le_val r <> 0 -> le_canon (d :: r).

Lemma le_digits_S : forall f n, le_digits (S f) n =
  if n <? 10 then Some [n]
  else match le_digits f (n / 10) with Some ds => Some (n mod 10 :: ds) | None => None end.
Proof. reflexivity. Qed.

Lemma le_digits_ok_fuel : forall f n, n < 2 ^ N.of_nat f ->
  exists ds, le_digits (S f) n = Some ds /\ le_val ds = n /\ le_canon ds.
Proof.
  induction f as [|f IH]; intros n Hn.
  - cbn in Hn. assert (n = 0) by lia. subst. exists [0]. cbn. repeat split. constructor; lia.
  - rewrite le_digits_S. destruct (n <? 10) eqn:E.
    + apply N.ltb_lt in E. exists [n]. repeat split; [cbn; lia | constructor; lia].
    + apply N.ltb_ge in E.
      assert (Hq : n / 10 < 2 ^ N.of_nat f).
      { rewrite Nat2N.inj_succ, N.pow_succ_r' in Hn.
        apply N.div_lt_upper_bound; lia. }
      destruct (IH _ Hq) as (ds & Hds & Hv & Hc).
      rewrite Hds. exists (n mod 10 :: ds). repeat split.
      * cbn [le_val]. rewrite Hv. pose proof (N.div_mod n 10). lia.
      * constructor; [apply N.mod_lt; lia | exact Hc |].
        rewrite Hv. intro H0. apply N.div_small_iff in H0; lia.
Qed.

Lemma le_digits_ok : forall n,
  exists ds, le_digits (digit_fuel n) n = Some ds /\ le_val ds = n /\ le_canon ds.
Proof.
  intro n. unfold digit_fuel. apply le_digits_ok_fuel.
  rewrite N2Nat.id. apply N.size_gt.
Qed.

(* ------------------------------------------------------------------ *)
(* big-endian text of a digit list and reading it back                 *)
(* ------------------------------------------------------------------ *)
Definition digit_code (d : N) : N := 48 + d.
Definition digits_be (ds : list N) : list N := rev (map digit_code ds).

Lemma dec_digits_unfold : forall n,
  dec_digits n = option_map digits_be (le_digits (digit_fuel n) n).
Proof. reflexivity. Qed.

Lemma is_digit_code : forall d, d < 10 -> is_digit (digit_code d) = true.
Proof.
  intros d H. unfold is_digit, digit_code.
  apply andb_true_iff; split; apply N.leb_le; lia.
Qed.

Lemma is_digit_range : forall c, is_digit c = true -> 48 <= c <= 57.
Proof.
  intros c H. unfold is_digit in H. apply andb_true_iff in H as [H1 H2].
  apply N.leb_le in H1, H2. lia.
Qed.

Lemma dec_val_acc_app : forall s acc c, is_digit c = true ->
  dec_val_acc acc (s ++ [c]) = option_map (fun a => 10 * a + (c - 48)) (dec_val_acc acc s).
Proof.
  induction s as [|x s IH]; intros acc c Hc; cbn [app dec_val_acc].
  - rewrite Hc. reflexivity.
  - destruct (is_digit x); [apply IH; exact Hc | reflexivity].
Qed.

Lemma le_canon_lt10 : forall ds, le_canon ds -> Forall (fun d => d < 10) ds.
Proof. induction 1; constructor; auto. Qed.

Lemma dec_val_acc_be : forall ds, Forall (fun d => d < 10) ds ->
  dec_val_acc 0 (digits_be ds) = Some (le_val ds).
Proof.
  induction 1 as [|d r Hd Hr IH]; [reflexivity|].
  unfold digits_be in *. cbn [map rev].
  rewrite dec_val_acc_app by (apply is_digit_code; exact Hd).
  rewrite IH. cbn [option_map le_val]. f_equal. unfold digit_code. lia.
Qed.

(* most significant digit *)
Lemma le_canon_msd : forall ds, le_canon ds ->
  ds = [0] \/ exists init l, ds = init ++ [l] /\ l <> 0 /\ l < 10.
Proof.
  induction 1 as [d Hd | d r Hd Hr IH Hv].
  - destruct (N.eq_dec d 0) as [->|Hz]; [left; reflexivity|].
    right. exists [], d. repeat split; auto.
  - right. destruct IH as [-> | (init & l & -> & Hl & Hl10)].
    + cbn in Hv. lia.
    + exists (d :: init), l. repeat split; auto.
Qed.

(* what the later proofs need to know about the decimal text s of n *)
Definition good_digits (n : N) (s : list N) : Prop :=
  s <> [] /\ Forall (fun c => is_digit c = true) s /\ dec_val s = Some n /\ no_leading_zero s = true.

Lemma digits_be_good : forall ds, le_canon ds -> good_digits (le_val ds) (digits_be ds).
Proof.
  intros ds Hc. pose proof (le_canon_lt10 _ Hc) as Hlt.
  assert (Hne : digits_be ds <> []).
  { unfold digits_be. destruct Hc; cbn [map rev]; intro E; apply app_eq_nil in E as [_ E]; discriminate. }
  repeat split.
  - exact Hne.
  - unfold digits_be. apply Forall_rev. apply Forall_forall. intros c Hin.
    apply in_map_iff in Hin as (d & <- & Hd). apply is_digit_code.
    rewrite Forall_forall in Hlt. auto.
  - unfold dec_val. destruct (digits_be ds) eqn:E; [contradiction|]. rewrite <- E.
    apply dec_val_acc_be. exact Hlt.
  - destruct (le_canon_msd _ Hc) as [-> | (init & l & -> & Hl & Hl10)]; [reflexivity|].
    unfold digits_be. rewrite map_app, rev_app_distr. cbn [map rev app].
    unfold no_leading_zero. destruct (rev (map digit_code init)); [reflexivity|].
    apply negb_true_iff, N.eqb_neq. unfold digit_code. lia.
Qed.

Lemma dec_digits_good : forall n, exists s, dec_digits n = Some s /\ good_digits n s.
Proof.
  intro n. destruct (le_digits_ok n) as (ds & Hds & Hv & Hc).
  exists (digits_be ds). rewrite dec_digits_unfold, Hds. split; [reflexivity|].
  rewrite <- Hv. apply digits_be_good. exact Hc.
Qed.

Lemma good_digits_head : forall n s, good_digits n s ->
  exists c r, s = c :: r /\ is_digit c = true.
Proof.
  intros n s (Hne & Hall & _ & _). destruct s as [|c r]; [contradiction|].
  exists c, r. split; [reflexivity|]. inversion Hall; assumption.
Qed.

(* ------------------------------------------------------------------ *)
(* str(int)                                                            *)
(* ------------------------------------------------------------------ *)
Local Open Scope Z_scope.

Lemma py_str_int_spec : forall v, exists s,
  dec_digits (Z.abs_N v) = Some s /\ good_digits (Z.abs_N v) s /\
  py_str_int v = Some (if v <? 0 then 45%N :: s else s).
Proof.
  intro v. unfold py_str_int. destruct (v <? 0) eqn:E.
  - destruct (dec_digits_good (Z.abs_N v)) as (s & Hs & Hg). exists s. rewrite Hs. auto.
  - apply Z.ltb_ge in E.
    assert (Habs : Z.abs_N v = Z.to_N v) by (destruct v; [reflexivity | reflexivity | lia]).
    rewrite Habs. destruct (dec_digits_good (Z.to_N v)) as (s & Hs & Hg). exists s. auto.
Qed.

(* ------------------------------------------------------------------ *)
(* chunks3                                                             *)
(* ------------------------------------------------------------------ *)
Lemma list_ind3 {A} (P : list A -> Prop) :
  P [] -> (forall a, P [a]) -> (forall a b, P [a; b]) ->
  (forall a b c r, P r -> P (a :: b :: c :: r)) -> forall l, P l.
Proof.
  intros H0 H1 H2 H3.
  fix F 1. intros [|a [|b [|c r]]]; [exact H0 | apply H1 | apply H2 | apply H3; apply F].
Qed.

Lemma chunks3_concat : forall l, List.concat (chunks3 l) = l.
Proof.
  induction l as [| a | a b | a b c r IH] using list_ind3; try reflexivity.
  cbn [chunks3 List.concat app]. rewrite IH. reflexivity.
Qed.

Lemma chunks3_last : forall l, l <> [] ->
  exists init last, chunks3 l = init ++ [last] /\
    (1 <= List.length last <= 3)%nat /\ Forall (fun g => List.length g = 3%nat) init.
Proof.
  induction l as [| a | a b | a b c r IH] using list_ind3; intro Hne.
  - contradiction.
  - exists [], [a]. cbn. repeat split; auto.
  - exists [], [a; b]. cbn. repeat split; auto.
  - destruct r as [|x r'].
    + exists [], [a; b; c]. cbn. repeat split; auto.
    + destruct IH as (init & last & E & Hl & Hi); [discriminate|].
      exists ([a; b; c] :: init), last.
      change (chunks3 (a :: b :: c :: x :: r')) with ([a; b; c] :: chunks3 (x :: r')).
      rewrite E. repeat split; auto; lia.
Qed.

Lemma chunks3_step : forall l, l <> [] -> chunks3 l = firstn 3 l :: chunks3 (skipn 3 l).
Proof. intros [|a [|b [|c r]]] H; try reflexivity. contradiction. Qed.

Lemma concat_rev_map_rev {A} : forall cs : list (list A),
  List.concat (rev (map (@rev A) cs)) = rev (List.concat cs).
Proof.
  induction cs as [|c cs IH]; [reflexivity|].
  cbn [map rev List.concat]. rewrite concat_app, IH. cbn [List.concat].
  rewrite app_nil_r, rev_app_distr. reflexivity.
Qed.

Lemma groups_of_concat : forall s, List.concat (groups_of s) = s.
Proof.
  intro s. unfold groups_of. rewrite concat_rev_map_rev, chunks3_concat. apply rev_involutive.
Qed.

Lemma groups_of_shape : forall s, s <> [] ->
  exists g0 gs, groups_of s = g0 :: gs /\ (1 <= List.length g0 <= 3)%nat /\
                Forall (fun g => List.length g = 3%nat) gs.
Proof.
  intros s Hne.
  assert (Hr : rev s <> []). { intro E. apply Hne. rewrite <- (rev_involutive s), E. reflexivity. }
  destruct (chunks3_last _ Hr) as (init & last & E & Hl & Hi).
  exists (rev last), (rev (map (@rev N) init)). unfold groups_of. rewrite E.
  rewrite map_app, rev_app_distr. cbn [map rev app]. repeat split.
  - rewrite rev_length; lia.
  - rewrite rev_length; lia.
  - apply Forall_rev. apply Forall_forall. intros g Hin.
    apply in_map_iff in Hin as (g' & <- & Hg'). rewrite rev_length.
    rewrite Forall_forall in Hi. auto.
Qed.

(* ------------------------------------------------------------------ *)
(* join / split_on                                                     *)
(* ------------------------------------------------------------------ *)
Lemma join_cons2 : forall sep g g2 gs, join sep (g :: g2 :: gs) = g ++ sep ++ join sep (g2 :: gs).
Proof. reflexivity. Qed.

Lemma split_on_none : forall c g, ~ In c g -> split_on c g = [g].
Proof.
  induction g as [|x g IH]; intro H; [reflexivity|].
  cbn [split_on]. destruct (N.eqb_spec x c) as [->|Hx]; [exfalso; apply H; left; reflexivity|].
  rewrite IH; [reflexivity|]. intro Hin; apply H; right; exact Hin.
Qed.

Lemma split_on_app : forall c g rest, ~ In c g ->
  split_on c (g ++ c :: rest) = g :: split_on c rest.
Proof.
  induction g as [|x g IH]; intros rest H.
  - cbn [app split_on]. rewrite N.eqb_refl. reflexivity.
  - cbn [app split_on]. destruct (N.eqb_spec x c) as [->|Hx]; [exfalso; apply H; left; reflexivity|].
    rewrite IH; [reflexivity|]. intro Hin; apply H; right; exact Hin.
Qed.

Lemma split_join : forall c gs, gs <> [] -> Forall (fun g => ~ In c g) gs ->
  split_on c (join [c] gs) = gs.
Proof.
  induction gs as [|g gs IH]; intros Hne Hall; [contradiction|].
  inversion Hall as [|? ? Hg Hgs]; subst.
  destruct gs as [|g2 gs'].
  - cbn [join]. apply split_on_none. exact Hg.
  - rewrite join_cons2. cbn [app]. rewrite split_on_app by exact Hg.
    rewrite IH; [reflexivity | discriminate | exact Hgs].
Qed.

(* ------------------------------------------------------------------ *)
(* the English grouped form and its parser                             *)
(* ------------------------------------------------------------------ *)
Definition all_digits (s : list N) : Prop := Forall (fun c => is_digit c = true) s.

(* s is: sign (only for negative v), then comma-separated groups g0,gs whose
   concatenation is the canonical decimal text of |v|; g0 has 1-3 digits and
   every later group exactly 3 *)
Definition grouped (v : Z) (s : list N) : Prop :=
  exists g0 gs,
    s = (if v <? 0 then minus else []) ++ join comma (g0 :: gs) /\
    (1 <= List.length g0 <= 3)%nat /\
    Forall (fun g => List.length g = 3%nat) gs /\
    all_digits (List.concat (g0 :: gs)) /\
    no_leading_zero (List.concat (g0 :: gs)) = true /\
    dec_val (List.concat (g0 :: gs)) = Some (Z.abs_N v).

Lemma digit_not_minus : forall c, is_digit c = true -> (c =? 45)%N = false.
Proof. intros c H. apply is_digit_range in H. apply N.eqb_neq. lia. Qed.

Theorem friendly_number_grouped : forall v,
  exists s, friendly_number true v = Some s /\ grouped v s.
Proof.
  intro v. destruct (py_str_int_spec v) as (ds & _ & Hg & Hs).
  unfold friendly_number. rewrite Hs. cbn [bind negb].
  destruct (good_digits_head _ _ Hg) as (c & r & Ec & Hc).
  destruct Hg as (Hne & Hall & Hval & Hnlz).
  destruct (groups_of_shape ds Hne) as (g0 & gs & Eg & Hl0 & Hl).
  assert (Hcat : List.concat (g0 :: gs) = ds) by (rewrite <- Eg; apply groups_of_concat).
  exists ((if v <? 0 then minus else []) ++ join comma (groups_of ds)). split.
  - destruct (v <? 0).
    + reflexivity.
    + subst ds. rewrite (digit_not_minus _ Hc). reflexivity.
  - exists g0, gs. rewrite Eg, Hcat. repeat split; auto; lia.
Qed.

Lemma strip_sign_digit : forall c r, is_digit c = true -> strip_sign (c :: r) = (false, c :: r).
Proof. intros c r H. unfold strip_sign. rewrite (digit_not_minus _ H). reflexivity. Qed.

Lemma join_head : forall sep x g gs, exists r, join sep ((x :: g) :: gs) = x :: r.
Proof. intros sep x g [|g2 gs]; cbn [join app]; eauto. Qed.

Lemma all_digits_no_comma : forall gs, all_digits (List.concat gs) ->
  Forall (fun g => ~ In 44%N g) gs.
Proof.
  induction gs as [|g gs IH]; intro H; [constructor|].
  cbn [List.concat] in H. apply Forall_app in H as [Hg Hgs]. constructor; [|auto].
  intro Hin. unfold all_digits in Hg. rewrite Forall_forall in Hg.
  apply Hg, is_digit_range in Hin. lia.
Qed.

Theorem grouped_parses : forall v s, grouped v s -> parse_grouped s = Some v.
Proof.
  intros v s (g0 & gs & -> & Hl0 & Hl & Hall & Hnlz & Hval).
  assert (Hsplit : split_on 44%N (join comma (g0 :: gs)) = g0 :: gs).
  { apply split_join; [discriminate | apply all_digits_no_comma; exact Hall]. }
  assert (Hlen : ((1 <=? List.length g0)%nat && (List.length g0 <=? 3)%nat
                  && forallb (fun h => (List.length h =? 3)%nat) gs) = true).
  { rewrite !andb_true_iff. repeat split.
    - apply Nat.leb_le; lia.
    - apply Nat.leb_le; lia.
    - apply forallb_forall. intros h Hin. rewrite Forall_forall in Hl.
      apply Nat.eqb_eq. auto. }
  destruct g0 as [|x g0']; [cbn in Hl0; lia|].
  assert (Hx : is_digit x = true) by (cbn [List.concat app] in Hall; inversion Hall; assumption).
  destruct (join_head comma x g0' gs) as (r & Er).
  unfold parse_grouped. destruct (v <? 0) eqn:Ev.
  - change (minus ++ join comma ((x :: g0') :: gs)) with (45%N :: join comma ((x :: g0') :: gs)).
    unfold strip_sign. rewrite N.eqb_refl. rewrite Hsplit, Hlen, Hnlz, Hval.
    apply Z.ltb_lt in Ev. cbn [andb].
    assert (Hz : (Z.abs_N v =? 0)%N = false) by (apply N.eqb_neq; lia).
    rewrite Hz. f_equal. lia.
  - cbn [app]. rewrite Er, strip_sign_digit by exact Hx. rewrite <- Er.
    rewrite Hsplit, Hlen, Hnlz, Hval. cbn [andb]. apply Z.ltb_ge in Ev. f_equal. lia.
Qed.

Theorem friendly_number_reads_back : forall v,
  exists s, friendly_number true v = Some s /\ parse_grouped s = Some v.
Proof.
  intro v. destruct (friendly_number_grouped v) as (s & Hs & Hg).
  exists s. split; [exact Hs | apply grouped_parses; exact Hg].
Qed.

(* non-English locales: str(value) *)
Theorem friendly_number_plain : forall v,
  exists s, friendly_number false v = Some s /\ py_str_int v = Some s /\ parse_plain s = Some v.
Proof.
  intro v. destruct (py_str_int_spec v) as (ds & _ & Hg & Hs).
  unfold friendly_number. rewrite Hs. cbn [bind negb].
  eexists; split; [reflexivity|]. split; [reflexivity|].
  destruct (good_digits_head _ _ Hg) as (c & r & Ec & Hc).
  destruct Hg as (Hne & Hall & Hval & Hnlz).
  unfold parse_plain. destruct (v <? 0) eqn:Ev.
  - unfold strip_sign. rewrite N.eqb_refl, Hnlz, Hval. apply Z.ltb_lt in Ev. cbn [andb].
    assert (Hz : (Z.abs_N v =? 0)%N = false) by (apply N.eqb_neq; lia).
    rewrite Hz. f_equal. lia.
  - subst ds. rewrite strip_sign_digit by exact Hc. rewrite Hnlz, Hval. cbn [andb].
    apply Z.ltb_ge in Ev. f_equal. lia.
Qed.

(* ------------------------------------------------------------------ *)
(* the Python loop  `while s: parts.append(s[-3:]); s = s[:-3]`        *)
(* ------------------------------------------------------------------ *)
Definition loop_cond (st : list (list N) * list N) : bool := let '(parts, s) := st in py_truthy s.
Definition loop_body (st : list (list N) * list N) : list (list N) * list N :=
  let '(parts, s) := st in (parts ++ [py_slice_last 3 s], py_slice_butlast 3 s).

Lemma while_groups : forall fuel s parts, (List.length s <= fuel)%nat ->
  py_while fuel loop_cond loop_body (parts, s) = Some (parts ++ map (@rev N) (chunks3 (rev s)), []).
Proof.
  induction fuel as [|f IH]; intros s parts Hlen.
  - destruct s; [|cbn in Hlen; lia]. cbn. rewrite app_nil_r. reflexivity.
  - destruct s as [|x s'] eqn:Es.
    + cbn. rewrite app_nil_r. reflexivity.
    + rewrite <- Es in *. assert (Hne : s <> []) by (rewrite Es; discriminate).
      assert (Hc : loop_cond (parts, s) = true) by (rewrite Es; reflexivity).
      cbn [py_while]. rewrite Hc. unfold loop_body at 2.
      rewrite IH.
      2:{ unfold py_slice_butlast. rewrite firstn_length. rewrite Es in *. cbn [List.length] in *. lia. }
      assert (Hr : rev s <> []).
      { intro E. apply Hne. rewrite <- (rev_involutive s), E. reflexivity. }
      rewrite (chunks3_step (rev s) Hr). cbn [map].
      rewrite firstn_rev, skipn_rev, rev_involutive.
      unfold py_slice_last, py_slice_butlast. rewrite <- app_assoc. reflexivity.
Qed.

Lemma startswith_minus : forall s,
  py_startswith s [45%N] = match s with c :: _ => (c =? 45)%N | [] => false end.
Proof.
  intros [|c r]; [reflexivity|]. cbn [py_startswith]. destruct r; rewrite andb_true_r; apply N.eqb_sym.
Qed.
