(* C46 — Locale formatting helpers render numbers and dates correctly.
   Property theorems only; proofs are in ProofsNum.v / ProofsDate.v / ProofsCheck.v
   and Gen/C46_equiv.v.  Text is a list of code points; durations are microseconds. *)
From Coq Require Import List ZArith NArith Bool String.
Import ListNotations.
From TV Require Import Lib.Obs C46.Model C46.Run C46.ProofsNum C46.ProofsDate C46.ProofsCal C46.ProofsText
  C46.ProofsCheck Gen.C46_src Gen.C46_equiv.
Local Open Scope Z_scope.

(* ---------------------------------------------------------------------- *)
(* friendly_number                                                         *)
(* ---------------------------------------------------------------------- *)

(* For EVERY integer v the English form exists (the digit loop never runs out
   of fuel) and the independent parser of Run.v — optional "-", comma separated
   groups, first group 1-3 digits, each later group exactly 3 digits, no leading
   zero, no "-0" — reads it back as v. *)
Theorem C46_friendly_number_reads_back : forall v : Z,
  exists s, friendly_number true v = Some s /\ parse_grouped s = Some v.
Proof. exact friendly_number_reads_back. Qed.
Print Assumptions C46_friendly_number_reads_back.

(* The same, spelled out without the parser: the text is the sign (only for
   v < 0, outside the groups) followed by groups g0,g1,.. joined by ",";
   g0 has 1-3 characters and every later group exactly 3; all characters are
   digits; the concatenated digits have no leading zero and denote |v|. *)
Theorem C46_friendly_number_grouping : forall v : Z,
  exists s g0 gs,
    friendly_number true v = Some s /\
    s = (if v <? 0 then [45%N] else []) ++ join [44%N] (g0 :: gs) /\
    (1 <= List.length g0 <= 3)%nat /\
    Forall (fun g => List.length g = 3%nat) gs /\
    Forall (fun c => is_digit c = true) (List.concat (g0 :: gs)) /\
    no_leading_zero (List.concat (g0 :: gs)) = true /\
    dec_val (List.concat (g0 :: gs)) = Some (Z.abs_N v).
Proof.
  intro v. destruct (friendly_number_grouped v) as (s & Hs & g0 & gs & H).
  exists s, g0, gs. split; [exact Hs | exact H].
Qed.
Print Assumptions C46_friendly_number_grouping.

(* Different integers never get the same text. *)
Theorem C46_friendly_number_injective : forall v w : Z,
  friendly_number true v = friendly_number true w -> v = w.
Proof.
  intros v w H.
  destruct (friendly_number_reads_back v) as (s & Hs & Hp).
  destruct (friendly_number_reads_back w) as (t & Ht & Hq).
  rewrite Hs, Ht in H. inversion H; subst. rewrite Hp in Hq. inversion Hq; reflexivity.
Qed.
Print Assumptions C46_friendly_number_injective.

(* Other locales: the plain str(value), which reads back as v. *)
Theorem C46_friendly_number_other_locales : forall v : Z,
  exists s, friendly_number false v = Some s /\ py_str_int v = Some s /\ parse_plain s = Some v.
Proof. exact friendly_number_plain. Qed.
Print Assumptions C46_friendly_number_other_locales.

(* the witness of the defect fixed by /repo commit c183a6f, now rendered correctly *)
Example C46_minus_123456 : friendly_number true (-123456) = Some (codes "-123,456").
Proof. vm_compute. reflexivity. Qed.

(* ---------------------------------------------------------------------- *)
(* format_date                                                             *)
(* ---------------------------------------------------------------------- *)

(* Whatever now, gmt_offset and the flags are: a date 60 s or more in the
   future (in particular "more than a minute") is given the full absolute
   format, never a relative phrase. *)
Theorem C46_future_dates_are_never_relative : forall i : dinput,
  60 * 1000000 <= d_delta i -> format_date i = Abs AFull (d_shorter i).
Proof. exact future_is_full. Qed.
Print Assumptions C46_future_dates_are_never_relative.

(* the witness of the defect fixed by /repo commit cb09974: now + 1 day + 30 s *)
Example C46_one_day_thirty_seconds_ahead :
  format_date {| d_now := 1772323230500000; d_delta := 86430000000; d_gmt := 0;
                 d_relative := true; d_shorter := false; d_full := false |} = Abs AFull false.
Proof. vm_compute. reflexivity. Qed.

(* Whenever a relative phrase "<n> <unit>s ago" is produced (for ANY now, date,
   gmt_offset, flags): relative mode is on, the date is less than 60 s ahead,
   the elapsed time e = floor(max(0, now - date) / 1 s) is under a day, and n is
   e expressed in the unit and rounded to A nearest integer (2|n*unit - e| <= unit:
   ties may go either way, Python rounds them to even); seconds are exact and
   the unit is the one the thresholds 50 s / 50 min select. *)
Theorem C46_relative_number_is_nearest : forall (i : dinput) (u : tunit) (n : Z),
  format_date i = Rel u n ->
  d_relative i = true /\ d_full i = false /\
  d_delta i < 60 * 1000000 /\
  let e := Z.max 0 (- d_delta i) / 1000000 in
  0 <= e < 86400 /\
  2 * Z.abs (n * unit_secs u - e) <= unit_secs u /\ 0 <= n /\
  match u with
  | USec => e < 50 /\ n = e
  | UMin => 50 <= e < 3000
  | UHour => 3000 <= e
  end.
Proof.
  intros i u n H. destruct (relative_result_spec i u n H) as (H1 & H2 & H3 & H4 & _ & H5).
  split; [exact H1|]. split; [exact H2|]. split; [exact H3|]. split; [exact H4 | exact H5].
Qed.
Print Assumptions C46_relative_number_is_nearest.

Example C46_relative_example :
  format_date {| d_now := 1772323230500000; d_delta := -150500000; d_gmt := -480;
                 d_relative := true; d_shorter := false; d_full := false |} = Rel UMin 2.
Proof. vm_compute. reflexivity. Qed.

(* The phrase text: for the (u, n) chosen above the rendered string exists and
   reads back (independent reader parse_phrase) as unit u, number n, with the
   plural form exactly when n <> 1. *)
Theorem C46_relative_phrase_text : forall (i : dinput) (u : tunit) (n : Z),
  format_date i = Rel u n ->
  exists s, render_rel u n = Some s /\ parse_phrase s = Some (u, n, negb (n =? 1)).
Proof.
  intros i u n H. apply render_rel_reads_back.
  destruct (relative_result_spec i u n H) as (_ & _ & _ & _ & _ & _ & Hn & _). exact Hn.
Qed.
Print Assumptions C46_relative_phrase_text.

(* relative=False always gives an absolute format ... *)
Theorem C46_not_relative_is_absolute : forall i : dinput,
  d_relative i = false -> exists c, format_date i = Abs c (d_shorter i).
Proof. exact not_relative_is_absolute. Qed.
Print Assumptions C46_not_relative_is_absolute.

(* ... and relative mode does use a relative phrase for every date from just
   under a minute ahead back to just under a day ago (so the theorems above are
   not vacuous). *)
Theorem C46_relative_when_within_a_day : forall i : dinput,
  d_relative i = true -> d_full i = false ->
  - (86400 * 1000000) < d_delta i < 60 * 1000000 ->
  exists u n, format_date i = Rel u n.
Proof. exact relative_when_within_a_day. Qed.
Print Assumptions C46_relative_when_within_a_day.

(* Sub-second precision.  The code rounds timedelta.seconds (whole seconds), so
   against the exact elapsed time the number can miss "nearest" by the truncated
   fraction, and by no more: *)
Theorem C46_relative_number_realtime_bound : forall (i : dinput) (u : tunit) (n : Z),
  format_date i = Rel u n ->
  2 * Z.abs (n * unit_secs u * 1000000 - Z.max 0 (- d_delta i))
    <= unit_secs u * 1000000 + 2 * 999999.
Proof. exact relative_number_realtime_bound. Qed.
Print Assumptions C46_relative_number_realtime_bound.

(* FULL-PRECISION STATEMENT NOT PROVABLE (kept for the record):
     format_date i = Rel u n -> 2 * |n * unit * 10^6 - elapsed_us| <= unit * 10^6.
   Witness: 1.7 s ago is rendered "1 second ago". *)
Theorem C46_subsecond_nearest_refuted : exists (i : dinput) (u : tunit) (n : Z),
  format_date i = Rel u n /\
  ~ 2 * Z.abs (n * unit_secs u * 1000000 - Z.max 0 (- d_delta i)) <= unit_secs u * 1000000.
Proof.
  exists {| d_now := 1772323230500000; d_delta := -1700000; d_gmt := 0;
            d_relative := true; d_shorter := false; d_full := false |}, USec, 1.
  split; [vm_compute; reflexivity | vm_compute; intro H; apply H; reflexivity].
Qed.
Print Assumptions C46_subsecond_nearest_refuted.

(* ---------------------------------------------------------------------- *)
(* the TEXT of format_date in every branch, format_day, list, get_closest  *)
(* ---------------------------------------------------------------------- *)

(* format_date returns a string for every now/date/gmt_offset/flags and clock
   kind: no IndexError on the month/weekday tables, no KeyError in the format
   substitution, no fuel exhaustion. *)
Theorem C46_format_date_text_total : forall (clk : clock) (i : dinput),
  exists s, date_text clk i = Some s.
Proof. exact date_text_total. Qed.
Print Assumptions C46_format_date_text_total.

(* Text-level form of the first date clause: whenever an absolute format is
   chosen (full_format, relative=False, a day or more ago, 60 s or more ahead)
   the returned string does not end in " ago" and is not a relative phrase. *)
Theorem C46_absolute_text_is_not_a_relative_phrase : forall clk i c sh,
  format_date i = Abs c sh ->
  exists s, date_text clk i = Some s /\ ends_with_ago s = false /\ parse_phrase s = None.
Proof.
  intros clk i c sh H. destruct (absolute_text_spec clk i c sh H) as (s & Hs & _ & Ha & Hp). eauto.
Qed.
Print Assumptions C46_absolute_text_is_not_a_relative_phrase.

Theorem C46_future_text_is_never_a_relative_phrase : forall clk i,
  60 * 1000000 <= d_delta i ->
  exists s, date_text clk i = Some s /\ ends_with_ago s = false /\ parse_phrase s = None.
Proof.
  intros clk i H. apply (C46_absolute_text_is_not_a_relative_phrase clk i AFull (d_shorter i)).
  apply future_is_full. exact H.
Qed.
Print Assumptions C46_future_text_is_never_a_relative_phrase.

(* conversely every relative phrase ends in " ago" *)
Theorem C46_relative_phrases_end_in_ago : forall s r, parse_phrase s = Some r -> ends_with_ago s = true.
Proof. exact parse_phrase_ends_ago. Qed.
Print Assumptions C46_relative_phrases_end_in_ago.

(* The absolute text is the chosen template filled with the fields of the LOCAL
   instant t: month name / weekday name by table lookup (always in range), day
   and year in decimal, and the time of day. *)
Theorem C46_absolute_text_fields : forall clk i c sh,
  format_date i = Abs c sh ->
  let t := local_date i in
  let dn := t / us_per_day in
  let '(y, m, d) := civil_from_days dn in
  exists mn wd ds ys tm,
    date_text clk i = Some (abs_text c sh mn wd ds ys tm) /\
    index_name months (m - 1) = Some mn /\ index_name weekdays (weekday_of_days dn) = Some wd /\
    py_str_int d = Some ds /\ py_str_int y = Some ys /\
    str_time clk ((t mod us_per_day) / (3600 * us_per_s)) (((t mod us_per_day) / (60 * us_per_s)) mod 60) = Some tm.
Proof.
  intros clk i c sh H. cbv zeta.
  destruct (date_env_some clk (local_date i)) as (mn & wd & d & yr & tm & He & Hmn & _ & Hwd & _ & Hd & Hy & Ht & _).
  destruct (civil_from_days (local_date i / us_per_day)) as [[y m] dd] eqn:Ec. cbn [fst snd] in *.
  exists mn, wd, d, yr, tm. unfold date_text. rewrite H, He. cbn [bind]. rewrite format_template. auto 10.
Qed.
Print Assumptions C46_absolute_text_fields.

(* The calendar: for EVERY day number the (year, month, day) computed has
   month in 1..12, day in 1..31 and is the civil date whose textbook day count
   is that day number; weekdays advance cyclically from Thursday 1970-01-01. *)
Theorem C46_calendar_is_correct : forall z : Z,
  let '(y, m, d) := civil_from_days z in
  1 <= m <= 12 /\ 1 <= d <= 31 /\ days_from_civil y m d = z.
Proof.
  intro z. pose proof (civil_bounds z) as Hb. pose proof (civil_roundtrip z) as Hr.
  destruct (civil_from_days z) as [[y m] d]. split; [apply Hb|]. split; [apply Hb | exact Hr].
Qed.
Print Assumptions C46_calendar_is_correct.

Theorem C46_weekday_cycle : forall z : Z,
  0 <= weekday_of_days z <= 6 /\ weekday_of_days (z + 1) = (weekday_of_days z + 1) mod 7 /\ weekday_of_days 0 = 3.
Proof. intro z. split; [apply weekday_range|]. split; [apply weekday_succ | reflexivity]. Qed.
Print Assumptions C46_weekday_cycle.

(* 12-hour clock: for every instant the hour is 0..23, the minute 0..59, the
   displayed hour `hour % 12 or 12` is 1..12 and, with am/pm = (hour >= 12),
   determines the hour. *)
Theorem C46_twelve_hour_clock : forall t : Z,
  let tod := t mod us_per_day in
  let h := tod / (3600 * us_per_s) in
  0 <= h < 24 /\ 0 <= (tod / (60 * us_per_s)) mod 60 < 60 /\
  1 <= hour12 h <= 12 /\ hour12 h mod 12 + (if 12 <=? h then 12 else 0) = h.
Proof.
  intro t. cbv zeta. destruct (tod_fields t) as [Hh Hm].
  split; [exact Hh|]. split; [exact Hm|]. apply hour12_spec. exact Hh.
Qed.
Print Assumptions C46_twelve_hour_clock.

(* format_day always returns "[Weekday, ]Month D" of the local civil day. *)
Theorem C46_format_day_text : forall (date gmt : Z) (dow : bool),
  let dn := (date - gmt * 60 * us_per_s) / us_per_day in
  exists mn wd d,
    format_day date gmt dow = Some (day_text dow mn wd d) /\
    index_name months (snd (fst (civil_from_days dn)) - 1) = Some mn /\
    index_name weekdays (weekday_of_days dn) = Some wd /\
    py_str_int (snd (civil_from_days dn)) = Some d.
Proof. exact format_day_spec. Qed.
Print Assumptions C46_format_day_text.

(* Locale.list: "", the single part, or "<all but last joined by the comma> and <last>". *)
Theorem C46_list_text : forall (fa : bool) (parts : list (list N)),
  locale_list fa parts =
  Some match parts with
       | [] => []
       | [p] => p
       | _ => join (list_comma fa) (removelast parts) ++ codes " and " ++ last parts []
       end.
Proof. exact locale_list_spec. Qed.
Print Assumptions C46_list_text.

(* get_closest: for every supported set and request list the chosen code is a
   supported one or the default (so Locale.get's assertion cannot fail when the
   default is supported); empty requests are skipped; a request whose
   normalised "ll_CC" form is supported wins over everything after it. *)
Theorem C46_get_closest_is_supported_or_default : forall sup cs,
  mem_text (get_closest sup cs) sup = true \/ get_closest sup cs = default_locale.
Proof. exact get_closest_supported. Qed.
Print Assumptions C46_get_closest_is_supported_or_default.

Theorem C46_get_closest_first_match : forall sup code rest p0 p1,
  code <> [] -> split_us code = [p0; p1] ->
  mem_text (map ascii_lower p0 ++ [95%N] ++ map ascii_upper p1) sup = true ->
  get_closest sup (code :: rest) = map ascii_lower p0 ++ [95%N] ++ map ascii_upper p1.
Proof. exact get_closest_first_match. Qed.
Print Assumptions C46_get_closest_first_match.

Example C46_get_closest_example :
  get_closest [codes "en_US"; codes "pt_BR"] [codes ""; codes "pt-br"; codes "en"] = codes "pt_BR".
Proof. vm_compute. reflexivity. Qed.

(* ---------------------------------------------------------------------- *)
(* ties to the checker and to the source text                              *)
(* ---------------------------------------------------------------------- *)

(* The boolean checker applied to the implementation's output on every
   correspondence case accepts the model's output on EVERY input. *)
Theorem C46_model_satisfies_checker : forall c : c46_input, check_case c (run_case c) = true.
Proof. exact check_case_on_model. Qed.
Print Assumptions C46_model_satisfies_checker.

(* The Gallina regenerated from tornado/locale.py by translators/c46_src.py on
   this run equals the model the theorems above are about. *)
Theorem C46_source_matches_model :
  (forall en v, src_friendly_number en v = friendly_number en v) /\
  src_english_codes = [codes "en"; codes "en_US"] /\
  src_skew_seconds = skew_seconds /\
  (forall seconds, src_relative seconds =
     let '(u, n) := relative_phrase seconds in (singular_msg u, plural_suffix u, n)) /\
  (forall days same_day relative shorter,
     match src_format_choice days same_day relative shorter with
     | Some f => f | None => src_full_format shorter
     end = template (abs_class days same_day relative) shorter) /\
  src_day_templates = [day_template true; day_template false] /\
  (forall fa parts, src_locale_list fa parts = locale_list fa parts) /\
  src_default_locale = default_locale.
Proof.
  split; [exact src_friendly_number_eq|]. split; [exact src_english_codes_eq|].
  split; [exact src_skew_eq|]. split; [exact src_relative_eq|].
  split; [exact src_format_choice_eq|]. split; [exact src_day_templates_eq|].
  split; [exact src_locale_list_eq | apply src_list_constants_eq].
Qed.
Print Assumptions C46_source_matches_model.
