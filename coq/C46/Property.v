(* C46 — Locale formatting helpers render numbers and dates correctly.
   Property theorems only; proofs are in ProofsNum.v / ProofsDate.v / ProofsCheck.v
   and Gen/C46_equiv.v.  Text is a list of code points; durations are microseconds. *)
From Coq Require Import List ZArith NArith Bool String.
Import ListNotations.
From TV Require Import Lib.Obs C46.Model C46.Run C46.ProofsNum C46.ProofsDate C46.ProofsCheck
  Gen.C46_src Gen.C46_equiv.
Local Open Scope Z_scope.

(* ---------------------------------------------------------------------- *)
(* friendly_number                                                         *)
(* ---------------------------------------------------------------------- *)

(* For EVERY integer v the English form exists (the digit loop never runs out
   of fuel) and the independent parser of Run.v — optional "-", comma separated
   groups, first group 1-3 digits, each later group exactly 3 digits, no leading
   zero, no "-0" — reads it back as v. *)
Theorem C46_friendly_number_reads_back : forall v : Z,
  exists s, friendly_number true v = Some s /\ parse_grouped s = Some v.
Proof. exact friendly_number_reads_back. Qed.
Print Assumptions C46_friendly_number_reads_back.

(* The same, spelled out without the parser: the text is the sign (only for
   v < 0, outside the groups) followed by groups g0,g1,.. joined by ",";
   g0 has 1-3 characters and every later group exactly 3; all characters are
   digits; the concatenated digits have no leading zero and denote |v|. *)
Theorem C46_friendly_number_grouping : forall v : Z,
  exists s g0 gs,
    friendly_number true v = Some s /\
    s = (if v <? 0 then [45%N] else []) ++ join [44%N] (g0 :: gs) /\
    (1 <= List.length g0 <= 3)%nat /\
    Forall (fun g => List.length g = 3%nat) gs /\
    Forall (fun c => is_digit c = true) (List.concat (g0 :: gs)) /\
    no_leading_zero (List.concat (g0 :: gs)) = true /\
    dec_val (List.concat (g0 :: gs)) = Some (Z.abs_N v).
Proof.
  intro v. destruct (friendly_number_grouped v) as (s & Hs & g0 & gs & H).
  exists s, g0, gs. split; [exact Hs | exact H].
Qed.
Print Assumptions C46_friendly_number_grouping.

(* Different integers never get the same text. *)
Theorem C46_friendly_number_injective : forall v w : Z,
  friendly_number true v = friendly_number true w -> v = w.
Proof.
  intros v w H.
  destruct (friendly_number_reads_back v) as (s & Hs & Hp).
  destruct (friendly_number_reads_back w) as (t & Ht & Hq).
  rewrite Hs, Ht in H. inversion H; subst. rewrite Hp in Hq. inversion Hq; reflexivity.
Qed.
Print Assumptions C46_friendly_number_injective.

(* Other locales: the plain str(value), which reads back as v. *)
Theorem C46_friendly_number_other_locales : forall v : Z,
  exists s, friendly_number false v = Some s /\ py_str_int v = Some s /\ parse_plain s = Some v.
Proof. exact friendly_number_plain. Qed.
Print Assumptions C46_friendly_number_other_locales.

(* the witness of the defect fixed by /repo commit c183a6f, now rendered correctly *)
Example C46_minus_123456 : friendly_number true (-123456) = Some (codes "-123,456").
Proof. vm_compute. reflexivity. Qed.

(* ---------------------------------------------------------------------- *)
(* format_date                                                             *)
(* ---------------------------------------------------------------------- *)

(* Whatever now, gmt_offset and the flags are: a date 60 s or more in the
   future (in particular "more than a minute") is given the full absolute
   format, never a relative phrase. *)
Theorem C46_future_dates_are_never_relative : forall i : dinput,
  60 * 1000000 <= d_delta i -> format_date i = Abs AFull (d_shorter i).
Proof. exact future_is_full. Qed.
Print Assumptions C46_future_dates_are_never_relative.

(* the witness of the defect fixed by /repo commit cb09974: now + 1 day + 30 s *)
Example C46_one_day_thirty_seconds_ahead :
  format_date {| d_now := 1772323230500000; d_delta := 86430000000; d_gmt := 0;
                 d_relative := true; d_shorter := false; d_full := false |} = Abs AFull false.
Proof. vm_compute. reflexivity. Qed.

(* Whenever a relative phrase "<n> <unit>s ago" is produced (for ANY now, date,
   gmt_offset, flags): relative mode is on, the date is less than 60 s ahead,
   the elapsed time e = floor(max(0, now - date) / 1 s) is under a day, and n is
   e expressed in the unit and rounded to A nearest integer (2|n*unit - e| <= unit:
   ties may go either way, Python rounds them to even); seconds are exact and
   the unit is the one the thresholds 50 s / 50 min select. *)
Theorem C46_relative_number_is_nearest : forall (i : dinput) (u : tunit) (n : Z),
  format_date i = Rel u n ->
  d_relative i = true /\ d_full i = false /\
  d_delta i < 60 * 1000000 /\
  let e := Z.max 0 (- d_delta i) / 1000000 in
  0 <= e < 86400 /\
  2 * Z.abs (n * unit_secs u - e) <= unit_secs u /\ 0 <= n /\
  match u with
  | USec => e < 50 /\ n = e
  | UMin => 50 <= e < 3000
  | UHour => 3000 <= e
  end.
Proof.
  intros i u n H. destruct (relative_result_spec i u n H) as (H1 & H2 & H3 & H4 & _ & H5).
  split; [exact H1|]. split; [exact H2|]. split; [exact H3|]. split; [exact H4 | exact H5].
Qed.
Print Assumptions C46_relative_number_is_nearest.

Example C46_relative_example :
  format_date {| d_now := 1772323230500000; d_delta := -150500000; d_gmt := -480;
                 d_relative := true; d_shorter := false; d_full := false |} = Rel UMin 2.
Proof. vm_compute. reflexivity. Qed.

(* The phrase text: for the (u, n) chosen above the rendered string exists and
   reads back (independent reader parse_phrase) as unit u, number n, with the
   plural form exactly when n <> 1. *)
Theorem C46_relative_phrase_text : forall (i : dinput) (u : tunit) (n : Z),
  format_date i = Rel u n ->
  exists s, render_rel u n = Some s /\ parse_phrase s = Some (u, n, negb (n =? 1)).
Proof.
  intros i u n H. apply render_rel_reads_back.
  destruct (relative_result_spec i u n H) as (_ & _ & _ & _ & _ & _ & Hn & _). exact Hn.
Qed.
Print Assumptions C46_relative_phrase_text.

(* relative=False always gives an absolute format ... *)
Theorem C46_not_relative_is_absolute : forall i : dinput,
  d_relative i = false -> exists c, format_date i = Abs c (d_shorter i).
Proof. exact not_relative_is_absolute. Qed.
Print Assumptions C46_not_relative_is_absolute.

(* ... and relative mode does use a relative phrase for every date from just
   under a minute ahead back to just under a day ago (so the theorems above are
   not vacuous). *)
Theorem C46_relative_when_within_a_day : forall i : dinput,
  d_relative i = true -> d_full i = false ->
  - (86400 * 1000000) < d_delta i < 60 * 1000000 ->
  exists u n, format_date i = Rel u n.
Proof. exact relative_when_within_a_day. Qed.
Print Assumptions C46_relative_when_within_a_day.

(* Sub-second precision.  The code rounds timedelta.seconds (whole seconds), so
   against the exact elapsed time the number can miss "nearest" by the truncated
   fraction, and by no more: *)
Theorem C46_relative_number_realtime_bound : forall (i : dinput) (u : tunit) (n : Z),
  format_date i = Rel u n ->
  2 * Z.abs (n * unit_secs u * 1000000 - Z.max 0 (- d_delta i))
    <= unit_secs u * 1000000 + 2 * 999999.
Proof. exact relative_number_realtime_bound. Qed.
Print Assumptions C46_relative_number_realtime_bound.

(* FULL-PRECISION STATEMENT NOT PROVABLE (kept for the record):
     format_date i = Rel u n -> 2 * |n * unit * 10^6 - elapsed_us| <= unit * 10^6.
   Witness: 1.7 s ago is rendered "1 second ago". *)
Theorem C46_subsecond_nearest_refuted : exists (i : dinput) (u : tunit) (n : Z),
  format_date i = Rel u n /\
  ~ 2 * Z.abs (n * unit_secs u * 1000000 - Z.max 0 (- d_delta i)) <= unit_secs u * 1000000.
Proof.
  exists {| d_now := 1772323230500000; d_delta := -1700000; d_gmt := 0;
            d_relative := true; d_shorter := false; d_full := false |}, USec, 1.
  split; [vm_compute; reflexivity | vm_compute; intro H; apply H; reflexivity].
Qed.
Print Assumptions C46_subsecond_nearest_refuted.

(* ---------------------------------------------------------------------- *)
(* ties to the checker and to the source text                              *)
(* ---------------------------------------------------------------------- *)

(* The boolean checker applied to the implementation's output on every
   correspondence case accepts the model's output on EVERY input. *)
Theorem C46_model_satisfies_checker : forall c : c46_input, check_case c (run_case c) = true.
Proof. exact check_case_on_model. Qed.
Print Assumptions C46_model_satisfies_checker.

(* The Gallina regenerated from tornado/locale.py by translators/c46_src.py on
   this run equals the model the theorems above are about. *)
Theorem C46_source_matches_model :
  (forall en v, src_friendly_number en v = friendly_number en v) /\
  src_english_codes = [codes "en"; codes "en_US"] /\
  src_skew_seconds = skew_seconds /\
  (forall seconds, src_relative seconds =
     let '(u, n) := relative_phrase seconds in (singular_msg u, plural_suffix u, n)).
Proof.
  split; [exact src_friendly_number_eq|]. split; [exact src_english_codes_eq|].
  split; [exact src_skew_eq | exact src_relative_eq].
Qed.
Print Assumptions C46_source_matches_model.
