(* Executable entry points used by the correspondence check, and the property
   as a boolean checker over the IMPLEMENTATION's returned string.  The checker
   parses the string itself (split on commas / read "<n> <unit>[s] ago"); it
   does not call friendly_number / format_date. *)
From Coq Require Import List ZArith NArith Bool String.
Import ListNotations.
From TV Require Import Lib.Obs C46.Model.
Local Open Scope Z_scope.

(* ---------------- observables ---------------- *)
Definition out_text (r : option (list N)) : obs :=
  match r with Some s => OBytes s | None => OTag "OutOfFuel" end.

Definition mk_dinput (now delta gmt : Z) (relative shorter full : bool) : dinput :=
  {| d_now := now; d_delta := delta; d_gmt := gmt;
     d_relative := relative; d_shorter := shorter; d_full := full |}.

Definition run_case (c : c46_input) : obs :=
  match c with
  | INum en v => out_text (friendly_number en v)
  | IDate clk now delta gmt relative shorter full =>
      out_text (date_text clk (mk_dinput now delta gmt relative shorter full))
  | IDay date gmt dow => out_text (format_day date gmt dow)
  | IList fa parts => out_text (locale_list fa parts)
  | IClosest supported codes => OBytes (get_closest supported codes)
  end.

(* ---------------- reading text back ---------------- *)
Definition is_digit (c : N) : bool := ((48 <=? c) && (c <=? 57))%N.

Fixpoint dec_val_acc (acc : N) (s : list N) : option N :=
  match s with
  | [] => Some acc
  | c :: r => if is_digit c then dec_val_acc (10 * acc + (c - 48))%N r else None
  end.
(* value of a non-empty all-digit string *)
Definition dec_val (s : list N) : option N :=
  match s with [] => None | _ => dec_val_acc 0%N s end.

(* a digit string of two or more characters must not start with "0" *)
Definition no_leading_zero (s : list N) : bool :=
  match s with
  | c :: _ :: _ => negb (c =? 48)%N
  | _ => true
  end.

(* optional leading "-" *)
Definition strip_sign (s : list N) : bool * list N :=
  match s with
  | c :: r => if (c =? 45)%N then (true, r) else (false, s)
  | [] => (false, s)
  end.

Fixpoint split_on (c : N) (s : list N) : list (list N) :=
  match s with
  | [] => [[]]
  | x :: r =>
      if (x =? c)%N then [] :: split_on c r
      else match split_on c r with
           | g :: gs => (x :: g) :: gs
           | [] => [[x]]
           end
  end.

(* sign, then groups separated by ",": first group 1-3 digits, every later
   group exactly 3 digits, no leading zero, no "-0"; result = the integer read *)
Definition parse_grouped (s : list N) : option Z :=
  let '(neg, body) := strip_sign s in
  match split_on 44%N body with
  | g :: gs =>
      if (1 <=? List.length g)%nat && (List.length g <=? 3)%nat
         && forallb (fun h => (List.length h =? 3)%nat) gs
         && no_leading_zero (List.concat (g :: gs))
      then match dec_val (List.concat (g :: gs)) with
           | Some n =>
               if neg && (n =? 0)%N then None
               else Some (if neg then - Z.of_N n else Z.of_N n)
           | None => None
           end
      else None
  | [] => None
  end.

(* plain decimal integer (non-English locales): optional "-", digits, canonical *)
Definition parse_plain (s : list N) : option Z :=
  let '(neg, body) := strip_sign s in
  if no_leading_zero body then
    match dec_val body with
    | Some n => if neg && (n =? 0)%N then None
                else Some (if neg then - Z.of_N n else Z.of_N n)
    | None => None
    end
  else None.

Fixpoint span_digits (s : list N) : list N * list N :=
  match s with
  | c :: r => if is_digit c then let '(a, b) := span_digits r in (c :: a, b) else ([], s)
  | [] => ([], [])
  end.

Definition text_eqb (a b : list N) : bool := list_eqb N.eqb a b.

(* "<n> <unit> ago" / "<n> <unit>s ago"  ->  (unit, n, plural?) *)
Definition parse_phrase (s : list N) : option (tunit * Z * bool) :=
  let '(ds, rest) := span_digits s in
  if no_leading_zero ds then
    match dec_val ds with
    | Some n =>
        let try (u : tunit) (k : option (tunit * Z * bool)) :=
          if text_eqb rest (codes " " ++ unit_word u ++ codes " ago") then Some (u, Z.of_N n, false)
          else if text_eqb rest (codes " " ++ unit_word u ++ codes "s ago") then Some (u, Z.of_N n, true)
          else k in
        try USec (try UMin (try UHour None))
    | None => None
    end
  else None.

(* whole seconds elapsed since the date (0 for a date in the future) *)
Definition elapsed_seconds (delta : Z) : Z := Z.max 0 (- delta) / us_per_s.

(* ---------------- the property on observables ---------------- *)
Definition check_num (en : bool) (v : Z) (o : obs) : bool :=
  match o with
  | OBytes s =>
      match (if en then parse_grouped s else parse_plain s) with
      | Some v' => v' =? v
      | None => false
      end
  | _ => false
  end.

(* does the text end with " ago"? *)
Definition ends_with_ago (s : list N) : bool :=
  match rev s with
  | o :: g :: a :: sp :: _ => ((o =? 111) && (g =? 103) && (a =? 97) && (sp =? 32))%N
  | _ => false
  end.

Definition check_date (delta : Z) (o : obs) : bool :=
  match o with
  | OBytes s =>
      match parse_phrase s with
      | Some (u, n, plural) =>
          (* not more than a minute in the future *)
          (delta <=? 60 * us_per_s)
          (* n is the elapsed time in the unit, rounded to a nearest integer *)
          && (2 * Z.abs (n * unit_secs u - elapsed_seconds delta) <=? unit_secs u)
          (* English number agreement *)
          && Bool.eqb plural (negb (n =? 1))
      | None => negb (ends_with_ago s)   (* an absolute date; anything "... ago" must be a well-formed phrase *)
      end
  | _ => false
  end.

(* the surrounding helpers: the property says nothing about their text; the
   chosen locale must be one of the supported ones *)
Definition check_case (c : c46_input) (o : obs) : bool :=
  match c with
  | INum en v => check_num en v o
  | IDate _ _ delta _ _ _ _ => check_date delta o
  | IDay _ _ _ | IList _ _ => match o with OBytes _ => true | _ => false end
  | IClosest supported _ =>
      match o with
      | OBytes s => mem_text s supported || text_eq s default_locale
      | _ => false
      end
  end.
