(* C46 — tornado/locale.py: Locale.friendly_number and the relative branch of
   Locale.format_date.  Definitions only (total, computable).

   Text is [list N] (code points).  Integers are [Z]; instants and durations
   are integer MICROSECONDS in [Z] (Python datetime/timedelta resolution). *)
From Coq Require Import List ZArith NArith Bool String Ascii.
Import ListNotations.
Local Open Scope Z_scope.

Fixpoint codes (s : string) : list N :=
  match s with
  | EmptyString => []
  | String a r => N_of_ascii a :: codes r
  end.

Definition bind {A B} (o : option A) (f : A -> option B) : option B :=
  match o with Some a => f a | None => None end.

(* ------------------------------------------------------------------ *)
(* str(int)                                                            *)
(* ------------------------------------------------------------------ *)

(* little-endian decimal digit VALUES of n; None = out of fuel (never
   happens with [digit_fuel], see Proofs.le_digits_ok) *)
Fixpoint le_digits (fuel : nat) (n : N) : option (list N) :=
  match fuel with
  | O => None
  | S f =>
      if (n <? 10)%N then Some [n]
      else match le_digits f (n / 10)%N with
           | Some ds => Some ((n mod 10)%N :: ds)
           | None => None
           end
  end.
Definition digit_fuel (n : N) : nat := S (N.to_nat (N.size n)).

(* big-endian code points "0".."9" *)
Definition dec_digits (n : N) : option (list N) :=
  option_map (fun ds => rev (map (fun d => 48 + d)%N ds)) (le_digits (digit_fuel n) n).

(* Python str(v) / "%d" % v for an int v *)
Definition py_str_int (v : Z) : option (list N) :=
  if v <? 0 then option_map (cons 45%N) (dec_digits (Z.abs_N v))
  else dec_digits (Z.to_N v).

(* ------------------------------------------------------------------ *)
(* Python string primitives used by friendly_number                    *)
(* ------------------------------------------------------------------ *)
Definition py_truthy {A} (s : list A) : bool := match s with [] => false | _ => true end.
Fixpoint py_startswith (s p : list N) : bool :=
  match p, s with
  | [], _ => true
  | c :: p', d :: s' => (c =? d)%N && py_startswith s' p'
  | _ :: _, [] => false
  end.
Definition py_slice_from (k : nat) (s : list N) : list N := skipn k s.               (* s[k:]  *)
Definition py_slice_last (k : nat) (s : list N) : list N := skipn (List.length s - k) s.   (* s[-k:] *)
Definition py_slice_butlast (k : nat) (s : list N) : list N := firstn (List.length s - k) s. (* s[:-k] *)

(* sep.join(gs) *)
Fixpoint join (sep : list N) (gs : list (list N)) : list N :=
  match gs with
  | [] => []
  | g :: gs' => match gs' with [] => g | _ => g ++ sep ++ join sep gs' end
  end.

(* `while cond(st): st = body(st)`; None = out of fuel *)
Fixpoint py_while {St} (fuel : nat) (cond : St -> bool) (body : St -> St) (st : St) : option St :=
  match fuel with
  | O => if cond st then None else Some st
  | S f => if cond st then py_while f cond body (body st) else Some st
  end.

(* ------------------------------------------------------------------ *)
(* Locale.friendly_number                                              *)
(* ------------------------------------------------------------------ *)

(* successive groups of three from the LEFT of l (l is the reversed digit
   string, so these are the groups taken from the right by s[-3:]/s[:-3]) *)
Fixpoint chunks3 (l : list N) : list (list N) :=
  match l with
  | [] => []
  | a :: b :: c :: r => [a; b; c] :: chunks3 r
  | _ => [l]
  end.

Definition comma : list N := [44%N].
Definition minus : list N := [45%N].

(* the groups, most significant first *)
Definition groups_of (ds : list N) : list (list N) := rev (map (@rev N) (chunks3 (rev ds))).

(* [en] = self.code in ("en", "en_US") *)
Definition friendly_number (en : bool) (v : Z) : option (list N) :=
  bind (py_str_int v) (fun s =>
    if negb en then Some s
    else
      let '(sign, ds) := match s with
                         | c :: r => if (c =? 45)%N then (minus, r) else ([], s)   (* s.startswith("-") *)
                         | [] => ([], s)
                         end in
      Some (sign ++ join comma (groups_of ds))).

(* ------------------------------------------------------------------ *)
(* Locale.format_date (relative=..., shorter=..., full_format=...)     *)
(* ------------------------------------------------------------------ *)
Inductive tunit := USec | UMin | UHour.
Inductive aclass := ATime | AYesterday | AWeekday | AMonthDay | AFull.
Inductive dres :=
| Rel (u : tunit) (n : Z)               (* "<n> <unit>s ago" *)
| Abs (c : aclass) (shorter : bool).    (* which absolute format string was chosen *)

Definition us_per_s : Z := 1000000.
Definition us_per_day : Z := 86400 * us_per_s.
Definition unit_secs (u : tunit) : Z :=
  match u with USec => 1 | UMin => 60 | UHour => 3600 end.

(* round(a / float(b)) for ints 0 <= a, 0 < b: Python 3 round() is
   round-half-to-even.  (a / float(b) is an IEEE double; for the ranges used
   here it is within 1e-12 of the rational a/b and exact on the ties, so
   rounding the rational is the same — tied by the correspondence sweep.) *)
Definition py_round_div (a b : Z) : Z :=
  let q := a / b in
  let r := a mod b in
  if 2 * r <? b then q
  else if b <? 2 * r then q + 1
  else if Z.even q then q else q + 1.

(* the three `return`s under `if relative and days == 0:` *)
Definition relative_phrase (seconds : Z) : tunit * Z :=
  if seconds <? 50 then (USec, seconds)
  else if seconds <? 50 * 60 then (UMin, py_round_div seconds 60)
  else (UHour, py_round_div seconds (60 * 60)).

Definition skew_seconds : Z := 60.

Record dinput := {
  d_now : Z;        (* datetime.now(utc), microseconds since the epoch *)
  d_delta : Z;      (* date - now, microseconds (positive = future) *)
  d_gmt : Z;        (* gmt_offset, minutes *)
  d_relative : bool;
  d_shorter : bool;
  d_full : bool
}.

Definition format_date (i : dinput) : dres :=
  let now := d_now i in
  let date0 := now + d_delta i in
  let relative := d_relative i in
  let shorter := d_shorter i in
  (* if date > now: ... *)
  let '(date, full_format) :=
    if now <? date0 then
      if relative && (date0 - now <? skew_seconds * us_per_s) then (now, d_full i)
      else (date0, true)
    else (date0, d_full i) in
  let local_date := date - d_gmt i * 60 * us_per_s in
  let local_now := now - d_gmt i * 60 * us_per_s in
  let local_yesterday := local_now - 24 * 3600 * us_per_s in
  let difference := now - date in
  (* timedelta normalisation: days = floor, 0 <= seconds < 86400, 0 <= microseconds < 10^6 *)
  let days := difference / us_per_day in
  let seconds := (difference mod us_per_day) / us_per_s in
  if negb full_format then
    if relative && (days =? 0) then
      let '(u, n) := relative_phrase seconds in Rel u n
    else if days =? 0 then Abs ATime shorter
    else if (days =? 1)
            (* local_date.day == local_yesterday.day: the two instants are less than
               24 h apart here, so equal day-of-month <=> same calendar day *)
            && (local_date / us_per_day =? local_yesterday / us_per_day)
            && relative then Abs AYesterday shorter
    else if days <? 5 then Abs AWeekday shorter
    else if days <? 334 then Abs AMonthDay shorter
    else Abs AFull shorter
  else Abs AFull shorter.

(* `_(singular, plural, n) % {...}` with the identity translation *)
Definition unit_word (u : tunit) : list N :=
  match u with
  | USec => codes "second"
  | UMin => codes "minute"
  | UHour => codes "hour"
  end.
(* "1 second ago" and the text after "%(seconds)d" in "%(seconds)d seconds ago" *)
Definition singular_msg (u : tunit) : list N := codes "1 " ++ unit_word u ++ codes " ago".
Definition plural_suffix (u : tunit) : list N := codes " " ++ unit_word u ++ codes "s ago".
Definition render_rel (u : tunit) (n : Z) : option (list N) :=
  if n =? 1 then Some (singular_msg u)
  else bind (py_str_int n) (fun ds => Some (ds ++ plural_suffix u)).

(* ------------------------------------------------------------------ *)
(* one correspondence case                                             *)
(* ------------------------------------------------------------------ *)
Inductive c46_input :=
| INum (en : bool) (v : Z)
| IDate (now delta gmt : Z) (relative shorter full : bool).
