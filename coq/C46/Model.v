(* C46 — tornado/locale.py: Locale.friendly_number and the relative branch of
   Locale.format_date.  Definitions only (total, computable).

   Text is [list N] (code points).  Integers are [Z]; instants and durations
   are integer MICROSECONDS in [Z] (Python datetime/timedelta resolution). *)
From Coq Require Import List ZArith NArith Bool String Ascii.
Import ListNotations.
Local Open Scope Z_scope.

Fixpoint codes (s : string) : list N :=
  match s with
  | EmptyString => []
  | String a r => N_of_ascii a :: codes r
  end.

Definition bind {A B} (o : option A) (f : A -> option B) : option B :=
  match o with Some a => f a | None => None end.

(* ------------------------------------------------------------------ *)
(* str(int)                                                            *)
(* ------------------------------------------------------------------ *)

(* little-endian decimal digit VALUES of n; None = out of fuel (never
   happens with [digit_fuel], see Proofs.le_digits_ok) *)
Fixpoint le_digits (fuel : nat) (n : N) : option (list N) :=
  match fuel with
  | O => None
  | S f =>
      if (n <? 10)%N then Some [n]
      else match le_digits f (n / 10)%N with
           | Some ds => Some ((n mod 10)%N :: ds)
           | None => None
           end
  end.
Definition digit_fuel (n : N) : nat := S (N.to_nat (N.size n)).

(* big-endian code points "0".."9" *)
Definition dec_digits (n : N) : option (list N) :=
  option_map (fun ds => rev (map (fun d => 48 + d)%N ds)) (le_digits (digit_fuel n) n).

(* Python str(v) / "%d" % v for an int v *)
Definition py_str_int (v : Z) : option (list N) :=
  if v <? 0 then option_map (cons 45%N) (dec_digits (Z.abs_N v))
  else dec_digits (Z.to_N v).

(* ------------------------------------------------------------------ *)
(* Python string primitives used by friendly_number                    *)
(* ------------------------------------------------------------------ *)
Definition py_truthy {A} (s : list A) : bool := match s with [] => false | _ => true end.
Fixpoint py_startswith (s p : list N) : bool :=
  match p, s with
  | [], _ => true
  | c :: p', d :: s' => (c =? d)%N && py_startswith s' p'
  | _ :: _, [] => false
  end.
Definition py_slice_from (k : nat) (s : list N) : list N := skipn k s.               (* s[k:]  *)
Definition py_slice_last (k : nat) (s : list N) : list N := skipn (List.length s - k) s.   (* s[-k:] *)
Definition py_slice_butlast (k : nat) (s : list N) : list N := firstn (List.length s - k) s. (* s[:-k] *)

(* sep.join(gs) *)
Fixpoint join (sep : list N) (gs : list (list N)) : list N :=
  match gs with
  | [] => []
  | g :: gs' => match gs' with [] => g | _ => g ++ sep ++ join sep gs' end
  end.

(* `while cond(st): st = body(st)`; None = out of fuel *)
Fixpoint py_while {St} (fuel : nat) (cond : St -> bool) (body : St -> St) (st : St) : option St :=
  match fuel with
  | O => if cond st then None else Some st
  | S f => if cond st then py_while f cond body (body st) else Some st
  end.

(* ------------------------------------------------------------------ *)
(* Locale.friendly_number                                              *)
(* ------------------------------------------------------------------ *)

(* successive groups of three from the LEFT of l (l is the reversed digit
   string, so these are the groups taken from the right by s[-3:]/s[:-3]) *)
Fixpoint chunks3 (l : list N) : list (list N) :=
  match l with
  | [] => []
  | a :: b :: c :: r => [a; b; c] :: chunks3 r
  | _ => [l]
  end.

Definition comma : list N := [44%N].
Definition minus : list N := [45%N].

(* the groups, most significant first *)
Definition groups_of (ds : list N) : list (list N) := rev (map (@rev N) (chunks3 (rev ds))).

(* [en] = self.code in ("en", "en_US") *)
Definition friendly_number (en : bool) (v : Z) : option (list N) :=
  bind (py_str_int v) (fun s =>
    if negb en then Some s
    else
      let '(sign, ds) := match s with
                         | c :: r => if (c =? 45)%N then (minus, r) else ([], s)   (* s.startswith("-") *)
                         | [] => ([], s)
                         end in
      Some (sign ++ join comma (groups_of ds))).

(* ------------------------------------------------------------------ *)
(* Locale.format_date (relative=..., shorter=..., full_format=...)     *)
(* ------------------------------------------------------------------ *)
Inductive tunit := USec | UMin | UHour.
Inductive aclass := ATime | AYesterday | AWeekday | AMonthDay | AFull.
Inductive dres :=
| Rel (u : tunit) (n : Z)               (* "<n> <unit>s ago" *)
| Abs (c : aclass) (shorter : bool).    (* which absolute format string was chosen *)

Definition us_per_s : Z := 1000000.
Definition us_per_day : Z := 86400 * us_per_s.
Definition unit_secs (u : tunit) : Z :=
  match u with USec => 1 | UMin => 60 | UHour => 3600 end.

(* round(a / float(b)) for ints 0 <= a, 0 < b: Python 3 round() is
   round-half-to-even.  (a / float(b) is an IEEE double; for the ranges used
   here it is within 1e-12 of the rational a/b and exact on the ties, so
   rounding the rational is the same — tied by the correspondence sweep.) *)
Definition py_round_div (a b : Z) : Z :=
  let q := a / b in
  let r := a mod b in
  if 2 * r <? b then q
  else if b <? 2 * r then q + 1
  else if Z.even q then q else q + 1.

(* the three `return`s under `if relative and days == 0:` *)
Definition relative_phrase (seconds : Z) : tunit * Z :=
  if seconds <? 50 then (USec, seconds)
  else if seconds <? 50 * 60 then (UMin, py_round_div seconds 60)
  else (UHour, py_round_div seconds (60 * 60)).

Definition skew_seconds : Z := 60.

Record dinput := {
  d_now : Z;        (* datetime.now(utc), microseconds since the epoch *)
  d_delta : Z;      (* date - now, microseconds (positive = future) *)
  d_gmt : Z;        (* gmt_offset, minutes *)
  d_relative : bool;
  d_shorter : bool;
  d_full : bool
}.

(* the if/elif chain choosing the absolute format; [same_day] is
   local_date.day == local_yesterday.day: the two instants are less than 24 h apart
   when days = 1, so equal day-of-month <=> same calendar day *)
Definition abs_class (days : Z) (same_day relative : bool) : aclass :=
  if days =? 0 then ATime
  else if (days =? 1) && same_day && relative then AYesterday
  else if days <? 5 then AWeekday
  else if days <? 334 then AMonthDay
  else AFull.

Definition format_date (i : dinput) : dres :=
  let now := d_now i in
  let date0 := now + d_delta i in
  let relative := d_relative i in
  let shorter := d_shorter i in
  (* if date > now: ... *)
  let '(date, full_format) :=
    if now <? date0 then
      if relative && (date0 - now <? skew_seconds * us_per_s) then (now, d_full i)
      else (date0, true)
    else (date0, d_full i) in
  let local_date := date - d_gmt i * 60 * us_per_s in
  let local_now := now - d_gmt i * 60 * us_per_s in
  let local_yesterday := local_now - 24 * 3600 * us_per_s in
  let difference := now - date in
  (* timedelta normalisation: days = floor, 0 <= seconds < 86400, 0 <= microseconds < 10^6 *)
  let days := difference / us_per_day in
  let seconds := (difference mod us_per_day) / us_per_s in
  if negb full_format then
    if relative && (days =? 0) then
      let '(u, n) := relative_phrase seconds in Rel u n
    else Abs (abs_class days (local_date / us_per_day =? local_yesterday / us_per_day) relative) shorter
  else Abs AFull shorter.

(* `_(singular, plural, n) % {...}` with the identity translation *)
Definition unit_word (u : tunit) : list N :=
  match u with
  | USec => codes "second"
  | UMin => codes "minute"
  | UHour => codes "hour"
  end.
(* "1 second ago" and the text after "%(seconds)d" in "%(seconds)d seconds ago" *)
Definition singular_msg (u : tunit) : list N := codes "1 " ++ unit_word u ++ codes " ago".
Definition plural_suffix (u : tunit) : list N := codes " " ++ unit_word u ++ codes "s ago".
Definition render_rel (u : tunit) (n : Z) : option (list N) :=
  if n =? 1 then Some (singular_msg u)
  else bind (py_str_int n) (fun ds => Some (ds ++ plural_suffix u)).

(* ------------------------------------------------------------------ *)
(* proleptic Gregorian calendar (datetime.year/.month/.day/.weekday())  *)
(* ------------------------------------------------------------------ *)
(* days since 1970-01-01 -> (year, month 1..12, day 1..31) *)
Definition civil_from_days (z : Z) : Z * Z * Z :=
  let z1 := z + 719468 in
  let era := z1 / 146097 in
  let doe := z1 - era * 146097 in
  let yoe := (doe - doe / 1460 + doe / 36524 - doe / 146096) / 365 in
  let y := yoe + era * 400 in
  let doy := doe - (365 * yoe + yoe / 4 - yoe / 100) in
  let mp := (5 * doy + 2) / 153 in
  let d := doy - (153 * mp + 2) / 5 + 1 in
  let m := if mp <? 10 then mp + 3 else mp - 9 in
  (if m <=? 2 then y + 1 else y, m, d).

(* the textbook day count of a civil date (used only in theorems) *)
Definition days_from_civil (y m d : Z) : Z :=
  let y1 := if m <=? 2 then y - 1 else y in
  let era := y1 / 400 in
  let yoe := y1 - era * 400 in
  let doy := (153 * (if 2 <? m then m - 3 else m + 9) + 2) / 5 + d - 1 in
  let doe := yoe * 365 + yoe / 4 - yoe / 100 + doy in
  era * 146097 + doe - 719468.

(* datetime.weekday(): Monday = 0; 1970-01-01 was a Thursday *)
Definition weekday_of_days (z : Z) : Z := (z + 3) mod 7.

Definition months : list (list N) :=
  map codes ["January"; "February"; "March"; "April"; "May"; "June"; "July"; "August";
             "September"; "October"; "November"; "December"]%string.
Definition weekdays : list (list N) :=
  map codes ["Monday"; "Tuesday"; "Wednesday"; "Thursday"; "Friday"; "Saturday"; "Sunday"]%string.
(* l[i] for 0 <= i < len(l); None = IndexError (proved unreachable) *)
Definition index_name (l : list (list N)) (i : Z) : option (list N) :=
  if i <? 0 then None else nth_error l (Z.to_nat i).

(* ------------------------------------------------------------------ *)
(* "fmt % {...}" with %(key)s fields only                               *)
(* ------------------------------------------------------------------ *)
Fixpoint lookup (env : list (list N * list N)) (k : list N) : option (list N) :=
  match env with
  | [] => None
  | (k', v) :: r => if (fix eqb (a b : list N) : bool :=
                          match a, b with
                          | [], [] => true
                          | x :: a', y :: b' => (x =? y)%N && eqb a' b'
                          | _, _ => false
                          end) k k' then Some v else lookup r k
  end.

(* key = None: copying text; key = Some k: inside "%(" collecting the key (reversed).
   None = KeyError / ValueError (malformed format) *)
Fixpoint py_format_go (env : list (list N * list N)) (t : list N) (key : option (list N)) : option (list N) :=
  match t with
  | [] => match key with None => Some [] | Some _ => None end
  | c :: r =>
      match key with
      | None =>
          if (c =? 37)%N then                              (* % *)
            match r with
            | c2 :: r2 => if (c2 =? 40)%N then py_format_go env r2 (Some []) else None
            | [] => None
            end
          else option_map (cons c) (py_format_go env r None)
      | Some k =>
          if (c =? 41)%N then                              (* ) *)
            match r with
            | c2 :: r2 =>
                if (c2 =? 115)%N then                      (* s *)
                  bind (lookup env (rev k)) (fun v => option_map (app v) (py_format_go env r2 None))
                else None
            | [] => None
            end
          else py_format_go env r (Some (c :: k))
      end
  end.
Definition py_format (t : list N) (env : list (list N * list N)) : option (list N) :=
  py_format_go env t None.

(* ------------------------------------------------------------------ *)
(* format_date: the absolute formats                                   *)
(* ------------------------------------------------------------------ *)
(* self.code: ("en","en_US") -> 12 h clock; "zh_CN" -> 12 h with prefix; others 24 h *)
Inductive clock := C12 | CZh | C24.

(* "%02d" % m for 0 <= m *)
Definition pad2 (m : Z) : option (list N) :=
  bind (py_str_int m) (fun d => Some (if m <? 10 then 48%N :: d else d)).

Definition hour12 (hour : Z) : Z := if hour mod 12 =? 0 then 12 else hour mod 12.   (* hour % 12 or 12 *)

Definition str_time (c : clock) (hour minute : Z) : option (list N) :=
  match c with
  | C24 => bind (py_str_int hour) (fun h => bind (pad2 minute) (fun m => Some (h ++ [58%N] ++ m)))
  | CZh => bind (py_str_int (hour12 hour)) (fun h => bind (pad2 minute) (fun m =>
             Some ((if 12 <=? hour then [19979%N; 21320%N] else [19978%N; 21320%N]) ++ h ++ [58%N] ++ m)))
  | C12 => bind (py_str_int (hour12 hour)) (fun h => bind (pad2 minute) (fun m =>
             Some (h ++ [58%N] ++ m ++ [32%N] ++ (if 12 <=? hour then codes "pm" else codes "am"))))
  end.

Definition template (c : aclass) (shorter : bool) : list N :=
  match c, shorter with
  | ATime, _ => codes "%(time)s"
  | AYesterday, true => codes "yesterday"
  | AYesterday, false => codes "yesterday at %(time)s"
  | AWeekday, true => codes "%(weekday)s"
  | AWeekday, false => codes "%(weekday)s at %(time)s"
  | AMonthDay, true => codes "%(month_name)s %(day)s"
  | AMonthDay, false => codes "%(month_name)s %(day)s at %(time)s"
  | AFull, true => codes "%(month_name)s %(day)s, %(year)s"
  | AFull, false => codes "%(month_name)s %(day)s, %(year)s at %(time)s"
  end.

(* the fields of a local instant t (microseconds) *)
Definition date_env (clk : clock) (t : Z) : option (list (list N * list N)) :=
  let dn := t / us_per_day in
  let tod := t mod us_per_day in
  let '(y, m, d) := civil_from_days dn in
  bind (index_name months (m - 1)) (fun month_name =>
  bind (index_name weekdays (weekday_of_days dn)) (fun weekday =>
  bind (py_str_int d) (fun day =>
  bind (py_str_int y) (fun year =>
  bind (str_time clk (tod / (3600 * us_per_s)) ((tod / (60 * us_per_s)) mod 60)) (fun time =>
  Some [(codes "month_name", month_name); (codes "weekday", weekday); (codes "day", day);
        (codes "year", year); (codes "time", time)]))))).

(* date after the `if date > now:` block *)
Definition adjusted_date (i : dinput) : Z :=
  let now := d_now i in
  let date0 := now + d_delta i in
  if now <? date0 then
    if d_relative i && (date0 - now <? skew_seconds * us_per_s) then now else date0
  else date0.
Definition local_date (i : dinput) : Z := adjusted_date i - d_gmt i * 60 * us_per_s.

(* the string format_date returns *)
Definition date_text (clk : clock) (i : dinput) : option (list N) :=
  match format_date i with
  | Rel u n => render_rel u n
  | Abs c sh => bind (date_env clk (local_date i)) (py_format (template c sh))
  end.

(* ------------------------------------------------------------------ *)
(* Locale.format_day(date, gmt_offset, dow)                            *)
(* ------------------------------------------------------------------ *)
Definition day_template (dow : bool) : list N :=
  if dow then codes "%(weekday)s, %(month_name)s %(day)s" else codes "%(month_name)s %(day)s".
Definition format_day (date gmt : Z) (dow : bool) : option (list N) :=
  bind (date_env C12 (date - gmt * 60 * us_per_s)) (py_format (day_template dow)).

(* ------------------------------------------------------------------ *)
(* Locale.list(parts)                                                  *)
(* ------------------------------------------------------------------ *)
Definition list_template : list N := codes "%(commas)s and %(last)s".
Definition list_comma (fa : bool) : list N := if fa then [32%N; 1608%N; 32%N] else codes ", ".
(* [fa] = self.code.startswith("fa") *)
Definition locale_list (fa : bool) (parts : list (list N)) : option (list N) :=
  match parts with
  | [] => Some []
  | [p] => Some p
  | _ => py_format list_template
           [(codes "commas", join (list_comma fa) (removelast parts)); (codes "last", last parts [])]
  end.

(* ------------------------------------------------------------------ *)
(* Locale.get_closest over ASCII locale codes                          *)
(* ------------------------------------------------------------------ *)
Definition ascii_lower (c : N) : N := if ((65 <=? c) && (c <=? 90))%N then (c + 32)%N else c.
Definition ascii_upper (c : N) : N := if ((97 <=? c) && (c <=? 122))%N then (c - 32)%N else c.
Fixpoint text_eq (a b : list N) : bool :=
  match a, b with
  | [], [] => true
  | x :: a', y :: b' => (x =? y)%N && text_eq a' b'
  | _, _ => false
  end.
Definition mem_text (x : list N) (l : list (list N)) : bool := existsb (text_eq x) l.
(* s.split("_") after s.replace("-", "_") *)
Fixpoint split_us (s : list N) : list (list N) :=
  match s with
  | [] => [[]]
  | c :: r =>
      if ((c =? 95) || (c =? 45))%N then [] :: split_us r
      else match split_us r with
           | g :: gs => (c :: g) :: gs
           | [] => [[c]]
           end
  end.
Definition default_locale : list N := codes "en_US".

Fixpoint get_closest (supported : list (list N)) (cs : list (list N)) : list N :=
  match cs with
  | [] => default_locale
  | code :: rest =>
      match code with
      | [] => get_closest supported rest                       (* if not code: continue *)
      | _ =>
          let code1 := map (fun c => if (c =? 45)%N then 95%N else c) code in
          match split_us code with
          | [p0] =>
              if mem_text code1 supported then code1
              else if mem_text (map ascii_lower p0) supported then map ascii_lower p0
              else get_closest supported rest
          | [p0; p1] =>
              let code2 := map ascii_lower p0 ++ [95%N] ++ map ascii_upper p1 in
              if mem_text code2 supported then code2
              else if mem_text (map ascii_lower p0) supported then map ascii_lower p0
              else get_closest supported rest
          | _ => get_closest supported rest                    (* len(parts) > 2: continue *)
          end
      end
  end.

(* ------------------------------------------------------------------ *)
(* one correspondence case                                             *)
(* ------------------------------------------------------------------ *)
Inductive c46_input :=
| INum (en : bool) (v : Z)
| IDate (clk : clock) (now delta gmt : Z) (relative shorter full : bool)
| IDay (date gmt : Z) (dow : bool)
| IList (fa : bool) (parts : list (list N))
| IClosest (supported codes : list (list N)).
