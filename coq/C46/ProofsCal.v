(* C46 — calendar arithmetic used by the absolute date formats. *)
From Coq Require Import List ZArith NArith Bool Lia.
Import ListNotations.
From TV Require Import C46.Model.
Local Open Scope Z_scope.

(* month and day are always in range, for every day number *)
Lemma civil_bounds : forall z,
  let '(y, m, d) := civil_from_days z in 1 <= m <= 12 /\ 1 <= d <= 31.
Proof.
  intro z. unfold civil_from_days. cbv zeta.
  match goal with |- context [?a <? 10] => destruct (a <? 10) eqn:E end;
    [apply Z.ltb_lt in E | apply Z.ltb_ge in E]; Z.div_mod_to_equations; lia.
Qed.

(* civil_from_days inverts the textbook day count, for EVERY day number *)
Lemma civil_roundtrip : forall z,
  let '(y, m, d) := civil_from_days z in days_from_civil y m d = z.
Proof.
  intro z. unfold civil_from_days, days_from_civil. cbv zeta.
  match goal with |- context [?a <? 10] => destruct (a <? 10) eqn:E end;
    [apply Z.ltb_lt in E | apply Z.ltb_ge in E];
  repeat match goal with
         | |- context [?a <=? ?b] => destruct (Z.leb_spec a b)
         | |- context [?a <? ?b] => destruct (Z.ltb_spec a b)
         end;
  Z.div_mod_to_equations; lia.
Qed.

Lemma weekday_range : forall z, 0 <= weekday_of_days z <= 6.
Proof. intro z. unfold weekday_of_days. pose proof (Z.mod_pos_bound (z + 3) 7 ltac:(lia)). lia. Qed.

Lemma weekday_succ : forall z, weekday_of_days (z + 1) = (weekday_of_days z + 1) mod 7.
Proof.
  intro z. unfold weekday_of_days. replace (z + 1 + 3) with ((z + 3) + 1) by lia.
  rewrite (Z.add_mod (z + 3) 1 7) by lia. reflexivity.
Qed.

(* hour % 12 or 12, and am/pm: the 24 h hour can be read back *)
Lemma hour12_spec : forall h, 0 <= h < 24 ->
  1 <= hour12 h <= 12 /\ hour12 h mod 12 + (if 12 <=? h then 12 else 0) = h.
Proof.
  intros h Hh. unfold hour12.
  destruct (h mod 12 =? 0) eqn:E; [apply Z.eqb_eq in E | apply Z.eqb_neq in E];
    destruct (Z.leb_spec 12 h); Z.div_mod_to_equations; lia.
Qed.

(* time of day of any instant *)
Lemma tod_fields : forall t,
  let tod := t mod us_per_day in
  0 <= tod / (3600 * us_per_s) < 24 /\ 0 <= (tod / (60 * us_per_s)) mod 60 < 60.
Proof.
  intro t. cbv zeta. change us_per_day with 86400000000. change us_per_s with 1000000.
  Z.div_mod_to_equations. lia.
Qed.
