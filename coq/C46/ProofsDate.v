(* C46 — proofs about the format_date model (branch selection and rounding). *)
From Coq Require Import List ZArith NArith Bool Lia.
Import ListNotations.
From TV Require Import Lib.Obs C46.Model C46.Run.
Local Open Scope Z_scope.

(* ------------------------------------------------------------------ *)
(* round(a / float(b)) is a nearest integer                            *)
(* ------------------------------------------------------------------ *)
Lemma py_round_div_nearest : forall a b, 0 <= a -> 0 < b ->
  2 * Z.abs (py_round_div a b * b - a) <= b /\ 0 <= py_round_div a b.
Proof.
  intros a b Ha Hb. unfold py_round_div.
  pose proof (Z.div_mod a b ltac:(lia)) as Hdm.
  pose proof (Z.mod_pos_bound a b Hb) as Hr.
  pose proof (Z.div_pos a b Ha Hb) as Hq.
  set (q := a / b) in *. set (r := a mod b) in *.
  assert (Hqb : q * b = b * q) by ring.
  destruct (2 * r <? b) eqn:E1; [apply Z.ltb_lt in E1 | apply Z.ltb_ge in E1].
  - split; [|lia]. replace (q * b - a) with (- r) by lia. lia.
  - assert (Hq1 : (q + 1) * b - a = b - r) by lia.
    destruct (b <? 2 * r) eqn:E2; [apply Z.ltb_lt in E2 | apply Z.ltb_ge in E2].
    + split; [|lia]. rewrite Hq1. lia.
    + destruct (Z.even q).
      * split; [|lia]. replace (q * b - a) with (- r) by lia. lia.
      * split; [|lia]. rewrite Hq1. lia.
Qed.

(* the phrase chosen for s whole seconds, 0 <= s < 86400 *)
Lemma relative_phrase_spec : forall s u n, 0 <= s -> relative_phrase s = (u, n) ->
  2 * Z.abs (n * unit_secs u - s) <= unit_secs u /\ 0 <= n /\
  match u with
  | USec => s < 50 /\ n = s
  | UMin => 50 <= s < 3000
  | UHour => 3000 <= s
  end.
Proof.
  intros s u n Hs. unfold relative_phrase.
  destruct (s <? 50) eqn:E1; [apply Z.ltb_lt in E1 | apply Z.ltb_ge in E1].
  - intro H; inversion H; subst. cbn [unit_secs]. repeat split; lia.
  - destruct (s <? 50 * 60) eqn:E2; [apply Z.ltb_lt in E2 | apply Z.ltb_ge in E2];
      intro H; inversion H; subst; cbn [unit_secs].
    + destruct (py_round_div_nearest s 60 Hs ltac:(lia)). repeat split; lia.
    + change (60 * 60) with 3600.
      destruct (py_round_div_nearest s 3600 Hs ltac:(lia)). repeat split; lia.
Qed.

(* ------------------------------------------------------------------ *)
(* branch selection                                                    *)
(* ------------------------------------------------------------------ *)
Lemma future_is_full : forall i,
  skew_seconds * us_per_s <= d_delta i -> format_date i = Abs AFull (d_shorter i).
Proof.
  intros i H. unfold format_date.
  assert (Hlt : (d_now i <? d_now i + d_delta i) = true).
  { apply Z.ltb_lt. unfold skew_seconds, us_per_s in H. lia. }
  rewrite Hlt.
  assert (Hsk : (d_now i + d_delta i - d_now i <? skew_seconds * us_per_s) = false).
  { apply Z.ltb_ge. lia. }
  rewrite Hsk, andb_false_r. cbn [negb]. reflexivity.
Qed.

(* the date and full_format after the `if date > now:` block *)
Definition adjusted (i : dinput) : Z * bool :=
  if d_now i <? d_now i + d_delta i then
    if d_relative i && (d_now i + d_delta i - d_now i <? skew_seconds * us_per_s)
    then (d_now i, d_full i) else (d_now i + d_delta i, true)
  else (d_now i + d_delta i, d_full i).

Lemma us_per_day_val : us_per_day = 86400000000.
Proof. reflexivity. Qed.
Lemma us_per_s_val : us_per_s = 1000000.
Proof. reflexivity. Qed.

(* Everything that holds when a relative phrase is produced. *)
Theorem relative_result_spec : forall i u n, format_date i = Rel u n ->
  d_relative i = true /\ d_full i = false /\
  d_delta i < skew_seconds * us_per_s /\
  let e := elapsed_seconds (d_delta i) in
  0 <= e < 86400 /\
  relative_phrase e = (u, n) /\
  2 * Z.abs (n * unit_secs u - e) <= unit_secs u /\ 0 <= n /\
  match u with
  | USec => e < 50 /\ n = e
  | UMin => 50 <= e < 3000
  | UHour => 3000 <= e
  end.
Proof.
  intros i u n. unfold format_date.
  destruct i as [now delta gmt relative shorter full]. cbn [d_now d_delta d_gmt d_relative d_shorter d_full].
  unfold elapsed_seconds. rewrite us_per_day_val, us_per_s_val. unfold skew_seconds.
  destruct (now <? now + delta) eqn:Efut; [apply Z.ltb_lt in Efut | apply Z.ltb_ge in Efut].
  - (* date in the future *)
    destruct relative; cbn [andb].
    2:{ cbn [negb]. discriminate. }
    destruct (now + delta - now <? 60 * 1000000) eqn:Esk;
      [apply Z.ltb_lt in Esk | cbn [negb]; discriminate].
    replace (now - now) with 0 by lia.
    change (0 / 86400000000) with 0. change (0 mod 86400000000 / 1000000) with 0.
    destruct full; cbn [negb]; [discriminate|]. cbn [Z.eqb].
    change (relative_phrase 0) with (USec, 0). intro H; inversion H; subst.
    assert (He : Z.max 0 (- delta) / 1000000 = 0).
    { replace (Z.max 0 (- delta)) with 0 by lia. reflexivity. }
    rewrite He. cbn. repeat split; lia.
  - (* date now or in the past *)
    destruct full; cbn [negb]; [discriminate|].
    replace (now - (now + delta)) with (- delta) by lia.
    destruct relative; cbn [andb].
    2:{ repeat (match goal with |- context [if ?c then _ else _] => destruct c end); discriminate. }
    destruct (- delta / 86400000000 =? 0) eqn:Ed; [apply Z.eqb_eq in Ed|].
    2:{ discriminate. }
    assert (Hrange : 0 <= - delta < 86400000000).
    { pose proof (Z.div_mod (- delta) 86400000000 ltac:(lia)).
      pose proof (Z.mod_pos_bound (- delta) 86400000000 ltac:(lia)). lia. }
    rewrite (Z.mod_small _ _ Hrange).
    replace (Z.max 0 (- delta)) with (- delta) by lia.
    set (e := - delta / 1000000).
    assert (He : 0 <= e < 86400).
    { subst e. split; [apply Z.div_pos; lia | apply Z.div_lt_upper_bound; lia]. }
    destruct (relative_phrase e) as [u' n'] eqn:Ep. intro H; inversion H; subst u' n'.
    destruct (relative_phrase_spec e u n ltac:(lia) Ep) as (Hn & Hpos & Hu).
    cbv zeta. repeat split; try lia; auto.
Qed.

(* relative=False never yields a relative phrase *)
Theorem not_relative_is_absolute : forall i, d_relative i = false ->
  exists c, format_date i = Abs c (d_shorter i).
Proof.
  intros i Hr. destruct (format_date i) as [u n | c sh] eqn:E.
  - apply relative_result_spec in E. destruct E as (E & _). congruence.
  - exists c. unfold format_date in E. rewrite Hr in E. cbn [andb] in E.
    repeat (match type of E with context [if ?c then _ else _] => destruct c end);
      inversion E; reflexivity.
Qed.

(* ... and in relative mode, every date from just under a minute ahead back to
   just under a day ago does get one *)
Theorem relative_when_within_a_day : forall i,
  d_relative i = true -> d_full i = false ->
  - us_per_day < d_delta i < skew_seconds * us_per_s ->
  exists u n, format_date i = Rel u n.
Proof.
  intros [now delta gmt relative shorter full] Hr Hf Hd.
  cbn [d_now d_delta d_gmt d_relative d_shorter d_full] in *. subst relative full.
  rewrite us_per_day_val, us_per_s_val in Hd. unfold skew_seconds in Hd.
  unfold format_date. cbn [d_now d_delta d_gmt d_relative d_shorter d_full andb].
  rewrite us_per_day_val, us_per_s_val. unfold skew_seconds.
  destruct (now <? now + delta) eqn:Efut; [apply Z.ltb_lt in Efut | apply Z.ltb_ge in Efut].
  - assert (Esk : (now + delta - now <? 60 * 1000000) = true) by (apply Z.ltb_lt; lia).
    rewrite Esk. cbn [negb]. replace (now - now) with 0 by lia.
    change (0 / 86400000000 =? 0) with true. cbv iota.
    destruct (relative_phrase _) as [u n]. eauto.
  - cbn [negb]. replace (now - (now + delta)) with (- delta) by lia.
    assert (Ed : (- delta / 86400000000 =? 0) = true).
    { apply Z.eqb_eq. apply Z.div_small. lia. }
    rewrite Ed. destruct (relative_phrase _) as [u n]. eauto.
Qed.

(* with microsecond precision: the number is within half a unit PLUS the
   truncated sub-second part (< 1 s) of the true elapsed time *)
Theorem relative_number_realtime_bound : forall i u n, format_date i = Rel u n ->
  let elapsed_us := Z.max 0 (- d_delta i) in
  2 * Z.abs (n * unit_secs u * us_per_s - elapsed_us) <= unit_secs u * us_per_s + 2 * (us_per_s - 1).
Proof.
  intros i u n H. apply relative_result_spec in H.
  destruct H as (_ & _ & _ & _ & _ & Hn & _ & _).
  unfold elapsed_seconds in Hn. cbv zeta. rewrite us_per_s_val in *.
  set (E := Z.max 0 (- d_delta i)) in *.
  pose proof (Z.div_mod E 1000000 ltac:(lia)).
  pose proof (Z.mod_pos_bound E 1000000 ltac:(lia)).
  set (e := E / 1000000) in *. set (m := E mod 1000000) in *.
  destruct u; cbn [unit_secs] in *; lia.
Qed.
