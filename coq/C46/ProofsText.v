(* C46 — proofs about the texts of the absolute date formats, format_day,
   Locale.list and get_closest. *)
From Coq Require Import List ZArith NArith Bool Lia String.
Import ListNotations.
From TV Require Import Lib.Obs C46.Model C46.Run C46.ProofsNum C46.ProofsDate C46.ProofsCal.
Local Open Scope Z_scope.

(* ------------------------------------------------------------------ *)
(* every relative phrase ends with " ago"                              *)
(* ------------------------------------------------------------------ *)
Lemma span_digits_split : forall s a b, span_digits s = (a, b) -> s = a ++ b.
Proof.
  induction s as [|c r IH]; intros a b H; cbn [span_digits] in H.
  - inversion H; reflexivity.
  - destruct (is_digit c).
    + destruct (span_digits r) as [a' b'] eqn:E. inversion H; subst.
      cbn [app]. f_equal. apply IH. reflexivity.
    + inversion H; reflexivity.
Qed.

Lemma text_eqb_eq : forall a b, text_eqb a b = true -> a = b.
Proof. apply list_eqb_sound. intros x y H. apply N.eqb_eq. exact H. Qed.

Lemma ends_with_ago_app : forall ds K, (4 <= List.length K)%nat ->
  ends_with_ago (ds ++ K) = ends_with_ago K.
Proof.
  intros ds K HK. unfold ends_with_ago. rewrite rev_app_distr.
  rewrite <- (rev_length K) in HK.
  destruct (rev K) as [|o [|g [|a [|sp r]]]]; cbn [List.length] in HK; try lia. reflexivity.
Qed.

Lemma parse_phrase_ends_ago : forall s r, parse_phrase s = Some r -> ends_with_ago s = true.
Proof.
  intros s r. unfold parse_phrase.
  destruct (span_digits s) as [ds rest] eqn:E. apply span_digits_split in E. subst s.
  destruct (no_leading_zero ds); [|discriminate].
  destruct (dec_val ds); [|discriminate]. cbv zeta.
  repeat match goal with
         | |- context [if text_eqb ?a ?b then _ else _] =>
             let H := fresh "H" in destruct (text_eqb a b) eqn:H;
             [apply text_eqb_eq in H; rewrite H; intros _;
              rewrite ends_with_ago_app by (vm_compute; lia); vm_compute; reflexivity|]
         end.
  discriminate.
Qed.

(* ------------------------------------------------------------------ *)
(* texts whose last character is not "o"                               *)
(* ------------------------------------------------------------------ *)
Definition tail_ok (s : list N) : Prop := exists c r, rev s = c :: r /\ c <> 111%N.

Lemma tail_ok_app : forall a b, tail_ok b -> tail_ok (a ++ b).
Proof.
  intros a b (c & r & E & Hc). exists c, (r ++ rev a). rewrite rev_app_distr, E. split; [reflexivity | exact Hc].
Qed.
Lemma tail_ok_cons : forall x b, tail_ok b -> tail_ok (x :: b).
Proof. intros x b H. change (x :: b) with ([x] ++ b). apply tail_ok_app. exact H. Qed.

Lemma tail_ok_not_ago : forall s, tail_ok s -> ends_with_ago s = false.
Proof.
  intros s (c & r & E & Hc). unfold ends_with_ago. rewrite E.
  destruct r as [|g [|a [|sp r']]]; try reflexivity.
  apply N.eqb_neq in Hc. rewrite Hc. reflexivity.
Qed.

Lemma all_digits_tail_ok : forall s, s <> [] -> all_digits s -> tail_ok s.
Proof.
  intros s Hne Hall. destruct (rev s) as [|c r] eqn:E.
  - exfalso. apply Hne. rewrite <- (rev_involutive s), E. reflexivity.
  - exists c, r. split; [exact E|].
    assert (Hin : In c s) by (apply in_rev; rewrite E; left; reflexivity).
    unfold all_digits in Hall. rewrite Forall_forall in Hall.
    apply Hall, is_digit_range in Hin. lia.
Qed.

Lemma py_str_int_tail_ok : forall v, exists s, py_str_int v = Some s /\ tail_ok s.
Proof.
  intro v. destruct (py_str_int_spec v) as (ds & _ & (Hne & Hall & _ & _) & Hs).
  eexists; split; [exact Hs|].
  destruct (v <? 0); [apply tail_ok_cons|]; apply all_digits_tail_ok; assumption.
Qed.

Lemma pad2_tail_ok : forall m, exists s, pad2 m = Some s /\ tail_ok s.
Proof.
  intro m. unfold pad2. destruct (py_str_int_tail_ok m) as (s & Hs & Ht). rewrite Hs. cbn [bind].
  eexists; split; [reflexivity|]. destruct (m <? 10); [apply tail_ok_cons|]; exact Ht.
Qed.

Lemma str_time_tail_ok : forall clk h m, exists s, str_time clk h m = Some s /\ tail_ok s.
Proof.
  intros clk h m. destruct (pad2_tail_ok m) as (ms & Hm & Hmt).
  destruct clk; unfold str_time.
  - destruct (py_str_int_tail_ok (hour12 h)) as (hs & Hh & _). rewrite Hh, Hm. cbn [bind].
    eexists; split; [reflexivity|].
    apply tail_ok_app. apply tail_ok_app. apply tail_ok_app. apply tail_ok_app.
    destruct (12 <=? h); do 2 eexists; (split; [reflexivity | intro HH; discriminate HH]).
  - destruct (py_str_int_tail_ok (hour12 h)) as (hs & Hh & _). rewrite Hh, Hm. cbn [bind].
    eexists; split; [reflexivity|].
    apply tail_ok_app. apply tail_ok_app. apply tail_ok_app. exact Hmt.
  - destruct (py_str_int_tail_ok h) as (hs & Hh & _). rewrite Hh, Hm. cbn [bind].
    eexists; split; [reflexivity|].
    apply tail_ok_app. apply tail_ok_app. exact Hmt.
Qed.

Lemma weekday_name_tail_ok : forall w, In w weekdays -> tail_ok w.
Proof.
  intros w H. unfold weekdays in H. cbn [map In] in H.
  repeat (destruct H as [<- | H]; [do 2 eexists; (split; [reflexivity | intro HH; discriminate HH])|]).
  contradiction.
Qed.

Lemma index_name_some : forall l i, 0 <= i < Z.of_nat (List.length l) ->
  exists x, index_name l i = Some x /\ In x l.
Proof.
  intros l i Hi. unfold index_name.
  assert (E : (i <? 0) = false) by (apply Z.ltb_ge; lia). rewrite E.
  destruct (nth_error l (Z.to_nat i)) as [x|] eqn:En.
  - exists x. split; [reflexivity | eapply nth_error_In; exact En].
  - apply nth_error_None in En. lia.
Qed.

(* ------------------------------------------------------------------ *)
(* "fmt % {...}" on the templates actually used                        *)
(* ------------------------------------------------------------------ *)
Definition fields (mn wd d y tm : list N) : list (list N * list N) :=
  [(codes "month_name", mn); (codes "weekday", wd); (codes "day", d); (codes "year", y); (codes "time", tm)].

Definition abs_text (c : aclass) (sh : bool) (mn wd d y tm : list N) : list N :=
  match c, sh with
  | ATime, _ => tm ++ []
  | AYesterday, true => codes "yesterday"
  | AYesterday, false => codes "yesterday at " ++ tm ++ []
  | AWeekday, true => wd ++ []
  | AWeekday, false => wd ++ codes " at " ++ tm ++ []
  | AMonthDay, true => mn ++ codes " " ++ d ++ []
  | AMonthDay, false => mn ++ codes " " ++ d ++ codes " at " ++ tm ++ []
  | AFull, true => mn ++ codes " " ++ d ++ codes ", " ++ y ++ []
  | AFull, false => mn ++ codes " " ++ d ++ codes ", " ++ y ++ codes " at " ++ tm ++ []
  end.

Lemma format_template : forall c sh mn wd d y tm,
  py_format (template c sh) (fields mn wd d y tm) = Some (abs_text c sh mn wd d y tm).
Proof. intros c sh mn wd d y tm. destruct c, sh; vm_compute; reflexivity. Qed.

Lemma abs_text_tail_ok : forall c sh mn wd d y tm,
  tail_ok wd -> tail_ok d -> tail_ok y -> tail_ok tm -> tail_ok (abs_text c sh mn wd d y tm).
Proof.
  intros c sh mn wd d y tm Hwd Hd Hy Htm.
  destruct c, sh; unfold abs_text; rewrite ?app_nil_r;
    repeat (first [assumption | apply tail_ok_app]).
  all: do 2 eexists; (split; [reflexivity | intro HH; discriminate HH]).
Qed.

Definition day_text (dow : bool) (mn wd d : list N) : list N :=
  if dow then wd ++ codes ", " ++ mn ++ codes " " ++ d ++ [] else mn ++ codes " " ++ d ++ [].

Lemma format_day_template : forall dow mn wd d y tm,
  py_format (day_template dow) (fields mn wd d y tm) = Some (day_text dow mn wd d).
Proof. intros dow mn wd d y tm. destruct dow; vm_compute; reflexivity. Qed.

(* the fields of any instant exist and are what the calendar lemmas describe *)
Lemma date_env_some : forall clk t,
  let dn := t / us_per_day in
  let tod := t mod us_per_day in
  exists mn wd d yr tm,
    date_env clk t = Some (fields mn wd d yr tm) /\
    index_name months (snd (fst (civil_from_days dn)) - 1) = Some mn /\ In mn months /\
    index_name weekdays (weekday_of_days dn) = Some wd /\ In wd weekdays /\
    py_str_int (snd (civil_from_days dn)) = Some d /\
    py_str_int (fst (fst (civil_from_days dn))) = Some yr /\
    str_time clk (tod / (3600 * us_per_s)) ((tod / (60 * us_per_s)) mod 60) = Some tm /\
    tail_ok wd /\ tail_ok d /\ tail_ok yr /\ tail_ok tm.
Proof.
  intros clk t dn tod. unfold date_env. fold dn tod.
  pose proof (civil_bounds dn) as Hb.
  destruct (civil_from_days dn) as [[y m] d] eqn:Ec. cbn [fst snd].
  destruct (index_name_some months (m - 1)) as (mn & Hmn & Hmin); [cbn; lia|].
  pose proof (weekday_range dn) as Hw.
  destruct (index_name_some weekdays (weekday_of_days dn)) as (wd & Hwd & Hwin); [cbn; lia|].
  destruct (py_str_int_tail_ok d) as (ds & Hds & Hdt).
  destruct (py_str_int_tail_ok y) as (ys & Hys & Hyt).
  destruct (str_time_tail_ok clk (tod / (3600 * us_per_s)) ((tod / (60 * us_per_s)) mod 60)) as (tm & Htm & Htt).
  exists mn, wd, ds, ys, tm. rewrite Hmn, Hwd, Hds, Hys, Htm. cbn [bind].
  repeat split; auto. apply weekday_name_tail_ok; exact Hwin.
Qed.

(* ------------------------------------------------------------------ *)
(* format_date text                                                    *)
(* ------------------------------------------------------------------ *)
Theorem absolute_text_spec : forall clk i c sh, format_date i = Abs c sh ->
  exists s, date_text clk i = Some s /\ tail_ok s /\ ends_with_ago s = false /\ parse_phrase s = None.
Proof.
  intros clk i c sh H. unfold date_text. rewrite H.
  destruct (date_env_some clk (local_date i)) as (mn & wd & d & yr & tm & He & _ & _ & _ & _ & _ & _ & _ & Hwd & Hd & Hy & Ht).
  rewrite He. cbn [bind]. rewrite format_template.
  eexists; split; [reflexivity|].
  pose proof (abs_text_tail_ok c sh mn wd d yr tm Hwd Hd Hy Ht) as Htail.
  split; [exact Htail|]. pose proof (tail_ok_not_ago _ Htail) as Hna. split; [exact Hna|].
  destruct (parse_phrase _) eqn:Ep; [|reflexivity].
  apply parse_phrase_ends_ago in Ep. congruence.
Qed.

Theorem date_text_total : forall clk i, exists s, date_text clk i = Some s.
Proof.
  intros clk i. destruct (format_date i) as [u n | c sh] eqn:E.
  - unfold date_text. rewrite E.
    destruct (relative_result_spec i u n E) as (_ & _ & _ & _ & _ & _ & Hn & _).
    destruct (render_rel u n) eqn:Er; [eauto|].
    exfalso. unfold render_rel in Er. destruct (n =? 1); [discriminate|].
    destruct (py_str_int_tail_ok n) as (s & Hs & _). rewrite Hs in Er. discriminate.
  - destruct (absolute_text_spec clk i c sh E) as (s & Hs & _). eauto.
Qed.

(* ------------------------------------------------------------------ *)
(* format_day                                                          *)
(* ------------------------------------------------------------------ *)
Theorem format_day_spec : forall date gmt dow,
  let dn := (date - gmt * 60 * us_per_s) / us_per_day in
  exists mn wd d,
    format_day date gmt dow = Some (day_text dow mn wd d) /\
    index_name months (snd (fst (civil_from_days dn)) - 1) = Some mn /\
    index_name weekdays (weekday_of_days dn) = Some wd /\
    py_str_int (snd (civil_from_days dn)) = Some d.
Proof.
  intros date gmt dow dn. unfold format_day.
  destruct (date_env_some C12 (date - gmt * 60 * us_per_s)) as (mn & wd & d & yr & tm & He & Hmn & _ & Hwd & _ & Hd & _).
  rewrite He. cbn [bind]. rewrite format_day_template. exists mn, wd, d. auto.
Qed.

(* ------------------------------------------------------------------ *)
(* Locale.list                                                         *)
(* ------------------------------------------------------------------ *)
Lemma list_format : forall cm lst,
  py_format list_template [(codes "commas", cm); (codes "last", lst)] = Some (cm ++ codes " and " ++ lst ++ []).
Proof. intros. vm_compute. reflexivity. Qed.

Theorem locale_list_spec : forall fa parts,
  locale_list fa parts =
  Some match parts with
       | [] => []
       | [p] => p
       | _ => join (list_comma fa) (removelast parts) ++ codes " and " ++ last parts []
       end.
Proof.
  intros fa [|a [|b r]]; [reflexivity | reflexivity |].
  unfold locale_list. rewrite list_format, app_nil_r. reflexivity.
Qed.

(* ------------------------------------------------------------------ *)
(* get_closest                                                         *)
(* ------------------------------------------------------------------ *)
Lemma text_eq_refl : forall s, text_eq s s = true.
Proof. induction s as [|c s IH]; [reflexivity|]. cbn [text_eq]. rewrite N.eqb_refl, IH. reflexivity. Qed.

Lemma text_eq_eq : forall a b, text_eq a b = true -> a = b.
Proof.
  induction a as [|x a IH]; intros [|y b] H; cbn [text_eq] in H; try discriminate; [reflexivity|].
  apply andb_true_iff in H as [H1 H2]. apply N.eqb_eq in H1. subst. f_equal. auto.
Qed.

(* the locale handed to Locale.get() is a supported one or the default *)
Theorem get_closest_supported : forall sup cs,
  mem_text (get_closest sup cs) sup = true \/ get_closest sup cs = default_locale.
Proof.
  intros sup. induction cs as [|code rest IH]; [right; reflexivity|].
  cbn [get_closest]. destruct code as [|c0 code']; [exact IH|].
  destruct (split_us (c0 :: code')) as [|p0 [|p1 [|p2 ps]]]; try exact IH.
  - set (code1 := map (fun c : N => if (c =? 45)%N then 95%N else c) (c0 :: code')).
    destruct (mem_text code1 sup) eqn:E1; [left; exact E1|].
    destruct (mem_text (map ascii_lower p0) sup) eqn:E2; [left; exact E2 | exact IH].
  - cbv zeta. set (code2 := map ascii_lower p0 ++ [95%N] ++ map ascii_upper p1).
    destruct (mem_text code2 sup) eqn:E1; [left; exact E1|].
    destruct (mem_text (map ascii_lower p0) sup) eqn:E2; [left; exact E2 | exact IH].
Qed.

Theorem get_closest_skips_empty : forall sup rest, get_closest sup ([] :: rest) = get_closest sup rest.
Proof. reflexivity. Qed.

(* a request whose normalised form "ll_CC" is supported wins over everything after it *)
Theorem get_closest_first_match : forall sup code rest p0 p1,
  code <> [] -> split_us code = [p0; p1] ->
  mem_text (map ascii_lower p0 ++ [95%N] ++ map ascii_upper p1) sup = true ->
  get_closest sup (code :: rest) = map ascii_lower p0 ++ [95%N] ++ map ascii_upper p1.
Proof.
  intros sup code rest p0 p1 Hne Hs Hm. destruct code as [|c0 code']; [contradiction|].
  cbn [get_closest]. rewrite Hs, Hm. reflexivity.
Qed.
