(* C46 — the rendered phrase reads back, and the model satisfies the checker. *)
From Coq Require Import List ZArith NArith Bool Lia String.
Import ListNotations.
From TV Require Import Lib.Obs C46.Model C46.Run C46.ProofsNum C46.ProofsDate C46.ProofsCal C46.ProofsText.
Local Open Scope Z_scope.

Lemma span_digits_app : forall s c rest, all_digits s -> is_digit c = false ->
  span_digits (s ++ c :: rest) = (s, c :: rest).
Proof.
  induction s as [|x s IH]; intros c rest Hall Hc.
  - cbn [app span_digits]. rewrite Hc. reflexivity.
  - inversion Hall as [|? ? Hx Hs]; subst. cbn [app span_digits]. rewrite Hx, IH by assumption. reflexivity.
Qed.

Lemma plural_suffix_cons : forall u, plural_suffix u = 32%N :: tl (plural_suffix u).
Proof. destruct u; reflexivity. Qed.

Lemma parse_phrase_plural : forall n s u, good_digits n s ->
  parse_phrase (s ++ plural_suffix u) = Some (u, Z.of_N n, true).
Proof.
  intros n s u (Hne & Hall & Hval & Hnlz). unfold parse_phrase.
  rewrite plural_suffix_cons, span_digits_app by (auto; reflexivity).
  rewrite <- plural_suffix_cons, Hnlz, Hval.
  destruct u; reflexivity.
Qed.

Lemma parse_phrase_singular : forall u, parse_phrase (singular_msg u) = Some (u, 1, false).
Proof. destruct u; reflexivity. Qed.

(* the text produced for (u, n), n >= 0, reads back as (u, n) with the
   plural form exactly when n <> 1 *)
Theorem render_rel_reads_back : forall u n, 0 <= n ->
  exists s, render_rel u n = Some s /\ parse_phrase s = Some (u, n, negb (n =? 1)).
Proof.
  intros u n Hn. unfold render_rel. destruct (n =? 1) eqn:E.
  - apply Z.eqb_eq in E. subst n. eexists; split; [reflexivity | apply parse_phrase_singular].
  - destruct (py_str_int_spec n) as (ds & _ & Hg & Hs).
    assert (Hlt : (n <? 0) = false) by (apply Z.ltb_ge; lia).
    rewrite Hlt in Hs. rewrite Hs. cbn [bind negb].
    eexists; split; [reflexivity|].
    rewrite (parse_phrase_plural _ _ u Hg). repeat f_equal. lia.
Qed.

Theorem check_case_on_model : forall c, check_case c (run_case c) = true.
Proof.
  intros [en v | clk now delta gmt relative shorter full | date gmt dow | fa parts | sup cs];
    cbn [check_case run_case].
  - destruct en.
    + destruct (friendly_number_reads_back v) as (s & Hs & Hp).
      rewrite Hs. cbn [out_text check_num]. rewrite Hp. apply Z.eqb_refl.
    + destruct (friendly_number_plain v) as (s & Hs & _ & Hp).
      rewrite Hs. cbn [out_text check_num]. rewrite Hp. apply Z.eqb_refl.
  - set (i := mk_dinput now delta gmt relative shorter full).
    destruct (format_date i) as [u n | c sh] eqn:E.
    + unfold date_text. rewrite E.
      apply relative_result_spec in E.
      destruct E as (_ & _ & Hd & _ & _ & Hnear & Hpos & _).
      change (d_delta i) with delta in *.
      destruct (render_rel_reads_back u n Hpos) as (s & Hs & Hp).
      rewrite Hs. cbn [out_text check_date]. rewrite Hp.
      rewrite !andb_true_iff. repeat split.
      * apply Z.leb_le. unfold skew_seconds in Hd. lia.
      * apply Z.leb_le. exact Hnear.
      * apply eqb_reflx.
    + destruct (absolute_text_spec clk i c sh E) as (s & Hs & _ & Hna & Hp).
      rewrite Hs. cbn [out_text check_date]. rewrite Hp, Hna. reflexivity.
  - destruct (format_day_spec date gmt dow) as (mn & wd & d & Hs & _). rewrite Hs. reflexivity.
  - rewrite locale_list_spec. reflexivity.
  - destruct (get_closest_supported sup cs) as [H | H].
    + rewrite H. reflexivity.
    + rewrite H, text_eq_refl. apply orb_true_r.
Qed.
