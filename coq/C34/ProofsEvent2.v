(* C34 — Event: theorems derived from the invariant. *)
From Coq Require Import List ZArith Arith Bool Lia.
Import ListNotations.
From TV Require Import C33.Model C33.ListFacts C33.Proofs2 C33.Proofs3 C34.Model C34.ProofsEvent.

Definition efinal (s : estate) (tr : list (eevent * estate)) : estate := last (map snd tr) s.
Definition ereachable (s : estate) : Prop := exists ops, s = efinal event_init (erun event_init ops).

Lemma ereachable_inv s : ereachable s -> einv s.
Proof.
  intros (ops & ->). unfold efinal. apply (last_forall einv); [|apply einv_init].
  apply Forall_map. apply erun_inv. apply einv_init.
Qed.

(* ---------- static consequences of the invariant ---------- *)
Lemma no_lost_wakeup s w x :
  einv s -> e_value s = true -> nth_error (e_waits s) w = Some x ->
  w_inner x <> IPending /\ (w_outer x = None -> returned x <> RPending).
Proof.
  intros [I _] V E. destruct (I w x E) as (_ & _ & _ & _ & _ & A6 & _). specialize (A6 V).
  unfold ipend in A6. split; [destruct (w_inner x); congruence|].
  intros O. unfold returned. rewrite O. destruct (w_inner x); congruence.
Qed.

Lemma quiescent_no_residue s w x :
  einv s -> e_ready s = [] -> nth_error (e_waits s) w = Some x ->
  (w_inset x = true \/ w_armed x = true <-> w_inset x = true) /\
  (w_inset x = true <-> w_inner x = IPending) /\
  (w_inner x = IPending <-> returned x = RPending).
Proof.
  intros [I _] Q E. destruct (I w x E) as (A1 & A2 & A3 & A4 & A5 & A6 & A7). rewrite Q in *.
  assert (P1 : w_inset x = true -> ipend x = true).
  { intros H. destruct (ipend x) eqn:P; auto. destruct (A2 eq_refl H). }
  assert (P2 : ipend x = true <-> w_inner x = IPending) by (unfold ipend; destruct (w_inner x); split; congruence).
  split; [split; [intros [H|H]; auto|auto]|]. split; [split; intros H; [apply P2; auto|apply A1; apply P2; auto]|].
  unfold returned. split.
  - intros H. destruct (w_outer x) as [[]|] eqn:O; auto; try (rewrite H; auto);
      exfalso; (assert (D : odone x = true) by (unfold odone; rewrite O; reflexivity));
      apply P2 in H; destruct (A4 D H).
  - intros H. destruct (w_outer x) as [[]|] eqn:O; try discriminate.
    + destruct (ipend x) eqn:P; [apply P2; auto|].
      assert (Op : opend x = true) by (unfold opend; rewrite O; reflexivity).
      specialize (A3 Op eq_refl). specialize (P1 A3). congruence.
    + destruct (w_inner x); auto; discriminate.
Qed.

(* ---------- facts preserved by every queued callback ---------- *)
Definition settled (x : ewait) : Prop := ipend x = false /\ opend x = false.

Lemma run_cb_mono c ws k y :
  nth_error ws k = Some y ->
  exists y', nth_error (fst (run_cb c ws)) k = Some y'
    /\ (ipend y = false -> ipend y' = false) /\ (opend y = false -> opend y' = false)
    /\ (odone y = true -> odone y' = true)
    /\ (ipend y = false -> returned y <> RPending -> returned y' = returned y)
    /\ (w_outer y = None -> w_outer y' = None)
    /\ (ipend y = false -> w_inner y' = w_inner y)
    /\ (opend y = false -> w_outer y' = w_outer y).
Proof.
  intros E.
  assert (SAME : exists y', nth_error ws k = Some y' /\ (ipend y = false -> ipend y' = false) /\ (opend y = false -> opend y' = false)
    /\ (odone y = true -> odone y' = true) /\ (ipend y = false -> returned y <> RPending -> returned y' = returned y)
    /\ (w_outer y = None -> w_outer y' = None) /\ (ipend y = false -> w_inner y' = w_inner y) /\ (opend y = false -> w_outer y' = w_outer y))
    by (exists y; repeat split; auto).
  destruct c as [w|w]; simpl; destruct (nth_error ws w) as [x|] eqn:Ew; auto.
  - assert (Hlt : (w < List.length ws)%nat) by (eapply nth_error_some_lt; eauto).
    destruct (Nat.eq_dec w k) as [->|Hne].
    + rewrite E in Ew. inversion Ew; subst x.
      destruct (w_outer y) as [[]|] eqn:O; simpl; rewrite nth_error_set_eq by auto; eexists; (split; [reflexivity|]);
        unfold ipend, opend, odone, returned; simpl; rewrite ?O; repeat split; intros; try discriminate; try congruence; auto;
        destruct (w_inner y); simpl in *; try discriminate; try congruence; auto.
    + destruct (w_outer x) as [[]|]; simpl; rewrite nth_error_set_neq by auto; auto.
  - assert (Hlt : (w < List.length ws)%nat) by (eapply nth_error_some_lt; eauto).
    destruct (w_inner x) eqn:In; simpl; auto.
    destruct (Nat.eq_dec w k) as [->|Hne].
    + rewrite E in Ew. inversion Ew; subst x.
      rewrite nth_error_set_eq by auto. eexists. split; [reflexivity|].
      unfold ipend, opend, odone, returned; simpl; rewrite ?In. repeat split; intros; try discriminate; auto.
    + rewrite nth_error_set_neq by auto; auto.
Qed.

Lemma run_cbs_mono : forall cbs ws k y,
  nth_error ws k = Some y ->
  exists y', nth_error (fst (run_cbs cbs ws)) k = Some y'
    /\ (ipend y = false -> ipend y' = false) /\ (opend y = false -> opend y' = false)
    /\ (odone y = true -> odone y' = true)
    /\ (ipend y = false -> returned y <> RPending -> returned y' = returned y)
    /\ (w_outer y = None -> w_outer y' = None)
    /\ (ipend y = false -> w_inner y' = w_inner y)
    /\ (opend y = false -> w_outer y' = w_outer y).
Proof.
  induction cbs as [|c cbs IH]; intros ws k y E; simpl.
  - exists y. repeat split; auto.
  - destruct (run_cb_mono c ws k y E) as (y1 & E1 & M1 & M2 & M3 & M4 & M5 & M6 & M7).
    destruct (run_cb c ws) as [ws1 new1]. simpl in E1.
    destruct (IH ws1 k y1 E1) as (y2 & E2 & N1 & N2 & N3 & N4 & N5 & N6 & N7).
    destruct (run_cbs cbs ws1) as [ws2 new2]. simpl in *.
    exists y2. split; auto. repeat split; auto.
    + intros P R. rewrite N4; auto. rewrite M4; auto.
    + intros P. rewrite N6; auto.
    + intros P. rewrite N7; auto.
Qed.

(* ---------- two loop iterations reach quiescence ---------- *)
Definition cb_id (c : cb) : nat := match c with CbInner w | CbOuter w => w end.
Definition on_settled (ws : list ewait) (c : cb) : Prop :=
  exists x, nth_error ws (cb_id c) = Some x /\ settled x.

Lemma run_cb_news c ws : cb_ok ws c -> Forall (on_settled (fst (run_cb c ws))) (snd (run_cb c ws)).
Proof.
  destruct c as [w|w]; simpl; intros (x & E & P); rewrite E;
    assert (Hlt : (w < List.length ws)%nat) by (eapply nth_error_some_lt; eauto).
  - destruct (w_outer x) as [[]|] eqn:O; simpl; try constructor; [|constructor].
    eexists. simpl. split; [apply nth_error_set_eq; auto|]. unfold settled, ipend, opend in *. simpl.
    split; auto. destruct (w_inner x); reflexivity.
  - unfold odone in P. destruct (w_inner x) eqn:In; simpl; try constructor; [|constructor].
    eexists. simpl. split; [apply nth_error_set_eq; auto|]. unfold settled, ipend, opend in *. simpl.
    split; auto. destruct (w_outer x) as [[]|]; auto; discriminate.
Qed.

Lemma on_settled_keep cbs ws c : on_settled ws c -> on_settled (fst (run_cbs cbs ws)) c.
Proof.
  intros (x & E & S1 & S2). destruct (run_cbs_mono cbs ws _ x E) as (y & Ey & M1 & M2 & _).
  exists y. split; auto. split; auto.
Qed.

Lemma cb_ok_keep c ws c' : cb_ok ws c' -> cb_ok (fst (run_cb c ws)) c'.
Proof.
  destruct c' as [k|k]; simpl; intros (x & E & P);
    destruct (run_cb_mono c ws k x E) as (y & Ey & M1 & M2 & M3 & _); exists y; auto.
Qed.

Lemma run_cbs_news : forall cbs ws,
  Forall (cb_ok ws) cbs -> Forall (on_settled (fst (run_cbs cbs ws))) (snd (run_cbs cbs ws)).
Proof.
  induction cbs as [|c cbs IH]; intros ws F; simpl; [constructor|].
  inversion F; subst.
  pose proof (run_cb_news c ws H1) as N1.
  assert (F' : Forall (cb_ok (fst (run_cb c ws))) cbs).
  { eapply Forall_impl; [|exact H2]. intros; apply cb_ok_keep; auto. }
  destruct (run_cb c ws) as [ws1 new1]. simpl in *.
  specialize (IH ws1 F'). pose proof (fun c => on_settled_keep cbs ws1 c) as K.
  destruct (run_cbs cbs ws1) as [ws2 new2]. simpl in *.
  apply Forall_app. split; auto. eapply Forall_impl; [|exact N1]. intros; apply K; auto.
Qed.

Lemma settled_no_news : forall cbs ws, Forall (on_settled ws) cbs -> snd (run_cbs cbs ws) = [].
Proof.
  induction cbs as [|c cbs IH]; intros ws F; simpl; auto. inversion F; subst.
  assert (N : snd (run_cb c ws) = []).
  { destruct H1 as (x & E & S1 & S2). unfold ipend, opend in *.
    destruct c as [w|w]; simpl in *; rewrite E.
    - destruct (w_outer x) as [[]|]; auto; discriminate.
    - destruct (w_inner x); auto; discriminate. }
  assert (F' : Forall (on_settled (fst (run_cb c ws))) cbs).
  { eapply Forall_impl; [|exact H2]. intros c' (x & E & S1 & S2).
    destruct (run_cb_mono c ws _ x E) as (y & Ey & M1 & M2 & _). exists y. split; auto. split; auto. }
  destruct (run_cb c ws) as [ws1 new1]. simpl in *. subst.
  specialize (IH ws1 F'). destruct (run_cbs cbs ws1) as [ws2 new2]. simpl in *. auto.
Qed.

Lemma two_drains_quiesce s : einv s -> e_ready (e_drain (e_drain s)) = [].
Proof.
  intros [_ I2]. unfold e_drain at 2.
  pose proof (run_cbs_news (e_ready s) (e_waits s) I2) as N.
  destruct (run_cbs (e_ready s) (e_waits s)) as [ws1 new1]. simpl in N.
  unfold e_drain. simpl. pose proof (settled_no_news new1 ws1 N) as Z.
  destruct (run_cbs new1 ws1). simpl in *. auto.
Qed.

(* ---------- progress: what set / one iteration / the timer do to a pending wait ---------- *)
Lemma set_resolves_inner s w x :
  einv s -> e_value s = false -> nth_error (e_waits s) w = Some x -> w_inner x = IPending ->
  nth_error (e_waits (e_set s)) w = Some (mkWait IDone (w_outer x) (w_armed x) (w_inset x))
  /\ e_value (e_set s) = true.
Proof.
  intros [I _] V E P. destruct (I w x E) as (A1 & _).
  unfold e_set. rewrite V. destruct (set_waiters 0 (e_waits s)) as [r cbs] eqn:S.
  destruct (set_waiters_spec _ _ _ _ S) as (-> & _). simpl. split; auto.
  rewrite nth_error_map, E. simpl. unfold resolve.
  assert (Q : ipend x = true) by (unfold ipend; rewrite P; reflexivity).
  rewrite (A1 Q), Q. reflexivity.
Qed.

Lemma set_completes_untimed s w x :
  einv s -> e_value s = false -> nth_error (e_waits s) w = Some x ->
  w_outer x = None -> returned x = RPending ->
  exists x', nth_error (e_waits (e_set s)) w = Some x' /\ returned x' = ROk.
Proof.
  intros I V E O R. unfold returned in R. rewrite O in R.
  destruct (w_inner x) eqn:P; try discriminate.
  destruct (set_resolves_inner s w x I V E P) as [E' _]. eexists. split; [exact E'|].
  unfold returned. simpl. rewrite O. reflexivity.
Qed.

Definition set_seen (y : ewait) : Prop :=
  w_inner y = IDone /\ (w_outer y = Some OPending \/ w_outer y = Some OOk).

Lemma run_cb_set_seen c ws w y :
  nth_error ws w = Some y -> set_seen y ->
  exists y', nth_error (fst (run_cb c ws)) w = Some y' /\ set_seen y' /\
             (c = CbInner w -> w_outer y' = Some OOk) /\ (w_outer y = Some OOk -> w_outer y' = Some OOk).
Proof.
  intros E [S1 S2].
  assert (SAME : c <> CbInner w -> exists y', nth_error ws w = Some y' /\ set_seen y' /\
             (c = CbInner w -> w_outer y' = Some OOk) /\ (w_outer y = Some OOk -> w_outer y' = Some OOk)).
  { intros H. exists y. repeat split; auto. intros; congruence. }
  assert (Hlt : (w < List.length ws)%nat) by (eapply nth_error_some_lt; eauto).
  destruct c as [k|k]; simpl.
  - destruct (Nat.eq_dec k w) as [->|Hne].
    + rewrite E. destruct S2 as [S2|S2]; rewrite S2; simpl; rewrite nth_error_set_eq by auto;
        eexists; (split; [reflexivity|]); unfold set_seen; simpl; rewrite S1; repeat split; auto.
    + destruct (nth_error ws k) as [x|] eqn:Ek; [|apply SAME; congruence].
      destruct (w_outer x) as [[]|]; simpl; rewrite nth_error_set_neq by auto;
        exists y; repeat split; auto; intros; congruence.
  - destruct (nth_error ws k) as [x|] eqn:Ek; [|apply SAME; discriminate].
    destruct (w_inner x) eqn:In; simpl; try (apply SAME; discriminate).
    destruct (Nat.eq_dec k w) as [->|Hne]; [rewrite E in Ek; inversion Ek; subst; congruence|].
    rewrite nth_error_set_neq by auto. exists y. repeat split; auto. intros; discriminate.
Qed.

Lemma run_cbs_set_seen : forall cbs ws w y,
  nth_error ws w = Some y -> set_seen y ->
  exists y', nth_error (fst (run_cbs cbs ws)) w = Some y' /\ set_seen y' /\
             (In (CbInner w) cbs -> w_outer y' = Some OOk) /\ (w_outer y = Some OOk -> w_outer y' = Some OOk).
Proof.
  induction cbs as [|c cbs IH]; intros ws w y E S; simpl.
  - exists y. split; auto. split; auto. split; [intros []|auto].
  - destruct (run_cb_set_seen c ws w y E S) as (y1 & E1 & S1 & K1 & K2).
    destruct (run_cb c ws) as [ws1 new1]. simpl in E1.
    destruct (IH ws1 w y1 E1 S1) as (y2 & E2 & S2 & L1 & L2).
    destruct (run_cbs cbs ws1) as [ws2 new2]. simpl in *.
    exists y2. split; auto. split; auto. split; [intros [->|H]; auto|auto].
Qed.

(* a timed wait whose inner future was resolved by set() completes at the next loop iteration *)
Lemma drain_completes_timed s w x :
  einv s -> nth_error (e_waits s) w = Some x -> w_inner x = IDone -> w_outer x = Some OPending ->
  exists x', nth_error (e_waits (e_drain s)) w = Some x' /\ returned x' = ROk.
Proof.
  intros [I _] E P O. destruct (I w x E) as (_ & A2 & A3 & _).
  assert (In (CbInner w) (e_ready s)).
  { apply A2; [unfold ipend; rewrite P; auto|]. apply A3; [unfold opend; rewrite O; auto|unfold ipend; rewrite P; auto]. }
  destruct (run_cbs_set_seen (e_ready s) (e_waits s) w x E (conj P (or_introl O))) as (y & Ey & _ & K & _).
  unfold e_drain. destruct (run_cbs (e_ready s) (e_waits s)) as [ws1 new1]. simpl in *.
  exists y. split; auto. unfold returned. rewrite (K H). reflexivity.
Qed.

(* the timer of a pending timed wait is armed, and when it runs the awaitable gets TimeoutError *)
Lemma fire_times_out s w x :
  einv s -> nth_error (e_waits s) w = Some x -> w_outer x = Some OPending ->
  w_armed x = true /\ snd (e_fire w s) = VTimedOut w /\
  exists x', nth_error (e_waits (fst (e_fire w s))) w = Some x' /\ returned x' = RTimeout.
Proof.
  intros [I _] E O. destruct (I w x E) as (_ & _ & _ & _ & _ & _ & A7).
  assert (Ar : w_armed x = true) by (apply A7; unfold opend; rewrite O; auto).
  split; auto. unfold e_fire. rewrite E, Ar, O. simpl. split; auto.
  eexists. split; [apply nth_error_set_eq; eapply nth_error_some_lt; eauto|]. reflexivity.
Qed.

(* a TimeoutError only ever comes from the timer *)
Lemma timeout_only_from_timer s o w x :
  nth_error (e_waits s) w = Some x -> returned x <> RTimeout ->
  forall x', nth_error (e_waits (fst (estep s o))) w = Some x' -> returned x' = RTimeout -> o = EFire w.
Proof.
  intros E R x' E' R'. destruct o as [t| | |k|k|]; simpl in E'.
  - unfold e_wait in E'. destruct (e_value s); simpl in E'; rewrite nth_error_app1 in E' by (eapply nth_error_some_lt; eauto); congruence.
  - unfold e_set in E'. destruct (e_value s); [simpl in *; congruence|].
    destruct (set_waiters 0 (e_waits s)) as [r cbs] eqn:S. destruct (set_waiters_spec _ _ _ _ S) as (-> & _).
    simpl in E'. rewrite nth_error_map, E in E'. inversion E'; subst. unfold resolve in R'.
    destruct (w_inset x && ipend x); [|simpl in *; congruence]. unfold returned in *. simpl in *.
    destruct (w_outer x) as [[]|]; try discriminate; congruence.
  - congruence.
  - destruct (Nat.eq_dec k w) as [->|Hne]; auto.
    unfold e_fire in E'. destruct (nth_error (e_waits s) k) as [y|] eqn:Ek; [|simpl in *; congruence].
    destruct (w_armed y); [|simpl in *; congruence]. destruct (w_outer y) as [[]|]; simpl in E';
      rewrite nth_error_set_neq in E' by auto; congruence.
  - unfold e_cancel in E'. destruct (nth_error (e_waits s) k) as [y|] eqn:Ek; [|simpl in *; congruence].
    destruct (Nat.eq_dec k w) as [->|Hne].
    + rewrite E in Ek. inversion Ek; subst y.
      destruct (w_outer x) as [[]|] eqn:O; simpl in E'; try congruence.
      * rewrite nth_error_set_eq in E' by (eapply nth_error_some_lt; eauto). inversion E'; subst. discriminate.
      * destruct (w_inner x) eqn:In; simpl in E'; try congruence.
        rewrite nth_error_set_eq in E' by (eapply nth_error_some_lt; eauto). inversion E'; subst. discriminate.
    + destruct (w_outer y) as [[]|]; simpl in E'; try congruence; try (rewrite nth_error_set_neq in E' by auto; congruence).
      destruct (w_inner y); simpl in E'; try congruence. rewrite nth_error_set_neq in E' by auto; congruence.
  - exfalso. unfold e_drain in E'.
    assert (G : forall cbs ws y, nth_error ws w = Some y -> returned y <> RTimeout ->
              forall y', nth_error (fst (run_cbs cbs ws)) w = Some y' -> returned y' <> RTimeout).
    { clear. induction cbs as [|c cbs IH]; intros ws y E R y' E'; simpl in E'; [simpl in *; congruence|].
      assert (G1 : exists y1, nth_error (fst (run_cb c ws)) w = Some y1 /\ returned y1 <> RTimeout).
      { destruct c as [k|k]; simpl; destruct (nth_error ws k) as [z|] eqn:Ek; eauto.
        - destruct (Nat.eq_dec k w) as [->|Hne].
          + rewrite E in Ek. inversion Ek; subst z. assert (Hlt : (w < List.length ws)%nat) by (eapply nth_error_some_lt; eauto).
            unfold returned in R. destruct (w_outer y) as [[]|] eqn:O; simpl; rewrite nth_error_set_eq by auto; eexists; (split; [reflexivity|]);
              unfold returned; simpl; rewrite ?O; try congruence; destruct (w_inner y); simpl; congruence.
          + destruct (w_outer z) as [[]|]; simpl; rewrite nth_error_set_neq by auto; eauto.
        - destruct (w_inner z) eqn:In; simpl; eauto. destruct (Nat.eq_dec k w) as [->|Hne].
          + rewrite E in Ek. inversion Ek; subst z. assert (Hlt : (w < List.length ws)%nat) by (eapply nth_error_some_lt; eauto).
            rewrite nth_error_set_eq by auto. eexists. split; [reflexivity|].
            unfold returned in *. simpl. destruct (w_outer y) as [[]|]; congruence.
          + rewrite nth_error_set_neq by auto; eauto. }
      destruct G1 as (y1 & E1 & R1). destruct (run_cb c ws) as [ws1 new1]. simpl in *.
      specialize (IH ws1 y1 E1 R1). destruct (run_cbs cbs ws1) as [ws2 new2]. simpl in *. eapply IH; eauto. }
    destruct (run_cbs (e_ready s) (e_waits s)) as [ws1 new1] eqn:Rn. simpl in E'.
    eapply (G (e_ready s) (e_waits s) x E R x'); [rewrite Rn; exact E'|exact R'].
Qed.

(* ---------- "only if": no completion without the event being set ---------- *)
Definition not_completed (y : ewait) : Prop := w_inner y <> IDone /\ w_outer y <> Some OOk.

Lemma not_completed_step s o w x :
  einv s -> nth_error (e_waits s) w = Some x -> not_completed x ->
  e_value (fst (estep s o)) = false ->
  exists x', nth_error (e_waits (fst (estep s o))) w = Some x' /\ not_completed x'.
Proof.
  intros I E [N1 N2] V.
  assert (Hlt : (w < List.length (e_waits s))%nat) by (eapply nth_error_some_lt; eauto).
  destruct o as [t| | |k|k|]; simpl in *.
  - exists x. split; [|split; auto]. unfold e_wait. destruct (e_value s); simpl; rewrite nth_error_app1 by auto; auto.
  - unfold e_set in *. destruct (e_value s) eqn:V0; [exists x; split; [auto|split; auto]|].
    destruct (set_waiters 0 (e_waits s)); simpl in V. discriminate.
  - exists x. split; [auto|split; auto].
  - unfold e_fire. destruct (nth_error (e_waits s) k) as [y|] eqn:Ek; [|exists x; split; [auto|split; auto]].
    destruct (w_armed y); [|exists x; split; [auto|split; auto]].
    destruct (Nat.eq_dec k w) as [->|Hne].
    + rewrite E in Ek. inversion Ek; subst y.
      destruct (w_outer x) as [[]|] eqn:O; simpl; rewrite nth_error_set_eq by auto; eexists; (split; [reflexivity|]);
        split; simpl; auto; congruence.
    + destruct (w_outer y) as [[]|]; simpl; rewrite nth_error_set_neq by auto; exists x; split; auto; split; auto.
  - unfold e_cancel. destruct (nth_error (e_waits s) k) as [y|] eqn:Ek; [|exists x; split; [auto|split; auto]].
    destruct (Nat.eq_dec k w) as [->|Hne].
    + rewrite E in Ek. inversion Ek; subst y.
      destruct (w_outer x) as [[]|] eqn:O; simpl; try solve [exists x; split; [auto|split; auto; congruence]].
      * rewrite nth_error_set_eq by auto. eexists. split; [reflexivity|]. split; simpl; auto; congruence.
      * destruct (w_inner x) eqn:In; simpl; try solve [exists x; split; [auto|split; auto; congruence]].
        rewrite nth_error_set_eq by auto. eexists. split; [reflexivity|]. split; simpl; congruence.
    + destruct (w_outer y) as [[]|]; simpl; try solve [exists x; split; [auto|split; auto]];
        try solve [rewrite nth_error_set_neq by auto; exists x; split; auto; split; auto].
      destruct (w_inner y); simpl; try solve [exists x; split; [auto|split; auto]].
      rewrite nth_error_set_neq by auto; exists x; split; auto; split; auto.
  - destruct I as [_ I2]. unfold e_drain.
    assert (G : forall cbs ws y, Forall (cb_ok ws) cbs -> nth_error ws w = Some y -> not_completed y ->
              exists y', nth_error (fst (run_cbs cbs ws)) w = Some y' /\ not_completed y').
    { clear. induction cbs as [|c cbs IH]; intros ws y F E [N1 N2]; simpl; [exists y; split; [auto|split; auto]|].
      inversion F as [|c0 l Hc Hrest]; subst.
      assert (G1 : exists y1, nth_error (fst (run_cb c ws)) w = Some y1 /\ not_completed y1).
      { assert (Hlt : (w < List.length ws)%nat) by (eapply nth_error_some_lt; eauto).
        destruct c as [k|k]; simpl in *; destruct Hc as (z & Ek & Pz); rewrite Ek.
        - destruct (Nat.eq_dec k w) as [->|Hne].
          + rewrite E in Ek. inversion Ek; subst z. unfold ipend in Pz.
            destruct (w_outer y) as [[]|] eqn:O; simpl; rewrite nth_error_set_eq by auto; eexists; (split; [reflexivity|]);
              split; simpl; auto; try congruence. destruct (w_inner y); congruence.
          + destruct (w_outer z) as [[]|]; simpl; rewrite nth_error_set_neq by auto; exists y; split; auto; split; auto.
        - destruct (w_inner z) eqn:In; simpl; try solve [exists y; split; [auto|split; auto]].
          destruct (Nat.eq_dec k w) as [->|Hne].
          + rewrite E in Ek. inversion Ek; subst z. rewrite nth_error_set_eq by auto. eexists. split; [reflexivity|].
            split; simpl; congruence.
          + rewrite nth_error_set_neq by auto. exists y; split; auto; split; auto. }
      destruct G1 as (y1 & E1 & R1).
      assert (F' : Forall (cb_ok (fst (run_cb c ws))) cbs).
      { eapply Forall_impl; [|exact Hrest]. intros; apply cb_ok_keep; auto. }
      destruct (run_cb c ws) as [ws1 new1]. simpl in *.
      destruct (IH ws1 y1 F' E1 R1) as (y2 & E2 & R2). destruct (run_cbs cbs ws1) as [ws2 new2]. simpl in *. eauto. }
    destruct (G (e_ready s) (e_waits s) x I2 E (conj N1 N2)) as (y & Ey & Ny).
    destruct (run_cbs (e_ready s) (e_waits s)). simpl in *. eauto.
Qed.

Lemma wait_on_clear_event_not_completed t s :
  e_value s = false ->
  exists x, nth_error (e_waits (fst (e_wait t s))) (List.length (e_waits s)) = Some x /\ not_completed x
            /\ returned x = RPending.
Proof.
  intros V. unfold e_wait. rewrite V. simpl. eexists. rewrite nth_error_snoc, Nat.ltb_irrefl, Nat.eqb_refl.
  split; [reflexivity|]. split; [split; simpl; destruct t; congruence|]. destruct t; reflexivity.
Qed.

Lemma not_completed_run ops : forall s w x,
  einv s -> nth_error (e_waits s) w = Some x -> not_completed x ->
  Forall (fun es => e_value (snd es) = false) (erun s ops) ->
  exists x', nth_error (e_waits (efinal s (erun s ops))) w = Some x' /\ not_completed x' /\ returned x' <> ROk.
Proof.
  induction ops as [|o ops IH]; intros s w x I E N F; simpl.
  - exists x. split; auto. split; auto. destruct N as [N1 N2]. unfold returned.
    destruct (w_outer x) as [[]|]; try congruence. destruct (w_inner x); congruence.
  - simpl in F. pose proof (estep_inv s o I) as I'. pose proof (not_completed_step s o w x I E N) as S.
    destruct (estep s o) as [s' e]. simpl in *. inversion F; subst. simpl in *.
    destruct (S H1) as (x' & E' & N'). unfold efinal. simpl map. rewrite last_cons. apply (IH s' w x'); auto.
Qed.

(* ---------- resolved awaitables are terminal ---------- *)
Lemma returned_terminal s o w x :
  einv s -> nth_error (e_waits s) w = Some x -> returned x <> RPending ->
  exists x', nth_error (e_waits (fst (estep s o))) w = Some x' /\ returned x' = returned x.
Proof.
  intros I E R.
  assert (Hlt : (w < List.length (e_waits s))%nat) by (eapply nth_error_some_lt; eauto).
  assert (IP : w_outer x = None -> ipend x = false).
  { intros O. unfold returned in R. rewrite O in R. unfold ipend. destruct (w_inner x); congruence. }
  destruct o as [t| | |k|k|]; simpl.
  - exists x. split; auto. unfold e_wait. destruct (e_value s); simpl; rewrite nth_error_app1 by auto; auto.
  - unfold e_set. destruct (e_value s); [eauto|].
    destruct (set_waiters 0 (e_waits s)) as [r cbs] eqn:S. destruct (set_waiters_spec _ _ _ _ S) as (-> & _).
    simpl. rewrite nth_error_map, E. simpl. eexists. split; [reflexivity|]. unfold resolve.
    destruct (w_inset x && ipend x) eqn:Q; auto. apply andb_true_iff in Q as [_ Q].
    unfold returned in *. simpl. destruct (w_outer x) as [[]|] eqn:O; auto. rewrite IP in Q; auto; discriminate.
  - eauto.
  - unfold e_fire. destruct (nth_error (e_waits s) k) as [y|] eqn:Ek; [|eauto].
    destruct (w_armed y); [|eauto]. destruct (Nat.eq_dec k w) as [->|Hne].
    + rewrite E in Ek. inversion Ek; subst y. unfold returned in R.
      destruct (w_outer x) as [[]|] eqn:O; simpl; try congruence; rewrite nth_error_set_eq by auto; eexists; (split; [reflexivity|]);
        unfold returned; simpl; rewrite ?O; auto.
    + destruct (w_outer y) as [[]|]; simpl; rewrite nth_error_set_neq by auto; eauto.
  - unfold e_cancel. destruct (nth_error (e_waits s) k) as [y|] eqn:Ek; [|eauto].
    destruct (Nat.eq_dec k w) as [->|Hne].
    + rewrite E in Ek. inversion Ek; subst y. unfold returned in R.
      destruct (w_outer x) as [[]|] eqn:O; simpl; try congruence; eauto.
      destruct (w_inner x) eqn:In; simpl; try congruence; eauto.
    + destruct (w_outer y) as [[]|]; simpl; eauto; try (rewrite nth_error_set_neq by auto; eauto).
      destruct (w_inner y); simpl; eauto. rewrite nth_error_set_neq by auto; eauto.
  - unfold e_drain.
    assert (G : forall cbs ws y, Forall (cb_ok ws) cbs -> nth_error ws w = Some y -> returned y <> RPending ->
              (w_outer y = None -> ipend y = false) ->
              exists y', nth_error (fst (run_cbs cbs ws)) w = Some y' /\ returned y' = returned y).
    { clear. induction cbs as [|c cbs IH]; intros ws y F E R IP; simpl; [eauto|].
      inversion F as [|c0 l Hc Hrest]; subst.
      assert (Hlt : (w < List.length ws)%nat) by (eapply nth_error_some_lt; eauto).
      assert (G1 : exists y1, nth_error (fst (run_cb c ws)) w = Some y1 /\ returned y1 = returned y /\ (w_outer y1 = None -> ipend y1 = false)).
      { destruct c as [k|k]; simpl in *; destruct Hc as (z & Ek & Pz); rewrite Ek.
        - destruct (Nat.eq_dec k w) as [->|Hne].
          + rewrite E in Ek. inversion Ek; subst z. unfold returned in R.
            destruct (w_outer y) as [[]|] eqn:O; simpl; try congruence; rewrite nth_error_set_eq by auto; eexists; (split; [reflexivity|]);
              unfold returned, ipend in *; simpl; rewrite ?O; split; auto; try discriminate.
          + destruct (w_outer z) as [[]|]; simpl; rewrite nth_error_set_neq by auto; eauto.
        - destruct (w_inner z) eqn:In; simpl; eauto. destruct (Nat.eq_dec k w) as [->|Hne].
          + rewrite E in Ek. inversion Ek; subst z. rewrite nth_error_set_eq by auto. eexists. split; [reflexivity|].
            unfold returned, ipend, odone in *. simpl. destruct (w_outer y) as [[]|] eqn:O; try discriminate; split; auto; try discriminate.
          + rewrite nth_error_set_neq by auto; eauto. }
      destruct G1 as (y1 & E1 & R1 & IP1).
      assert (F' : Forall (cb_ok (fst (run_cb c ws))) cbs).
      { eapply Forall_impl; [|exact Hrest]. intros; apply cb_ok_keep; auto. }
      destruct (run_cb c ws) as [ws1 new1]. simpl in *.
      destruct (IH ws1 y1 F' E1) as (y2 & E2 & R2); auto; [simpl in *; congruence|].
      destruct (run_cbs cbs ws1) as [ws2 new2]. simpl in *. exists y2. split; auto. congruence. }
    destruct I as [_ I2]. destruct (G (e_ready s) (e_waits s) x I2 E R IP) as (y & Ey & Ry).
    destruct (run_cbs (e_ready s) (e_waits s)). simpl in *. eauto.
Qed.
