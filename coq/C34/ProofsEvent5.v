(* C34 — Event: what one operation does to every wait record (used by the checker proof). *)
From Coq Require Import List ZArith Arith Bool Lia.
Import ListNotations.
From TV Require Import C33.Model C33.ListFacts C34.Model C34.ProofsEvent C34.ProofsEvent2.

(* ---------- inner futures ---------- *)
Definition inner_rel (y y' : ewait) : Prop :=
  w_inner y' = w_inner y \/ (w_inner y = IPending /\ w_inner y' = ICancelled).

Lemma run_cb_inner c ws k y :
  nth_error ws k = Some y -> exists y', nth_error (fst (run_cb c ws)) k = Some y' /\ inner_rel y y'.
Proof.
  intros E. assert (SAME : exists y', nth_error ws k = Some y' /\ inner_rel y y') by (exists y; split; [auto|left; auto]).
  destruct c as [w|w]; simpl; destruct (nth_error ws w) as [x|] eqn:Ew; auto;
    assert (Hlt : (w < List.length ws)%nat) by (eapply nth_error_some_lt; eauto).
  - destruct (Nat.eq_dec w k) as [->|Hne].
    + rewrite E in Ew. inversion Ew; subst x.
      destruct (w_outer y) as [[]|]; simpl; rewrite nth_error_set_eq by auto; eexists; (split; [reflexivity|left; reflexivity]).
    + destruct (w_outer x) as [[]|]; simpl; rewrite nth_error_set_neq by auto; auto.
  - destruct (w_inner x) eqn:In; simpl; auto.
    destruct (Nat.eq_dec w k) as [->|Hne].
    + rewrite E in Ew. inversion Ew; subst x. rewrite nth_error_set_eq by auto. eexists. split; [reflexivity|right; auto].
    + rewrite nth_error_set_neq by auto; auto.
Qed.

Lemma run_cbs_inner : forall cbs ws k y,
  nth_error ws k = Some y -> exists y', nth_error (fst (run_cbs cbs ws)) k = Some y' /\ inner_rel y y'.
Proof.
  induction cbs as [|c cbs IH]; intros ws k y E; simpl; [exists y; split; [auto|left; auto]|].
  destruct (run_cb_inner c ws k y E) as (y1 & E1 & R1). destruct (run_cb c ws) as [ws1 new1]. simpl in E1.
  destruct (IH ws1 k y1 E1) as (y2 & E2 & R2). destruct (run_cbs cbs ws1) as [ws2 new2]. simpl in *.
  exists y2. split; auto. unfold inner_rel in *.
  destruct R1 as [R1|[R1a R1b]], R2 as [R2|[R2a R2b]]; try (left; congruence); try (right; split; congruence).
Qed.

(* inner futures: resolved ones never change; they become done only when the flag is (now) set *)
Lemma inner_step s o k x :
  nth_error (e_waits s) k = Some x ->
  exists x', nth_error (e_waits (fst (estep s o))) k = Some x'
    /\ (ipend x = false -> w_inner x' = w_inner x)
    /\ (w_inner x <> IDone -> w_inner x' = IDone -> e_value (fst (estep s o)) = true).
Proof.
  intros E.
  assert (Hlt : (k < List.length (e_waits s))%nat) by (eapply nth_error_some_lt; eauto).
  assert (SAME : forall v, exists x', nth_error (e_waits s) k = Some x' /\ (ipend x = false -> w_inner x' = w_inner x)
             /\ (w_inner x <> IDone -> w_inner x' = IDone -> v = true)) by (intros v; exists x; repeat split; auto; congruence).
  destruct o as [t| | |w|w|]; simpl.
  - unfold e_wait. destruct (e_value s); simpl; rewrite nth_error_app1 by auto; apply SAME.
  - unfold e_set. destruct (e_value s); [apply SAME|].
    destruct (set_waiters 0 (e_waits s)) as [r cbs] eqn:S. destruct (set_waiters_spec _ _ _ _ S) as (-> & _).
    simpl. rewrite nth_error_map, E. simpl. eexists. split; [reflexivity|]. unfold resolve.
    destruct (w_inset x && ipend x) eqn:Q; simpl; split; auto.
    apply andb_true_iff in Q as [_ Q]. congruence.
  - apply SAME.
  - unfold e_fire. destruct (nth_error (e_waits s) w) as [y|] eqn:Ew; [|apply SAME].
    destruct (w_armed y); [|apply SAME].
    destruct (Nat.eq_dec w k) as [->|Hne].
    + rewrite E in Ew. inversion Ew; subst y.
      destruct (w_outer x) as [[]|]; simpl; rewrite nth_error_set_eq by auto; eexists; (split; [reflexivity|]); simpl; split; auto; congruence.
    + destruct (w_outer y) as [[]|]; simpl; rewrite nth_error_set_neq by auto; apply SAME.
  - unfold e_cancel. destruct (nth_error (e_waits s) w) as [y|] eqn:Ew; [|apply SAME].
    destruct (Nat.eq_dec w k) as [->|Hne].
    + rewrite E in Ew. inversion Ew; subst y.
      destruct (w_outer x) as [[]|] eqn:O; simpl; try apply SAME.
      * rewrite nth_error_set_eq by auto. eexists. split; [reflexivity|]. simpl. split; auto; congruence.
      * destruct (w_inner x) eqn:In; simpl; try apply SAME.
        rewrite nth_error_set_eq by auto. eexists. split; [reflexivity|]. simpl.
        split; [unfold ipend; rewrite In; discriminate|congruence].
    + destruct (w_outer y) as [[]|]; simpl; try apply SAME; try (rewrite nth_error_set_neq by auto; apply SAME).
      destruct (w_inner y); simpl; try apply SAME. rewrite nth_error_set_neq by auto; apply SAME.
  - unfold e_drain. destruct (run_cbs_inner (e_ready s) (e_waits s) k x E) as (y & Ey & R).
    destruct (run_cbs (e_ready s) (e_waits s)) as [ws1 new1]. simpl in *. exists y. split; auto.
    unfold ipend. destruct R as [R|[R1 R2]]; split; intros; try congruence. rewrite R1 in H. discriminate.
Qed.

(* ---------- lengths and fresh records ---------- *)
Lemma run_cb_length c ws : List.length (fst (run_cb c ws)) = List.length ws.
Proof.
  destruct c as [w|w]; simpl; destruct (nth_error ws w) as [x|]; auto.
  - destruct (w_outer x) as [[]|]; simpl; apply length_set_nth.
  - destruct (w_inner x); simpl; auto. apply length_set_nth.
Qed.

Lemma run_cbs_length : forall cbs ws, List.length (fst (run_cbs cbs ws)) = List.length ws.
Proof.
  induction cbs as [|c cbs IH]; intros ws; simpl; auto.
  pose proof (run_cb_length c ws) as L1. destruct (run_cb c ws) as [ws1 new1]. simpl in L1.
  specialize (IH ws1). destruct (run_cbs cbs ws1). simpl in *. congruence.
Qed.

Lemma estep_length s o :
  List.length (e_waits (fst (estep s o))) =
  match o with EWait _ => S (List.length (e_waits s)) | _ => List.length (e_waits s) end.
Proof.
  destruct o as [t| | |w|w|]; simpl.
  - unfold e_wait. destruct (e_value s); simpl; rewrite app_length; simpl; lia.
  - unfold e_set. destruct (e_value s); auto. destruct (set_waiters 0 (e_waits s)) as [r cbs] eqn:S.
    destruct (set_waiters_spec _ _ _ _ S) as (-> & _). simpl. apply map_length.
  - reflexivity.
  - unfold e_fire. destruct (nth_error (e_waits s) w) as [y|]; auto. destruct (w_armed y); auto.
    destruct (w_outer y) as [[]|]; simpl; apply length_set_nth.
  - unfold e_cancel. destruct (nth_error (e_waits s) w) as [y|]; auto.
    destruct (w_outer y) as [[]|]; simpl; auto; try apply length_set_nth.
    destruct (w_inner y); simpl; auto. apply length_set_nth.
  - unfold e_drain. pose proof (run_cbs_length (e_ready s) (e_waits s)). destruct (run_cbs (e_ready s) (e_waits s)). auto.
Qed.

Lemma fresh_record s o k x' :
  nth_error (e_waits s) k = None -> nth_error (e_waits (fst (estep s o))) k = Some x' ->
  (w_inner x' = IDone -> e_value (fst (estep s o)) = true) /\ returned x' <> RTimeout
  /\ (returned x' = ROk -> w_inner x' = IDone).
Proof.
  intros N E. apply nth_error_None in N. pose proof (nth_error_some_lt _ _ _ E) as L.
  pose proof (estep_length s o) as EL. destruct o as [t| | |w|w|]; try lia.
  simpl in *. unfold e_wait in *. destruct (e_value s) eqn:V; simpl in *.
  - rewrite nth_error_snoc in E. destruct (k <? _)%nat eqn:Lt; [apply Nat.ltb_lt in Lt; lia|].
    destruct (k =? _)%nat; inversion E; subst. unfold returned; simpl. repeat split; auto; discriminate.
  - rewrite nth_error_snoc in E. destruct (k <? _)%nat eqn:Lt; [apply Nat.ltb_lt in Lt; lia|].
    destruct (k =? _)%nat; inversion E; subst. unfold returned; simpl.
    destruct (timed_of t); repeat split; intros; discriminate.
Qed.

(* ---------- a completed awaitable has a completed inner future ---------- *)
Definition okinv (ws : list ewait) : Prop :=
  forall k x, nth_error ws k = Some x -> w_outer x = Some OOk -> w_inner x = IDone.

Lemma run_cb_okinv c ws : cb_ok ws c -> okinv ws -> okinv (fst (run_cb c ws)).
Proof.
  intros Hc K. destruct c as [w|w]; simpl in *; destruct Hc as (x & E & P); rewrite E;
    assert (Hlt : (w < List.length ws)%nat) by (eapply nth_error_some_lt; eauto).
  - destruct (w_outer x) as [[]|] eqn:O; simpl; intros k y Ey Oy;
      (destruct (Nat.eq_dec w k) as [<-|Hne];
       [rewrite nth_error_set_eq in Ey by auto; inversion Ey; subst; simpl in *;
        try discriminate; try (apply (K w x E); congruence)
       |rewrite nth_error_set_neq in Ey by auto; eapply K; eauto]).
    unfold ipend in P. destruct (w_inner x); try discriminate; auto.
  - destruct (w_inner x) eqn:In; simpl; auto. intros k y Ey Oy.
    destruct (Nat.eq_dec w k) as [<-|Hne].
    + rewrite nth_error_set_eq in Ey by auto. inversion Ey; subst. simpl in *.
      pose proof (K w x E Oy). congruence.
    + rewrite nth_error_set_neq in Ey by auto. eapply K; eauto.
Qed.

Lemma run_cbs_okinv : forall cbs ws, Forall (cb_ok ws) cbs -> okinv ws -> okinv (fst (run_cbs cbs ws)).
Proof.
  induction cbs as [|c cbs IH]; intros ws F K; simpl; auto. inversion F; subst.
  pose proof (run_cb_okinv c ws H1 K) as K1.
  assert (F' : Forall (cb_ok (fst (run_cb c ws))) cbs).
  { eapply Forall_impl; [|exact H2]. intros; apply cb_ok_keep; auto. }
  destruct (run_cb c ws) as [ws1 new1]. simpl in *. specialize (IH ws1 F' K1).
  destruct (run_cbs cbs ws1). simpl in *. auto.
Qed.

Lemma estep_okinv s o : einv s -> okinv (e_waits s) -> okinv (e_waits (fst (estep s o))).
Proof.
  intros I K. destruct o as [t| | |w|w|]; simpl.
  - unfold e_wait. destruct (e_value s); simpl; intros k y Ey Oy; rewrite nth_error_snoc in Ey;
      (destruct (k <? _)%nat; [eapply K; eauto|]); destruct (k =? _)%nat; inversion Ey; subst; simpl in *; auto;
      destruct (timed_of t); discriminate.
  - unfold e_set. destruct (e_value s); auto. destruct (set_waiters 0 (e_waits s)) as [r cbs] eqn:S.
    destruct (set_waiters_spec _ _ _ _ S) as (-> & _). simpl. intros k y Ey Oy.
    rewrite nth_error_map in Ey. destruct (nth_error (e_waits s) k) as [x|] eqn:E; [|discriminate].
    inversion Ey; subst. unfold resolve in *. destruct (w_inset x && ipend x); simpl in *; auto. eapply K; eauto.
  - exact K.
  - unfold e_fire. destruct (nth_error (e_waits s) w) as [x|] eqn:E; auto. destruct (w_armed x); auto.
    assert (Hlt : (w < List.length (e_waits s))%nat) by (eapply nth_error_some_lt; eauto).
    destruct (w_outer x) as [[]|] eqn:O; simpl; intros k y Ey Oy;
      (destruct (Nat.eq_dec w k) as [<-|Hne];
       [rewrite nth_error_set_eq in Ey by auto; inversion Ey; subst; simpl in *; try discriminate; apply (K w x E); congruence
       |rewrite nth_error_set_neq in Ey by auto; eapply K; eauto]).
  - unfold e_cancel. destruct (nth_error (e_waits s) w) as [x|] eqn:E; auto.
    assert (Hlt : (w < List.length (e_waits s))%nat) by (eapply nth_error_some_lt; eauto).
    destruct (w_outer x) as [[]|] eqn:O; simpl; auto.
    + intros k y Ey Oy. destruct (Nat.eq_dec w k) as [<-|Hne].
      * rewrite nth_error_set_eq in Ey by auto. inversion Ey; subst. discriminate.
      * rewrite nth_error_set_neq in Ey by auto. eapply K; eauto.
    + destruct (w_inner x) eqn:In; simpl; auto. intros k y Ey Oy. destruct (Nat.eq_dec w k) as [<-|Hne].
      * rewrite nth_error_set_eq in Ey by auto. inversion Ey; subst. discriminate.
      * rewrite nth_error_set_neq in Ey by auto. eapply K; eauto.
  - unfold e_drain. destruct I as [_ I2]. pose proof (run_cbs_okinv (e_ready s) (e_waits s) I2 K).
    destruct (run_cbs (e_ready s) (e_waits s)). auto.
Qed.

Lemma okinv_returned ws k x : okinv ws -> nth_error ws k = Some x -> returned x = ROk -> w_inner x = IDone.
Proof.
  intros K E R. unfold returned in R. destruct (w_outer x) as [[]|] eqn:O; try discriminate.
  - eapply K; eauto.
  - destruct (w_inner x); auto; discriminate.
Qed.

(* ---------- one iteration resolves every awaitable whose inner future is resolved ---------- *)
Lemma run_cbs_resolves : forall cbs ws k y,
  In (CbInner k) cbs -> nth_error ws k = Some y ->
  exists y', nth_error (fst (run_cbs cbs ws)) k = Some y' /\ opend y' = false.
Proof.
  induction cbs as [|c cbs IH]; intros ws k y Hin E; simpl; [destruct Hin|].
  destruct (run_cb_mono c ws k y E) as (y1 & E1 & _ & M2 & _).
  assert (Hlt : (k < List.length ws)%nat) by (eapply nth_error_some_lt; eauto).
  destruct Hin as [->|Hin].
  - assert (O1 : opend y1 = false).
    { simpl in E1. rewrite E in E1. destruct (w_outer y) as [[]|] eqn:O; simpl in E1;
        rewrite nth_error_set_eq in E1 by auto; inversion E1; subst; unfold opend; simpl; rewrite ?O; auto.
      destruct (w_inner y); reflexivity. }
    destruct (run_cb (CbInner k) ws) as [ws1 new1]. simpl in E1.
    destruct (run_cbs_mono cbs ws1 k y1 E1) as (y2 & E2 & _ & N2 & _).
    destruct (run_cbs cbs ws1). simpl in *. exists y2. split; auto.
  - destruct (run_cb c ws) as [ws1 new1]. simpl in E1.
    destruct (IH ws1 k y1 Hin E1) as (y2 & E2 & O2). destruct (run_cbs cbs ws1). simpl in *. eauto.
Qed.

Lemma drain_resolves s k x :
  einv s -> nth_error (e_waits s) k = Some x -> ipend x = false ->
  exists x', nth_error (e_waits (e_drain s)) k = Some x' /\ returned x' <> RPending.
Proof.
  intros I E P. destruct (returned x) eqn:R.
  2,3,4: destruct (returned_terminal s EDrain k x I E) as (x' & E' & R'); [congruence|];
         exists x'; split; [exact E'|congruence].
  pose proof I as [I1 _]. destruct (I1 k x E) as (_ & A2 & A3 & _).
  assert (O : opend x = true).
  { unfold returned in R. unfold opend, ipend in *. destruct (w_outer x) as [[]|]; try discriminate; auto.
    destruct (w_inner x); discriminate. }
  assert (Hin : In (CbInner k) (e_ready s)) by (apply A2; auto).
  destruct (run_cbs_resolves (e_ready s) (e_waits s) k x Hin E) as (y & Ey & Oy).
  destruct (run_cbs_mono (e_ready s) (e_waits s) k x E) as (y' & Ey' & M1 & _).
  rewrite Ey in Ey'. inversion Ey'; subst y'.
  unfold e_drain. destruct (run_cbs (e_ready s) (e_waits s)). simpl in *. exists y. split; auto.
  specialize (M1 P). unfold returned, opend, ipend in *.
  destruct (w_outer y) as [[]|]; try discriminate. destruct (w_inner y); discriminate.
Qed.
