(* C34 — Condition: the model refines a FIFO of live waiters. *)
From Coq Require Import List ZArith Arith Bool Lia Sorted.
Import ListNotations.
From TV Require Import C33.Model C33.ListFacts C33.Proofs C33.Proofs2 C34.Model.
Local Open Scope Z_scope.

Definition cabs (s : state) : cspec := mkCSpec (live (s_futs s) (s_waiters s)) (List.length (s_futs s)).

(* ---------- the notify loop ---------- *)
Lemma wake_count_S n l : n <> 0 -> wake_count n (S l) = S (wake_count (n - 1) l).
Proof.
  intros Hn. unfold wake_count. destruct (n <? 0) eqn:E.
  - apply Z.ltb_lt in E. replace (n - 1 <? 0) with true by (symmetry; apply Z.ltb_lt; lia). reflexivity.
  - apply Z.ltb_ge in E. replace (n - 1 <? 0) with false by (symmetry; apply Z.ltb_ge; lia).
    replace (Z.to_nat n) with (S (Z.to_nat (n - 1))) by lia. reflexivity.
Qed.

Lemma notify_pop_spec fs : forall ws n wk rest,
  notify_pop fs n ws = (wk, rest) ->
  let L := live fs ws in
  let c := wake_count n (List.length L) in
  wk = map fst (firstn c L) /\ live fs rest = skipn c L.
Proof.
  induction ws as [|w ws IH]; intros n wk rest H; simpl in H.
  - inversion H; subst. simpl. unfold wake_count. destruct (n <? 0); simpl; auto.
    rewrite Nat.min_0_r. simpl. auto.
  - destruct (n =? 0) eqn:En.
    + apply Z.eqb_eq in En. subst. inversion H; subst. simpl. unfold wake_count. simpl. auto.
    + apply Z.eqb_neq in En. unfold live in *. simpl.
      destruct (pending fs w) eqn:P.
      * destruct (notify_pop fs (n - 1) ws) as [wk' r'] eqn:E. inversion H; subst.
        destruct (IH _ _ _ E) as [A B]. simpl.
        rewrite wake_count_S by auto. simpl. rewrite <- A. split; auto.
      * apply IH; auto.
Qed.

Ltac qsplit := split; [|split; [|split]].

Lemma notify_pop_parts fs : forall ws n wk rest,
  StronglySorted lt ws -> notify_pop fs n ws = (wk, rest) ->
  StronglySorted lt rest
  /\ (forall x, In x wk -> In x ws /\ pending fs x = true /\ Forall (lt x) rest)
  /\ (forall x, In x rest -> In x ws)
  /\ (forall x, In x ws -> pending fs x = true -> In x wk \/ In x rest).
Proof.
  induction ws as [|w ws IH]; intros n wk rest HS H; simpl in H.
  - inversion H; subst. qsplit; auto; try (intros x []); constructor.
  - destruct (n =? 0).
    + inversion H; subst. qsplit; auto; intros x [].
    + inversion HS; subst. destruct (pending fs w) eqn:P.
      * destruct (notify_pop fs (n - 1) ws) as [wk' r'] eqn:E. inversion H; subst.
        destruct (IH _ _ _ H2 E) as (A & B & C & D). qsplit; auto.
        { intros x [<-|Hx].
          - split; [left; auto|]. split; auto. rewrite Forall_forall in *. intros y Hy. apply H3. auto.
          - destruct (B x Hx) as (B1 & B2 & B3). split; [right; auto|]. split; auto. }
        { intros x Hx. right; auto. }
        { intros x [<-|Hx] Px; [left; left; auto|]. destruct (D x Hx Px); [left; right|right]; auto. }
      * destruct (IH _ _ _ H2 H) as (A & B & C & D). qsplit; auto.
        { intros x Hx. destruct (B x Hx) as (B1 & B2 & B3). split; [right; auto|]. split; auto. }
        { intros x Hx. right; auto. }
        { intros x [<-|Hx] Px; [congruence|]. auto. }
Qed.

Lemma wake_all_length fs wk : List.length (wake_all fs wk) = List.length fs.
Proof. revert fs; induction wk as [|w wk IH]; intros fs; simpl; auto. rewrite IH, length_set_nth. reflexivity. Qed.

Lemma wake_all_other fs wk x : ~ In x wk -> nth_error (wake_all fs wk) x = nth_error fs x.
Proof.
  revert fs; induction wk as [|w wk IH]; intros fs H; simpl; auto.
  rewrite IH by (intros C; apply H; right; auto).
  apply nth_error_set_neq. intros ->. apply H. left; auto.
Qed.

Lemma wake_all_keeps fs wk x a :
  nth_error fs x = Some (Granted, a) -> exists a', nth_error (wake_all fs wk) x = Some (Granted, a').
Proof.
  revert fs a; induction wk as [|w wk IH]; intros fs a H; simpl; eauto.
  destruct (Nat.eq_dec w x) as [->|Hne].
  - eapply IH. apply nth_error_set_eq. eapply nth_error_some_lt; eauto.
  - eapply IH. rewrite nth_error_set_neq by auto. eauto.
Qed.

Lemma wake_all_in fs wk x :
  In x wk -> (x < List.length fs)%nat -> exists a', nth_error (wake_all fs wk) x = Some (Granted, a').
Proof.
  revert fs; induction wk as [|w wk IH]; intros fs H Hlt; simpl; [destruct H|].
  destruct (Nat.eq_dec w x) as [->|Hne].
  - eapply wake_all_keeps. apply nth_error_set_eq; auto.
  - destruct H as [->|H]; [congruence|]. apply IH; auto. rewrite length_set_nth; auto.
Qed.

Lemma live_length_le fs ws : (List.length (live fs ws) <= List.length ws)%nat.
Proof.
  unfold live. rewrite map_length. induction ws as [|w ws IH]; simpl; auto.
  destruct (pending fs w); simpl; lia.
Qed.

(* ---------- one step ---------- *)
Lemma notify_sim n s :
  wf s -> let '(s', e) := c_notify n s in
  wf s' /\ cspec_step (cabs s) (CNotify n) = (cabs s', e).
Proof.
  intros (HS & HB & HP). unfold c_notify.
  destruct (notify_pop (s_futs s) n (s_waiters s)) as [wk rest] eqn:E.
  destruct (notify_pop_spec _ _ _ _ _ E) as [A B].
  destruct (notify_pop_parts _ _ _ _ _ HS E) as (P1 & P2 & P3 & P4).
  assert (Hdisj : forall x, In x rest -> ~ In x wk).
  { intros x Hr Hw. destruct (P2 x Hw) as (_ & _ & F). rewrite Forall_forall in F. specialize (F x Hr). lia. }
  assert (Hlive : live (wake_all (s_futs s) wk) rest = live (s_futs s) rest).
  { apply live_ext. intros x Hx. unfold pending, armed. rewrite wake_all_other by auto. auto. }
  split.
  - repeat split; simpl; auto.
    + intros x Hx. rewrite wake_all_length. auto.
    + intros x Hx. destruct (in_dec Nat.eq_dec x wk) as [Hw|Hw].
      * destruct (P2 x Hw) as (Q1 & _). destruct (wake_all_in (s_futs s) wk x Hw (HB x Q1)) as [a' Ea].
        unfold pending in Hx. rewrite Ea in Hx. discriminate.
      * unfold pending in Hx. rewrite wake_all_other in Hx by auto.
        destruct (P4 x (HP x Hx) Hx); auto. contradiction.
  - unfold cspec_step, cabs. simpl. rewrite wake_all_length, Hlive, B, A. reflexivity.
Qed.

Lemma notify_all_sim s :
  wf s -> let '(s', e) := c_notify (Z.of_nat (List.length (s_waiters s))) s in
  wf s' /\ cspec_step (cabs s) CNotifyAll = (cabs s', e).
Proof.
  intros W. pose proof (notify_sim (Z.of_nat (List.length (s_waiters s))) s W) as H.
  destruct (c_notify (Z.of_nat (List.length (s_waiters s))) s) as [s' e]. destruct H as [W' E].
  split; auto. rewrite <- E. unfold cspec_step. simpl.
  pose proof (live_length_le (s_futs s) (s_waiters s)) as L.
  unfold wake_count. replace (Z.of_nat (List.length (s_waiters s)) <? 0) with false by (symmetry; apply Z.ltb_ge; lia).
  rewrite Nat2Z.id, Nat.min_r by auto. rewrite firstn_all, skipn_all. reflexivity.
Qed.

Lemma wait_sim t s :
  wf s -> let '(s', e) := c_wait (timed_of t) s in wf s' /\ cspec_step (cabs s) (CWait t) = (cabs s', e).
Proof.
  intros (HS & HB & HP). unfold c_wait, cspec_step, cabs. simpl. split.
  - repeat split; simpl.
    + apply ssorted_snoc; auto. apply Forall_forall. auto.
    + intros w Hw. rewrite app_length. simpl. apply in_app_or in Hw as [Hw|[<-|[]]]; [specialize (HB w Hw)|]; lia.
    + intros w Hw. rewrite pending_snoc in Hw. simpl in Hw. apply in_or_app.
      destruct (w <? List.length (s_futs s))%nat; auto.
      rewrite andb_true_r in Hw. apply Nat.eqb_eq in Hw. right; left; auto.
  - rewrite live_app, live_snoc by auto. rewrite app_length. simpl. rewrite Nat.add_1_r.
    f_equal. f_equal. unfold live. simpl. rewrite pending_snoc. simpl.
    rewrite Nat.ltb_irrefl, Nat.eqb_refl. simpl. unfold armed. rewrite nth_error_snoc.
    rewrite Nat.ltb_irrefl, Nat.eqb_refl. reflexivity.
Qed.

Lemma cstep_sim s o :
  wf s -> wf (fst (cstep s o)) /\ cspec_step (cabs s) o = (cabs (fst (cstep s o)), snd (cstep s o)).
Proof.
  intros W. destruct o as [t|n| |w|w|]; unfold cstep.
  - pose proof (wait_sim t s W) as A. destruct (c_wait (timed_of t) s). exact A.
  - pose proof (notify_sim n s W) as A. destruct (c_notify n s). exact A.
  - pose proof (notify_all_sim s W) as A. destruct (c_notify _ s). exact A.
  - pose proof (fire_sim KSem 0 w s W) as A. destruct (do_fire w s) as [s' e]. destruct A as [W' E]. split; auto.
    unfold spec_step in E. unfold cspec_step. simpl in *.
    destruct (has_deadline w (live (s_futs s) (s_waiters s))); inversion E; unfold cabs; simpl; congruence.
  - pose proof (cancel_sim KSem 0 w s W) as A. destruct (do_cancel w s) as [s' e]. destruct A as [W' E]. split; auto.
    unfold spec_step in E. unfold cspec_step. simpl in *.
    destruct (w <? List.length (s_futs s))%nat; inversion E; unfold cabs; simpl; congruence.
  - destruct (drain_sim s W) as [A B]. simpl. split; auto. unfold cabs. inversion B. simpl.
    rewrite H0. unfold do_drain. simpl. rewrite map_length. reflexivity.
Qed.

Lemma crun_sim ops : forall s,
  wf s ->
  map (fun es => (fst es, cabs (snd es))) (crun s ops) = cspec_run (cabs s) ops
  /\ Forall (fun es => wf (snd es)) (crun s ops).
Proof.
  induction ops as [|o ops IH]; intros s W; simpl; [split; constructor|].
  destruct (cstep_sim s o W) as [W' E]. rewrite E.
  destruct (cstep s o) as [s' e]. simpl in *. destruct (IH s' W') as [I1 I2]. rewrite I1. split; auto.
Qed.

Lemma wf_cond_init : wf cond_init.
Proof.
  repeat split; simpl; [constructor|intros w []|]. intros w H. unfold pending in H. destruct w; discriminate.
Qed.

