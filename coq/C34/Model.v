(* C34 — tornado.locks.Condition and tornado.locks.Event (with gen.with_timeout).
   Definitions only.

   Condition shares _TimeoutGarbageCollector with Semaphore: its state is the C33
   state record (the counter field is unused and stays 0), and on_timeout, cancel,
   the remove_timeout done-callback and _garbage_collect are literally the C33
   definitions (C33.Model.do_fire / do_cancel / do_drain / garbage_collect).  In this
   file the future states of C33 are read as:
     Granted = resolved True (notified), TimedOut = resolved False (deadline). *)
From Coq Require Import List ZArith Arith Bool.
Import ListNotations.
From TV Require Import C33.Model.
Local Open Scope Z_scope.

(* =====================  Condition  ===================== *)
Inductive cop :=
| CWait (t : tmo)          (* wait(timeout) / wait(); see C33.Model.tmo *)
| CNotify (n : Z)          (* notify(n) *)
| CNotifyAll
| CFire (w : nat)          (* timeout handle of wait w runs *)
| CCancel (w : nat)        (* the future returned by wait w is cancelled *)
| CDrain.                  (* loop iteration boundary *)

Inductive cevent :=
| CvWaiting (w : nat)
| CvWoke (ws : list nat)   (* notify / notify_all resolved these futures with True, in this order *)
| CvTimedOut (w : nat)     (* on_timeout resolved the future with False *)
| CvCancel (b : bool)
| CvNone.

Definition cond_init : state := mkState 0 [] [] 0.

(* Condition.wait *)
Definition c_wait (timed : bool) (s : state) : state * cevent :=
  let w := length (s_futs s) in
  (mkState (s_value s) (s_futs s ++ [(Pending, timed)]) (s_waiters s ++ [w]) (s_timeouts s), CvWaiting w).

(* `while n and self._waiters: waiter = popleft(); if not waiter.done(): n -= 1; waiters.append(waiter)`
   (n is any Python int: a negative n never reaches 0 and drains the deque) *)
Fixpoint notify_pop (fs : list fut) (n : Z) (ws : list nat) : list nat * list nat :=
  match ws with
  | [] => ([], [])
  | w :: ws' =>
      if n =? 0 then ([], ws)
      else if pending fs w then
             let '(wk, r) := notify_pop fs (n - 1) ws' in (w :: wk, r)
           else notify_pop fs n ws'
  end.

(* `for waiter in waiters: future_set_result_unless_cancelled(waiter, True)` *)
Fixpoint wake_all (fs : list fut) (wk : list nat) : list fut :=
  match wk with
  | [] => fs
  | w :: wk' => wake_all (set_nth fs w (Granted, armed fs w)) wk'
  end.

Definition c_notify (n : Z) (s : state) : state * cevent :=
  let '(wk, rest) := notify_pop (s_futs s) n (s_waiters s) in
  (mkState (s_value s) (wake_all (s_futs s) wk) rest (s_timeouts s), CvWoke wk).

Definition cev_of (e : event) : cevent :=
  match e with
  | EvTimedOut w => CvTimedOut w
  | EvCancel b => CvCancel b
  | _ => CvNone
  end.

Definition cstep (s : state) (o : cop) : state * cevent :=
  match o with
  | CWait t => c_wait (timed_of t) s
  | CNotify n => c_notify n s
  | CNotifyAll => c_notify (Z.of_nat (length (s_waiters s))) s      (* self.notify(len(self._waiters)) *)
  | CFire w => let '(s', e) := do_fire w s in (s', cev_of e)         (* same closure shape as Semaphore's on_timeout *)
  | CCancel w => let '(s', e) := do_cancel w s in (s', cev_of e)
  | CDrain => (do_drain s, CvNone)
  end.

Fixpoint crun (s : state) (ops : list cop) : list (cevent * state) :=
  match ops with
  | [] => []
  | o :: ops' => let '(s', e) := cstep s o in (e, s') :: crun s' ops'
  end.

(* ---------- reference for Condition: a FIFO of live waiters ---------- *)
Record cspec := mkCSpec { q_queue : list (nat * bool); q_next : nat }.

(* how many waiters notify(n) wakes when [live] are waiting *)
Definition wake_count (n : Z) (live : nat) : nat :=
  if n <? 0 then live else Nat.min (Z.to_nat n) live.

Definition cspec_step (a : cspec) (o : cop) : cspec * cevent :=
  match o with
  | CWait t => (mkCSpec (q_queue a ++ [(q_next a, timed_of t)]) (S (q_next a)), CvWaiting (q_next a))
  | CNotify n =>
      let c := wake_count n (length (q_queue a)) in
      (mkCSpec (skipn c (q_queue a)) (q_next a), CvWoke (map fst (firstn c (q_queue a))))
  | CNotifyAll => (mkCSpec [] (q_next a), CvWoke (map fst (q_queue a)))
  | CFire w =>
      if has_deadline w (q_queue a) then (mkCSpec (remove_w w (q_queue a)) (q_next a), CvTimedOut w)
      else (a, CvNone)
  | CCancel w =>
      if (w <? q_next a)%nat then (mkCSpec (remove_w w (q_queue a)) (q_next a), CvCancel (in_queue w (q_queue a)))
      else (a, CvNone)
  | CDrain => (a, CvNone)
  end.

Fixpoint cspec_run (a : cspec) (ops : list cop) : list (cevent * cspec) :=
  match ops with
  | [] => []
  | o :: ops' => let '(a', e) := cspec_step a o in (e, a') :: cspec_run a' ops'
  end.

(* states of all futures obtained by replaying (op, event) pairs *)
Fixpoint set_all (sts : list fstate) (ws : list nat) (st : fstate) : list fstate :=
  match ws with [] => sts | w :: ws' => set_all (set_nth sts w st) ws' st end.

Definition creplay1 (sts : list fstate) (o : cop) (e : cevent) : list fstate :=
  match o, e with
  | _, CvWaiting _ => sts ++ [Pending]
  | _, CvWoke ws => set_all sts ws Granted
  | _, CvTimedOut w => set_nth sts w TimedOut
  | CCancel w, CvCancel true => set_nth sts w Cancelled
  | _, _ => sts
  end.

Fixpoint creplay (sts : list fstate) (ops : list cop) (evs : list cevent) : list fstate :=
  match ops, evs with
  | o :: ops', e :: evs' => creplay (creplay1 sts o e) ops' evs'
  | _, _ => sts
  end.

(* =====================  Event  ===================== *)
(* One record per wait() call.  [w_inner] is `fut`, the future stored in
   Event._waiters; [w_outer] is the future made by gen.with_timeout (None for an
   untimed wait, whose caller holds `fut` itself). *)
Inductive istate := IPending | IDone | ICancelled.           (* fut: pending / set_result(None) / cancelled *)
Inductive ostate := OPending | OOk | OTimeout | OCancelled.   (* with_timeout's result future *)

Record ewait := mkWait {
  w_inner : istate;
  w_outer : option ostate;
  w_armed : bool;        (* with_timeout's timeout handle still registered *)
  w_inset : bool         (* fut in Event._waiters *)
}.

(* callbacks sitting in the loop's ready queue *)
Inductive cb :=
| CbInner (w : nat)   (* fut's done-callbacks: _waiters.remove(fut); chain_future copy; remove_timeout *)
| CbOuter (w : nat).  (* timeout_fut's done-callback: fut.cancel() if not fut.done() *)

Record estate := mkE {
  e_value : bool;            (* Event._value *)
  e_waits : list ewait;
  e_ready : list cb
}.

Definition event_init : estate := mkE false [] [].

Inductive eop :=
| EWait (t : tmo)
| ESet
| EClear
| EFire (w : nat)      (* with_timeout's timeout_callback of wait w runs *)
| ECancel (w : nat)    (* the awaitable returned by wait w is cancelled *)
| EDrain.              (* one loop iteration: the callbacks queued so far run *)

Inductive eevent :=
| VDone (w : nat)          (* wait returned an already-completed future *)
| VWaiting (w : nat)
| VTimedOut (w : nat)      (* TimeoutError set on the returned awaitable *)
| VCancel (b : bool)
| VNone.

(* Event.wait *)
Definition e_wait (timed : bool) (s : estate) : estate * eevent :=
  let w := length (e_waits s) in
  if e_value s then
    (mkE (e_value s) (e_waits s ++ [mkWait IDone None false false]) (e_ready s), VDone w)
  else
    (mkE (e_value s)
         (e_waits s ++ [mkWait IPending (if timed then Some OPending else None) timed true])
         (e_ready s),
     VWaiting w).

(* `for fut in self._waiters: if not fut.done(): fut.set_result(None)`: returns the
   updated records and the ids resolved (ascending; CPython iterates the set in hash
   order — the order only permutes independent callbacks) *)
Fixpoint set_waiters (i : nat) (ws : list ewait) : list ewait * list cb :=
  match ws with
  | [] => ([], [])
  | x :: ws' =>
      let '(r, cbs) := set_waiters (S i) ws' in
      if w_inset x && match w_inner x with IPending => true | _ => false end
      then (mkWait IDone (w_outer x) (w_armed x) (w_inset x) :: r, CbInner i :: cbs)
      else (x :: r, cbs)
  end.

(* Event.set *)
Definition e_set (s : estate) : estate :=
  if e_value s then s
  else let '(ws, cbs) := set_waiters 0 (e_waits s) in mkE true ws (e_ready s ++ cbs).

(* with_timeout.timeout_callback *)
Definition e_fire (w : nat) (s : estate) : estate * eevent :=
  match nth_error (e_waits s) w with
  | Some x =>
      if w_armed x then
        match w_outer x with
        | Some OPending =>
            (mkE (e_value s) (set_nth (e_waits s) w (mkWait (w_inner x) (Some OTimeout) false (w_inset x)))
                 (e_ready s ++ [CbOuter w]), VTimedOut w)
        | _ => (mkE (e_value s) (set_nth (e_waits s) w (mkWait (w_inner x) (w_outer x) false (w_inset x)))
                    (e_ready s), VNone)
        end
      else (s, VNone)
  | None => (s, VNone)
  end.

(* cancel() on the awaitable returned by wait w *)
Definition e_cancel (w : nat) (s : estate) : estate * eevent :=
  match nth_error (e_waits s) w with
  | Some x =>
      match w_outer x with
      | Some OPending =>
          (mkE (e_value s) (set_nth (e_waits s) w (mkWait (w_inner x) (Some OCancelled) (w_armed x) (w_inset x)))
               (e_ready s ++ [CbOuter w]), VCancel true)
      | Some _ => (s, VCancel false)
      | None =>
          match w_inner x with
          | IPending =>
              (mkE (e_value s) (set_nth (e_waits s) w (mkWait ICancelled None (w_armed x) (w_inset x)))
                   (e_ready s ++ [CbInner w]), VCancel true)
          | _ => (s, VCancel false)
          end
      end
  | None => (s, VNone)
  end.

(* run one queued callback; returns the new records and the callbacks it schedules *)
Definition run_cb (c : cb) (ws : list ewait) : list ewait * list cb :=
  match c with
  | CbInner w =>
      match nth_error ws w with
      | Some x =>
          match w_outer x with
          | Some OPending =>       (* chain_future.copy: b not done *)
              let o := match w_inner x with ICancelled => OCancelled | _ => OOk end in
              (set_nth ws w (mkWait (w_inner x) (Some o) false false), [CbOuter w])
          | _ => (set_nth ws w (mkWait (w_inner x) (w_outer x) false false), [])
          end
      | None => (ws, [])
      end
  | CbOuter w =>
      match nth_error ws w with
      | Some x =>
          match w_inner x with
          | IPending => (set_nth ws w (mkWait ICancelled (w_outer x) (w_armed x) (w_inset x)), [CbInner w])
          | _ => (ws, [])
          end
      | None => (ws, [])
      end
  end.

Fixpoint run_cbs (cbs : list cb) (ws : list ewait) : list ewait * list cb :=
  match cbs with
  | [] => (ws, [])
  | c :: cbs' =>
      let '(ws1, new1) := run_cb c ws in
      let '(ws2, new2) := run_cbs cbs' ws1 in
      (ws2, new1 ++ new2)
  end.

Definition e_drain (s : estate) : estate :=
  let '(ws, new) := run_cbs (e_ready s) (e_waits s) in mkE (e_value s) ws new.

Definition estep (s : estate) (o : eop) : estate * eevent :=
  match o with
  | EWait t => e_wait (timed_of t) s
  | ESet => (e_set s, VNone)
  | EClear => (mkE false (e_waits s) (e_ready s), VNone)
  | EFire w => e_fire w s
  | ECancel w => e_cancel w s
  | EDrain => (e_drain s, VNone)
  end.

Fixpoint erun (s : estate) (ops : list eop) : list (eevent * estate) :=
  match ops with
  | [] => []
  | o :: ops' => let '(s', e) := estep s o in (e, s') :: erun s' ops'
  end.

(* what the caller of wait w sees on the awaitable it got back *)
Inductive rstate := RPending | ROk | RTimeout | RCancelled.
Definition returned (x : ewait) : rstate :=
  match w_outer x with
  | Some OPending => RPending
  | Some OOk => ROk
  | Some OTimeout => RTimeout
  | Some OCancelled => RCancelled
  | None => match w_inner x with IPending => RPending | IDone => ROk | ICancelled => RCancelled end
  end.

Definition rstate_eqb (a b : rstate) : bool :=
  match a, b with
  | RPending, RPending | ROk, ROk | RTimeout, RTimeout | RCancelled, RCancelled => true
  | _, _ => false
  end.

Inductive case := CondCase (ops : list cop) | EventCase (ops : list eop).
