(* C34 — Conditions and events wake exactly the right waiters.
   Property theorems only; proofs are in ProofsCond*.v (Condition) and ProofsEvent*.v (Event).
   Vocabulary (Model.v).  Condition: [crun cond_init ops] is the trace of the model of
   tornado.locks.Condition under a schedule of wait / notify n / notify_all / timer of wait w
   fires / future w cancelled / loop-iteration boundary; future states are read as
   Granted = resolved True, TimedOut = resolved False; [live fs ws] (C33.Proofs) is the list of
   pending futures in the deque, oldest first.  Event: [erun event_init ops] is the trace of the
   model of tornado.locks.Event with gen.with_timeout; a wait record has the inner future kept in
   Event._waiters, the outer future of with_timeout (None for wait()), the timer flag and the
   membership flag; [returned x] is the state of the awaitable the caller got back; [e_ready] is
   the loop's queue of done-callbacks, [e_drain] one loop iteration.
   "Deadline" is read at loop-iteration granularity (see NOTES.md). *)
From Coq Require Import List ZArith Arith Sorted.
Import ListNotations.
From TV Require Import Lib.Obs C33.Model C33.Proofs C34.Model C34.Run
  C34.ProofsCond C34.ProofsCond2 C34.ProofsEvent C34.ProofsEvent2 C34.ProofsEvent3 C34.ProofsEvent6 C34.ProofsP4.
Local Open Scope Z_scope.

(* ===== Condition ===== *)

(* REF: for every schedule the model produces the events of the FIFO reference (notify n
   pops min(n, live) waiters - all of them for n < 0 -, a fired timer or a cancellation removes
   its waiter), and its abstraction (live waiters, number of waits) is the reference state *)
Theorem C34_condition_refines_fifo_reference :
  forall ops, map (fun es => (fst es, cabs (snd es))) (crun cond_init ops) = cspec_run (mkCSpec [] 0) ops.
Proof. exact cond_refinement. Qed.
Print Assumptions C34_condition_refines_fifo_reference.

(* in every reachable state the deque is in arrival order and contains every pending future *)
Theorem C34_condition_queue_in_arrival_order :
  forall s, creachable s ->
    StronglySorted lt (s_waiters s)
    /\ (forall w, In w (s_waiters s) -> (w < length (s_futs s))%nat)
    /\ (forall w, pending (s_futs s) w = true -> In w (s_waiters s)).
Proof. exact creachable_wf. Qed.
Print Assumptions C34_condition_queue_in_arrival_order.

(* notify(n), n >= 0, in any reachable state: the futures resolved are exactly the first
   min(n, live) live waiters in arrival order, each was pending and is now True, the live
   queue loses exactly them, and no other future changes *)
Theorem C34_notify_wakes_exactly_min_n_live_oldest_first :
  forall s n s' wk, creachable s -> cstep s (CNotify n) = (s', CvWoke wk) -> 0 <= n ->
    let L := map fst (live (s_futs s) (s_waiters s)) in
    wk = firstn (Z.to_nat n) L
    /\ length wk = Nat.min (Z.to_nat n) (length L)
    /\ map fst (live (s_futs s') (s_waiters s')) = skipn (Z.to_nat n) L
    /\ StronglySorted lt L
    /\ (forall w, In w wk -> pending (s_futs s) w = true /\ exists a, nth_error (s_futs s') w = Some (Granted, a))
    /\ (forall w, ~ In w wk -> nth_error (s_futs s') w = nth_error (s_futs s) w).
Proof. exact notify_exact. Qed.
Print Assumptions C34_notify_wakes_exactly_min_n_live_oldest_first.

(* notify_all wakes every live waiter, oldest first; a negative n does the same *)
Theorem C34_notify_all_wakes_all_live :
  forall s s' wk, creachable s -> cstep s CNotifyAll = (s', CvWoke wk) ->
    wk = map fst (live (s_futs s) (s_waiters s)) /\ live (s_futs s') (s_waiters s') = [].
Proof. exact notify_all_exact. Qed.
Print Assumptions C34_notify_all_wakes_all_live.

Theorem C34_notify_negative_is_notify_all :
  forall s n, n < 0 -> snd (cspec_step (cabs s) (CNotify n)) = snd (cspec_step (cabs s) CNotifyAll).
Proof. exact notify_negative. Qed.
Print Assumptions C34_notify_negative_is_notify_all.

(* a timer that fires on a pending wait resolves it False and removes it from the live queue *)
Theorem C34_timed_out_wait_resolves_false :
  forall s w s', creachable s -> cstep s (CFire w) = (s', CvTimedOut w) ->
    pending (s_futs s) w = true /\ armed (s_futs s) w = true
    /\ (exists a, nth_error (s_futs s') w = Some (TimedOut, a))
    /\ ~ In w (map fst (live (s_futs s') (s_waiters s'))).
Proof. exact fire_exact. Qed.
Print Assumptions C34_timed_out_wait_resolves_false.

(* resolved futures (True / False / cancelled) never change again, whatever happens next ... *)
Theorem C34_condition_resolved_futures_are_terminal :
  forall ops s w st a, nth_error (s_futs s) w = Some (st, a) -> st <> Pending ->
    Forall (fun es => exists a', nth_error (s_futs (snd es)) w = Some (st, a')) (crun s ops).
Proof. exact crun_terminal. Qed.
Print Assumptions C34_condition_resolved_futures_are_terminal.

(* ... and a future that is not pending (timed out, cancelled, already notified) is never
   counted among the waiters a notify wakes *)
Theorem C34_timed_out_waits_are_never_counted_as_notified :
  forall s o s' wk w st a, cstep s o = (s', CvWoke wk) -> nth_error (s_futs s) w = Some (st, a) ->
    st <> Pending -> ~ In w wk.
Proof. exact dead_never_notified. Qed.
Print Assumptions C34_timed_out_waits_are_never_counted_as_notified.

(* ===== Event ===== *)

(* while the event is set no inner future is pending, and no wait() caller is left pending *)
Theorem C34_event_no_lost_wakeup :
  forall s w x, ereachable s -> e_value s = true -> nth_error (e_waits s) w = Some x ->
    w_inner x <> IPending /\ (w_outer x = None -> returned x <> RPending).
Proof. intros s w x R. apply no_lost_wakeup. apply ereachable_inv; auto. Qed.
Print Assumptions C34_event_no_lost_wakeup.

(* "if": set() on a clear event completes a pending wait() at once ... *)
Theorem C34_event_set_completes_untimed_wait :
  forall s w x, ereachable s -> e_value s = false -> nth_error (e_waits s) w = Some x ->
    w_outer x = None -> returned x = RPending ->
    exists x', nth_error (e_waits (e_set s)) w = Some x' /\ returned x' = ROk.
Proof. intros s w x R. apply set_completes_untimed. apply ereachable_inv; auto. Qed.
Print Assumptions C34_event_set_completes_untimed_wait.

(* ... and a pending wait(timeout) one loop iteration later (its timer not having run in between) *)
Theorem C34_event_set_completes_timed_wait_at_next_iteration :
  forall s w x, ereachable s -> e_value s = false -> nth_error (e_waits s) w = Some x ->
    w_inner x = IPending -> w_outer x = Some OPending ->
    exists x', nth_error (e_waits (e_drain (e_set s))) w = Some x' /\ returned x' = ROk.
Proof. intros s w x R. apply set_then_iteration_completes_timed. apply ereachable_inv; auto. Qed.
Print Assumptions C34_event_set_completes_timed_wait_at_next_iteration.

(* "only if": a wait issued on a clear event cannot complete while the event stays clear:
   the new record is not completed, and that is preserved along every schedule whose states
   all have the flag false *)
Theorem C34_event_wait_completes_only_if_set :
  (forall t s, e_value s = false ->
     exists x, nth_error (e_waits (fst (e_wait t s))) (length (e_waits s)) = Some x /\ not_completed x
               /\ returned x = RPending)
  /\ (forall ops s w x, ereachable s -> nth_error (e_waits s) w = Some x -> not_completed x ->
        Forall (fun es => e_value (snd es) = false) (erun s ops) ->
        exists x', nth_error (e_waits (efinal s (erun s ops))) w = Some x' /\ not_completed x' /\ returned x' <> ROk).
Proof.
  split; [exact wait_on_clear_event_not_completed|].
  intros ops s w x R. apply not_completed_run. apply ereachable_inv; auto.
Qed.
Print Assumptions C34_event_wait_completes_only_if_set.

(* deadline: the timer of a pending wait(timeout) is still armed, and when it runs the caller
   gets TimeoutError; TimeoutError never comes from anything but that timer *)
Theorem C34_event_deadline_raises_timeout :
  forall s w x, ereachable s -> nth_error (e_waits s) w = Some x -> w_outer x = Some OPending ->
    w_armed x = true /\ snd (e_fire w s) = VTimedOut w /\
    exists x', nth_error (e_waits (fst (e_fire w s))) w = Some x' /\ returned x' = RTimeout.
Proof. intros s w x R. apply fire_times_out. apply ereachable_inv; auto. Qed.
Print Assumptions C34_event_deadline_raises_timeout.

Theorem C34_event_timeout_only_from_its_timer :
  forall s o w x, nth_error (e_waits s) w = Some x -> returned x <> RTimeout ->
    forall x', nth_error (e_waits (fst (estep s o))) w = Some x' -> returned x' = RTimeout -> o = EFire w.
Proof. exact timeout_only_from_timer. Qed.
Print Assumptions C34_event_timeout_only_from_its_timer.

(* a resolved awaitable (done / TimeoutError / cancelled) keeps its state under every operation *)
Theorem C34_event_resolved_awaitables_are_terminal :
  forall s o w x, ereachable s -> nth_error (e_waits s) w = Some x -> returned x <> RPending ->
    exists x', nth_error (e_waits (fst (estep s o))) w = Some x' /\ returned x' = returned x.
Proof. intros s o w x R. apply returned_terminal. apply ereachable_inv; auto. Qed.
Print Assumptions C34_event_resolved_awaitables_are_terminal.

(* no residue: two loop iterations empty the callback queue, and with an empty queue a future is
   in Event._waiters (or has an armed timer) only if its wait is genuinely still pending *)
Theorem C34_event_finished_waits_leave_no_residue :
  forall s, ereachable s ->
    e_ready (e_drain (e_drain s)) = []
    /\ (e_ready s = [] -> forall w x, nth_error (e_waits s) w = Some x ->
          (w_inset x = true \/ w_armed x = true <-> w_inset x = true) /\
          (w_inset x = true <-> w_inner x = IPending) /\
          (w_inner x = IPending <-> returned x = RPending)).
Proof.
  intros s R. pose proof (ereachable_inv s R) as I. split; [apply two_drains_quiesce; auto|].
  intros Q w x E. apply (quiescent_no_residue s w x I Q E).
Qed.
Print Assumptions C34_event_finished_waits_leave_no_residue.

(* timeouts: any argument other than None - in particular the falsy 0, 0.0 and timedelta(0) -
   is a deadline: Condition.wait arms a timer that resolves the wait False, Event.wait on a
   clear event arms a timer that gives TimeoutError *)
Theorem C34_condition_any_timeout_including_zero_is_a_deadline :
  forall s t, t <> TNone ->
    let w := length (s_futs s) in
    let s1 := fst (cstep s (CWait t)) in
    snd (cstep s (CWait t)) = CvWaiting w
    /\ nth_error (s_futs s1) w = Some (Pending, true)
    /\ snd (cstep s1 (CFire w)) = CvTimedOut w.
Proof. exact cond_any_timeout_is_a_deadline. Qed.
Print Assumptions C34_condition_any_timeout_including_zero_is_a_deadline.

Theorem C34_event_any_timeout_including_zero_is_a_deadline :
  forall s t, t <> TNone -> e_value s = false ->
    let w := length (e_waits s) in
    let s1 := fst (estep s (EWait t)) in
    snd (estep s (EWait t)) = VWaiting w
    /\ snd (estep s1 (EFire w)) = VTimedOut w
    /\ exists x', nth_error (e_waits (fst (estep s1 (EFire w)))) w = Some x' /\ returned x' = RTimeout.
Proof. exact event_any_timeout_is_a_deadline. Qed.
Print Assumptions C34_event_any_timeout_including_zero_is_a_deadline.

(* _TimeoutGarbageCollector._garbage_collect (threshold 100), for ANY deque and future table:
   futures untouched; the live (pending) waiters are kept, in their original relative order;
   the deque is rebuilt exactly when the counter passes 100 (it then becomes the ordered list
   of live waiters and the counter restarts), otherwise it is unchanged; only resolved entries
   are ever dropped *)
Theorem C34_garbage_collection_preserves_live_order :
  forall s,
    s_futs (garbage_collect s) = s_futs s
    /\ live_ids (s_futs (garbage_collect s)) (s_waiters (garbage_collect s)) = live_ids (s_futs s) (s_waiters s)
    /\ live (s_futs (garbage_collect s)) (s_waiters (garbage_collect s)) = live (s_futs s) (s_waiters s)
    /\ (if (100 <? S (s_timeouts s))%nat
        then s_waiters (garbage_collect s) = live_ids (s_futs s) (s_waiters s) /\ s_timeouts (garbage_collect s) = 0%nat
        else s_waiters (garbage_collect s) = s_waiters s /\ s_timeouts (garbage_collect s) = S (s_timeouts s))
    /\ (forall w, In w (s_waiters s) -> ~ In w (s_waiters (garbage_collect s)) -> pending (s_futs s) w = false).
Proof. exact gc_preserves_live_order. Qed.
Print Assumptions C34_garbage_collection_preserves_live_order.

(* ... and along the operation that triggers it: after a timer fires in a reachable state - with
   or without a collection - the live waiters are the previous ones in the same order, minus
   the waiter that just timed out *)
Theorem C34_timer_expiry_preserves_live_order :
  forall s w, creachable s ->
    live_ids (s_futs (fst (cstep s (CFire w)))) (s_waiters (fst (cstep s (CFire w))))
    = filter (fun x => negb (Nat.eqb x w && (pending (s_futs s) w && armed (s_futs s) w)))
             (live_ids (s_futs s) (s_waiters s)).
Proof. intros s w R. apply fire_preserves_live_order. apply creachable_wf; auto. Qed.
Print Assumptions C34_timer_expiry_preserves_live_order.

(* the observable of the model passes the property checker that is applied to the
   implementation's observable, for every Condition and every Event schedule *)
Theorem C34_model_passes_checker : forall c, check_case c (run_case c) = true.
Proof. exact check_case_model. Qed.
Print Assumptions C34_model_passes_checker.
