(* C34 — combined statements and non-vacuity examples. *)
From Coq Require Import List ZArith Arith Bool Lia.
Import ListNotations.
From TV Require Import C33.Model C34.Model C34.ProofsEvent C34.ProofsEvent2 C34.ProofsCond C34.ProofsCond2 C34.Run.

Lemma set_then_iteration_completes_timed s w x :
  einv s -> e_value s = false -> nth_error (e_waits s) w = Some x ->
  w_inner x = IPending -> w_outer x = Some OPending ->
  exists x', nth_error (e_waits (e_drain (e_set s))) w = Some x' /\ returned x' = ROk.
Proof.
  intros I V E P O. destruct (set_resolves_inner s w x I V E P) as [E' _].
  eapply drain_completes_timed; [apply set_inv; auto|exact E'|reflexivity|exact O].
Qed.

Lemma check_case_cond ops : check_case (CondCase ops) (run_case (CondCase ops)) = true.
Proof. apply check_cond_model. Qed.

(* the hypotheses of the theorems are met by concrete schedules *)
Example ex_event_set_then_timer_same_iteration :
  map (fun es => map returned (e_waits (snd es)))
      (erun event_init [EWait TZeroInt; EDrain; ESet; EFire 0; EDrain; EDrain])
  = [[RPending]; [RPending]; [RPending]; [RTimeout]; [RTimeout]; [RTimeout]].
Proof. reflexivity. Qed.

Example ex_event_set_then_iteration :
  map (fun es => map returned (e_waits (snd es)))
      (erun event_init [EWait TZeroInt; EWait TNone; ESet; EDrain; EFire 0])
  = [[RPending]; [RPending; RPending]; [RPending; ROk]; [ROk; ROk]; [ROk; ROk]].
Proof. reflexivity. Qed.

Example ex_event_reachable_pending_timed :
  exists s x, ereachable s /\ e_value s = false /\ nth_error (e_waits s) 0 = Some x
              /\ w_inner x = IPending /\ w_outer x = Some OPending.
Proof.
  exists (efinal event_init (erun event_init [EWait TZeroInt; EDrain])). eexists.
  split; [exists [EWait TZeroInt; EDrain]; reflexivity|]. repeat split; reflexivity.
Qed.

Example ex_cond_notify :
  map fst (crun cond_init [CWait TNone; CWait TDelta; CWait TNone; CWait TNone; CDrain; CFire 1; CNotify 2; CNotifyAll])
  = [CvWaiting 0; CvWaiting 1; CvWaiting 2; CvWaiting 3; CvNone; CvTimedOut 1; CvWoke [0; 2]; CvWoke [3]]%nat.
Proof. reflexivity. Qed.

Example ex_cond_reachable : creachable (cfinal cond_init (crun cond_init [CWait TNone; CWait TDelta; CNotify 1])).
Proof. exists [CWait TNone; CWait TDelta; CNotify 1]. reflexivity. Qed.

(* ---------- every non-None timeout (including 0, 0.0, timedelta(0)) is a deadline ---------- *)
Lemma cond_any_timeout_is_a_deadline s t :
  t <> TNone ->
  let w := List.length (s_futs s) in
  let s1 := fst (cstep s (CWait t)) in
  snd (cstep s (CWait t)) = CvWaiting w
  /\ nth_error (s_futs s1) w = Some (Pending, true)
  /\ snd (cstep s1 (CFire w)) = CvTimedOut w.
Proof.
  intros Ht w s1. unfold s1, w. simpl.
  assert (T : timed_of t = true) by (destruct t; auto; congruence). rewrite T.
  assert (E : nth_error (s_futs s ++ [(Pending, true)]) (List.length (s_futs s)) = Some (Pending, true)).
  { rewrite C33.ListFacts.nth_error_snoc, Nat.ltb_irrefl, Nat.eqb_refl. reflexivity. }
  split; auto. split; auto. unfold do_fire. simpl. rewrite E. reflexivity.
Qed.

Lemma event_any_timeout_is_a_deadline s t :
  t <> TNone -> e_value s = false ->
  let w := List.length (e_waits s) in
  let s1 := fst (estep s (EWait t)) in
  snd (estep s (EWait t)) = VWaiting w
  /\ snd (estep s1 (EFire w)) = VTimedOut w
  /\ exists x', nth_error (e_waits (fst (estep s1 (EFire w)))) w = Some x' /\ returned x' = RTimeout.
Proof.
  intros Ht V w s1. unfold s1, w. simpl. unfold e_wait. rewrite V. simpl.
  assert (T : timed_of t = true) by (destruct t; auto; congruence). rewrite T.
  split; auto. unfold e_fire. simpl.
  rewrite C33.ListFacts.nth_error_snoc, Nat.ltb_irrefl, Nat.eqb_refl. simpl. split; auto.
  eexists. split; [apply C33.ListFacts.nth_error_set_eq; rewrite app_length; simpl; lia|reflexivity].
Qed.
