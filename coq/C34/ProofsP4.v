(* C34 phase 4 — _TimeoutGarbageCollector._garbage_collect keeps the live waiters, in order.
   The model of _garbage_collect is C33.Model.garbage_collect (threshold 100, the deque is
   rebuilt as `filter pending`), called by on_timeout in C33.Model.do_fire, which is the
   CFire operation of the Condition model. *)
From Coq Require Import List ZArith Arith Bool Lia Sorted.
Import ListNotations.
From TV Require Import C33.Model C33.ListFacts C33.Proofs C33.Proofs2 C34.Model C34.ProofsCond.

(* subsequence of the pending entries of a deque, in deque order *)
Definition live_ids (fs : list fut) (ws : list nat) : list nat := filter (pending fs) ws.

Lemma live_ids_live fs ws : map fst (live fs ws) = live_ids fs ws.
Proof. unfold live, live_ids. rewrite map_map. simpl. apply map_id. Qed.

(* for ANY waiter deque and ANY future table: a collection leaves the futures alone, keeps
   exactly the live waiters in their original relative order, drops only resolved entries,
   and happens exactly when the counter passes 100 (then the counter restarts at 0) *)
Lemma gc_preserves_live_order s :
  s_futs (garbage_collect s) = s_futs s
  /\ live_ids (s_futs (garbage_collect s)) (s_waiters (garbage_collect s)) = live_ids (s_futs s) (s_waiters s)
  /\ live (s_futs (garbage_collect s)) (s_waiters (garbage_collect s)) = live (s_futs s) (s_waiters s)
  /\ (if (100 <? S (s_timeouts s))%nat
      then s_waiters (garbage_collect s) = live_ids (s_futs s) (s_waiters s) /\ s_timeouts (garbage_collect s) = 0%nat
      else s_waiters (garbage_collect s) = s_waiters s /\ s_timeouts (garbage_collect s) = S (s_timeouts s))
  /\ (forall w, In w (s_waiters s) -> ~ In w (s_waiters (garbage_collect s)) -> pending (s_futs s) w = false).
Proof.
  unfold garbage_collect, gc_threshold, live_ids.
  destruct (100 <? S (s_timeouts s))%nat eqn:T; simpl.
  - split; auto. split; [apply filter_idem|]. split; [apply live_filter|]. split; auto.
    intros w Hin Hn. destruct (pending (s_futs s) w) eqn:P; auto. exfalso. apply Hn. apply filter_In; auto.
  - split; auto. split; auto. split; auto. split; auto. intros w Hin Hn. contradiction.
Qed.

(* the same along the Condition operation that triggers it: when a timer fires, whatever the
   counter, the live waiters other than the one that timed out keep their order *)
Lemma fire_preserves_live_order s w :
  wf s ->
  live_ids (s_futs (fst (cstep s (CFire w)))) (s_waiters (fst (cstep s (CFire w))))
  = filter (fun x => negb (Nat.eqb x w && (pending (s_futs s) w && armed (s_futs s) w)))
           (live_ids (s_futs s) (s_waiters s)).
Proof.
  intros W. destruct (cstep_sim s (CFire w) W) as [_ E]. rewrite <- !live_ids_live.
  simpl in E. destruct (has_deadline w (live (s_futs s) (s_waiters s))) eqn:D; inversion E as [[Q L]].
  - apply has_deadline_live in D as (P & A & _). rewrite P, A. simpl. rewrite <- Q.
    unfold remove_w. generalize (live (s_futs s) (s_waiters s)). intros l0.
    induction l0 as [|[x b] l0 IH]; simpl; auto.
    rewrite andb_true_r. destruct (x =? w)%nat; simpl; [exact IH|f_equal; exact IH].
  - simpl. rewrite <- Q.
    assert (HH : forall x, In x (map fst (live (s_futs s) (s_waiters s))) ->
                negb ((x =? w)%nat && (pending (s_futs s) w && armed (s_futs s) w)) = true).
    { intros x Hx. destruct (Nat.eqb_spec x w) as [->|]; auto. simpl.
      destruct (pending (s_futs s) w && armed (s_futs s) w) eqn:PA; auto. exfalso.
      apply andb_true_iff in PA as [P A]. apply in_map_iff in Hx as ([y b] & Ey & Hy). simpl in Ey. subst y.
      pose proof (live_in _ _ _ _ Hy) as (I1 & _ & ->).
      assert (has_deadline w (live (s_futs s) (s_waiters s)) = true) by (apply has_deadline_true; rewrite <- A; apply in_live; auto).
      congruence. }
    revert HH. generalize (map fst (live (s_futs s) (s_waiters s))). intros l HH.
    induction l as [|x l IH]; simpl; auto. rewrite (HH x (or_introl eq_refl)). f_equal. apply IH. intros; apply HH; right; auto.
Qed.
