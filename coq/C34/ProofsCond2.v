(* C34 — Condition: theorems on reachable states and the checker. *)
From Coq Require Import List ZArith Arith Bool Lia Sorted String.
Import ListNotations.
From TV Require Import Lib.Obs C33.Model C33.ListFacts C33.Proofs C33.Proofs2 C33.Proofs3 C34.Model C34.ProofsCond C34.Run.
Local Open Scope Z_scope.

Definition creachable (s : state) : Prop := exists ops, s = cfinal cond_init (crun cond_init ops).

Lemma creachable_wf s : creachable s -> wf s.
Proof.
  intros (ops & ->). destruct (crun_sim ops cond_init wf_cond_init) as [_ F].
  unfold cfinal. apply (last_forall wf); [|apply wf_cond_init]. apply Forall_map. exact F.
Qed.

Lemma cond_refinement ops :
  map (fun es => (fst es, cabs (snd es))) (crun cond_init ops) = cspec_run (mkCSpec [] 0) ops.
Proof. apply (crun_sim ops cond_init wf_cond_init). Qed.

(* notify(n), n >= 0, in a reachable state: exactly the min(n, live) oldest live waiters
   are resolved True, in arrival order; the others stay as they were *)
Lemma notify_exact s n s' wk :
  creachable s -> cstep s (CNotify n) = (s', CvWoke wk) -> 0 <= n ->
  let L := map fst (live (s_futs s) (s_waiters s)) in
  wk = firstn (Z.to_nat n) L
  /\ List.length wk = Nat.min (Z.to_nat n) (List.length L)
  /\ map fst (live (s_futs s') (s_waiters s')) = skipn (Z.to_nat n) L
  /\ StronglySorted lt L
  /\ (forall w, In w wk -> pending (s_futs s) w = true /\ exists a, nth_error (s_futs s') w = Some (Granted, a))
  /\ (forall w, ~ In w wk -> nth_error (s_futs s') w = nth_error (s_futs s) w).
Proof.
  intros R H Hn L. pose proof (creachable_wf s R) as W. pose proof W as (HS & HB & HP).
  simpl in H. unfold c_notify in H.
  destruct (notify_pop (s_futs s) n (s_waiters s)) as [wk0 rest] eqn:E. inversion H; subst. clear H.
  destruct (notify_pop_spec _ _ _ _ _ E) as [A B].
  destruct (notify_pop_parts _ _ _ _ _ HS E) as (P1 & P2 & P3 & P4).
  assert (C : wake_count n (List.length (live (s_futs s) (s_waiters s))) =
              Nat.min (Z.to_nat n) (List.length (live (s_futs s) (s_waiters s)))).
  { unfold wake_count. replace (n <? 0) with false by (symmetry; apply Z.ltb_ge; lia). reflexivity. }
  assert (FM : forall c (l : list (nat * bool)), firstn (Nat.min c (List.length l)) l = firstn c l).
  { intros c l. destruct (Nat.le_ge_cases c (List.length l)).
    - rewrite Nat.min_l; auto.
    - rewrite Nat.min_r by auto. rewrite firstn_all. symmetry. apply firstn_all2. auto. }
  assert (SM : forall c (l : list (nat * bool)), skipn (Nat.min c (List.length l)) l = skipn c l).
  { intros c l. destruct (Nat.le_ge_cases c (List.length l)).
    - rewrite Nat.min_l; auto.
    - rewrite Nat.min_r by auto. rewrite skipn_all. symmetry. apply skipn_all2. auto. }
  rewrite C in A, B. rewrite FM in A. rewrite SM in B.
  assert (Hdisj : forall x, In x rest -> ~ In x wk).
  { intros x Hr Hw. destruct (P2 x Hw) as (_ & _ & F). rewrite Forall_forall in F. specialize (F x Hr). lia. }
  split; [|split; [|split; [|split; [|split]]]].
  - unfold L. rewrite A. rewrite firstn_map. reflexivity.
  - unfold L. rewrite A. rewrite !map_length, firstn_length. reflexivity.
  - simpl. unfold L. rewrite skipn_map. rewrite <- B. f_equal.
    apply live_ext. intros x Hx. unfold pending, armed. rewrite wake_all_other by auto. auto.
  - unfold L, live. rewrite map_map. simpl. rewrite map_id. apply ssorted_filter; auto.
  - intros w Hw. destruct (P2 w Hw) as (Q1 & Q2 & _). split; auto.
    simpl. apply wake_all_in; auto.
  - intros w Hw. simpl. apply wake_all_other; auto.
Qed.

(* a negative n behaves as notify_all *)
Lemma notify_negative s n :
  n < 0 -> snd (cspec_step (cabs s) (CNotify n)) = snd (cspec_step (cabs s) CNotifyAll).
Proof.
  intros H. simpl. unfold wake_count. replace (n <? 0) with true by (symmetry; apply Z.ltb_lt; auto).
  rewrite firstn_all. reflexivity.
Qed.

Lemma notify_all_exact s s' wk :
  creachable s -> cstep s CNotifyAll = (s', CvWoke wk) ->
  wk = map fst (live (s_futs s) (s_waiters s)) /\ live (s_futs s') (s_waiters s') = [].
Proof.
  intros R H. pose proof (creachable_wf s R) as W.
  destruct (cstep_sim s CNotifyAll W) as [_ E]. rewrite H in E. simpl in E. inversion E. auto.
Qed.

(* timer expiry *)
Lemma fire_exact s w s' :
  creachable s -> cstep s (CFire w) = (s', CvTimedOut w) ->
  pending (s_futs s) w = true /\ armed (s_futs s) w = true
  /\ (exists a, nth_error (s_futs s') w = Some (TimedOut, a))
  /\ ~ In w (map fst (live (s_futs s') (s_waiters s'))).
Proof.
  intros R H. pose proof (creachable_wf s R) as W.
  destruct (cstep_sim s (CFire w) W) as [_ E]. rewrite H in E. simpl in E.
  destruct (has_deadline w (live (s_futs s) (s_waiters s))) eqn:D; [|inversion E].
  assert (Q : live (s_futs s') (s_waiters s') = remove_w w (live (s_futs s) (s_waiters s)))
    by (unfold cabs in E; congruence).
  apply has_deadline_live in D as (P & A & I). split; auto. split; auto.
  split.
  - simpl in H. unfold do_fire in H. unfold pending in P. unfold armed in A.
    destruct (nth_error (s_futs s) w) as [[st a]|] eqn:En; try discriminate.
    destruct st; try discriminate. simpl in A. subst a. simpl in H. inversion H; subst.
    assert (GC : forall s1, s_futs (garbage_collect s1) = s_futs s1).
    { intros s1. unfold garbage_collect. destruct (gc_threshold <? S (s_timeouts s1))%nat; reflexivity. }
    rewrite GC. simpl. exists false. apply nth_error_set_eq. eapply nth_error_some_lt; eauto.
  - rewrite Q. unfold remove_w. intros Hin. apply in_map_iff in Hin as ([x b] & Ex & Hx).
    simpl in Ex. subst. apply filter_In in Hx as [_ Hx]. simpl in Hx. rewrite Nat.eqb_refl in Hx. discriminate.
Qed.

Lemma fire_noop_cases s w s' :
  cstep s (CFire w) = (s', CvNone) -> forall x st a, nth_error (s_futs s) x = Some (st, a) ->
  exists a', nth_error (s_futs s') x = Some (st, a').
Proof.
  intros H x st a E. simpl in H.
  pose proof (step_terminal KSem 0 s (Fire w) x st a E) as T. simpl in T.
  destruct (do_fire w s) as [s1 e] eqn:F. inversion H; subst.
  destruct st; try (apply T; discriminate).
  (* pending future: an EvNone fire leaves it pending *)
  unfold do_fire in F. destruct (nth_error (s_futs s) w) as [[st' [|]]|] eqn:Ew; try (inversion F; subst; eauto; fail).
  assert (GC : forall s1, s_futs (garbage_collect s1) = s_futs s1).
  { intros s1. unfold garbage_collect. destruct (gc_threshold <? S (s_timeouts s1))%nat; reflexivity. }
  destruct (is_pending_st st') eqn:Ps; inversion F; subst; try discriminate.
  rewrite GC. simpl. destruct (Nat.eq_dec w x) as [->|Hne].
  - rewrite E in Ew. inversion Ew; subst. discriminate.
  - rewrite nth_error_set_neq by auto. eauto.
Qed.

(* resolved futures are terminal under every Condition operation *)
Lemma cstep_terminal s o w st a :
  nth_error (s_futs s) w = Some (st, a) -> st <> Pending ->
  exists a', nth_error (s_futs (fst (cstep s o))) w = Some (st, a').
Proof.
  intros E Hst. destruct o as [t|n| |x|x|]; unfold cstep.
  - simpl. exists a. rewrite nth_error_app1; auto. eapply nth_error_some_lt; eauto.
  - unfold c_notify. destruct (notify_pop (s_futs s) n (s_waiters s)) as [wk rest] eqn:P. simpl.
    assert (~ In w wk).
    { intros Hin. clear - P Hin E Hst. revert n wk rest P Hin.
      induction (s_waiters s) as [|y ws IH]; intros n wk rest P Hin; simpl in P.
      - inversion P; subst. destruct Hin.
      - destruct (n =? 0); [inversion P; subst; destruct Hin|].
        destruct (pending (s_futs s) y) eqn:Py.
        + destruct (notify_pop (s_futs s) (n - 1) ws) as [wk' r'] eqn:E'. inversion P; subst.
          destruct Hin as [->|Hin]; [|eapply IH; eauto].
          unfold pending in Py. rewrite E in Py. destruct st; congruence.
        + eapply IH; eauto. }
    exists a. rewrite wake_all_other; auto.
  - unfold c_notify. destruct (notify_pop (s_futs s) _ (s_waiters s)) as [wk rest] eqn:P. simpl.
    assert (~ In w wk).
    { intros Hin. clear - P Hin E Hst. revert P Hin. generalize (Z.of_nat (List.length (s_waiters s))). intros n. revert n wk rest.
      induction (s_waiters s) as [|y ws IH]; intros n wk rest P Hin; simpl in P.
      - inversion P; subst. destruct Hin.
      - destruct (n =? 0); [inversion P; subst; destruct Hin|].
        destruct (pending (s_futs s) y) eqn:Py.
        + destruct (notify_pop (s_futs s) (n - 1) ws) as [wk' r'] eqn:E'. inversion P; subst.
          destruct Hin as [->|Hin]; [|eapply IH; eauto].
          unfold pending in Py. rewrite E in Py. destruct st; congruence.
        + eapply IH; eauto. }
    exists a. rewrite wake_all_other; auto.
  - pose proof (step_terminal KSem 0 s (Fire x) w st a E Hst) as T. simpl in T. destruct (do_fire x s). exact T.
  - pose proof (step_terminal KSem 0 s (Cancel x) w st a E Hst) as T. simpl in T. destruct (do_cancel x s). exact T.
  - apply (step_terminal KSem 0 s Drain w st a E Hst).
Qed.

Lemma crun_terminal ops : forall s w st a,
  nth_error (s_futs s) w = Some (st, a) -> st <> Pending ->
  Forall (fun es => exists a', nth_error (s_futs (snd es)) w = Some (st, a')) (crun s ops).
Proof.
  induction ops as [|o ops IH]; intros s w st a E H; simpl; [constructor|].
  destruct (cstep_terminal s o w st a E H) as [a' E'].
  destruct (cstep s o) as [s' e]. simpl in *. constructor; eauto.
Qed.

(* a future that is not pending (e.g. timed out: False) is never among those a notify wakes *)
Lemma dead_never_notified s o s' wk w st a :
  cstep s o = (s', CvWoke wk) -> nth_error (s_futs s) w = Some (st, a) -> st <> Pending -> ~ In w wk.
Proof.
  intros H E Hst Hin.
  assert (G : forall n, c_notify n s = (s', CvWoke wk) -> False).
  { intros n Hn. unfold c_notify in Hn.
    destruct (notify_pop (s_futs s) n (s_waiters s)) as [wk0 rest] eqn:P. inversion Hn; subst.
    clear - P Hin E Hst. revert n wk rest P Hin.
    induction (s_waiters s) as [|y ws IH]; intros n wk rest P Hin; simpl in P.
    - inversion P; subst. destruct Hin.
    - destruct (n =? 0); [inversion P; subst; destruct Hin|].
      destruct (pending (s_futs s) y) eqn:Py.
      + destruct (notify_pop (s_futs s) (n - 1) ws) as [wk' r'] eqn:E'. inversion P; subst.
        destruct Hin as [->|Hin]; [|eapply IH; eauto].
        unfold pending in Py. rewrite E in Py. destruct st; congruence.
      + eapply IH; eauto. }
  destruct o as [t|n| |x|x|]; unfold cstep in H; try (eapply G; eauto; fail).
  - inversion H.
  - destruct (do_fire x s) as [s1 e]. inversion H. destruct e; discriminate.
  - destruct (do_cancel x s) as [s1 e]. inversion H. destruct e; discriminate.
  - inversion H.
Qed.

(* ---------- the checker ---------- *)
Lemma csteps_match_ok ops : forall s,
  wf s -> csteps_match (cspec_run (cabs s) ops) (map cstep_obs (crun s ops)) = true.
Proof.
  induction ops as [|o ops IH]; intros s W; simpl; auto.
  destruct (cstep_sim s o W) as [W' E]. rewrite E.
  destruct (cstep s o) as [s' e]. simpl in *. rewrite obs_eqb_refl, IH by auto. reflexivity.
Qed.

Lemma cevents_eq ops s : wf s -> map fst (crun s ops) = map fst (cspec_run (cabs s) ops).
Proof.
  intros W. destruct (crun_sim ops s W) as [E _]. rewrite <- E. rewrite map_map. reflexivity.
Qed.

Lemma wake_all_map fs wk : map fst (wake_all fs wk) = set_all (map fst fs) wk Granted.
Proof.
  revert fs; induction wk as [|w wk IH]; intros fs; simpl; auto.
  rewrite IH, map_set_nth. reflexivity.
Qed.

Lemma cstep_replay s o :
  map fst (s_futs (fst (cstep s o))) = creplay1 (map fst (s_futs s)) o (snd (cstep s o)).
Proof.
  assert (GC : forall s1, s_futs (garbage_collect s1) = s_futs s1).
  { intros s1. unfold garbage_collect. destruct (gc_threshold <? S (s_timeouts s1))%nat; reflexivity. }
  destruct o as [t|n| |x|x|]; unfold cstep.
  - simpl. rewrite map_app. reflexivity.
  - unfold c_notify. destruct (notify_pop (s_futs s) n (s_waiters s)) as [wk rest]. simpl. apply wake_all_map.
  - unfold c_notify. destruct (notify_pop (s_futs s) _ (s_waiters s)) as [wk rest]. simpl. apply wake_all_map.
  - unfold do_fire. destruct (nth_error (s_futs s) x) as [[st' [|]]|] eqn:Ex; simpl; auto.
    destruct (is_pending_st st') eqn:Hp; simpl; rewrite GC; simpl; rewrite map_set_nth; simpl; auto.
    apply set_nth_same. rewrite (map_nth_error fst _ _ Ex). reflexivity.
  - unfold do_cancel. destruct (nth_error (s_futs s) x) as [[[] a']|] eqn:Ex; simpl; auto.
    rewrite map_set_nth. reflexivity.
  - simpl. rewrite map_map. apply map_ext. intros [st a]. simpl. destruct (is_pending_st st); reflexivity.
Qed.

Lemma cfinal_cons s e s' tr : cfinal s ((e, s') :: tr) = cfinal s' tr.
Proof. unfold cfinal. simpl map. apply last_cons. Qed.

Lemma crun_replay ops : forall s,
  map fst (s_futs (cfinal s (crun s ops))) = creplay (map fst (s_futs s)) ops (map fst (crun s ops)).
Proof.
  induction ops as [|o ops IH]; intros s; simpl; auto.
  pose proof (cstep_replay s o) as R. destruct (cstep s o) as [s' e]. simpl in *.
  rewrite cfinal_cons, IH, R. reflexivity.
Qed.

Lemma check_cond_model ops : check_cond ops (run_case (CondCase ops)) = true.
Proof.
  unfold check_cond, run_case.
  change (mkCSpec [] 0) with (cabs cond_init).
  rewrite csteps_match_ok by apply wf_cond_init.
  rewrite <- (cevents_eq ops cond_init wf_cond_init).
  rewrite obs_eqb_refl.
  assert (M : forall l : list fut, map (fun f : fut => ctag_of (fst f)) l = map ctag_of (map fst l))
    by (intros; rewrite map_map; reflexivity).
  rewrite M, crun_replay. change (map fst (s_futs cond_init)) with (@nil fstate). rewrite obs_eqb_refl. reflexivity.
Qed.
