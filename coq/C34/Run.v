(* Executable entry points used by the correspondence check. *)
From Coq Require Import List ZArith Arith String Bool.
Import ListNotations.
From TV Require Import Lib.Obs C33.Model C33.Run C34.Model.
Local Open Scope Z_scope.

Definition onat (n : nat) : obs := OInt (Z.of_nat n).

(* ---------- Condition ---------- *)
Definition ctag_of (s : fstate) : obs :=
  match s with
  | Pending => OTag "pending" | Granted => OTag "true"
  | TimedOut => OTag "false" | Cancelled => OTag "cancelled"
  end.

Definition cev_obs (e : cevent) : obs :=
  match e with
  | CvWaiting _ => OTag "waiting"
  | CvWoke ws => OList [OTag "woke"; OList (map onat ws)]
  | CvTimedOut _ => OTag "timedout"
  | CvCancel b => OBool b
  | CvNone => ONone
  end.

Definition cstep_obs (es : cevent * state) : obs :=
  let '(e, s) := es in
  OList [cev_obs e; onat (List.length (s_waiters s)); onat (s_timeouts s)].

(* resolution order: (future, state) *)
Definition cresolved (o : cop) (e : cevent) : list (nat * fstate) :=
  match o, e with
  | _, CvWoke ws => map (fun w => (w, Granted)) ws
  | _, CvTimedOut w => [(w, TimedOut)]
  | CCancel w, CvCancel true => [(w, Cancelled)]
  | _, _ => []
  end.

Fixpoint clog (ops : list cop) (evs : list cevent) : list (nat * fstate) :=
  match ops, evs with
  | o :: ops', e :: evs' => cresolved o e ++ clog ops' evs'
  | _, _ => []
  end.

Definition clog_obs (log : list (nat * fstate)) : list obs :=
  map (fun r => OList [onat (fst r); ctag_of (snd r)]) log.

Definition cfinal (s : state) (tr : list (cevent * state)) : state := last (map snd tr) s.

(* ---------- Event ---------- *)
Definition itag (i : istate) : obs :=
  match i with IPending => OTag "pending" | IDone => OTag "done" | ICancelled => OTag "cancelled" end.
Definition rtag (r : rstate) : obs :=
  match r with RPending => OTag "pending" | ROk => OTag "done" | RTimeout => OTag "timeout" | RCancelled => OTag "cancelled" end.

Definition eev_obs (e : eevent) : obs :=
  match e with
  | VDone _ => OTag "done"
  | VWaiting _ => OTag "waiting"
  | VTimedOut _ => OTag "timedout"
  | VCancel b => OBool b
  | VNone => ONone
  end.

Fixpoint inset_ids (i : nat) (ws : list ewait) : list nat :=
  match ws with
  | [] => []
  | x :: ws' => if w_inset x then i :: inset_ids (S i) ws' else inset_ids (S i) ws'
  end.

Definition estep_obs (es : eevent * estate) : obs :=
  let '(e, s) := es in
  OList [eev_obs e; OBool (e_value s); OList (map onat (inset_ids 0 (e_waits s)));
         OList (map (fun x => rtag (returned x)) (e_waits s));
         OList (map (fun x => itag (w_inner x)) (e_waits s))].

Definition run_case (c : case) : obs :=
  match c with
  | CondCase ops =>
      let tr := crun cond_init ops in
      let sf := cfinal cond_init tr in
      OList [OList (map cstep_obs tr);
             OList (clog_obs (clog ops (map fst tr)));
             OList (map (fun f : fut => ctag_of (fst f)) (s_futs sf));
             OList (map onat (s_waiters sf))]
  | EventCase ops => OList (map estep_obs (erun event_init ops))
  end.

(* ---------- the property as a checker on an observable ---------- *)
(* Condition: events, resolution order and final future states are those of the FIFO reference *)
Fixpoint csteps_match (tr : list (cevent * cspec)) (steps : list obs) : bool :=
  match tr, steps with
  | [], [] => true
  | (e, _) :: tr', OList [eo; _; _] :: steps' => obs_eqb eo (cev_obs e) && csteps_match tr' steps'
  | _, _ => false
  end.

Definition check_cond (ops : list cop) (o : obs) : bool :=
  let tr := cspec_run (mkCSpec [] 0) ops in
  let evs := map fst tr in
  match o with
  | OList [OList steps; OList lg; OList finals; OList _] =>
      csteps_match tr steps
      && obs_eqb (OList lg) (OList (clog_obs (clog ops evs)))
      && obs_eqb (OList finals) (OList (map ctag_of (creplay [] ops evs)))
  | _ => false
  end.

(* Event: statements on the sequence of snapshots *)
Definition is_tag (t : string) (o : obs) : bool := obs_eqb o (OTag t).

(* one snapshot: an event that is set has no pending inner future (no lost wakeup);
   every pending inner future is in Event._waiters *)
Fixpoint pending_ids (inners : list obs) (i : nat) : list nat :=
  match inners with
  | [] => []
  | x :: r => if is_tag "pending" x then i :: pending_ids r (S i) else pending_ids r (S i)
  end.

Definition has_id (ids : list obs) (w : nat) : bool :=
  existsb (fun o => obs_eqb o (onat w)) ids.

Definition ids_of (o : obs) : list obs :=
  match o with OList [_; _; OList ids; _; _] => ids | _ => [] end.

Definition snap_ok (o : obs) : bool :=
  match o with
  | OList [_; OBool v; OList ids; OList rets; OList inners] =>
      (List.length rets =? List.length inners)%nat
      && (if v then forallb (fun x => negb (is_tag "pending" x)) inners else true)
      && forallb (has_id ids) (pending_ids inners 0)
  | _ => false
  end.

(* between consecutive snapshots: resolved awaitables keep their state; an awaitable
   becomes "done" only while the event is set or on a loop-iteration boundary following
   a set; "timeout" appears only on the step where that wait's timer fires *)
Fixpoint terminal_lists (a b : list obs) : bool :=
  match a, b with
  | [], _ => true
  | x :: a', y :: b' => (is_tag "pending" x || obs_eqb x y) && terminal_lists a' b'
  | _ :: _, [] => false
  end.

Definition rets_of (o : obs) : list obs :=
  match o with OList [_; _; _; OList rets; _] => rets | _ => [] end.
Definition inners_of (o : obs) : list obs :=
  match o with OList [_; _; _; _; OList inn] => inn | _ => [] end.
Definition value_of (o : obs) : bool :=
  match o with OList [_; OBool v; _; _; _] => v | _ => false end.

Fixpoint changed_to (t : string) (a b : list obs) (i : nat) : list nat :=
  match b with
  | [] => []
  | y :: b' =>
      let rest := changed_to t (tl a) b' (S i) in
      if is_tag t y && negb (is_tag t (hd ONone a)) then i :: rest else rest
  end.

Definition step_ok (pop : option eop) (op : eop) (prev cur : obs) : bool :=
  terminal_lists (rets_of prev) (rets_of cur)
  && terminal_lists (inners_of prev) (inners_of cur)
  && (* inner futures complete only through set() or an immediate wait on a set event *)
     (match changed_to "done" (inners_of prev) (inners_of cur) 0 with
      | [] => true
      | _ => value_of cur
      end)
  && (* a TimeoutError appears only when that wait's timer fires *)
     (match changed_to "timeout" (rets_of prev) (rets_of cur) 0 with
      | [] => true
      | [w] => match op with EFire w' => Nat.eqb w w' | _ => false end
      | _ => false
      end)
  && (* a returned awaitable completes only together with / after its inner future *)
     forallb (fun w => is_tag "done" (nth w (inners_of cur) ONone))
             (changed_to "done" (rets_of prev) (rets_of cur) 0)
  && (* one loop iteration after its inner future was resolved, the awaitable is resolved *)
     (match op with
      | EDrain => forallb (fun w => negb (is_tag "pending" (nth w (rets_of cur) ONone)))
                          (filter (fun w => negb (existsb (Nat.eqb w) (pending_ids (inners_of prev) 0)))
                                  (seq 0 (List.length (inners_of prev))))
      | _ => true
      end)
  && (* no residue: after two consecutive iterations without other activity, _waiters
        holds only futures that are still pending *)
     (match pop, op with
      | Some EDrain, EDrain =>
          forallb (fun o => match o with
                            | OInt z => existsb (Nat.eqb (Z.to_nat z)) (pending_ids (inners_of cur) 0)
                            | _ => false end) (ids_of cur)
      | _, _ => true
      end).

Fixpoint steps_ok (pop : option eop) (ops : list eop) (prev : obs) (snaps : list obs) : bool :=
  match ops, snaps with
  | [], [] => true
  | op :: ops', cur :: snaps' => snap_ok cur && step_ok pop op prev cur && steps_ok (Some op) ops' cur snaps'
  | _, _ => false
  end.

Definition empty_snap : obs := OList [ONone; OBool false; OList []; OList []; OList []].

Definition check_event (ops : list eop) (o : obs) : bool :=
  match o with
  | OList snaps => steps_ok None ops empty_snap snaps
  | _ => false
  end.

Definition check_case (c : case) (o : obs) : bool :=
  match c with
  | CondCase ops => check_cond ops o
  | EventCase ops => check_event ops o
  end.
