(* Executable entry points used by the correspondence check. *)
From Coq Require Import List ZArith Arith String Bool.
Import ListNotations.
From TV Require Import Lib.Obs C33.Model C33.Run C34.Model.
Local Open Scope Z_scope.

Definition onat (n : nat) : obs := OInt (Z.of_nat n).

(* ---------- Condition ---------- *)
Definition ctag_of (s : fstate) : obs :=
  match s with
  | Pending => OTag "pending" | Granted => OTag "true"
  | TimedOut => OTag "false" | Cancelled => OTag "cancelled"
  end.

Definition cev_obs (e : cevent) : obs :=
  match e with
  | CvWaiting _ => OTag "waiting"
  | CvWoke ws => OList [OTag "woke"; OList (map onat ws)]
  | CvTimedOut _ => OTag "timedout"
  | CvCancel b => OBool b
  | CvNone => ONone
  end.

Definition cstep_obs (es : cevent * state) : obs :=
  let '(e, s) := es in
  OList [cev_obs e; onat (List.length (s_waiters s)); onat (s_timeouts s)].

(* resolution order: (future, state) *)
Definition cresolved (o : cop) (e : cevent) : list (nat * fstate) :=
  match o, e with
  | _, CvWoke ws => map (fun w => (w, Granted)) ws
  | _, CvTimedOut w => [(w, TimedOut)]
  | CCancel w, CvCancel true => [(w, Cancelled)]
  | _, _ => []
  end.

Fixpoint clog (ops : list cop) (evs : list cevent) : list (nat * fstate) :=
  match ops, evs with
  | o :: ops', e :: evs' => cresolved o e ++ clog ops' evs'
  | _, _ => []
  end.

Definition clog_obs (log : list (nat * fstate)) : list obs :=
  map (fun r => OList [onat (fst r); ctag_of (snd r)]) log.

Definition cfinal (s : state) (tr : list (cevent * state)) : state := last (map snd tr) s.

(* ---------- Event ---------- *)
Definition itag (i : istate) : obs :=
  match i with IPending => OTag "pending" | IDone => OTag "done" | ICancelled => OTag "cancelled" end.
Definition rtag (r : rstate) : obs :=
  match r with RPending => OTag "pending" | ROk => OTag "done" | RTimeout => OTag "timeout" | RCancelled => OTag "cancelled" end.

Definition eev_obs (e : eevent) : obs :=
  match e with
  | VDone _ => OTag "done"
  | VWaiting _ => OTag "waiting"
  | VTimedOut _ => OTag "timedout"
  | VCancel b => OBool b
  | VNone => ONone
  end.

Fixpoint inset_ids (i : nat) (ws : list ewait) : list nat :=
  match ws with
  | [] => []
  | x :: ws' => if w_inset x then i :: inset_ids (S i) ws' else inset_ids (S i) ws'
  end.

Definition estep_obs (es : eevent * estate) : obs :=
  let '(e, s) := es in
  OList [eev_obs e; OBool (e_value s); OList (map onat (inset_ids 0 (e_waits s)));
         OList (map (fun x => rtag (returned x)) (e_waits s));
         OList (map (fun x => itag (w_inner x)) (e_waits s))].

Definition run_case (c : case) : obs :=
  match c with
  | CondCase ops =>
      let tr := crun cond_init ops in
      let sf := cfinal cond_init tr in
      OList [OList (map cstep_obs tr);
             OList (clog_obs (clog ops (map fst tr)));
             OList (map (fun f : fut => ctag_of (fst f)) (s_futs sf));
             OList (map onat (s_waiters sf))]
  | EventCase ops => OList (map estep_obs (erun event_init ops))
  end.

(* ---------- the property as a checker on an observable ---------- *)
(* Condition: events, resolution order and final future states are those of the FIFO reference *)
Fixpoint csteps_match (tr : list (cevent * cspec)) (steps : list obs) : bool :=
  match tr, steps with
  | [], [] => true
  | (e, _) :: tr', OList [eo; _; _] :: steps' => obs_eqb eo (cev_obs e) && csteps_match tr' steps'
  | _, _ => false
  end.

Definition check_cond (ops : list cop) (o : obs) : bool :=
  let tr := cspec_run (mkCSpec [] 0) ops in
  let evs := map fst tr in
  match o with
  | OList [OList steps; OList lg; OList finals; OList _] =>
      csteps_match tr steps
      && obs_eqb (OList lg) (OList (clog_obs (clog ops evs)))
      && obs_eqb (OList finals) (OList (map ctag_of (creplay [] ops evs)))
  | _ => false
  end.

(* Event: statements on the sequence of snapshots.  A snapshot is first decoded into a
   typed view (flag, ids in _waiters, state of every returned awaitable, state of every
   inner future); an observable that does not decode is rejected. *)
Definition is_tag (t : string) (o : obs) : bool := obs_eqb o (OTag t).

Record view := mkView {
  v_value : bool; v_ids : list nat; v_rets : list rstate; v_inners : list istate }.

Definition rdec (o : obs) : option rstate :=
  if is_tag "pending" o then Some RPending else if is_tag "done" o then Some ROk
  else if is_tag "timeout" o then Some RTimeout else if is_tag "cancelled" o then Some RCancelled else None.
Definition idec (o : obs) : option istate :=
  if is_tag "pending" o then Some IPending else if is_tag "done" o then Some IDone
  else if is_tag "cancelled" o then Some ICancelled else None.
Definition ndec (o : obs) : option nat :=
  match o with OInt z => if (0 <=? z)%Z then Some (Z.to_nat z) else None | _ => None end.

Fixpoint dec_list {A} (f : obs -> option A) (l : list obs) : option (list A) :=
  match l with
  | [] => Some []
  | x :: r => match f x, dec_list f r with Some a, Some ar => Some (a :: ar) | _, _ => None end
  end.

Definition decode (o : obs) : option view :=
  match o with
  | OList [_; OBool v; OList ids; OList rets; OList inners] =>
      match dec_list ndec ids, dec_list rdec rets, dec_list idec inners with
      | Some i, Some r, Some n => Some (mkView v i r n)
      | _, _, _ => None
      end
  | _ => None
  end.

Definition view_of (s : estate) : view :=
  mkView (e_value s) (inset_ids 0 (e_waits s)) (map returned (e_waits s)) (map w_inner (e_waits s)).

Definition istate_eqb (a b : istate) : bool :=
  match a, b with IPending, IPending | IDone, IDone | ICancelled, ICancelled => true | _, _ => false end.

(* indices of the pending inner futures *)
Fixpoint pend_idx (l : list istate) (i : nat) : list nat :=
  match l with
  | [] => []
  | x :: r => if istate_eqb x IPending then i :: pend_idx r (S i) else pend_idx r (S i)
  end.

(* one snapshot: an event that is set has no pending inner future (no lost wakeup);
   every pending inner future is in Event._waiters *)
Definition vsnap_ok (v : view) : bool :=
  (List.length (v_rets v) =? List.length (v_inners v))%nat
  && (if v_value v then forallb (fun x => negb (istate_eqb x IPending)) (v_inners v) else true)
  && forallb (fun w => existsb (Nat.eqb w) (v_ids v)) (pend_idx (v_inners v) 0).

(* every element of [a] is pending or unchanged in [b] (and [b] is at least as long) *)
Fixpoint term_list {A} (eqb : A -> A -> bool) (p : A) (a b : list A) : bool :=
  match a, b with
  | [], _ => true
  | x :: a', y :: b' => (eqb x p || eqb x y) && term_list eqb p a' b'
  | _ :: _, [] => false
  end.

(* indices at which [b] has state [t] while [a] has another state or no entry yet *)
Fixpoint changed_to {A} (eqb : A -> A -> bool) (t : A) (a b : list A) (i : nat) : list nat :=
  match b with
  | [] => []
  | y :: b' =>
      let rest := changed_to eqb t (tl a) b' (S i) in
      if eqb y t && negb (match a with x :: _ => eqb x t | [] => false end) then i :: rest else rest
  end.

Definition step_ok (pop : option eop) (op : eop) (prev cur : view) : bool :=
  (* resolved awaitables and resolved inner futures keep their state *)
  term_list rstate_eqb RPending (v_rets prev) (v_rets cur)
  && term_list istate_eqb IPending (v_inners prev) (v_inners cur)
  && (* inner futures complete only through set() or an immediate wait on a set event *)
     (match changed_to istate_eqb IDone (v_inners prev) (v_inners cur) 0 with
      | [] => true
      | _ => v_value cur
      end)
  && (* a TimeoutError appears only when that wait's timer fires *)
     (match changed_to rstate_eqb RTimeout (v_rets prev) (v_rets cur) 0 with
      | [] => true
      | [w] => match op with EFire w' => Nat.eqb w w' | _ => false end
      | _ => false
      end)
  && (* a returned awaitable completes only together with / after its inner future *)
     forallb (fun w => match nth_error (v_inners cur) w with Some IDone => true | _ => false end)
             (changed_to rstate_eqb ROk (v_rets prev) (v_rets cur) 0)
  && (* one loop iteration after its inner future was resolved, the awaitable is resolved *)
     (match op with
      | EDrain => forallb (fun w => match nth_error (v_rets cur) w with Some RPending => false | _ => true end)
                          (filter (fun w => negb (existsb (Nat.eqb w) (pend_idx (v_inners prev) 0)))
                                  (seq 0 (List.length (v_inners prev))))
      | _ => true
      end)
  && (* no residue: after two consecutive iterations without other activity, _waiters
        holds only futures that are still pending *)
     (match pop, op with
      | Some EDrain, EDrain =>
          forallb (fun w => existsb (Nat.eqb w) (pend_idx (v_inners cur) 0)) (v_ids cur)
      | _, _ => true
      end).

Fixpoint steps_ok (pop : option eop) (ops : list eop) (prev : view) (snaps : list view) : bool :=
  match ops, snaps with
  | [], [] => true
  | op :: ops', cur :: snaps' => vsnap_ok cur && step_ok pop op prev cur && steps_ok (Some op) ops' cur snaps'
  | _, _ => false
  end.

Definition check_event (ops : list eop) (o : obs) : bool :=
  match o with
  | OList snaps =>
      match dec_list decode snaps with
      | Some vs => steps_ok None ops (view_of event_init) vs
      | None => false
      end
  | _ => false
  end.

Definition check_case (c : case) (o : obs) : bool :=
  match c with
  | CondCase ops => check_cond ops o
  | EventCase ops => check_event ops o
  end.
