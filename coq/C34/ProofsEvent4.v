(* C34 — the Event model's observable passes the checker: decoding and list lemmas. *)
From Coq Require Import List ZArith Arith Bool Lia Sorted String.
Import ListNotations.
From TV Require Import Lib.Obs C33.Model C33.ListFacts C34.Model C34.Run.

(* ---------- decoding the model's own snapshots ---------- *)
Lemma dec_list_map {A} (f : obs -> option A) (g : A -> obs) :
  (forall a, f (g a) = Some a) -> forall l, dec_list f (map g l) = Some l.
Proof. intros H. induction l as [|a l IH]; simpl; auto. rewrite H, IH. reflexivity. Qed.

Lemma rdec_rtag r : rdec (rtag r) = Some r.
Proof. destruct r; reflexivity. Qed.
Lemma idec_itag i : idec (itag i) = Some i.
Proof. destruct i; reflexivity. Qed.
Lemma ndec_onat n : ndec (onat n) = Some n.
Proof.
  unfold ndec, onat. replace (0 <=? Z.of_nat n)%Z with true by (symmetry; apply Z.leb_le; lia).
  rewrite Nat2Z.id. reflexivity.
Qed.

Lemma decode_snapshot e s : decode (estep_obs (e, s)) = Some (view_of s).
Proof.
  unfold estep_obs, decode.
  rewrite (dec_list_map ndec onat ndec_onat).
  rewrite <- (map_map returned rtag), (dec_list_map rdec rtag rdec_rtag).
  rewrite <- (map_map w_inner itag), (dec_list_map idec itag idec_itag).
  reflexivity.
Qed.

Lemma decode_trace tr : dec_list decode (map estep_obs tr) = Some (map (fun es => view_of (snd es)) tr).
Proof.
  induction tr as [|[e s] tr IH]; [reflexivity|]. rewrite map_cons. cbn [dec_list].
  rewrite decode_snapshot, IH. reflexivity.
Qed.

(* ---------- term_list / changed_to ---------- *)
Lemma term_list_ok {A} (eqb : A -> A -> bool) p : forall a b,
  (List.length a <= List.length b)%nat ->
  (forall k x y, nth_error a k = Some x -> nth_error b k = Some y -> eqb x p = true \/ eqb x y = true) ->
  term_list eqb p a b = true.
Proof.
  induction a as [|x a IH]; intros b L H; simpl; auto.
  destruct b as [|y b]; simpl in L; [lia|].
  rewrite IH; [|lia|intros k x' y' E1 E2; apply (H (S k)); auto].
  destruct (H 0%nat x y eq_refl eq_refl) as [E|E]; rewrite E; simpl; auto. rewrite orb_true_r. reflexivity.
Qed.

Lemma changed_in {A} (eqb : A -> A -> bool) t : forall b a i k,
  In k (changed_to eqb t a b i) ->
  exists j y, k = (i + j)%nat /\ nth_error b j = Some y /\ eqb y t = true
              /\ (forall x, nth_error a j = Some x -> eqb x t = false).
Proof.
  induction b as [|y b IH]; intros a i k H; simpl in H; [destruct H|].
  assert (R : In k (changed_to eqb t (tl a) b (S i)) ->
              exists j y0, k = (i + j)%nat /\ nth_error (y :: b) j = Some y0 /\ eqb y0 t = true
                           /\ (forall x, nth_error a j = Some x -> eqb x t = false)).
  { intros Hk. destruct (IH _ _ _ Hk) as (j & y0 & -> & E & Q & N).
    exists (S j), y0. split; [lia|]. split; auto. split; auto.
    intros x Ex. apply N. destruct a; simpl in *; auto. destruct j; discriminate. }
  destruct (eqb y t && negb (match a with x :: _ => eqb x t | [] => false end)) eqn:C; auto.
  destruct H as [<-|H]; auto.
  apply andb_true_iff in C as [C1 C2]. exists 0%nat, y. split; [lia|]. split; auto. split; auto.
  intros x Ex. destruct a; simpl in Ex; inversion Ex; subst. apply negb_true_iff in C2. auto.
Qed.

Lemma changed_sorted {A} (eqb : A -> A -> bool) t : forall b a i,
  Forall (le i) (changed_to eqb t a b i) /\ StronglySorted lt (changed_to eqb t a b i).
Proof.
  induction b as [|y b IH]; intros a i; simpl; [split; constructor|].
  destruct (IH (tl a) (Datatypes.S i)) as [F SS].
  assert (F' : Forall (le i) (changed_to eqb t (tl a) b (Datatypes.S i))) by (eapply Forall_impl; [|exact F]; simpl; intros; lia).
  destruct (eqb y t && negb _); auto. split; constructor; auto.
Qed.

Lemma changed_all_same {A} (eqb : A -> A -> bool) t a b w :
  (forall k, In k (changed_to eqb t a b 0) -> k = w) ->
  changed_to eqb t a b 0 = [] \/ changed_to eqb t a b 0 = [w].
Proof.
  intros H. destruct (changed_sorted eqb t b a 0) as [_ SS].
  destruct (changed_to eqb t a b 0) as [|k1 [|k2 l]]; auto.
  - right. rewrite (H k1); auto. left; auto.
  - exfalso. inversion SS; subst. inversion H3; subst.
    rewrite (H k1) in H4 by (left; auto). rewrite (H k2) in H4 by (right; left; auto). lia.
Qed.

(* ---------- pend_idx / inset_ids ---------- *)
Lemma pend_idx_in : forall l i w,
  In w (pend_idx l i) <-> exists j, w = (i + j)%nat /\ nth_error l j = Some IPending.
Proof.
  induction l as [|x l IH]; intros i w; simpl.
  - split; [intros []|intros (j & _ & E); destruct j; discriminate].
  - assert (R : In w (pend_idx l (S i)) <-> exists j, w = (i + S j)%nat /\ nth_error l j = Some IPending).
    { rewrite IH. split; intros (j & -> & E); exists j; split; auto; lia. }
    destruct x; simpl.
    + split.
      * intros [<-|H]; [exists 0%nat; split; [lia|auto]|]. apply R in H as (j & -> & E). exists (S j); auto.
      * intros (j & -> & E). destruct j; [left; lia|right; apply R; eauto].
    + rewrite R. split; intros (j & -> & E); [exists (S j); auto|].
      destruct j; simpl in E; [discriminate|eauto].
    + rewrite R. split; intros (j & -> & E); [exists (S j); auto|].
      destruct j; simpl in E; [discriminate|eauto].
Qed.

Lemma inset_ids_in : forall ws i w,
  In w (inset_ids i ws) <-> exists j x, w = (i + j)%nat /\ nth_error ws j = Some x /\ w_inset x = true.
Proof.
  induction ws as [|x ws IH]; intros i w; simpl.
  - split; [intros []|intros (j & y & _ & E & _); destruct j; discriminate].
  - assert (R : In w (inset_ids (S i) ws) <-> exists j y, w = (i + S j)%nat /\ nth_error ws j = Some y /\ w_inset y = true).
    { rewrite IH. split; intros (j & y & -> & E); exists j, y; split; auto; lia. }
    destruct (w_inset x) eqn:Q; simpl.
    + split.
      * intros [<-|H]; [exists 0%nat, x; split; [lia|auto]|]. apply R in H as (j & y & -> & E). exists (S j), y; auto.
      * intros (j & y & -> & E & Qy). destruct j; [left; lia|right; apply R; eauto].
    + rewrite R. split; intros (j & y & -> & E & Qy); [exists (S j), y; auto|].
      destruct j; simpl in E; [inversion E; subst; congruence|eauto].
Qed.

Lemma existsb_eqb_in w l : existsb (Nat.eqb w) l = true <-> In w l.
Proof.
  rewrite existsb_exists. split.
  - intros (x & Hx & E). apply Nat.eqb_eq in E. subst; auto.
  - intros H. exists w. split; auto. apply Nat.eqb_refl.
Qed.
