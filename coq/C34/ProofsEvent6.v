(* C34 — the Event model's observable passes the checker on every schedule. *)
From Coq Require Import List ZArith Arith Bool Lia Sorted.
Import ListNotations.
From TV Require Import Lib.Obs C33.Model C33.ListFacts C34.Model C34.Run
  C34.ProofsEvent C34.ProofsEvent2 C34.ProofsEvent4 C34.ProofsEvent5 C34.ProofsCond2.

Lemma nth_map_inv {A B} (f : A -> B) l k b :
  nth_error (map f l) k = Some b -> exists a, nth_error l k = Some a /\ b = f a.
Proof.
  rewrite nth_error_map. destruct (nth_error l k) as [a|]; simpl; intros H; inversion H. eauto.
Qed.

Lemma rstate_eqb_refl r : rstate_eqb r r = true. Proof. destruct r; reflexivity. Qed.
Lemma istate_eqb_refl r : istate_eqb r r = true. Proof. destruct r; reflexivity. Qed.
Lemma rstate_eqb_eq a b : rstate_eqb a b = true -> a = b. Proof. destruct a, b; simpl; congruence. Qed.
Lemma istate_eqb_eq a b : istate_eqb a b = true -> a = b. Proof. destruct a, b; simpl; congruence. Qed.

Lemma ipend_inner x : ipend x = true <-> w_inner x = IPending.
Proof. unfold ipend. destruct (w_inner x); split; congruence. Qed.

(* ---------- one snapshot ---------- *)
Lemma vsnap_model s : einv s -> vsnap_ok (view_of s) = true.
Proof.
  intros [I _]. unfold vsnap_ok, view_of. simpl. rewrite !map_length, Nat.eqb_refl. simpl.
  apply andb_true_iff. split.
  - destruct (e_value s) eqn:V; auto. apply forallb_forall. intros i Hi.
    apply in_map_iff in Hi as (x & <- & Hx). apply In_nth_error in Hx as (k & E).
    destruct (I k x E) as (_ & _ & _ & _ & _ & A6 & _). specialize (A6 eq_refl).
    unfold ipend in A6. destruct (w_inner x); simpl; congruence.
  - apply forallb_forall. intros w Hw. apply existsb_eqb_in.
    apply pend_idx_in in Hw as (j & -> & E). apply nth_map_inv in E as (x & E & P).
    apply inset_ids_in. exists j, x. split; auto. split; auto.
    destruct (I j x E) as (A1 & _). apply A1. apply ipend_inner. auto.
Qed.

(* ---------- one step ---------- *)
Definition G (s : estate) : Prop := einv s /\ okinv (e_waits s).

Lemma step_ok_model pop op s :
  G s -> (pop = Some EDrain -> exists s0, einv s0 /\ s = e_drain s0) ->
  step_ok pop op (view_of s) (view_of (fst (estep s op))) = true.
Proof.
  intros [I K] HP.
  pose proof (estep_inv s op I) as I'. pose proof (estep_okinv s op I K) as K'.
  pose proof (estep_length s op) as EL.
  set (s' := fst (estep s op)) in *.
  assert (LE : (List.length (e_waits s) <= List.length (e_waits s'))%nat) by (destruct op; lia).
  unfold step_ok, view_of. simpl.
  repeat (apply andb_true_iff; split).
  - (* returned awaitables are terminal *)
    apply term_list_ok; [rewrite !map_length; auto|]. intros k a b Ea Eb.
    apply nth_map_inv in Ea as (x & Ex & ->). apply nth_map_inv in Eb as (y & Ey & ->).
    destruct (returned x) eqn:R; auto; right;
      (destruct (returned_terminal s op k x I Ex) as (y' & Ey' & R'); [congruence|]);
      fold s' in Ey'; rewrite Ey in Ey'; inversion Ey'; subst y'; rewrite R', R; reflexivity.
  - (* inner futures are terminal *)
    apply term_list_ok; [rewrite !map_length; auto|]. intros k a b Ea Eb.
    apply nth_map_inv in Ea as (x & Ex & ->). apply nth_map_inv in Eb as (y & Ey & ->).
    destruct (inner_step s op k x Ex) as (y' & Ey' & F2 & _). fold s' in Ey'. rewrite Ey in Ey'. inversion Ey'; subst y'.
    destruct (ipend x) eqn:P.
    + left. apply ipend_inner in P. rewrite P. reflexivity.
    + right. rewrite (F2 eq_refl). apply istate_eqb_refl.
  - (* done only when set *)
    destruct (e_value s') eqn:V; [destruct (changed_to _ _ _ _ _); reflexivity|].
    destruct (changed_to istate_eqb IDone (map w_inner (e_waits s)) (map w_inner (e_waits s')) 0) as [|k l] eqn:C; auto.
    exfalso. assert (Hin : In k (changed_to istate_eqb IDone (map w_inner (e_waits s)) (map w_inner (e_waits s')) 0))
      by (rewrite C; left; auto).
    apply changed_in in Hin as (j & b & _ & Eb & Q & N). apply istate_eqb_eq in Q. subst b.
    apply nth_map_inv in Eb as (y & Ey & Dy).
    destruct (nth_error (e_waits s) j) as [x|] eqn:Ex.
    + destruct (inner_step s op j x Ex) as (y' & Ey' & _ & F3). fold s' in Ey', F3. rewrite Ey in Ey'. inversion Ey'; subst y'.
      assert (w_inner x <> IDone).
      { intros D. specialize (N (w_inner x)). rewrite (map_nth_error w_inner _ _ Ex) in N. specialize (N eq_refl).
        rewrite D in N. discriminate. }
      assert (e_value s' = true) by (apply F3; auto). congruence.
    + destruct (fresh_record s op j y Ex Ey) as (F & _). fold s' in F. assert (e_value s' = true) by (apply F; auto). congruence.
  - (* TimeoutError only from the timer *)
    assert (ALL : forall k, In k (changed_to rstate_eqb RTimeout (map returned (e_waits s)) (map returned (e_waits s')) 0) -> op = EFire k).
    { intros k Hin. apply changed_in in Hin as (j & b & -> & Eb & Q & N). apply rstate_eqb_eq in Q. subst b.
      apply nth_map_inv in Eb as (y & Ey & Dy). simpl.
      destruct (nth_error (e_waits s) j) as [x|] eqn:Ex.
      - apply (timeout_only_from_timer s op j x Ex) with (x' := y); [|exact Ey|auto].
        intros D. specialize (N (returned x)). rewrite (map_nth_error returned _ _ Ex) in N. specialize (N eq_refl).
        rewrite D in N. discriminate.
      - destruct (fresh_record s op j y Ex Ey) as (_ & F & _). congruence. }
    destruct op as [t| | |w|w|];
      try (destruct (changed_to rstate_eqb RTimeout _ _ 0) as [|k l] eqn:C; auto;
           specialize (ALL k (or_introl eq_refl)); discriminate).
    destruct (changed_all_same rstate_eqb RTimeout (map returned (e_waits s)) (map returned (e_waits s')) w) as [C|C].
    + intros k Hk. specialize (ALL k Hk). inversion ALL. reflexivity.
    + rewrite C. reflexivity.
    + rewrite C. apply Nat.eqb_refl.
  - (* completion implies the inner future is done *)
    apply forallb_forall. intros k Hin. apply changed_in in Hin as (j & b & -> & Eb & Q & _).
    apply rstate_eqb_eq in Q. subst b. apply nth_map_inv in Eb as (y & Ey & Dy). simpl.
    rewrite (map_nth_error w_inner _ _ Ey). rewrite (okinv_returned _ _ _ K' Ey); auto.
  - (* one iteration resolves *)
    destruct op; auto. apply forallb_forall. intros w Hw. apply filter_In in Hw as [Hs Hn].
    apply in_seq in Hs. rewrite map_length in Hs. destruct Hs as [_ Hs]. simpl in Hs.
    destruct (nth_error (e_waits s) w) as [x|] eqn:Ex; [|apply nth_error_None in Ex; lia].
    assert (P : ipend x = false).
    { destruct (ipend x) eqn:P; auto. apply ipend_inner in P.
      apply negb_true_iff in Hn. assert (In w (pend_idx (map w_inner (e_waits s)) 0)).
      { apply pend_idx_in. exists w. split; auto. rewrite (map_nth_error w_inner _ _ Ex). congruence. }
      apply existsb_eqb_in in H. congruence. }
    destruct (drain_resolves s w x I Ex P) as (y & Ey & R). unfold s'. simpl.
    rewrite (map_nth_error returned _ _ Ey). destruct (returned y); auto; congruence.
  - (* no residue after two iterations *)
    destruct pop as [[]|]; auto. destruct op; auto.
    destruct (HP eq_refl) as (s0 & I0 & ->).
    assert (Q : e_ready s' = []) by (unfold s'; simpl; apply two_drains_quiesce; auto).
    apply forallb_forall. intros w Hw. apply existsb_eqb_in.
    apply inset_ids_in in Hw as (j & x & -> & Ex & Hx).
    destruct (quiescent_no_residue s' j x I' Q Ex) as (_ & B & _).
    apply pend_idx_in. exists j. split; auto. rewrite (map_nth_error w_inner _ _ Ex). f_equal. apply B; auto.
Qed.

Lemma steps_ok_model ops : forall s pop,
  G s -> (pop = Some EDrain -> exists s0, einv s0 /\ s = e_drain s0) ->
  steps_ok pop ops (view_of s) (map (fun es => view_of (snd es)) (erun s ops)) = true.
Proof.
  induction ops as [|op ops IH]; intros s pop HG HP; simpl; auto.
  pose proof (step_ok_model pop op s HG HP) as S1.
  destruct HG as [I K].
  pose proof (estep_inv s op I) as I'. pose proof (estep_okinv s op I K) as K'.
  assert (HP' : Some op = Some EDrain -> exists s0, einv s0 /\ fst (estep s op) = e_drain s0).
  { intros E. inversion E; subst. exists s. split; auto. }
  destruct (estep s op) as [s' e]. simpl in *.
  rewrite (vsnap_model s' I'), S1. simpl. apply IH; [split; auto|auto].
Qed.

Lemma check_event_model ops : check_event ops (run_case (EventCase ops)) = true.
Proof.
  unfold check_event, run_case. rewrite decode_trace.
  apply steps_ok_model.
  - split; [apply einv_init|]. intros k x E. destruct k; discriminate.
  - discriminate.
Qed.

Theorem check_case_model : forall c, check_case c (run_case c) = true.
Proof. intros [ops|ops]; [apply check_cond_model|apply check_event_model]. Qed.
