(* C34 — Event: inductive invariant of the model (inner/outer futures, callback queue). *)
From Coq Require Import List ZArith Arith Bool Lia.
Import ListNotations.
From TV Require Import C33.Model C33.ListFacts C34.Model.

Definition ipend (x : ewait) : bool := match w_inner x with IPending => true | _ => false end.
Definition opend (x : ewait) : bool := match w_outer x with Some OPending => true | _ => false end.
Definition odone (x : ewait) : bool := match w_outer x with Some OPending => false | Some _ => true | None => false end.

(* per-wait invariant, relative to the flag and the callback queue *)
Definition rec_ok (v : bool) (ready : list cb) (w : nat) (x : ewait) : Prop :=
  (ipend x = true -> w_inset x = true)
  /\ (ipend x = false -> w_inset x = true -> In (CbInner w) ready)
  /\ (opend x = true -> ipend x = false -> w_inset x = true)
  /\ (odone x = true -> ipend x = true -> In (CbOuter w) ready)
  /\ (w_armed x = true -> w_inset x = true)
  /\ (v = true -> ipend x = false)
  /\ (opend x = true -> w_armed x = true).

Definition cb_ok (ws : list ewait) (c : cb) : Prop :=
  match c with
  | CbInner w => exists x, nth_error ws w = Some x /\ ipend x = false
  | CbOuter w => exists x, nth_error ws w = Some x /\ odone x = true
  end.

Definition einv (s : estate) : Prop :=
  (forall w x, nth_error (e_waits s) w = Some x -> rec_ok (e_value s) (e_ready s) w x)
  /\ Forall (cb_ok (e_waits s)) (e_ready s).

Lemma rec_ok_mono v r r' w x : (forall c, In c r -> In c r') -> rec_ok v r w x -> rec_ok v r' w x.
Proof. intros H (A & B & C & D & E & F & G). unfold rec_ok. repeat split; auto. Qed.

(* update one record and append callbacks *)
Lemma upd_inv v ws ready w x x' new :
  einv (mkE v ws ready) -> nth_error ws w = Some x ->
  rec_ok v (ready ++ new) w x' ->
  (ipend x = false -> ipend x' = false) -> (odone x = true -> odone x' = true) ->
  Forall (cb_ok (set_nth ws w x')) new ->
  einv (mkE v (set_nth ws w x') (ready ++ new)).
Proof.
  intros [I1 I2] E R M1 M2 N. simpl in *.
  assert (Hlt : (w < List.length ws)%nat) by (eapply nth_error_some_lt; eauto).
  split; simpl.
  - intros w' y Ey. destruct (Nat.eq_dec w w') as [<-|Hne].
    + rewrite nth_error_set_eq in Ey by auto. inversion Ey; subst. auto.
    + rewrite nth_error_set_neq in Ey by auto.
      eapply rec_ok_mono; [|apply I1; eauto]. intros; apply in_or_app; auto.
  - apply Forall_app. split; auto.
    eapply Forall_impl; [|exact I2]. intros [k|k] (y & Ey & Hy); simpl;
      (destruct (Nat.eq_dec w k) as [<-|Hne];
       [rewrite E in Ey; inversion Ey; subst; exists x'; rewrite nth_error_set_eq by auto; auto
       |exists y; rewrite nth_error_set_neq by auto; auto]).
Qed.

(* ---------- wait ---------- *)
Lemma wait_inv t s : einv s -> einv (fst (e_wait t s)).
Proof.
  intros [I1 I2]. unfold e_wait. destruct (e_value s) eqn:V; simpl.
  - split; simpl.
    + intros w x E. rewrite nth_error_snoc in E.
      destruct (w <? List.length (e_waits s))%nat; [apply I1; auto|].
      destruct (w =? List.length (e_waits s))%nat; inversion E; subst. unfold rec_ok, ipend, opend, odone; simpl.
      repeat split; intros; try discriminate; auto.
    + eapply Forall_impl; [|exact I2]. intros [k|k] (y & Ey & Hy); simpl; exists y;
        (split; auto; rewrite nth_error_app1; auto; eapply nth_error_some_lt; eauto).
  - split; simpl.
    + intros w x E. rewrite nth_error_snoc in E.
      destruct (w <? List.length (e_waits s))%nat; [apply I1; auto|].
      destruct (w =? List.length (e_waits s))%nat; inversion E; subst. unfold rec_ok, ipend, opend, odone; simpl.
      destruct t; repeat split; intros; try discriminate; auto.
    + eapply Forall_impl; [|exact I2]. intros [k|k] (y & Ey & Hy); simpl; exists y;
        (split; auto; rewrite nth_error_app1; auto; eapply nth_error_some_lt; eauto).
Qed.

(* ---------- set ---------- *)
Definition resolve (x : ewait) : ewait :=
  if w_inset x && ipend x then mkWait IDone (w_outer x) (w_armed x) (w_inset x) else x.

Lemma set_waiters_spec : forall ws i r cbs,
  set_waiters i ws = (r, cbs) ->
  r = map resolve ws /\
  (forall k, In (CbInner k) cbs <-> exists j x, k = (i + j)%nat /\ nth_error ws j = Some x /\ w_inset x && ipend x = true) /\
  (forall k, ~ In (CbOuter k) cbs).
Proof.
  induction ws as [|x ws IH]; intros i r cbs H; simpl in H.
  - inversion H; subst. split; auto. split.
    + intros k. split; [intros []|]. intros (j & y & _ & E & _). destruct j; discriminate.
    + intros k [].
  - destruct (set_waiters (S i) ws) as [r' cbs'] eqn:E.
    destruct (IH _ _ _ E) as (A & B & C).
    assert (P : (w_inset x && match w_inner x with IPending => true | _ => false end) = (w_inset x && ipend x)) by reflexivity.
    rewrite P in H. unfold resolve at 1 in A. simpl. unfold resolve at 1.
    destruct (w_inset x && ipend x) eqn:Q; inversion H; subst; (split; [reflexivity|]); split.
    + intros k. split.
      * intros [Hk|Hk]. { inversion Hk; subst. exists 0%nat, x. rewrite Nat.add_0_r. auto. }
        apply B in Hk as (j & y & -> & Ey & Hy). exists (S j), y. split; [lia|auto].
      * intros (j & y & -> & Ey & Hy). destruct j; simpl in Ey.
        { left. rewrite Nat.add_0_r. reflexivity. }
        right. apply B. exists j, y. split; [lia|auto].
    + intros k [Hk|Hk]; [discriminate|]. eapply C; eauto.
    + intros k. split.
      * intros Hk. apply B in Hk as (j & y & -> & Ey & Hy). exists (S j), y. split; [lia|auto].
      * intros (j & y & -> & Ey & Hy). destruct j; simpl in Ey.
        { inversion Ey; subst. congruence. }
        apply B. exists j, y. split; [lia|auto].
    + exact C.
Qed.

Lemma set_inv s : einv s -> einv (e_set s).
Proof.
  intros [I1 I2]. unfold e_set. destruct (e_value s) eqn:V; [split; auto; rewrite V; auto|].
  destruct (set_waiters 0 (e_waits s)) as [r cbs] eqn:E.
  destruct (set_waiters_spec _ _ _ _ E) as (-> & B & C).
  split; simpl.
  - intros w x' Ex. rewrite nth_error_map in Ex.
    destruct (nth_error (e_waits s) w) as [x|] eqn:En; [|discriminate]. inversion Ex; subst. clear Ex.
    destruct (I1 w x En) as (A1 & A2 & A3 & A4 & A5 & A6 & A7).
    unfold resolve. destruct (w_inset x && ipend x) eqn:Q.
    + apply andb_true_iff in Q as [Q1 Q2].
      unfold rec_ok, ipend, opend, odone in *; simpl. repeat split; intros; try discriminate; auto.
      apply in_or_app. right. apply B. exists w, x. rewrite Q1. simpl. auto.
    + assert (P : ipend x = false).
      { destruct (ipend x) eqn:P; auto. rewrite (A1 eq_refl) in Q. discriminate. }
      unfold rec_ok. repeat split; intros; auto; try congruence.
      * apply in_or_app. left. auto.
  - apply Forall_app. split.
    + eapply Forall_impl; [|exact I2]. intros [k|k] (y & Ey & Hy); simpl; exists (resolve y);
        (split; [rewrite nth_error_map, Ey; reflexivity|]); unfold resolve;
        destruct (w_inset y && ipend y); auto.
    + apply Forall_forall. intros [k|k] Hk; [|exfalso; eapply C; eauto].
      apply B in Hk as (j & y & -> & Ey & Hy). simpl. exists (resolve y).
      split; [rewrite nth_error_map, Ey; reflexivity|]. unfold resolve. rewrite Hy. reflexivity.
Qed.

Lemma clear_inv s : einv s -> einv (mkE false (e_waits s) (e_ready s)).
Proof.
  intros [I1 I2]. split; simpl; auto. intros w x E.
  destruct (I1 w x E) as (A1 & A2 & A3 & A4 & A5 & A6 & A7). unfold rec_ok. repeat split; auto. discriminate.
Qed.

(* ---------- fire / cancel ---------- *)
Lemma eta_e s : s = mkE (e_value s) (e_waits s) (e_ready s).
Proof. destruct s; reflexivity. Qed.

Ltac new_cb := constructor; [|constructor]; simpl; eexists;
  split; [apply nth_error_set_eq; eapply nth_error_some_lt; eauto|reflexivity].
Ltac side O := try new_cb; try (unfold odone, ipend in *; simpl; rewrite ?O; auto; fail).

Lemma fire_inv w s : einv s -> einv (fst (e_fire w s)).
Proof.
  intros I. unfold e_fire. destruct (nth_error (e_waits s) w) as [x|] eqn:E; auto.
  destruct (w_armed x) eqn:Ar; auto.
  pose proof I as [I1 _]. destruct (I1 w x E) as (A1 & A2 & A3 & A4 & A5 & A6 & A7).
  rewrite (eta_e s) in I.
  destruct (w_outer x) as [[]|] eqn:O; simpl.
  - eapply upd_inv; eauto; side O.
    unfold rec_ok, ipend, opend, odone in *; simpl. rewrite O in *.
    repeat split; intros; try discriminate; auto.
    + apply in_or_app; left; auto.
    + apply in_or_app; right; left; auto.
  - rewrite <- (app_nil_r (e_ready s)). eapply upd_inv; eauto; side O.
    unfold rec_ok, ipend, opend, odone in *; simpl. rewrite O in *. rewrite app_nil_r.
    repeat split; intros; try discriminate; auto.
  - rewrite <- (app_nil_r (e_ready s)). eapply upd_inv; eauto; side O.
    unfold rec_ok, ipend, opend, odone in *; simpl. rewrite O in *. rewrite app_nil_r.
    repeat split; intros; try discriminate; auto.
  - rewrite <- (app_nil_r (e_ready s)). eapply upd_inv; eauto; side O.
    unfold rec_ok, ipend, opend, odone in *; simpl. rewrite O in *. rewrite app_nil_r.
    repeat split; intros; try discriminate; auto.
  - rewrite <- (app_nil_r (e_ready s)). eapply upd_inv; eauto; side O.
    unfold rec_ok, ipend, opend, odone in *; simpl. rewrite O in *. rewrite app_nil_r.
    repeat split; intros; try discriminate; auto.
Qed.

Lemma cancel_inv w s : einv s -> einv (fst (e_cancel w s)).
Proof.
  intros I. unfold e_cancel. destruct (nth_error (e_waits s) w) as [x|] eqn:E; auto.
  pose proof I as [I1 _]. destruct (I1 w x E) as (A1 & A2 & A3 & A4 & A5 & A6 & A7).
  destruct (w_outer x) as [[]|] eqn:O; simpl; auto.
  - rewrite (eta_e s) in I. eapply upd_inv; eauto; side O.
    unfold rec_ok, ipend, opend, odone in *; simpl. rewrite O in *.
    repeat split; intros; try discriminate; auto.
    + apply in_or_app; left; auto.
    + apply in_or_app; right; left; auto.
  - destruct (w_inner x) eqn:In; simpl; auto.
    rewrite (eta_e s) in I. eapply upd_inv; eauto; side O.
    unfold rec_ok, ipend, opend, odone in *; simpl. rewrite O, In in *.
    repeat split; intros; try discriminate; auto.
    apply in_or_app; right; left; auto.
Qed.

(* ---------- drain ---------- *)
Lemma cb_inv v ws c rest :
  einv (mkE v ws (c :: rest)) ->
  einv (mkE v (fst (run_cb c ws)) (rest ++ snd (run_cb c ws))).
Proof.
  intros [I1 I2]. simpl in *. inversion I2 as [|c0 l Hc Hrest]; subst.
  assert (KEEP : forall w' y, nth_error ws w' = Some y ->
            (match c with CbInner k | CbOuter k => k <> w' end) -> forall new, rec_ok v (rest ++ new) w' y).
  { intros w' y Ey Hne new. destruct (I1 w' y Ey) as (A1 & A2 & A3 & A4 & A5 & A6 & A7).
    unfold rec_ok. repeat split; auto.
    - intros P Q. specialize (A2 P Q). destruct A2 as [A2|A2]; [subst c; simpl in Hne; exfalso; apply Hne; reflexivity|apply in_or_app; auto].
    - intros P Q. specialize (A4 P Q). destruct A4 as [A4|A4]; [subst c; simpl in Hne; exfalso; apply Hne; reflexivity|apply in_or_app; auto]. }
  assert (CBS : forall ws', (forall k y, nth_error ws k = Some y -> exists y', nth_error ws' k = Some y' /\
                        (ipend y = false -> ipend y' = false) /\ (odone y = true -> odone y' = true)) ->
                 Forall (cb_ok ws') rest).
  { intros ws' H. eapply Forall_impl; [|exact Hrest]. intros [k|k] (y & Ey & Hy); simpl;
      destruct (H k y Ey) as (y' & Ey' & M1 & M2); exists y'; auto. }
  destruct c as [w|w]; simpl in *.
  - destruct Hc as (x & E & Px). rewrite E.
    assert (Hlt : (w < List.length ws)%nat) by (eapply nth_error_some_lt; eauto).
    destruct (I1 w x E) as (A1 & A2 & A3 & A4 & A5 & A6 & A7).
    destruct (w_outer x) as [[]|] eqn:O; simpl; split; simpl.
    all: try (intros w' y Ey; destruct (Nat.eq_dec w w') as [<-|Hne];
              [rewrite nth_error_set_eq in Ey by auto; inversion Ey; subst;
               unfold rec_ok, ipend, opend, odone in *; simpl; rewrite ?O in *;
               repeat split; intros; try discriminate; try congruence; auto;
               try (destruct (w_inner x); discriminate);
               try (apply in_or_app; right; left; reflexivity)
              |rewrite nth_error_set_neq in Ey by auto; apply KEEP; auto]).
    all: try (apply Forall_app; split;
              [apply CBS; intros k y Ey; destruct (Nat.eq_dec w k) as [<-|Hne];
                 [rewrite E in Ey; inversion Ey; subst; eexists; split; [apply nth_error_set_eq; auto|];
                  unfold ipend, odone in *; simpl; rewrite ?O; split; auto; destruct (w_inner y); auto
                 |exists y; rewrite nth_error_set_neq by auto; auto]
              |repeat constructor; simpl; eexists; split; [apply nth_error_set_eq; auto|];
               unfold odone; simpl; destruct (w_inner x); reflexivity]).
    all: try (rewrite app_nil_r; apply CBS; intros k y Ey; destruct (Nat.eq_dec w k) as [<-|Hne];
              [rewrite E in Ey; inversion Ey; subst; eexists; split; [apply nth_error_set_eq; auto|];
               unfold ipend, odone in *; simpl; rewrite ?O; split; auto
              |exists y; rewrite nth_error_set_neq by auto; auto]).
  - destruct Hc as (x & E & Px). rewrite E.
    assert (Hlt : (w < List.length ws)%nat) by (eapply nth_error_some_lt; eauto).
    destruct (I1 w x E) as (A1 & A2 & A3 & A4 & A5 & A6 & A7).
    destruct (w_inner x) eqn:In; simpl; split; simpl.
    + intros w' y Ey; destruct (Nat.eq_dec w w') as [<-|Hne].
      * rewrite nth_error_set_eq in Ey by auto; inversion Ey; subst.
        unfold rec_ok, ipend, opend, odone in *; simpl; rewrite ?In in *.
        repeat split; intros; try discriminate; try congruence; auto.
        apply in_or_app; right; left; reflexivity.
      * rewrite nth_error_set_neq in Ey by auto; apply KEEP; auto.
    + apply Forall_app; split.
      * apply CBS; intros k y Ey; destruct (Nat.eq_dec w k) as [<-|Hne].
        { rewrite E in Ey; inversion Ey; subst; eexists; split; [apply nth_error_set_eq; auto|].
          unfold ipend, odone in *; simpl. split; auto. }
        { exists y; rewrite nth_error_set_neq by auto; auto. }
      * repeat constructor; simpl; eexists; split; [apply nth_error_set_eq; auto|reflexivity].
    + intros w' y Ey. destruct (Nat.eq_dec w w') as [<-|Hne]; [|apply KEEP; auto].
      rewrite E in Ey; inversion Ey; subst. rewrite app_nil_r.
      unfold rec_ok, ipend, opend, odone in *; rewrite ?In in *.
      repeat split; intros; try discriminate; auto.
      specialize (A2 eq_refl H0). destruct A2 as [A2|A2]; [discriminate|auto].
    + rewrite app_nil_r. apply CBS. intros k y Ey. exists y. auto.
    + intros w' y Ey. destruct (Nat.eq_dec w w') as [<-|Hne]; [|apply KEEP; auto].
      rewrite E in Ey; inversion Ey; subst. rewrite app_nil_r.
      unfold rec_ok, ipend, opend, odone in *; rewrite ?In in *.
      repeat split; intros; try discriminate; auto.
      specialize (A2 eq_refl H0). destruct A2 as [A2|A2]; [discriminate|auto].
    + rewrite app_nil_r. apply CBS. intros k y Ey. exists y. auto.
Qed.

Lemma cbs_inv v : forall cbs ws acc,
  einv (mkE v ws (cbs ++ acc)) ->
  einv (mkE v (fst (run_cbs cbs ws)) (acc ++ snd (run_cbs cbs ws))).
Proof.
  induction cbs as [|c cbs IH]; intros ws acc I; simpl.
  - rewrite app_nil_r. exact I.
  - simpl in I. pose proof (cb_inv v ws c (cbs ++ acc) I) as I'.
    destruct (run_cb c ws) as [ws1 new1]. simpl in I'. rewrite <- app_assoc in I'.
    specialize (IH ws1 (acc ++ new1) I').
    destruct (run_cbs cbs ws1) as [ws2 new2]. simpl in *. rewrite <- app_assoc in IH. exact IH.
Qed.

Lemma drain_inv s : einv s -> einv (e_drain s).
Proof.
  intros I. unfold e_drain. rewrite (eta_e s) in I. rewrite <- (app_nil_r (e_ready s)) in I.
  pose proof (cbs_inv _ _ _ _ I) as I'. destruct (run_cbs (e_ready s) (e_waits s)). exact I'.
Qed.

Lemma estep_inv s o : einv s -> einv (fst (estep s o)).
Proof.
  intros I. destruct o; simpl.
  - apply wait_inv; auto.
  - apply set_inv; auto.
  - apply clear_inv; auto.
  - apply fire_inv; auto.
  - apply cancel_inv; auto.
  - apply drain_inv; auto.
Qed.

Lemma einv_init : einv event_init.
Proof. split; simpl; [intros [|w] x E; discriminate|constructor]. Qed.

Lemma erun_inv ops : forall s, einv s -> Forall (fun es => einv (snd es)) (erun s ops).
Proof.
  induction ops as [|o ops IH]; intros s I; simpl; [constructor|].
  pose proof (estep_inv s o I) as I'. destruct (estep s o) as [s' e]. simpl in *. constructor; auto.
Qed.
