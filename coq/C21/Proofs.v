(* C21 — proofs: HTML escaping, URL escaping, UTF-8 helpers, the '</' guarantee. *)
From Coq Require Import List ZArith NArith Bool Lia ZifyBool.
Import ListNotations.
From TV Require Import Lib.Obs Lib.C21_Utf8 Lib.C21_Pct C21.Model C21.Run.
Local Open Scope N_scope.


(* ====================================================================== *)
(* HTML                                                                    *)
(* ====================================================================== *)

(* the single-pass reading of html.escape *)
Definition esc1 (x : N) : list N :=
  if x =? 38 then ent_amp else if x =? 60 then ent_lt else if x =? 62 then ent_gt
  else if x =? 34 then ent_quot else if x =? 39 then ent_apos else [x].

Lemma flat_map_flat_map {A B C} (f : A -> list B) (g : B -> list C) l :
  flat_map g (flat_map f l) = flat_map (fun x => flat_map g (f x)) l.
Proof. induction l as [|a l IH]; [reflexivity|]. simpl. rewrite flat_map_app, IH. reflexivity. Qed.

Lemma flat_map_ext' {A B} (f g : A -> list B) l : (forall x, f x = g x) -> flat_map f l = flat_map g l.
Proof. intros H. induction l as [|a l IH]; [reflexivity|]. simpl. rewrite H, IH. reflexivity. Qed.

Lemma replace_char_flat_map {A} c r (f : A -> list N) l :
  replace_char c r (flat_map f l) = flat_map (fun x => replace_char c r (f x)) l.
Proof. unfold replace_char. apply flat_map_flat_map. Qed.

Lemma replace_char_single c r x : replace_char c r [x] = if x =? c then r else [x].
Proof. unfold replace_char. simpl. rewrite app_nil_r. reflexivity. Qed.

Lemma esc1_pointwise x :
  replace_char 39 ent_apos (replace_char 34 ent_quot (replace_char 62 ent_gt
    (replace_char 60 ent_lt (replace_char 38 ent_amp [x])))) = esc1 x.
Proof.
  unfold esc1.
  destruct (x =? 38) eqn:E1. { apply N.eqb_eq in E1. subst. reflexivity. }
  destruct (x =? 60) eqn:E2. { apply N.eqb_eq in E2. subst. reflexivity. }
  destruct (x =? 62) eqn:E3. { apply N.eqb_eq in E3. subst. reflexivity. }
  destruct (x =? 34) eqn:E4. { apply N.eqb_eq in E4. subst. reflexivity. }
  destruct (x =? 39) eqn:E5. { apply N.eqb_eq in E5. subst. reflexivity. }
  rewrite replace_char_single, E1, replace_char_single, E2, replace_char_single, E3,
    replace_char_single, E4, replace_char_single, E5. reflexivity.
Qed.

(* five successive replacements = one pass *)
Lemma html_escape_flat s : html_escape s = flat_map esc1 s.
Proof.
  unfold html_escape.
  replace s with (flat_map (fun x => [x]) s) at 1
    by (induction s as [|a s IH]; [reflexivity|simpl; rewrite IH; reflexivity]).
  rewrite !replace_char_flat_map. apply flat_map_ext'. exact esc1_pointwise.
Qed.

Definition ocons (c : N) (r : option (list N)) : option (list N) :=
  match r with Some l => Some (c :: l) | None => None end.

Lemma urun_esc1 x rest : urun UNormal (esc1 x ++ rest) = ocons x (urun UNormal rest).
Proof.
  unfold esc1.
  destruct (x =? 38) eqn:E1. { apply N.eqb_eq in E1. subst. cbn. destruct (urun UNormal rest); reflexivity. }
  destruct (x =? 60) eqn:E2. { apply N.eqb_eq in E2. subst. cbn. destruct (urun UNormal rest); reflexivity. }
  destruct (x =? 62) eqn:E3. { apply N.eqb_eq in E3. subst. cbn. destruct (urun UNormal rest); reflexivity. }
  destruct (x =? 34) eqn:E4. { apply N.eqb_eq in E4. subst. cbn. destruct (urun UNormal rest); reflexivity. }
  destruct (x =? 39) eqn:E5. { apply N.eqb_eq in E5. subst. cbn. destruct (urun UNormal rest); reflexivity. }
  cbn [app urun ustep]. unfold normal_step. rewrite E1. reflexivity.
Qed.

(* html.unescape (html.escape s) = s, for every text s *)
Lemma html_unescape_escape s : html_unescape (html_escape s) = Some s.
Proof.
  rewrite html_escape_flat. unfold html_unescape.
  induction s as [|x s IH]; [reflexivity|].
  cbn [flat_map]. rewrite urun_esc1, IH. reflexivity.
Qed.

(* safety of the escaped text *)
Lemma html_safe_esc1 x rest : html_safe rest = true -> html_safe (esc1 x ++ rest) = true.
Proof.
  intros H. unfold esc1.
  destruct (x =? 38) eqn:E1. { cbn. rewrite H. reflexivity. }
  destruct (x =? 60) eqn:E2. { cbn. rewrite H. reflexivity. }
  destruct (x =? 62) eqn:E3. { cbn. rewrite H. reflexivity. }
  destruct (x =? 34) eqn:E4. { cbn. rewrite H. reflexivity. }
  destruct (x =? 39) eqn:E5. { cbn. rewrite H. reflexivity. }
  cbn [app html_safe]. rewrite E1, E2, E3, E4, E5, H. reflexivity.
Qed.

Lemma html_safe_escape s : html_safe (html_escape s) = true.
Proof.
  rewrite html_escape_flat. induction s as [|x s IH]; [reflexivity|].
  cbn [flat_map]. apply html_safe_esc1. exact IH.
Qed.

(* what the boolean [html_safe] means *)
Definition entities : list (list N) := [ent_amp; ent_lt; ent_gt; ent_quot; ent_apos].

Lemma starts_with_spec p s : starts_with p s = true -> exists rest, s = p ++ rest.
Proof.
  revert s; induction p as [|a p IH]; intros s H; [exists s; reflexivity|].
  destruct s as [|b s]; [discriminate|]. cbn [starts_with] in H.
  apply andb_true_iff in H as [H1 H2]. apply N.eqb_eq in H1. subst.
  destruct (IH s H2) as [rest ->]. exists rest. reflexivity.
Qed.

Lemma html_safe_spec e : html_safe e = true ->
  ~ In 60 e /\ ~ In 62 e /\ ~ In 34 e /\ ~ In 39 e /\
  (forall pre post, e = pre ++ 38 :: post ->
     exists ent rest, In ent entities /\ 38 :: post = ent ++ rest).
Proof.
  induction e as [|c e IH]; intros H.
  { split; [intros []|]. split; [intros []|]. split; [intros []|]. split; [intros []|].
    intros pre post Hp. destruct pre; discriminate. }
  cbn [html_safe] in H. apply andb_true_iff in H as [H H3]. apply andb_true_iff in H as [H1 H2].
  destruct (IH H3) as (I1 & I2 & I3 & I4 & I5).
  apply negb_true_iff in H1.
  split; [|split; [|split; [|split]]].
  - intros [Hc|Hin]; [subst c; cbn in H1; discriminate|exact (I1 Hin)].
  - intros [Hc|Hin]; [subst c; cbn in H1; discriminate|exact (I2 Hin)].
  - intros [Hc|Hin]; [subst c; cbn in H1; discriminate|exact (I3 Hin)].
  - intros [Hc|Hin]; [subst c; cbn in H1; discriminate|exact (I4 Hin)].
  - intros pre post Hp. destruct pre as [|p pre].
    + cbn [app] in Hp. injection Hp as -> ->. replace (38 =? 38) with true in H2 by reflexivity.
      unfold entities.
      repeat (apply orb_true_iff in H2 as [H2|H2]).
      * destruct (starts_with_spec _ _ H2) as [rest Hr]. exists ent_amp, rest. split; [simpl; tauto|exact Hr].
      * destruct (starts_with_spec _ _ H2) as [rest Hr]. exists ent_lt, rest. split; [simpl; tauto|exact Hr].
      * destruct (starts_with_spec _ _ H2) as [rest Hr]. exists ent_gt, rest. split; [simpl; tauto|exact Hr].
      * destruct (starts_with_spec _ _ H2) as [rest Hr]. exists ent_quot, rest. split; [simpl; tauto|exact Hr].
      * destruct (starts_with_spec _ _ H2) as [rest Hr]. exists ent_apos, rest. split; [simpl; tauto|exact Hr].
    + cbn [app] in Hp. injection Hp as -> ->. apply (I5 pre post). reflexivity.
Qed.

(* the Tornado-level statements *)
Lemma xhtml_roundtrip v s :
  to_unicode_s v = Ok s ->
  exists e, xhtml_escape v = Ok e /\ html_safe e = true /\ xhtml_unescape (SStr e) = Ok s.
Proof.
  intros H. exists (html_escape s). unfold xhtml_escape, xhtml_unescape. rewrite H. cbn [bind to_unicode_s].
  rewrite html_unescape_escape. repeat split. apply html_safe_escape.
Qed.

Ltac Zify.zify_post_hook ::= Z.to_euclidean_division_equations.
Local Arguments N.add : simpl never.
Local Arguments N.mul : simpl never.
Local Arguments N.sub : simpl never.
Local Arguments N.div : simpl never.
Local Arguments N.modulo : simpl never.
Local Arguments N.ltb : simpl never.
Local Arguments N.leb : simpl never.
Local Arguments N.eqb : simpl never.

(* ====================================================================== *)
(* UTF-8 facts needed by the URL theorems                                  *)
(* ====================================================================== *)
Lemma utf8_encode_bytes s b : utf8_encode s = Some b -> bytes b.
Proof.
  revert b; induction s as [|c s IH]; intros b H; simpl in H.
  - injection H as <-. constructor.
  - destruct (utf8_enc1 c) as [a|] eqn:Ea; [|discriminate].
    destruct (utf8_encode s) as [b'|] eqn:Eb; [|discriminate].
    injection H as <-. apply Forall_app. split; [eapply utf8_enc1_bytes; exact Ea|apply IH; reflexivity].
Qed.

Lemma enc1_space c a : utf8_enc1 c = Some a -> existsb (N.eqb 32) a = (32 =? c).
Proof.
  unfold utf8_enc1, in_range. intros H.
  destruct (c <? 128) eqn:E1. { injection H as <-. cbn [existsb]. apply orb_false_r. }
  destruct (c <? 2048) eqn:E2. { injection H as <-. cbn [existsb]. lia. }
  destruct (c <? 65536) eqn:E3.
  { destruct ((55296 <=? c) && (c <=? 57343)); [discriminate|]. injection H as <-. cbn [existsb]. lia. }
  destruct (c <=? 1114111) eqn:E5; [|discriminate]. injection H as <-. cbn [existsb]. lia.
Qed.

Lemma utf8_encode_has_space s b : utf8_encode s = Some b -> has_space s = has_space b.
Proof.
  unfold has_space. revert b; induction s as [|c s IH]; intros b H; simpl in H.
  - injection H as <-. reflexivity.
  - destruct (utf8_enc1 c) as [a|] eqn:Ea; [|discriminate].
    destruct (utf8_encode s) as [b'|] eqn:Eb; [|discriminate].
    injection H as <-. rewrite existsb_app. cbn [existsb]. rewrite (enc1_space _ _ Ea), (IH b' eq_refl). reflexivity.
Qed.

Lemma has_space_raw v b : bytes_of v = Ok b -> has_space (raw_of v) = has_space b.
Proof.
  destruct v as [s|b0]; cbn [bytes_of raw_of].
  - unfold encode_utf8. destruct (utf8_encode s) as [b'|] eqn:E; [|discriminate].
    intros H. injection H as <-. apply utf8_encode_has_space. exact E.
  - intros H. injection H as <-. reflexivity.
Qed.

(* ====================================================================== *)
(* URL                                                                     *)
(* ====================================================================== *)
Lemma encode_utf8_ascii s : ascii s -> encode_utf8 s = Ok s.
Proof. intros H. unfold encode_utf8. rewrite utf8_encode_ascii by exact H. reflexivity. Qed.

Lemma id_ascii (a : list N) : ascii a -> (fun b : list N => b) a = a.
Proof. reflexivity. Qed.

(* the escaped text, and what the two unquoting routes see *)
Lemma url_escape_ok v b plus : bytes_of v = Ok b ->
  url_escape v plus = Ok (if plus then quote_plus_bytes (has_space b) b else quote_from_bytes safe_slash b).
Proof.
  intros H. unfold url_escape. rewrite H. cbn [bind]. rewrite (has_space_raw _ _ H). reflexivity.
Qed.

(* url_unescape(url_escape(x, plus), encoding=None, plus) = the bytes of x *)
Lemma url_roundtrip_bytes v b plus :
  bytes_of v = Ok b -> bytes b ->
  exists e, url_escape v plus = Ok e /\ url_unescape (SStr e) EncNone plus = Ok (SBytes b).
Proof.
  intros Hv Hb. eexists. split; [apply url_escape_ok; exact Hv|].
  destruct plus; cbn [url_unescape to_unicode_s bytes_of bind].
  - unfold has_space. rewrite unplus_quote_plus by exact Hb.
    rewrite encode_utf8_ascii by (apply quote_ascii; [exact safe_space_ascii|exact Hb]). cbn [bind].
    rewrite unquote_bytes_quote; [reflexivity|exact safe_space_not_pct|exact Hb].
  - rewrite encode_utf8_ascii by (apply quote_ascii; [exact safe_slash_ascii|exact Hb]). cbn [bind].
    rewrite unquote_bytes_quote; [reflexivity|exact safe_slash_not_pct|exact Hb].
Qed.

(* url_unescape(url_escape(s, plus), 'utf-8', plus) = s for surrogate-free text *)
Lemma url_roundtrip_text s plus :
  valid_text s ->
  exists e, url_escape (SStr s) plus = Ok e /\ url_unescape (SStr e) EncUtf8 plus = Ok (SStr s).
Proof.
  intros Hs. destruct (utf8_encode_total s Hs) as [b Eb].
  assert (Hv : bytes_of (SStr s) = Ok b) by (cbn [bytes_of]; unfold encode_utf8; rewrite Eb; reflexivity).
  assert (Hb : bytes b) by (eapply utf8_encode_bytes; exact Eb).
  eexists. split; [apply url_escape_ok; exact Hv|].
  destruct plus; cbn [url_unescape to_unicode_s bind]; do 2 f_equal.
  - unfold unquote_plus_text, has_space. rewrite unplus_quote_plus by exact Hb.
    rewrite unquote_text_ascii;
      [|exact utf8_decode_replace_ascii|apply quote_ascii; [exact safe_space_ascii|exact Hb]].
    rewrite unquote_bytes_quote; [|exact safe_space_not_pct|exact Hb].
    apply utf8_decode_replace_encode. exact Eb.
  - rewrite unquote_text_ascii;
      [|exact utf8_decode_replace_ascii|apply quote_ascii; [exact safe_slash_ascii|exact Hb]].
    rewrite unquote_bytes_quote; [|exact safe_slash_not_pct|exact Hb].
    apply utf8_decode_replace_encode. exact Eb.
Qed.

(* the same for a bytes argument holding valid UTF-8 *)
Lemma url_roundtrip_utf8_bytes b s plus :
  utf8_decode b = Some s ->
  exists e, url_escape (SBytes b) plus = Ok e /\ url_unescape (SStr e) EncUtf8 plus = Ok (SStr s).
Proof.
  intros Hd. assert (Eb := utf8_encode_decode _ _ Hd).
  assert (Hb : bytes b) by (eapply utf8_encode_bytes; exact Eb).
  eexists. split; [apply url_escape_ok; reflexivity|].
  destruct plus; cbn [url_unescape to_unicode_s bind]; do 2 f_equal.
  - unfold unquote_plus_text, has_space. rewrite unplus_quote_plus by exact Hb.
    rewrite unquote_text_ascii;
      [|exact utf8_decode_replace_ascii|apply quote_ascii; [exact safe_space_ascii|exact Hb]].
    rewrite unquote_bytes_quote; [|exact safe_space_not_pct|exact Hb].
    apply utf8_decode_replace_encode. exact Eb.
  - rewrite unquote_text_ascii;
      [|exact utf8_decode_replace_ascii|apply quote_ascii; [exact safe_slash_ascii|exact Hb]].
    rewrite unquote_bytes_quote; [|exact safe_slash_not_pct|exact Hb].
    apply utf8_decode_replace_encode. exact Eb.
Qed.

(* the escaped text only uses unreserved characters, '%', and '+' resp. '/' *)
Lemma url_escape_chars v b plus e :
  bytes_of v = Ok b -> bytes b -> url_escape v plus = Ok e -> forallb (url_char plus) e = true.
Proof.
  intros Hv Hb He. rewrite (url_escape_ok _ _ _ Hv) in He. injection He as <-.
  apply forallb_forall. intros c Hin. unfold url_char. destruct plus.
  - unfold quote_plus_bytes in Hin. destruct (negb (has_space b)).
    + destruct (quote_chars _ _ _ Hb Hin) as [[H _]|[->|H]]; [rewrite H; reflexivity|reflexivity|].
      unfold is_always_safe, in_range. lia.
    + unfold replace_char in Hin. apply in_flat_map in Hin as [x [Hx Hc]].
      destruct (x =? 32) eqn:E.
      * destruct Hc as [<-|[]]. reflexivity.
      * destruct Hc as [<-|[]]. destruct (quote_chars _ _ _ Hb Hx) as [[H _]|[->|H]].
        -- unfold safe_space in H. rewrite E, orb_false_r in H. rewrite H. reflexivity.
        -- reflexivity.
        -- unfold is_always_safe, in_range. lia.
  - destruct (quote_chars _ _ _ Hb Hin) as [[H _]|[->|H]].
    + unfold safe_slash in H. apply orb_true_iff in H as [H|H]; rewrite H; [reflexivity|apply orb_true_r].
    + reflexivity.
    + unfold is_always_safe, in_range. lia.
Qed.

(* ====================================================================== *)
(* utf8 / to_unicode                                                       *)
(* ====================================================================== *)
Lemma py_to_unicode_utf8 s r : py_utf8 (PStr s) = Ok r -> py_to_unicode r = Ok (PStr s).
Proof.
  cbn [py_utf8]. unfold encode_utf8. destruct (utf8_encode s) as [b|] eqn:E; [|discriminate].
  cbn [bind]. intros H. injection H as <-. cbn [py_to_unicode]. unfold decode_utf8.
  rewrite (utf8_decode_encode _ _ E). reflexivity.
Qed.

Lemma py_utf8_total s : valid_text s -> exists b, py_utf8 (PStr s) = Ok (PBytes b).
Proof.
  intros H. destruct (utf8_encode_total s H) as [b E]. exists b.
  cbn [py_utf8]. unfold encode_utf8. rewrite E. reflexivity.
Qed.

Lemma py_utf8_to_unicode b r : py_to_unicode (PBytes b) = Ok r -> py_utf8 r = Ok (PBytes b).
Proof.
  cbn [py_to_unicode]. unfold decode_utf8. destruct (utf8_decode b) as [s|] eqn:E; [|discriminate].
  cbn [bind]. intros H. injection H as <-. cbn [py_utf8]. unfold encode_utf8.
  rewrite (utf8_encode_decode _ _ E). reflexivity.
Qed.

Lemma py_utf8_rejects v :
  match v with PNone | PStr _ | PBytes _ => True | _ => py_utf8 v = Err EType /\ py_to_unicode v = Err EType end.
Proof. destruct v; try exact I; split; reflexivity. Qed.

Lemma py_fixed_points b s :
  py_utf8 (PBytes b) = Ok (PBytes b) /\ py_utf8 PNone = Ok PNone /\
  py_to_unicode (PStr s) = Ok (PStr s) /\ py_to_unicode PNone = Ok PNone.
Proof. repeat split. Qed.

(* ====================================================================== *)
(* JSON: the replacement leaves no "</"                                    *)
(* ====================================================================== *)
Lemma replace_lt_slash_cons2 c d t :
  replace_lt_slash (c :: d :: t) =
  if (c =? 60) && (d =? 47) then 60 :: 92 :: 47 :: replace_lt_slash t else c :: replace_lt_slash (d :: t).
Proof. reflexivity. Qed.

Lemma replace_lt_slash_hd s : hd_error (replace_lt_slash s) = hd_error s.
Proof.
  destruct s as [|c [|d t]]; [reflexivity|reflexivity|]. rewrite replace_lt_slash_cons2.
  destruct ((c =? 60) && (d =? 47)) eqn:E; [|reflexivity].
  apply andb_true_iff in E as [E _]. apply N.eqb_eq in E. subst. reflexivity.
Qed.

Lemma no_lt_slash_cons c r :
  no_lt_slash r = true -> (c = 60 -> hd_error r <> Some 47) -> no_lt_slash (c :: r) = true.
Proof.
  intros Hr Hc. destruct r as [|d r']; [reflexivity|]. cbn [no_lt_slash] in *. rewrite Hr, andb_true_r.
  apply negb_true_iff. destruct (c =? 60) eqn:E1; [|reflexivity]. destruct (d =? 47) eqn:E2; [|reflexivity].
  apply N.eqb_eq in E1, E2. subst. exfalso. apply Hc; reflexivity.
Qed.

Lemma replace_lt_slash_clean_len n : forall s, (length s <= n)%nat -> no_lt_slash (replace_lt_slash s) = true.
Proof.
  induction n as [|n IH]; intros s Hlen.
  { destruct s; [reflexivity|simpl in Hlen; lia]. }
  destruct s as [|c [|d t]]; [reflexivity|reflexivity|]. rewrite replace_lt_slash_cons2. simpl in Hlen.
  destruct ((c =? 60) && (d =? 47)) eqn:E.
  - apply no_lt_slash_cons; [|intros _; discriminate].
    apply no_lt_slash_cons; [|intros; discriminate].
    apply no_lt_slash_cons; [apply IH; lia|intros; discriminate].
  - apply no_lt_slash_cons; [apply IH; simpl; lia|].
    intros ->. rewrite replace_lt_slash_hd. cbn [hd_error]. intros H. injection H as ->. discriminate.
Qed.

Lemma replace_lt_slash_clean s : no_lt_slash (replace_lt_slash s) = true.
Proof. apply (replace_lt_slash_clean_len (length s)). lia. Qed.

Lemma no_lt_slash_cons2 c d s :
  no_lt_slash (c :: d :: s) = negb ((c =? 60) && (d =? 47)) && no_lt_slash (d :: s).
Proof. reflexivity. Qed.

Lemma no_lt_slash_spec s : no_lt_slash s = true -> forall pre post, s <> pre ++ 60 :: 47 :: post.
Proof.
  intros H pre. revert s H. induction pre as [|p pre IH]; intros s H post Heq.
  - subst. cbn in H. discriminate.
  - destruct s as [|c s]; [discriminate|]. cbn [app] in Heq. injection Heq as -> Hs.
    destruct s as [|d s']; [destruct pre; discriminate|]. rewrite no_lt_slash_cons2 in H.
    apply andb_true_iff in H as [_ H]. exact (IH _ H post Hs).
Qed.

(* json_encode never produces "</" *)
Lemma json_encode_no_lt_slash v : forall pre post, json_encode v <> pre ++ 60 :: 47 :: post.
Proof. apply no_lt_slash_spec. apply replace_lt_slash_clean. Qed.
