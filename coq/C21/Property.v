(* C21 — Escaping and encoding helpers are safe and invertible.
   Property theorems only; proofs are in Lib/C21_Utf8.v, Lib/C21_Pct.v,
   C21/Proofs.v ... C21/Proofs7.v.
   Text = list of code points, bytes = list of byte values. *)
From Coq Require Import List NArith.
Import ListNotations.
From TV Require Import Lib.Obs Lib.C21_Utf8 Lib.C21_Pct C21.Model C21.Run C21.Proofs C21.Proofs2 C21.Proofs3 C21.Proofs4 C21.Proofs5 C21.Proofs6 C21.Proofs7.
Local Open Scope N_scope.

(* ---------------- HTML ---------------- *)
(* For every str, and every bytes object that decodes as UTF-8 (s is its text):
   xhtml_unescape(xhtml_escape(v)) == s.  No surrogate restriction is needed. *)
Theorem C21_html_unescape_inverts_escape :
  forall v s, to_unicode_s v = Ok s ->
    exists e, xhtml_escape v = Ok e /\ xhtml_unescape (SStr e) = Ok s.
Proof. intros v s H. destruct (xhtml_roundtrip v s H) as (e & H1 & _ & H3). eauto. Qed.
Print Assumptions C21_html_unescape_inverts_escape.

(* The escaped text has no less-than, greater-than, double-quote or apostrophe
   character, and every ampersand in it is the first character of one of the five
   entities &amp; &lt; &gt; &quot; &#x27; *)
Theorem C21_html_escaped_text_is_safe :
  forall v e, xhtml_escape v = Ok e ->
    ~ In 60 e /\ ~ In 62 e /\ ~ In 34 e /\ ~ In 39 e /\
    (forall pre post, e = pre ++ 38 :: post ->
       exists ent rest, In ent [ent_amp; ent_lt; ent_gt; ent_quot; ent_apos] /\ 38 :: post = ent ++ rest).
Proof. exact xhtml_escape_safe. Qed.
Print Assumptions C21_html_escaped_text_is_safe.

(* ---------------- URL ---------------- *)
(* url_unescape(url_escape(s, plus), 'utf-8', plus) == s for every text without
   lone surrogates, in both plus modes *)
Theorem C21_url_roundtrip_text :
  forall s plus, valid_text s ->
    exists e, url_escape (SStr s) plus = Ok e /\ url_unescape (SStr e) EncUtf8 plus = Ok (SStr s).
Proof. intros s plus H. apply url_roundtrip_text. exact H. Qed.
Print Assumptions C21_url_roundtrip_text.

(* the bytes-returning form: url_unescape(url_escape(x, plus), None, plus) == the
   bytes of x (x itself if bytes, its UTF-8 encoding if str), both plus modes *)
Theorem C21_url_roundtrip_bytes :
  forall v b plus, bytes_of v = Ok b -> bytes b ->
    exists e, url_escape v plus = Ok e /\ url_unescape (SStr e) EncNone plus = Ok (SBytes b).
Proof. exact url_roundtrip_bytes. Qed.
Print Assumptions C21_url_roundtrip_bytes.

(* a bytes argument holding valid UTF-8 comes back as its text *)
Theorem C21_url_roundtrip_utf8_bytes :
  forall b s plus, utf8_decode b = Some s ->
    exists e, url_escape (SBytes b) plus = Ok e /\ url_unescape (SStr e) EncUtf8 plus = Ok (SStr s).
Proof. exact url_roundtrip_utf8_bytes. Qed.
Print Assumptions C21_url_roundtrip_utf8_bytes.

(* escaped URLs consist of unreserved characters, '%', and '+' (plus) or '/' (not plus) *)
Theorem C21_url_escaped_text_is_safe :
  forall v b plus e, bytes_of v = Ok b -> bytes b -> url_escape v plus = Ok e ->
    forallb (url_char plus) e = true.
Proof. exact url_escape_chars. Qed.
Print Assumptions C21_url_escaped_text_is_safe.

(* ---------------- UTF-8 ---------------- *)
Theorem C21_utf8_decode_inverts_encode :
  forall s, valid_text s -> exists b, utf8_encode s = Some b /\ utf8_decode b = Some s.
Proof.
  intros s H. destruct (utf8_encode_total s H) as [b E]. exists b. split; [exact E|].
  apply utf8_decode_encode. exact E.
Qed.
Print Assumptions C21_utf8_decode_inverts_encode.

Theorem C21_utf8_encode_inverts_decode :
  forall b s, utf8_decode b = Some s -> utf8_encode s = Some b /\ valid_text s.
Proof. intros b s H. split; [apply utf8_encode_decode; exact H|eapply utf8_decode_valid; exact H]. Qed.
Print Assumptions C21_utf8_encode_inverts_decode.

(* escape.utf8 / escape.to_unicode are mutually inverse wherever they succeed,
   utf8 succeeds on all surrogate-free text ... *)
Theorem C21_utf8_helpers_inverse :
  (forall s r, py_utf8 (PStr s) = Ok r -> py_to_unicode r = Ok (PStr s)) /\
  (forall s, valid_text s -> exists b, py_utf8 (PStr s) = Ok (PBytes b)) /\
  (forall b r, py_to_unicode (PBytes b) = Ok r -> py_utf8 r = Ok (PBytes b)).
Proof. split; [exact py_to_unicode_utf8|split; [exact py_utf8_total|exact py_utf8_to_unicode]]. Qed.
Print Assumptions C21_utf8_helpers_inverse.

(* ... and both reject everything that is not None, str or bytes *)
Theorem C21_utf8_helpers_reject_other_types :
  forall v, match v with
            | PNone | PStr _ | PBytes _ => True
            | _ => py_utf8 v = Err EType /\ py_to_unicode v = Err EType
            end.
Proof. exact py_utf8_rejects. Qed.
Print Assumptions C21_utf8_helpers_reject_other_types.

(* None, and values already of the target type, pass through unchanged *)
Theorem C21_utf8_helpers_fixed_points :
  forall b s,
    py_utf8 (PBytes b) = Ok (PBytes b) /\ py_utf8 PNone = Ok PNone /\
    py_to_unicode (PStr s) = Ok (PStr s) /\ py_to_unicode PNone = Ok PNone.
Proof. exact py_fixed_points. Qed.
Print Assumptions C21_utf8_helpers_fixed_points.

(* recursive_unicode: whatever it returns contains no byte string at any depth
   (lists, tuples, dict keys and values) ... *)
Theorem C21_recursive_unicode_leaves_no_bytes :
  forall v r, rec_unicode v = Ok r -> has_bytes r = false.
Proof. exact rec_unicode_no_bytes. Qed.
Print Assumptions C21_recursive_unicode_leaves_no_bytes.

(* ... and it can only fail with UnicodeDecodeError, and only if the value holds a byte string *)
Theorem C21_recursive_unicode_only_fails_on_bytes :
  forall v e, rec_unicode v = Err e -> e = EUnicodeDecode /\ has_bytes v = true.
Proof. exact rec_unicode_errors. Qed.
Print Assumptions C21_recursive_unicode_only_fails_on_bytes.

(* the second code path of url_unescape: an ASCII bytes argument (what url_escape
   produces, encoded) is treated exactly like the equal str, for both encodings
   and both plus modes - so every URL round-trip theorem above also holds when the
   escaped text is passed as bytes *)
Theorem C21_url_unescape_bytes_argument_equals_str :
  forall e enc plus, ascii e -> url_unescape (SBytes e) enc plus = url_unescape (SStr e) enc plus.
Proof. exact url_unescape_bytes_eq_str. Qed.
Print Assumptions C21_url_unescape_bytes_argument_equals_str.

(* ---------------- JSON ---------------- *)
(* json_encode(v) never contains the two characters less-than, slash in a row,
   for every JSON value *)
Theorem C21_json_encode_never_contains_lt_slash :
  forall v pre post, json_encode v <> pre ++ 60 :: 47 :: post.
Proof. exact json_encode_no_lt_slash. Qed.
Print Assumptions C21_json_encode_never_contains_lt_slash.

(* json_decode(json_encode(v)) == v for every JSON value (null, booleans, integers
   of any size, strings, lists, string-keyed objects, nested to any depth) whose
   strings and keys hold Unicode scalar values and whose objects have distinct
   keys (Python dicts always do).  json_loads is the model of json.loads on a str:
   the result is JOk v, i.e. no error, no float, fuel not exhausted. *)
Theorem C21_json_decode_inverts_encode :
  forall v, jv_okb v = true -> json_loads (json_encode v) = JOk v.
Proof. exact json_roundtrip. Qed.
Print Assumptions C21_json_decode_inverts_encode.

(* the surrogate-freeness hypothesis is needed: two adjacent lone surrogates are
   merged into one astral character by the decoder (stdlib json behaviour) *)
Theorem C21_json_roundtrip_adjacent_lone_surrogates_refuted :
  exists v, json_loads (json_encode v) <> JOk v.
Proof. exists (JStr [56319; 56320]). vm_compute. discriminate. Qed.
Print Assumptions C21_json_roundtrip_adjacent_lone_surrogates_refuted.

(* ---------------- query strings ---------------- *)
(* For every list of (name, value) byte strings: escaping each side with
   url_escape, joining with '=' and '&' and parsing the result - given as bytes
   or as their latin-1 decoding (v is either; both have the code points of
   encode_pairs ps) - returns exactly the pairs, grouped by name in order, every
   byte intact (blank values dropped unless keep_blank_values). *)
Theorem C21_parse_qs_preserves_every_byte :
  forall v ps keep strict,
    Forall (fun kv => bytes (fst kv) /\ bytes (snd kv)) ps ->
    raw_of v = encode_pairs ps ->
    parse_qs_bytes v keep strict = Ok (group_pairs (keep_filter keep ps)).
Proof. exact parse_qs_roundtrip. Qed.
Print Assumptions C21_parse_qs_preserves_every_byte.

(* The same with minimal escaping: only the bytes & = + % are percent-encoded and
   EVERY other byte (controls, tab, space, 0x85, 0xA0, any non-ASCII byte, at the
   start, in the middle or at the end of the query string) appears raw.  Every
   byte of every name and value still comes back. *)
Theorem C21_parse_qs_preserves_every_raw_byte :
  forall v ps keep strict,
    Forall (fun kv => bytes (fst kv) /\ bytes (snd kv)) ps ->
    raw_of v = encode_pairs_with qs_escape_min ps ->
    parse_qs_bytes v keep strict = Ok (group_pairs (keep_filter keep ps)).
Proof. exact parse_qs_raw_roundtrip. Qed.
Print Assumptions C21_parse_qs_preserves_every_raw_byte.

(* ---------------- the checker used on the implementation ---------------- *)
(* the model satisfies the boolean property applied to the implementation's
   observables, on every well-formed input *)
Theorem C21_model_satisfies_checker :
  forall i, wf_in i -> check_case i (run_case i) = true.
Proof. exact model_satisfies_checker. Qed.
Print Assumptions C21_model_satisfies_checker.

(* the hypotheses above are satisfiable by non-trivial inputs *)
Example C21_hypotheses_nontrivial :
  valid_text [60; 233; 128512; 38] /\ bytes [255; 37; 43; 0] /\
  utf8_decode [240; 159; 152; 128] = Some [128512] /\
  to_unicode_s (SBytes [195; 169; 60]) = Ok [233; 60] /\
  wf_in (IQsRT [([97; 32; 38], [61; 255]); ([97; 32; 38], [])] false true) /\
  jv_okb (JObj [([60; 47], JArr [JStr [128512; 60; 47]; JInt (Zneg 12); JNull]); ([107], JObj [])]) = true.
Proof.
  repeat split; try reflexivity; repeat constructor.
Qed.
