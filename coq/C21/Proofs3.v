(* C21 — proofs, part 3: the model satisfies the boolean checker applied to the
   implementation's observables. *)
From Coq Require Import List ZArith NArith Bool String Lia.
Import ListNotations.
From TV Require Import Lib.Obs Lib.C21_Utf8 Lib.C21_Pct C21.Model C21.Run C21.Proofs C21.Proofs2.
Local Open Scope N_scope.

Lemma xhtml_escape_safe v e : xhtml_escape v = Ok e ->
  ~ In 60 e /\ ~ In 62 e /\ ~ In 34 e /\ ~ In 39 e /\
  (forall pre post, e = pre ++ 38 :: post ->
     exists ent rest, In ent [ent_amp; ent_lt; ent_gt; ent_quot; ent_apos] /\ 38 :: post = ent ++ rest).
Proof.
  unfold xhtml_escape. destruct (to_unicode_s v) as [s|x]; cbn [bind]; [|discriminate].
  intros H. injection H as <-. apply html_safe_spec. apply html_safe_escape.
Qed.

Lemma list_eqb_N_refl l : list_eqb N.eqb l l = true.
Proof. induction l as [|a l IH]; [reflexivity|]. simpl. rewrite N.eqb_refl, IH. reflexivity. Qed.

Fixpoint obs_eqb_refl (o : obs) : obs_eqb o o = true.
Proof.
  destruct o as [|b|z|l|s|l]; simpl.
  - reflexivity.
  - apply eqb_reflx.
  - apply Z.eqb_refl.
  - apply list_eqb_N_refl.
  - apply String.eqb_refl.
  - induction l as [|a l IH]; [reflexivity|]. rewrite (obs_eqb_refl a). exact IH.
Qed.

Definition wf_sval (v : sval) : Prop := match v with SBytes b => bytes b | SStr _ => True end.
Definition wf_in (i : c21_in) : Prop :=
  match i with
  | IUrl v _ => wf_sval v
  | IQsRT ps _ _ => wf_pairs ps
  | IQsRaw ps _ _ => wf_pairs ps
  | _ => True
  end.

Lemma bytes_of_bytes v b : wf_sval v -> bytes_of v = Ok b -> bytes b.
Proof.
  destruct v as [s|b0]; cbn [wf_sval bytes_of].
  - intros _. unfold encode_utf8. destruct (utf8_encode s) as [b'|] eqn:E; [|discriminate].
    intros H. injection H as <-. eapply utf8_encode_bytes. exact E.
  - intros Hb H. injection H as <-. exact Hb.
Qed.

Lemma forallb_scalar_valid s : forallb is_scalar s = true -> valid_text s.
Proof. intros H. apply Forall_forall. intros c Hc. rewrite forallb_forall in H. exact (H c Hc). Qed.

Lemma check_html v : check_case (IHtml v) (run_case (IHtml v)) = true.
Proof.
  cbn [check_case run_case]. unfold xhtml_escape, xhtml_unescape.
  destruct (to_unicode_s v) as [s|x] eqn:E; cbn [bind to_unicode_s].
  - rewrite html_unescape_escape. cbn [ores ostr]. rewrite html_safe_escape. apply obs_eqb_refl.
  - apply obs_eqb_refl.
Qed.

Lemma check_url v plus : wf_sval v -> check_case (IUrl v plus) (run_case (IUrl v plus)) = true.
Proof.
  intros Hwf. cbn [check_case run_case].
  destruct (bytes_of v) as [b|x] eqn:E.
  - assert (Hb := bytes_of_bytes v b Hwf E).
    destruct (url_roundtrip_bytes v b plus E Hb) as (e & He & Hub).
    rewrite He, Hub. cbn [ores osval ostr].
    rewrite (url_escape_chars v b plus e E Hb He), obs_eqb_refl. cbn [andb].
    destruct (to_unicode_s v) as [s|y] eqn:Eu; [|reflexivity].
    destruct v as [s0|b0]; cbn [to_unicode_s bytes_of] in *.
    + injection Eu as ->. unfold encode_utf8 in E. destruct (utf8_encode s) as [b'|] eqn:E'; [|discriminate].
      destruct (url_roundtrip_text s plus (utf8_encode_Some_valid _ _ E')) as (e' & He' & Hu).
      rewrite He in He'. injection He' as <-. rewrite Hu. apply obs_eqb_refl.
    + injection E as ->. unfold decode_utf8 in Eu. destruct (utf8_decode b) as [s'|] eqn:Ed; [|discriminate].
      injection Eu as ->.
      destruct (url_roundtrip_utf8_bytes b s plus Ed) as (e' & He' & Hu).
      rewrite He in He'. injection He' as <-. rewrite Hu. apply obs_eqb_refl.
  - unfold url_escape. rewrite E. cbn [bind]. apply obs_eqb_refl.
Qed.

Lemma check_utf8 v : check_case (IUtf8 v) (run_case (IUtf8 v)) = true.
Proof.
  destruct v as [|z|s|b|l|l|l]; try reflexivity.
  - cbn [check_case run_case py_utf8]. unfold encode_utf8.
    destruct (utf8_encode s) as [b|] eqn:E; cbn [bind].
    + assert (H : py_to_unicode (PBytes b) = Ok (PStr s)).
      { apply py_to_unicode_utf8. cbn [py_utf8]. unfold encode_utf8. rewrite E. reflexivity. }
      rewrite H. cbn [ores]. apply obs_eqb_refl.
    + cbn [err_tag obs_eqb]. cbn [andb]. apply negb_true_iff.
      destruct (forallb is_scalar s) eqn:F; [|reflexivity].
      destruct (utf8_encode_total s (forallb_scalar_valid s F)) as [b Hb]. congruence.
  - cbn [check_case run_case py_utf8]. apply obs_eqb_refl.
Qed.

Lemma check_touni v : check_case (IToUni v) (run_case (IToUni v)) = true.
Proof.
  destruct v as [|z|s|b|l|l|l]; try reflexivity.
  - cbn [check_case run_case py_to_unicode]. apply obs_eqb_refl.
  - cbn [check_case run_case py_to_unicode]. unfold decode_utf8.
    destruct (utf8_decode b) as [s|] eqn:E; cbn [bind].
    + assert (H : py_utf8 (PStr s) = Ok (PBytes b)).
      { apply py_utf8_to_unicode. cbn [py_to_unicode]. unfold decode_utf8. rewrite E. reflexivity. }
      rewrite H. cbn [ores]. apply obs_eqb_refl.
    + reflexivity.
Qed.

Lemma check_qsrt ps keep strict : wf_pairs ps ->
  check_case (IQsRT ps keep strict) (run_case (IQsRT ps keep strict)) = true.
Proof.
  intros Hwf. cbn [check_case run_case].
  rewrite (parse_qs_roundtrip (SBytes (encode_pairs ps)) ps keep strict Hwf eq_refl).
  rewrite (parse_qs_roundtrip (SStr (encode_pairs ps)) ps keep strict Hwf eq_refl).
  cbn [ores]. rewrite obs_eqb_refl. reflexivity.
Qed.

