(* C21 — tornado.escape: xhtml_escape / xhtml_unescape, url_escape / url_unescape,
   json_encode, utf8 / to_unicode / recursive_unicode, parse_qs_bytes, together
   with the standard-library routines they wrap (html.escape / html.unescape,
   urllib.parse.quote / quote_plus / unquote / unquote_plus / unquote_to_bytes /
   parse_qs, json.dumps with default arguments, the UTF-8 codec).
   Text = list of code points, bytes = list of byte values (list N).
   Definitions only. *)
From Coq Require Import List ZArith NArith Bool.
Import ListNotations.
From TV Require Import Lib.C21_Utf8 Lib.C21_Pct.
Local Open Scope N_scope.

(* a `str | bytes` argument *)
Inductive sval := SStr (s : list N) | SBytes (b : list N).

Inductive err :=
| EUnicodeDecode | EUnicodeEncode | EType | EValue
| EOutside.       (* not an exception: input outside the modelled part of html.unescape *)
Inductive res (A : Type) := Ok (a : A) | Err (e : err).
Arguments Ok {A} a.
Arguments Err {A} e.
Definition bind {A B} (r : res A) (f : A -> res B) : res B :=
  match r with Ok a => f a | Err e => Err e end.

Definition decode_utf8 (b : list N) : res (list N) :=
  match utf8_decode b with Some s => Ok s | None => Err EUnicodeDecode end.
Definition encode_utf8 (s : list N) : res (list N) :=
  match utf8_encode s with Some b => Ok b | None => Err EUnicodeEncode end.

(* escape.to_unicode / to_basestring on str | bytes *)
Definition to_unicode_s (v : sval) : res (list N) :=
  match v with SStr s => Ok s | SBytes b => decode_utf8 b end.
Definition raw_of (v : sval) : list N := match v with SStr s => s | SBytes b => b end.
(* what urllib does with a str | bytes argument: str is encoded as UTF-8 *)
Definition bytes_of (v : sval) : res (list N) :=
  match v with SStr s => encode_utf8 s | SBytes b => Ok b end.

(* ====================== HTML ====================== *)
Definition ent_amp  : list N := [38; 97; 109; 112; 59].          (* &amp;  *)
Definition ent_lt   : list N := [38; 108; 116; 59].              (* &lt;   *)
Definition ent_gt   : list N := [38; 103; 116; 59].              (* &gt;   *)
Definition ent_quot : list N := [38; 113; 117; 111; 116; 59].    (* &quot; *)
Definition ent_apos : list N := [38; 35; 120; 50; 55; 59].       (* &#x27; *)

(* html.escape(s, quote=True): five successive str.replace calls, '&' first *)
Definition html_escape (s : list N) : list N :=
  replace_char 39 ent_apos
    (replace_char 34 ent_quot
      (replace_char 62 ent_gt
        (replace_char 60 ent_lt
          (replace_char 38 ent_amp s)))).

Definition xhtml_escape (v : sval) : res (list N) :=
  bind (to_unicode_s v) (fun s => Ok (html_escape s)).

(* html.unescape: the regular expression
     &(#[0-9]+;?|#[xX][0-9a-fA-F]+;?|[^\t\n\f <&#;]{1,32};?)
   as a transducer.  Numeric references are modelled completely (including the
   HTML5 replacement tables); of the 2231 named references only amp, lt, gt,
   quot (with or without ';') and apos; are known: any other name makes the
   model answer "outside" (None) instead of guessing. *)
Inductive ustate :=
| UNormal
| UAmp                              (* "&" *)
| UHash                             (* "&#" *)
| UDec (n : N)                      (* "&#" and at least one decimal digit *)
| UHexX (x : N)                     (* "&#x" or "&#X" (x = the letter) *)
| UHex (n : N)                      (* ... and at least one hex digit *)
| UName (acc : list N) (len : nat). (* "&" and len name characters (reversed) *)

Definition is_digit (c : N) : bool := in_range 48 57 c.
Definition is_name_char (c : N) : bool :=
  negb ((c =? 9) || (c =? 10) || (c =? 12) || (c =? 32) || (c =? 60) || (c =? 38) || (c =? 35) || (c =? 59)).

(* html._invalid_charrefs for 0x80..0x9f *)
Definition cp1252_table : list N :=
  [8364; 129; 8218; 402; 8222; 8230; 8224; 8225; 710; 8240; 352; 8249; 338; 141; 381; 143;
   144; 8216; 8217; 8220; 8221; 8226; 8211; 8212; 732; 8482; 353; 8250; 339; 157; 382; 376].
(* html._invalid_codepoints (those not already caught by _invalid_charrefs) *)
Definition invalid_codepoint (n : N) : bool :=
  in_range 1 8 n || (n =? 11) || in_range 14 31 n || in_range 127 159 n ||
  in_range 64976 65007 n || (65534 <=? n mod 65536).

(* html._replace_charref, numeric branch *)
Definition numref (n : N) : list N :=
  if n =? 0 then [65533]
  else if n =? 13 then [13]
  else if in_range 128 159 n then
    match nth_error cp1252_table (N.to_nat (n - 128)) with Some x => [x] | None => [65533] end
  else if in_range 55296 57343 n || (1114111 <? n) then [65533]
  else if invalid_codepoint n then []
  else [n].

Definition list_N_eqb (a b : list N) : bool :=
  (fix go (x y : list N) : bool :=
     match x, y with
     | [], [] => true
     | p :: x', q :: y' => (p =? q) && go x' y'
     | _, _ => false
     end) a b.

(* named branch, known names only; [semi] = the reference ended with ';' *)
Definition named (name : list N) (semi : bool) : option (list N) :=
  if list_N_eqb name [97; 109; 112] then Some [38]
  else if list_N_eqb name [108; 116] then Some [60]
  else if list_N_eqb name [103; 116] then Some [62]
  else if list_N_eqb name [113; 117; 111; 116] then Some [34]
  else if list_N_eqb name [97; 112; 111; 115] && semi then Some [39]
  else None.

Definition normal_step (c : N) : option (list N * ustate) :=
  if c =? 38 then Some ([], UAmp) else Some ([c], UNormal).
Definition prefixed (p : list N) (r : option (list N * ustate)) : option (list N * ustate) :=
  match r with Some (o, st) => Some (p ++ o, st) | None => None end.

Definition ustep (st : ustate) (c : N) : option (list N * ustate) :=
  match st with
  | UNormal => normal_step c
  | UAmp =>
      if c =? 35 then Some ([], UHash)
      else if is_name_char c then Some ([], UName [c] 1)
      else prefixed [38] (normal_step c)
  | UHash =>
      if is_digit c then Some ([], UDec (c - 48))
      else if (c =? 120) || (c =? 88) then Some ([], UHexX c)
      else prefixed [38; 35] (normal_step c)
  | UDec n =>
      if is_digit c then Some ([], UDec (n * 10 + (c - 48)))
      else if c =? 59 then Some (numref n, UNormal)
      else prefixed (numref n) (normal_step c)
  | UHexX x =>
      match hexval c with
      | Some d => Some ([], UHex d)
      | None => prefixed [38; 35; x] (normal_step c)
      end
  | UHex n =>
      match hexval c with
      | Some d => Some ([], UHex (n * 16 + d))
      | None => if c =? 59 then Some (numref n, UNormal) else prefixed (numref n) (normal_step c)
      end
  | UName acc len =>
      if is_name_char c && (len <? 32)%nat then Some ([], UName (c :: acc) (S len))
      else if c =? 59 then
        match named (rev acc) true with Some r => Some (r, UNormal) | None => None end
      else
        match named (rev acc) false with Some r => prefixed r (normal_step c) | None => None end
  end.

Definition ufinish (st : ustate) : option (list N) :=
  match st with
  | UNormal => Some []
  | UAmp => Some [38]
  | UHash => Some [38; 35]
  | UDec n => Some (numref n)
  | UHexX x => Some [38; 35; x]
  | UHex n => Some (numref n)
  | UName acc _ => named (rev acc) false
  end.

Fixpoint urun (st : ustate) (s : list N) : option (list N) :=
  match s with
  | [] => ufinish st
  | c :: t =>
      match ustep st c with
      | None => None
      | Some (o, st') => match urun st' t with Some r => Some (o ++ r) | None => None end
      end
  end.

Definition html_unescape (s : list N) : option (list N) := urun UNormal s.

Definition xhtml_unescape (v : sval) : res (list N) :=
  bind (to_unicode_s v) (fun s =>
    match html_unescape s with Some r => Ok r | None => Err EOutside end).

(* ====================== URL ====================== *)
Definition has_space (l : list N) : bool := existsb (N.eqb 32) l.

(* escape.url_escape(value, plus) *)
Definition url_escape (v : sval) (plus : bool) : res (list N) :=
  bind (bytes_of v) (fun bs =>
    Ok (if plus then quote_plus_bytes (has_space (raw_of v)) bs
        else quote_from_bytes safe_slash bs)).

Inductive uenc := EncNone | EncUtf8.

(* escape.url_unescape(value, encoding, plus); result is bytes when encoding is None *)
Definition url_unescape (v : sval) (enc : uenc) (plus : bool) : res sval :=
  match enc with
  | EncNone =>
      if plus then
        bind (to_unicode_s v) (fun s =>
          bind (encode_utf8 (replace_char 43 [32] s)) (fun b => Ok (SBytes (unquote_bytes b))))
      else bind (bytes_of v) (fun b => Ok (SBytes (unquote_bytes b)))
  | EncUtf8 =>
      bind (to_unicode_s v) (fun s =>
        Ok (SStr (if plus then unquote_plus_text utf8_decode_replace s
                  else unquote_text utf8_decode_replace s)))
  end.

(* ====================== query strings ====================== *)
(* str.split(sep) ([cur] = current piece, reversed) *)
Fixpoint split_on (sep : N) (cur s : list N) : list (list N) :=
  match s with
  | [] => [rev cur]
  | c :: t => if c =? sep then rev cur :: split_on sep [] t else split_on sep (c :: cur) t
  end.

(* name_value.split('=', 1): None when there is no '=' *)
Fixpoint partition_eq (s : list N) : option (list N * list N) :=
  match s with
  | [] => None
  | c :: t =>
      if c =? 61 then Some ([], t)
      else match partition_eq t with Some (a, b) => Some (c :: a, b) | None => None end
  end.

(* x.replace('+', ' ') then unquote(x, encoding='latin1', errors='strict') *)
Definition unq_latin1 (x : list N) : list N := unquote_plus_text (fun b => b) x.

Definition is_nil {A} (l : list A) : bool := match l with [] => true | _ => false end.

(* the loop of urllib.parse.parse_qsl *)
Fixpoint qsl_fields (keep strict : bool) (fs : list (list N)) : res (list (list N * list N)) :=
  match fs with
  | [] => Ok []
  | f :: fs' =>
      if is_nil f && negb strict then qsl_fields keep strict fs'
      else
        match partition_eq f with
        | None =>
            if strict then Err EValue
            else if keep then
              bind (qsl_fields keep strict fs') (fun r => Ok ((unq_latin1 f, unq_latin1 []) :: r))
            else qsl_fields keep strict fs'
        | Some (n, v) =>
            if negb (is_nil v) || keep then
              bind (qsl_fields keep strict fs') (fun r => Ok ((unq_latin1 n, unq_latin1 v) :: r))
            else qsl_fields keep strict fs'
        end
  end.

Definition parse_qsl (qs : list N) (keep strict : bool) : res (list (list N * list N)) :=
  if is_nil qs then Ok [] else qsl_fields keep strict (split_on 38 [] qs).

(* parse_qs: dict of lists in insertion order *)
Fixpoint dict_add (k v : list N) (d : list (list N * list (list N))) : list (list N * list (list N)) :=
  match d with
  | [] => [(k, [v])]
  | (k', vs) :: d' => if list_N_eqb k k' then (k', vs ++ [v]) :: d' else (k', vs) :: dict_add k v d'
  end.
Definition group_pairs (ps : list (list N * list N)) : list (list N * list (list N)) :=
  fold_left (fun d kv => dict_add (fst kv) (snd kv) d) ps [].

(* escape.parse_qs_bytes(qs, keep_blank_values, strict_parsing): bytes are read
   as latin-1 (the identity on list N); values are encoded back to latin-1 *)
Definition parse_qs_bytes (v : sval) (keep strict : bool) : res (list (list N * list (list N))) :=
  bind (parse_qsl (raw_of v) keep strict) (fun ps =>
    let d := group_pairs ps in
    if forallb (fun kv => forallb (forallb is_byte) (snd kv)) d then Ok d else Err EUnicodeEncode).

(* the inverse used in the round-trip statement: name=value pairs, each side
   url_escape'd (plus mode), joined with '&' *)
Definition qs_escape (b : list N) : list N := quote_plus_bytes (has_space b) b.
Fixpoint encode_pairs (ps : list (list N * list N)) : list N :=
  match ps with
  | [] => []
  | [(k, v)] => qs_escape k ++ 61 :: qs_escape v
  | (k, v) :: ps' => qs_escape k ++ 61 :: qs_escape v ++ 38 :: encode_pairs ps'
  end.

(* ====================== JSON ====================== *)
Inductive jv :=
| JNull | JBool (b : bool) | JInt (z : Z) | JStr (s : list N)
| JArr (l : list jv) | JObj (l : list (list N * jv)).

Definition hexdigit_lower (n : N) : N := if n <? 10 then 48 + n else 87 + n.
Definition hex4 (n : N) : list N :=
  [hexdigit_lower (n / 4096); hexdigit_lower ((n / 256) mod 16);
   hexdigit_lower ((n / 16) mod 16); hexdigit_lower (n mod 16)].
Definition u_escape (n : N) : list N := 92 :: 117 :: hex4 n.     (* \uXXXX *)

(* json.encoder.py_encode_basestring_ascii, one character *)
Definition json_char (c : N) : list N :=
  if c =? 34 then [92; 34]
  else if c =? 92 then [92; 92]
  else if c =? 10 then [92; 110]
  else if c =? 13 then [92; 114]
  else if c =? 9 then [92; 116]
  else if c =? 8 then [92; 98]
  else if c =? 12 then [92; 102]
  else if in_range 32 126 c then [c]
  else if c <? 65536 then u_escape c
  else u_escape (55296 + (c - 65536) / 1024) ++ u_escape (56320 + (c - 65536) mod 1024).

Definition json_str (s : list N) : list N := 34 :: flat_map json_char s ++ [34].

Fixpoint uint_chars (u : Decimal.uint) : list N :=
  match u with
  | Decimal.Nil => []
  | Decimal.D0 u => 48 :: uint_chars u | Decimal.D1 u => 49 :: uint_chars u
  | Decimal.D2 u => 50 :: uint_chars u | Decimal.D3 u => 51 :: uint_chars u
  | Decimal.D4 u => 52 :: uint_chars u | Decimal.D5 u => 53 :: uint_chars u
  | Decimal.D6 u => 54 :: uint_chars u | Decimal.D7 u => 55 :: uint_chars u
  | Decimal.D8 u => 56 :: uint_chars u | Decimal.D9 u => 57 :: uint_chars u
  end.
Definition json_int (z : Z) : list N :=
  match z with
  | Z0 => [48]
  | Zpos p => uint_chars (Pos.to_uint p)
  | Zneg p => 45 :: uint_chars (Pos.to_uint p)
  end.

Fixpoint join_sep (sep : list N) (parts : list (list N)) : list N :=
  match parts with
  | [] => []
  | [p] => p
  | p :: ps => p ++ sep ++ join_sep sep ps
  end.

(* json.dumps(v): ensure_ascii=True, separators (', ', ': ') *)
Fixpoint json_dumps (v : jv) : list N :=
  match v with
  | JNull => [110; 117; 108; 108]
  | JBool true => [116; 114; 117; 101]
  | JBool false => [102; 97; 108; 115; 101]
  | JInt z => json_int z
  | JStr s => json_str s
  | JArr l => 91 :: join_sep [44; 32] (map json_dumps l) ++ [93]
  | JObj l =>
      123 :: join_sep [44; 32]
               ((fix items (l : list (list N * jv)) : list (list N) :=
                   match l with
                   | [] => []
                   | (k, x) :: l' => (json_str k ++ [58; 32] ++ json_dumps x) :: items l'
                   end) l) ++ [125]
  end.

(* s.replace("</", "<\\/") *)
Fixpoint replace_lt_slash (s : list N) : list N :=
  match s with
  | [] => []
  | c :: t =>
      match t with
      | d :: t' =>
          if (c =? 60) && (d =? 47) then 60 :: 92 :: 47 :: replace_lt_slash t'
          else c :: replace_lt_slash t
      | [] => [c]
      end
  end.

Definition json_encode (v : jv) : list N := replace_lt_slash (json_dumps v).

(* ====================== utf8 / to_unicode / recursive_unicode ====================== *)
Inductive pyval :=
| PNone | PInt (z : Z) | PStr (s : list N) | PBytes (b : list N)
| PList (l : list pyval) | PTuple (l : list pyval) | PDict (l : list (pyval * pyval)).

Definition py_utf8 (v : pyval) : res pyval :=
  match v with
  | PNone => Ok PNone
  | PBytes b => Ok (PBytes b)
  | PStr s => bind (encode_utf8 s) (fun b => Ok (PBytes b))
  | _ => Err EType
  end.

Definition py_to_unicode (v : pyval) : res pyval :=
  match v with
  | PNone => Ok PNone
  | PStr s => Ok (PStr s)
  | PBytes b => bind (decode_utf8 b) (fun s => Ok (PStr s))
  | _ => Err EType
  end.

(* equality of dictionary keys; only scalar keys are modelled *)
Definition key_eqb (a b : pyval) : bool :=
  match a, b with
  | PNone, PNone => true
  | PInt x, PInt y => Z.eqb x y
  | PStr x, PStr y => list_N_eqb x y
  | PBytes x, PBytes y => list_N_eqb x y
  | _, _ => false
  end.
Fixpoint pydict_set (k v : pyval) (d : list (pyval * pyval)) : list (pyval * pyval) :=
  match d with
  | [] => [(k, v)]
  | (k', v') :: d' => if key_eqb k k' then (k', v) :: d' else (k', v') :: pydict_set k v d'
  end.

Fixpoint rec_unicode (v : pyval) : res pyval :=
  match v with
  | PDict l =>
      bind ((fix go (l : list (pyval * pyval)) : res (list (pyval * pyval)) :=
               match l with
               | [] => Ok []
               | (k, x) :: l' =>
                   bind (rec_unicode k) (fun k' =>
                   bind (rec_unicode x) (fun x' =>
                   bind (go l') (fun r => Ok ((k', x') :: r))))
               end) l)
           (fun ps => Ok (PDict (fold_left (fun d kv => pydict_set (fst kv) (snd kv) d) ps [])))
  | PList l =>
      bind ((fix go (l : list pyval) : res (list pyval) :=
               match l with
               | [] => Ok []
               | x :: l' => bind (rec_unicode x) (fun x' => bind (go l') (fun r => Ok (x' :: r)))
               end) l)
           (fun r => Ok (PList r))
  | PTuple l =>
      bind ((fix go (l : list pyval) : res (list pyval) :=
               match l with
               | [] => Ok []
               | x :: l' => bind (rec_unicode x) (fun x' => bind (go l') (fun r => Ok (x' :: r)))
               end) l)
           (fun r => Ok (PTuple r))
  | PBytes b => py_to_unicode (PBytes b)
  | _ => Ok v
  end.

(* ====================== JSON decoding (json.loads on a str) ======================
   The C scanner of CPython's json module, default options (strict=True, no
   hooks).  Every JSONDecodeError is PErr.  Floats (and NaN / Infinity) are
   parsed (their characters consumed) but not represented: they set the
   [flt] flag of the result, which the caller reports as "outside the model".
   PFuel = the fuel (twice the length of the text + 2) ran out; never observed. *)
Inductive pres (A : Type) :=
| POk (a : A) (flt : bool) (rest : list N)
| PErr
| PFuel.
Arguments POk {A} a flt rest.
Arguments PErr {A}.
Arguments PFuel {A}.

Definition is_ws (c : N) : bool := (c =? 32) || (c =? 9) || (c =? 10) || (c =? 13).
Fixpoint skipws (s : list N) : list N :=
  match s with
  | c :: t => if is_ws c then skipws t else s
  | [] => []
  end.

Fixpoint prefix_of (p s : list N) : bool :=
  match p, s with
  | [], _ => true
  | a :: p', b :: s' => (a =? b) && prefix_of p' s'
  | _ :: _, [] => false
  end.

Definition hex4val (a b c d : N) : option N :=
  match hexval a, hexval b, hexval c, hexval d with
  | Some w, Some x, Some y, Some z => Some (((w * 16 + x) * 16 + y) * 16 + z)
  | _, _, _, _ => None
  end.

Definition simple_escape (e : N) : option N :=
  if e =? 34 then Some 34 else if e =? 92 then Some 92 else if e =? 47 then Some 47
  else if e =? 98 then Some 8 else if e =? 102 then Some 12 else if e =? 110 then Some 10
  else if e =? 114 then Some 13 else if e =? 116 then Some 9 else None.

Definition scons (c : N) (r : pres (list N)) : pres (list N) :=
  match r with POk l f rest => POk (c :: l) f rest | PErr => PErr | PFuel => PFuel end.

(* scanstring, after the opening quote *)
Fixpoint pstr (s : list N) : pres (list N) :=
  match s with
  | [] => PErr
  | c :: t =>
      if c =? 34 then POk [] false t
      else if c =? 92 then
        match t with
        | [] => PErr
        | e :: t1 =>
            if e =? 117 then
              match t1 with
              | h1 :: h2 :: h3 :: h4 :: t2 =>
                  match hex4val h1 h2 h3 h4 with
                  | None => PErr
                  | Some n =>
                      if in_range 55296 56319 n then
                        match t2 with
                        | b1 :: b2 :: l1 :: l2 :: l3 :: l4 :: t3 =>
                            if (b1 =? 92) && (b2 =? 117) then
                              match hex4val l1 l2 l3 l4 with
                              | Some m =>
                                  if in_range 56320 57343 m
                                  then scons (65536 + (n - 55296) * 1024 + (m - 56320)) (pstr t3)
                                  else scons n (pstr t2)
                              | None => scons n (pstr t2)
                              end
                            else scons n (pstr t2)
                        | _ => scons n (pstr t2)
                        end
                      else scons n (pstr t2)
                  end
              | _ => PErr
              end
            else
              match simple_escape e with
              | Some x => scons x (pstr t1)
              | None => PErr
              end
        end
      else if c <? 32 then PErr
      else scons c (pstr t)
  end.

(* numbers *)
Definition digit_uint (c : N) (u : Decimal.uint) : Decimal.uint :=
  if c =? 48 then Decimal.D0 u else if c =? 49 then Decimal.D1 u else if c =? 50 then Decimal.D2 u
  else if c =? 51 then Decimal.D3 u else if c =? 52 then Decimal.D4 u else if c =? 53 then Decimal.D5 u
  else if c =? 54 then Decimal.D6 u else if c =? 55 then Decimal.D7 u else if c =? 56 then Decimal.D8 u
  else Decimal.D9 u.
Fixpoint read_uint (s : list N) : Decimal.uint * list N :=
  match s with
  | c :: t => if is_digit c then let (u, r) := read_uint t in (digit_uint c u, r) else (Decimal.Nil, s)
  | [] => (Decimal.Nil, [])
  end.
Fixpoint skip_digits (s : list N) : list N :=
  match s with
  | c :: t => if is_digit c then skip_digits t else s
  | [] => []
  end.
Definition starts_digit (s : list N) : bool := match s with c :: _ => is_digit c | [] => false end.

(* _match_number: [s] starts with '-' or a digit *)
Definition pnum (s : list N) : pres jv :=
  let '(neg, s1) := match s with
                    | c :: t => if c =? 45 then (true, t) else (false, s)
                    | [] => (false, s)
                    end in
  match s1 with
  | [] => PErr
  | c :: t =>
      let ip := if c =? 48 then Some (0, t)
                else if in_range 49 57 c then let (u, r) := read_uint s1 in Some (N.of_uint u, r)
                else None in
      match ip with
      | None => PErr
      | Some (n, r) =>
          (* '.' followed by a digit: fraction *)
          let '(f1, r1) := match r with
                           | d :: t' => if (d =? 46) && starts_digit t' then (true, skip_digits t') else (false, r)
                           | [] => (false, r)
                           end in
          (* 'e' | 'E', optional sign, at least one digit: exponent (else backtrack) *)
          let '(f2, r2) := match r1 with
                           | e :: t' =>
                               if (e =? 101) || (e =? 69) then
                                 let t'' := match t' with
                                            | sg :: t3 => if ((sg =? 43) || (sg =? 45)) && starts_digit t3 then t3 else t'
                                            | [] => t'
                                            end in
                                 if starts_digit t'' then (true, skip_digits t'') else (false, r1)
                               else (false, r1)
                           | [] => (false, r1)
                           end in
          if f1 || f2 then POk JNull true r2
          else POk (JInt (if neg then Z.opp (Z.of_N n) else Z.of_N n)) false r2
      end
  end.

Definition lit_null : list N := [110; 117; 108; 108].
Definition lit_true : list N := [116; 114; 117; 101].
Definition lit_false : list N := [102; 97; 108; 115; 101].
Definition lit_nan : list N := [78; 97; 78].
Definition lit_inf : list N := [73; 110; 102; 105; 110; 105; 116; 121].
Definition lit_ninf : list N := 45 :: lit_inf.

(* dict[key] = value *)
Fixpoint jdict_set (k : list N) (v : jv) (d : list (list N * jv)) : list (list N * jv) :=
  match d with
  | [] => [(k, v)]
  | (k', v') :: d' => if list_N_eqb k k' then (k', v) :: d' else (k', v') :: jdict_set k v d'
  end.
Definition jdict_of (ps : list (list N * jv)) : list (list N * jv) :=
  fold_left (fun d kv => jdict_set (fst kv) (snd kv) d) ps [].

Definition starts_char (c : N) (s : list N) : bool := match s with x :: _ => x =? c | [] => false end.

(* scan_once / _parse_array / _parse_object.  [parr] and [pobj] are entered at
   the first element (resp. key) of a non-empty container. *)
Fixpoint pval (fuel : nat) (s : list N) : pres jv :=
  match fuel with
  | O => PFuel
  | S f =>
      match s with
      | [] => PErr
      | c :: t =>
          if c =? 34 then
            match pstr t with POk x fl r => POk (JStr x) fl r | PErr => PErr | PFuel => PFuel end
          else if c =? 123 then
            let t' := skipws t in
            if starts_char 125 t' then POk (JObj []) false (tl t')
            else match pobj f t' with
                 | POk ps fl r => POk (JObj (jdict_of ps)) fl r
                 | PErr => PErr | PFuel => PFuel
                 end
          else if c =? 91 then
            let t' := skipws t in
            if starts_char 93 t' then POk (JArr []) false (tl t')
            else match parr f t' with
                 | POk l fl r => POk (JArr l) fl r
                 | PErr => PErr | PFuel => PFuel
                 end
          else if c =? 110 then (if prefix_of lit_null s then POk JNull false (skipn 4 s) else PErr)
          else if c =? 116 then (if prefix_of lit_true s then POk (JBool true) false (skipn 4 s) else PErr)
          else if c =? 102 then (if prefix_of lit_false s then POk (JBool false) false (skipn 5 s) else PErr)
          else if c =? 78 then (if prefix_of lit_nan s then POk JNull true (skipn 3 s) else PErr)
          else if c =? 73 then (if prefix_of lit_inf s then POk JNull true (skipn 8 s) else PErr)
          else if c =? 45 then (if prefix_of lit_ninf s then POk JNull true (skipn 9 s) else pnum s)
          else if is_digit c then pnum s
          else PErr
      end
  end
with parr (fuel : nat) (s : list N) : pres (list jv) :=
  match fuel with
  | O => PFuel
  | S f =>
      match pval f s with
      | POk v fl r =>
          match skipws r with
          | c :: r2 =>
              if c =? 93 then POk [v] fl r2
              else if c =? 44 then
                match parr f (skipws r2) with
                | POk l fl' r3 => POk (v :: l) (fl || fl') r3
                | PErr => PErr | PFuel => PFuel
                end
              else PErr
          | [] => PErr
          end
      | PErr => PErr
      | PFuel => PFuel
      end
  end
with pobj (fuel : nat) (s : list N) : pres (list (list N * jv)) :=
  match fuel with
  | O => PFuel
  | S f =>
      match s with
      | q :: t =>
          if q =? 34 then
            match pstr t with
            | POk k flk r =>
                match skipws r with
                | col :: r1 =>
                    if col =? 58 then
                      match pval f (skipws r1) with
                      | POk v fl r2 =>
                          match skipws r2 with
                          | c :: r3 =>
                              if c =? 125 then POk [(k, v)] (flk || fl) r3
                              else if c =? 44 then
                                match pobj f (skipws r3) with
                                | POk l fl' r4 => POk ((k, v) :: l) (flk || fl || fl') r4
                                | PErr => PErr | PFuel => PFuel
                                end
                              else PErr
                          | [] => PErr
                          end
                      | PErr => PErr
                      | PFuel => PFuel
                      end
                    else PErr
                | [] => PErr
                end
            | PErr => PErr
            | PFuel => PFuel
            end
          else PErr
      | [] => PErr
      end
  end.

Inductive jres := JOk (v : jv) | JErr | JOutside | JFuel.

(* json.loads(s) for a str s; escape.json_decode is exactly this *)
Definition json_loads (s : list N) : jres :=
  if starts_char 65279 s then JErr            (* "Unexpected UTF-8 BOM" *)
  else
    match pval (S (S (length s + length s))) (skipws s) with
    | POk v fl r =>
        match skipws r with
        | [] => if fl then JOutside else JOk v
        | _ :: _ => JErr                      (* "Extra data" *)
        end
    | PErr => JErr
    | PFuel => JFuel
    end.

(* ====================== query strings, minimal escaping ======================
   A second inverse for the byte-preservation statement: only the four bytes
   that have a meaning in a query string (& = + %) are percent-encoded, every
   other byte - controls, spaces, whitespace-like and non-ASCII bytes included -
   appears raw. *)
Definition safe_min (b : N) : bool := negb ((b =? 38) || (b =? 61) || (b =? 43) || (b =? 37)).
Definition qs_escape_min (b : list N) : list N := quote_from_bytes safe_min b.
Fixpoint encode_pairs_with (esc : list N -> list N) (ps : list (list N * list N)) : list N :=
  match ps with
  | [] => []
  | [(k, v)] => esc k ++ 61 :: esc v
  | (k, v) :: ps' => esc k ++ 61 :: esc v ++ 38 :: encode_pairs_with esc ps'
  end.
