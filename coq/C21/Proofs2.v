(* C21 — proofs, part 2: parse_qs_bytes returns every byte of every escaped
   name and value. *)
From Coq Require Import List ZArith NArith Bool Lia ZifyBool.
Import ListNotations.
From TV Require Import Lib.Obs Lib.C21_Utf8 Lib.C21_Pct C21.Model C21.Run C21.Proofs.
Local Open Scope N_scope.

Local Arguments N.add : simpl never.
Local Arguments N.mul : simpl never.
Local Arguments N.sub : simpl never.
Local Arguments N.div : simpl never.
Local Arguments N.modulo : simpl never.
Local Arguments N.ltb : simpl never.
Local Arguments N.leb : simpl never.
Local Arguments N.eqb : simpl never.

Definition field (kv : list N * list N) : list N := qs_escape (fst kv) ++ 61 :: qs_escape (snd kv).
Definition wf_pairs (ps : list (list N * list N)) : Prop :=
  Forall (fun kv => bytes (fst kv) /\ bytes (snd kv)) ps.

(* characters of an escaped name / value *)
Lemma qs_escape_chars b c : bytes b -> In c (qs_escape b) -> url_char true c = true.
Proof.
  intros Hb Hin. unfold qs_escape in Hin.
  assert (He : url_escape (SBytes b) true = Ok (quote_plus_bytes (has_space b) b)) by reflexivity.
  assert (H := url_escape_chars (SBytes b) b true _ eq_refl Hb He).
  rewrite forallb_forall in H. apply H. exact Hin.
Qed.

Lemma qs_escape_no_amp b : bytes b -> ~ In 38 (qs_escape b).
Proof. intros Hb Hin. assert (H := qs_escape_chars b 38 Hb Hin). discriminate. Qed.
Lemma qs_escape_no_eq b : bytes b -> ~ In 61 (qs_escape b).
Proof. intros Hb Hin. assert (H := qs_escape_chars b 61 Hb Hin). discriminate. Qed.

Lemma qs_escape_nil b : is_nil (qs_escape b) = is_nil b.
Proof.
  destruct b as [|x b]; [reflexivity|]. unfold qs_escape, quote_plus_bytes.
  destruct (negb (has_space (x :: b))).
  - unfold quote_from_bytes. cbn [flat_map]. unfold pct_byte. destruct (is_always_safe x); reflexivity.
  - unfold quote_from_bytes. cbn [flat_map]. unfold pct_byte, replace_char.
    destruct (safe_space x); cbn [app flat_map].
    + destruct (x =? 32); reflexivity.
    + reflexivity.
Qed.

(* x.replace('+',' ') then unquote(latin-1) undoes qs_escape *)
Lemma unq_latin1_escape b : bytes b -> unq_latin1 (qs_escape b) = b.
Proof.
  intros Hb. unfold unq_latin1, unquote_plus_text, qs_escape, has_space.
  rewrite unplus_quote_plus by exact Hb.
  rewrite unquote_text_ascii; [|reflexivity|apply quote_ascii; [exact safe_space_ascii|exact Hb]].
  apply unquote_bytes_quote; [exact safe_space_not_pct|exact Hb].
Qed.

(* ---------- str.split ---------- *)
Lemma split_on_last sep a : forall cur, ~ In sep a -> split_on sep cur a = [rev cur ++ a].
Proof.
  induction a as [|x a IH]; intros cur H.
  - cbn [split_on]. rewrite app_nil_r. reflexivity.
  - cbn [split_on]. assert (x <> sep) by (intros ->; apply H; left; reflexivity).
    replace (x =? sep) with false by lia.
    rewrite IH by (intros Hin; apply H; right; exact Hin). cbn [rev]. rewrite <- app_assoc. reflexivity.
Qed.

Lemma split_on_next sep a rest : forall cur, ~ In sep a ->
  split_on sep cur (a ++ sep :: rest) = (rev cur ++ a) :: split_on sep [] rest.
Proof.
  induction a as [|x a IH]; intros cur H.
  - cbn [app split_on]. replace (sep =? sep) with true by lia. rewrite app_nil_r. reflexivity.
  - cbn [app split_on]. assert (x <> sep) by (intros ->; apply H; left; reflexivity).
    replace (x =? sep) with false by lia.
    rewrite IH by (intros Hin; apply H; right; exact Hin). cbn [rev]. rewrite <- app_assoc. reflexivity.
Qed.

Lemma encode_pairs_cons2 kv kv' ps :
  encode_pairs (kv :: kv' :: ps) = field kv ++ 38 :: encode_pairs (kv' :: ps).
Proof. destruct kv as [k v]. unfold field. cbn [encode_pairs fst snd]. rewrite <- app_assoc. reflexivity. Qed.

Lemma encode_pairs_one kv : encode_pairs [kv] = field kv.
Proof. destruct kv as [k v]. reflexivity. Qed.

Lemma field_no_amp kv : bytes (fst kv) -> bytes (snd kv) -> ~ In 38 (field kv).
Proof.
  intros Hk Hv Hin. unfold field in Hin. apply in_app_or in Hin as [Hin|[Hin|Hin]].
  - exact (qs_escape_no_amp _ Hk Hin).
  - discriminate.
  - exact (qs_escape_no_amp _ Hv Hin).
Qed.

Lemma split_encode_pairs kv ps : wf_pairs (kv :: ps) ->
  split_on 38 [] (encode_pairs (kv :: ps)) = map field (kv :: ps).
Proof.
  revert kv; induction ps as [|kv' ps IH]; intros kv Hwf.
  - rewrite encode_pairs_one. inversion Hwf as [|? ? [Hk Hv] _]; subst.
    rewrite split_on_last by (apply field_no_amp; assumption). reflexivity.
  - rewrite encode_pairs_cons2. inversion Hwf as [|? ? [Hk Hv] Hwf']; subst.
    rewrite split_on_next by (apply field_no_amp; assumption).
    rewrite IH by exact Hwf'. reflexivity.
Qed.

(* ---------- split('=', 1) ---------- *)
Lemma partition_eq_app a b : ~ In 61 a -> partition_eq (a ++ 61 :: b) = Some (a, b).
Proof.
  induction a as [|x a IH]; intros H.
  - cbn [app partition_eq]. replace (61 =? 61) with true by lia. reflexivity.
  - cbn [app partition_eq]. assert (x <> 61) by (intros ->; apply H; left; reflexivity).
    replace (x =? 61) with false by lia. rewrite IH by (intros Hin; apply H; right; exact Hin). reflexivity.
Qed.

Lemma field_not_nil kv : is_nil (field kv) = false.
Proof. unfold field. destruct (qs_escape (fst kv)); reflexivity. Qed.

(* ---------- the parse_qsl loop on escaped fields ---------- *)
Lemma qsl_fields_escape keep strict ps : wf_pairs ps ->
  qsl_fields keep strict (map field ps) = Ok (keep_filter keep ps).
Proof.
  induction 1 as [|[k v] ps [Hk Hv] _ IH].
  - destruct keep; reflexivity.
  - cbn [map qsl_fields]. rewrite field_not_nil. cbn [andb].
    unfold field at 1. cbn [fst snd] in *. rewrite partition_eq_app by (apply qs_escape_no_eq; exact Hk).
    rewrite qs_escape_nil, IH. rewrite (unq_latin1_escape k Hk), (unq_latin1_escape v Hv).
    destruct keep; cbn [keep_filter orb bind].
    + rewrite orb_true_r. reflexivity.
    + rewrite orb_false_r. cbn [filter snd]. destruct (negb (is_nil v)); reflexivity.
Qed.

Lemma encode_pairs_nil ps : is_nil (encode_pairs ps) = is_nil ps.
Proof.
  destruct ps as [|kv [|kv' ps]]; [reflexivity| |].
  - rewrite encode_pairs_one. apply field_not_nil.
  - rewrite encode_pairs_cons2. unfold field. destruct (qs_escape (fst kv)); reflexivity.
Qed.

Lemma parse_qsl_escape keep strict ps : wf_pairs ps ->
  parse_qsl (encode_pairs ps) keep strict = Ok (keep_filter keep ps).
Proof.
  intros Hwf. unfold parse_qsl. rewrite encode_pairs_nil.
  destruct ps as [|kv ps]; [destruct keep; reflexivity|]. cbn [is_nil].
  rewrite split_encode_pairs by exact Hwf. apply qsl_fields_escape. exact Hwf.
Qed.

(* ---------- grouping keeps values byte strings ---------- *)
Definition dict_ok (d : list (list N * list (list N))) : Prop :=
  Forall (fun kv => Forall (fun v => forallb is_byte v = true) (snd kv)) d.

Lemma dict_add_ok k v d : forallb is_byte v = true -> dict_ok d -> dict_ok (dict_add k v d).
Proof.
  intros Hv. induction 1 as [|[k' vs] d Hkv Hd IH]; cbn [dict_add].
  - constructor; [|constructor]. cbn [snd]. constructor; [exact Hv|constructor].
  - destruct (list_N_eqb k k').
    + constructor; [|assumption]. cbn [snd] in *. apply Forall_app. split; [exact Hkv|constructor; [exact Hv|constructor]].
    + constructor; [exact Hkv|exact IH].
Qed.

Lemma group_ok ps : Forall (fun kv => forallb is_byte (snd kv) = true) ps ->
  forall d, dict_ok d -> dict_ok (fold_left (fun d kv => dict_add (fst kv) (snd kv) d) ps d).
Proof.
  induction 1 as [|kv ps Hkv _ IH]; intros d Hd; [exact Hd|].
  cbn [fold_left]. apply IH. apply dict_add_ok; assumption.
Qed.

Lemma dict_ok_forallb d : dict_ok d -> forallb (fun kv => forallb (forallb is_byte) (snd kv)) d = true.
Proof.
  intros H. apply forallb_forall. intros kv Hin. apply forallb_forall. intros v Hv.
  unfold dict_ok in H. rewrite Forall_forall in H. specialize (H kv Hin). rewrite Forall_forall in H. exact (H v Hv).
Qed.

Lemma bytes_forallb v : bytes v -> forallb is_byte v = true.
Proof. intros H. apply forallb_forall. intros x Hx. unfold bytes in H. rewrite Forall_forall in H. unfold is_byte. specialize (H x Hx). lia. Qed.

Lemma keep_filter_wf keep ps : wf_pairs ps -> wf_pairs (keep_filter keep ps).
Proof.
  intros H. destruct keep; [exact H|]. cbn [keep_filter]. unfold wf_pairs in *. rewrite Forall_forall in *.
  intros kv Hin. apply filter_In in Hin as [Hin _]. exact (H kv Hin).
Qed.

(* parse_qs_bytes of the escaped pairs (given as bytes or as their latin-1
   decoding: both have the same code points) is the grouped list of pairs *)
Lemma parse_qs_roundtrip v ps keep strict :
  wf_pairs ps -> raw_of v = encode_pairs ps ->
  parse_qs_bytes v keep strict = Ok (group_pairs (keep_filter keep ps)).
Proof.
  intros Hwf Hraw. unfold parse_qs_bytes. rewrite Hraw, parse_qsl_escape by exact Hwf. cbn [bind].
  rewrite dict_ok_forallb; [reflexivity|].
  apply group_ok; [|constructor].
  assert (H := keep_filter_wf keep ps Hwf). unfold wf_pairs in H. rewrite Forall_forall in *.
  intros kv Hin. apply bytes_forallb. exact (proj2 (H kv Hin)).
Qed.
