(* C21 — proofs, part 4: json_decode (json_encode v) = v. *)
From Coq Require Import List ZArith NArith Bool Lia ZifyBool DecimalPos DecimalFacts.
Import ListNotations.
From TV Require Import Lib.Obs Lib.C21_Utf8 Lib.C21_Pct C21.Model C21.Run C21.Proofs.
Local Open Scope N_scope.

Ltac Zify.zify_post_hook ::= Z.to_euclidean_division_equations.
Local Arguments N.add : simpl never.
Local Arguments N.mul : simpl never.
Local Arguments N.sub : simpl never.
Local Arguments N.div : simpl never.
Local Arguments N.modulo : simpl never.
Local Arguments hexdigit_lower : simpl never.

(* ---------- the replacement as a one-character-lookbehind transducer ---------- *)
Fixpoint esc_go (st : bool) (s : list N) : list N :=
  match s with
  | [] => []
  | c :: t => if st && (c =? 47) then 92 :: 47 :: esc_go false t else c :: esc_go (c =? 60) t
  end.

Lemma replace_eq_go_len n : forall s, (length s <= n)%nat -> replace_lt_slash s = esc_go false s.
Proof.
  induction n as [|n IH]; intros s Hlen.
  { destruct s; [reflexivity|simpl in Hlen; lia]. }
  destruct s as [|c [|d t]]; [reflexivity|reflexivity|]. rewrite replace_lt_slash_cons2. simpl in Hlen.
  cbn [esc_go andb].
  destruct (c =? 60) eqn:E1; cbn [andb].
  - destruct (d =? 47) eqn:E2.
    + apply N.eqb_eq in E1. subst c. rewrite IH by lia. reflexivity.
    + rewrite IH by (simpl; lia). cbn [esc_go andb]. rewrite ?E2. reflexivity.
  - rewrite IH by (simpl; lia). reflexivity.
Qed.

Lemma replace_eq_go s : replace_lt_slash s = esc_go false s.
Proof. apply (replace_eq_go_len (length s)). lia. Qed.

Lemma esc_go_cons_ne st c t : c <> 47 -> c <> 60 -> esc_go st (c :: t) = c :: esc_go false t.
Proof.
  intros H1 H2. cbn [esc_go]. replace (c =? 47) with false by lia. replace (c =? 60) with false by lia.
  rewrite andb_false_r. reflexivity.
Qed.

Definition clean (a : list N) : Prop := Forall (fun c => c <> 47 /\ c <> 60) a.

Lemma esc_go_clean a : clean a -> forall st b,
  esc_go st (a ++ b) = a ++ esc_go (match a with [] => st | _ => false end) b.
Proof.
  induction 1 as [|c a [H1 H2] _ IH]; intros st b; [reflexivity|].
  cbn [app]. rewrite esc_go_cons_ne by assumption. rewrite IH. destruct a; reflexivity.
Qed.

Lemma esc_go_clean1 a st b : clean a -> a <> [] -> esc_go st (a ++ b) = a ++ esc_go false b.
Proof. intros H Hn. rewrite esc_go_clean by exact H. destruct a; [congruence|reflexivity]. Qed.

Lemma length_esc_go s : forall st, (length s <= length (esc_go st s))%nat.
Proof.
  induction s as [|c s IH]; intros st; [simpl; lia|]. cbn [esc_go].
  destruct (st && (c =? 47)).
  - simpl. specialize (IH false). lia.
  - simpl. specialize (IH (c =? 60)). lia.
Qed.

(* ---------- strings ---------- *)
Lemma pstr_quote X : pstr (34 :: X) = POk [] false X.
Proof. reflexivity. Qed.

Lemma pstr_simple e x Z : simple_escape e = Some x -> e <> 117 -> pstr (92 :: e :: Z) = scons x (pstr Z).
Proof.
  intros H Hn. cbn [pstr]. change (92 =? 34) with false. change (92 =? 92) with true. cbv iota.
  replace (e =? 117) with false by lia. rewrite H. reflexivity.
Qed.

Lemma pstr_plain c Z : c <> 34 -> c <> 92 -> 32 <= c -> pstr (c :: Z) = scons c (pstr Z).
Proof.
  intros H1 H2 H3. cbn [pstr]. replace (c =? 34) with false by lia. replace (c =? 92) with false by lia.
  replace (c <? 32) with false by lia. reflexivity.
Qed.

Lemma pstr_u h1 h2 h3 h4 t2 :
  pstr (92 :: 117 :: h1 :: h2 :: h3 :: h4 :: t2) =
  match hex4val h1 h2 h3 h4 with
  | None => PErr
  | Some n =>
      if in_range 55296 56319 n then
        match t2 with
        | b1 :: b2 :: l1 :: l2 :: l3 :: l4 :: t3 =>
            if (b1 =? 92) && (b2 =? 117) then
              match hex4val l1 l2 l3 l4 with
              | Some m =>
                  if in_range 56320 57343 m
                  then scons (65536 + (n - 55296) * 1024 + (m - 56320)) (pstr t3)
                  else scons n (pstr t2)
              | None => scons n (pstr t2)
              end
            else scons n (pstr t2)
        | _ => scons n (pstr t2)
        end
      else scons n (pstr t2)
  end.
Proof. reflexivity. Qed.

Lemma hexval_lower x : x < 16 -> hexval (hexdigit_lower x) = Some x.
Proof.
  intros H. unfold hexval, hexdigit_lower, in_range.
  destruct (x <? 10) eqn:E.
  - replace ((48 <=? 48 + x) && (48 + x <=? 57)) with true by lia. f_equal. lia.
  - replace ((48 <=? 87 + x) && (87 + x <=? 57)) with false by lia.
    replace ((65 <=? 87 + x) && (87 + x <=? 70)) with false by lia.
    replace ((97 <=? 87 + x) && (87 + x <=? 102)) with true by lia. f_equal. lia.
Qed.

Lemma hexl_clean x : x < 16 -> hexdigit_lower x <> 47 /\ hexdigit_lower x <> 60.
Proof. intros H. unfold hexdigit_lower. destruct (x <? 10) eqn:E; lia. Qed.

Lemma hex4val_hex4 n : n < 65536 ->
  hex4val (hexdigit_lower (n / 4096)) (hexdigit_lower ((n / 256) mod 16))
          (hexdigit_lower ((n / 16) mod 16)) (hexdigit_lower (n mod 16)) = Some n.
Proof.
  intros H. unfold hex4val. rewrite !hexval_lower by lia. f_equal. lia.
Qed.

Lemma u_escape_go n st Y : n < 65536 ->
  esc_go st (u_escape n ++ Y) = u_escape n ++ esc_go false Y.
Proof.
  intros H. apply esc_go_clean1; [|discriminate]. unfold u_escape, hex4.
  repeat constructor; try lia; apply hexl_clean; lia.
Qed.

Definition scalar (c : N) : Prop := is_scalar c = true.

Lemma pstr_char c st Y : scalar c ->
  exists st', pstr (esc_go st (json_char c ++ Y)) = scons c (pstr (esc_go st' Y)).
Proof.
  unfold scalar, is_scalar. intros Hc. unfold json_char.
  destruct (c =? 34) eqn:E1.
  { apply N.eqb_eq in E1. subst. exists false. cbn [app]. rewrite !esc_go_cons_ne by lia. reflexivity. }
  destruct (c =? 92) eqn:E2.
  { apply N.eqb_eq in E2. subst. exists false. cbn [app]. rewrite !esc_go_cons_ne by lia. reflexivity. }
  destruct (c =? 10) eqn:E3.
  { apply N.eqb_eq in E3. subst. exists false. cbn [app]. rewrite !esc_go_cons_ne by lia. reflexivity. }
  destruct (c =? 13) eqn:E4.
  { apply N.eqb_eq in E4. subst. exists false. cbn [app]. rewrite !esc_go_cons_ne by lia. reflexivity. }
  destruct (c =? 9) eqn:E5.
  { apply N.eqb_eq in E5. subst. exists false. cbn [app]. rewrite !esc_go_cons_ne by lia. reflexivity. }
  destruct (c =? 8) eqn:E6.
  { apply N.eqb_eq in E6. subst. exists false. cbn [app]. rewrite !esc_go_cons_ne by lia. reflexivity. }
  destruct (c =? 12) eqn:E7.
  { apply N.eqb_eq in E7. subst. exists false. cbn [app]. rewrite !esc_go_cons_ne by lia. reflexivity. }
  destruct (in_range 32 126 c) eqn:E8.
  { unfold in_range in E8. cbn [app esc_go].
    destruct (st && (c =? 47)) eqn:E9.
    - exists false. apply andb_true_iff in E9 as [_ E9]. apply N.eqb_eq in E9. subst. reflexivity.
    - exists (c =? 60). apply pstr_plain; lia. }
  destruct (c <? 65536) eqn:E9.
  { exists false. rewrite u_escape_go by lia. unfold u_escape, hex4. cbn [app]. rewrite pstr_u.
    rewrite hex4val_hex4 by lia. replace (in_range 55296 56319 c) with false by (unfold in_range; lia).
    reflexivity. }
  exists false. rewrite <- app_assoc.
  rewrite u_escape_go by lia. rewrite u_escape_go by lia.
  unfold u_escape at 1. unfold hex4 at 1. cbn [app]. rewrite pstr_u.
  rewrite hex4val_hex4 by lia.
  replace (in_range 55296 56319 (55296 + (c - 65536) / 1024)) with true by (unfold in_range; lia).
  unfold u_escape, hex4. cbn [app]. change ((92 =? 92) && (117 =? 117)) with true. cbv iota.
  rewrite hex4val_hex4 by lia.
  replace (in_range 56320 57343 (56320 + (c - 65536) mod 1024)) with true by (unfold in_range; lia).
  f_equal. lia.
Qed.

Lemma pstr_go s : Forall scalar s -> forall st rest,
  pstr (esc_go st (flat_map json_char s ++ 34 :: rest)) = POk s false (esc_go false rest).
Proof.
  induction 1 as [|c s Hc _ IH]; intros st rest.
  - cbn [flat_map app]. rewrite esc_go_cons_ne by lia. apply pstr_quote.
  - cbn [flat_map]. rewrite <- app_assoc. destruct (pstr_char c st (flat_map json_char s ++ 34 :: rest) Hc) as [st' H].
    rewrite H, IH. reflexivity.
Qed.

(* ---------- numbers ---------- *)
(* what may follow a value in the encoder's output *)
Definition tok_end (rest : list N) : Prop :=
  match rest with [] => True | c :: _ => c = 44 \/ c = 93 \/ c = 125 end.

Lemma read_uint_chars u rest : starts_digit rest = false -> read_uint (uint_chars u ++ rest) = (u, rest).
Proof.
  intros H. induction u; cbn [uint_chars app];
    try (cbn [read_uint]; change (is_digit _) with true; cbv iota; rewrite IHu; reflexivity).
  destruct rest as [|c t]; [reflexivity|]. cbn [read_uint]. cbn [starts_digit] in H. rewrite H. reflexivity.
Qed.

Lemma to_uint_not_D0 p u : Pos.to_uint p <> Decimal.D0 u.
Proof.
  intros H. assert (Hn := DecimalPos.Unsigned.to_of (Pos.to_uint p)).
  rewrite DecimalPos.Unsigned.of_to in Hn. cbn [N.to_uint] in Hn. rewrite H in Hn.
  rewrite unorm_D0 in Hn. unfold Decimal.unorm in Hn.
  destruct (Decimal.nzhead u) eqn:E; try discriminate.
  - injection Hn as Hu. subst u. apply (DecimalPos.Unsigned.to_uint_nonzero p). exact H.
  - rewrite <- E in Hn. symmetry in Hn. exact (nzhead_nonzero _ _ Hn).
Qed.

Lemma tok_end_facts rest : tok_end rest ->
  starts_digit rest = false /\
  match rest with d :: t' => (d =? 46) = false /\ (d =? 101) = false /\ (d =? 69) = false | [] => True end.
Proof.
  destruct rest as [|c t]; cbn [tok_end starts_digit]; [split; [reflexivity|exact I]|].
  intros [-> | [-> | ->]]; repeat split; reflexivity.
Qed.

Lemma pnum_tail (neg : bool) (n : N) (rest : list N) : tok_end rest ->
  (let '(f1, r1) := match rest with
                    | d :: t' => if (d =? 46) && starts_digit t' then (true, skip_digits t') else (false, rest)
                    | [] => (false, rest)
                    end in
   let '(f2, r2) := match r1 with
                    | e :: t' =>
                        if (e =? 101) || (e =? 69) then
                          let t'' := match t' with
                                     | sg :: t3 => if ((sg =? 43) || (sg =? 45)) && starts_digit t3 then t3 else t'
                                     | [] => t'
                                     end in
                          if starts_digit t'' then (true, skip_digits t'') else (false, r1)
                        else (false, r1)
                    | [] => (false, r1)
                    end in
   if f1 || f2 then POk JNull true r2
   else POk (JInt (if neg then Z.opp (Z.of_N n) else Z.of_N n)) false r2)
  = POk (JInt (if neg then Z.opp (Z.of_N n) else Z.of_N n)) false rest.
Proof.
  intros H. destruct (tok_end_facts rest H) as [_ H2]. destruct rest as [|d t]; [reflexivity|].
  destruct H2 as (E1 & E2 & E3). rewrite E1. cbn [andb]. rewrite E2, E3. reflexivity.
Qed.

Lemma pnum_pos_digits (neg : bool) (u : Decimal.uint) (rest : list N) :
  u <> Decimal.Nil -> (forall u', u <> Decimal.D0 u') -> tok_end rest ->
  pnum ((if neg then [45] else []) ++ uint_chars u ++ rest) =
  POk (JInt (if neg then Z.opp (Z.of_N (N.of_uint u)) else Z.of_N (N.of_uint u))) false rest.
Proof.
  intros Hn H0 Hr. destruct (tok_end_facts rest Hr) as [Hd _].
  assert (Hs : forall c t, uint_chars u = c :: t -> in_range 49 57 c = true ->
            pnum ((if neg then [45] else []) ++ uint_chars u ++ rest) =
            POk (JInt (if neg then Z.opp (Z.of_N (N.of_uint u)) else Z.of_N (N.of_uint u))) false rest).
  { intros c t Hu Hc. unfold pnum.
    assert (Hsplit : (match (if neg then [45] else []) ++ uint_chars u ++ rest with
                      | c0 :: t0 => if c0 =? 45 then (true, t0) else (false, (if neg then [45] else []) ++ uint_chars u ++ rest)
                      | [] => (false, (if neg then [45] else []) ++ uint_chars u ++ rest)
                      end) = (neg, uint_chars u ++ rest)).
    { destruct neg; cbn [app]; [reflexivity|]. rewrite Hu. cbn [app].
      unfold in_range in Hc. replace (c =? 45) with false by lia. reflexivity. }
    rewrite Hsplit. rewrite Hu at 1. cbn [app]. unfold in_range in Hc.
    replace (c =? 48) with false by lia. replace (in_range 49 57 c) with true by (unfold in_range; lia).
    replace (c :: t ++ rest) with (uint_chars u ++ rest) by (rewrite Hu; reflexivity).
    rewrite read_uint_chars by exact Hd. apply pnum_tail. exact Hr. }
  destruct u; try (eapply Hs; [reflexivity|reflexivity]).
  - congruence.
  - exfalso. eapply H0. reflexivity.
Qed.

Lemma json_int_clean z : clean (json_int z) /\ json_int z <> [].
Proof.
  assert (Hu : forall u, clean (uint_chars u)).
  { induction u; cbn [uint_chars]; try (constructor; [split; discriminate|exact IHu]). constructor. }
  destruct z as [|p|p]; cbn [json_int].
  - split; [repeat constructor; discriminate|discriminate].
  - split; [apply Hu|]. destruct (Pos.to_uint p) eqn:E; try discriminate.
    exfalso. exact (DecimalPos.Unsigned.to_uint_nonnil p E).
  - split; [constructor; [split; discriminate|apply Hu]|discriminate].
Qed.

Lemma pnum_json_int z rest : tok_end rest -> pnum (json_int z ++ rest) = POk (JInt z) false rest.
Proof.
  intros Hr. destruct z as [|p|p]; cbn [json_int].
  - cbn [app]. unfold pnum. change (48 =? 45) with false. cbv iota beta.
    change (48 =? 48) with true. cbv iota. apply (pnum_tail false 0 rest Hr).
  - assert (H := pnum_pos_digits false (Pos.to_uint p) rest (DecimalPos.Unsigned.to_uint_nonnil p)
                   (fun u' => to_uint_not_D0 p u') Hr).
    cbn [app] in H. rewrite H. unfold N.of_uint. rewrite DecimalPos.Unsigned.of_to. reflexivity.
  - assert (H := pnum_pos_digits true (Pos.to_uint p) rest (DecimalPos.Unsigned.to_uint_nonnil p)
                   (fun u' => to_uint_not_D0 p u') Hr).
    cbn [app] in H. cbn [app]. rewrite H. unfold N.of_uint. rewrite DecimalPos.Unsigned.of_to. reflexivity.
Qed.

(* ---------- induction principle and size for jv ---------- *)
Section jv_ind2.
  Variable P : jv -> Prop.
  Hypothesis HNull : P JNull.
  Hypothesis HBool : forall b, P (JBool b).
  Hypothesis HInt : forall z, P (JInt z).
  Hypothesis HStr : forall s, P (JStr s).
  Hypothesis HArr : forall l, Forall P l -> P (JArr l).
  Hypothesis HObj : forall l, Forall (fun kv => P (snd kv)) l -> P (JObj l).
  Fixpoint jv_ind2 (v : jv) : P v :=
    match v with
    | JNull => HNull
    | JBool b => HBool b
    | JInt z => HInt z
    | JStr s => HStr s
    | JArr l =>
        HArr l ((fix go (l : list jv) : Forall P l :=
                   match l with
                   | [] => Forall_nil P
                   | x :: l' => Forall_cons x (jv_ind2 x) (go l')
                   end) l)
    | JObj l =>
        HObj l ((fix go (l : list (list N * jv)) : Forall (fun kv => P (snd kv)) l :=
                   match l with
                   | [] => Forall_nil _
                   | (k, x) :: l' => Forall_cons (k, x) (jv_ind2 x) (go l')
                   end) l)
    end.
End jv_ind2.

Fixpoint jsize (v : jv) : nat :=
  match v with
  | JArr l => S ((fix go (l : list jv) : nat := match l with [] => O | x :: l' => (S (jsize x) + go l')%nat end) l)
  | JObj l =>
      S ((fix go (l : list (list N * jv)) : nat :=
            match l with [] => O | (k, x) :: l' => (S (jsize x) + go l')%nat end) l)
  | _ => 1%nat
  end.
Fixpoint asize (l : list jv) : nat := match l with [] => O | x :: l' => (S (jsize x) + asize l')%nat end.
Fixpoint osize (l : list (list N * jv)) : nat := match l with [] => O | kx :: l' => (S (jsize (snd kx)) + osize l')%nat end.
Lemma jsize_arr l : jsize (JArr l) = S (asize l).
Proof. reflexivity. Qed.
Lemma jsize_obj l : jsize (JObj l) = S (osize l).
Proof. cbn [jsize]. f_equal. induction l as [|[k x] l IH]; [reflexivity|]. cbn [osize snd]. rewrite <- IH. reflexivity. Qed.

(* ---------- first character of an encoded value ---------- *)
Definition good_head (c : N) : Prop := is_ws c = false /\ c <> 93 /\ c <> 125 /\ c <> 65279.

Lemma dumps_head v : exists c t, json_dumps v = c :: t /\ good_head c.
Proof.
  unfold good_head.
  destruct v as [|b|z|s|l|l]; try (do 2 eexists; split; [reflexivity|]; repeat split; discriminate).
  - destruct b; do 2 eexists; (split; [reflexivity|]); repeat split; discriminate.
  - destruct z as [|p|p]; try (do 2 eexists; split; [reflexivity|]; repeat split; discriminate).
    cbn [json_dumps json_int]. destruct (Pos.to_uint p) eqn:E;
      try (do 2 eexists; split; [reflexivity|]; repeat split; discriminate).
    exfalso. exact (DecimalPos.Unsigned.to_uint_nonnil p E).
Qed.

Lemma go_dumps_head v Y : exists c t, esc_go false (json_dumps v ++ Y) = c :: t /\ good_head c.
Proof.
  destruct (dumps_head v) as (c & t & E & H). rewrite E. cbn [app esc_go andb]. eauto.
Qed.

Lemma skipws_head c t : is_ws c = false -> skipws (c :: t) = c :: t.
Proof. intros H. cbn [skipws]. rewrite H. reflexivity. Qed.

Lemma tok_end_go rest : tok_end rest -> tok_end (esc_go false rest).
Proof. destruct rest as [|c t]; [exact (fun H => H)|]. cbn [tok_end esc_go andb]. exact (fun H => H). Qed.

(* ---------- dispatch lemmas for pval ---------- *)
Lemma pval_quote f X :
  pval (S f) (34 :: X) = match pstr X with POk x fl r => POk (JStr x) fl r | PErr => PErr | PFuel => PFuel end.
Proof. reflexivity. Qed.

Lemma pval_arr f c t : is_ws c = false -> c <> 93 ->
  pval (S f) (91 :: c :: t) =
  match parr f (c :: t) with POk l fl r => POk (JArr l) fl r | PErr => PErr | PFuel => PFuel end.
Proof.
  intros H1 H2.
  change (pval (S f) (91 :: c :: t)) with
    (let t' := skipws (c :: t) in
     if starts_char 93 t' then POk (JArr []) false (tl t')
     else match parr f t' with POk l fl r => POk (JArr l) fl r | PErr => PErr | PFuel => PFuel end).
  rewrite skipws_head by exact H1. cbv zeta. cbn [starts_char]. replace (c =? 93) with false by lia. reflexivity.
Qed.

Lemma pval_obj f c t : is_ws c = false -> c <> 125 ->
  pval (S f) (123 :: c :: t) =
  match pobj f (c :: t) with POk ps fl r => POk (JObj (jdict_of ps)) fl r | PErr => PErr | PFuel => PFuel end.
Proof.
  intros H1 H2.
  change (pval (S f) (123 :: c :: t)) with
    (let t' := skipws (c :: t) in
     if starts_char 125 t' then POk (JObj []) false (tl t')
     else match pobj f t' with POk ps fl r => POk (JObj (jdict_of ps)) fl r | PErr => PErr | PFuel => PFuel end).
  rewrite skipws_head by exact H1. cbv zeta. cbn [starts_char]. replace (c =? 125) with false by lia. reflexivity.
Qed.

Lemma pval_json_int z f E : pval (S f) (json_int z ++ E) = pnum (json_int z ++ E).
Proof.
  destruct z as [|p|p]; cbn [json_int].
  - reflexivity.
  - destruct (Pos.to_uint p) eqn:E0; try reflexivity. exfalso. exact (DecimalPos.Unsigned.to_uint_nonnil p E0).
  - destruct (Pos.to_uint p) eqn:E0; try reflexivity. exfalso. exact (DecimalPos.Unsigned.to_uint_nonnil p E0).
Qed.

Lemma parr_step f s :
  parr (S f) s =
  match pval f s with
  | POk v fl r =>
      match skipws r with
      | c :: r2 =>
          if c =? 93 then POk [v] fl r2
          else if c =? 44 then
            match parr f (skipws r2) with
            | POk l fl' r3 => POk (v :: l) (fl || fl') r3
            | PErr => PErr | PFuel => PFuel
            end
          else PErr
      | [] => PErr
      end
  | PErr => PErr
  | PFuel => PFuel
  end.
Proof. reflexivity. Qed.

Lemma pobj_step f t :
  pobj (S f) (34 :: t) =
  match pstr t with
  | POk k flk r =>
      match skipws r with
      | col :: r1 =>
          if col =? 58 then
            match pval f (skipws r1) with
            | POk v fl r2 =>
                match skipws r2 with
                | c :: r3 =>
                    if c =? 125 then POk [(k, v)] (flk || fl) r3
                    else if c =? 44 then
                      match pobj f (skipws r3) with
                      | POk l fl' r4 => POk ((k, v) :: l) (flk || fl || fl') r4
                      | PErr => PErr | PFuel => PFuel
                      end
                    else PErr
                | [] => PErr
                end
            | PErr => PErr
            | PFuel => PFuel
            end
          else PErr
      | [] => PErr
      end
  | PErr => PErr
  | PFuel => PFuel
  end.
Proof. reflexivity. Qed.

(* ---------- containers ---------- *)
Definition RT (v : jv) : Prop :=
  jv_okb v = true -> forall fuel rest, (jsize v <= fuel)%nat -> tok_end rest ->
  pval fuel (esc_go false (json_dumps v ++ rest)) = POk v false (esc_go false rest).

Lemma join_sep_cons2 sep (p q : list N) ps : join_sep sep (p :: q :: ps) = p ++ sep ++ join_sep sep (q :: ps).
Proof. reflexivity. Qed.

Lemma join_head y l R : exists c t,
  esc_go false (join_sep [44; 32] (map json_dumps (y :: l)) ++ R) = c :: t /\ good_head c.
Proof.
  destruct l as [|z l]; cbn [map].
  - cbn [join_sep]. apply go_dumps_head.
  - rewrite join_sep_cons2, <- app_assoc. apply go_dumps_head.
Qed.

Lemma parr_go : forall l x, Forall RT (x :: l) -> forallb jv_okb (x :: l) = true ->
  forall fuel rest, (asize (x :: l) <= fuel)%nat ->
  parr fuel (esc_go false (join_sep [44; 32] (map json_dumps (x :: l)) ++ 93 :: rest))
  = POk (x :: l) false (esc_go false rest).
Proof.
  induction l as [|y l IH]; intros x HF Hok fuel rest Hfuel;
    inversion HF as [|? ? Hx HF']; subst; cbn [forallb] in Hok; apply andb_true_iff in Hok as [Hox Hok'];
    (destruct fuel as [|f]; [cbn [asize] in Hfuel; lia|]); rewrite parr_step.
  - cbn [map join_sep]. rewrite (Hx Hox f (93 :: rest)); [|cbn [asize] in Hfuel; lia|cbn; tauto].
    rewrite esc_go_cons_ne by lia. reflexivity.
  - cbn [map]. rewrite join_sep_cons2, <- !app_assoc. cbn [app].
    rewrite (Hx Hox f); [|cbn [asize] in Hfuel; lia|cbn; tauto].
    rewrite !esc_go_cons_ne by lia.
    destruct (join_head y l (93 :: rest)) as (c & t & Ec & Hc & _). cbn [map] in Ec.
    change (skipws (44 :: 32 :: ?X)) with (44 :: 32 :: X).
    cbv iota. change (44 =? 93) with false. change (44 =? 44) with true. cbv iota.
    change (skipws (32 :: ?X)) with (skipws X). rewrite Ec, skipws_head by exact Hc. rewrite <- Ec.
    assert (IH' := IH y HF' Hok' f rest). cbn [map] in IH'. rewrite IH'; [reflexivity|]. cbn [asize] in *. lia.
Qed.

Fixpoint oitems (l : list (list N * jv)) : list (list N) :=
  match l with
  | [] => []
  | (k, x) :: l' => (json_str k ++ [58; 32] ++ json_dumps x) :: oitems l'
  end.
Fixpoint obj_okb (l : list (list N * jv)) : bool :=
  match l with
  | [] => true
  | (k, x) :: l' => forallb is_scalar k && jv_okb x && obj_okb l'
  end.
Lemma dumps_obj l : json_dumps (JObj l) = 123 :: join_sep [44; 32] (oitems l) ++ [125].
Proof. reflexivity. Qed.
Lemma okb_obj l : jv_okb (JObj l) = nodupb (map fst l) && obj_okb l.
Proof. reflexivity. Qed.

Lemma item_shape k x R :
  (json_str k ++ [58; 32] ++ json_dumps x) ++ R =
  34 :: flat_map json_char k ++ 34 :: 58 :: 32 :: json_dumps x ++ R.
Proof. unfold json_str. cbn [app]. rewrite <- !app_assoc. reflexivity. Qed.

Lemma forallb_scalar s : forallb is_scalar s = true -> Forall scalar s.
Proof. intros H. apply Forall_forall. intros c Hc. rewrite forallb_forall in H. exact (H c Hc). Qed.

Lemma oitems_head k x l R : exists t,
  esc_go false (join_sep [44; 32] (oitems ((k, x) :: l)) ++ R) = 34 :: t.
Proof.
  destruct l as [|[k' x'] l]; cbn [oitems].
  - cbn [join_sep]. rewrite item_shape. cbn [esc_go andb]. eauto.
  - rewrite join_sep_cons2, <- app_assoc, item_shape. cbn [esc_go andb]. eauto.
Qed.

Lemma pobj_go : forall l k x, Forall (fun kv => RT (snd kv)) ((k, x) :: l) -> obj_okb ((k, x) :: l) = true ->
  forall fuel rest, (osize ((k, x) :: l) <= fuel)%nat ->
  pobj fuel (esc_go false (join_sep [44; 32] (oitems ((k, x) :: l)) ++ 125 :: rest))
  = POk ((k, x) :: l) false (esc_go false rest).
Proof.
  induction l as [|[k' x'] l IH]; intros k x HF Hok fuel rest Hfuel;
    inversion HF as [|? ? Hx HF']; subst; cbn [snd] in Hx; cbn [obj_okb] in Hok;
    apply andb_true_iff in Hok as [Hok Hok']; apply andb_true_iff in Hok as [Hk Hox];
    apply forallb_scalar in Hk;
    (destruct fuel as [|f]; [cbn [osize] in Hfuel; lia|]).
  - cbn [oitems join_sep]. rewrite item_shape. rewrite esc_go_cons_ne by lia. rewrite pobj_step.
    rewrite pstr_go by exact Hk. rewrite !esc_go_cons_ne by lia.
    change (skipws (58 :: 32 :: ?X)) with (58 :: 32 :: X). cbv iota. change (58 =? 58) with true. cbv iota.
    change (skipws (32 :: ?X)) with (skipws X).
    destruct (go_dumps_head x (125 :: rest)) as (c & t & Ec & Hc & _).
    rewrite Ec, skipws_head by exact Hc. rewrite <- Ec.
    rewrite (Hx Hox f (125 :: rest)); [|cbn [osize snd] in Hfuel; lia|cbn; tauto].
    rewrite esc_go_cons_ne by lia. reflexivity.
  - cbn [oitems]. rewrite join_sep_cons2, <- app_assoc, item_shape, <- app_assoc. cbn [app].
    rewrite esc_go_cons_ne by lia. rewrite pobj_step.
    rewrite pstr_go by exact Hk. rewrite !esc_go_cons_ne by lia.
    change (skipws (58 :: 32 :: ?X)) with (58 :: 32 :: X). cbv iota. change (58 =? 58) with true. cbv iota.
    change (skipws (32 :: ?X)) with (skipws X).
    match goal with |- context [esc_go false (json_dumps x ++ ?R)] =>
      destruct (go_dumps_head x R) as (c & t & Ec & Hc & _); rewrite Ec, skipws_head by exact Hc; rewrite <- Ec;
      rewrite (Hx Hox f R); [|cbn [osize snd] in Hfuel; lia|cbn; tauto] end.
    rewrite !esc_go_cons_ne by lia.
    change (skipws (44 :: 32 :: ?X)) with (44 :: 32 :: X).
    cbv iota. change (44 =? 125) with false. change (44 =? 44) with true. cbv iota.
    change (skipws (32 :: ?X)) with (skipws X).
    destruct (oitems_head k' x' l (125 :: rest)) as (t' & Et). cbn [oitems app] in Et.
    rewrite Et. rewrite skipws_head by reflexivity. rewrite <- Et.
    assert (IH' := IH k' x' HF' Hok' f rest). cbn [oitems app] in IH'. rewrite IH'; [reflexivity|].
    cbn [osize snd] in *. lia.
Qed.

(* dict(pairs) keeps a duplicate-free list of pairs as it is *)
Lemma list_N_eqb_eq a b : list_N_eqb a b = true -> a = b.
Proof.
  unfold list_N_eqb. revert b; induction a as [|x a IH]; intros [|y b] H; try discriminate; [reflexivity|].
  apply andb_true_iff in H as [H1 H2]. apply N.eqb_eq in H1. subst. f_equal. apply IH. exact H2.
Qed.
Lemma list_N_eqb_refl a : list_N_eqb a a = true.
Proof. unfold list_N_eqb. induction a as [|x a IH]; [reflexivity|]. rewrite N.eqb_refl. exact IH. Qed.

Lemma jdict_set_fresh k v d : (forall kv, In kv d -> fst kv <> k) -> jdict_set k v d = d ++ [(k, v)].
Proof.
  induction d as [|[k' v'] d IH]; intros H; [reflexivity|]. cbn [jdict_set app].
  destruct (list_N_eqb k k') eqn:E.
  - apply list_N_eqb_eq in E. exfalso. apply (H (k', v')); [left; reflexivity|]. cbn. congruence.
  - rewrite IH; [reflexivity|]. intros kv Hin. apply H. right. exact Hin.
Qed.

Lemma jdict_fold l : forall acc, nodupb (map fst l) = true ->
  (forall kv kv', In kv l -> In kv' acc -> fst kv' <> fst kv) ->
  fold_left (fun d kv => jdict_set (fst kv) (snd kv) d) l acc = acc ++ l.
Proof.
  induction l as [|[k v] l IH]; intros acc Hnd Hfresh; [rewrite List.app_nil_r; reflexivity|].
  cbn [fold_left fst snd map nodupb] in *. apply andb_true_iff in Hnd as [Hk Hnd]. apply negb_true_iff in Hk.
  rewrite jdict_set_fresh by (intros kv' Hin; apply (Hfresh (k, v) kv'); [left; reflexivity|exact Hin]).
  rewrite IH; [rewrite <- app_assoc; reflexivity|exact Hnd|].
  intros kv kv' Hin Hin'. apply in_app_or in Hin' as [Hin'|[<-|[]]].
  - apply (Hfresh kv kv'); [right; exact Hin|exact Hin'].
  - cbn [fst]. intros ->. assert (existsb (list_N_eqb (fst kv)) (map fst l) = true); [|congruence].
    apply existsb_exists. exists (fst kv). split; [apply in_map; exact Hin|apply list_N_eqb_refl].
Qed.

Lemma jdict_of_nodup l : nodupb (map fst l) = true -> jdict_of l = l.
Proof. intros H. unfold jdict_of. rewrite jdict_fold; [reflexivity|exact H|intros ? ? ? []]. Qed.

Lemma RT_all v : RT v.
Proof.
  induction v using jv_ind2; unfold RT; intros Hok fuel rest Hfuel Hr;
    (destruct fuel as [|f]; [cbn in Hfuel; lia|]).
  - cbn [json_dumps app]. rewrite !esc_go_cons_ne by lia. reflexivity.
  - destruct b; cbn [json_dumps app]; rewrite !esc_go_cons_ne by lia; reflexivity.
  - cbn [json_dumps]. destruct (json_int_clean z) as [Hc Hn]. rewrite esc_go_clean1 by assumption.
    rewrite pval_json_int. apply pnum_json_int. apply tok_end_go. exact Hr.
  - cbn [json_dumps jv_okb] in *. unfold json_str. cbn [app]. rewrite <- app_assoc. cbn [app].
    rewrite esc_go_cons_ne by lia. rewrite pval_quote. rewrite pstr_go by (apply forallb_scalar; exact Hok).
    reflexivity.
  - cbn [json_dumps jv_okb] in *. destruct l as [|x l].
    + cbn [map join_sep app]. rewrite !esc_go_cons_ne by lia. reflexivity.
    + cbn [app]. rewrite esc_go_cons_ne by lia. rewrite <- app_assoc. cbn [app].
      destruct (join_head x l (93 :: rest)) as (c & t & Ec & Hc & Hc93 & _). rewrite Ec.
      rewrite pval_arr by assumption. rewrite <- Ec.
      rewrite parr_go; [reflexivity|assumption|exact Hok|]. rewrite jsize_arr in Hfuel. lia.
  - rewrite okb_obj in Hok. apply andb_true_iff in Hok as [Hnd Hok]. rewrite dumps_obj. destruct l as [|[k x] l].
    + cbn [oitems join_sep app]. rewrite !esc_go_cons_ne by lia. reflexivity.
    + cbn [app]. rewrite esc_go_cons_ne by lia. rewrite <- app_assoc. cbn [app].
      destruct (oitems_head k x l (125 :: rest)) as (t & Et). rewrite Et.
      rewrite pval_obj by (try reflexivity; lia). rewrite <- Et.
      rewrite pobj_go; [|assumption|exact Hok|rewrite jsize_obj in Hfuel; lia].
      rewrite jdict_of_nodup by exact Hnd. reflexivity.
Qed.
