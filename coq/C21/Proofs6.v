(* C21 — proofs, part 6: recursive_unicode leaves no byte string anywhere. *)
From Coq Require Import List ZArith NArith Bool Lia.
Import ListNotations.
From TV Require Import Lib.C21_Utf8 Lib.C21_Pct C21.Model.
Local Open Scope N_scope.

Section pyval_ind2.
  Variable P : pyval -> Prop.
  Hypothesis HNone : P PNone.
  Hypothesis HInt : forall z, P (PInt z).
  Hypothesis HStr : forall s, P (PStr s).
  Hypothesis HBytes : forall b, P (PBytes b).
  Hypothesis HList : forall l, Forall P l -> P (PList l).
  Hypothesis HTuple : forall l, Forall P l -> P (PTuple l).
  Hypothesis HDict : forall l, Forall (fun kv => P (fst kv) /\ P (snd kv)) l -> P (PDict l).
  Fixpoint pyval_ind2 (v : pyval) : P v :=
    match v with
    | PNone => HNone
    | PInt z => HInt z
    | PStr s => HStr s
    | PBytes b => HBytes b
    | PList l =>
        HList l ((fix go (l : list pyval) : Forall P l :=
                    match l with [] => Forall_nil P | x :: l' => Forall_cons x (pyval_ind2 x) (go l') end) l)
    | PTuple l =>
        HTuple l ((fix go (l : list pyval) : Forall P l :=
                     match l with [] => Forall_nil P | x :: l' => Forall_cons x (pyval_ind2 x) (go l') end) l)
    | PDict l =>
        HDict l ((fix go (l : list (pyval * pyval)) : Forall (fun kv => P (fst kv) /\ P (snd kv)) l :=
                    match l with
                    | [] => Forall_nil _
                    | (k, x) :: l' => Forall_cons (k, x) (conj (pyval_ind2 k) (pyval_ind2 x)) (go l')
                    end) l)
    end.
End pyval_ind2.

Fixpoint has_bytes (v : pyval) : bool :=
  match v with
  | PBytes _ => true
  | PList l => existsb has_bytes l
  | PTuple l => existsb has_bytes l
  | PDict l =>
      (fix go (l : list (pyval * pyval)) : bool :=
         match l with [] => false | (k, x) :: l' => has_bytes k || has_bytes x || go l' end) l
  | _ => false
  end.
Fixpoint dict_has_bytes (l : list (pyval * pyval)) : bool :=
  match l with [] => false | (k, x) :: l' => has_bytes k || has_bytes x || dict_has_bytes l' end.
Lemma has_bytes_dict l : has_bytes (PDict l) = dict_has_bytes l.
Proof. reflexivity. Qed.

(* the two element loops of rec_unicode, named *)
Fixpoint rec_list (l : list pyval) : res (list pyval) :=
  match l with
  | [] => Ok []
  | x :: l' => bind (rec_unicode x) (fun x' => bind (rec_list l') (fun r => Ok (x' :: r)))
  end.
Fixpoint rec_pairs (l : list (pyval * pyval)) : res (list (pyval * pyval)) :=
  match l with
  | [] => Ok []
  | (k, x) :: l' =>
      bind (rec_unicode k) (fun k' => bind (rec_unicode x) (fun x' => bind (rec_pairs l') (fun r => Ok ((k', x') :: r))))
  end.
Lemma rec_unicode_list l : rec_unicode (PList l) = bind (rec_list l) (fun r => Ok (PList r)).
Proof. reflexivity. Qed.
Lemma rec_unicode_tuple l : rec_unicode (PTuple l) = bind (rec_list l) (fun r => Ok (PTuple r)).
Proof. reflexivity. Qed.
Lemma rec_unicode_dict l :
  rec_unicode (PDict l) =
  bind (rec_pairs l) (fun ps => Ok (PDict (fold_left (fun d kv => pydict_set (fst kv) (snd kv) d) ps []))).
Proof. reflexivity. Qed.

Definition NB (v : pyval) : Prop := forall r, rec_unicode v = Ok r -> has_bytes r = false.

Lemma rec_list_nb l : Forall NB l -> forall r, rec_list l = Ok r -> existsb has_bytes r = false.
Proof.
  induction 1 as [|x l Hx _ IH]; intros r H; cbn [rec_list] in H.
  - injection H as <-. reflexivity.
  - destruct (rec_unicode x) as [x'|e] eqn:Ex; cbn [bind] in H; [|discriminate].
    destruct (rec_list l) as [r'|e] eqn:El; cbn [bind] in H; [|discriminate].
    injection H as <-. cbn [existsb]. rewrite (Hx x' Ex), (IH r' eq_refl). reflexivity.
Qed.

Lemma rec_pairs_nb l : Forall (fun kv => NB (fst kv) /\ NB (snd kv)) l ->
  forall r, rec_pairs l = Ok r -> dict_has_bytes r = false.
Proof.
  induction 1 as [|[k x] l [Hk Hx] _ IH]; intros r H; cbn [rec_pairs] in H.
  - injection H as <-. reflexivity.
  - cbn [fst snd] in *.
    destruct (rec_unicode k) as [k'|e] eqn:Ek; cbn [bind] in H; [|discriminate].
    destruct (rec_unicode x) as [x'|e] eqn:Ex; cbn [bind] in H; [|discriminate].
    destruct (rec_pairs l) as [r'|e] eqn:El; cbn [bind] in H; [|discriminate].
    injection H as <-. cbn [dict_has_bytes]. rewrite (Hk k' Ek), (Hx x' Ex), (IH r' eq_refl). reflexivity.
Qed.

Lemma pydict_set_nb k v d :
  has_bytes k = false -> has_bytes v = false -> dict_has_bytes d = false -> dict_has_bytes (pydict_set k v d) = false.
Proof.
  intros Hk Hv. induction d as [|[k' v'] d IH]; intros Hd; cbn [pydict_set].
  - cbn [dict_has_bytes]. rewrite Hk, Hv. reflexivity.
  - cbn [dict_has_bytes] in Hd. apply orb_false_iff in Hd as [Hd Hd']. apply orb_false_iff in Hd as [Hk' Hv'].
    destruct (key_eqb k k'); cbn [dict_has_bytes].
    + rewrite Hk', Hv, Hd'. reflexivity.
    + rewrite Hk', Hv', (IH Hd'). reflexivity.
Qed.

Lemma fold_set_nb ps : dict_has_bytes ps = false -> forall d, dict_has_bytes d = false ->
  dict_has_bytes (fold_left (fun d kv => pydict_set (fst kv) (snd kv) d) ps d) = false.
Proof.
  induction ps as [|[k v] ps IH]; intros Hps d Hd; [exact Hd|].
  cbn [dict_has_bytes] in Hps. apply orb_false_iff in Hps as [Hps Hps']. apply orb_false_iff in Hps as [Hk Hv].
  cbn [fold_left fst snd]. apply IH; [exact Hps'|]. apply pydict_set_nb; assumption.
Qed.

(* whatever recursive_unicode returns contains no byte string at any depth *)
Lemma rec_unicode_no_bytes v : forall r, rec_unicode v = Ok r -> has_bytes r = false.
Proof.
  change (NB v). induction v using pyval_ind2; unfold NB; intros r Hr.
  - injection Hr as <-. reflexivity.
  - injection Hr as <-. reflexivity.
  - injection Hr as <-. reflexivity.
  - cbn [rec_unicode py_to_unicode] in Hr. destruct (decode_utf8 b); cbn [bind] in Hr; [|discriminate].
    injection Hr as <-. reflexivity.
  - rewrite rec_unicode_list in Hr. destruct (rec_list l) as [r'|e] eqn:E; cbn [bind] in Hr; [|discriminate].
    injection Hr as <-. cbn [has_bytes]. eapply rec_list_nb; eassumption.
  - rewrite rec_unicode_tuple in Hr. destruct (rec_list l) as [r'|e] eqn:E; cbn [bind] in Hr; [|discriminate].
    injection Hr as <-. cbn [has_bytes]. eapply rec_list_nb; eassumption.
  - rewrite rec_unicode_dict in Hr. destruct (rec_pairs l) as [ps|e] eqn:E; cbn [bind] in Hr; [|discriminate].
    injection Hr as <-. rewrite has_bytes_dict. apply fold_set_nb; [|reflexivity].
    eapply rec_pairs_nb; eassumption.
Qed.

(* the only exception recursive_unicode can raise is UnicodeDecodeError, and a
   value without byte strings never raises *)
Definition NE (v : pyval) : Prop := forall e, rec_unicode v = Err e -> e = EUnicodeDecode /\ has_bytes v = true.

Lemma rec_unicode_errors v : forall e, rec_unicode v = Err e -> e = EUnicodeDecode /\ has_bytes v = true.
Proof.
  change (NE v). induction v using pyval_ind2; unfold NE; intros e He; try discriminate.
  - cbn [rec_unicode py_to_unicode] in He. unfold decode_utf8 in He. destruct (utf8_decode b); cbn [bind] in He; [discriminate|].
    injection He as <-. split; reflexivity.
  - rewrite rec_unicode_list in He. cbn [has_bytes].
    induction H as [|x l Hx _ IH]; cbn [rec_list bind] in He; [discriminate|].
    destruct (rec_unicode x) as [x'|e'] eqn:Ex; cbn [bind] in He.
    + destruct (rec_list l) as [r'|e''] eqn:El; cbn [bind] in He; [discriminate|]. injection He as <-.
      destruct (IH eq_refl) as [-> Hb]. cbn [existsb]. rewrite Hb, orb_true_r. split; reflexivity.
    + injection He as <-. destruct (Hx e' Ex) as [-> Hb]. cbn [existsb]. rewrite Hb. split; reflexivity.
  - rewrite rec_unicode_tuple in He. cbn [has_bytes].
    induction H as [|x l Hx _ IH]; cbn [rec_list bind] in He; [discriminate|].
    destruct (rec_unicode x) as [x'|e'] eqn:Ex; cbn [bind] in He.
    + destruct (rec_list l) as [r'|e''] eqn:El; cbn [bind] in He; [discriminate|]. injection He as <-.
      destruct (IH eq_refl) as [-> Hb]. cbn [existsb]. rewrite Hb, orb_true_r. split; reflexivity.
    + injection He as <-. destruct (Hx e' Ex) as [-> Hb]. cbn [existsb]. rewrite Hb. split; reflexivity.
  - rewrite rec_unicode_dict in He. rewrite has_bytes_dict.
    induction H as [|[k x] l [Hk Hx] _ IH]; cbn [rec_pairs bind] in He; [discriminate|]. cbn [fst snd] in *.
    destruct (rec_unicode k) as [k'|e'] eqn:Ek; cbn [bind] in He.
    + destruct (rec_unicode x) as [x'|e''] eqn:Ex; cbn [bind] in He.
      * destruct (rec_pairs l) as [r'|e3] eqn:El; cbn [bind] in He; [discriminate|]. injection He as <-.
        destruct (IH eq_refl) as [-> Hb]. cbn [dict_has_bytes]. rewrite Hb, orb_true_r. split; reflexivity.
      * injection He as <-. destruct (Hx e'' Ex) as [-> Hb]. cbn [dict_has_bytes]. rewrite Hb, orb_true_r. split; reflexivity.
    + injection He as <-. destruct (Hk e' Ek) as [-> Hb]. cbn [dict_has_bytes]. rewrite Hb. split; reflexivity.
Qed.

(* url_unescape treats an ASCII bytes argument exactly like the equal str *)
Lemma utf8_decode_ascii e : ascii e -> utf8_decode e = Some e.
Proof. intros H. unfold utf8_decode. rewrite (utf8_items_ascii _ H). apply sequence_map_Some. Qed.

Lemma url_unescape_bytes_eq_str e enc plus : ascii e ->
  url_unescape (SBytes e) enc plus = url_unescape (SStr e) enc plus.
Proof.
  intros H. destruct enc, plus; cbn [url_unescape to_unicode_s bytes_of]; unfold decode_utf8, encode_utf8;
    rewrite ?(utf8_decode_ascii e H), ?(utf8_encode_ascii e H); reflexivity.
Qed.
