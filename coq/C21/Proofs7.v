(* C21 — proofs, part 7: parse_qs_bytes preserves every byte for ANY escaping of
   names and values that avoids raw '&' and '=' and is undone by
   `.replace('+',' ')` + unquote(latin-1); instantiated with the minimal escaping
   that leaves every byte except & = + % raw. *)
From Coq Require Import List ZArith NArith Bool Lia ZifyBool.
Import ListNotations.
From TV Require Import Lib.Obs Lib.C21_Utf8 Lib.C21_Pct C21.Model C21.Run C21.Proofs C21.Proofs2 C21.Proofs3.
Local Open Scope N_scope.

Local Arguments N.add : simpl never.
Local Arguments N.mul : simpl never.
Local Arguments N.sub : simpl never.
Local Arguments N.div : simpl never.
Local Arguments N.modulo : simpl never.
Local Arguments N.ltb : simpl never.
Local Arguments N.leb : simpl never.
Local Arguments N.eqb : simpl never.

Section generic.
  Variable esc : list N -> list N.
  Hypothesis esc_no_amp : forall b, bytes b -> ~ In 38 (esc b).
  Hypothesis esc_no_eq : forall b, bytes b -> ~ In 61 (esc b).
  Hypothesis esc_nil : forall b, is_nil (esc b) = is_nil b.
  Hypothesis esc_inv : forall b, bytes b -> unq_latin1 (esc b) = b.

  Definition gfield (kv : list N * list N) : list N := esc (fst kv) ++ 61 :: esc (snd kv).

  Lemma g_cons2 kv kv' ps :
    encode_pairs_with esc (kv :: kv' :: ps) = gfield kv ++ 38 :: encode_pairs_with esc (kv' :: ps).
  Proof. destruct kv as [k v]. unfold gfield. cbn [encode_pairs_with fst snd]. rewrite <- app_assoc. reflexivity. Qed.
  Lemma g_one kv : encode_pairs_with esc [kv] = gfield kv.
  Proof. destruct kv as [k v]. reflexivity. Qed.

  Lemma gfield_no_amp kv : bytes (fst kv) -> bytes (snd kv) -> ~ In 38 (gfield kv).
  Proof.
    intros Hk Hv Hin. unfold gfield in Hin. apply in_app_or in Hin as [Hin|[Hin|Hin]].
    - exact (esc_no_amp _ Hk Hin).
    - discriminate.
    - exact (esc_no_amp _ Hv Hin).
  Qed.

  Lemma g_split kv ps : wf_pairs (kv :: ps) ->
    split_on 38 [] (encode_pairs_with esc (kv :: ps)) = map gfield (kv :: ps).
  Proof.
    revert kv; induction ps as [|kv' ps IH]; intros kv Hwf.
    - rewrite g_one. inversion Hwf as [|? ? [Hk Hv] _]; subst.
      rewrite split_on_last by (apply gfield_no_amp; assumption). reflexivity.
    - rewrite g_cons2. inversion Hwf as [|? ? [Hk Hv] Hwf']; subst.
      rewrite split_on_next by (apply gfield_no_amp; assumption).
      rewrite IH by exact Hwf'. reflexivity.
  Qed.

  Lemma gfield_not_nil kv : is_nil (gfield kv) = false.
  Proof. unfold gfield. destruct (esc (fst kv)); reflexivity. Qed.

  Lemma g_fields keep strict ps : wf_pairs ps ->
    qsl_fields keep strict (map gfield ps) = Ok (keep_filter keep ps).
  Proof.
    induction 1 as [|[k v] ps [Hk Hv] _ IH].
    - destruct keep; reflexivity.
    - cbn [map qsl_fields]. rewrite gfield_not_nil. cbn [andb].
      unfold gfield at 1. cbn [fst snd] in *. rewrite partition_eq_app by (apply esc_no_eq; exact Hk).
      rewrite esc_nil, IH. rewrite (esc_inv k Hk), (esc_inv v Hv).
      destruct keep; cbn [keep_filter orb bind].
      + rewrite orb_true_r. reflexivity.
      + rewrite orb_false_r. cbn [filter snd]. destruct (negb (is_nil v)); reflexivity.
  Qed.

  Lemma g_nil ps : is_nil (encode_pairs_with esc ps) = is_nil ps.
  Proof.
    destruct ps as [|kv [|kv' ps]]; [reflexivity| |].
    - rewrite g_one. apply gfield_not_nil.
    - rewrite g_cons2. unfold gfield. destruct (esc (fst kv)); reflexivity.
  Qed.

  Lemma g_parse_qs v ps keep strict :
    wf_pairs ps -> raw_of v = encode_pairs_with esc ps ->
    parse_qs_bytes v keep strict = Ok (group_pairs (keep_filter keep ps)).
  Proof.
    intros Hwf Hraw. unfold parse_qs_bytes, parse_qsl. rewrite Hraw, g_nil.
    assert (Hq : (if is_nil ps then Ok [] else qsl_fields keep strict (split_on 38 [] (encode_pairs_with esc ps)))
                 = Ok (keep_filter keep ps)).
    { destruct ps as [|kv ps]; [destruct keep; reflexivity|]. cbn [is_nil].
      rewrite g_split by exact Hwf. apply g_fields. exact Hwf. }
    rewrite Hq. cbn [bind]. rewrite dict_ok_forallb; [reflexivity|].
    apply group_ok; [|constructor].
    assert (H := keep_filter_wf keep ps Hwf). unfold wf_pairs in H. rewrite Forall_forall in *.
    intros kv Hin. apply bytes_forallb. exact (proj2 (H kv Hin)).
  Qed.
End generic.

(* ---------- unquote with the latin-1 decoder is unquote_to_bytes, on any text ---------- *)
Lemma ub_pct2 h1 h2 t :
  unquote_bytes (37 :: h1 :: h2 :: t) =
  match hexval h1, hexval h2 with
  | Some a, Some b => (a * 16 + b) :: unquote_bytes t
  | _, _ => 37 :: unquote_bytes (h1 :: h2 :: t)
  end.
Proof. reflexivity. Qed.
Lemma ub_pct1 h : unquote_bytes [37; h] = 37 :: unquote_bytes [h].
Proof. reflexivity. Qed.
Lemma ub_other x t : x <> 37 -> unquote_bytes (x :: t) = x :: unquote_bytes t.
Proof. intros H. cbn [unquote_bytes]. replace (x =? 37) with false by lia. reflexivity. Qed.

Lemma unquote_bytes_split_len n : forall a c rest, (length a <= n)%nat -> hexval c = None -> c <> 37 ->
  unquote_bytes (a ++ c :: rest) = unquote_bytes a ++ c :: unquote_bytes rest.
Proof.
  induction n as [|n IH]; intros a c rest Hlen Hh Hc.
  { destruct a; [|simpl in Hlen; lia]. cbn [app]. rewrite ub_other by exact Hc. reflexivity. }
  destruct a as [|x a]; [cbn [app]; rewrite ub_other by exact Hc; reflexivity|].
  simpl in Hlen. destruct (N.eq_dec x 37) as [->|Hx].
  - destruct a as [|h1 [|h2 a]].
    + cbn [app]. destruct rest as [|r0 rest'].
      * rewrite ub_pct1, ub_other by exact Hc. reflexivity.
      * rewrite ub_pct2, Hh, ub_other by exact Hc. reflexivity.
    + cbn [app]. rewrite ub_pct2, Hh, ub_pct1.
      change (h1 :: c :: rest) with ([h1] ++ c :: rest).
      destruct (hexval h1); rewrite (IH [h1] c rest ltac:(simpl in Hlen |- *; lia) Hh Hc); reflexivity.
    + cbn [app]. rewrite !ub_pct2. simpl in Hlen.
      destruct (hexval h1), (hexval h2).
      * rewrite (IH a c rest ltac:(simpl in Hlen |- *; lia) Hh Hc). reflexivity.
      * change (h1 :: h2 :: a ++ c :: rest) with ((h1 :: h2 :: a) ++ c :: rest).
        rewrite (IH (h1 :: h2 :: a) c rest ltac:(simpl in Hlen |- *; lia) Hh Hc). reflexivity.
      * change (h1 :: h2 :: a ++ c :: rest) with ((h1 :: h2 :: a) ++ c :: rest).
        rewrite (IH (h1 :: h2 :: a) c rest ltac:(simpl in Hlen |- *; lia) Hh Hc). reflexivity.
      * change (h1 :: h2 :: a ++ c :: rest) with ((h1 :: h2 :: a) ++ c :: rest).
        rewrite (IH (h1 :: h2 :: a) c rest ltac:(simpl in Hlen |- *; lia) Hh Hc). reflexivity.
  - cbn [app]. rewrite !ub_other by exact Hx. rewrite (IH a c rest ltac:(simpl in Hlen |- *; lia) Hh Hc). reflexivity.
Qed.

Lemma unquote_bytes_split a c rest : hexval c = None -> c <> 37 ->
  unquote_bytes (a ++ c :: rest) = unquote_bytes a ++ c :: unquote_bytes rest.
Proof. apply (unquote_bytes_split_len (length a)). lia. Qed.

Lemma hexval_high c : 128 <= c -> hexval c = None.
Proof. intros H. unfold hexval, in_range. replace ((48 <=? c) && (c <=? 57)) with false by lia.
  replace ((65 <=? c) && (c <=? 70)) with false by lia. replace ((97 <=? c) && (c <=? 102)) with false by lia. reflexivity. Qed.

Lemma unquote_runs_latin1 s : forall acc, unquote_runs (fun b => b) acc s = unquote_bytes (rev acc ++ s).
Proof.
  induction s as [|c s IH]; intros acc.
  - cbn [unquote_runs]. rewrite app_nil_r. reflexivity.
  - cbn [unquote_runs]. destruct (c <? 128) eqn:E.
    + rewrite IH. cbn [rev]. rewrite <- app_assoc. reflexivity.
    + rewrite IH. cbn [rev app]. rewrite unquote_bytes_split; [reflexivity|apply hexval_high; lia|lia].
Qed.

Lemma unquote_text_latin1 s : unquote_text (fun b => b) s = unquote_bytes s.
Proof.
  unfold unquote_text. destruct (existsb (N.eqb 37) s) eqn:E.
  - apply (unquote_runs_latin1 s []).
  - symmetry. apply unquote_bytes_no_pct. apply existsb_eqb_false. exact E.
Qed.

(* ---------- the minimal escaping ---------- *)
Lemma safe_min_not_pct x : safe_min x = true -> x <> 37.
Proof. unfold safe_min. lia. Qed.

Lemma min_chars b c : bytes b -> In c (qs_escape_min b) -> c <> 38 /\ c <> 61 /\ c <> 43.
Proof.
  intros Hb Hin. destruct (quote_chars safe_min b c Hb Hin) as [[H _]|[->|H]].
  - unfold safe_min in H. lia.
  - lia.
  - lia.
Qed.

Lemma min_nil b : is_nil (qs_escape_min b) = is_nil b.
Proof.
  destruct b as [|x b]; [reflexivity|]. unfold qs_escape_min, quote_from_bytes. cbn [flat_map].
  unfold pct_byte. destruct (safe_min x); reflexivity.
Qed.

Lemma min_inv b : bytes b -> unq_latin1 (qs_escape_min b) = b.
Proof.
  intros Hb. unfold unq_latin1, unquote_plus_text.
  rewrite replace_char_absent by (intros Hin; destruct (min_chars b 43 Hb Hin) as (_ & _ & H); congruence).
  rewrite unquote_text_latin1. apply unquote_bytes_quote; [exact safe_min_not_pct|exact Hb].
Qed.

(* parse_qs_bytes preserves every raw byte of every name and value *)
Lemma parse_qs_raw_roundtrip v ps keep strict :
  wf_pairs ps -> raw_of v = encode_pairs_with qs_escape_min ps ->
  parse_qs_bytes v keep strict = Ok (group_pairs (keep_filter keep ps)).
Proof.
  apply g_parse_qs.
  - intros b Hb Hin. destruct (min_chars b 38 Hb Hin) as (H & _). congruence.
  - intros b Hb Hin. destruct (min_chars b 61 Hb Hin) as (_ & H & _). congruence.
  - exact min_nil.
  - exact min_inv.
Qed.

Lemma check_qsraw ps keep strict : wf_pairs ps ->
  check_case (IQsRaw ps keep strict) (run_case (IQsRaw ps keep strict)) = true.
Proof.
  intros Hwf. cbn [check_case run_case].
  rewrite (parse_qs_raw_roundtrip (SBytes (encode_pairs_with qs_escape_min ps)) ps keep strict Hwf eq_refl).
  rewrite (parse_qs_raw_roundtrip (SStr (encode_pairs_with qs_escape_min ps)) ps keep strict Hwf eq_refl).
  cbn [ores]. rewrite obs_eqb_refl. reflexivity.
Qed.
