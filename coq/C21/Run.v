(* Executable entry points used by the correspondence check for C21. *)
From Coq Require Import List ZArith NArith String Bool.
Import ListNotations.
From TV Require Import Lib.Obs Lib.C21_Utf8 Lib.C21_Pct C21.Model.
Local Open Scope N_scope.

Inductive c21_in :=
| IHtml (v : sval)                         (* e = xhtml_escape v ; xhtml_unescape e *)
| IHtmlUn (v : sval)                       (* xhtml_unescape v *)
| IUrl (v : sval) (plus : bool)            (* e = url_escape v plus ; url_unescape e 'utf-8' plus ; url_unescape e None plus *)
| IUrlUn (v : sval) (enc : uenc) (plus : bool)
| IJson (v : jv)                           (* e = json_encode v ; json_decode e *)
| IJsonDec (s : list N)                    (* json_decode s, s a str *)
| IUtf8 (v : pyval)                        (* r = utf8 v ; to_unicode r *)
| IToUni (v : pyval)                       (* r = to_unicode v ; utf8 r *)
| IRecUni (v : pyval)                      (* recursive_unicode v *)
| IQs (v : sval) (keep strict : bool)      (* parse_qs_bytes v keep strict *)
| IQsRT (ps : list (list N * list N)) (keep strict : bool)
| IQsRaw (ps : list (list N * list N)) (keep strict : bool).
    (* like IQsRT, but only the bytes & = + % are percent-encoded; all other bytes are raw *)
    (* q = '&'.join(url_escape(k) + '=' + url_escape(v)) ; parse_qs_bytes(q as bytes) ; parse_qs_bytes(q as str) *)

(* ---------- observables ---------- *)
Definition err_tag (e : err) : obs :=
  match e with
  | EUnicodeDecode => OTag "UnicodeDecodeError"
  | EUnicodeEncode => OTag "UnicodeEncodeError"
  | EType => OTag "TypeError"
  | EValue => OTag "ValueError"
  | EOutside => OTag "OutsideModel"
  end.
Definition ostr (s : list N) : obs := OList [OTag "str"; OBytes s].
Definition obytes (b : list N) : obs := OList [OTag "bytes"; OBytes b].
Definition osval (v : sval) : obs := match v with SStr s => ostr s | SBytes b => obytes b end.
Definition ores {A} (f : A -> obs) (r : res A) : obs :=
  match r with Ok a => f a | Err e => err_tag e end.

Fixpoint opy (v : pyval) : obs :=
  match v with
  | PNone => ONone
  | PInt z => OInt z
  | PStr s => ostr s
  | PBytes b => obytes b
  | PList l => OList [OTag "list"; OList (map opy l)]
  | PTuple l => OList [OTag "tuple"; OList (map opy l)]
  | PDict l =>
      OList [OTag "dict";
             OList ((fix go (l : list (pyval * pyval)) : list obs :=
                       match l with
                       | [] => []
                       | (k, x) :: l' => OList [opy k; opy x] :: go l'
                       end) l)]
  end.

Fixpoint ojv (v : jv) : obs :=
  match v with
  | JNull => ONone
  | JBool b => OBool b
  | JInt z => OInt z
  | JStr s => ostr s
  | JArr l => OList [OTag "list"; OList (map ojv l)]
  | JObj l =>
      OList [OTag "dict";
             OList ((fix go (l : list (list N * jv)) : list obs :=
                       match l with
                       | [] => []
                       | (k, x) :: l' => OList [OBytes k; ojv x] :: go l'
                       end) l)]
  end.
Definition ojres (r : jres) : obs :=
  match r with
  | JOk v => ojv v
  | JErr => OTag "ValueError"
  | JOutside => OTag "OutsideModel"
  | JFuel => OTag "OutOfFuel"
  end.

(* JSON values for which the decode round trip is claimed: strings and keys hold
   Unicode scalar values (no surrogates), keys of an object are distinct *)
Fixpoint nodupb (l : list (list N)) : bool :=
  match l with
  | [] => true
  | k :: t => negb (existsb (list_N_eqb k) t) && nodupb t
  end.
Fixpoint jv_okb (v : jv) : bool :=
  match v with
  | JStr s => forallb is_scalar s
  | JArr l => forallb jv_okb l
  | JObj l =>
      nodupb (map fst l) &&
      (fix go (l : list (list N * jv)) : bool :=
         match l with
         | [] => true
         | (k, x) :: l' => forallb is_scalar k && jv_okb x && go l'
         end) l
  | _ => true
  end.

Definition oqs (d : list (list N * list (list N))) : obs :=
  OList (map (fun kv => OList [OBytes (fst kv); OList (map OBytes (snd kv))]) d).

(* ---------- the model's observable ---------- *)
Definition run_case (i : c21_in) : obs :=
  match i with
  | IHtml v =>
      match xhtml_escape v with
      | Ok e => OList [ostr e; ores ostr (xhtml_unescape (SStr e))]
      | Err x => OList [err_tag x]
      end
  | IHtmlUn v => ores ostr (xhtml_unescape v)
  | IUrl v plus =>
      match url_escape v plus with
      | Ok e => OList [ostr e; ores osval (url_unescape (SStr e) EncUtf8 plus);
                       ores osval (url_unescape (SStr e) EncNone plus)]
      | Err x => OList [err_tag x]
      end
  | IUrlUn v enc plus => ores osval (url_unescape v enc plus)
  | IJson v => OList [ostr (json_encode v); ojres (json_loads (json_encode v))]
  | IJsonDec s => ojres (json_loads s)
  | IUtf8 v =>
      match py_utf8 v with
      | Ok r => OList [opy r; ores opy (py_to_unicode r)]
      | Err x => OList [err_tag x]
      end
  | IToUni v =>
      match py_to_unicode v with
      | Ok r => OList [opy r; ores opy (py_utf8 r)]
      | Err x => OList [err_tag x]
      end
  | IRecUni v => ores opy (rec_unicode v)
  | IQs v keep strict => ores oqs (parse_qs_bytes v keep strict)
  | IQsRT ps keep strict =>
      let q := encode_pairs ps in
      OList [obytes q; ores oqs (parse_qs_bytes (SBytes q) keep strict);
             ores oqs (parse_qs_bytes (SStr q) keep strict)]
  | IQsRaw ps keep strict =>
      let q := encode_pairs_with qs_escape_min ps in
      OList [obytes q; ores oqs (parse_qs_bytes (SBytes q) keep strict);
             ores oqs (parse_qs_bytes (SStr q) keep strict)]
  end.

(* ---------- the property, stated on observables ---------- *)
Fixpoint starts_with (p s : list N) : bool :=
  match p, s with
  | [], _ => true
  | a :: p', b :: s' => (a =? b) && starts_with p' s'
  | _ :: _, [] => false
  end.

(* no less-than, greater-than, double quote, apostrophe; every ampersand begins one of the five entities *)
Fixpoint html_safe (s : list N) : bool :=
  match s with
  | [] => true
  | c :: t =>
      negb ((c =? 60) || (c =? 62) || (c =? 34) || (c =? 39)) &&
      (if c =? 38 then
         starts_with ent_amp s || starts_with ent_lt s || starts_with ent_gt s ||
         starts_with ent_quot s || starts_with ent_apos s
       else true) &&
      html_safe t
  end.

Fixpoint no_lt_slash (s : list N) : bool :=
  match s with
  | [] => true
  | c :: t =>
      match t with
      | d :: _ => negb ((c =? 60) && (d =? 47)) && no_lt_slash t
      | [] => true
      end
  end.

(* characters url_escape may produce *)
Definition url_char (plus : bool) (c : N) : bool :=
  is_always_safe c || (c =? 37) || (if plus then c =? 43 else c =? 47).

Definition keep_filter (keep : bool) (ps : list (list N * list N)) : list (list N * list N) :=
  if keep then ps else filter (fun kv => negb (is_nil (snd kv))) ps.

Definition check_case (i : c21_in) (o : obs) : bool :=
  match i with
  | IHtml v =>
      match to_unicode_s v, o with
      | Ok s, OList [OList [OTag _; OBytes e]; u] => html_safe e && obs_eqb u (ostr s)
      | Err x, OList [t] => obs_eqb t (err_tag x)
      | _, _ => false
      end
  | IUrl v plus =>
      match bytes_of v, o with
      | Ok b, OList [OList [OTag _; OBytes e]; u; ub] =>
          forallb (url_char plus) e && obs_eqb ub (obytes b) &&
          match to_unicode_s v with Ok s => obs_eqb u (ostr s) | Err _ => true end
      | Err x, OList [t] => obs_eqb t (err_tag x)
      | _, _ => false
      end
  | IJson v =>
      match o with
      | OList [OList [OTag _; OBytes e]; d] =>
          no_lt_slash e && (if jv_okb v then obs_eqb d (ojv v) else true)
      | _ => false
      end
  | IUtf8 v =>
      match v, o with
      | PStr s, OList [r; u] => obs_eqb u (opy (PStr s))      (* to_unicode (utf8 s) = s *)
      | PStr s, OList [t] => obs_eqb t (OTag "UnicodeEncodeError") && negb (forallb is_scalar s)
      | PBytes _, OList [r; _] => obs_eqb r (opy v)
      | PNone, OList [r; u] => obs_eqb r ONone && obs_eqb u ONone
      | _, OList [t] => obs_eqb t (OTag "TypeError")
      | _, _ => false
      end
  | IToUni v =>
      match v, o with
      | PBytes b, OList [r; u] => obs_eqb u (opy (PBytes b))  (* utf8 (to_unicode b) = b *)
      | PBytes b, OList [t] => obs_eqb t (OTag "UnicodeDecodeError")
      | PStr _, OList [r; _] => obs_eqb r (opy v)
      | PNone, OList [r; u] => obs_eqb r ONone && obs_eqb u ONone
      | _, OList [t] => obs_eqb t (OTag "TypeError")
      | _, _ => false
      end
  | IQsRT ps keep strict =>
      match o with
      | OList [_; rb; rs] =>
          let want := oqs (group_pairs (keep_filter keep ps)) in
          obs_eqb rb want && obs_eqb rs want
      | _ => false
      end
  | IQsRaw ps keep strict =>
      match o with
      | OList [_; rb; rs] =>
          let want := oqs (group_pairs (keep_filter keep ps)) in
          obs_eqb rb want && obs_eqb rs want
      | _ => false
      end
  | _ => true
  end.
