(* C21 — proofs, part 5: json_decode (json_encode v) = v at the level of
   json_loads / json_encode, and the model satisfies the checker. *)
From Coq Require Import List ZArith NArith Bool Lia.
Import ListNotations.
From TV Require Import Lib.Obs Lib.C21_Utf8 Lib.C21_Pct C21.Model C21.Run C21.Proofs C21.Proofs2 C21.Proofs3 C21.Proofs4 C21.Proofs7.
Local Open Scope N_scope.

(* the fuel json_loads supplies is enough *)
Lemma join_len l : Forall (fun x => (jsize x <= length (json_dumps x))%nat) l ->
  (asize l <= length (join_sep [44; 32]%N (map json_dumps l)) + 1)%nat.
Proof.
  induction 1 as [|x l Hx HF IH]; [cbn; lia|].
  destruct l as [|y l].
  - cbn [map join_sep asize]. lia.
  - cbn [map]. rewrite join_sep_cons2. rewrite !app_length. cbn [length asize] in *. cbn [map] in IH. lia.
Qed.

Lemma ojoin_len l : Forall (fun kv => (jsize (snd kv) <= length (json_dumps (snd kv)))%nat) l ->
  (osize l <= length (join_sep [44; 32]%N (oitems l)) + 1)%nat.
Proof.
  induction 1 as [|[k x] l Hx HF IH]; [cbn; lia|]. cbn [snd] in Hx.
  destruct l as [|[k' x'] l].
  - cbn [oitems join_sep osize snd]. rewrite !app_length. lia.
  - cbn [oitems]. rewrite join_sep_cons2. rewrite !app_length. cbn [length osize snd] in *. cbn [oitems] in IH. lia.
Qed.

Lemma jsize_le_len v : (jsize v <= length (json_dumps v))%nat.
Proof.
  induction v using jv_ind2.
  - cbn. lia.
  - destruct b; cbn; lia.
  - cbn [jsize json_dumps]. destruct (json_int_clean z) as [_ Hn]. destruct (json_int z); [congruence|cbn [length]; lia].
  - cbn [jsize json_dumps json_str length]. lia.
  - rewrite jsize_arr. cbn [json_dumps length]. rewrite app_length. cbn [length]. assert (Hj := join_len l H). lia.
  - rewrite jsize_obj, dumps_obj. cbn [length]. rewrite app_length. cbn [length]. assert (Hj := ojoin_len l H). lia.
Qed.

(* json_decode (json_encode v) = v for every JSON value whose strings and keys
   are surrogate-free and whose objects have distinct keys *)
Lemma json_roundtrip v : jv_okb v = true -> json_loads (json_encode v) = JOk v.
Proof.
  intros Hok. unfold json_loads, json_encode. rewrite replace_eq_go.
  destruct (go_dumps_head v []) as (c & t & Ec & Hws & _ & _ & Hbom). rewrite app_nil_r in Ec.
  assert (Hrt := RT_all v Hok (S (S (length (esc_go false (json_dumps v)) + length (esc_go false (json_dumps v))))) []).
  rewrite app_nil_r in Hrt.
  assert (Hs : starts_char 65279 (esc_go false (json_dumps v)) = false).
  { rewrite Ec. cbn [starts_char]. apply N.eqb_neq. exact Hbom. }
  assert (Hw : skipws (esc_go false (json_dumps v)) = esc_go false (json_dumps v)).
  { rewrite Ec. apply skipws_head. exact Hws. }
  rewrite Hs, Hw.
  rewrite Hrt; [reflexivity| |exact I].
  assert (H1 := jsize_le_len v). assert (H2 := length_esc_go (json_dumps v) false). lia.
Qed.

Lemma check_json v : check_case (IJson v) (run_case (IJson v)) = true.
Proof.
  cbn [check_case run_case ostr]. unfold json_encode at 1. rewrite replace_lt_slash_clean. cbn [andb].
  destruct (jv_okb v) eqn:E; [|reflexivity]. rewrite json_roundtrip by exact E. apply obs_eqb_refl.
Qed.

Lemma model_satisfies_checker i : wf_in i -> check_case i (run_case i) = true.
Proof.
  destruct i; intros Hwf; try reflexivity.
  - apply check_html.
  - apply check_url. exact Hwf.
  - apply check_json.
  - apply check_utf8.
  - apply check_touni.
  - apply check_qsrt. exact Hwf.
  - apply check_qsraw. exact Hwf.
Qed.
