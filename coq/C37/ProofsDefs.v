(* C37 proofs, part 2: invariants of the loop/futures/multi layer and their preservation by the
   primitive operations and by multi_future's creation and callback. *)
From Coq Require Import List ZArith Bool String Arith Lia.
Import ListNotations.
From TV Require Import Lib.Obs C37.Model C37.ProofsBase.
Local Open Scope nat_scope.
Local Open Scope list_scope.

Implicit Types S : cb -> Prop.
Implicit Types ex : nat -> Prop.
Implicit Types w : world.

(* [rin S w c]: callback c is in the ready queue, or it is the callback S that has just been popped *)
Definition rin (S : cb -> Prop) (w : world) (c : cb) : Prop := S c \/ In c (w_ready w).

Definition notmulti (c : cb) : Prop := match c with CbMulti _ => False | _ => True end.

Definition waits_multi (S : cb -> Prop) (w : world) (l : list nat) (d : bool) (c : cb) : Prop :=
  exists m, w_multi w = Some m /\ m_children m = l /\ m_dict m = d /\
            (m_res m = None -> m_cbs m = [c]) /\ (m_res m <> None -> rin S w c).

(* the agent whose wake-up callback is c is suspended at `yield y`: it will be woken *)
Definition waits_ok (S : cb -> Prop) (y : yexp) (c : cb) (w : world) : Prop :=
  match y with
  | YMoment | YNone => rin S w c
  | YFut i => (lookup i (w_env w) = None -> In (i, c) (w_fcbs w)) /\
              (lookup i (w_env w) <> None -> rin S w c)
  | YList l => waits_multi S w l false c
  | YDict l => waits_multi S w l true c
  end.

(* invariant of the live multi future; [ex] = children whose registration is still to come *)
Definition MIr (S : cb -> Prop) (ex : nat -> Prop) (w : world) : Prop :=
  match w_multi w with
  | None => True
  | Some m =>
      Forall notmulti (m_cbs m) /\
      match m_res m with
      | Some o => multi_out (w_env w) (m_children m) (m_dict m) = Some o
      | None =>
          m_unf m <> [] /\
          (forall c, In c (m_unf m) -> In c (m_children m)) /\
          (forall c, In c (m_children m) -> In c (m_unf m) \/ lookup c (w_env w) <> None) /\
          (forall c, In c (m_unf m) ->
                     ex c \/ ((lookup c (w_env w) = None -> In (c, CbMulti c) (w_fcbs w)) /\
                              (lookup c (w_env w) <> None -> rin S w (CbMulti c))))
      end
  end.
Definition MI S w := MIr S (fun _ => False) w.

Definition R1 (w : world) : Prop := forall c, In (CbMulti c) (w_ready w) -> lookup c (w_env w) <> None.
Definition R2 (w : world) : Prop := forall i c, In (i, CbMulti c) (w_fcbs w) -> i = c.

(* ---------- frames ---------- *)
(* w' differs from w only by more ready / registered callbacks and possibly trace, multi, spur *)
Record wle (w w' : world) : Prop := {
  wle_env : w_env w' = w_env w;
  wle_ready : incl (w_ready w) (w_ready w');
  wle_fcbs : incl (w_fcbs w) (w_fcbs w');
  wle_rst : w_rst w' = w_rst w;
  wle_dres : w_dres w' = w_dres w;
  wle_tst : w_tst w' = w_tst w;
  wle_tres : w_tres w' = w_tres w;
  wle_tcbs : w_tcbs w' = w_tcbs w
}.

Lemma wle_refl w : wle w w.
Proof. constructor; auto using incl_refl. Qed.

Lemma wle_trans a b c : wle a b -> wle b c -> wle a c.
Proof.
  intros [] []; constructor; try congruence; eauto using incl_tran.
Qed.

Lemma wle_log m w : wle w (log m w).
Proof. constructor; simpl; auto using incl_refl. Qed.
Lemma wle_push c w : wle w (push c w).
Proof. constructor; simpl; auto using incl_refl, incl_appl. Qed.
Lemma wle_pushes cs w : wle w (pushes cs w).
Proof. constructor; simpl; auto using incl_refl, incl_appl. Qed.
Lemma wle_register i c w : wle w (register i c w).
Proof. constructor; simpl; auto using incl_refl, incl_appl. Qed.
Lemma wle_set_multi x w : wle w (set_multi x w).
Proof. constructor; simpl; auto using incl_refl. Qed.
Lemma wle_set_spur w : wle w (set_spur w).
Proof. constructor; simpl; auto using incl_refl. Qed.
Lemma wle_m_set_cbs cs w : wle w (m_set_cbs cs w).
Proof. unfold m_set_cbs; destruct (w_multi w); [apply wle_set_multi|apply wle_refl]. Qed.

Lemma rin_wle S S' w w' c : (S c -> S' c) -> incl (w_ready w) (w_ready w') -> rin S w c -> rin S' w' c.
Proof. intros HS Hi [H|H]; [left; auto|right; auto]. Qed.

(* waits on a future / moment survive anything that only adds callbacks *)
Lemma waits_ok_wle S S' y c w w' :
  (S c -> S' c) -> wle w w' -> w_multi w' = w_multi w -> waits_ok S y c w -> waits_ok S' y c w'.
Proof.
  intros HS Hle Hm H. destruct Hle as [He Hr Hf _ _ _ _ _].
  destruct y; simpl in *.
  - rewrite He. destruct H as [H1 H2]. split; intros Hx; [apply Hf; auto|eapply rin_wle; eauto].
  - destruct H as [m [Hw H]]. exists m. rewrite Hm. split; [exact Hw|].
    destruct H as [H1 [H2 [H3 H4]]]. repeat split; auto. intros Hx. eapply rin_wle; eauto.
  - destruct H as [m [Hw H]]. exists m. rewrite Hm. split; [exact Hw|].
    destruct H as [H1 [H2 [H3 H4]]]. repeat split; auto. intros Hx. eapply rin_wle; eauto.
  - eapply rin_wle; eauto.
  - eapply rin_wle; eauto.
Qed.

Lemma waits_ok_nomulti S S' y c w w' :
  (S c -> S' c) -> wle w w' ->
  match y with YList _ | YDict _ => False | _ => True end ->
  waits_ok S y c w -> waits_ok S' y c w'.
Proof.
  intros HS Hle Hy H. destruct Hle as [He Hr Hf _ _ _ _ _].
  destruct y; simpl in *; try contradiction.
  - rewrite He. destruct H as [H1 H2]. split; intros Hx; [apply Hf; auto|eapply rin_wle; eauto].
  - eapply rin_wle; eauto.
  - eapply rin_wle; eauto.
Qed.

Lemma MIr_wle S S' ex ex' w w' :
  (forall x, S (CbMulti x) -> S' (CbMulti x)) -> (forall x, ex x -> ex' x) ->
  wle w w' -> w_multi w' = w_multi w -> MIr S ex w -> MIr S' ex' w'.
Proof.
  intros HS Hex Hle Hm H. destruct Hle as [He Hr Hf _ _ _ _ _].
  unfold MIr in *. rewrite Hm. destruct (w_multi w) as [m|]; [|exact I].
  destruct H as [Hc H]. split; [exact Hc|].
  rewrite He. destruct (m_res m); [exact H|].
  destruct H as [H1 [H2 [H3 H4]]]. repeat split; auto.
  intros c Hc'. destruct (H4 c Hc') as [Hx|[Ha Hb]]; [left; auto|right].
  split; intros Hy; [apply Hf; auto|apply (rin_wle S S' w w'); auto].
Qed.

Lemma R1_wle_same w w' : w_env w' = w_env w -> w_ready w' = w_ready w -> R1 w -> R1 w'.
Proof. unfold R1; intros He Hr H c; rewrite He, Hr; auto. Qed.

Lemma R1_push c w : notmulti c -> R1 w -> R1 (push c w).
Proof.
  unfold R1; simpl; intros Hn H x Hx. apply in_app_or in Hx. destruct Hx as [Hx|[Hx|[]]]; auto.
  subst c; contradiction.
Qed.

Lemma R1_pushes cs w : Forall notmulti cs -> R1 w -> R1 (pushes cs w).
Proof.
  unfold R1; simpl; intros Hn H x Hx. apply in_app_or in Hx. destruct Hx as [Hx|Hx]; auto.
  rewrite Forall_forall in Hn. apply Hn in Hx. contradiction.
Qed.

Lemma R2_register i c w : (forall x, c = CbMulti x -> i = x) -> R2 w -> R2 (register i c w).
Proof.
  unfold R2; simpl; intros Hn H j x Hx. apply in_app_or in Hx. destruct Hx as [Hx|[Hx|[]]]; eauto.
  inversion Hx; subst. auto.
Qed.

Lemma R2_same w w' : w_fcbs w' = w_fcbs w -> R2 w -> R2 w'.
Proof. unfold R2; intros Hf H; rewrite Hf; auto. Qed.

