(* C37 proofs, part 15: the context variable survives every kind of suspension of the decorated
   coroutine (pending futures, lists, moments, nested coroutines): what was set is what is read. *)
From Coq Require Import List ZArith Bool String Arith Lia.
Import ListNotations.
From TV Require Import Lib.Obs C37.Model C37.Run C37.ProofsBase C37.ProofsMain C37.ProofsCtx.
Local Open Scope nat_scope.
Local Open Scope list_scope.

(* no unbalanced write of V (SWithVar restores; a nested coroutine works on a copy) *)
Fixpoint novarw (s : stmt) : bool :=
  match s with
  | SVarSet _ => false
  | SSeq a b => novarw a && novarw b
  | STryExcept b _ h => novarw b && novarw h
  | STryFinally b f => novarw b && novarw f
  | _ => true
  end.

Lemma store_preserved E q : novarw q = true -> forall v k tr,
  ref E (denote q v k) tr = ref E (denote q v (fun c _ => k c v)) tr.
Proof.
  induction q as [|n|y|b IHb|n|e|a IHa b IHb|b IHb p h IHh|b IHb f IHf|n| |n b IHb];
    simpl; intros Hn v k tr; auto; try discriminate.
  - apply andb_true_iff in Hn. destruct Hn as [Ha Hb].
    etransitivity; [apply (IHa Ha)|]. symmetry. etransitivity; [apply (IHa Ha)|]. symmetry.
    apply denote_cong. intros [| |e] v' tr'; cbn beta; auto.
  - apply andb_true_iff in Hn. destruct Hn as [Hb Hh].
    etransitivity; [apply (IHb Hb)|]. symmetry. etransitivity; [apply (IHb Hb)|]. symmetry.
    apply denote_cong. intros [| |e] v' tr'; cbn beta; auto. destruct (matches p e); simpl; auto.
  - apply andb_true_iff in Hn. destruct Hn as [Hb Hf].
    etransitivity; [apply (IHb Hb)|]. symmetry. etransitivity; [apply (IHb Hb)|]. symmetry.
    apply denote_cong. intros c v' tr'. cbn beta.
    etransitivity; [apply (IHf Hf)|]. symmetry. etransitivity; [apply (IHf Hf)|]. symmetry.
    apply denote_cong. intros [| |e] v'' tr''; cbn beta; auto.
Qed.

Definition set_then_read (n : nat) (q : stmt) : stmt := SSeq (SVarSet n) (SSeq q SVarGet).
Definition set_then_known (n : nat) (q : stmt) : stmt := SSeq (SVarSet n) (SSeq q (SWithVar n SVarGet)).

Lemma set_read_ref E n q : novarw q = true ->
  ref E (body (set_then_read n q)) [] = ref E (body (set_then_known n q)) [].
Proof.
  intros Hn. unfold body, set_then_read, set_then_known. simpl.
  etransitivity; [apply (store_preserved E q Hn)|]. symmetry. etransitivity; [apply (store_preserved E q Hn)|]. symmetry.
  apply denote_cong. intros [| |e] v' tr'; reflexivity.
Qed.

(* V.set(n); q; R()  reads n in the decorated form, whatever q awaits and however it is scheduled *)
Theorem context_value_survives n q pre s :
  novarw q = true ->
  let w1 := run (start_dec (set_then_read n q) (mkenv pre [])) s in
  let w2 := run (start_dec (set_then_known n q) (mkenv pre [])) s in
  w_ready w1 = [] -> w_ready w2 = [] ->
  status_of w1 = status_of w2 /\ w_trace w1 = w_trace w2.
Proof.
  intros Hn w1 w2 Q1 Q2.
  pose proof (dec_is_reference _ pre s Q1) as A. pose proof (dec_is_reference _ pre s Q2) as B.
  fold w1 in A. fold w2 in B. rewrite (set_read_ref _ n q Hn) in A. rewrite A in B. inversion B.
  split; [apply rres_of_inj; assumption|reflexivity].
Qed.
