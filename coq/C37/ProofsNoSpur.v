(* C37 proofs, part 9: the model never leaves its domain.  The branches in which the real code would
   do something the model does not describe (Task.__wakeup on a future that is not done ->
   InvalidStateError thrown into the coroutine; multi's gathering loop meeting a child that is not
   done) set [w_spur]; they are unreachable.  Argument: the task's wake-up callback is a linear
   token (at most one copy among ready queue / future callbacks / multi callbacks, none when the
   task is not alive), and the multi invariant of ProofsMulti. *)
From Coq Require Import List ZArith Bool String Arith Lia.
Import ListNotations.
From TV Require Import Lib.Obs C37.Model C37.ProofsBase C37.ProofsDefs C37.ProofsMulti C37.ProofsAgents
  C37.ProofsRunner C37.ProofsSteps C37.ProofsMain.
Local Open Scope nat_scope.
Local Open Scope list_scope.

Implicit Types S : cb -> Prop.
Implicit Types w : world.

Definition is_task (c : cb) : bool := match c with CbTask => true | _ => false end.
Definition cnt (l : list cb) : nat := List.length (filter is_task l).
Definition cntf (l : list (nat * cb)) : nat := cnt (map snd l).
Definition mcbs w : list cb := match w_multi w with Some m => m_cbs m | None => [] end.
Definition NT w : nat := cnt (w_ready w) + cntf (w_fcbs w) + cnt (mcbs w).
Definition act w : nat := match w_tst w with TStart _ | TBlocked _ => 1 | _ => 0 end.

Record NS w : Prop := {
  ns_spur : w_spur w = false;
  ns_nt : NT w <= act w;
  ns_tcbs : cnt (w_tcbs w) = 0
}.

Lemma cnt_app a b : cnt (a ++ b) = cnt a + cnt b.
Proof. unfold cnt. rewrite filter_app, app_length. reflexivity. Qed.

Lemma cntf_app a b : cntf (a ++ b) = cntf a + cntf b.
Proof. unfold cntf. rewrite map_app, cnt_app. reflexivity. Qed.

Lemma cnt_in l : In CbTask l -> 1 <= cnt l.
Proof.
  induction l as [|c l IH]; intros H; [contradiction|]. unfold cnt in *. simpl.
  destruct H as [->|H]; simpl; [lia|]. specialize (IH H). destruct (is_task c); simpl; lia.
Qed.

Lemma cntf_in i l : In (i, CbTask) l -> 1 <= cntf l.
Proof. intros H. apply cnt_in. apply in_map_iff. exists (i, CbTask). auto. Qed.

Lemma cntf_partition (p : nat * cb -> bool) l :
  cntf (filter p l) + cntf (filter (fun x => negb (p x)) l) = cntf l.
Proof.
  induction l as [|x l IH]; [reflexivity|]. simpl.
  destruct (p x); simpl; unfold cntf, cnt in *; simpl; destruct (is_task (snd x)); simpl; lia.
Qed.

(* ---------- multi ---------- *)
Lemma m_callback_NT c w : NT (m_callback c w) = NT w.
Proof.
  unfold m_callback, NT, mcbs. destruct (w_multi w) as [m|] eqn:Hw; [|rewrite Hw; reflexivity].
  destruct (mem c (m_unf m)); [|rewrite Hw; reflexivity].
  destruct (rm c (m_unf m)).
  - unfold m_resolve. cbn [m_children m_dict m_cbs]. destruct (multi_out _ _ _).
    + unfold pushes, set_multi, set_ready. cbn [w_ready w_fcbs w_multi m_cbs].
      rewrite cnt_app. change (cnt (@nil cb)) with 0. lia.
    + unfold set_spur. cbn [w_ready w_fcbs w_multi]. rewrite Hw. reflexivity.
  - unfold set_multi. cbn [w_ready w_fcbs w_multi m_cbs]. reflexivity.
Qed.

Lemma m_callback_spur S ex c w :
  MIr S ex w -> lookup c (w_env w) <> None -> w_spur (m_callback c w) = w_spur w.
Proof.
  intros HM Hd. unfold m_callback, MIr in *.
  destruct (w_multi w) as [m|] eqn:Hw; [|reflexivity].
  destruct HM as [Hcb HM].
  destruct (mem c (m_unf m)) eqn:Hmem; [|reflexivity].
  destruct (rm c (m_unf m)) as [|u0 u] eqn:Hrm; [|reflexivity].
  assert (Hex : exists o, multi_out (w_env w) (m_children m) (m_dict m) = Some o).
  { destruct (m_res m) as [o0|]; [eauto|].
    destruct HM as [H1 [H2 [H3 H4]]].
    apply multi_out_all_done. intros x Hx. destruct (H3 x Hx) as [Hu|Hdn]; auto.
    rewrite (rm_nil_all _ _ _ Hrm Hu). exact Hd. }
  destruct Hex as [o Ho]. unfold m_resolve. cbn [m_children m_dict m_cbs]. rewrite Ho. reflexivity.
Qed.

Lemma m_listen_NS S cs : forall w,
  MIr S (fun x => In x cs) w ->
  NT (m_listen cs w) = NT w /\ w_spur (m_listen cs w) = w_spur w /\
  (w_multi w <> None -> w_multi (m_listen cs w) <> None).
Proof.
  induction cs as [|c cs IH]; intros w HM; simpl; [auto|].
  destruct (lookup c (w_env w)) as [f|] eqn:Hl.
  - assert (Hd : lookup c (w_env w) <> None) by congruence.
    pose proof (m_callback_MI S S _ c w HM Hd (fun x _ H => H)) as HM'.
    assert (HM'' : MIr S (fun x => In x cs) (m_callback c w)).
    { eapply MIr_wle; [| |apply wle_refl|reflexivity|exact HM']; auto.
      simpl. intros x [[->|Hx] Hne]; [congruence|exact Hx]. }
    destruct (IH _ HM'') as [A [B C]].
    split; [rewrite A; apply m_callback_NT|].
    split; [rewrite B; eapply m_callback_spur; eauto|].
    intros Hn. apply C. unfold m_callback. destruct (w_multi w) as [m|] eqn:Hw; [|congruence].
    destruct (mem c (m_unf m)); [|rewrite Hw; discriminate].
    destruct (rm c (m_unf m)); [|discriminate].
    unfold m_resolve. destruct (multi_out _ _ _); [discriminate|]. simpl. rewrite Hw. discriminate.
  - assert (HM' : MIr S (fun x => In x cs) (register c (CbMulti c) w)).
    { unfold MIr in *. simpl. destruct (w_multi w) as [m|]; [|exact I].
      destruct HM as [Hc HM]. split; [exact Hc|]. destruct (m_res m); [exact HM|].
      destruct HM as [A [B [C D]]]. repeat split; auto.
      intros x Hx. destruct (D x Hx) as [[->|Hin]|[Ha Hb]].
      - right. split; [intros _; apply in_or_app; right; left; reflexivity|intros Hy; congruence].
      - left; exact Hin.
      - right. split; [intros Hy; apply in_or_app; left; auto|exact Hb]. }
    destruct (IH _ HM') as [A [B C]].
    split; [rewrite A; unfold NT, mcbs; simpl; rewrite cntf_app; unfold cntf at 2, cnt; simpl; lia|].
    split; [rewrite B; reflexivity|]. exact C.
Qed.

Lemma m_create_NS l d w :
  NT (m_create l d w) <= NT w /\ w_spur (m_create l d w) = w_spur w /\ w_multi (m_create l d w) <> None.
Proof.
  unfold m_create. set (w1 := set_multi _ w).
  assert (HM : MIr F (fun x => In x (dedup [] l)) w1).
  { unfold MIr, w1; simpl. split; [constructor|].
    destruct l as [|c0 l0] eqn:Hl.
    - destruct d; reflexivity.
    - rewrite <- Hl. split.
      + intros Hn. apply dedup_nil_inv in Hn. congruence.
      + split; [intros c Hc; apply dedup_In in Hc; tauto|].
        split; [intros c Hc; left; apply dedup_In; auto|].
        intros c Hc; left; exact Hc. }
  destruct (m_listen_NS F (dedup [] l) w1 HM) as [A [B C]].
  split; [rewrite A; unfold NT, mcbs, w1, set_multi; cbn [w_ready w_fcbs w_multi m_cbs];
          change (cnt (@nil cb)) with 0; lia|].
  split; [rewrite B; reflexivity|]. apply C. unfold w1; simpl. discriminate.
Qed.

Lemma m_set_cbs_NT cs w :
  w_multi w <> None -> NT (m_set_cbs cs w) = cnt (w_ready w) + cntf (w_fcbs w) + cnt cs.
Proof.
  intros H. unfold m_set_cbs, NT, mcbs. destruct (w_multi w); [|congruence]. reflexivity.
Qed.

(* after multi(): the token count of the agent that called it *)
Lemma multi_NS l d c w :
  NT w = 0 ->
  let w1 := m_create l d w in
  NT w1 = 0 /\ w_spur w1 = w_spur w /\
  NT (m_set_cbs [c] w1) = cnt [c] /\ w_spur (m_set_cbs [c] w1) = w_spur w.
Proof.
  intros H0. destruct (m_create_NS l d w) as [A [B C]]. cbn zeta.
  assert (H1 : NT (m_create l d w) = 0) by lia.
  split; [exact H1|]. split; [exact B|].
  split.
  - rewrite m_set_cbs_NT; [|exact C]. unfold NT in H1. lia.
  - unfold m_set_cbs. destruct (w_multi (m_create l d w)); exact B.
Qed.

(* ---------- the task ---------- *)
Definition tok (r : tres) : nat := match r with TFin _ => 0 | TBlk _ => 1 end.

Lemma tadv_NS t : forall w w' r,
  tadv t w = (w', r) -> NT w = 0 -> NT w' = tok r /\ w_spur w' = w_spur w.
Proof.
  induction t as [o|m t IH|y k IH|b IHb k IHk]; intros w w' r Hrun H0; simpl in Hrun.
  - inversion Hrun; subst. auto.
  - apply (IH (log m w)); auto.
  - destruct y as [i|l|l| |].
    + destruct (lookup i (w_env w)); [eapply IH; eauto|].
      inversion Hrun; subst. split; [|reflexivity].
      unfold NT, mcbs in *. simpl. rewrite cntf_app. unfold cntf at 2, cnt at 2. simpl. lia.
    + destruct (multi_NS l false CbTask w H0) as [A [B [C D]]].
      destruct (m_result (m_create l false w)).
      * destruct (IH _ _ _ _ Hrun A) as [X Y]. split; [exact X|congruence].
      * inversion Hrun; subst. split; [exact C|exact D].
    + destruct (multi_NS l true CbTask w H0) as [A [B [C D]]].
      destruct (m_result (m_create l true w)).
      * destruct (IH _ _ _ _ Hrun A) as [X Y]. split; [exact X|congruence].
      * inversion Hrun; subst. split; [exact C|exact D].
    + inversion Hrun; subst. split; [|reflexivity].
      unfold NT, mcbs in *. simpl. rewrite cnt_app. unfold cnt at 2. simpl. lia.
    + inversion Hrun; subst. split; [|reflexivity].
      unfold NT, mcbs in *. simpl. rewrite cnt_app. unfold cnt at 2. simpl. lia.
  - destruct (tadv b w) as [w1 r1] eqn:Hb. destruct (IHb _ _ _ Hb H0) as [A B].
    destruct r1 as [o|b'].
    + destruct (IHk _ _ _ _ Hrun A) as [X Y]. split; [exact X|congruence].
    + inversion Hrun; subst. split; [exact A|exact B].
Qed.

(* with no token left anywhere, the future the task waits for must be done *)
Lemma wake_some S y w : waits_ok S y CbTask w -> NT w = 0 -> wake_outcome y w <> None.
Proof.
  intros Hw H0.
  assert (Hg : forall l d, waits_multi S w l d CbTask -> m_result w <> None).
  { intros l d [m [Hm [_ [_ [Ha _]]]]]. unfold m_result. rewrite Hm. intros Hn.
    specialize (Ha Hn). unfold NT, mcbs in H0. rewrite Hm, Ha in H0.
    change (cnt [CbTask]) with 1 in H0. lia. }
  destruct y as [i|l|l| |]; simpl in *; eauto; try discriminate.
  destruct Hw as [Ha _]. unfold child_out. destruct (lookup i (w_env w)); [discriminate|].
  pose proof (cntf_in _ _ (Ha eq_refl)). unfold NT in H0. lia.
Qed.

Lemma tresume_NS S t : forall w w' r y,
  tresume t w = (w', r) -> lm t = Some y -> waits_ok S y CbTask w -> NT w = 0 ->
  NT w' = tok r /\ w_spur w' = w_spur w.
Proof.
  induction t as [o|m t IH|y0 k IH|b IHb k IHk]; intros w w' r y Hrun Hlm Hw H0;
    simpl in Hrun, Hlm; try discriminate.
  - inversion Hlm; subst y0.
    destruct (wake_outcome y w) as [o|] eqn:Ho; [|exfalso; eapply wake_some; eauto].
    eapply tadv_NS; eauto.
  - destruct (tresume b w) as [w1 r1] eqn:Hb.
    destruct (IHb _ _ _ _ Hb Hlm Hw H0) as [A B].
    destruct r1 as [o|b'].
    + destruct (tadv_NS _ _ _ _ Hrun A) as [X Y]. split; [exact X|congruence].
    + inversion Hrun; subst. split; [exact A|exact B].
Qed.

(* ---------- the runner ---------- *)
Lemma m_listen_wle cs : forall w, wle w (m_listen cs w).
Proof.
  induction cs as [|c cs IH]; intros w; simpl; [apply wle_refl|].
  destruct (lookup c (w_env w)).
  - eapply wle_trans; [apply m_callback_wle|apply IH].
  - eapply wle_trans; [apply wle_register|apply IH].
Qed.

Lemma m_create_wle l d w : wle w (m_create l d w).
Proof. unfold m_create. eapply wle_trans; [apply wle_set_multi|apply m_listen_wle]. Qed.

Definition rpost w w' : Prop := w_spur w' = w_spur w /\ NT w' <= act w' /\ cnt (w_tcbs w') = 0.

Lemma rrun_multi_NS l d (k : outcome -> itree) w :
  (forall o w, NT w = 0 -> act w = 0 -> cnt (w_tcbs w) = 0 -> rpost w (rrun (k o) w)) ->
  NT w = 0 -> act w = 0 -> cnt (w_tcbs w) = 0 ->
  rpost w (match m_result (m_create l d w) with
           | Some o => rrun (k o) (m_create l d w)
           | None => set_rst (RWait RfMulti k) (m_set_cbs [CbRunner] (m_create l d w))
           end).
Proof.
  intros IH H0 Ha Hc.
  destruct (multi_NS l d CbRunner w H0) as [A [B [C D]]].
  pose proof (m_create_wle l d w) as Hle.
  assert (Ha1 : act (m_create l d w) = 0) by (unfold act in *; rewrite (wle_tst _ _ Hle); exact Ha).
  assert (Hc1 : cnt (w_tcbs (m_create l d w)) = 0) by (rewrite (wle_tcbs _ _ Hle); exact Hc).
  destruct (m_result (m_create l d w)) as [o|].
  - destruct (IH o _ A Ha1 Hc1) as [X [Y Z]]. split; [congruence|]. split; assumption.
  - pose proof (wle_m_set_cbs [CbRunner] (m_create l d w)) as Hle2.
    split; [exact D|]. split.
    + change (NT (set_rst (RWait RfMulti k) (m_set_cbs [CbRunner] (m_create l d w))))
        with (NT (m_set_cbs [CbRunner] (m_create l d w))).
      rewrite C. unfold cnt; simpl. lia.
    + change (w_tcbs (set_rst (RWait RfMulti k) (m_set_cbs [CbRunner] (m_create l d w))))
        with (w_tcbs (m_set_cbs [CbRunner] (m_create l d w))).
      rewrite (wle_tcbs _ _ Hle2). exact Hc1.
Qed.

Lemma rrun_NS t : forall w,
  NT w = 0 -> act w = 0 -> cnt (w_tcbs w) = 0 -> rpost w (rrun t w).
Proof.
  induction t as [o|m t IH|y k IH|b IHb k IHk]; intros w H0 Ha Hc; simpl.
  - split; [reflexivity|]. split; [|exact Hc].
    unfold NT, mcbs, act in *. simpl. rewrite cnt_app. unfold cnt at 2. simpl. lia.
  - apply (IH (log m w)); auto.
  - destruct y as [i|l|l| |].
    + destruct (lookup i (w_env w)); [apply IH; auto|].
      split; [reflexivity|]. split; [|exact Hc].
      unfold NT, mcbs, act in *. simpl. rewrite cntf_app. unfold cntf at 2, cnt at 2. simpl. lia.
    + apply (rrun_multi_NS l false k w IH); assumption.
    + apply (rrun_multi_NS l true k w IH); assumption.
    + split; [reflexivity|]. split; [|exact Hc].
      unfold NT, mcbs, act in *. simpl. rewrite cnt_app. unfold cnt at 2. simpl. lia.
    + split; [reflexivity|]. split; [|exact Hc].
      unfold NT, mcbs, act in *. simpl. rewrite cnt_app. unfold cnt at 2. simpl. lia.
  - split; [reflexivity|]. split; [|reflexivity].
    unfold NT, mcbs, act in *. simpl. rewrite cnt_app. unfold cnt at 2. simpl. lia.
Qed.

Lemma rfirst_NS t : forall w,
  NT w = 0 -> act w = 0 -> cnt (w_tcbs w) = 0 -> rpost w (rfirst t w).
Proof.
  induction t as [o|m t IH|y k IH|b IHb k IHk]; intros w H0 Ha Hc.
  - simpl. split; [reflexivity|]. split; [|exact Hc]. change (NT (set_dres (DSet o) w)) with (NT w). lia.
  - simpl. apply (IH (log m w)); auto.
  - apply (rrun_NS (Yld y k)); assumption.
  - apply (rrun_NS (Call b k)); assumption.
Qed.
