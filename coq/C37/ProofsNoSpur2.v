(* C37 proofs, part 10: every event preserves the token invariant; the model never leaves its domain;
   the checker theorem without side conditions on the flag. *)
From Coq Require Import List ZArith Bool String Arith Lia.
Import ListNotations.
From TV Require Import Lib.Obs C37.Model C37.Run C37.ProofsBase C37.ProofsDefs C37.ProofsMulti C37.ProofsAgents
  C37.ProofsRunner C37.ProofsSteps C37.ProofsMain C37.ProofsCheck C37.ProofsNoSpur.
Local Open Scope nat_scope.
Local Open Scope list_scope.

Implicit Types S : cb -> Prop.
Implicit Types w : world.

Lemma NS_complete i f w : NS w -> NS (complete i f w).
Proof.
  intros [A B C]. unfold complete. destruct (lookup i (w_env w)); [constructor; auto|].
  constructor; [exact A| |exact C].
  unfold NT, mcbs, act, pushes, set_fcbs, set_env, set_ready in *.
  cbn [w_ready w_fcbs w_multi w_tst]. rewrite cnt_app.
  pose proof (cntf_partition (fun p => Nat.eqb (fst p) i) (w_fcbs w)) as H.
  unfold cntf in *. cbn beta in H. lia.
Qed.

Lemma runner_resume_inactive t0 w f k o :
  Inv (eq CbRunner) t0 w -> w_rst w = RWait f k ->
  match f with
  | RfMoment => Some (OVal ONone)
  | RfExt i => child_out (w_env w) i
  | RfMulti => m_result w
  | RfTask => w_tres w
  end = Some o ->
  ~ active (w_tst w).
Proof.
  intros [HS HM H1 H2 HT HR HD HX] Hrst Hoo.
  assert (Hdres : w_dres w = DPending).
  { unfold DI in HD. destruct (w_dres w); [destruct HD; congruence|reflexivity|destruct HD; congruence]. }
  intros Ha. destruct (HX ltac:(rewrite Hdres; discriminate) Ha) as [k' Hk'].
  rewrite Hrst in Hk'. inversion Hk'; subst f.
  unfold TI in HT. destruct (w_tst w); simpl in Ha; try contradiction; destruct HT; congruence.
Qed.

Lemma NT_pop c r w : w_ready w = c :: r ->
  NT (set_ready r w) + (if is_task c then 1 else 0) = NT w.
Proof.
  intros Hr. unfold NT, mcbs, set_ready. cbn [w_ready w_fcbs w_multi]. rewrite Hr.
  unfold cnt at 3. simpl. destruct (is_task c); simpl; unfold cnt; lia.
Qed.

Lemma settle_NS w1 w2 r :
  wle w1 w2 -> NT w2 = tok r -> w_spur w2 = false -> cnt (w_tcbs w1) = 0 -> NS (t_settle (w2, r)).
Proof.
  intros Hle Hn Hs Hc. destruct r as [o|t']; unfold t_settle.
  - constructor; [exact Hs| |reflexivity].
    unfold NT, mcbs, act, pushes, set_tcbs, set_tres, set_tst, set_ready in *.
    cbn [w_ready w_fcbs w_multi w_tst w_tcbs]. rewrite cnt_app, (wle_tcbs _ _ Hle), Hc.
    simpl in Hn. lia.
  - constructor; [exact Hs| |].
    + unfold NT, mcbs, act, set_tst in *. cbn [w_ready w_fcbs w_multi w_tst]. simpl in Hn. lia.
    + unfold set_tst. cbn [w_tcbs]. rewrite (wle_tcbs _ _ Hle). exact Hc.
Qed.

Lemma NS_tick t0 w : Inv F t0 w -> NS w -> NS (tick w).
Proof.
  intros HI [A B C]. unfold tick. destruct (w_ready w) as [|c r] eqn:Hr; [constructor; auto|].
  pose proof (pop_inv t0 c r w Hr HI) as Hp.
  pose proof (NT_pop c r w Hr) as Hpop.
  assert (Hact : act (set_ready r w) = act w) by reflexivity.
  assert (Base : NS (set_ready r w)).
  { constructor; [exact A| |exact C]. rewrite Hact. lia. }
  destruct c as [|x| |]; simpl in Hpop |- *.
  - (* Runner.run *)
    unfold runner_cb. destruct (w_rst (set_ready r w)) as [|f k|] eqn:Hrst; [exact Base| |exact Base].
    match goal with |- NS (match ?oo with _ => _ end) => destruct oo as [o|] eqn:Hoo end; [|exact Base].
    pose proof (runner_resume_inactive t0 _ f k o Hp Hrst Hoo) as Hna.
    assert (Ha0 : act (set_ready r w) = 0).
    { unfold act. destruct (w_tst (set_ready r w)); simpl in Hna; tauto. }
    destruct (rrun_NS (k o) (set_ready r w)) as [X [Y Z]]; [lia|exact Ha0|exact C|].
    constructor; [rewrite X; exact A|exact Y|exact Z].
  - (* multi callback *)
    pose proof (m_callback_wle x (set_ready r w)) as Hle.
    constructor.
    + rewrite (m_callback_spur (eq (CbMulti x)) (fun _ => False) x (set_ready r w)); [exact A|apply Hp|].
      apply (inv_r1 _ _ _ HI). rewrite Hr. left; reflexivity.
    + rewrite m_callback_NT. unfold act. rewrite (wle_tst _ _ Hle). fold (act (set_ready r w)). lia.
    + rewrite (wle_tcbs _ _ Hle). exact C.
  - (* the task's callback *)
    destruct Hp as [HS HM H1 H2 HT HR HD HX].
    assert (HMF : MI F (set_ready r w)).
    { eapply MI_gen; [| | | |exact HM]; try reflexivity; [apply incl_refl|]. intros y. apply unmark_rin; discriminate. }
    assert (H0 : NT (set_ready r w) = 0) by (unfold act in *; destruct (w_tst w); lia).
    unfold task_cb. unfold TI in HT. destruct (w_tst (set_ready r w)) as [|b|t|] eqn:Htst.
    + exact Base.
    + destruct (tadv b (set_ready r w)) as [w2 r2] eqn:Hrun.
      destruct (tadv_NS _ _ _ _ Hrun H0) as [X Y].
      destruct (tadv_ok _ _ _ _ Hrun HMF H1 H2) as [_ [_ [_ [Hle _]]]].
      apply (settle_NS (set_ready r w)); [exact Hle|exact X|rewrite Y; exact A|exact C].
    + destruct HT as [[y [Hy Hw]] _].
      destruct (tresume t (set_ready r w)) as [w2 r2] eqn:Hrun.
      destruct (tresume_NS _ _ _ _ _ _ Hrun Hy Hw H0) as [X Y].
      destruct (tresume_ok _ _ _ _ _ _ Hrun Hy Hw HMF H1 H2) as [_ [_ [_ [Hle _]]]].
      apply (settle_NS (set_ready r w)); [exact Hle|exact X|rewrite Y; exact A|exact C].
    + exact Base.
  - exact Base.
Qed.

Lemma NS_run t0 s : forall w, Inv F t0 w -> NS w -> NS (run w s).
Proof.
  unfold run. induction s as [|e s IH]; intros w HI HN; simpl; [exact HN|].
  apply IH.
  - apply step_inv; exact HI.
  - destruct e as [i f|]; simpl; [apply NS_complete; exact HN|eapply NS_tick; eauto].
Qed.

Lemma NS_start_nat p E : NS (start_nat p E).
Proof. constructor; [reflexivity| |reflexivity]. unfold NT, act, cnt, cntf, mcbs; simpl. lia. Qed.

Lemma NS_start_dec p E : NS (start_dec p E).
Proof.
  unfold start_dec.
  destruct (rfirst_NS (body p) (set_dres DPending (w0 E))) as [X [Y Z]]; try reflexivity.
  constructor; [rewrite X; reflexivity|exact Y|exact Z].
Qed.

(* The flagged branches (Task.__wakeup for a future that is not done; multi's gathering loop meeting a
   pending child) are never taken, for any program and any schedule. *)
Theorem never_spur p pre s :
  w_spur (run (start_dec p (mkenv pre [])) s) = false /\
  w_spur (run (start_nat p (mkenv pre [])) s) = false.
Proof.
  split.
  - apply (ns_spur _ (NS_run (body p) s _ (start_dec_inv p _) (NS_start_dec p _))).
  - apply (ns_spur _ (NS_run (body p) s _ (start_nat_inv p _) (NS_start_nat p _))).
Qed.

Theorem model_satisfies_checker_full p pre s fuel :
  let e := mkenv pre [] in
  quiescent (final_world (start_dec p e) s fuel) = true ->
  quiescent (final_world (start_nat p e) s fuel) = true ->
  check_case (p, pre, s, fuel) (run_case (p, pre, s, fuel)) = true.
Proof.
  intros e Qd Qn. apply model_satisfies_checker; auto; rewrite final_world_run; apply never_spur.
Qed.
