(* C37 proofs, part 5: gen.Runner.run / handle_yield and the wrapper's first iteration. *)
From Coq Require Import List ZArith Bool String Arith Lia.
Import ListNotations.
From TV Require Import Lib.Obs C37.Model C37.ProofsBase C37.ProofsDefs C37.ProofsMulti C37.ProofsAgents.
Local Open Scope nat_scope.
Local Open Scope list_scope.

Implicit Types S : cb -> Prop.
Implicit Types w : world.

Ltac wsimpl :=
  unfold r_finish, r_spawn, register, push, pushes, log, set_env, set_fcbs, set_ready, set_trace, set_multi,
         set_rst, set_dres, set_tst, set_tres, set_tcbs, set_spur in *;
  cbn [w_env w_fcbs w_ready w_trace w_multi w_rst w_dres w_tst w_tres w_tcbs w_spur] in *.

(* the part of the world the loop/future invariants talk about *)
Record fle w w' : Prop := {
  fle_env : w_env w' = w_env w;
  fle_ready : incl (w_ready w) (w_ready w');
  fle_fcbs : incl (w_fcbs w) (w_fcbs w');
  fle_multi : w_multi w' = w_multi w
}.

Lemma fle_refl w : fle w w.
Proof. constructor; auto using incl_refl. Qed.

Lemma wle_fle w w' : wle w w' -> w_multi w' = w_multi w -> fle w w'.
Proof. intros [] Hm; constructor; auto. Qed.

Lemma MI_fle S S' w w' :
  (forall x, S (CbMulti x) -> S' (CbMulti x)) -> fle w w' -> MI S w -> MI S' w'.
Proof.
  intros HS [He Hr Hf Hm] H. unfold MI, MIr in *. rewrite Hm. destruct (w_multi w) as [m|]; [|exact I].
  destruct H as [Hc H]. split; [exact Hc|].
  rewrite He. destruct (m_res m); [exact H|].
  destruct H as [H1 [H2 [H3 H4]]]. repeat split; auto.
  intros c Hc'. destruct (H4 c Hc') as [Hx|[Ha Hb]]; [left; auto|right].
  split; intros Hy; [apply Hf; auto|apply (rin_wle S S' w w'); auto].
Qed.

Lemma waits_fle S S' y c w w' :
  (S c -> S' c) -> fle w w' -> waits_ok S y c w -> waits_ok S' y c w'.
Proof.
  intros HS [He Hr Hf Hm] H.
  assert (Hg : forall l d, waits_multi S w l d c -> waits_multi S' w' l d c).
  { intros l d [m [Hw [H1 [H2 [H3 H4]]]]]. exists m. rewrite Hm. repeat split; auto.
    intros Hx. apply (rin_wle S S' w w'); auto. }
  destruct y as [i|l|l| |]; simpl in *; auto.
  - rewrite He. destruct H as [H1 H2].
    split; intros Hx; [apply Hf; auto|apply (rin_wle S S' w w'); auto].
  - apply (rin_wle S S' w w'); auto.
  - apply (rin_wle S S' w w'); auto.
Qed.

Lemma R1_fle w w' : w_env w' = w_env w -> w_ready w' = w_ready w -> R1 w -> R1 w'.
Proof. apply R1_wle_same. Qed.

Lemma TI_inactive S S' w w' :
  ~ active (w_tst w) -> w_tst w' = w_tst w -> w_tres w' = w_tres w -> TI S w -> TI S' w'.
Proof.
  unfold TI; intros Ha Ht Hr H. rewrite Ht, Hr. destruct (w_tst w); simpl in Ha; auto; tauto.
Qed.

(* ---------- Runner.run ---------- *)
Definition runner_post (t : itree) w w' : Prop :=
  MI F w' /\ R1 w' /\ R2 w' /\ TI F w' /\ RI F w' /\ DI w' /\ XI w' /\ w_env w' = w_env w /\
  exists t', resid w' = Some t' /\
             forall E, ext (w_env w) E -> ref E t (w_trace w) = ref E t' (w_trace w').

Definition runner_pre w : Prop :=
  MI F w /\ R1 w /\ R2 w /\ TI F w /\ ~ active (w_tst w) /\ w_dres w = DPending.

Lemma runner_pre_wle w w1 :
  runner_pre w -> wle w w1 -> MI F w1 -> R1 w1 -> R2 w1 -> runner_pre w1.
Proof.
  intros [_ [_ [_ [T [Ha Hd]]]]] Hle A B C.
  split; [exact A|]. split; [exact B|]. split; [exact C|].
  split; [eapply TI_inactive; [exact Ha|apply Hle|apply Hle|exact T]|].
  split; [rewrite (wle_tst _ _ Hle); exact Ha|rewrite (wle_dres _ _ Hle); exact Hd].
Qed.

Lemma runner_post_frame t t2 w w1 w' :
  w_env w1 = w_env w ->
  (forall E, ext (w_env w) E -> ref E t (w_trace w) = ref E t2 (w_trace w1)) ->
  runner_post t2 w1 w' -> runner_post t w w'.
Proof.
  intros He Hr [A [B [C [D [G [H [X [He' [t' [Hres P]]]]]]]]]].
  repeat (split; [assumption|]). split; [congruence|].
  exists t'. split; [exact Hres|]. intros E HE. rewrite (Hr E HE). apply P. rewrite He. exact HE.
Qed.

Lemma rrun_ok t : forall w, runner_pre w -> runner_post t w (rrun t w).
Proof.
  induction t as [o|m t IH|y k IH|b IHb k IHk]; intros w Hpre; simpl.
  - (* the generator finished *)
    destruct Hpre as [HM [H1 [H2 [T [Ha Hd]]]]]. unfold r_finish.
    split; [eapply MI_fle; [|constructor|exact HM]; simpl; auto using incl_refl, incl_appl|].
    split; [apply R1_push; [exact I|]; eapply R1_fle; [| |exact H1]; reflexivity|].
    split; [eapply R2_same; [|exact H2]; reflexivity|].
    split; [eapply TI_inactive; [exact Ha| | |exact T]; reflexivity|].
    split; [exact I|].
    split; [left; reflexivity|].
    split; [intros _ Hx; simpl in Hx; contradiction|].
    split; [reflexivity|].
    exists (Done o). split; [reflexivity|]. intros; reflexivity.
  - apply (runner_post_frame _ t w (log m w)); [reflexivity|intros; reflexivity|].
    apply IH. destruct Hpre as [HM [H1 [H2 [T [Ha Hd]]]]].
    split; [eapply MI_fle; [|constructor|exact HM]; simpl; auto using incl_refl|].
    split; [eapply R1_fle; [| |exact H1]; reflexivity|].
    split; [eapply R2_same; [|exact H2]; reflexivity|].
    split; [eapply TI_inactive; [exact Ha| | |exact T]; reflexivity|].
    split; [exact Ha|exact Hd].
  - destruct y as [i|l|l| |].
    + (* future *)
      destruct (lookup i (w_env w)) as [f|] eqn:Hl.
      * apply (runner_post_frame _ (k (outcome_of f)) w w); [reflexivity| |apply IH; exact Hpre].
        intros E HE. simpl. unfold child_out. rewrite (HE _ _ Hl). reflexivity.
      * destruct Hpre as [HM [H1 [H2 [T [Ha Hd]]]]].
        split; [eapply MI_fle; [|constructor|exact HM]; simpl; auto using incl_refl, incl_appl|].
        split; [eapply R1_fle; [| |exact H1]; reflexivity|].
        split; [apply R2_register; [discriminate|exact H2]|].
        split; [eapply TI_inactive; [exact Ha| | |exact T]; reflexivity|].
        split.
        { simpl. split; [intros _; apply in_or_app; right; left; reflexivity|intros Hx; wsimpl; congruence]. }
        split; [unfold DI; wsimpl; rewrite Hd; eauto|].
        split; [intros _ Hx; simpl in Hx; contradiction|].
        split; [reflexivity|].
        exists (Yld (YFut i) k). split; [reflexivity|]. intros; reflexivity.
    + (* list *)
      destruct Hpre as [HM [H1 [H2 [T [Ha Hd]]]]].
      destruct (multi_step F l false CbRunner w _ I H1 H2 eq_refl) as [A [B [C [D [G P]]]]].
      destruct (m_result (m_create l false w)) as [o|] eqn:Hres.
      * apply (runner_post_frame _ (k o) w (m_create l false w)); [apply D| |].
        -- intros E HE. simpl. rewrite (multi_out_mono _ _ _ _ _ HE P), G. reflexivity.
        -- apply IH. apply (runner_pre_wle w); auto. repeat split; auto.
      * destruct P as [A' [B' [C' [D' [G' [P1 P2]]]]]].
        split; [eapply MI_fle; [|constructor|exact A']; simpl; auto using incl_refl|].
        split; [eapply R1_fle; [| |exact B']; reflexivity|].
        split; [eapply R2_same; [|exact C']; reflexivity|].
        split; [eapply TI_inactive; [rewrite (wle_tst _ _ D'); exact Ha| | |
                eapply (TI_inactive F F w); [exact Ha|apply D'|apply D'|exact T]]; reflexivity|].
        split.
        { simpl. exists l, false. eapply (waits_fle F F (YList l)); [auto| |exact P1].
          constructor; simpl; auto using incl_refl. }
        split; [unfold DI; wsimpl; rewrite (wle_dres _ _ D'), Hd; eauto|].
        split; [intros _ Hx; simpl in Hx; rewrite (wle_tst _ _ D') in Hx; contradiction|].
        split; [simpl; apply D'|].
        exists (Yld (YList l) k). split.
        -- unfold resid; simpl. unfold multi_y in *; simpl. rewrite P2. reflexivity.
        -- intros E HE. simpl. rewrite G'. reflexivity.
    + (* dict *)
      destruct Hpre as [HM [H1 [H2 [T [Ha Hd]]]]].
      destruct (multi_step F l true CbRunner w _ I H1 H2 eq_refl) as [A [B [C [D [G P]]]]].
      destruct (m_result (m_create l true w)) as [o|] eqn:Hres.
      * apply (runner_post_frame _ (k o) w (m_create l true w)); [apply D| |].
        -- intros E HE. simpl. rewrite (multi_out_mono _ _ _ _ _ HE P), G. reflexivity.
        -- apply IH. apply (runner_pre_wle w); auto. repeat split; auto.
      * destruct P as [A' [B' [C' [D' [G' [P1 P2]]]]]].
        split; [eapply MI_fle; [|constructor|exact A']; simpl; auto using incl_refl|].
        split; [eapply R1_fle; [| |exact B']; reflexivity|].
        split; [eapply R2_same; [|exact C']; reflexivity|].
        split; [eapply TI_inactive; [rewrite (wle_tst _ _ D'); exact Ha| | |
                eapply (TI_inactive F F w); [exact Ha|apply D'|apply D'|exact T]]; reflexivity|].
        split.
        { simpl. exists l, true. eapply (waits_fle F F (YDict l)); [auto| |exact P1].
          constructor; simpl; auto using incl_refl. }
        split; [unfold DI; wsimpl; rewrite (wle_dres _ _ D'), Hd; eauto|].
        split; [intros _ Hx; simpl in Hx; rewrite (wle_tst _ _ D') in Hx; contradiction|].
        split; [simpl; apply D'|].
        exists (Yld (YDict l) k). split.
        -- unfold resid; simpl. unfold multi_y in *; simpl. rewrite P2. reflexivity.
        -- intros E HE. simpl. rewrite G'. reflexivity.
    + (* moment *)
      destruct Hpre as [HM [H1 [H2 [T [Ha Hd]]]]].
      split; [eapply MI_fle; [|constructor|exact HM]; simpl; auto using incl_refl, incl_appl|].
      split; [apply R1_push; [exact I|]; eapply R1_fle; [| |exact H1]; reflexivity|].
      split; [eapply R2_same; [|exact H2]; reflexivity|].
      split; [eapply TI_inactive; [exact Ha| | |exact T]; reflexivity|].
      split; [right; simpl; apply in_or_app; right; left; reflexivity|].
      split; [unfold DI; wsimpl; rewrite Hd; eauto|].
      split; [intros _ Hx; simpl in Hx; contradiction|].
      split; [reflexivity|].
      exists (Yld YMoment k). split; [reflexivity|]. intros; reflexivity.
    + destruct Hpre as [HM [H1 [H2 [T [Ha Hd]]]]].
      split; [eapply MI_fle; [|constructor|exact HM]; simpl; auto using incl_refl, incl_appl|].
      split; [apply R1_push; [exact I|]; eapply R1_fle; [| |exact H1]; reflexivity|].
      split; [eapply R2_same; [|exact H2]; reflexivity|].
      split; [eapply TI_inactive; [exact Ha| | |exact T]; reflexivity|].
      split; [right; simpl; apply in_or_app; right; left; reflexivity|].
      split; [unfold DI; wsimpl; rewrite Hd; eauto|].
      split; [intros _ Hx; simpl in Hx; contradiction|].
      split; [reflexivity|].
      exists (Yld YMoment k). split; [reflexivity|]. intros; reflexivity.
  - (* yield inner(): a new Task *)
    destruct Hpre as [HM [H1 [H2 [T [Ha Hd]]]]]. unfold r_spawn.
    split; [eapply MI_fle; [|constructor|exact HM]; simpl; auto using incl_refl, incl_appl|].
    split; [apply (R1_push CbTask (set_tst (TStart b) w)); [exact I|]; eapply R1_fle; [| |exact H1]; reflexivity|].
    split; [eapply R2_same; [|exact H2]; reflexivity|].
    split; [split; [right; simpl; apply in_or_app; right; left; reflexivity|reflexivity]|].
    split; [reflexivity|].
    split; [unfold DI; wsimpl; rewrite Hd; eauto|].
    split; [intros _ _; simpl; eauto|].
    split; [reflexivity|].
    exists (Call b k). split; [reflexivity|]. intros; reflexivity.
Qed.

(* the wrapper: first iteration *)
Lemma rfirst_ok t : forall w,
  runner_pre w -> w_rst w = RNone -> runner_post t w (rfirst t w).
Proof.
  induction t as [o|m t IH|y k IH|b IHb k IHk]; intros w Hpre Hrn.
  - destruct Hpre as [HM [H1 [H2 [T [Ha Hd]]]]]. simpl.
    split; [exact HM|]. split; [exact H1|]. split; [exact H2|].
    split; [exact T|].
    split; [unfold RI; simpl; rewrite Hrn; exact I|].
    split; [right; exact Hrn|].
    split; [intros _ Hx; simpl in Hx; contradiction|].
    split; [reflexivity|].
    exists (Done o). split; [unfold resid; simpl; rewrite Hrn; reflexivity|]. intros; reflexivity.
  - simpl. apply (runner_post_frame _ t w (log m w)); [reflexivity|intros; reflexivity|].
    apply IH; [|exact Hrn]. destruct Hpre as [HM [H1 [H2 [T [Ha Hd]]]]].
    split; [eapply MI_fle; [|constructor|exact HM]; simpl; auto using incl_refl|].
    split; [eapply R1_fle; [| |exact H1]; reflexivity|].
    split; [eapply R2_same; [|exact H2]; reflexivity|].
    split; [eapply TI_inactive; [exact Ha| | |exact T]; reflexivity|].
    split; [exact Ha|exact Hd].
  - apply (rrun_ok (Yld y k)); exact Hpre.
  - apply (rrun_ok (Call b k)); exact Hpre.
Qed.
