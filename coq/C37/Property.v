(* C37 — Decorated generator coroutines behave like native coroutines.
   Property theorems only; proofs are in Proofs*.v.

   Reading guide.  [stmt] is the bounded program grammar (yield of a future / list / dict / moment /
   None / nested native coroutine, marks, return, raise, try/except, try/finally, sequencing);
   [body p] is the CPython generator/coroutine object of p as a resumption tree.
   [start_dec p E] calls the @gen.coroutine form, [start_nat p E] wraps the async-def form in a Task,
   both in a world where the futures listed in E are already done.  A schedule is any list of
   [EvDone i outcome] (future i gets a result / an exception / is cancelled; a second completion is
   refused) and [EvTick] (the loop runs ONE ready callback).  [w_ready w = []] = the loop is idle. *)
From Coq Require Import List ZArith.
Import ListNotations.
From TV Require Import Lib.Obs C37.Model C37.Run C37.ProofsBase C37.ProofsMain C37.ProofsCheck C37.ProofsNoSpur2
  C37.ProofsLive C37.ProofsLive2 C37.ProofsLive3 C37.ProofsCtx C37.ProofsVar.

(* MAIN: for every program, every set of futures already done at the call and every schedule
   (completion order, outcomes incl. cancellation, interleaving with single loop callbacks), once
   both loops are idle the two forms have the same final future state (pending / result /
   exception / cancelled) and the same own side-effect trace. *)
Theorem C37_decorated_equals_native :
  forall (p : stmt) (pre : list (nat * fout)) (s : list event),
    let wd := run (start_dec p (mkenv pre [])) s in
    let wn := run (start_nat p (mkenv pre [])) s in
    w_ready wd = [] -> w_ready wn = [] ->
    status_of wd = status_of wn /\ w_trace wd = w_trace wn.
Proof. exact forms_equivalent. Qed.
Print Assumptions C37_decorated_equals_native.

(* Each form, at any idle point of any schedule, is exactly the reference semantics [ref] of the body
   evaluated against the set of futures completed so far: a function of WHICH futures are done with
   WHAT outcome only.  RBlk = still suspended at an await whose future(s) are not all done. *)
Theorem C37_decorated_is_reference :
  forall p pre s,
    let w := run (start_dec p (mkenv pre [])) s in
    w_ready w = [] ->
    ref (final_env pre s) (body p) [] = (w_trace w, rres_of (status_of w)).
Proof. exact dec_is_reference. Qed.
Print Assumptions C37_decorated_is_reference.

Theorem C37_native_is_reference :
  forall p pre s,
    let w := run (start_nat p (mkenv pre [])) s in
    w_ready w = [] ->
    ref (final_env pre s) (body p) [] = (w_trace w, rres_of (status_of w)).
Proof. exact nat_is_reference. Qed.
Print Assumptions C37_native_is_reference.

(* "for every order in which the awaited futures complete": two schedules that complete the same
   futures with the same outcomes (in any order, with any timing) give the same result and trace. *)
Theorem C37_result_independent_of_completion_order :
  forall p pre s pre' s',
    final_env pre s = final_env pre' s' ->
    let w := run (start_dec p (mkenv pre [])) s in
    let w' := run (start_dec p (mkenv pre' [])) s' in
    w_ready w = [] -> w_ready w' = [] ->
    status_of w = status_of w' /\ w_trace w = w_trace w'.
Proof. exact schedule_independent. Qed.
Print Assumptions C37_result_independent_of_completion_order.

(* The model never leaves its domain: the two branches in which the real code would do something the
   model does not describe (Task.__wakeup called for a future that is not done -> InvalidStateError
   thrown into the coroutine; multi's gathering loop meeting a child that is not done) are never
   taken, for any program and any schedule.  (They set [w_spur]; every other "cannot happen" branch of
   the model is a faithful no-op: KeyError / InvalidStateError escaping into the loop's handler.) *)
Theorem C37_model_never_leaves_its_domain :
  forall p pre s,
    w_spur (run (start_dec p (mkenv pre [])) s) = false /\
    w_spur (run (start_nat p (mkenv pre [])) s) = false.
Proof. exact never_spur. Qed.
Print Assumptions C37_model_never_leaves_its_domain.

(* The boolean checker that is applied to the implementation's observables accepts the model's own
   observable on every case in which both forms drained within the case's tick budget. *)
Theorem C37_model_satisfies_checker :
  forall p pre s fuel,
    let e := mkenv pre [] in
    quiescent (final_world (start_dec p e) s fuel) = true ->
    quiescent (final_world (start_nat p e) s fuel) = true ->
    check_case (p, pre, s, fuel) (run_case (p, pre, s, fuel)) = true.
Proof. exact model_satisfies_checker_full. Qed.
Print Assumptions C37_model_satisfies_checker.

(* LIVENESS (no livelock): after ANY schedule, finitely many further loop callbacks leave both loops
   idle -- so the idle-loop hypotheses above can always be met by letting the loops run. *)
Theorem C37_no_livelock :
  forall p pre s, exists n, forall m, n <= m ->
    w_ready (run (start_dec p (mkenv pre [])) (s ++ repeat EvTick m)) = [] /\
    w_ready (run (start_nat p (mkenv pre [])) (s ++ repeat EvTick m)) = [].
Proof. exact no_livelock. Qed.
Print Assumptions C37_no_livelock.

(* ... with an explicit computable bound: the potential [Phi] (ready + latent callbacks + 3 * suspension
   points left on the path taken under the completed futures) of the two worlds the schedule reached. *)
Theorem C37_no_livelock_bound :
  forall p pre s,
    let wd := run (start_dec p (mkenv pre [])) s in
    let wn := run (start_nat p (mkenv pre [])) s in
    forall m, Phi wd + Phi wn <= m ->
      w_ready (run wd (repeat EvTick m)) = [] /\ w_ready (run wn (repeat EvTick m)) = [].
Proof. exact no_livelock_bound. Qed.
Print Assumptions C37_no_livelock_bound.

(* MAIN, unconditional form: for every program and every schedule, once the loops have been given
   enough callbacks both are idle and the two forms agree on future state and own trace. *)
Theorem C37_decorated_equals_native_eventually :
  forall p pre s, exists n, forall m, n <= m ->
    let wd := run (start_dec p (mkenv pre [])) (s ++ repeat EvTick m) in
    let wn := run (start_nat p (mkenv pre [])) (s ++ repeat EvTick m) in
    w_ready wd = [] /\ w_ready wn = [] /\ status_of wd = status_of wn /\ w_trace wd = w_trace wn.
Proof. exact forms_equivalent_eventually. Qed.
Print Assumptions C37_decorated_equals_native_eventually.

(* check_case accepts the model's own observable on every case whose tick budget is large enough
   (no hypothesis left: such a budget exists for every program and schedule) *)
Theorem C37_model_satisfies_checker_eventually :
  forall p pre s, exists n, forall fuel, n <= fuel ->
    check_case (p, pre, s, fuel) (run_case (p, pre, s, fuel)) = true.
Proof. exact model_satisfies_checker_eventually. Qed.
Print Assumptions C37_model_satisfies_checker_eventually.

(* Cancellation / failure inside try/except/finally (the glue seeded change C37_2 breaks): at ANY
   position [c] of ANY program (inside try bodies, handlers, finally blocks, nested coroutines, after
   other statements), awaiting a future that failed with e -- or was cancelled, e = CancelledError --
   makes the decorated coroutine behave exactly as if `raise e` stood at that yield. *)
Theorem C37_failed_or_cancelled_await_is_raise :
  forall (c : pctx) i e pre s,
    child_out (final_env pre s) i = Some (OExc e) ->
    let w1 := run (start_dec (plug c (SYield (YFut i))) (mkenv pre [])) s in
    let w2 := run (start_dec (plug c (SRaise e)) (mkenv pre [])) s in
    w_ready w1 = [] -> w_ready w2 = [] ->
    status_of w1 = status_of w2 /\ w_trace w1 = w_trace w2.
Proof. exact failed_await_is_raise. Qed.
Print Assumptions C37_failed_or_cancelled_await_is_raise.

(* The wrapper's first-iteration fast path: a body that never yields gives an already settled future
   at the call; no Runner exists, nothing is queued or registered; the result is the reference one. *)
Theorem C37_fast_path :
  forall p pre,
    noyield p = true ->
    let w := start_dec p (mkenv pre []) in
    w_ready w = [] /\ w_rst w = RNone /\ w_fcbs w = [] /\
    exists o, status_of w = StSet o /\ ref (mkenv pre []) (body p) [] = (w_trace w, RFin o).
Proof. exact fast_path. Qed.
Print Assumptions C37_fast_path.

(* Context variables (the glue seeded change C37_3 breaks).  The grammar has V.set(n), a logged read R(),
   and `tok = V.set(n); try: b finally: V.reset(tok)`; the variable is part of the body's state, so the
   main theorems above already say both forms read and restore the same values under every schedule.
   Explicitly: a value set by the decorated coroutine is the value it reads back after ANY body q that
   does not itself overwrite it -- whatever q awaits (pending futures, lists, moments, nested
   coroutines) and however its resumptions are scheduled. *)
Theorem C37_context_value_survives_suspensions :
  forall n q pre s,
    novarw q = true ->
    let w1 := run (start_dec (set_then_read n q) (mkenv pre [])) s in
    let w2 := run (start_dec (set_then_known n q) (mkenv pre [])) s in
    w_ready w1 = [] -> w_ready w2 = [] ->
    status_of w1 = status_of w2 /\ w_trace w1 = w_trace w2.
Proof. exact context_value_survives. Qed.
Print Assumptions C37_context_value_survives_suspensions.

(* the seeded-change witness on the model: set after a resume from a PENDING future, then a moment, then read *)
Theorem C37_context_witness :
  let p := SSeq (SYield (YFut 0)) (SSeq (SVarSet 2) (SSeq (SYield YNone) SVarGet)) in
  let s := [EvTick; EvDone 0 (FRes 7); EvTick; EvTick; EvTick] in
  w_trace (run (start_dec p []) s) = [t_got (OInt 7); t_got ONone; t_var (OInt 2)] /\
  w_trace (run (start_nat p []) s) = [t_got (OInt 7); t_got ONone; t_var (OInt 2)].
Proof. vm_compute. split; reflexivity. Qed.
Print Assumptions C37_context_witness.

(* ---- witnesses of the two defects fixed in /repo (b6a1816, ace54d0), on the model of the fixed code ---- *)
Definition witness_cancel : stmt :=
  STryFinally (STryExcept (SSeq (SMark 1) (SYield (YFut 0))) HBase SSkip) (SSeq (SMark 2) (SReturn 5)).

(* the awaited future is cancelled while the coroutine is suspended on it: both forms run the
   except and finally blocks and return 5 (before b6a1816 the decorated form stayed pending forever) *)
Theorem C37_cancelled_future_witness :
  let s := [EvDone 0 FCancel; EvTick; EvTick; EvTick] in
  let wd := run (start_dec witness_cancel []) s in
  let wn := run (start_nat witness_cancel []) s in
  status_of wd = StSet (OVal (OInt 5)) /\ status_of wn = StSet (OVal (OInt 5)) /\
  w_trace wd = [OInt 1; t_caught ECancelled; OInt 2] /\ w_trace wn = w_trace wd /\
  w_ready wd = [] /\ w_ready wn = [].
Proof. vm_compute. repeat split; reflexivity. Qed.
Print Assumptions C37_cancelled_future_witness.

(* a generator that raises CancelledError before its first yield ends cancelled in both forms
   (before ace54d0 the decorated call raised into its caller) *)
Theorem C37_raise_cancel_first_iteration_witness :
  let wd := run (start_dec (SRaise ECancelled) []) [EvTick] in
  let wn := run (start_nat (SRaise ECancelled) []) [EvTick] in
  status_of wd = StSet (OExc ECancelled) /\ status_of wn = StSet (OExc ECancelled) /\
  w_ready wd = [] /\ w_ready wn = [].
Proof. vm_compute. repeat split; reflexivity. Qed.
Print Assumptions C37_raise_cancel_first_iteration_witness.

(* the hypotheses of the main theorem are satisfiable by a non-trivial program and schedule
   (nested coroutine awaiting a list, one child cancelled, completion out of order) *)
Example C37_hypotheses_example :
  let p := SSeq (SCall (SYield (YList [0; 1]))) (SYield YMoment) in
  let s := [EvDone 1 (FRes 3); EvTick; EvDone 0 FCancel; EvTick; EvTick; EvTick; EvTick; EvTick; EvTick; EvTick] in
  w_ready (run (start_dec p []) s) = [] /\ w_ready (run (start_nat p []) s) = [] /\
  status_of (run (start_dec p []) s) = StSet (OExc ECancelled).
Proof. vm_compute. repeat split; reflexivity. Qed.
