(* C37 — Decorated generator coroutines behave like native coroutines.
   Property theorems only; proofs are in Proofs*.v.

   Reading guide.  [stmt] is the bounded program grammar (yield of a future / list / dict / moment /
   None / nested native coroutine, marks, return, raise, try/except, try/finally, sequencing);
   [body p] is the CPython generator/coroutine object of p as a resumption tree.
   [start_dec p E] calls the @gen.coroutine form, [start_nat p E] wraps the async-def form in a Task,
   both in a world where the futures listed in E are already done.  A schedule is any list of
   [EvDone i outcome] (future i gets a result / an exception / is cancelled; a second completion is
   refused) and [EvTick] (the loop runs ONE ready callback).  [w_ready w = []] = the loop is idle. *)
From Coq Require Import List ZArith.
Import ListNotations.
From TV Require Import Lib.Obs C37.Model C37.Run C37.ProofsBase C37.ProofsMain C37.ProofsCheck C37.ProofsNoSpur2.

(* MAIN: for every program, every set of futures already done at the call and every schedule
   (completion order, outcomes incl. cancellation, interleaving with single loop callbacks), once
   both loops are idle the two forms have the same final future state (pending / result /
   exception / cancelled) and the same own side-effect trace. *)
Theorem C37_decorated_equals_native :
  forall (p : stmt) (pre : list (nat * fout)) (s : list event),
    let wd := run (start_dec p (mkenv pre [])) s in
    let wn := run (start_nat p (mkenv pre [])) s in
    w_ready wd = [] -> w_ready wn = [] ->
    status_of wd = status_of wn /\ w_trace wd = w_trace wn.
Proof. exact forms_equivalent. Qed.
Print Assumptions C37_decorated_equals_native.

(* Each form, at any idle point of any schedule, is exactly the reference semantics [ref] of the body
   evaluated against the set of futures completed so far: a function of WHICH futures are done with
   WHAT outcome only.  RBlk = still suspended at an await whose future(s) are not all done. *)
Theorem C37_decorated_is_reference :
  forall p pre s,
    let w := run (start_dec p (mkenv pre [])) s in
    w_ready w = [] ->
    ref (final_env pre s) (body p) [] = (w_trace w, rres_of (status_of w)).
Proof. exact dec_is_reference. Qed.
Print Assumptions C37_decorated_is_reference.

Theorem C37_native_is_reference :
  forall p pre s,
    let w := run (start_nat p (mkenv pre [])) s in
    w_ready w = [] ->
    ref (final_env pre s) (body p) [] = (w_trace w, rres_of (status_of w)).
Proof. exact nat_is_reference. Qed.
Print Assumptions C37_native_is_reference.

(* "for every order in which the awaited futures complete": two schedules that complete the same
   futures with the same outcomes (in any order, with any timing) give the same result and trace. *)
Theorem C37_result_independent_of_completion_order :
  forall p pre s pre' s',
    final_env pre s = final_env pre' s' ->
    let w := run (start_dec p (mkenv pre [])) s in
    let w' := run (start_dec p (mkenv pre' [])) s' in
    w_ready w = [] -> w_ready w' = [] ->
    status_of w = status_of w' /\ w_trace w = w_trace w'.
Proof. exact schedule_independent. Qed.
Print Assumptions C37_result_independent_of_completion_order.

(* The model never leaves its domain: the two branches in which the real code would do something the
   model does not describe (Task.__wakeup called for a future that is not done -> InvalidStateError
   thrown into the coroutine; multi's gathering loop meeting a child that is not done) are never
   taken, for any program and any schedule.  (They set [w_spur]; every other "cannot happen" branch of
   the model is a faithful no-op: KeyError / InvalidStateError escaping into the loop's handler.) *)
Theorem C37_model_never_leaves_its_domain :
  forall p pre s,
    w_spur (run (start_dec p (mkenv pre [])) s) = false /\
    w_spur (run (start_nat p (mkenv pre [])) s) = false.
Proof. exact never_spur. Qed.
Print Assumptions C37_model_never_leaves_its_domain.

(* The boolean checker that is applied to the implementation's observables accepts the model's own
   observable on every case in which both forms drained within the case's tick budget. *)
Theorem C37_model_satisfies_checker :
  forall p pre s fuel,
    let e := mkenv pre [] in
    quiescent (final_world (start_dec p e) s fuel) = true ->
    quiescent (final_world (start_nat p e) s fuel) = true ->
    check_case (p, pre, s, fuel) (run_case (p, pre, s, fuel)) = true.
Proof. exact model_satisfies_checker_full. Qed.
Print Assumptions C37_model_satisfies_checker.

(* ---- witnesses of the two defects fixed in /repo (b6a1816, ace54d0), on the model of the fixed code ---- *)
Definition witness_cancel : stmt :=
  STryFinally (STryExcept (SSeq (SMark 1) (SYield (YFut 0))) HBase SSkip) (SSeq (SMark 2) (SReturn 5)).

(* the awaited future is cancelled while the coroutine is suspended on it: both forms run the
   except and finally blocks and return 5 (before b6a1816 the decorated form stayed pending forever) *)
Theorem C37_cancelled_future_witness :
  let s := [EvDone 0 FCancel; EvTick; EvTick; EvTick] in
  let wd := run (start_dec witness_cancel []) s in
  let wn := run (start_nat witness_cancel []) s in
  status_of wd = StSet (OVal (OInt 5)) /\ status_of wn = StSet (OVal (OInt 5)) /\
  w_trace wd = [OInt 1; t_caught ECancelled; OInt 2] /\ w_trace wn = w_trace wd /\
  w_ready wd = [] /\ w_ready wn = [].
Proof. vm_compute. repeat split; reflexivity. Qed.
Print Assumptions C37_cancelled_future_witness.

(* a generator that raises CancelledError before its first yield ends cancelled in both forms
   (before ace54d0 the decorated call raised into its caller) *)
Theorem C37_raise_cancel_first_iteration_witness :
  let wd := run (start_dec (SRaise ECancelled) []) [EvTick] in
  let wn := run (start_nat (SRaise ECancelled) []) [EvTick] in
  status_of wd = StSet (OExc ECancelled) /\ status_of wn = StSet (OExc ECancelled) /\
  w_ready wd = [] /\ w_ready wn = [].
Proof. vm_compute. repeat split; reflexivity. Qed.
Print Assumptions C37_raise_cancel_first_iteration_witness.

(* the hypotheses of the main theorem are satisfiable by a non-trivial program and schedule
   (nested coroutine awaiting a list, one child cancelled, completion out of order) *)
Example C37_hypotheses_example :
  let p := SSeq (SCall (SYield (YList [0; 1]))) (SYield YMoment) in
  let s := [EvDone 1 (FRes 3); EvTick; EvDone 0 FCancel; EvTick; EvTick; EvTick; EvTick; EvTick; EvTick; EvTick] in
  w_ready (run (start_dec p []) s) = [] /\ w_ready (run (start_nat p []) s) = [] /\
  status_of (run (start_dec p []) s) = StSet (OExc ECancelled).
Proof. vm_compute. repeat split; reflexivity. Qed.
