(* C37 proofs, part 8: the executable entry points (Run.v) and the boolean checker. *)
From Coq Require Import List ZArith NArith Bool String Arith Lia.
Import ListNotations.
From TV Require Import Lib.Obs C37.Model C37.Run C37.ProofsBase C37.ProofsDefs C37.ProofsAgents C37.ProofsSteps C37.ProofsMain.
Local Open Scope nat_scope.
Local Open Scope list_scope.

Lemma list_eqb_N_refl (l : list N) : list_eqb N.eqb l l = true.
Proof. induction l as [|x l IH]; simpl; [reflexivity|]. rewrite N.eqb_refl, IH. reflexivity. Qed.

Lemma obs_eqb_refl : forall o, obs_eqb o o = true.
Proof.
  fix IH 1. intros o. destruct o as [|b|z|l|s|l]; simpl.
  - reflexivity.
  - destruct b; reflexivity.
  - apply Z.eqb_refl.
  - apply list_eqb_N_refl.
  - apply String.eqb_refl.
  - revert l. fix IHl 1. intros [|a l]; [reflexivity|].
    rewrite IH. simpl. apply IHl.
Qed.

Lemma run_app w s1 s2 : run w (s1 ++ s2) = run (run w s1) s2.
Proof. unfold run. apply fold_left_app. Qed.

Lemma run_snaps_fst s : forall w, fst (run_snaps w s) = run w s.
Proof.
  induction s as [|e s IH]; intros w; simpl; [reflexivity|].
  specialize (IH (step w e)). destruct (run_snaps (step w e) s) as [w'' l]. simpl in *. exact IH.
Qed.

Lemma ticks_idle n w : w_ready w = [] -> run w (repeat EvTick n) = w.
Proof.
  intros H. induction n as [|n IH]; simpl; [reflexivity|].
  unfold run in *; simpl. unfold tick at 1. rewrite H. exact IH.
Qed.

(* draining = that many more ticks (ticks on an empty queue do nothing) *)
Lemma drain_is_ticks fuel : forall w, drain fuel w = run w (repeat EvTick fuel).
Proof.
  induction fuel as [|f IH]; intros w; simpl; [reflexivity|].
  destruct (w_ready w) as [|c r] eqn:Hr.
  - symmetry. apply (ticks_idle (S f) w Hr).
  - rewrite IH. reflexivity.
Qed.

Definition final_world (w0 : world) (s : list event) (fuel : nat) : world :=
  drain fuel (fst (run_snaps w0 s)).

Lemma final_world_run w0 s fuel : final_world w0 s fuel = run w0 (s ++ repeat EvTick fuel).
Proof. unfold final_world. rewrite drain_is_ticks, run_snaps_fst, run_app. reflexivity. Qed.

Lemma obs_form_shape w0 s fuel :
  exists snaps,
    obs_form w0 s fuel =
    let w2 := final_world w0 s fuel in
    OList [ (if w_spur w2 then OTag "MODEL-unreachable-callback" else o_status (status_of w2));
            OList (w_trace w2); OBool (quiescent w2); OList snaps; OBool true ].
Proof.
  unfold obs_form, final_world. destruct (run_snaps w0 s) as [w1 snaps]. simpl. eauto.
Qed.

Lemma quiescent_ready w : quiescent w = true -> w_ready w = [].
Proof. unfold quiescent. destruct (w_ready w); [reflexivity|discriminate]. Qed.

(* Whenever both forms have drained, the checker accepts the model's own observable. *)
Theorem model_satisfies_checker p pre s fuel :
  let e := mkenv pre [] in
  let wd := final_world (start_dec p e) s fuel in
  let wn := final_world (start_nat p e) s fuel in
  quiescent wd = true -> quiescent wn = true -> w_spur wd = false -> w_spur wn = false ->
  check_case (p, pre, s, fuel) (run_case (p, pre, s, fuel)) = true.
Proof.
  intros e wd wn Qd Qn Sd Sn.
  unfold run_case. fold e.
  destruct (obs_form_shape (start_dec p e) s fuel) as [sd ->].
  destruct (obs_form_shape (start_nat p e) s fuel) as [sn ->].
  cbn zeta. fold wd wn. rewrite Qd, Qn, Sd, Sn.
  unfold check_case.
  assert (H : status_of wd = status_of wn /\ w_trace wd = w_trace wn).
  { unfold wd, wn. rewrite !final_world_run. apply forms_equivalent.
    - rewrite <- final_world_run. apply quiescent_ready. exact Qd.
    - rewrite <- final_world_run. apply quiescent_ready. exact Qn. }
  destruct H as [H1 H2]. rewrite H1, H2, !obs_eqb_refl. reflexivity.
Qed.

(* the outcome is a function of WHICH futures completed with WHAT, not of the order or the timing *)
Theorem schedule_independent p pre s pre' s' :
  final_env pre s = final_env pre' s' ->
  let w := run (start_dec p (mkenv pre [])) s in
  let w' := run (start_dec p (mkenv pre' [])) s' in
  w_ready w = [] -> w_ready w' = [] ->
  status_of w = status_of w' /\ w_trace w = w_trace w'.
Proof.
  intros He w w' Hq Hq'.
  pose proof (dec_is_reference p pre s Hq) as A. pose proof (dec_is_reference p pre' s' Hq') as B.
  fold w in A. fold w' in B. rewrite He in A. rewrite A in B. inversion B.
  split; [apply rres_of_inj; assumption|reflexivity].
Qed.
