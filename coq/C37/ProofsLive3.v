(* C37 proofs, part 13: every executed callback strictly decreases the potential; no livelock;
   the unconditional forms of the equivalence and checker theorems. *)
From Coq Require Import List ZArith Bool String Arith Lia.
Import ListNotations.
From TV Require Import Lib.Obs C37.Model C37.Run C37.ProofsBase C37.ProofsDefs C37.ProofsMulti C37.ProofsAgents
  C37.ProofsRunner C37.ProofsSteps C37.ProofsMain C37.ProofsCheck C37.ProofsNoSpur C37.ProofsNoSpur2
  C37.ProofsLive C37.ProofsLive2.
Local Open Scope nat_scope.
Local Open Scope list_scope.

Implicit Types S : cb -> Prop.
Implicit Types w : world.

Lemma Psi_pop E c r w : w_ready w = c :: r -> Psi E (set_ready r w) + 1 = Psi E w.
Proof.
  intros Hr. unfold Psi, RM.
  change (rcost E (set_ready r w)) with (rcost E w). change (tstart (set_ready r w)) with (tstart w).
  change (mcbs (set_ready r w)) with (mcbs w). change (w_tcbs (set_ready r w)) with (w_tcbs w).
  change (w_ready (set_ready r w)) with r. rewrite Hr. simpl. lia.
Qed.

Lemma m_callback_RM c w : RM (m_callback c w) = RM w.
Proof.
  unfold m_callback, RM, mcbs. destruct (w_multi w) as [m|] eqn:Hw; [|rewrite Hw; reflexivity].
  destruct (mem c (m_unf m)); [|rewrite Hw; reflexivity].
  destruct (rm c (m_unf m)).
  - unfold m_resolve. cbn [m_children m_dict m_cbs]. destruct (multi_out _ _ _).
    + unfold pushes, set_multi, set_ready. cbn [w_ready w_fcbs w_multi m_cbs]. rewrite app_length. simpl. lia.
    + unfold set_spur. cbn [w_ready w_fcbs w_multi]. rewrite Hw. reflexivity.
  - unfold set_multi. cbn [w_ready w_fcbs w_multi m_cbs]. reflexivity.
Qed.

Lemma m_callback_Psi E c w : Psi E (m_callback c w) = Psi E w.
Proof.
  pose proof (m_callback_wle c w) as Hle. destruct (m_callback_same c w) as [_ Hmy].
  unfold Psi. rewrite m_callback_RM, (wle_tcbs _ _ Hle).
  assert (Hres : resid (m_callback c w) = resid w) by (apply resid_same; try apply Hle; exact Hmy).
  assert (Htt : task_tree (m_callback c w) = task_tree w).
  { unfold task_tree. rewrite (wle_tst _ _ Hle), (wle_tres _ _ Hle). reflexivity. }
  unfold rcost, tstart. rewrite (wle_rst _ _ Hle), (wle_tst _ _ Hle), Hres, Htt. reflexivity.
Qed.

(* the Runner resumes: the node it was waiting at is consumed *)
Lemma runner_resume t0 w f k o :
  Inv (eq CbRunner) t0 w -> w_rst w = RWait f k ->
  match f with
  | RfMoment => Some (OVal ONone)
  | RfExt i => child_out (w_env w) i
  | RfMulti => m_result w
  | RfTask => w_tres w
  end = Some o ->
  runner_pre w /\ 1 + fst (walk (w_env w) (k o)) <= rcost (w_env w) w.
Proof.
  intros HI Hrst Hoo.
  pose proof (runner_resume_inactive t0 w f k o HI Hrst Hoo) as Hna.
  destruct HI as [HS HM H1 H2 HT HR HD HX].
  assert (HMF : MI F w).
  { eapply MI_gen; [| | | |exact HM]; try reflexivity; [apply incl_refl|]. intros x. apply unmark_rin; discriminate. }
  assert (HTF : TI F w).
  { eapply TI_gen; [| | | | | |exact HT]; try reflexivity; [apply incl_refl|]. apply unmark_rin; discriminate. }
  assert (Hdres : w_dres w = DPending).
  { unfold DI in HD. destruct (w_dres w); [destruct HD; congruence|reflexivity|destruct HD; congruence]. }
  split; [repeat split; auto|].
  destruct HS as [t [Hrt _]].
  unfold rcost. unfold resid in Hrt. rewrite Hrst in *. unfold RI in HR. rewrite Hrst in HR.
  destruct f as [i| | |].
  - unfold resid. rewrite Hrst. simpl. rewrite Hoo. destruct (walk (w_env w) (k o)). simpl. lia.
  - destruct HR as [l [d [m [Hm [Hl [Hdd _]]]]]].
    unfold resid. rewrite Hrst. unfold multi_y. rewrite Hm. cbn [option_map].
    unfold m_result in Hoo. rewrite Hm in Hoo.
    unfold MI, MIr in HMF. rewrite Hm in HMF. destruct HMF as [_ HMF]. rewrite Hoo in HMF.
    destruct (m_dict m); simpl; rewrite HMF; destruct (walk (w_env w) (k o)); simpl; lia.
  - unfold task_tree in *. unfold TI in HTF.
    destruct (w_tst w); simpl in Hrt; try discriminate.
    + destruct HTF; congruence.
    + destruct HTF as [_ HTF]; congruence.
    + rewrite Hoo. unfold tcont. simpl. lia.
  - unfold resid. rewrite Hrst. simpl. inversion Hoo; subst o. destruct (walk (w_env w) (k (OVal ONone))). simpl. lia.
Qed.

Lemma tick_decreases t0 w : Inv F t0 w -> w_ready w <> [] -> Phi (tick w) < Phi w.
Proof.
  intros HI Hne. unfold Phi. rewrite (proj2 (tick_inv t0 w HI)).
  set (E := w_env w). unfold tick. destruct (w_ready w) as [|c r] eqn:Hr; [congruence|].
  pose proof (pop_inv t0 c r w Hr HI) as Hp.
  pose proof (Psi_pop E c r w Hr) as Hpop.
  destruct c as [|x| |]; simpl.
  - (* Runner.run *)
    unfold runner_cb. destruct (w_rst (set_ready r w)) as [|f k|] eqn:Hrst; [lia| |lia].
    match goal with |- Psi E (match ?oo with _ => _ end) < _ => destruct oo as [o|] eqn:Hoo end; [|lia].
    destruct (runner_resume t0 _ f k o Hp Hrst Hoo) as [Hpre Hc].
    pose proof (rrun_cost (k o) _ Hpre) as Hrc.
    change (w_env (set_ready r w)) with E in *.
    assert (Ht0 : tstart (set_ready r w) = 0) by (apply inactive_tstart; apply Hpre).
    unfold Psi in Hpop at 1. lia.
  - rewrite m_callback_Psi. lia.
  - (* the task *)
    destruct Hp as [HS HM H1 H2 HT HR HD HX].
    assert (HMF : MI F (set_ready r w)).
    { eapply MI_gen; [| | | |exact HM]; try reflexivity; [apply incl_refl|]. intros y. apply unmark_rin; discriminate. }
    assert (HRF : RI F (set_ready r w)).
    { eapply RI_gen; [| | | | | | |exact HR]; try reflexivity; [apply incl_refl|]. apply unmark_rin; discriminate. }
    unfold task_cb. unfold TI in HT. destruct (w_tst (set_ready r w)) as [|b|t|] eqn:Htst; [lia| | |lia].
    + destruct (tadv b (set_ready r w)) as [w2 r2] eqn:Hrun.
      pose proof (tadv_cost _ _ _ _ Hrun HMF H1 H2) as Hc.
      destruct (tadv_ok _ _ _ _ Hrun HMF H1 H2) as [_ [_ [_ [Hle _]]]].
      assert (Hs := settle_cost 1 b _ w2 r2 HRF HD HX).
      rewrite Htst in Hs. specialize (Hs I).
      assert (Htt : task_tree (set_ready r w) = Some b) by (unfold task_tree; rewrite Htst; reflexivity).
      specialize (Hs Htt Hle Hc). change (w_env (set_ready r w)) with E in Hs.
      assert (Hts : tstart (set_ready r w) = 1) by (unfold tstart; rewrite Htst; reflexivity).
      unfold Psi in Hpop at 1. lia.
    + destruct HT as [[y [Hy Hw]] _].
      destruct (tresume t (set_ready r w)) as [w2 r2] eqn:Hrun.
      pose proof (tresume_cost _ _ _ _ _ _ Hrun Hy Hw HMF H1 H2) as Hc.
      destruct (tresume_ok _ _ _ _ _ _ Hrun Hy Hw HMF H1 H2) as [_ [_ [_ [Hle _]]]].
      assert (Hs := settle_cost 0 t _ w2 r2 HRF HD HX).
      rewrite Htst in Hs. specialize (Hs I).
      assert (Htt : task_tree (set_ready r w) = Some t) by (unfold task_tree; rewrite Htst; reflexivity).
      specialize (Hs Htt Hle Hc). change (w_env (set_ready r w)) with E in Hs.
      unfold Psi in Hpop at 1. lia.
  - lia.
Qed.

Lemma ticks_succ n w : run w (repeat EvTick (S n)) = run (tick w) (repeat EvTick n).
Proof. reflexivity. Qed.

Lemma idle_after_ticks t0 : forall n w, Phi w <= n -> Inv F t0 w ->
  exists m, m <= n /\ w_ready (run w (repeat EvTick m)) = [].
Proof.
  induction n as [|n IH]; intros w Hn HI.
  - exists 0. split; [lia|]. simpl. destruct (w_ready w) as [|c r] eqn:Hr; [reflexivity|].
    unfold Phi, Psi, RM in Hn. rewrite Hr in Hn. simpl in Hn. lia.
  - destruct (w_ready w) as [|c r] eqn:Hr; [exists 0; split; [lia|exact Hr]|].
    assert (Hne : w_ready w <> []) by (rewrite Hr; discriminate).
    pose proof (tick_decreases t0 w HI Hne) as Hd.
    destruct (IH (tick w)) as [m [Hle Hm]]; [lia|apply tick_inv; exact HI|].
    exists (S m). split; [lia|]. rewrite ticks_succ. exact Hm.
Qed.

Lemma idle_stable w a b : w_ready (run w (repeat EvTick a)) = [] -> a <= b ->
  run w (repeat EvTick b) = run w (repeat EvTick a).
Proof.
  intros Hi Hab. replace b with (a + (b - a)) by lia. rewrite repeat_app, run_app.
  apply ticks_idle. exact Hi.
Qed.

(* No livelock: after ANY schedule, finitely many further loop callbacks leave both loops idle. *)
Theorem no_livelock p pre s :
  exists n, forall m, n <= m ->
    w_ready (run (start_dec p (mkenv pre [])) (s ++ repeat EvTick m)) = [] /\
    w_ready (run (start_nat p (mkenv pre [])) (s ++ repeat EvTick m)) = [].
Proof.
  destruct (run_inv (body p) s _ (start_dec_inv p (mkenv pre []))) as [Hd _].
  destruct (run_inv (body p) s _ (start_nat_inv p (mkenv pre []))) as [Hn _].
  destruct (idle_after_ticks _ _ _ (le_n _) Hd) as [a [_ Ha]].
  destruct (idle_after_ticks _ _ _ (le_n _) Hn) as [b [_ Hb]].
  exists (a + b). intros m Hm. rewrite !run_app.
  rewrite (idle_stable _ a m Ha), (idle_stable _ b m Hb); try lia. auto.
Qed.

(* ... with an explicit, computable bound: the potentials of the two worlds reached by the schedule *)
Theorem no_livelock_bound p pre s :
  let wd := run (start_dec p (mkenv pre [])) s in
  let wn := run (start_nat p (mkenv pre [])) s in
  forall m, Phi wd + Phi wn <= m ->
    w_ready (run wd (repeat EvTick m)) = [] /\ w_ready (run wn (repeat EvTick m)) = [].
Proof.
  intros wd wn m Hm.
  destruct (run_inv (body p) s _ (start_dec_inv p (mkenv pre []))) as [Hd _].
  destruct (run_inv (body p) s _ (start_nat_inv p (mkenv pre []))) as [Hn _].
  destruct (idle_after_ticks _ _ _ (le_n _) Hd) as [a [La Ha]].
  destruct (idle_after_ticks _ _ _ (le_n _) Hn) as [b [Lb Hb]].
  fold wd in La, Ha. fold wn in Lb, Hb.
  rewrite (idle_stable _ a m Ha), (idle_stable _ b m Hb); try lia. auto.
Qed.

(* The equivalence without side conditions: let the loops run long enough after the schedule. *)
Theorem forms_equivalent_eventually p pre s :
  exists n, forall m, n <= m ->
    let wd := run (start_dec p (mkenv pre [])) (s ++ repeat EvTick m) in
    let wn := run (start_nat p (mkenv pre [])) (s ++ repeat EvTick m) in
    w_ready wd = [] /\ w_ready wn = [] /\ status_of wd = status_of wn /\ w_trace wd = w_trace wn.
Proof.
  destruct (no_livelock p pre s) as [n Hn]. exists n. intros m Hm.
  destruct (Hn m Hm) as [A B]. cbn zeta. split; [exact A|]. split; [exact B|].
  apply forms_equivalent; assumption.
Qed.

(* check_case accepts the model's own observable for every case with a large enough tick budget *)
Theorem model_satisfies_checker_eventually p pre s :
  exists n, forall fuel, n <= fuel -> check_case (p, pre, s, fuel) (run_case (p, pre, s, fuel)) = true.
Proof.
  destruct (no_livelock p pre s) as [n Hn]. exists n. intros fuel Hf.
  destruct (Hn fuel Hf) as [A B].
  apply model_satisfies_checker_full; unfold quiescent; rewrite final_world_run; [rewrite A|rewrite B]; reflexivity.
Qed.
