(* C37 proofs, part 3: multi_future's creation and callback preserve the invariants. *)
From Coq Require Import List ZArith Bool String Arith Lia.
Import ListNotations.
From TV Require Import Lib.Obs C37.Model C37.ProofsBase C37.ProofsDefs.
Local Open Scope nat_scope.
Local Open Scope list_scope.

Implicit Types S : cb -> Prop.
Implicit Types ex : nat -> Prop.
Implicit Types w : world.

(* ---------- multi_future.callback ---------- *)
Lemma rm_nil_all c l x : rm c l = [] -> In x l -> x = c.
Proof.
  intros Hr Hx. destruct (Nat.eq_dec x c) as [|Hne]; auto.
  assert (In x (rm c l)) by (apply rm_In; auto). rewrite Hr in H. contradiction.
Qed.

Lemma m_callback_wle c w : wle w (m_callback c w).
Proof.
  unfold m_callback. destruct (w_multi w) as [m|]; [|apply wle_refl].
  destruct (mem c (m_unf m)); [|apply wle_refl].
  destruct (rm c (m_unf m)); [|apply wle_set_multi].
  unfold m_resolve; simpl.
  destruct (multi_out _ _ _); [|apply wle_set_spur].
  eapply wle_trans; [apply wle_set_multi|apply wle_pushes].
Qed.

Lemma m_callback_MI S S' ex c w :
  MIr S ex w -> lookup c (w_env w) <> None ->
  (forall x, x <> c -> S (CbMulti x) -> S' (CbMulti x)) ->
  MIr S' (fun x => ex x /\ x <> c) (m_callback c w).
Proof.
  intros HM Hd HS.
  unfold m_callback, MIr in *.
  destruct (w_multi w) as [m|] eqn:Hw; [|cbn; rewrite Hw; exact I].
  destruct HM as [Hcb HM].
  destruct (mem c (m_unf m)) eqn:Hmem.
  - apply mem_In in Hmem.
    destruct (rm c (m_unf m)) as [|u0 u] eqn:Hrm.
    + (* last child *)
      assert (Hex : exists o, multi_out (w_env w) (m_children m) (m_dict m) = Some o).
      { destruct (m_res m) as [o0|]; [eauto|].
        destruct HM as [H1 [H2 [H3 H4]]].
        apply multi_out_all_done. intros x Hx. destruct (H3 x Hx) as [Hu|Hdn]; auto.
        rewrite (rm_nil_all _ _ _ Hrm Hu). exact Hd. }
      destruct Hex as [o Ho]. unfold m_resolve. cbn [m_children m_dict m_cbs w_env set_multi].
      rewrite Ho. cbn. split; [constructor|exact Ho].
    + cbn [w_multi set_multi m_cbs m_res m_unf m_children m_dict w_env w_fcbs w_ready].
      split; [exact Hcb|].
      destruct (m_res m) as [o0|]; [exact HM|].
      destruct HM as [H1 [H2 [H3 H4]]]. rewrite <- Hrm.
      split; [rewrite Hrm; discriminate|].
      split; [intros x Hx; apply rm_In in Hx; apply H2; tauto|].
      split.
      * intros x Hx. destruct (Nat.eq_dec x c) as [->|Hne]; [right; exact Hd|].
        destruct (H3 x Hx) as [Hu|Hdn]; [left; apply rm_In; auto|right; auto].
      * intros x Hx. apply rm_In in Hx. destruct Hx as [Hx Hne].
        destruct (H4 x Hx) as [He|[Ha Hb]]; [left; auto|right].
        split; [exact Ha|]. intros Hy. destruct (Hb Hy) as [Hs|Hi]; [left; auto|right; exact Hi].
  - (* KeyError branch: nothing changes but the flag *)
    cbn. rewrite Hw. split; [exact Hcb|].
    destruct (m_res m); [exact HM|].
    destruct HM as [H1 [H2 [H3 H4]]]. repeat split; auto.
    intros x Hx. assert (Hne : x <> c).
    { intros ->. apply mem_In in Hx. congruence. }
    destruct (H4 x Hx) as [He|[Ha Hb]]; [left; auto|right].
    split; [exact Ha|]. intros Hy. destruct (Hb Hy) as [Hs|Hi]; [left; auto|right; exact Hi].
Qed.

Lemma m_callback_R1 S ex c w : MIr S ex w -> R1 w -> R1 (m_callback c w).
Proof.
  intros HM H1. unfold m_callback.
  destruct (w_multi w) as [m|] eqn:Hw; [|exact H1].
  destruct (mem c (m_unf m)); [|exact H1].
  destruct (rm c (m_unf m)); [|exact H1].
  unfold m_resolve; simpl. destruct (multi_out _ _ _); [|exact H1].
  unfold MIr in HM; rewrite Hw in HM. destruct HM as [Hcb _].
  apply R1_pushes; [exact Hcb|]. exact H1.
Qed.

Lemma m_callback_R2 c w : R2 w -> R2 (m_callback c w).
Proof.
  intros H. eapply R2_same; [|exact H]. unfold m_callback.
  destruct (w_multi w) as [m|]; [|reflexivity].
  destruct (mem c (m_unf m)); [|reflexivity].
  destruct (rm c (m_unf m)); [|reflexivity].
  unfold m_resolve; simpl. destruct (multi_out _ _ _); reflexivity.
Qed.

(* whoever waits (on anything) keeps being woken across a multi callback *)
Lemma m_callback_waits S S' y c0 c w :
  (S c0 -> S' c0) -> waits_ok S y c0 w -> waits_ok S' y c0 (m_callback c w).
Proof.
  intros HS H.
  assert (Hle := m_callback_wle c w).
  assert (Hgen : forall l d, waits_multi S w l d c0 -> waits_multi S' (m_callback c w) l d c0).
  { intros l d [m [Hw [Hl [Hd [Hn Hs]]]]].
    unfold waits_multi, m_callback. rewrite Hw.
    destruct (mem c (m_unf m)).
    - destruct (rm c (m_unf m)) eqn:Hrm.
      + unfold m_resolve; simpl. destruct (multi_out _ _ _) as [o|] eqn:Ho; simpl.
        * eexists; split; [reflexivity|]. simpl. repeat split; auto; try discriminate.
          intros _. destruct (m_res m) eqn:Hres.
          -- destruct Hs as [Hs|Hs]; [discriminate|left; auto|right; apply in_or_app; left; exact Hs].
          -- rewrite (Hn eq_refl). right. apply in_or_app; right; left; reflexivity.
        * exists m; repeat split; auto. intros Hx. eapply rin_wle; [exact HS|apply incl_refl|auto].
      + simpl. eexists; split; [reflexivity|]. simpl. repeat split; auto.
        intros Hx. eapply rin_wle; [exact HS|apply incl_refl|auto].
    - simpl. exists m; repeat split; auto. intros Hx. eapply rin_wle; [exact HS|apply incl_refl|auto]. }
  destruct y as [i|l|l| |]; cbn [waits_ok] in *.
  - exact (waits_ok_nomulti S S' (YFut i) c0 w _ HS Hle I H).
  - apply Hgen; exact H.
  - apply Hgen; exact H.
  - exact (rin_wle S S' w _ c0 HS (wle_ready _ _ Hle) H).
  - exact (rin_wle S S' w _ c0 HS (wle_ready _ _ Hle) H).
Qed.

(* ---------- multi_future(): creation ---------- *)
Lemma m_listen_ok S cs : forall w,
  MIr S (fun x => In x cs) w -> R1 w -> R2 w ->
  (match w_multi w with Some m => m_cbs m = [] | None => True end) ->
  let w' := m_listen cs w in
  MIr S (fun _ => False) w' /\ R1 w' /\ R2 w' /\ wle w w' /\ w_ready w' = w_ready w /\
  w_trace w' = w_trace w /\
  (match w_multi w, w_multi w' with
   | Some m, Some m' => m_children m' = m_children m /\ m_dict m' = m_dict m /\ m_cbs m' = []
   | None, None => True
   | _, _ => False
   end).
Proof.
  induction cs as [|c cs IH]; intros w HM H1 H2 Hcb; simpl.
  - assert (A : MIr S (fun _ => False) w).
    { eapply MIr_wle; [| |apply wle_refl|reflexivity|exact HM]; [auto|simpl; tauto]. }
    split; [exact A|]. split; [exact H1|]. split; [exact H2|]. split; [apply wle_refl|].
    split; [reflexivity|]. split; [reflexivity|].
    destruct (w_multi w); auto.
  - destruct (lookup c (w_env w)) as [f|] eqn:Hl.
    + (* already done: inline callback *)
      assert (Hd : lookup c (w_env w) <> None) by congruence.
      pose proof (m_callback_MI S S _ c w HM Hd (fun x _ H => H)) as HM'.
      assert (HM'' : MIr S (fun x => In x cs) (m_callback c w)).
      { eapply MIr_wle; [| |apply wle_refl|reflexivity|exact HM']; auto.
        simpl. intros x [[->|Hx] Hne]; [congruence|exact Hx]. }
      assert (Hcb' : match w_multi (m_callback c w) with Some m => m_cbs m = [] | None => True end).
      { unfold m_callback. destruct (w_multi w) as [m|] eqn:Hw; simpl; [|rewrite Hw; exact I].
        destruct (mem c (m_unf m)); simpl; [|rewrite Hw; exact Hcb].
        destruct (rm c (m_unf m)); simpl; [|exact Hcb].
        unfold m_resolve; simpl. destruct (multi_out _ _ _); simpl; [reflexivity|rewrite Hw; exact Hcb]. }
      assert (Hrd : w_ready (m_callback c w) = w_ready w /\ w_trace (m_callback c w) = w_trace w /\
                    match w_multi w, w_multi (m_callback c w) with
                    | Some m, Some m' => m_children m' = m_children m /\ m_dict m' = m_dict m
                    | None, None => True | _, _ => False end).
      { unfold m_callback. destruct (w_multi w) as [m|] eqn:Hw; simpl; [|rewrite Hw; auto].
        destruct (mem c (m_unf m)); simpl; [|rewrite Hw; auto].
        destruct (rm c (m_unf m)); simpl; [|auto].
        unfold m_resolve; simpl. destruct (multi_out _ _ _); simpl; [|rewrite Hw; auto].
        rewrite Hcb, app_nil_r. auto. }
      destruct Hrd as [Hr [Ht Hmm]].
      destruct (IH (m_callback c w) HM'' (m_callback_R1 _ _ _ _ HM H1) (m_callback_R2 _ _ H2) Hcb')
        as [A [B [C [D [E [F G]]]]]].
      split; [exact A|]. split; [exact B|]. split; [exact C|].
      split; [eapply wle_trans; [apply m_callback_wle|exact D]|].
      split; [congruence|]. split; [congruence|].
      destruct (w_multi w) as [m|], (w_multi (m_callback c w)) as [m1|]; try contradiction;
        destruct (w_multi (m_listen cs (m_callback c w))) as [m2|]; try contradiction; auto.
      destruct Hmm as [X Y], G as [G1 [G2 G3]]. repeat split; congruence.
    + (* pending: register *)
      assert (HM' : MIr S (fun x => In x cs) (register c (CbMulti c) w)).
      { unfold MIr in *. simpl. destruct (w_multi w) as [m|]; [|exact I].
        destruct HM as [Hc HM]. split; [exact Hc|]. destruct (m_res m); [exact HM|].
        destruct HM as [A [B [C D]]]. repeat split; auto.
        intros x Hx. destruct (D x Hx) as [[->|Hin]|[Ha Hb]].
        - right. split; [intros _; apply in_or_app; right; left; reflexivity|intros Hy; congruence].
        - left; exact Hin.
        - right. split; [intros Hy; apply in_or_app; left; auto|exact Hb]. }
      destruct (IH (register c (CbMulti c) w) HM') as [A [B [C [D [E [F G]]]]]].
      { eapply R1_wle_same; [| |exact H1]; reflexivity. }
      { apply R2_register; [|exact H2]. intros x Hx; inversion Hx; reflexivity. }
      { exact Hcb. }
      split; [exact A|]. split; [exact B|]. split; [exact C|].
      split; [eapply wle_trans; [apply wle_register|exact D]|].
      split; [exact E|]. split; [exact F|]. exact G.
Qed.

Lemma dedup_nil_inv l : dedup [] l = [] -> l = [].
Proof.
  destruct l as [|c l]; auto. simpl. discriminate.
Qed.

Lemma m_create_ok S l d w :
  R1 w -> R2 w ->
  let w' := m_create l d w in
  MI S w' /\ R1 w' /\ R2 w' /\ wle w w' /\ w_ready w' = w_ready w /\ w_trace w' = w_trace w /\
  exists m, w_multi w' = Some m /\ m_children m = l /\ m_dict m = d /\ m_cbs m = [].
Proof.
  intros H1 H2. unfold m_create.
  set (w1 := set_multi _ w).
  assert (HM : MIr S (fun x => In x (dedup [] l)) w1).
  { unfold MIr, w1; simpl. split; [constructor|].
    destruct l as [|c0 l0] eqn:Hl.
    - destruct d; reflexivity.
    - rewrite <- Hl. split.
      + intros Hn. apply dedup_nil_inv in Hn. congruence.
      + split; [intros c Hc; apply dedup_In in Hc; tauto|].
        split; [intros c Hc; left; apply dedup_In; auto|].
        intros c Hc; left; exact Hc. }
  destruct (m_listen_ok S (dedup [] l) w1 HM) as [A [B [C [D [E [F G]]]]]].
  - eapply R1_wle_same; [| |exact H1]; reflexivity.
  - eapply R2_same; [|exact H2]; reflexivity.
  - simpl. reflexivity.
  - split; [exact A|]. split; [exact B|]. split; [exact C|].
    split; [eapply wle_trans; [apply wle_set_multi|exact D]|].
    split; [exact E|]. split; [exact F|].
    subst w1. cbn [w_multi set_multi] in G.
    destruct (w_multi (m_listen _ _)) as [m'|]; [|contradiction].
    exists m'. cbn in G. split; [reflexivity|tauto].
Qed.
