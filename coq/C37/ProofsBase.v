(* C37 proofs, part 1: environments, gather/multi_out, the reference semantics. *)
From Coq Require Import List ZArith Bool String Arith Lia.
Import ListNotations.
From TV Require Import Lib.Obs C37.Model.
Local Open Scope nat_scope.
Local Open Scope list_scope.

(* ---------- environments only grow ---------- *)
Definition ext (E E' : env) : Prop := forall i f, lookup i E = Some f -> lookup i E' = Some f.

Lemma ext_refl E : ext E E.
Proof. intros i f H; exact H. Qed.

Lemma ext_trans E1 E2 E3 : ext E1 E2 -> ext E2 E3 -> ext E1 E3.
Proof. intros H1 H2 i f H; auto. Qed.

Lemma lookup_app i E j f :
  lookup i (E ++ [(j, f)]) =
  match lookup i E with Some g => Some g | None => if Nat.eqb i j then Some f else None end.
Proof.
  induction E as [|[k g] E IH]; simpl.
  - reflexivity.
  - destruct (Nat.eqb i k); auto.
Qed.

Lemma ext_app E j f : lookup j E = None -> ext E (E ++ [(j, f)]).
Proof.
  intros Hn i g Hi. rewrite lookup_app, Hi. reflexivity.
Qed.

Lemma ext_none E E' i : ext E E' -> lookup i E' = None -> lookup i E = None.
Proof.
  intros He Hn. destruct (lookup i E) as [f|] eqn:Hl; auto.
  apply He in Hl. congruence.
Qed.

Lemma child_out_mono E E' c o : ext E E' -> child_out E c = Some o -> child_out E' c = Some o.
Proof.
  unfold child_out; intros He H. destruct (lookup c E) as [f|] eqn:Hl; simpl in H; [|discriminate].
  rewrite (He _ _ Hl). exact H.
Qed.

Lemma gather_mono E E' l r : ext E E' -> gather E l = Some r -> gather E' l = Some r.
Proof.
  intros He; revert r; induction l as [|c l IH]; intros r H; simpl in *; auto.
  destruct (child_out E c) as [o|] eqn:Hc; [|discriminate].
  rewrite (child_out_mono _ _ _ _ He Hc).
  destruct (gather E l) as [g|] eqn:Hg.
  - rewrite (IH _ eq_refl). exact H.
  - destruct o; discriminate.
Qed.

Lemma gather_pending E l c : In c l -> lookup c E = None -> gather E l = None.
Proof.
  induction l as [|d l IH]; intros Hin Hn; simpl in *; [contradiction|].
  destruct Hin as [->|Hin].
  - unfold child_out; rewrite Hn; reflexivity.
  - rewrite (IH Hin Hn). destruct (child_out E d) as [[v|x]|]; reflexivity.
Qed.

Lemma gather_all_done E l :
  (forall c, In c l -> lookup c E <> None) -> exists r, gather E l = Some r.
Proof.
  induction l as [|d l IH]; intros H; simpl.
  - eauto.
  - destruct IH as [r Hr]; [intros c Hc; apply H; right; exact Hc|].
    rewrite Hr. unfold child_out.
    destruct (lookup d E) as [f|] eqn:Hl; [|exfalso; apply (H d); [left; reflexivity|exact Hl]].
    simpl. destruct (outcome_of f); destruct r; eauto.
Qed.

Lemma multi_out_mono E E' l d o : ext E E' -> multi_out E l d = Some o -> multi_out E' l d = Some o.
Proof.
  unfold multi_out; intros He H. destruct (gather E l) as [r|] eqn:Hg; [|discriminate].
  rewrite (gather_mono _ _ _ _ He Hg). exact H.
Qed.

Lemma multi_out_pending E l d c : In c l -> lookup c E = None -> multi_out E l d = None.
Proof. intros Hi Hn; unfold multi_out; rewrite (gather_pending _ _ _ Hi Hn); reflexivity. Qed.

Lemma multi_out_all_done E l d :
  (forall c, In c l -> lookup c E <> None) -> exists o, multi_out E l d = Some o.
Proof.
  intros H. destruct (gather_all_done _ _ H) as [r Hr]. unfold multi_out; rewrite Hr.
  destruct r; eauto.
Qed.

Lemma youtcome_mono E E' y o : ext E E' -> youtcome E y = Some o -> youtcome E' y = Some o.
Proof.
  intros He; destruct y; simpl; intros H; auto.
  - eapply child_out_mono; eauto.
  - eapply multi_out_mono; eauto.
  - eapply multi_out_mono; eauto.
Qed.

(* ---------- leftmost suspension point of a tree ---------- *)
Fixpoint lm (t : itree) : option yexp :=
  match t with
  | Yld y _ => Some y
  | Call b _ => lm b
  | _ => None
  end.

Lemma ref_blocked E t tr y : lm t = Some y -> youtcome E y = None -> ref E t tr = (tr, RBlk).
Proof.
  revert tr; induction t as [o|m t IH|y' k IH|b IHb k IHk]; intros tr Hl Hy; simpl in *; try discriminate.
  - inversion Hl; subst. rewrite Hy. reflexivity.
  - rewrite (IHb _ Hl Hy). reflexivity.
Qed.

(* ref only appends to the trace *)
Lemma ref_trace_prefix E t tr : exists l, fst (ref E t tr) = tr ++ l.
Proof.
  revert tr; induction t as [o|m t IH|y k IH|b IHb k IHk]; intros tr; simpl.
  - exists []; rewrite app_nil_r; reflexivity.
  - destruct (IH (tr ++ [m])) as [l Hl]. exists (m :: l). rewrite Hl, <- app_assoc. reflexivity.
  - destruct (youtcome E y) as [o|]; [apply IH|exists []; rewrite app_nil_r; reflexivity].
  - destruct (IHb tr) as [l Hl]. destruct (ref E b tr) as [tr' [o|]] eqn:Hb; simpl in *.
    + destruct (IHk o tr') as [l' Hl']. exists (l ++ l'). rewrite Hl', Hl, app_assoc. reflexivity.
    + exists l; exact Hl.
Qed.

(* ---------- small list facts ---------- *)
Lemma mem_In c l : mem c l = true <-> In c l.
Proof.
  unfold mem; rewrite existsb_exists; split.
  - intros [x [Hx He]]. apply Nat.eqb_eq in He; subst; exact Hx.
  - intros H; exists c; split; [exact H|apply Nat.eqb_refl].
Qed.

Lemma rm_In c x l : In x (rm c l) <-> In x l /\ x <> c.
Proof.
  unfold rm; rewrite filter_In; split; intros [H1 H2]; split; auto.
  - intros ->. rewrite Nat.eqb_refl in H2; discriminate.
  - apply negb_true_iff, Nat.eqb_neq; auto.
Qed.

Lemma dedup_In seen l x : In x (dedup seen l) <-> In x l /\ ~ In x seen.
Proof.
  revert seen; induction l as [|c l IH]; intros seen; simpl.
  - tauto.
  - destruct (mem c seen) eqn:Hm.
    + apply mem_In in Hm. rewrite IH. split; [intros [H1 H2]; auto|].
      intros [[->|H1] H2]; [contradiction|auto].
    + assert (Hn : ~ In c seen) by (intros H; apply mem_In in H; congruence).
      simpl. rewrite IH. simpl. split.
      * intros [->|[H1 H2]]; [auto|]. split; [auto|]. intros H; apply H2; right; exact H.
      * intros [[->|H1] H2]; [auto|]. destruct (Nat.eq_dec c x) as [->|Hne]; [auto|].
        right; split; auto. intros [H|H]; auto.
Qed.
