(* C37 proofs, part 12: the potential, its strict decrease on every executed callback, termination. *)
From Coq Require Import List ZArith Bool String Arith Lia.
Import ListNotations.
From TV Require Import Lib.Obs C37.Model C37.Run C37.ProofsBase C37.ProofsDefs C37.ProofsMulti C37.ProofsAgents
  C37.ProofsRunner C37.ProofsSteps C37.ProofsMain C37.ProofsCheck C37.ProofsNoSpur C37.ProofsLive.
Local Open Scope nat_scope.
Local Open Scope list_scope.

Implicit Types S : cb -> Prop.
Implicit Types w : world.

Definition tcont (E : env) (k : outcome -> itree) (b : itree) : nat :=
  let '(nb, rb) := walk E b in
  match rb with Some o => 1 + nb + fst (walk E (k o)) | None => 1 + nb end.

Definition rcost (E : env) w : nat :=
  match w_rst w with
  | RWait RfTask k => match task_tree w with Some b => tcont E k b | None => 0 end
  | _ => match resid w with Some t => fst (walk E t) | None => 0 end
  end.
Definition tstart w : nat := match w_tst w with TStart _ => 1 | _ => 0 end.
Definition Psi (E : env) w : nat := RM w + List.length (w_tcbs w) + 3 * rcost E w + 3 * tstart w.
Definition Phi w : nat := Psi (w_env w) w.

Lemma inactive_tstart w : ~ active (w_tst w) -> tstart w = 0.
Proof. unfold tstart. destruct (w_tst w); simpl; tauto. Qed.

Lemma Psi_wait_multi E k w2 y :
  multi_y w2 = Some y ->
  Psi E (set_rst (RWait RfMulti k) w2) =
  RM w2 + List.length (w_tcbs w2) + 3 * fst (walk E (Yld y k)) + 3 * tstart w2.
Proof.
  intros H. unfold Psi, rcost, resid.
  change (w_rst (set_rst (RWait RfMulti k) w2)) with (RWait RfMulti k). cbv iota.
  change (multi_y (set_rst (RWait RfMulti k) w2)) with (multi_y w2). rewrite H. reflexivity.
Qed.

(* ---------- Runner.run ---------- *)
Lemma rrun_cost t : forall w,
  runner_pre w ->
  Psi (w_env w) (rrun t w) <= RM w + List.length (w_tcbs w) + 1 + 3 * fst (walk (w_env w) t).
Proof.
  induction t as [o|m t IH|y k IH|b IHb k IHk]; intros w Hpre; simpl rrun.
  - destruct Hpre as [HM [H1 [H2 [T [Ha Hd]]]]].
    unfold Psi, rcost, resid, tstart, RM, mcbs, r_finish. wsimpl. rewrite app_length. simpl.
    pose proof (inactive_tstart w Ha) as Ht. unfold tstart in Ht. lia.
  - assert (Hpre' : runner_pre (log m w)).
    { destruct Hpre as [HM [H1 [H2 [T [Ha Hd]]]]].
      split; [eapply MI_fle; [|constructor|exact HM]; simpl; auto using incl_refl|].
      split; [eapply R1_fle; [| |exact H1]; reflexivity|].
      split; [eapply R2_same; [|exact H2]; reflexivity|].
      split; [eapply TI_inactive; [exact Ha| | |exact T]; reflexivity|].
      split; [exact Ha|exact Hd]. }
    exact (IH (log m w) Hpre').
  - destruct y as [i|l|l| |].
    + destruct (lookup i (w_env w)) as [f|] eqn:Hl.
      * pose proof (IH (outcome_of f) w Hpre) as A. simpl. unfold child_out. rewrite Hl. simpl.
        destruct (walk (w_env w) (k (outcome_of f))) as [n r0]. simpl in *. lia.
      * destruct Hpre as [HM [H1 [H2 [T [Ha Hd]]]]].
        pose proof (inactive_tstart w Ha) as Ht.
        unfold Psi, rcost, resid, tstart, RM, mcbs in *. wsimpl. cbn [walk youtcome]. unfold child_out.
        rewrite Hl. simpl. lia.
    + destruct Hpre as [HM [H1 [H2 [T [Ha Hd]]]]].
      destruct (multi_step F l false CbRunner w _ I H1 H2 eq_refl) as [A [B [C [D [G P]]]]].
      destruct (multi_cost l false CbRunner w H1 H2) as [E1 [E2 [E3 E4]]].
      destruct (m_result (m_create l false w)) as [o|] eqn:Hres.
      * assert (Hpre' : runner_pre (m_create l false w)).
        { apply (runner_pre_wle w); auto. repeat split; auto. }
        pose proof (IH o _ Hpre') as X. rewrite E1 in X. rewrite (wle_tcbs _ _ D) in X.
        simpl. rewrite P. destruct (walk (w_env w) (k o)) as [n r0]. simpl in *. lia.
      * destruct P as [A' [B' [C' [D' [G' [P1 P2]]]]]].
        pose proof (inactive_tstart w Ha) as Ht.
        rewrite (Psi_wait_multi _ k _ _ P2). unfold tstart in *.
        rewrite (wle_tst _ _ D'), (wle_tcbs _ _ D'). lia.
    + destruct Hpre as [HM [H1 [H2 [T [Ha Hd]]]]].
      destruct (multi_step F l true CbRunner w _ I H1 H2 eq_refl) as [A [B [C [D [G P]]]]].
      destruct (multi_cost l true CbRunner w H1 H2) as [E1 [E2 [E3 E4]]].
      destruct (m_result (m_create l true w)) as [o|] eqn:Hres.
      * assert (Hpre' : runner_pre (m_create l true w)).
        { apply (runner_pre_wle w); auto. repeat split; auto. }
        pose proof (IH o _ Hpre') as X. rewrite E1 in X. rewrite (wle_tcbs _ _ D) in X.
        simpl. rewrite P. destruct (walk (w_env w) (k o)) as [n r0]. simpl in *. lia.
      * destruct P as [A' [B' [C' [D' [G' [P1 P2]]]]]].
        pose proof (inactive_tstart w Ha) as Ht.
        rewrite (Psi_wait_multi _ k _ _ P2). unfold tstart in *.
        rewrite (wle_tst _ _ D'), (wle_tcbs _ _ D'). lia.
    + destruct Hpre as [HM [H1 [H2 [T [Ha Hd]]]]].
      pose proof (inactive_tstart w Ha) as Ht.
      unfold Psi, rcost, resid, tstart, RM, mcbs in *. wsimpl. rewrite app_length. simpl. lia.
    + destruct Hpre as [HM [H1 [H2 [T [Ha Hd]]]]].
      pose proof (inactive_tstart w Ha) as Ht.
      unfold Psi, rcost, resid, tstart, RM, mcbs in *. wsimpl. rewrite app_length. simpl. lia.
  - destruct Hpre as [HM [H1 [H2 [T [Ha Hd]]]]].
    unfold Psi, rcost, task_tree, tcont, tstart, RM, mcbs, r_spawn. wsimpl. rewrite app_length. simpl.
    destruct (walk (w_env w) b) as [nb [o|]]; [destruct (walk (w_env w) (k o)) as [nk rk]|]; simpl; lia.
Qed.

(* ---------- Task.__step epilogue ---------- *)
Lemma settle_cost s b w1 w2 r :
  RI F w1 -> DI w1 -> XI w1 -> active (w_tst w1) -> task_tree w1 = Some b ->
  wle w1 w2 -> cost_post s b w1 w2 r ->
  Psi (w_env w1) (t_settle (w2, r)) <= RM w1 + List.length (w_tcbs w1) + s + 3 * rcost (w_env w1) w1.
Proof.
  intros HR HD HX Ha Htt D [X Y].
  pose proof (wle_rst _ _ D) as Erst. pose proof (wle_dres _ _ D) as Edres.
  pose proof (wle_tcbs _ _ D) as Etcbs.
  destruct (mode_cases w1 HD HX HR Ha) as [[Hd [Hr Hc]]|[Hd [k [Hr Hc]]]].
  - (* native form *)
    assert (Hrc : rcost (w_env w1) w1 = fst (walk (w_env w1) b)).
    { unfold rcost, resid. rewrite Hr, Hd, Htt. reflexivity. }
    rewrite Hrc. destruct r as [o|t']; unfold t_settle, Psi, rcost, resid, task_tree, tstart, RM, mcbs in *; wsimpl;
      rewrite ?Erst, ?Hr, ?Edres, ?Hd, ?Etcbs, ?Hc in *; simpl in *; try rewrite app_nil_r; lia.
  - (* decorated form *)
    assert (Hrc : rcost (w_env w1) w1 = tcont (w_env w1) k b).
    { unfold rcost. rewrite Hr, Htt. reflexivity. }
    rewrite Hrc. unfold tcont.
    destruct (walk (w_env w1) b) as [nb rb] eqn:Hwb. simpl in X, Y.
    destruct r as [o|t']; unfold t_settle, Psi, rcost, task_tree, tcont, tstart, RM, mcbs in *; wsimpl;
      rewrite ?Erst, ?Hr, ?Etcbs, ?Hc in *; simpl in X, Y |- *.
    + subst rb. rewrite app_length. simpl. destruct (walk (w_env w1) (k o)) as [nk rk]. simpl. lia.
    + destruct (walk (w_env w1) t') as [nb' rb'] eqn:Hwt. simpl in X, Y. subst rb'.
      destruct rb as [o|]; [destruct (walk (w_env w1) (k o)) as [nk rk]|]; simpl; lia.
Qed.
