(* C37 proofs, part 6: every event (a future completes / is cancelled; the loop runs one ready
   callback) preserves the invariant. *)
From Coq Require Import List ZArith Bool String Arith Lia.
Import ListNotations.
From TV Require Import Lib.Obs C37.Model C37.ProofsBase C37.ProofsDefs C37.ProofsMulti C37.ProofsAgents C37.ProofsRunner.
Local Open Scope nat_scope.
Local Open Scope list_scope.

Implicit Types S : cb -> Prop.
Implicit Types w : world.

(* ---------- general transport: same futures, the ready queue changes in a controlled way ---------- *)
Lemma waits_gen S S' y c w w' :
  w_env w' = w_env w -> incl (w_fcbs w) (w_fcbs w') -> w_multi w' = w_multi w ->
  (rin S w c -> rin S' w' c) -> waits_ok S y c w -> waits_ok S' y c w'.
Proof.
  intros He Hf Hm Hr H.
  assert (Hg : forall l d, waits_multi S w l d c -> waits_multi S' w' l d c).
  { intros l d [m [Hw [H1 [H2 [H3 H4]]]]]. exists m. rewrite Hm. repeat split; auto. }
  destruct y as [i|l|l| |]; simpl in *; auto.
  rewrite He. destruct H as [H1 H2]. split; intros Hx; auto.
Qed.

Lemma MI_gen S S' w w' :
  w_env w' = w_env w -> incl (w_fcbs w) (w_fcbs w') -> w_multi w' = w_multi w ->
  (forall x, rin S w (CbMulti x) -> rin S' w' (CbMulti x)) -> MI S w -> MI S' w'.
Proof.
  intros He Hf Hm Hr H. unfold MI, MIr in *. rewrite Hm. destruct (w_multi w) as [m|]; [|exact I].
  destruct H as [Hc H]. split; [exact Hc|].
  rewrite He. destruct (m_res m); [exact H|].
  destruct H as [H1 [H2 [H3 H4]]]. repeat split; auto.
  intros c Hc'. destruct (H4 c Hc') as [Hx|[Ha Hb]]; [left; auto|right].
  split; intros Hy; auto.
Qed.

Lemma TI_gen S S' w w' :
  w_env w' = w_env w -> incl (w_fcbs w) (w_fcbs w') -> w_multi w' = w_multi w ->
  w_tst w' = w_tst w -> w_tres w' = w_tres w ->
  (rin S w CbTask -> rin S' w' CbTask) -> TI S w -> TI S' w'.
Proof.
  intros He Hf Hm Ht Hr Hi H. unfold TI in *. rewrite Ht, Hr. destruct (w_tst w); auto.
  - destruct H; split; auto.
  - destruct H as [[y [Hy Hw]] Hn]. split; [|exact Hn]. exists y. split; [exact Hy|].
    eapply waits_gen; eauto.
Qed.

Lemma RI_gen S S' w w' :
  w_env w' = w_env w -> incl (w_fcbs w) (w_fcbs w') -> w_multi w' = w_multi w ->
  w_rst w' = w_rst w -> w_tst w' = w_tst w -> w_tcbs w' = w_tcbs w ->
  (rin S w CbRunner -> rin S' w' CbRunner) -> RI S w -> RI S' w'.
Proof.
  intros He Hf Hm Hrs Ht Hc Hi H. unfold RI in *. rewrite Hrs, Ht, Hc.
  destruct (w_rst w) as [|[i| | |] k|]; auto.
  - eapply (waits_gen S S' (YFut i)); eauto.
  - destruct H as [l [d H]]. exists l, d.
    destruct d; [apply (waits_gen S S' (YDict l) CbRunner w w')|apply (waits_gen S S' (YList l) CbRunner w w')]; auto.
  - destruct (w_tst w); auto.
Qed.

Lemma resid_same w w' :
  w_rst w' = w_rst w -> w_dres w' = w_dres w -> w_tst w' = w_tst w -> w_tres w' = w_tres w ->
  multi_y w' = multi_y w -> resid w' = resid w.
Proof.
  intros H1 H2 H3 H4 H5. unfold resid, task_tree. rewrite H1, H2, H3, H4, H5. reflexivity.
Qed.

Lemma Sem_same t0 w w' :
  resid w' = resid w -> w_trace w' = w_trace w -> ext (w_env w) (w_env w') -> Sem t0 w -> Sem t0 w'.
Proof.
  intros Hr Ht He [t [H1 H2]]. exists t. rewrite Hr, Ht. split; [exact H1|].
  intros E HE. apply H2. eapply ext_trans; eauto.
Qed.

(* ---------- a future completes (set_result / set_exception / cancel) ---------- *)
Section Complete.
  Variables (i : nat) (f : fout) (w : world).
  Hypothesis Hpend : lookup i (w_env w) = None.
  Let mine := filter (fun p : nat * cb => Nat.eqb (fst p) i) (w_fcbs w).
  Let rest := filter (fun p : nat * cb => negb (Nat.eqb (fst p) i)) (w_fcbs w).
  Let w' := pushes (map snd mine) (set_fcbs rest (set_env (w_env w ++ [(i, f)]) w)).

  Lemma cmp_lookup j : lookup j (w_env w') = if Nat.eqb j i then Some f else lookup j (w_env w).
  Proof.
    unfold w'; simpl. rewrite lookup_app.
    destruct (Nat.eqb j i) eqn:E.
    - apply Nat.eqb_eq in E; subst. rewrite Hpend. reflexivity.
    - destruct (lookup j (w_env w)); reflexivity.
  Qed.

  Lemma cmp_ext : ext (w_env w) (w_env w').
  Proof. unfold w'; simpl. apply ext_app; exact Hpend. Qed.

  Lemma cmp_fcbs j c : In (j, c) (w_fcbs w) ->
    (j = i -> In c (w_ready w')) /\ (j <> i -> In (j, c) (w_fcbs w')).
  Proof.
    intros H. unfold w'; simpl. split; intros Hj.
    - apply in_or_app; right. apply in_map_iff. exists (j, c). split; [reflexivity|].
      apply filter_In. split; [exact H|]. simpl. apply Nat.eqb_eq; exact Hj.
    - apply filter_In. split; [exact H|]. simpl. apply negb_true_iff, Nat.eqb_neq; exact Hj.
  Qed.

  Lemma cmp_rin c : rin F w c -> rin F w' c.
  Proof. intros [H|H]; [left; exact H|right; unfold w'; simpl; apply in_or_app; left; exact H]. Qed.

  Lemma cmp_waits y c : waits_ok F y c w -> waits_ok F y c w'.
  Proof.
    intros H.
    assert (Hg : forall l d, waits_multi F w l d c -> waits_multi F w' l d c).
    { intros l d [m [Hw [H1 [H2 [H3 H4]]]]]. exists m. repeat split; auto.
      intros Hx. apply cmp_rin; auto. }
    destruct y as [j|l|l| |]; simpl in *; auto using cmp_rin.
    destruct H as [H1 H2]. rewrite cmp_lookup.
    destruct (Nat.eqb j i) eqn:E.
    - apply Nat.eqb_eq in E; subst j. split; [discriminate|]. intros _.
      right. apply (cmp_fcbs i c (H1 Hpend)). reflexivity.
    - apply Nat.eqb_neq in E. split.
      + intros Hn. apply (cmp_fcbs j c (H1 Hn)). exact E.
      + intros Hn. apply cmp_rin; auto.
  Qed.

  Lemma cmp_inv t0 : Inv F t0 w -> Inv F t0 w'.
  Proof.
    intros [HS HM H1 H2 HT HR HD HX]. constructor.
    - eapply Sem_same; [| |apply cmp_ext|exact HS]; reflexivity.
    - unfold MI, MIr in *. change (w_multi w') with (w_multi w).
      destruct (w_multi w) as [m|]; [|exact I].
      destruct HM as [Hc HM]. split; [exact Hc|].
      destruct (m_res m) as [o|].
      + eapply multi_out_mono; [apply cmp_ext|exact HM].
      + destruct HM as [A [B [C D]]]. repeat split; auto.
        * intros c Hc'. destruct (C c Hc') as [Hu|Hd]; [left; exact Hu|right].
          rewrite cmp_lookup. destruct (Nat.eqb c i); [discriminate|exact Hd].
        * intros c Hc'. destruct (D c Hc') as [[]|Hw]. right.
          exact (cmp_waits (YFut c) (CbMulti c) Hw).
    - intros c Hc. unfold w' in Hc; simpl in Hc. apply in_app_or in Hc. destruct Hc as [Hc|Hc].
      + rewrite cmp_lookup. destruct (Nat.eqb c i); [discriminate|apply H1; exact Hc].
      + apply in_map_iff in Hc. destruct Hc as [[j c'] [Hs Hin]]. simpl in Hs; subst c'.
        apply filter_In in Hin. destruct Hin as [Hin Hj]. simpl in Hj. apply Nat.eqb_eq in Hj; subst j.
        rewrite <- (H2 _ _ Hin). rewrite cmp_lookup, Nat.eqb_refl. discriminate.
    - intros j c Hin. unfold w' in Hin; simpl in Hin. apply filter_In in Hin. apply H2. apply Hin.
    - unfold TI in *. change (w_tst w') with (w_tst w). change (w_tres w') with (w_tres w).
      destruct (w_tst w); auto.
      + destruct HT; split; auto using cmp_rin.
      + destruct HT as [[y [Hy Hw]] Hn]. split; [|exact Hn]. exists y; split; [exact Hy|apply cmp_waits; exact Hw].
    - unfold RI in *. change (w_rst w') with (w_rst w). change (w_tst w') with (w_tst w).
      change (w_tcbs w') with (w_tcbs w).
      destruct (w_rst w) as [|[j| | |] k|]; auto using cmp_rin.
      + exact (cmp_waits (YFut j) CbRunner HR).
      + destruct HR as [l [d HR]]. exists l, d.
        destruct d; [exact (cmp_waits (YDict l) CbRunner HR)|exact (cmp_waits (YList l) CbRunner HR)].
      + destruct (w_tst w); auto using cmp_rin.
    - exact HD.
    - exact HX.
  Qed.
End Complete.

Lemma complete_inv t0 i f w : Inv F t0 w -> Inv F t0 (complete i f w).
Proof.
  intros H. unfold complete. destruct (lookup i (w_env w)) eqn:Hl; [exact H|].
  apply cmp_inv; assumption.
Qed.

Definition env_step (E : env) (e : event) : env :=
  match e with
  | EvDone i f => match lookup i E with Some _ => E | None => E ++ [(i, f)] end
  | EvTick => E
  end.

Lemma complete_env i f w : w_env (complete i f w) = env_step (w_env w) (EvDone i f).
Proof. unfold complete; simpl. destruct (lookup i (w_env w)); reflexivity. Qed.

(* ---------- the loop runs one ready callback ---------- *)
Lemma pop_rin c r w x : w_ready w = c :: r -> rin F w x -> rin (eq c) (set_ready r w) x.
Proof.
  intros Hr [[]|H]. rewrite Hr in H. destruct H as [->|H]; [left; reflexivity|right; exact H].
Qed.

Lemma pop_inv t0 c r w :
  w_ready w = c :: r -> Inv F t0 w -> Inv (eq c) t0 (set_ready r w).
Proof.
  intros Hr [HS HM H1 H2 HT HR HD HX]. constructor.
  - eapply Sem_same; [| |apply ext_refl|exact HS]; reflexivity.
  - eapply MI_gen; [| | | |exact HM]; try reflexivity; [apply incl_refl|]. intros x. apply pop_rin; exact Hr.
  - intros x Hx. apply H1. rewrite Hr. right. exact Hx.
  - exact H2.
  - eapply TI_gen; [| | | | | |exact HT]; try reflexivity; [apply incl_refl|]. apply pop_rin; exact Hr.
  - eapply RI_gen; [| | | | | | |exact HR]; try reflexivity; [apply incl_refl|]. apply pop_rin; exact Hr.
  - exact HD.
  - exact HX.
Qed.

(* dropping the marker when the popped callback belongs to somebody else *)
Lemma unmark_rin c w x : c <> x -> rin (eq c) w x -> rin F w x.
Proof. intros Hne [H|H]; [contradiction|right; exact H]. Qed.

(* -- CbNop -- *)
Lemma nop_inv t0 w : Inv (eq CbNop) t0 w -> Inv F t0 w.
Proof.
  intros [HS HM H1 H2 HT HR HD HX]. constructor; auto.
  - eapply MI_gen; [| | | |exact HM]; try reflexivity; [apply incl_refl|]. intros x. apply unmark_rin; discriminate.
  - eapply TI_gen; [| | | | | |exact HT]; try reflexivity; [apply incl_refl|]. apply unmark_rin; discriminate.
  - eapply RI_gen; [| | | | | | |exact HR]; try reflexivity; [apply incl_refl|]. apply unmark_rin; discriminate.
Qed.

(* -- CbMulti -- *)
Lemma m_callback_same c w :
  let w' := m_callback c w in
  w_trace w' = w_trace w /\ multi_y w' = multi_y w.
Proof.
  unfold m_callback, multi_y. destruct (w_multi w) as [m|] eqn:Hw; simpl; [|rewrite Hw; auto].
  destruct (mem c (m_unf m)); simpl; [|rewrite Hw; auto].
  destruct (rm c (m_unf m)); simpl; [|auto].
  unfold m_resolve; simpl. destruct (multi_out _ _ _); simpl; [auto|rewrite Hw; auto].
Qed.

Lemma multi_inv t0 c w :
  lookup c (w_env w) <> None -> Inv (eq (CbMulti c)) t0 w -> Inv F t0 (m_callback c w).
Proof.
  intros Hd [HS HM H1 H2 HT HR HD HX].
  pose proof (m_callback_wle c w) as Hle.
  destruct (m_callback_same c w) as [Htr Hmy].
  constructor.
  - eapply Sem_same; [| exact Htr | rewrite (wle_env _ _ Hle); apply ext_refl | exact HS].
    apply resid_same; try apply Hle. exact Hmy.
  - pose proof (m_callback_MI (eq (CbMulti c)) F _ c w HM Hd) as A.
    eapply MIr_wle; [| |apply wle_refl|reflexivity|apply A].
    + auto.
    + simpl. tauto.
    + intros x Hne Hx. inversion Hx. congruence.
  - eapply m_callback_R1; eauto.
  - apply m_callback_R2; exact H2.
  - unfold TI in *. rewrite (wle_tst _ _ Hle), (wle_tres _ _ Hle). destruct (w_tst w); auto.
    + destruct HT as [Hr Hn]. split; [|exact Hn].
      apply (rin_wle (eq (CbMulti c)) F w _ CbTask); [discriminate|apply Hle|exact Hr].
    + destruct HT as [[y [Hy Hw]] Hn]. split; [|exact Hn]. exists y. split; [exact Hy|].
      eapply m_callback_waits; [|exact Hw]. discriminate.
  - unfold RI in *. rewrite (wle_rst _ _ Hle), (wle_tst _ _ Hle), (wle_tcbs _ _ Hle).
    destruct (w_rst w) as [|[j| | |] k|]; auto.
    + eapply (m_callback_waits _ F (YFut j)); [|exact HR]. discriminate.
    + destruct HR as [l [d HR]]. exists l, d.
      destruct d; [apply (m_callback_waits (eq (CbMulti c)) F (YDict l))|apply (m_callback_waits (eq (CbMulti c)) F (YList l))];
        try discriminate; exact HR.
    + destruct (w_tst w); auto.
      apply (rin_wle (eq (CbMulti c)) F w _ CbRunner); [discriminate|apply Hle|exact HR].
    + apply (rin_wle (eq (CbMulti c)) F w _ CbRunner); [discriminate|apply Hle|exact HR].
  - unfold DI in *. rewrite (wle_dres _ _ Hle), (wle_rst _ _ Hle), (wle_tcbs _ _ Hle). exact HD.
  - unfold XI in *. rewrite (wle_dres _ _ Hle), (wle_rst _ _ Hle), (wle_tst _ _ Hle). exact HX.
Qed.
