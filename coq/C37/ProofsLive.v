(* C37 proofs, part 11: liveness.  With the set of completed futures fixed, every callback the loop
   runs strictly decreases a potential, so after any schedule finitely many further ticks reach an
   idle loop (no livelock).  Potential = ready-queue length + latent callbacks (multi's and the
   task's done-callbacks) + 3 * (number of suspension points left on the path the body takes under
   the fixed outcomes) (+3 for a task that has not started). *)
From Coq Require Import List ZArith Bool String Arith Lia.
Import ListNotations.
From TV Require Import Lib.Obs C37.Model C37.Run C37.ProofsBase C37.ProofsDefs C37.ProofsMulti C37.ProofsAgents
  C37.ProofsRunner C37.ProofsSteps C37.ProofsMain C37.ProofsCheck C37.ProofsNoSpur.
Local Open Scope nat_scope.
Local Open Scope list_scope.

Implicit Types S : cb -> Prop.
Implicit Types w : world.

(* number of Done/Yld/Call nodes on the path taken under E (Call weighs 3), and how the path ends *)
Fixpoint walk (E : env) (t : itree) : nat * option outcome :=
  match t with
  | Done o => (1, Some o)
  | Eff _ t' => walk E t'
  | Yld y k =>
      match youtcome E y with
      | Some o => let '(n, r) := walk E (k o) in (S n, r)
      | None => (1, None)
      end
  | Call b k =>
      let '(nb, rb) := walk E b in
      match rb with
      | Some o => let '(nk, rk) := walk E (k o) in (3 + nb + nk, rk)
      | None => (3 + nb, None)
      end
  end.

Definition cres (r : tres) : itree := match r with TFin o => Done o | TBlk t => t end.
Definition RM w : nat := List.length (w_ready w) + List.length (mcbs w).

Lemma multi_cost l d c w :
  R1 w -> R2 w ->
  let w1 := m_create l d w in
  w_env w1 = w_env w /\ RM w1 <= RM w /\
  w_env (m_set_cbs [c] w1) = w_env w /\ RM (m_set_cbs [c] w1) <= RM w + 1.
Proof.
  intros H1 H2. destruct (m_create_ok F l d w H1 H2) as [_ [_ [_ [D [E [_ [m [Hm [_ [_ Hcb]]]]]]]]]].
  cbn zeta. split; [apply D|]. unfold RM, mcbs. rewrite Hm, Hcb, E. simpl.
  split; [lia|]. rewrite m_set_cbs_env, m_set_cbs_ready, E.
  split; [apply D|]. unfold m_set_cbs. rewrite Hm. simpl. lia.
Qed.

Definition cost_post (slack : nat) (t : itree) w w' (r : tres) : Prop :=
  snd (walk (w_env w) (cres r)) = snd (walk (w_env w) t) /\
  RM w' + 3 * fst (walk (w_env w) (cres r)) <= RM w + slack + 3 * fst (walk (w_env w) t).

Lemma walk_pos E t : 1 <= fst (walk E t).
Proof.
  induction t as [o|m t IH|y k IH|b IHb k IHk]; simpl; auto.
  - destruct (youtcome E y) as [o|]; [|simpl; lia]. destruct (walk E (k o)); simpl; lia.
  - destruct (walk E b) as [nb [o|]]; [|simpl; lia]. destruct (walk E (k o)); simpl; lia.
Qed.

Lemma tadv_cost t : forall w w' r,
  tadv t w = (w', r) -> MI F w -> R1 w -> R2 w -> cost_post 1 t w w' r.
Proof.
  induction t as [o|m t IH|y k IH|b IHb k IHk]; intros w w' r Hrun HM H1 H2; simpl in Hrun.
  - inversion Hrun; subst. split; [reflexivity|simpl; lia].
  - exact (IH (log m w) w' r Hrun HM H1 H2).
  - destruct y as [i|l|l| |].
    + destruct (lookup i (w_env w)) as [f|] eqn:Hl.
      * destruct (IH _ _ _ _ Hrun HM H1 H2) as [A B]. unfold cost_post. simpl. unfold child_out. rewrite Hl. simpl.
        destruct (walk (w_env w) (k (outcome_of f))) as [n r0]. simpl in *. split; [exact A|lia].
      * inversion Hrun; subst. split; [reflexivity|]. simpl. unfold RM, mcbs. simpl. lia.
    + destruct (multi_step F l false CbTask w _ I H1 H2 eq_refl) as [A [B [C [D [G P]]]]].
      destruct (multi_cost l false CbTask w H1 H2) as [E1 [E2 [E3 E4]]].
      destruct (m_result (m_create l false w)) as [o|] eqn:Hres.
      * destruct (IH _ _ _ _ Hrun A B C) as [X Y]. rewrite E1 in X, Y. unfold cost_post. simpl. rewrite P.
        destruct (walk (w_env w) (k o)) as [n r0]. simpl in *. split; [exact X|lia].
      * inversion Hrun; subst. split; [reflexivity|]. simpl cres. lia.
    + destruct (multi_step F l true CbTask w _ I H1 H2 eq_refl) as [A [B [C [D [G P]]]]].
      destruct (multi_cost l true CbTask w H1 H2) as [E1 [E2 [E3 E4]]].
      destruct (m_result (m_create l true w)) as [o|] eqn:Hres.
      * destruct (IH _ _ _ _ Hrun A B C) as [X Y]. rewrite E1 in X, Y. unfold cost_post. simpl. rewrite P.
        destruct (walk (w_env w) (k o)) as [n r0]. simpl in *. split; [exact X|lia].
      * inversion Hrun; subst. split; [reflexivity|]. simpl cres. lia.
    + inversion Hrun; subst. split; [reflexivity|]. simpl cres. unfold RM, mcbs. simpl. rewrite app_length. simpl. lia.
    + inversion Hrun; subst. split; [reflexivity|]. simpl cres. unfold RM, mcbs. simpl. rewrite app_length. simpl. lia.
  - destruct (tadv b w) as [w1 r1] eqn:Hb.
    destruct (IHb _ _ _ Hb HM H1 H2) as [X Y].
    destruct (tadv_ok _ _ _ _ Hb HM H1 H2) as [A [B [C [D _]]]].
    pose proof (wle_env _ _ D) as Ee.
    unfold cost_post. simpl. destruct (walk (w_env w) b) as [nb rb]. simpl in X, Y.
    destruct r1 as [o|b'].
    + simpl in X, Y. subst rb.
      destruct (IHk _ _ _ _ Hrun A B C) as [X' Y']. rewrite Ee in X', Y'.
      destruct (walk (w_env w) (k o)) as [nk rk]. simpl in *. split; [exact X'|lia].
    + simpl in X, Y. destruct (walk (w_env w) b') as [nb' rb'] eqn:Hwb. simpl in X, Y. subst rb'.
      inversion Hrun; subst w' r. simpl. rewrite Hwb.
      destruct rb as [o|]; [destruct (walk (w_env w) (k o)) as [nk rk]|]; simpl; split; auto; lia.
Qed.

Lemma tresume_cost S t : forall w w' r y,
  tresume t w = (w', r) -> lm t = Some y -> waits_ok S y CbTask w ->
  MI F w -> R1 w -> R2 w -> cost_post 0 t w w' r.
Proof.
  induction t as [o|m t IH|y0 k IH|b IHb k IHk]; intros w w' r y Hrun Hlm Hw HM H1 H2;
    simpl in Hrun, Hlm; try discriminate.
  - inversion Hlm; subst y0.
    destruct (wake_outcome y w) as [o|] eqn:Ho.
    + destruct (tadv_cost _ _ _ _ Hrun HM H1 H2) as [X Y].
      unfold cost_post. simpl. rewrite (wake_sound _ _ _ _ _ Hw HM Ho _ (ext_refl _)).
      destruct (walk (w_env w) (k o)) as [n r0]. simpl in *. split; [exact X|lia].
    + inversion Hrun; subst. split; [reflexivity|]. simpl cres. unfold RM, mcbs. simpl. lia.
  - destruct (tresume b w) as [w1 r1] eqn:Hb.
    destruct (IHb _ _ _ _ Hb Hlm Hw HM H1 H2) as [X Y].
    destruct (tresume_ok _ _ _ _ _ _ Hb Hlm Hw HM H1 H2) as [A [B [C [D _]]]].
    pose proof (wle_env _ _ D) as Ee.
    unfold cost_post. simpl. destruct (walk (w_env w) b) as [nb rb]. simpl in X, Y.
    destruct r1 as [o|b'].
    + simpl in X, Y. subst rb.
      destruct (tadv_cost _ _ _ _ Hrun A B C) as [X' Y']. rewrite Ee in X', Y'.
      destruct (walk (w_env w) (k o)) as [nk rk]. simpl in *. split; [exact X'|lia].
    + simpl in X, Y. destruct (walk (w_env w) b') as [nb' rb'] eqn:Hwb. simpl in X, Y. subst rb'.
      inversion Hrun; subst w' r. simpl. rewrite Hwb.
      destruct rb as [o|]; [destruct (walk (w_env w) (k o)) as [nk rk]|]; simpl; split; auto; lia.
Qed.
