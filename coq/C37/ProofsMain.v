(* C37 proofs, part 7: the task / runner callbacks, the tick, whole schedules, quiescence, and the
   equivalence of the two forms. *)
From Coq Require Import List ZArith Bool String Arith Lia.
Import ListNotations.
From TV Require Import Lib.Obs C37.Model C37.ProofsBase C37.ProofsDefs C37.ProofsMulti C37.ProofsAgents
  C37.ProofsRunner C37.ProofsSteps.
Local Open Scope nat_scope.
Local Open Scope list_scope.

Implicit Types S : cb -> Prop.
Implicit Types w : world.

Lemma mode_cases w : DI w -> XI w -> RI F w -> active (w_tst w) ->
  (w_dres w = DNoFuture /\ w_rst w = RNone /\ w_tcbs w = []) \/
  (w_dres w <> DNoFuture /\ exists k, w_rst w = RWait RfTask k /\ w_tcbs w = [CbNop; CbRunner]).
Proof.
  intros HD HX HR Ha. unfold DI, XI in *. destruct (w_dres w) eqn:Hd.
  - left. tauto.
  - right. split; [discriminate|]. destruct (HX ltac:(discriminate) Ha) as [k Hk].
    exists k. split; [exact Hk|]. unfold RI in HR. rewrite Hk in HR.
    destruct (w_tst w); simpl in Ha; try contradiction; exact HR.
  - right. split; [discriminate|]. destruct (HX ltac:(discriminate) Ha) as [k Hk].
    exists k. split; [exact Hk|]. unfold RI in HR. rewrite Hk in HR.
    destruct (w_tst w); simpl in Ha; try contradiction; exact HR.
Qed.

(* ---------- Task.__step epilogue ---------- *)
Lemma settle_ok t0 b w1 w2 r :
  Sem t0 w1 -> RI F w1 -> DI w1 -> XI w1 -> active (w_tst w1) -> task_tree w1 = Some b ->
  w_tres w1 = None -> task_post b w1 w2 r ->
  Inv F t0 (t_settle (w2, r)) /\ w_env (t_settle (w2, r)) = w_env w1.
Proof.
  intros [t [Hres Hsem]] HR HD HX Ha Htt Htr [A [B [C [D P]]]].
  pose proof (wle_env _ _ D) as Eenv. pose proof (wle_rst _ _ D) as Erst.
  pose proof (wle_dres _ _ D) as Edres. pose proof (wle_tcbs _ _ D) as Etcbs.
  pose proof (wle_tres _ _ D) as Etres. pose proof (wle_tst _ _ D) as Etst.
  destruct (mode_cases w1 HD HX HR Ha) as [[Hd [Hr Hc]]|[Hd [k [Hr Hc]]]].
  - (* native form: this task is the whole coroutine *)
    assert (Ht : t = b). { unfold resid in Hres. rewrite Hr, Hd in Hres. congruence. }
    subst t.
    destruct r as [o|t']; unfold t_settle.
    + split; [|exact Eenv]. constructor.
      * exists (Done o). split.
        -- unfold resid, task_tree; wsimpl. rewrite Erst, Hr, Edres, Hd. reflexivity.
        -- intros E HE. wsimpl. rewrite Eenv in HE. rewrite (Hsem E HE), (P E HE). reflexivity.
      * eapply MI_gen; [| | | |exact A]; try reflexivity; [apply incl_refl|].
        intros x [[]|Hx]; right; wsimpl; apply in_or_app; left; exact Hx.
      * apply R1_pushes; [rewrite Etcbs, Hc; constructor|].
        eapply R1_fle; [| |exact B]; reflexivity.
      * eapply R2_same; [|exact C]; reflexivity.
      * unfold TI; wsimpl. discriminate.
      * unfold RI; wsimpl. rewrite Erst, Hr. exact I.
      * unfold DI; wsimpl. rewrite Edres, Hd, Erst. auto.
      * unfold XI; wsimpl. intros _ [].
    + destruct P as [[y [Hy Hw]] P].
      split; [|exact Eenv]. constructor.
      * exists t'. split.
        -- unfold resid, task_tree; wsimpl. rewrite Erst, Hr, Edres, Hd. reflexivity.
        -- intros E HE. wsimpl. rewrite Eenv in HE. rewrite (Hsem E HE), (P E HE). reflexivity.
      * eapply MI_gen; [| | | |exact A]; try reflexivity; [apply incl_refl|]. auto.
      * eapply R1_fle; [| |exact B]; reflexivity.
      * eapply R2_same; [|exact C]; reflexivity.
      * unfold TI; wsimpl. split; [|congruence]. exists y. split; [exact Hy|].
        eapply waits_gen; [| | | |exact Hw]; try reflexivity; [apply incl_refl|auto].
      * unfold RI; wsimpl. rewrite Erst, Hr. exact I.
      * unfold DI; wsimpl. rewrite Edres, Hd, Erst, Etcbs. auto.
      * unfold XI; wsimpl. intros Hx. rewrite Edres in Hx. contradiction.
  - (* decorated form: the task runs a nested native coroutine for the Runner *)
    assert (Ht : t = Call b k). { unfold resid in Hres. rewrite Hr, Htt in Hres. simpl in Hres. congruence. }
    subst t.
    destruct r as [o|t']; unfold t_settle.
    + split; [|exact Eenv]. constructor.
      * exists (Call (Done o) k). split.
        -- unfold resid, task_tree; wsimpl. rewrite Erst, Hr. reflexivity.
        -- intros E HE. wsimpl. rewrite Eenv in HE. rewrite (Hsem E HE). simpl. rewrite (P E HE). reflexivity.
      * eapply MI_gen; [| | | |exact A]; try reflexivity; [apply incl_refl|].
        intros x [[]|Hx]; right; wsimpl; apply in_or_app; left; exact Hx.
      * apply R1_pushes; [rewrite Etcbs, Hc; repeat constructor|].
        eapply R1_fle; [| |exact B]; reflexivity.
      * eapply R2_same; [|exact C]; reflexivity.
      * unfold TI; wsimpl. discriminate.
      * unfold RI; wsimpl. rewrite Erst, Hr. right. rewrite Etcbs, Hc.
        apply in_or_app; right; right; left; reflexivity.
      * unfold DI in *; wsimpl. rewrite Edres, Erst. destruct (w_dres w1); [contradiction| |]; exact HD.
      * unfold XI; wsimpl. intros _ [].
    + destruct P as [[y [Hy Hw]] P].
      split; [|exact Eenv]. constructor.
      * exists (Call t' k). split.
        -- unfold resid, task_tree; wsimpl. rewrite Erst, Hr. reflexivity.
        -- intros E HE. wsimpl. rewrite Eenv in HE. rewrite (Hsem E HE). simpl. rewrite (P E HE). reflexivity.
      * eapply MI_gen; [| | | |exact A]; try reflexivity; [apply incl_refl|]. auto.
      * eapply R1_fle; [| |exact B]; reflexivity.
      * eapply R2_same; [|exact C]; reflexivity.
      * unfold TI; wsimpl. split; [|congruence]. exists y. split; [exact Hy|].
        eapply waits_gen; [| | | |exact Hw]; try reflexivity; [apply incl_refl|auto].
      * unfold RI; wsimpl. rewrite Erst, Hr, Etcbs. exact Hc.
      * unfold DI in *; wsimpl. rewrite Edres, Erst. destruct (w_dres w1); [contradiction| |]; exact HD.
      * unfold XI; wsimpl. intros _ _. rewrite Erst. eauto.
Qed.

Lemma spur_inv t0 w : Inv F t0 w -> Inv F t0 (set_spur w).
Proof.
  intros [HS HM H1 H2 HT HR HD HX].
  constructor; [exact HS|exact HM|exact H1|exact H2|exact HT|exact HR|exact HD|exact HX].
Qed.

Lemma task_inv t0 w : Inv (eq CbTask) t0 w -> Inv F t0 (task_cb w) /\ w_env (task_cb w) = w_env w.
Proof.
  intros [HS HM H1 H2 HT HR HD HX].
  assert (HMF : MI F w).
  { eapply MI_gen; [| | | |exact HM]; try reflexivity; [apply incl_refl|]. intros x. apply unmark_rin; discriminate. }
  assert (HRF : RI F w).
  { eapply RI_gen; [| | | | | | |exact HR]; try reflexivity; [apply incl_refl|]. apply unmark_rin; discriminate. }
  unfold task_cb. unfold TI in HT. destruct (w_tst w) as [|b|t|] eqn:Htst.
  - split; [|reflexivity].
    constructor; [exact HS|exact HMF|exact H1|exact H2| |exact HRF|exact HD|exact HX].
    unfold TI; rewrite Htst; exact I.
  - destruct HT as [_ Hn]. destruct (tadv b w) as [w2 r] eqn:Hrun.
    apply (settle_ok t0 b w w2 r); auto.
    + rewrite Htst; exact I.
    + unfold task_tree; rewrite Htst; reflexivity.
    + apply tadv_ok; auto.
  - destruct HT as [[y [Hy Hw]] Hn]. destruct (tresume t w) as [w2 r] eqn:Hrun.
    apply (settle_ok t0 t w w2 r); auto.
    + rewrite Htst; exact I.
    + unfold task_tree; rewrite Htst; reflexivity.
    + eapply tresume_ok; eauto.
  - split; [|reflexivity].
    constructor; [exact HS|exact HMF|exact H1|exact H2| |exact HRF|exact HD|exact HX].
    unfold TI; rewrite Htst; exact HT.
Qed.

(* ---------- Runner.run as a callback ---------- *)
Lemma runner_inv t0 w : Inv (eq CbRunner) t0 w -> Inv F t0 (runner_cb w) /\ w_env (runner_cb w) = w_env w.
Proof.
  intros [HS HM H1 H2 HT HR HD HX].
  assert (HMF : MI F w).
  { eapply MI_gen; [| | | |exact HM]; try reflexivity; [apply incl_refl|]. intros x. apply unmark_rin; discriminate. }
  assert (HTF : TI F w).
  { eapply TI_gen; [| | | | | |exact HT]; try reflexivity; [apply incl_refl|]. apply unmark_rin; discriminate. }
  unfold runner_cb. destruct (w_rst w) as [|f k|] eqn:Hrst.
  - split; [|reflexivity].
    constructor; [exact HS|exact HMF|exact H1|exact H2|exact HTF| |exact HD|exact HX].
    unfold RI; rewrite Hrst; exact I.
  - set (oo := match f with
               | RfExt i => child_out (w_env w) i
               | RfMulti => m_result w
               | RfTask => w_tres w
               | RfMoment => Some (OVal ONone)
               end).
    destruct oo as [o|] eqn:Hoo; subst oo.
    + (* the awaited future is done: resume the generator *)
      assert (Hdres : w_dres w = DPending).
      { unfold DI in HD. destruct (w_dres w); [destruct HD; congruence|reflexivity|destruct HD; congruence]. }
      assert (Hna : ~ active (w_tst w)).
      { intros Ha. destruct (HX ltac:(rewrite Hdres; discriminate) Ha) as [k' Hk'].
        rewrite Hrst in Hk'. inversion Hk'; subst f.
        unfold TI in HTF. destruct (w_tst w); simpl in Ha; try contradiction; destruct HTF; congruence. }
      destruct (rrun_ok (k o) w) as [A [B [C [D [G [H [X [Ee [t' [Hres P]]]]]]]]]].
      { repeat split; auto. }
      split; [|exact Ee]. constructor; auto.
      destruct HS as [t [Hrt Hsem]]. exists t'. split; [exact Hres|].
      intros E HE. rewrite Ee in HE. rewrite (Hsem E HE), <- (P E HE).
      (* the old residual tree steps to (k o) *)
      unfold resid in Hrt. rewrite Hrst in Hrt. unfold RI in HR. rewrite Hrst in HR.
      destruct f as [i| | |].
      * inversion Hrt; subst t. simpl. rewrite (child_out_mono _ _ _ _ HE Hoo). reflexivity.
      * destruct HR as [l [d [m [Hm [Hl [Hdd _]]]]]].
        unfold multi_y in Hrt. rewrite Hm in Hrt. simpl in Hrt. inversion Hrt; subst t.
        unfold m_result in Hoo. rewrite Hm in Hoo.
        unfold MI, MIr in HMF. rewrite Hm in HMF. destruct HMF as [_ HMF]. rewrite Hoo in HMF.
        pose proof (multi_out_mono _ _ _ _ _ HE HMF) as Hmo.
        destruct (m_dict m); simpl; rewrite Hmo; reflexivity.
      * unfold task_tree in Hrt. unfold TI in HTF.
        destruct (w_tst w); simpl in Hrt; try discriminate.
        -- destruct HTF; congruence.
        -- destruct HTF as [_ HTF]; congruence.
        -- rewrite Hoo in Hrt. simpl in Hrt. inversion Hrt; subst t. reflexivity.
      * inversion Hrt; subst t. inversion Hoo; subst o. reflexivity.
    + (* `if not future.done(): return` *)
      split; [|reflexivity].
      constructor; [exact HS|exact HMF|exact H1|exact H2|exact HTF| |exact HD|exact HX].
      unfold RI in *. rewrite Hrst in *.
      destruct f as [i| | |].
      * simpl in HR |- *. unfold child_out in Hoo. destruct HR as [Ha Hb].
        destruct (lookup i (w_env w)) eqn:Hl; [discriminate|].
        split; [exact Ha|intros Hx; congruence].
      * destruct HR as [l [d [m [Hm [Hl [Hdd [Ha Hb]]]]]]]. exists l, d, m.
        unfold m_result in Hoo. rewrite Hm in Hoo.
        repeat split; auto. intros Hx; congruence.
      * unfold TI in HTF. destruct (w_tst w); auto. congruence.
      * discriminate.
  - split; [|reflexivity].
    constructor; [exact HS|exact HMF|exact H1|exact H2|exact HTF| |exact HD|exact HX].
    unfold RI; rewrite Hrst; exact I.
Qed.

(* ---------- one event ---------- *)
Lemma tick_inv t0 w : Inv F t0 w -> Inv F t0 (tick w) /\ w_env (tick w) = w_env w.
Proof.
  intros H. unfold tick. destruct (w_ready w) as [|c r] eqn:Hr; [auto|].
  pose proof (pop_inv t0 c r w Hr H) as Hp.
  destruct c as [|x| |]; simpl.
  - apply (runner_inv t0 (set_ready r w)); exact Hp.
  - split.
    + apply multi_inv; [|exact Hp]. apply (inv_r1 _ _ _ H). rewrite Hr. left; reflexivity.
    + apply (wle_env _ _ (m_callback_wle x (set_ready r w))).
  - apply (task_inv t0 (set_ready r w)); exact Hp.
  - split; [apply nop_inv; exact Hp|reflexivity].
Qed.

Lemma step_inv t0 w e : Inv F t0 w -> Inv F t0 (step w e) /\ w_env (step w e) = env_step (w_env w) e.
Proof.
  intros H. destruct e as [i f|]; simpl.
  - split; [apply complete_inv; exact H|apply complete_env].
  - apply tick_inv; exact H.
Qed.

Lemma run_inv t0 s : forall w,
  Inv F t0 w -> Inv F t0 (run w s) /\ w_env (run w s) = fold_left env_step s (w_env w).
Proof.
  unfold run. induction s as [|e s IH]; intros w H; simpl; [auto|].
  destruct (step_inv t0 w e H) as [H' He]. rewrite <- He. apply IH; exact H'.
Qed.

(* ---------- the two ways of starting the coroutine ---------- *)
Lemma start_nat_inv p E : Inv F (body p) (start_nat p E).
Proof.
  unfold start_nat. constructor.
  - exists (body p). split; [reflexivity|]. intros; reflexivity.
  - exact I.
  - intros c Hc. simpl in Hc. destruct Hc as [Hc|[]]. discriminate.
  - intros i c Hc. simpl in Hc. contradiction.
  - unfold TI; simpl. split; [right; left; reflexivity|reflexivity].
  - exact I.
  - unfold DI; simpl. auto.
  - unfold XI; simpl. intros Hx; contradiction.
Qed.

Lemma start_dec_inv p E : Inv F (body p) (start_dec p E).
Proof.
  unfold start_dec.
  destruct (rfirst_ok (body p) (set_dres DPending (w0 E))) as [A [B [C [D [G [H [X [Ee [t' [Hres P]]]]]]]]]].
  - split; [exact I|]. split; [intros c []|]. split; [intros i c []|].
    split; [exact I|]. split; [intros []|reflexivity].
  - reflexivity.
  - constructor; auto. exists t'. split; [exact Hres|]. intros E' HE. apply P. rewrite Ee in HE. exact HE.
Qed.

Lemma start_env_nat p E : w_env (start_nat p E) = E.
Proof. reflexivity. Qed.

Lemma start_env_dec p E : w_env (start_dec p E) = E.
Proof.
  unfold start_dec.
  destruct (rfirst_ok (body p) (set_dres DPending (w0 E))) as [_ [_ [_ [_ [_ [_ [_ [Ee _]]]]]]]].
  - split; [exact I|]. split; [intros c []|]. split; [intros i c []|].
    split; [exact I|]. split; [intros []|reflexivity].
  - reflexivity.
  - exact Ee.
Qed.

(* ---------- quiescence: nothing left in the ready queue ---------- *)
Definition rres_of (s : status) : rres := match s with StPending => RBlk | StSet o => RFin o end.

Lemma waits_blocked y c w : w_ready w = [] -> MI F w -> waits_ok F y c w -> youtcome (w_env w) y = None.
Proof.
  intros Hq HM Hw.
  assert (Hno : forall x, ~ rin F w x). { intros x [[]|Hx]. rewrite Hq in Hx. contradiction. }
  assert (Hg : forall l d, waits_multi F w l d c -> multi_out (w_env w) l d = None).
  { intros l d [m [Hm [Hl [Hd [Ha Hb]]]]]. unfold MI, MIr in HM. rewrite Hm in HM. destruct HM as [_ HM].
    destruct (m_res m) as [o|] eqn:Hres.
    - exfalso. apply (Hno c). apply Hb. discriminate.
    - destruct HM as [A [B [C D]]]. destruct (m_unf m) as [|u us] eqn:Hu; [congruence|].
      assert (Hin : In u (u :: us)) by (left; reflexivity).
      destruct (D u Hin) as [[]|[D1 D2]].
      destruct (lookup u (w_env w)) eqn:Hlu.
      + exfalso. apply (Hno (CbMulti u)). apply D2. discriminate.
      + rewrite <- Hl, <- Hd. eapply multi_out_pending; [apply B; exact Hin|exact Hlu]. }
  destruct y as [i|l|l| |]; simpl in *; auto.
  - destruct Hw as [_ Hb]. unfold child_out. destruct (lookup i (w_env w)); [|reflexivity].
    exfalso. apply (Hno c). apply Hb. discriminate.
  - exfalso. exact (Hno c Hw).
  - exfalso. exact (Hno c Hw).
Qed.

Lemma task_quiescent w b tr :
  w_ready w = [] -> MI F w -> TI F w -> task_tree w = Some b ->
  ref (w_env w) b tr = (tr, match w_tres w with Some o => RFin o | None => RBlk end).
Proof.
  intros Hq HM HT Hb. unfold task_tree, TI in *. destruct (w_tst w) as [|b0|t|]; try discriminate.
  - destruct HT as [[[]|Hx] _]. rewrite Hq in Hx. contradiction.
  - destruct HT as [[y [Hy Hw]] Hn]. inversion Hb; subst b. rewrite Hn.
    eapply ref_blocked; [exact Hy|]. eapply waits_blocked; eauto.
  - destruct (w_tres w) as [o|]; [|contradiction]. inversion Hb; subst b. reflexivity.
Qed.

Theorem quiescent_is_reference t0 w :
  Inv F t0 w -> w_ready w = [] ->
  ref (w_env w) t0 [] = (w_trace w, rres_of (status_of w)).
Proof.
  intros [[t [Hres Hsem]] HM H1 H2 HT HR HD HX] Hq.
  rewrite (Hsem _ (ext_refl _)).
  assert (Hno : forall x, ~ rin F w x). { intros x [[]|Hx]. rewrite Hq in Hx. contradiction. }
  unfold resid, RI, DI, status_of in *.
  destruct (w_rst w) as [|[i| | |] k|] eqn:Hrst.
  - destruct (w_dres w) as [| |o] eqn:Hd; try discriminate.
    + rewrite (task_quiescent w t (w_trace w) Hq HM HT Hres). destruct (w_tres w); reflexivity.
    + inversion Hres; subst t. reflexivity.
  - assert (Hd : w_dres w = DPending).
    { destruct (w_dres w); [destruct HD; congruence|reflexivity|destruct HD; congruence]. }
    rewrite Hd. inversion Hres; subst t. simpl.
    rewrite (waits_blocked (YFut i) CbRunner w Hq HM HR : child_out _ _ = None). reflexivity.
  - assert (Hd : w_dres w = DPending).
    { destruct (w_dres w); [destruct HD; congruence|reflexivity|destruct HD; congruence]. }
    rewrite Hd. destruct HR as [l [d HR]].
    assert (Hy : multi_y w = Some (if d then YDict l else YList l)).
    { destruct HR as [m [Hm [Hl [Hdd _]]]]. unfold multi_y. rewrite Hm, Hl, Hdd. reflexivity. }
    rewrite Hy in Hres. simpl in Hres. inversion Hres; subst t.
    destruct d; simpl.
    + rewrite (waits_blocked (YDict l) CbRunner w Hq HM HR : multi_out _ _ _ = None). reflexivity.
    + rewrite (waits_blocked (YList l) CbRunner w Hq HM HR : multi_out _ _ _ = None). reflexivity.
  - assert (Hd : w_dres w = DPending).
    { destruct (w_dres w); [destruct HD; congruence|reflexivity|destruct HD; congruence]. }
    rewrite Hd. destruct (task_tree w) as [b|] eqn:Hb; simpl in Hres; [|discriminate].
    inversion Hres; subst t. simpl.
    rewrite (task_quiescent w b (w_trace w) Hq HM HT Hb).
    destruct (w_tres w) as [o|] eqn:Htr; [|reflexivity].
    exfalso. unfold task_tree, TI in *. destruct (w_tst w).
    + discriminate.
    + destruct HT; congruence.
    + destruct HT; congruence.
    + exact (Hno _ HR).
  - exfalso. exact (Hno _ HR).
  - destruct (w_dres w) as [| |o] eqn:Hd; try discriminate. inversion Hres; subst t. reflexivity.
Qed.

(* ---------- main theorems ---------- *)
Definition final_env (pre : list (nat * fout)) (s : list event) : env :=
  fold_left env_step s (mkenv pre []).

Theorem dec_is_reference p pre s :
  let w := run (start_dec p (mkenv pre [])) s in
  w_ready w = [] ->
  ref (final_env pre s) (body p) [] = (w_trace w, rres_of (status_of w)).
Proof.
  intros w Hq. destruct (run_inv (body p) s _ (start_dec_inv p (mkenv pre []))) as [Hi He].
  fold w in Hi, He. rewrite start_env_dec in He. unfold final_env. rewrite <- He.
  apply quiescent_is_reference; assumption.
Qed.

Theorem nat_is_reference p pre s :
  let w := run (start_nat p (mkenv pre [])) s in
  w_ready w = [] ->
  ref (final_env pre s) (body p) [] = (w_trace w, rres_of (status_of w)).
Proof.
  intros w Hq. destruct (run_inv (body p) s _ (start_nat_inv p (mkenv pre []))) as [Hi He].
  fold w in Hi, He. rewrite start_env_nat in He. unfold final_env. rewrite <- He.
  apply quiescent_is_reference; assumption.
Qed.

Lemma rres_of_inj a b : rres_of a = rres_of b -> a = b.
Proof. destruct a, b; simpl; intros H; congruence. Qed.

Theorem forms_equivalent p pre s :
  let wd := run (start_dec p (mkenv pre [])) s in
  let wn := run (start_nat p (mkenv pre [])) s in
  w_ready wd = [] -> w_ready wn = [] ->
  status_of wd = status_of wn /\ w_trace wd = w_trace wn.
Proof.
  intros wd wn Hd Hn.
  pose proof (dec_is_reference p pre s Hd) as A. pose proof (nat_is_reference p pre s Hn) as B.
  fold wd in A. fold wn in B. rewrite A in B. inversion B. split; [apply rres_of_inj; assumption|reflexivity].
Qed.
