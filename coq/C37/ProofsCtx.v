(* C37 proofs, part 14: (a) an awaited future that failed or was cancelled acts, at ANY position of
   the program, exactly like a `raise` of that exception at the yield (so the surrounding
   except/finally blocks of the decorated coroutine react as for a native one);
   (b) the wrapper's first-iteration fast path. *)
From Coq Require Import List ZArith Bool String Arith Lia.
Import ListNotations.
From TV Require Import Lib.Obs C37.Model C37.Run C37.ProofsBase C37.ProofsDefs C37.ProofsAgents
  C37.ProofsRunner C37.ProofsMain.
Local Open Scope nat_scope.
Local Open Scope list_scope.

(* one-hole program contexts: every position of the grammar *)
Inductive pctx :=
| XHole
| XSeqL (c : pctx) (b : stmt)
| XSeqR (a : stmt) (c : pctx)
| XCall (c : pctx)
| XTryXB (c : pctx) (p : hpat) (h : stmt)
| XTryXH (b : stmt) (p : hpat) (c : pctx)
| XTryFB (c : pctx) (f : stmt)
| XTryFF (b : stmt) (c : pctx)
| XWithVar (n : nat) (c : pctx).

Fixpoint plug (c : pctx) (s : stmt) : stmt :=
  match c with
  | XHole => s
  | XSeqL c b => SSeq (plug c s) b
  | XSeqR a c => SSeq a (plug c s)
  | XCall c => SCall (plug c s)
  | XTryXB c p h => STryExcept (plug c s) p h
  | XTryXH b p c => STryExcept b p (plug c s)
  | XTryFB c f => STryFinally (plug c s) f
  | XTryFF b c => STryFinally b (plug c s)
  | XWithVar n c => SWithVar n (plug c s)
  end.

Lemma denote_cong E a : forall v k1 k2,
  (forall c v' tr, ref E (k1 c v') tr = ref E (k2 c v') tr) ->
  forall tr, ref E (denote a v k1) tr = ref E (denote a v k2) tr.
Proof.
  induction a as [|n|y|b IHb|n|e|a IHa b IHb|b IHb p h IHh|b IHb f IHf|n| |n b IHb];
    intros v k1 k2 H tr; simpl; auto.
  - destruct (youtcome E y) as [[x|e]|]; simpl; auto.
  - destruct (ref E (denote b v (fun c _ => top c)) tr) as [tr' [[x|e]|]]; simpl; auto.
  - apply IHa. intros [| |e] v' tr'; auto.
  - apply IHb. intros [| |e] v' tr'; auto. destruct (matches p e); simpl; auto.
  - apply IHb. intros c v' tr'. apply IHf. intros [| |e] v'' tr''; auto.
Qed.

Lemma plug_cong E s1 s2 :
  (forall v k tr, ref E (denote s1 v k) tr = ref E (denote s2 v k) tr) ->
  forall c v k tr, ref E (denote (plug c s1) v k) tr = ref E (denote (plug c s2) v k) tr.
Proof.
  intros H c. induction c as [|c IH b|a c IH|c IH|c IH p h|b p c IH|c IH f|b c IH|n c IH]; intros v k tr; simpl; auto.
  - apply denote_cong. intros [| |e] v' tr'; auto.
  - rewrite IH. reflexivity.
  - apply denote_cong. intros [| |e] v' tr'; auto. destruct (matches p e); simpl; auto.
  - apply denote_cong. intros c' v' tr'. apply IH.
Qed.

Lemma failed_await_is_raise_ref E i e :
  child_out E i = Some (OExc e) ->
  forall c v k tr, ref E (denote (plug c (SYield (YFut i))) v k) tr = ref E (denote (plug c (SRaise e)) v k) tr.
Proof.
  intros H. apply plug_cong. intros v k tr. simpl. rewrite H. reflexivity.
Qed.

Theorem failed_await_is_raise c i e pre s :
  child_out (final_env pre s) i = Some (OExc e) ->
  let w1 := run (start_dec (plug c (SYield (YFut i))) (mkenv pre [])) s in
  let w2 := run (start_dec (plug c (SRaise e)) (mkenv pre [])) s in
  w_ready w1 = [] -> w_ready w2 = [] ->
  status_of w1 = status_of w2 /\ w_trace w1 = w_trace w2.
Proof.
  intros H w1 w2 Q1 Q2.
  pose proof (dec_is_reference _ pre s Q1) as A. pose proof (dec_is_reference _ pre s Q2) as B.
  fold w1 in A. fold w2 in B. unfold body in A, B.
  rewrite (failed_await_is_raise_ref _ i e H c v_caller (fun c _ => top c) []) in A. rewrite A in B. inversion B.
  split; [apply rres_of_inj; assumption|reflexivity].
Qed.

(* ---------- the fast path ---------- *)
Fixpoint noyield (s : stmt) : bool :=
  match s with
  | SYield _ | SCall _ => false
  | SSeq a b => noyield a && noyield b
  | STryExcept b _ h => noyield b && noyield h
  | STryFinally b f => noyield b && noyield f
  | SWithVar _ b => noyield b
  | _ => true
  end.

Fixpoint pure (t : itree) : Prop :=
  match t with Done _ => True | Eff _ t' => pure t' | _ => False end.

Lemma denote_pure s : noyield s = true -> forall v k, (forall c v', pure (k c v')) -> pure (denote s v k).
Proof.
  induction s as [|n|y|b IHb|n|e|a IHa b IHb|b IHb p h IHh|b IHb f IHf|n| |n b IHb];
    simpl; intros Hn v k Hk; auto; try discriminate.
  - apply andb_true_iff in Hn. destruct Hn as [Ha Hb]. apply IHa; auto. intros [| |e] v'; auto.
  - apply andb_true_iff in Hn. destruct Hn as [Hb Hh]. apply IHb; auto. intros [| |e] v'; auto.
    destruct (matches p e); simpl; auto.
  - apply andb_true_iff in Hn. destruct Hn as [Hb Hf]. apply IHb; auto. intros c v'. apply IHf; auto.
    intros [| |e] v''; auto.
Qed.

Lemma rfirst_pure t : pure t -> forall w,
  w_ready (rfirst t w) = w_ready w /\ w_rst (rfirst t w) = w_rst w /\ w_fcbs (rfirst t w) = w_fcbs w /\
  exists o, w_dres (rfirst t w) = DSet o.
Proof.
  induction t as [o|m t IH|y k IH|b IHb k IHk]; simpl; intros Hp w; try contradiction.
  - eauto.
  - destruct (IH Hp (log m w)) as [A [B [C D]]]. auto.
Qed.

(* a body that never yields: the decorated call returns an already settled future; no Runner is
   created, nothing is queued or registered; the result is the reference result *)
Theorem fast_path p pre :
  noyield p = true ->
  let w := start_dec p (mkenv pre []) in
  w_ready w = [] /\ w_rst w = RNone /\ w_fcbs w = [] /\
  exists o, status_of w = StSet o /\ ref (mkenv pre []) (body p) [] = (w_trace w, RFin o).
Proof.
  intros Hn w.
  assert (Hp : pure (body p)) by (apply denote_pure; [exact Hn|intros [| |e] v'; exact I]).
  destruct (rfirst_pure _ Hp (set_dres DPending (w0 (mkenv pre [])))) as [A [B [C [o D]]]].
  fold (start_dec p (mkenv pre [])) in A, B, C, D. fold w in A, B, C, D.
  split; [exact A|]. split; [exact B|]. split; [exact C|].
  exists o. assert (Hs : status_of w = StSet o) by (unfold status_of; rewrite D; reflexivity).
  split; [exact Hs|].
  pose proof (dec_is_reference p pre [] A) as R. unfold final_env in R. simpl in R.
  fold w in R. rewrite Hs in R. exact R.
Qed.
